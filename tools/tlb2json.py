#!/usr/bin/env python3
"""tlb2json.py: a small independent TL-B reader (not derived from tlb/parser) for the subset used in
spec/schemas/*.tlb -> the type AST of DESIGN.md A.4 as JSON: {TypeName: ast}.
Constructor names become CamelCase (addr_std -> AddrStd) so that they match the Go SumType names.
Grammar handled:  decl := [ctor][tag] field* '=' TypeName ';'   |   TypeName '=' type ';' (alias)
  field := name ':' type
  type  := '(' type ')' | '^' type | '##' n | '#<=' n | '#<' n | 'bits' n-or-field | 'Maybe' type | 'Either' type type
         | 'VarUInteger' n | 'HashmapE' n type | uintN | intN | bitsN | Bool | Unary | Cell | Any | TypeName
Extensions used by spec/schemas/block_more.tlb (the output for files that do not use them is unchanged):
  '#' (= ## 32) | '{' ... '}' (implicit fields and constraints: skipped, they occupy no bits)
  '^[' field* ']' anonymous record in a reference: field named _anonK of type ^(seq)
  name ':' cond '?' type        conditional field, cond := field | field '.' bit       -> {"t":"cond","from":field,"bit":k|-1,"of":type}
  '(' TypeName arg ')'          use of a type parametrised by a number, arg := field | n -> {"t":"pnamed","name":T,"arg":arg}
  '=' TypeName n                constructor of the parametrised type for parameter n     -> {"t":"psum","ctors":[{"param":n,...}]}
  field name '_' is allowed (account_active$1 _:StateInit)."""
import json, re, sys

def camel(s):
    return "".join(p[:1].upper() + p[1:] for p in s.split("_"))

def tokenize(s):
    return re.findall(r"\(|\)|\[|\]|\^|\?|\.|:|##|#<=|#<|#|[A-Za-z_][A-Za-z_0-9]*|\d+", s)

class P:
    def __init__(self, toks): self.t, self.i = toks, 0
    def peek(self): return self.t[self.i] if self.i < len(self.t) else None
    def next(self): x = self.t[self.i]; self.i += 1; return x
    def atom(self):
        x = self.next()
        if x == "(":
            r = self.expr(); assert self.next() == ")"; return r
        if x == "^":
            if self.peek() == "[":
                self.next(); inner = self.fields("]"); assert self.next() == "]"
                return {"t": "ref", "of": {"t": "seq", "fields": inner}}
            return {"t": "ref", "of": self.atom()}
        if x == "##": return {"t": "uint", "n": int(self.next())}
        if x == "#<=": return {"t": "natle", "n": int(self.next())}
        if x == "#<": return {"t": "natlt", "n": int(self.next())}
        if x == "#": return {"t": "uint", "n": 32}
        m = re.fullmatch(r"(uint|int|bits)(\d+)", x)
        if m: return {"t": m.group(1), "n": int(m.group(2))}
        if x == "Bool": return {"t": "bool"}
        if x == "Unary": return {"t": "unary"}
        if x == "Cell": return {"t": "cell"}
        if x == "Any": return {"t": "any"}
        return {"t": "named", "name": x}
    def expr(self):
        x = self.peek()
        if x == "Maybe": self.next(); return {"t": "maybe", "of": self.atom()}
        if x == "Either": self.next(); l = self.atom(); r = self.atom(); return {"t": "either", "l": l, "r": r}
        if x == "VarUInteger": self.next(); return {"t": "varuint", "n": int(self.next())}
        if x == "HashmapE": self.next(); n = int(self.next()); v = self.atom(); return {"t": "dict", "n": n, "val": v}
        if x == "bits":
            self.next(); y = self.next()
            return {"t": "bits", "n": int(y)} if y.isdigit() else {"t": "bitsdep", "from": y}
        if x is not None and re.fullmatch(r"[A-Z]\w*", x) and x not in ("Bool", "Unary", "Cell", "Any") and self.i + 1 < len(self.t) \
                and (self.t[self.i + 1].isdigit() or re.fullmatch(r"[a-z_]\w*", self.t[self.i + 1])) and not re.fullmatch(r"(uint|int|bits)\d+", self.t[self.i + 1]):
            # (TypeName arg): a type parametrised by a number given as a constant or as an earlier field
            self.next(); arg = self.next()
            return {"t": "pnamed", "name": x, "arg": arg}
        return self.atom()

    # ---- field lists (tokens), used when the declaration needs more than the simple `name:type` form
    def fields(self, closer=None):
        out = []
        while self.peek() is not None and self.peek() != closer:
            if self.peek() == "^" and self.i + 1 < len(self.t) and self.t[self.i + 1] == "[":
                self.next(); self.next()
                inner = self.fields("]")
                assert self.next() == "]"
                out.append({"name": "_anon%d" % len(out), "ty": {"t": "ref", "of": {"t": "seq", "fields": inner}}})
                continue
            name = self.next()
            assert re.fullmatch(r"[a-z_][a-z_0-9]*", name), "field name expected, got %r" % name
            assert self.next() == ":", "':' expected after field %s" % name
            # conditional:  cond ? type   with cond := field | field . bit
            j = self.i
            if re.fullmatch(r"[a-z_][a-z_0-9]*", self.t[j] or "") and (
                    (j + 1 < len(self.t) and self.t[j + 1] == "?") or (j + 3 < len(self.t) and self.t[j + 1] == "." and self.t[j + 3] == "?")):
                frm = self.next(); bit = -1
                if self.peek() == ".":
                    self.next(); bit = int(self.next())
                assert self.next() == "?"
                out.append({"name": name, "ty": {"t": "cond", "from": frm, "bit": bit, "of": self.ftype()}})
                continue
            out.append({"name": name, "ty": self.ftype()})
        return out

    def ftype(self):
        # a field type is an atom (parenthesised expression, ^atom, builtin or name); ^[...] handled by fields()
        if self.peek() == "^" and self.i + 1 < len(self.t) and self.t[self.i + 1] == "[":
            self.next(); self.next()
            inner = self.fields("]")
            assert self.next() == "]"
            return {"t": "ref", "of": {"t": "seq", "fields": inner}}
        return self.atom()

def parse(text):
    text = re.sub(r"//[^\n]*", "", text)
    types = {}
    for decl in text.split(";"):
        decl = decl.strip()
        if not decl: continue
        lhs, rhs = decl.rsplit("=", 1)
        lhs, rhs = lhs.strip(), rhs.strip()
        if re.fullmatch(r"[A-Z]\w*", lhs):                     # alias:  Name = type
            types[lhs] = P(tokenize(rhs)).expr(); continue
        tname, param = rhs, None
        pm = re.fullmatch(r"([A-Z]\w*)\s+(\d+)", rhs)           # constructor of a type parametrised by a number
        if pm:
            tname, param = pm.group(1), int(pm.group(2))
        m = re.match(r"^([a-z_][a-z_0-9]*|_)?([$#][0-9a-fA-F_]+)?\s*(.*)$", lhs, re.S)
        ctor, tag, rest = m.group(1) or "_", m.group(2) or "", m.group(3)
        fields = []
        if re.search(r"[\[\]{}?]|:\s*#(?![#<])|\b_\s*:", rest) or param is not None:
            # extended declaration: constraints / implicit fields in braces are dropped (no bits), the rest is parsed from tokens
            rest2 = re.sub(r"\{[^{}]*\}", " ", rest)
            fields = P(tokenize(rest2)).fields()
        else:
            for fm in re.finditer(r"([a-z_][a-z_0-9]*)\s*:\s*(\([^()]*(?:\([^()]*(?:\([^()]*\)[^()]*)*\)[^()]*)*\)|\^?\s*[A-Za-z_0-9]+)", rest):
                fields.append({"name": fm.group(1), "ty": P(tokenize(fm.group(2))).expr()})
        body = {"t": "seq", "fields": fields}
        if param is not None:
            types.setdefault(tname, {"t": "psum", "ctors": []})["ctors"].append({"name": camel(ctor), "param": param, "tag": tag.lower(), "body": body})
            continue
        types.setdefault(tname, {"t": "sum", "ctors": []})["ctors"].append({"name": camel(ctor), "tag": tag.lower(), "body": body})
    out = {}
    for n, t in types.items():
        if t.get("t") == "sum" and len(t["ctors"]) == 1 and t["ctors"][0]["tag"] in ("", "$_", "#_") and t["ctors"][0]["name"] in ("", "_") + tuple(c["name"] for c in t["ctors"]):
            # a single constructor without tag bits: the value is just the field sequence (as the Go structs have it);
            # with a tag it stays a field sequence preceded by constant tag bits
            out[n] = t["ctors"][0]["body"]
        elif t.get("t") == "sum" and len(t["ctors"]) == 1:
            c = t["ctors"][0]
            out[n] = {"t": "seq", "fields": [{"name": "_tag", "ty": {"t": "magic", "tag": c["tag"]}}] + c["body"]["fields"]}
        else:
            out[n] = t
    return out

if __name__ == "__main__":
    res = {}
    for f in sys.argv[1:]:
        res.update(parse(open(f).read()))
    json.dump(res, sys.stdout, indent=1)
