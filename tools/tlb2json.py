#!/usr/bin/env python3
"""tlb2json.py: a small independent TL-B reader (not derived from tlb/parser) for the subset used in
spec/schemas/*.tlb -> the type AST of DESIGN.md A.4 as JSON: {TypeName: ast}.
Constructor names become CamelCase (addr_std -> AddrStd) so that they match the Go SumType names.
Grammar handled:  decl := [ctor][tag] field* '=' TypeName ';'   |   TypeName '=' type ';' (alias)
  field := name ':' type
  type  := '(' type ')' | '^' type | '##' n | '#<=' n | '#<' n | 'bits' n-or-field | 'Maybe' type | 'Either' type type
         | 'VarUInteger' n | 'HashmapE' n type | uintN | intN | bitsN | Bool | Unary | Cell | Any | TypeName"""
import json, re, sys

def camel(s):
    return "".join(p[:1].upper() + p[1:] for p in s.split("_"))

def tokenize(s):
    return re.findall(r"\(|\)|\^|##|#<=|#<|[A-Za-z_][A-Za-z_0-9]*|\d+", s)

class P:
    def __init__(self, toks): self.t, self.i = toks, 0
    def peek(self): return self.t[self.i] if self.i < len(self.t) else None
    def next(self): x = self.t[self.i]; self.i += 1; return x
    def atom(self):
        x = self.next()
        if x == "(":
            r = self.expr(); assert self.next() == ")"; return r
        if x == "^": return {"t": "ref", "of": self.atom()}
        if x == "##": return {"t": "uint", "n": int(self.next())}
        if x == "#<=": return {"t": "natle", "n": int(self.next())}
        if x == "#<": return {"t": "natlt", "n": int(self.next())}
        m = re.fullmatch(r"(uint|int|bits)(\d+)", x)
        if m: return {"t": m.group(1), "n": int(m.group(2))}
        if x == "Bool": return {"t": "bool"}
        if x == "Unary": return {"t": "unary"}
        if x == "Cell": return {"t": "cell"}
        if x == "Any": return {"t": "any"}
        return {"t": "named", "name": x}
    def expr(self):
        x = self.peek()
        if x == "Maybe": self.next(); return {"t": "maybe", "of": self.atom()}
        if x == "Either": self.next(); l = self.atom(); r = self.atom(); return {"t": "either", "l": l, "r": r}
        if x == "VarUInteger": self.next(); return {"t": "varuint", "n": int(self.next())}
        if x == "HashmapE": self.next(); n = int(self.next()); v = self.atom(); return {"t": "dict", "n": n, "val": v}
        if x == "bits":
            self.next(); y = self.next()
            return {"t": "bits", "n": int(y)} if y.isdigit() else {"t": "bitsdep", "from": y}
        return self.atom()

def parse(text):
    text = re.sub(r"//[^\n]*", "", text)
    types = {}
    for decl in text.split(";"):
        decl = decl.strip()
        if not decl: continue
        lhs, rhs = decl.rsplit("=", 1)
        lhs, rhs = lhs.strip(), rhs.strip()
        if re.fullmatch(r"[A-Z]\w*", lhs):                     # alias:  Name = type
            types[lhs] = P(tokenize(rhs)).expr(); continue
        tname = rhs
        m = re.match(r"^([a-z_][a-z_0-9]*|_)?([$#][0-9a-fA-F_]+)?\s*(.*)$", lhs, re.S)
        ctor, tag, rest = m.group(1) or "_", m.group(2) or "", m.group(3)
        fields = []
        for fm in re.finditer(r"([a-z_][a-z_0-9]*)\s*:\s*(\([^()]*(?:\([^()]*(?:\([^()]*\)[^()]*)*\)[^()]*)*\)|\^?\s*[A-Za-z_0-9]+)", rest):
            fields.append({"name": fm.group(1), "ty": P(tokenize(fm.group(2))).expr()})
        body = {"t": "seq", "fields": fields}
        types.setdefault(tname, {"t": "sum", "ctors": []})["ctors"].append({"name": camel(ctor), "tag": tag.lower(), "body": body})
    out = {}
    for n, t in types.items():
        if t.get("t") == "sum" and len(t["ctors"]) == 1 and t["ctors"][0]["tag"] in ("", "$_", "#_") and t["ctors"][0]["name"] in ("", "_") + tuple(c["name"] for c in t["ctors"]):
            # a single constructor without tag bits: the value is just the field sequence (as the Go structs have it);
            # with a tag it stays a field sequence preceded by constant tag bits
            out[n] = t["ctors"][0]["body"]
        elif t.get("t") == "sum" and len(t["ctors"]) == 1:
            c = t["ctors"][0]
            out[n] = {"t": "seq", "fields": [{"name": "_tag", "ty": {"t": "magic", "tag": c["tag"]}}] + c["body"]["fields"]}
        else:
            out[n] = t
    return out

if __name__ == "__main__":
    res = {}
    for f in sys.argv[1:]:
        res.update(parse(open(f).read()))
    json.dump(res, sys.stdout, indent=1)
