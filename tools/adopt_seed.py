#!/usr/bin/env python3
"""adopt_seed.py <seed_dir> <result.json> <name>: keep a confirmed seeded defect under /verif/seeded/<name>/
(patch.diff, the demonstration, meta.json with what it needs to manifest, what was run, which checks caught it)."""
import json, os, shutil, sys
seed, resf, name = sys.argv[1:4]
res = json.load(open(resf))
if not res.get("confirmed"):
    print("NOT CONFIRMED:", name, {k: res.get(k) for k in ("demo_clean_pass", "patch_applies", "builds", "demo_patched_fails", "baseline_ok")}); sys.exit(1)
dst = os.path.join(os.path.dirname(os.path.dirname(os.path.abspath(__file__))), "seeded", name)
os.makedirs(dst, exist_ok=True)
meta = json.load(open(os.path.join(seed, "meta.json")))
shutil.copy(os.path.join(seed, "patch.diff"), dst)
shutil.copy(os.path.join(seed, "demo_test.go"), os.path.join(dst, "demo_test.go.txt"))   # .txt: not a Go package of /verif
meta["confirmed_by"] = ("tools/seedtest.py in a scratch worktree of /repo HEAD: demo passes clean; with the patch the non-cgo packages build, "
                        "the baseline tests of the touched packages still pass (bin/baseline_off), the demo fails")
meta["checks_run"] = {c: {"exit": v["exit"], "violations": [x.split("#", 1)[1].strip()[:200] if "#" in x else x[:200] for x in v["violations"]][:4]} for c, v in res.get("checks", {}).items()}
meta["caught"] = any(v["exit"] == 1 for v in res.get("checks", {}).values())
json.dump(meta, open(os.path.join(dst, "meta.json"), "w"), indent=1)
print("adopted", name, "caught" if meta["caught"] else "MISSED", {c: v["exit"] for c, v in res.get("checks", {}).items()})
