#!/usr/bin/env python3
"""api_coverage.py <GOCOVERDIR> : which functions of /repo do the harness drivers reach?
Development aid (not a check): run the quick tier of the checks with VERIF_COVER=1 GOCOVERDIR=<dir> (the harness is then built
with -cover for the library's packages), then this tool lists, per anchor file of each property, the functions with 0% coverage.
Functions reached only through in-package overlay tests (go test -overlay: C12 / C13 hooks) are not seen."""
import json, os, re, subprocess, sys, collections
cov = sys.argv[1]
env = dict(os.environ, GOFLAGS="-mod=mod", GOPROXY="off", GOSUMDB="off", GOTOOLCHAIN="local")
txt = os.path.join(cov, "cov.txt")
subprocess.run(["go", "tool", "covdata", "textfmt", "-i=" + cov, "-o", txt], cwd="/verif/harness", env=env, check=True)
out = subprocess.run(["go", "tool", "cover", "-func=" + txt], cwd="/verif/harness", env=env, stdout=subprocess.PIPE, text=True).stdout
funcs = collections.defaultdict(list)
for l in out.splitlines():
    m = re.match(r"github.com/tonkeeper/tongo/(\S+?):(\d+):\s+(\S+)\s+([\d.]+)%", l)
    if m:
        funcs[m.group(1)].append((m.group(3), float(m.group(4)), int(m.group(2))))
props = [json.loads(l) for l in open("/verif/properties.jsonl")]
seen = set()
for p in props:
    for f in p["anchors"]["files"]:
        if f in seen or f not in funcs:
            continue
        seen.add(f)
        zero = [n for n, c, _ in funcs[f] if c == 0.0]
        tot = len(funcs[f])
        print("%s (anchor of %s): %d of %d functions never reached%s" % (f, p["id"], len(zero), tot, (": " + ", ".join(zero[:60])) if zero else ""))
