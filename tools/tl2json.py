#!/usr/bin/env python3
"""tl2json.py — independent mini-parser: TL schema text -> the AST JSON of DESIGN.md A.5.

    tools/tl2json.py schema.tl [out.json]         (also importable: parse(text) -> dict, render(ast) -> text)

Written from the TL language description (core.telegram.org/mtproto/TL, ton/tl/generate/scheme/*.tl),
not from tongo's tl/parser.  Grammar accepted (the subset TON schemas use):

    schema      := decl* ["---functions---" decl*] ("---types---" switches back)
    decl        := ident ["#" hex] field* "=" result-type ";"
    field       := name ":" [flagfield "." bit "?"] type
    type        := ident | "#" | "(" "vector" type ")" | "vector" type | "vector<" type ">"
    comments    := "//" to end of line, "/* ... */"

AST:  {"types":[decl...], "functions":[decl...]}
      decl  = {"ctor": name, "id": 8 lower-case hex digits or "" (no explicit id), "result": type name,
               "fields":[{"name":n, "ty":T, "flag":{"field":f,"bit":N}?}], "line": source line number}
      T     = "int" | "tonNode.blockIdExt" | ... | {"vector": T}
A declaration without an explicit #id gets "id": "" — TlSem!ConstructorId computes it (CRC32 of the
normalised text) where one is needed.  Builtin pseudo-declarations (`int ? = Int;`, `vector {t:Type} # [ t ] = Vector t;`)
are skipped: the builtins are part of TlSem itself.
"""
import json, re, sys

TOKEN = re.compile(r"""
    (?P<sep>---\s*(functions|types)\s*---)
  | (?P<ident>[A-Za-z_][A-Za-z0-9_]*(\.[A-Za-z_][A-Za-z0-9_]*)*)
  | (?P<hexid>\#[0-9a-fA-F]+)
  | (?P<num>[0-9]+)
  | (?P<punct>[#:;=?.()<>{}\[\]*!%+,])
""", re.X)


class TLSyntaxError(Exception):
    pass


def strip_comments(text):
    text = re.sub(r"/\*.*?\*/", lambda m: "\n" * m.group(0).count("\n"), text, flags=re.S)
    return re.sub(r"//[^\n]*", "", text)


def tokens(text):
    pos, line = 0, 1
    n = len(text)
    while pos < n:
        c = text[pos]
        if c == "\n":
            line += 1
        if c.isspace():
            pos += 1
            continue
        m = TOKEN.match(text, pos)
        if not m:
            raise TLSyntaxError("line %d: unexpected character %r" % (line, c))
        kind = m.lastgroup if m.lastgroup in ("sep", "ident", "hexid", "num", "punct") else next(
            k for k in ("sep", "ident", "hexid", "num", "punct") if m.group(k))
        yield kind, m.group(kind), line
        pos = m.end()


def split_statements(text):
    """-> list of (section, [tokens]) ; a statement ends with ';'."""
    section, cur, out = "types", [], []
    for kind, val, line in tokens(strip_comments(text)):
        if kind == "sep":
            if cur:
                raise TLSyntaxError("line %d: separator inside a declaration" % line)
            section = "functions" if "functions" in val else "types"
        elif kind == "punct" and val == ";":
            out.append((section, cur))
            cur = []
        else:
            cur.append((kind, val, line))
    if cur:
        raise TLSyntaxError("line %d: declaration without terminating ';'" % cur[0][2])
    return out


class P:
    def __init__(self, toks):
        self.t, self.i = toks, 0

    def peek(self, k=0):
        return self.t[self.i + k] if self.i + k < len(self.t) else ("eof", "", self.t[-1][2] if self.t else 0)

    def take(self, kind=None, val=None):
        tk = self.peek()
        if (kind and tk[0] != kind) or (val is not None and tk[1] != val):
            raise TLSyntaxError("line %d: expected %s, found %r" % (tk[2], val or kind, tk[1]))
        self.i += 1
        return tk

    def type_expr(self):
        kind, val, line = self.peek()
        if kind == "punct" and val == "(":
            self.take()
            t = self.type_expr()
            self.take("punct", ")")
            return t
        if kind == "punct" and val == "#":
            self.take()
            return "#"
        if kind == "hexid":      # "#" glued to something that looks like hex cannot be a type
            raise TLSyntaxError("line %d: unexpected %r in a type" % (line, val))
        name = self.take("ident")[1]
        if name in ("vector", "Vector"):
            if self.peek()[1] == "<":
                self.take()
                inner = self.type_expr()
                self.take("punct", ">")
            else:
                inner = self.type_expr()
            return {"vector": inner} if name == "vector" else {"Vector": inner}
        return name


def parse_decl(toks):
    p = P(toks)
    first = p.take("ident")
    d = {"ctor": first[1], "id": "", "result": "", "fields": [], "line": first[2]}
    if p.peek()[0] == "hexid":
        h = p.take()[1][1:].lower()
        if len(h) > 8:
            raise TLSyntaxError("line %d: constructor id longer than 32 bits" % first[2])
        d["id"] = h.rjust(8, "0")
    while not (p.peek()[0] == "punct" and p.peek()[1] == "="):
        kind, val, line = p.peek()
        if kind == "eof":
            raise TLSyntaxError("line %d: declaration without '='" % line)
        if kind == "punct" and val in "{[?":       # builtin pseudo-declarations: not part of the AST
            return None
        name = p.take("ident")[1]
        p.take("punct", ":")
        f = {"name": name}
        # conditional:  flagfield "." bit "?" type     (the ident regex swallows "flagfield" only, "." NUM follows)
        if p.peek()[0] == "ident" and p.peek(1)[1] == "." and p.peek(2)[0] == "num" and p.peek(3)[1] == "?":
            ff = p.take()[1]
            p.take("punct", ".")
            bit = int(p.take("num")[1])
            p.take("punct", "?")
            if not 0 <= bit <= 31:
                raise TLSyntaxError("line %d: flag bit %d out of range" % (line, bit))
            f["ty"] = p.type_expr()
            f["flag"] = {"field": ff, "bit": bit}
        else:
            f["ty"] = p.type_expr()
        d["fields"].append(f)
    p.take("punct", "=")
    d["result"] = p.take("ident")[1]
    if p.peek()[0] != "eof":                        # "= Vector t" and similar parametrised results
        return None
    names = [f["name"] for f in d["fields"]]
    for f in d["fields"]:
        if "flag" in f:
            ff = f["flag"]["field"]
            if ff not in names[:names.index(f["name"])]:
                raise TLSyntaxError("line %d: flag field %r is not declared before %r" % (d["line"], ff, f["name"]))
    return d


def parse(text):
    ast = {"types": [], "functions": []}
    for section, toks in split_statements(text):
        if not toks:
            continue
        d = parse_decl(toks)
        if d is not None:
            ast[section].append(d)
    return ast


def render_type(t):
    return t if isinstance(t, str) else "(vector %s)" % render_type(t["vector"])


def render_decl(d):
    fs = []
    for f in d["fields"]:
        fl = "%s.%d?" % (f["flag"]["field"], f["flag"]["bit"]) if "flag" in f else ""
        fs.append("%s:%s%s" % (f["name"], fl, render_type(f["ty"])))
    return "%s%s %s= %s;" % (d["ctor"], "#" + d["id"] if d["id"] else "", "".join(x + " " for x in fs), d["result"])


def render(ast):
    """AST -> .tl text (used by C09 to hand TLC-generated schemas to tl/parser)."""
    out = [render_decl(d) for d in ast["types"]]
    out.append("---functions---")
    out += [render_decl(d) for d in ast["functions"]]
    return "\n".join(out) + "\n"


if __name__ == "__main__":
    if len(sys.argv) < 2:
        sys.exit(__doc__)
    a = parse(open(sys.argv[1]).read())
    s = json.dumps(a, indent=None, separators=(",", ":"))
    if len(sys.argv) > 2:
        open(sys.argv[2], "w").write(s + "\n")
    else:
        print(s)
