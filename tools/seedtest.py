#!/usr/bin/env python3
"""seedtest.py <seed_dir> [--checks C06,C02] [--tier quick]
Confirm a seeded defect (patch.diff + demo test + meta.json) in a scratch worktree of /repo and run checks against it:
  1. clean worktree: demo passes;  2. patched: builds, baseline tests of the touched packages still pass, demo fails;
  3. VERIF_REPO=<worktree> bin/check <ID> for each check -> exit code and VIOLATION lines.
/repo itself is never touched. Prints a JSON summary; the worktree is removed at the end."""
import argparse, json, os, re, shlex, shutil, subprocess, sys, tempfile
ap = argparse.ArgumentParser(); ap.add_argument("seed"); ap.add_argument("--checks", default=""); ap.add_argument("--tier", default="quick"); ap.add_argument("--keep", action="store_true")
a = ap.parse_args()
seed = os.path.abspath(a.seed)
meta = json.load(open(os.path.join(seed, "meta.json")))
env = dict(os.environ, GOFLAGS="-mod=mod", GOPROXY="off", GOSUMDB="off", GOTOOLCHAIN="local")
wt = tempfile.mkdtemp(prefix="seedrun_", dir="/tmp")
os.rmdir(wt)
def demo_cmd(run):
    """the demonstration's command, never answered from the test cache (a demo that shells out does not depend on the patched file)"""
    a = shlex.split(run)
    if a[:2] == ["go", "test"] and not any(x.startswith("-count") for x in a):
        a.insert(2, "-count=1")
    return a


def sh(cmd, cwd=None, e=None, timeout=3600):
    p = subprocess.run(cmd, cwd=cwd, env=e or env, stdout=subprocess.PIPE, stderr=subprocess.STDOUT, text=True, timeout=timeout)
    return p.returncode, p.stdout
res = {"seed": seed, "property": meta.get("property")}
try:
    rc, out = sh(["git", "-C", "/repo", "worktree", "add", "-q", "--detach", wt, "HEAD"])
    assert rc == 0, out
    # carry over uncommitted hook files of /repo (tag-guarded, needed by some harnesses)
    rc, out = sh(["git", "-C", "/repo", "diff", "HEAD"]);
    if out.strip():
        p = subprocess.run(["git", "apply"], cwd=wt, input=out, text=True, stdout=subprocess.PIPE, stderr=subprocess.STDOUT)
    rc, o2 = sh(["git", "-C", "/repo", "ls-files", "--others", "--exclude-standard"])
    for f in o2.split():
        os.makedirs(os.path.dirname(os.path.join(wt, f)), exist_ok=True); shutil.copy(os.path.join("/repo", f), os.path.join(wt, f))
    demo_src = os.path.join(seed, "demo_test.go")
    demo_dst = os.path.join(wt, meta["demo_path"])
    os.makedirs(os.path.dirname(demo_dst), exist_ok=True)
    shutil.copy(demo_src, demo_dst)
    rc, out = sh(demo_cmd(meta["demo_run"]), cwd=wt)
    res["demo_clean_pass"] = rc == 0
    if rc != 0: res["demo_clean_out"] = out[-1500:]
    pkgs = sorted({"./" + os.path.dirname(f) + "/" for f in meta.get("files_changed", []) if f.endswith(".go")})
    rc, out = sh(["git", "apply", os.path.join(seed, "patch.diff")], cwd=wt)
    if rc != 0:   # the tree has moved since the seed was written (hook lines nearby): three-way merge against the seed's base
        rc, out = sh(["git", "apply", "--3way", os.path.join(seed, "patch.diff")], cwd=wt)
        sh(["git", "reset", "-q"], cwd=wt)
    res["patch_applies"] = rc == 0
    if rc != 0: res["patch_out"] = out[-1500:]
    # everything except the cgo packages (they need the emulator library, which is emptied in this sandbox)
    rc, lst = sh(["go", "list", "./..."], cwd=wt)
    demo_pkg = os.path.dirname(meta["demo_path"])
    new_dir = not os.path.isdir(os.path.join("/repo", demo_pkg))      # a directory created only for the demonstration
    pk = [x for x in lst.split() if not re.search(r"/(examples|tvm|txemulator)(/|$)", x) and not (new_dir and x.endswith("/" + demo_pkg))]
    rc, out = sh(["go", "build"] + pk, cwd=wt, e=dict(env, CGO_ENABLED="0"))
    res["builds"] = rc == 0
    if rc != 0: res["build_out"] = out[-1500:]
    rc, out = sh(demo_cmd(meta["demo_run"]), cwd=wt)
    res["demo_patched_fails"] = rc != 0
    os.remove(demo_dst)
    rc, out = sh([os.path.join(os.path.dirname(os.path.dirname(os.path.abspath(__file__))), "bin/baseline_off")] + pkgs, e=dict(env, VERIF_REPO=wt))
    res["baseline_ok"] = rc == 0
    res["baseline_out"] = out.strip().splitlines()[-3:]
    res["confirmed"] = all(res.get(k) for k in ("demo_clean_pass", "patch_applies", "builds", "demo_patched_fails", "baseline_ok"))
    res["checks"] = {}
    outdir = wt + "_out"
    for cid in [c for c in a.checks.split(",") if c]:
        rc, out = sh([os.path.join("/verif/bin/check"), cid, "--tier", a.tier], cwd="/verif", e=dict(env, VERIF_REPO=wt, VERIF_OUT=outdir))
        res["checks"][cid] = {"exit": rc, "violations": [l[:300] for l in out.splitlines() if l.startswith("VIOLATION")][:8], "tail": out.strip().splitlines()[-1][:300] if out.strip() else ""}
    shutil.rmtree(outdir, ignore_errors=True)
finally:
    if not a.keep:
        subprocess.run(["git", "-C", "/repo", "worktree", "remove", "--force", wt], stdout=subprocess.DEVNULL, stderr=subprocess.DEVNULL)
        shutil.rmtree(wt, ignore_errors=True)
print(json.dumps(res, indent=1))
