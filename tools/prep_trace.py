#!/usr/bin/env python3
"""prep_trace.py <trace.ndjson>: the runner's per-trace preparation as a process of its own (big traces: the lint and
the copy are pure Python work and would otherwise serialise on the interpreter lock of the runner).
Lints the trace exactly as vlib.lint_trace does (End record present, no JSON null, no number >= 2^31), writes
<trace>.tlc = the trace without its End record, prints the number of events written."""
import os, sys
sys.path.insert(0, os.path.join(os.path.dirname(os.path.dirname(os.path.abspath(__file__))), "lib"))
import vlib

def main():
    path = sys.argv[1]
    lines = open(path).read().splitlines()
    try:
        vlib.lint_trace(lines, path)
    except vlib.Infra as e:
        print("LINT: %s" % e)
        return 3
    n = 0
    with open(path + ".tlc", "w") as out:
        for l in lines:
            if len(l) < 200 and '"End"' in l:
                import json
                if json.loads(l).get("k") == "End":
                    continue
            out.write(l + "\n")
            n += 1
    print("EVENTS %d" % n)
    return 0

if __name__ == "__main__":
    sys.exit(main())
