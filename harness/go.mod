module verifharness

go 1.19

require github.com/tonkeeper/tongo v0.0.0

replace github.com/tonkeeper/tongo => /repo
