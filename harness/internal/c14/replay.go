package c14

import (
	"bufio"
	"encoding/json"
	"fmt"
	"math/rand"
	"os"
	"strconv"

	"github.com/tonkeeper/tongo/wallet"

	"verifharness/internal/ev"
)

// Vector is one abstract case emitted by spec/gen/WalletMsg_Gen.tla.
type Vector struct {
	Vec   int    `json:"vec"`
	Ver   string `json:"ver"`
	N     int    `json:"n"`
	Seqno string `json:"seqno"` // decimal or "rand"
	Vu    string `json:"vu"`
	Modes string `json:"modes"` // zero | three | flags | max | mixed
	Exp   string `json:"exp"`   // ok | refused
	// wallet v5r1 through CreateSignedMsgBodyCell (via = "x"): kinds of the extended actions and the signed message type
	Via string   `json:"via"`
	Ext []string `json:"ext"`
	Mt  string   `json:"mt"`
}

func concreteU32(rng *rand.Rand, s string) (uint32, error) {
	if s == "rand" {
		return rng.Uint32(), nil
	}
	x, err := strconv.ParseUint(s, 10, 32)
	return uint32(x), err
}

func modeOf(rng *rand.Rand, class string, i int) byte {
	switch class {
	case "zero":
		return 0
	case "three":
		return 3
	case "max":
		return 255
	case "flags":
		return []byte{128, 64, 32, 130, 65, 160, 2, 1}[i%8]
	default:
		return byte(rng.Intn(256))
	}
}

// Replay concretises every abstract case with the run's seed, runs it through Wallet.RawSend and records a Send
// event carrying the outcome the generator requires (exp); the trace specification judges the event in full.
func Replay(in string, w *ev.Writer, seed int64, flips bool) error {
	w.Sync = true
	f, err := os.Open(in)
	if err != nil {
		return err
	}
	defer f.Close()
	sc := bufio.NewScanner(f)
	sc.Buffer(make([]byte, 1<<20), 1<<26)
	r := &runner{w: w}
	for sc.Scan() {
		var v Vector
		if err := json.Unmarshal(sc.Bytes(), &v); err != nil {
			return fmt.Errorf("vector: %v", err)
		}
		if _, ok := verOf[v.Ver]; !ok {
			return fmt.Errorf("vector %d: unknown version %q", v.Vec, v.Ver)
		}
		rng := rand.New(rand.NewSource(seed*1_000_003 + int64(v.Vec)))
		rand.Seed(seed*31 + int64(v.Vec))
		tc := &testCase{ID: fmt.Sprintf("v%d", v.Vec), Ver: v.Ver, MsgType: "ext", Exp: v.Exp, Vec: v.Vec, WithInit: v.Vec%5 == 0}
		rng.Read(tc.Seed[:])
		rng.Read(tc.Seed2[:])
		if tc.Seqno, err = concreteU32(rng, v.Seqno); err != nil {
			return err
		}
		if tc.Vu, err = concreteU32(rng, v.Vu); err != nil {
			return err
		}
		if v.Vec%3 == 1 {
			tc.Opts.Wc = -1
		}
		tc.Raw = make([]wallet.RawMessage, v.N)
		for i := range tc.Raw {
			m := reqMsg{Kind: "msg", Bounce: i%2 == 0, Wc: tc.Opts.Wc, Amount: uint64(1000 + i)}
			rng.Read(m.Addr[:])
			if v.Via == "x" {
				m.Mode = modeOf(rng, v.Modes, i)
				tc.Fields = append(tc.Fields, m)
			} else if i%7 == 3 {
				m.Kind, m.Comment = "simple", fmt.Sprintf("transfer %d", i)
			}
			tc.Raw[i] = marshalInternal(m.sendable())
			tc.Raw[i].Mode = modeOf(rng, v.Modes, i)
		}
		if v.Via == "x" {
			if v.Ver != "V5R1" {
				return fmt.Errorf("vector %d: extended actions are a wallet v5r1 matter", v.Vec)
			}
			tc.ViaX, tc.Ext = true, extOf(rng, v.Ext, tc.Opts.Wc)
			if v.Mt == "int" {
				tc.MsgType = "int"
			}
			r.runBody(tc)
		}
		r.runSend(tc)
	}
	w.Emit(ev.M{"k": "End", "events": w.N})
	return sc.Err()
}
