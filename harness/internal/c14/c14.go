// Package c14 drives the wallet message construction API of tongo (C14) and records what it
// produced: the signed body from Wallet.CreateMessageBody, the payload that Wallet.RawSend hands
// to the blockchain interface, the library's own verification / decoding of that payload, and
// its verdict on one-bit changes of a signed body. spec/trace/WalletMsg_Trace.tla judges every
// event; nothing is decided here.
package c14

import (
	"context"
	"crypto/ed25519"
	"crypto/sha256"
	"encoding/base64"
	"encoding/hex"
	"fmt"
	"go/ast"
	"go/parser"
	"go/token"
	"math/rand"
	"strconv"
	"strings"
	"time"

	"github.com/tonkeeper/tongo/boc"
	"github.com/tonkeeper/tongo/tlb"
	"github.com/tonkeeper/tongo/ton"
	"github.com/tonkeeper/tongo/wallet"

	"verifharness/internal/cells"
	"verifharness/internal/ev"
)

type Opts struct {
	Tier          string
	Seed          int64
	Shard, Shards int
}

var Versions = []string{"V3R1", "V3R2", "V4R1", "V4R2", "V5Beta", "V5R1", "HighLoadV2R2"}

var verOf = map[string]wallet.Version{
	"V3R1": wallet.V3R1, "V3R2": wallet.V3R2, "V4R1": wallet.V4R1, "V4R2": wallet.V4R2,
	"V5Beta": wallet.V5Beta, "V5R1": wallet.V5R1, "HighLoadV2R2": wallet.HighLoadV2R2,
}

// MaxOf is only used to choose interesting message counts; the limit that is judged is the specification's.
var MaxOf = map[string]int{"V3R1": 4, "V3R2": 4, "V4R1": 4, "V4R2": 4, "V5Beta": 254, "V5R1": 255, "HighLoadV2R2": 254}

// recChain is the blockchain interface of the wallet: it records the payloads handed to SendMessage.
type recChain struct {
	payloads [][]byte
}

func (b *recChain) GetSeqno(ctx context.Context, a ton.AccountID) (uint32, error) { return 0, nil }
func (b *recChain) SendMessage(ctx context.Context, p []byte) (uint32, error) {
	b.payloads = append(b.payloads, append([]byte(nil), p...))
	return 0, nil
}
func (b *recChain) GetAccountState(ctx context.Context, a ton.AccountID) (tlb.ShardAccount, error) {
	return tlb.ShardAccount{Account: tlb.Account{SumType: "AccountNone"}}, nil
}

// ---------------------------------------------------------------- case description

type walletOpts struct {
	Wc  int
	Sub *uint32
	Net *int32
}

func (o walletOpts) json() ev.M {
	m := ev.M{"wc": o.Wc, "sub": "default", "net": "default"}
	if o.Sub != nil {
		m["sub"] = strconv.FormatUint(uint64(*o.Sub), 10)
	}
	if o.Net != nil {
		m["net"] = strconv.FormatInt(int64(*o.Net), 10)
	}
	return m
}

func (o walletOpts) options() []wallet.Option {
	opts := []wallet.Option{wallet.WithWorkchain(o.Wc)}
	if o.Sub != nil {
		opts = append(opts, wallet.WithSubWalletID(*o.Sub))
	}
	if o.Net != nil {
		opts = append(opts, wallet.WithNetworkGlobalID(*o.Net))
	}
	return opts
}

// reqMsg is one requested message in field form (what the caller of the Sendable API asks for).
type reqMsg struct {
	Kind    string // msg | simple | deploy
	Mode    byte
	Bounce  bool
	Wc      int
	Addr    [32]byte
	Amount  uint64
	Comment string
	Body    *boc.Cell
	Code    *boc.Cell
	Data    *boc.Cell
}

func (m reqMsg) sendable() wallet.Sendable {
	switch m.Kind {
	case "simple":
		return wallet.SimpleTransfer{Amount: tlb.Grams(m.Amount), Address: ton.AccountID{Workchain: int32(m.Wc), Address: m.Addr},
			Comment: m.Comment, Bounceable: m.Bounce}
	case "deploy":
		var body any
		if m.Body != nil {
			body = m.Body
		}
		return wallet.ContractDeploy{Workchain: int32(m.Wc), Code: m.Code, Data: m.Data, Body: body, Amount: tlb.Grams(m.Amount)}
	default:
		return wallet.Message{Amount: tlb.Grams(m.Amount), Address: ton.AccountID{Workchain: int32(m.Wc), Address: m.Addr},
			Body: m.Body, Code: m.Code, Data: m.Data, Bounce: m.Bounce, Mode: m.Mode}
	}
}

type testCase struct {
	ID       string
	Ver      string
	Seed     [32]byte
	Seed2    [32]byte
	Opts     walletOpts
	Seqno    uint32
	Vu       uint32
	MsgType  string   // ext | int (v5 opcode of CreateMessageBody)
	Fields   []reqMsg // request of the Body event
	Raw      []wallet.RawMessage
	WithInit bool
	Flips    bool
	Exp      string // S->C: outcome required by the generator
	Vec      int
	// ViaX: the body is built by walletV5R1.CreateSignedMsgBodyCell (the only entry point that takes extended
	// actions) instead of CreateMessageBody / RawSend; Ext is the requested extended-action list (nil pointer if empty).
	ViaX bool
	Ext  []extAct
	// Grid: SimpleTransfer requests from the amount-width x comment-length grid
	Grid bool
}

// extAct is one requested wallet-v5 extended action: add | remove (extension address) | sigauth (allowed flag).
type extAct struct {
	Kind    string
	Wc      int
	Addr    [32]byte
	Allowed bool
}

func xreqJSON(xs []extAct) []ev.M {
	out := make([]ev.M, len(xs))
	for i, x := range xs {
		out[i] = ev.M{"kind": x.Kind, "wc": x.Wc, "addr": hex.EncodeToString(x.Addr[:]), "allowed": x.Allowed}
	}
	return out
}

func libExt(xs []extAct) *wallet.W5ExtendedActions {
	if len(xs) == 0 {
		return nil
	}
	out := make(wallet.W5ExtendedActions, len(xs))
	for i, x := range xs {
		id := ton.AccountID{Workchain: int32(x.Wc), Address: x.Addr}
		switch x.Kind {
		case "add":
			out[i] = wallet.W5ExtendedAction{SumType: "AddExtension", AddExtension: &struct{ Addr tlb.MsgAddress }{Addr: id.ToMsgAddress()}}
		case "remove":
			out[i] = wallet.W5ExtendedAction{SumType: "RemoveExtension", RemoveExtension: &struct{ Addr tlb.MsgAddress }{Addr: id.ToMsgAddress()}}
		default:
			out[i] = wallet.W5ExtendedAction{SumType: "SetSignatureAllowed", SetSignatureAllowed: &struct{ Allowed bool }{Allowed: x.Allowed}}
		}
	}
	return &out
}

// xactsJSON renders what the library's decoder returned, in the shape of the request.
func xactsJSON(xs *wallet.W5ExtendedActions) []ev.M {
	out := []ev.M{}
	if xs == nil {
		return out
	}
	for _, x := range *xs {
		m := ev.M{"kind": "other:" + string(x.SumType), "wc": 0, "addr": "", "allowed": false}
		var a *tlb.MsgAddress
		switch {
		case x.SumType == "AddExtension" && x.AddExtension != nil:
			m["kind"], a = "add", &x.AddExtension.Addr
		case x.SumType == "RemoveExtension" && x.RemoveExtension != nil:
			m["kind"], a = "remove", &x.RemoveExtension.Addr
		case x.SumType == "SetSignatureAllowed" && x.SetSignatureAllowed != nil:
			m["kind"], m["allowed"] = "sigauth", x.SetSignatureAllowed.Allowed
		}
		if a != nil {
			if a.SumType == "AddrStd" {
				m["wc"], m["addr"] = int(a.AddrStd.WorkchainId), hex.EncodeToString(a.AddrStd.Address[:])
			} else {
				m["kind"] = "other-address:" + string(a.SumType)
			}
		}
		out = append(out, m)
	}
	return out
}

// xBody builds a v5r1 body through the exported CreateSignedMsgBodyCell.
func (tc *testCase) xBody(raw []wallet.RawMessage) (*boc.Cell, error) {
	key := ed25519.NewKeyFromSeed(tc.Seed[:])
	o := wallet.Options{Workchain: &tc.Opts.Wc, NetworkGlobalID: tc.Opts.Net}
	w5 := wallet.NewWalletV5R1(key.Public().(ed25519.PublicKey), o)
	cfg := wallet.MessageConfig{Seqno: tc.Seqno, ValidUntil: time.Unix(int64(tc.Vu), 0), V5MsgType: wallet.V5MsgTypeSignedExternal}
	if tc.MsgType == "int" {
		cfg.V5MsgType = wallet.V5MsgTypeSignedInternal
	}
	return w5.CreateSignedMsgBodyCell(key, raw, libExt(tc.Ext), cfg)
}

// ------------------------------------------------------------------ structural keys

// keyer gives every cell a key that depends only on its structure (bits, type, children); it is the
// harness's own identity of cells, independent of Cell.Hash.
type keyer struct{ memo map[*boc.Cell]string }

func (k *keyer) key(c *boc.Cell) string {
	if s, ok := k.memo[c]; ok {
		return s
	}
	h := sha256.New()
	bs := c.RawBitString()
	fmt.Fprintf(h, "%d|%s|", c.CellType(), bs.BinaryString())
	for _, r := range c.Refs() {
		h.Write([]byte(k.key(r)))
	}
	s := string(h.Sum(nil))
	k.memo[c] = s
	return s
}

func rowKeys(t *cells.Table) map[string]int {
	keys := make([]string, len(t.Cells))
	out := map[string]int{}
	for i := len(t.Cells) - 1; i >= 0; i-- {
		h := sha256.New()
		fmt.Fprintf(h, "%d|%s|", t.Cells[i].X, t.Cells[i].B)
		for _, r := range t.Cells[i].R {
			h.Write([]byte(keys[r]))
		}
		keys[i] = string(h.Sum(nil))
		out[keys[i]] = i
	}
	return out
}

func tableJSON(t *cells.Table) ev.M {
	if t == nil || len(t.Cells) == 0 {
		return ev.M{"cells": []cells.C{}}
	}
	return ev.M{"cells": t.Cells}
}

func project(roots []*boc.Cell) *cells.Table {
	if len(roots) == 0 {
		return &cells.Table{}
	}
	return cells.Project(roots)
}

func errClass(err error) string { return ev.ErrClass(err) }

func verdict(err error) string {
	if err == nil {
		return "ok"
	}
	return "rej"
}

// ------------------------------------------------------------------------ running

type runner struct {
	w *ev.Writer
}

func (r *runner) guard(tc *testCase, where string, f func()) {
	defer func() {
		if p := recover(); p != nil {
			r.w.Emit(ev.M{"p": "C14", "k": "Panic", "case": tc.ID, "ver": tc.Ver, "n": len(tc.Raw), "where": where, "panic": fmt.Sprint(p)})
		}
	}()
	f()
}

func (tc *testCase) common(k string) ev.M {
	key := ed25519.NewKeyFromSeed(tc.Seed[:])
	key2 := ed25519.NewKeyFromSeed(tc.Seed2[:])
	return ev.M{"p": "C14", "k": k, "case": tc.ID, "ver": tc.Ver, "opts": tc.Opts.json(),
		"seed": hex.EncodeToString(tc.Seed[:]), "pk": hex.EncodeToString(key.Public().(ed25519.PublicKey)),
		"seed2": hex.EncodeToString(tc.Seed2[:]), "pk2": hex.EncodeToString(key2.Public().(ed25519.PublicKey)),
		"seqno": strconv.FormatUint(uint64(tc.Seqno), 10), "vu": strconv.FormatUint(uint64(tc.Vu), 10)}
}

func (tc *testCase) newWallet(chain *recChain) (wallet.Wallet, ed25519.PrivateKey, error) {
	key := ed25519.NewKeyFromSeed(tc.Seed[:])
	w, err := wallet.New(key, verOf[tc.Ver], chain, tc.Opts.options()...)
	return w, key, err
}

// runBody: Wallet.CreateMessageBody with the requested fields.
func (r *runner) runBody(tc *testCase) {
	r.guard(tc, "CreateMessageBody", func() {
		chain := &recChain{}
		w, _, err := tc.newWallet(chain)
		if err != nil {
			panic(fmt.Sprintf("wallet.New: %v", err))
		}
		e := tc.common("Body")
		e["mt"] = tc.MsgType
		e["n"] = len(tc.Fields)
		// request: fields + a table of the cells they mention
		var roots []*boc.Cell
		add := func(c *boc.Cell) int {
			if c == nil {
				return -1
			}
			roots = append(roots, c)
			return len(roots) - 1
		}
		type slot struct{ body, code, data int }
		slots := make([]slot, len(tc.Fields))
		for i, m := range tc.Fields {
			slots[i] = slot{add(m.Body), add(m.Code), add(m.Data)}
		}
		rc := project(roots)
		row := func(k int) int {
			if k < 0 {
				return -1
			}
			return rc.Roots[k]
		}
		req := make([]ev.M, len(tc.Fields))
		sendables := make([]wallet.Sendable, len(tc.Fields))
		for i, m := range tc.Fields {
			req[i] = ev.M{"kind": m.Kind, "mode": int(m.Mode), "bounce": m.Bounce, "wc": m.Wc, "addr": hex.EncodeToString(m.Addr[:]),
				"amount": strconv.FormatUint(m.Amount, 10), "comment": hex.EncodeToString([]byte(m.Comment)),
				"body": row(slots[i].body), "code": row(slots[i].code), "data": row(slots[i].data)}
			sendables[i] = m.sendable()
		}
		e["req"] = req
		e["rc"] = tableJSON(rc)
		cfg := wallet.MessageConfig{Seqno: tc.Seqno, ValidUntil: time.Unix(int64(tc.Vu), 0), V5MsgType: wallet.V5MsgTypeSignedExternal}
		if tc.MsgType == "int" {
			cfg.V5MsgType = wallet.V5MsgTypeSignedInternal
		}
		e["xreq"] = xreqJSON(tc.Ext)
		if tc.Grid {
			e["grid"] = "simple"
		}
		if tc.Exp != "" {
			e["vec"] = tc.Vec
		}
		var body *boc.Cell
		if tc.ViaX {
			e["via"] = "CreateSignedMsgBodyCell"
			raw := make([]wallet.RawMessage, len(sendables))
			for i, s := range sendables {
				raw[i] = marshalInternal(s)
			}
			body, err = tc.xBody(raw)
		} else {
			body, err = w.CreateMessageBody(cfg, sendables...)
		}
		e["err"] = errClass(err)
		if err == nil {
			e["body"] = tableJSON(project([]*boc.Cell{body}))
		} else {
			e["body"] = tableJSON(nil)
			e["errtext"] = err.Error()
		}
		r.w.Emit(e)
	})
}

// runSend: Wallet.RawSend with raw message cells; returns the signed body found in the payload (for Flips).
func (r *runner) runSend(tc *testCase) (bodyOut *boc.Cell, addrOut ton.AccountID) {
	r.guard(tc, "RawSend", func() {
		chain := &recChain{}
		w, key, err := tc.newWallet(chain)
		if err != nil {
			panic(fmt.Sprintf("wallet.New: %v", err))
		}
		pk := key.Public().(ed25519.PublicKey)
		pk2 := ed25519.NewKeyFromSeed(tc.Seed2[:]).Public().(ed25519.PublicKey)
		ver := verOf[tc.Ver]
		e := tc.common("Send")
		e["n"] = len(tc.Raw)
		e["withinit"] = tc.WithInit
		if tc.Exp != "" {
			e["exp"] = tc.Exp
			e["vec"] = tc.Vec
		}
		if tc.Grid {
			tc.Raw = tc.Raw[:0]
			for _, m := range tc.Fields {
				if rm, err := tryMarshalInternal(m.sendable()); err == nil {
					tc.Raw = append(tc.Raw, rm)
				} else {
					e["reqerr"] = err.Error() // the request itself cannot be encoded by the library: Send must then fail too, which is judged
				}
			}
			e["n"] = len(tc.Fields)
		}
		roots := make([]*boc.Cell, len(tc.Raw))
		modes := make([]int, len(tc.Raw))
		for i, m := range tc.Raw {
			roots[i] = m.Message
			modes[i] = int(m.Mode)
		}
		rc := project(roots)
		rows := rc.Roots
		if rows == nil {
			rows = []int{}
		}
		e["modes"] = modes
		e["rows"] = rows
		e["rc"] = tableJSON(rc)
		var init *tlb.StateInit
		if tc.WithInit {
			init, err = w.StateInit()
			if err != nil {
				panic(fmt.Sprintf("StateInit: %v", err))
			}
		}
		e["mt"] = "ext"
		e["xreq"] = xreqJSON(tc.Ext)
		if tc.ViaX {
			// CreateSignedMsgBodyCell has no send path of its own: the body is put into an external message to the wallet's
			// address exactly as RawSendV2 does with the body it builds, so that the same judgement and the library's
			// message-level verifier / decoders apply
			e["via"], e["mt"] = "CreateSignedMsgBodyCell", tc.MsgType
			var body *boc.Cell
			if body, err = tc.xBody(tc.Raw); err == nil {
				var msg tlb.Message
				if msg, err = ton.CreateExternalMessage(w.GetAddress(), body, init, tlb.VarUInteger16{}); err == nil {
					c := boc.NewCell()
					if err = tlb.Marshal(c, msg); err == nil {
						var p []byte
						if p, err = c.ToBocCustom(false, false, false, 0); err == nil {
							chain.payloads = append(chain.payloads, p)
						}
					}
				}
			}
		} else if tc.Grid {
			// Wallet.Send: seqno and init come from the (empty) account state, the expiry is now + message lifetime
			e["via"], e["grid"], e["withinit"] = "Send", "simple", true
			sendables := make([]wallet.Sendable, len(tc.Fields))
			for i, m := range tc.Fields {
				sendables[i] = m.sendable()
			}
			e["seqno"] = "0"
			e["vu"] = strconv.FormatInt(time.Now().Add(wallet.DefaultMessageLifetime).Unix()-1, 10)
			err = w.Send(context.Background(), sendables...)
			e["vu_hi"] = strconv.FormatInt(time.Now().Add(wallet.DefaultMessageLifetime).Unix()+1, 10)
		} else {
			err = w.RawSend(context.Background(), tc.Seqno, time.Unix(int64(tc.Vu), 0), tc.Raw, init)
		}
		e["err"] = errClass(err)
		if err != nil {
			e["errtext"] = err.Error()
		}
		e["sent"] = len(chain.payloads)
		if err != nil || len(chain.payloads) != 1 {
			r.w.Emit(e)
			return
		}
		payload := chain.payloads[0]
		e["boc"] = hex.EncodeToString(payload)
		addr := w.GetAddress()
		addrOut = addr
		e["addr"] = ev.M{"wc": int(addr.Workchain), "hash": hex.EncodeToString(addr.Address[:])}
		fresh := func() *boc.Cell {
			cs, err := boc.DeserializeBoc(payload)
			if err != nil || len(cs) != 1 {
				panic(fmt.Sprintf("own payload does not parse: %v", err))
			}
			return cs[0]
		}
		ext := project([]*boc.Cell{fresh()})
		e["ext"] = tableJSON(ext)
		keys := rowKeys(ext)
		kr := &keyer{memo: map[*boc.Cell]string{}}
		rowsOf := func(ms []wallet.RawMessage) ([]int, []int) {
			md, rw := make([]int, len(ms)), make([]int, len(ms))
			for i, m := range ms {
				md[i] = int(m.Mode)
				rw[i] = -1
				if m.Message != nil {
					if x, ok := keys[kr.key(m.Message)]; ok {
						rw[i] = x
					}
				}
			}
			return md, rw
		}
		lib := ev.M{"verify": verdict(wallet.VerifySignature(ver, fresh(), pk)), "verify2": verdict(wallet.VerifySignature(ver, fresh(), pk2)),
			"v5verify": "", "v5verify2": "", "wid": "", "vu": "", "seqno": "", "qid": "0", "st": "", "modes": []int{}, "mrows": []int{}, "xacts": []ev.M{}}
		var m tlb.Message
		if err := tlb.Unmarshal(fresh(), &m); err != nil {
			panic(fmt.Sprintf("own payload is not a message: %v", err))
		}
		bodyCell := boc.Cell(m.Body.Value)
		bodyOut = &bodyCell
		if tc.Ver == "V5Beta" || tc.Ver == "V5R1" {
			var m2 tlb.Message
			tlb.Unmarshal(fresh(), &m2)
			lib["v5verify"] = verdict(wallet.MessageV5VerifySignature(boc.Cell(m.Body.Value), pk))
			lib["v5verify2"] = verdict(wallet.MessageV5VerifySignature(boc.Cell(m2.Body.Value), pk2))
		}
		dmsgs, derr := decodeLib(tc.Ver, fresh(), lib)
		if derr == nil {
			lib["dec"] = "ok"
			lib["modes"], lib["mrows"] = rowsOf(dmsgs)
		} else {
			lib["dec"] = "err"
			lib["dectext"] = derr.Error()
		}
		xm, xerr := wallet.ExtractRawMessages(ver, fresh())
		lib["xerr"] = errClass(xerr)
		lib["xmodes"], lib["xrows"] = rowsOf(xm)
		// the same operations as sequences on ONE cell object, in both orders: a message that was just verified must still
		// decode, a decoded one must still verify
		seq := func(ops []string) []ev.M {
			c := fresh()
			out := make([]ev.M, 0, len(ops))
			for _, op := range ops {
				st := ev.M{"op": op, "res": "", "modes": []int{}, "rows": []int{}}
				switch op {
				case "verify":
					if tc.Ver == "V5Beta" { // what VerifySignature does for v5r1, done here for the version it has no branch for
						var mm tlb.Message
						if err := tlb.Unmarshal(c, &mm); err != nil {
							st["res"] = "rej"
						} else {
							st["res"] = verdict(wallet.MessageV5VerifySignature(boc.Cell(mm.Body.Value), pk))
						}
					} else {
						st["res"] = verdict(wallet.VerifySignature(ver, c, pk))
					}
				case "extract":
					ms, err := wallet.ExtractRawMessages(ver, c)
					st["res"] = verdict(err)
					st["modes"], st["rows"] = rowsOf(ms)
				case "decode":
					ms, err := decodeLib(tc.Ver, c, ev.M{})
					st["res"] = verdict(err)
					st["modes"], st["rows"] = rowsOf(ms)
				}
				out = append(out, st)
			}
			return out
		}
		lib["seq1"] = seq([]string{"verify", "extract", "decode", "verify", "extract"})
		lib["seq2"] = seq([]string{"decode", "extract", "verify", "decode", "verify"})
		e["lib"] = lib
		r.w.Emit(e)
	})
	return
}

// decodeLib runs the version's Decode* function on the external message cell c and notes what it returned in lib.
func decodeLib(ver string, c *boc.Cell, lib ev.M) (dmsgs []wallet.RawMessage, derr error) {
	u32 := func(x uint32) string { return strconv.FormatUint(uint64(x), 10) }
	switch ver {
	case "V3R1", "V3R2":
		d, err := wallet.DecodeMessageV3(c)
		if derr = err; err == nil {
			lib["wid"], lib["vu"], lib["seqno"] = u32(d.SubWalletId), u32(d.ValidUntil), u32(d.Seqno)
			dmsgs = d.RawMessages
		}
	case "V4R1", "V4R2":
		d, err := wallet.DecodeMessageV4(c)
		if derr = err; err == nil {
			lib["wid"], lib["vu"], lib["seqno"] = u32(d.SubWalletId), u32(d.ValidUntil), u32(d.Seqno)
			lib["op"] = int(d.Op)
			dmsgs = d.RawMessages
		}
	case "HighLoadV2R2":
		d, err := wallet.DecodeHighloadV2Message(c)
		if derr = err; err == nil {
			lib["wid"] = u32(d.SubWalletId)
			lib["qid"] = strconv.FormatUint(d.BoundedQueryID, 10)
			dmsgs = d.RawMessages
		}
	case "V5Beta":
		d, err := wallet.DecodeMessageV5Beta(c)
		if derr = err; err == nil {
			lib["st"] = string(d.SumType)
			if d.SumType == "SignedExternal" {
				lib["wid"] = hex.EncodeToString(d.SignedExternal.WalletId[:])
				lib["vu"], lib["seqno"] = u32(d.SignedExternal.ValidUntil), u32(d.SignedExternal.Seqno)
			}
			dmsgs = d.RawMessages()
		}
	case "V5R1":
		d, err := wallet.DecodeMessageV5(c)
		if derr = err; err == nil {
			lib["st"] = string(d.SumType)
			if d.SumType == "SignedExternal" && d.SignedExternal != nil {
				lib["wid"] = u32(d.SignedExternal.WalletId)
				lib["vu"], lib["seqno"] = u32(d.SignedExternal.ValidUntil), u32(d.SignedExternal.Seqno)
				lib["xacts"] = xactsJSON(d.SignedExternal.ExtendedActions)
			}
			if d.SumType == "SignedInternal" && d.SignedInternal != nil {
				lib["wid"] = u32(d.SignedInternal.WalletId)
				lib["vu"], lib["seqno"] = u32(d.SignedInternal.ValidUntil), u32(d.SignedInternal.Seqno)
				lib["xacts"] = xactsJSON(d.SignedInternal.ExtendedActions)
			}
			dmsgs = d.RawMessages()
		}
	}
	return dmsgs, derr
}

// libVerify asks the library whether a (possibly changed) signed body verifies under pk.
func libVerify(ver string, body *boc.Cell, addr ton.AccountID, pk ed25519.PublicKey) (res string) {
	defer func() {
		if p := recover(); p != nil {
			res = "panic"
		}
	}()
	if ver == "V5Beta" { // VerifySignature has no V5Beta branch; the v5 verifier takes the body itself
		return verdict(wallet.MessageV5VerifySignature(*body, pk))
	}
	msg, err := ton.CreateExternalMessage(addr, body, nil, tlb.VarUInteger16{})
	if err != nil {
		return "rej"
	}
	c := boc.NewCell()
	if err := tlb.Marshal(c, msg); err != nil {
		return "rej"
	}
	return verdict(wallet.VerifySignature(verOf[ver], c, pk))
}

// runFlips: every bit of the signed root cell and `deep` sampled bits of deeper cells are flipped, one at a time.
func (r *runner) runFlips(tc *testCase, body *boc.Cell, addr ton.AccountID, rng *rand.Rand, deep, chunk int) {
	r.guard(tc, "Flips", func() {
		pk := ed25519.NewKeyFromSeed(tc.Seed[:]).Public().(ed25519.PublicKey)
		t := project([]*boc.Cell{body})
		type pos struct{ c, bit int }
		var ps []pos
		for j := 1; j <= len(t.Cells[0].B); j++ {
			ps = append(ps, pos{0, j})
		}
		var cand []int
		for i := 1; i < len(t.Cells); i++ {
			if len(t.Cells[i].B) > 0 && t.Cells[i].X == 0 {
				cand = append(cand, i)
			}
		}
		seen := map[pos]bool{}
		for k := 0; k < deep*4 && len(seen) < deep && len(cand) > 0; k++ {
			c := cand[rng.Intn(len(cand))]
			p := pos{c, 1 + rng.Intn(len(t.Cells[c].B))}
			if !seen[p] {
				seen[p] = true
				ps = append(ps, p)
			}
		}
		build := func(tb *cells.Table) *boc.Cell {
			roots, err := cells.Build(tb, true)
			if err != nil {
				panic(fmt.Sprintf("cannot rebuild body: %v", err))
			}
			return roots[0]
		}
		orig := libVerify(tc.Ver, build(&cells.Table{Cells: t.Cells, Roots: []int{0}}), addr, pk)
		for from := 0; from < len(ps); from += chunk {
			to := from + chunk
			if to > len(ps) {
				to = len(ps)
			}
			flips := make([]ev.M, 0, to-from)
			for _, p := range ps[from:to] {
				cs := make([]cells.C, len(t.Cells))
				copy(cs, t.Cells)
				b := []byte(cs[p.c].B)
				b[p.bit-1] ^= 1 // '0' (0x30) <-> '1' (0x31)
				cs[p.c].B = string(b)
				fb := build(&cells.Table{Cells: cs, Roots: []int{0}})
				h, err := fb.HashString()
				if err != nil {
					panic(err)
				}
				flips = append(flips, ev.M{"c": p.c, "bit": p.bit, "lib": libVerify(tc.Ver, fb, addr, pk), "h": h})
			}
			r.w.Emit(ev.M{"p": "C14", "k": "Flips", "case": tc.ID, "ver": tc.Ver, "n": len(tc.Raw), "pk": hex.EncodeToString(pk),
				"body": tableJSON(t), "orig": orig, "flips": flips})
		}
	})
}

// ---------------------------------------------------------------------- generation

var u32Edges = []uint32{0, 1, 1<<31 - 1, 1 << 31, 1<<32 - 1}

func randU32(rng *rand.Rand) uint32 {
	if rng.Intn(2) == 0 {
		return u32Edges[rng.Intn(len(u32Edges))]
	}
	return rng.Uint32()
}

func randWc(rng *rand.Rand) int {
	switch rng.Intn(10) {
	case 0, 1, 2:
		return -1
	case 3:
		return []int{1, 5, 127, -128, -2}[rng.Intn(5)]
	default:
		return 0
	}
}

// amounts over the whole uint64 range of tlb.Grams
func randAmount(rng *rand.Rand) uint64 {
	switch rng.Intn(6) {
	case 0:
		return []uint64{0, 1, 255, 256, 1<<32 - 1, 1 << 32, 1<<63 - 1, 1 << 63, 1<<64 - 1, 1 << 56, 1<<56 - 1}[rng.Intn(11)]
	case 1:
		return rng.Uint64()
	default:
		return uint64(rng.Int63n(1_000_000_000_000))
	}
}

func randCell(rng *rand.Rand, maxCells, maxBits int) *boc.Cell {
	t := cells.RandTable(rng, 1+rng.Intn(maxCells), maxBits)
	roots, err := cells.Build(t, true)
	if err != nil {
		panic(err)
	}
	return roots[0]
}

const alphabet = "abcdefghijklmnopqrstuvwxyz ABCDEFGHIJKLMNOPQRSTUVWXYZ0123456789.,!?-éßжя漢字🙂"

func randComment(rng *rand.Rand, small bool) string {
	lens := []int{1, 2, 5, 30, 100, 122, 123, 124, 127, 128, 250, 300, 1000, 3000}
	if small {
		lens = []int{1, 5, 30}
	}
	n := lens[rng.Intn(len(lens))]
	rs := []rune(alphabet)
	var sb strings.Builder
	for sb.Len() < n {
		sb.WriteRune(rs[rng.Intn(len(rs))])
	}
	return sb.String()
}

func randMode(rng *rand.Rand) byte {
	switch rng.Intn(4) {
	case 0:
		return []byte{0, 1, 2, 3, 32, 64, 128, 130, 160, 255}[rng.Intn(10)]
	default:
		return byte(rng.Intn(256))
	}
}

func randFields(rng *rand.Rand, small bool) reqMsg {
	m := reqMsg{Kind: "msg", Mode: randMode(rng), Bounce: rng.Intn(2) == 0, Wc: randWc(rng), Amount: randAmount(rng)}
	rng.Read(m.Addr[:])
	switch k := rng.Intn(10); {
	case k < 3:
		m.Kind = "simple"
		m.Mode = wallet.DefaultMessageMode // SimpleTransfer has no mode of its own: the documented default
		if rng.Intn(4) > 0 {
			m.Comment = randComment(rng, small)
		}
		return m
	case k == 3:
		m.Kind = "deploy"
		m.Code, m.Data = randCell(rng, 3, 200), randCell(rng, 3, 200)
		if rng.Intn(2) == 0 {
			m.Body = randCell(rng, 3, 300)
		}
		return m
	}
	if rng.Intn(3) > 0 {
		if small {
			m.Body = randCell(rng, 2, 64)
		} else {
			m.Body = randCell(rng, 6, 1023)
		}
	}
	if rng.Intn(4) == 0 {
		m.Code, m.Data = randCell(rng, 3, 300), randCell(rng, 3, 300)
	}
	return m
}

// marshalInternal is what Wallet.SendV2 does with a Sendable before calling RawSendV2.
func marshalInternal(s wallet.Sendable) wallet.RawMessage {
	rm, err := tryMarshalInternal(s)
	if err != nil {
		panic(err.Error())
	}
	return rm
}

func tryMarshalInternal(s wallet.Sendable) (wallet.RawMessage, error) {
	msg, mode, err := s.ToInternal()
	if err != nil {
		return wallet.RawMessage{}, fmt.Errorf("ToInternal: %v", err)
	}
	c := boc.NewCell()
	if err := tlb.Marshal(c, msg); err != nil {
		return wallet.RawMessage{}, fmt.Errorf("marshal internal message: %v", err)
	}
	return wallet.RawMessage{Message: c, Mode: mode}, nil
}

// ---- the SimpleTransfer grid: amount byte length 0..8 (0, 2^8k - 1, 2^8k) x comment length (every length 60..80 and 120..130)
type gridCell struct {
	Amount uint64
	CLen   int
}

func gridCells() (all, critical []gridCell) {
	amounts := []uint64{0}
	for k := 1; k <= 8; k++ {
		if k == 8 {
			amounts = append(amounts, ^uint64(0))
		} else {
			amounts = append(amounts, uint64(1)<<(8*k)-1)
		}
	}
	for k := 0; k <= 7; k++ {
		amounts = append(amounts, uint64(1)<<(8*k))
	}
	lens := []int{0, 1, 2, 5, 10, 20, 30, 40, 50, 55, 85, 90, 100, 110, 115, 135, 140}
	for l := 60; l <= 80; l++ {
		lens = append(lens, l)
	}
	for l := 120; l <= 130; l++ {
		lens = append(lens, l)
	}
	for _, a := range amounts {
		for _, l := range lens {
			g := gridCell{a, l}
			all = append(all, g)
			if a >= 1<<31 && l >= 62 && l <= 78 { // around the place where a short comment may move into the message cell
				critical = append(critical, g)
			}
		}
	}
	return
}

func (r *runner) runGrid(rng *rand.Rand, o Opts, next func() string) {
	all, critical := gridCells()
	per := map[string][]gridCell{}
	for vi, ver := range Versions {
		for j, g := range all {
			if o.Tier == "thorough" {
				if (j+vi)%o.Shards == o.Shard {
					per[ver] = append(per[ver], g)
				}
			} else if j%o.Shards == o.Shard && (j/o.Shards)%len(Versions) == vi {
				per[ver] = append(per[ver], g)
			}
		}
		if o.Tier != "thorough" {
			for j, g := range critical {
				if (j+vi)%o.Shards == o.Shard {
					per[ver] = append(per[ver], g)
				}
			}
		}
	}
	for _, ver := range Versions {
		size := 24
		if MaxOf[ver] == 4 {
			size = 4
		}
		cellsOf := per[ver]
		for from := 0; from < len(cellsOf); from += size {
			to := from + size
			if to > len(cellsOf) {
				to = len(cellsOf)
			}
			tc := randCase(rng, next(), ver, 0)
			tc.Grid, tc.MsgType, tc.WithInit = true, "ext", false
			tc.Opts.Sub = nil
			for _, g := range cellsOf[from:to] {
				m := reqMsg{Kind: "simple", Mode: wallet.DefaultMessageMode, Bounce: rng.Intn(2) == 0, Wc: []int{0, -1}[rng.Intn(2)], Amount: g.Amount}
				rng.Read(m.Addr[:])
				b := make([]byte, g.CLen)
				for i := range b {
					b[i] = "abcdefghijklmnopqrstuvwxyz 0123456789"[rng.Intn(37)]
				}
				m.Comment = string(b)
				tc.Fields = append(tc.Fields, m)
			}
			r.runBody(tc)
			if (from/size)%3 == 0 { // every third group also through Wallet.Send itself
				r.runSend(tc)
			}
		}
	}
}

func pickCount(rng *rand.Rand, ver string, big bool) int {
	max := MaxOf[ver]
	if max == 4 {
		return rng.Intn(5)
	}
	if big {
		return []int{max, max - 1, 128 + rng.Intn(max-128), 17 + rng.Intn(111)}[rng.Intn(4)]
	}
	return []int{0, 1, 2, 3, 4, 5, 7, 8, 9, 2 + rng.Intn(14)}[rng.Intn(10)]
}

func randCase(rng *rand.Rand, id string, ver string, n int) *testCase {
	tc := &testCase{ID: id, Ver: ver, Seqno: randU32(rng), Vu: randU32(rng), MsgType: "ext", WithInit: rng.Intn(3) == 0}
	rng.Read(tc.Seed[:])
	rng.Read(tc.Seed2[:])
	tc.Opts.Wc = 0
	if rng.Intn(3) == 0 {
		tc.Opts.Wc = randWc(rng)
	}
	if ver != "V5R1" && rng.Intn(2) == 0 { // the sub-wallet option is documented as not used by v5r1
		s := randU32(rng)
		tc.Opts.Sub = &s
	}
	if rng.Intn(2) == 0 {
		x := []int32{-3, -239, 0, 1, -1, 1<<31 - 1, -1 << 31, int32(rng.Uint32())}[rng.Intn(8)]
		tc.Opts.Net = &x
	}
	if (ver == "V5Beta" || ver == "V5R1") && rng.Intn(5) == 0 {
		tc.MsgType = "int"
	}
	small := n > 16
	tc.Fields = make([]reqMsg, n)
	for i := range tc.Fields {
		tc.Fields[i] = randFields(rng, small)
		if i > 0 && rng.Intn(12) == 0 {
			tc.Fields[i] = tc.Fields[rng.Intn(i)] // the same transfer requested twice
		}
	}
	tc.Raw = make([]wallet.RawMessage, n)
	arbitrary := rng.Intn(3) == 0
	for i := range tc.Raw {
		if arbitrary && rng.Intn(2) == 0 {
			if small {
				tc.Raw[i] = wallet.RawMessage{Message: randCell(rng, 2, 100), Mode: randMode(rng)}
			} else {
				tc.Raw[i] = wallet.RawMessage{Message: randCell(rng, 6, 1023), Mode: randMode(rng)}
			}
		} else {
			tc.Raw[i] = marshalInternal(tc.Fields[i].sendable())
			if tc.Fields[i].Kind != "msg" { // raw sends choose their own mode
				tc.Raw[i].Mode = randMode(rng)
			}
		}
	}
	return tc
}

// randExt draws k extended actions of the three kinds.
func randExt(rng *rand.Rand, k int) []extAct {
	out := make([]extAct, k)
	for i := range out {
		x := extAct{Kind: []string{"add", "remove", "sigauth"}[rng.Intn(3)]}
		if x.Kind == "sigauth" {
			x.Allowed = rng.Intn(2) == 0
		} else {
			x.Wc = randWc(rng)
			rng.Read(x.Addr[:])
		}
		out[i] = x
	}
	return out
}

// extOf concretises a list of extended-action kinds (S->C cases).
func extOf(rng *rand.Rand, kinds []string, wc int) []extAct {
	out := make([]extAct, len(kinds))
	for i, k := range kinds {
		x := extAct{Kind: k}
		if k == "sigauth" {
			x.Allowed = i%2 == 0
		} else {
			x.Wc = wc
			rng.Read(x.Addr[:])
		}
		out[i] = x
	}
	return out
}

// xCase: a v5r1 case that goes through CreateSignedMsgBodyCell with k extended actions; every message is a plain
// wallet.Message so that the same list serves the field request (Body event) and the raw request (Send event).
func xCase(rng *rand.Rand, id string, n, k int) *testCase {
	tc := randCase(rng, id, "V5R1", n)
	tc.ViaX = true
	tc.Ext = randExt(rng, k)
	tc.MsgType = []string{"ext", "int"}[rng.Intn(2)]
	for i := range tc.Fields {
		for tc.Fields[i].Kind != "msg" {
			tc.Fields[i] = randFields(rng, n > 16)
		}
		tc.Raw[i] = marshalInternal(tc.Fields[i].sendable())
	}
	return tc
}

// overLimit makes the raw request one message longer than the version allows.
func overLimit(rng *rand.Rand, tc *testCase) *testCase {
	c := *tc
	c.ID = tc.ID + "+over"
	n := MaxOf[tc.Ver] + 1
	c.Raw = make([]wallet.RawMessage, n)
	for i := range c.Raw {
		if i < len(tc.Raw) {
			c.Raw[i] = tc.Raw[i]
		} else {
			m := reqMsg{Kind: "msg", Mode: 3, Wc: 0, Amount: uint64(i)}
			rng.Read(m.Addr[:])
			c.Raw[i] = marshalInternal(m.sendable())
		}
	}
	c.Fields = nil
	return &c
}

// Drive records random cases (C->S). Sharded: shard i takes the cases with index = i mod shards.
func Drive(w *ev.Writer, o Opts) {
	w.Sync = true
	rand.Seed(o.Seed*1000 + int64(o.Shard)) // the highload query id draws from the global source
	rng := rand.New(rand.NewSource(o.Seed*7919 + int64(o.Shard)*104729 + 14))
	r := &runner{w: w}
	nSmall, nBig, nFlip := 12, 2, 0
	if o.Shard < len(Versions) {
		nFlip = 1 // quick: one fully flipped body per version (shard k starts with version k)
	}
	if o.Tier == "thorough" {
		nSmall, nBig, nFlip = 150, 12, 20
	}
	if o.Shard == 0 {
		fixtures(w)
	}
	idx := 0
	next := func() string { idx++; return fmt.Sprintf("s%d-%d", o.Shard, idx) }
	// small cases, every version in turn (offset by the shard so that quick runs cover all versions with flips)
	for i := 0; i < nSmall; i++ {
		ver := Versions[(i+o.Shard)%len(Versions)]
		tc := randCase(rng, next(), ver, pickCount(rng, ver, false))
		r.runBody(tc)
		body, addr := r.runSend(tc)
		if i < nFlip && body != nil {
			r.runFlips(tc, body, addr, rng, 64, 64)
		}
		if i%4 == 3 {
			r.runSend(overLimit(rng, tc))
		}
	}
	r.runGrid(rng, o, next)
	// wallet v5r1 with extended actions (add / remove extension, signature auth) beside 0 / 1 / many out messages
	nX := 4
	if o.Tier == "thorough" {
		nX = 40
	}
	for i := 0; i < nX; i++ {
		n := []int{0, 1, 2, 3, 5, 1 + rng.Intn(12)}[(i+o.Shard)%6]
		k := []int{1, 2, 3, 0, 1 + rng.Intn(6)}[(i+o.Shard/2)%5]
		if o.Tier == "thorough" && i == nX-1 {
			n = []int{255, 254, 100}[o.Shard%3]
		}
		if i == 0 && k == 0 {
			k = 2 // the first case of a shard may be bit-flipped: it needs an extended-action chain
		}
		tc := xCase(rng, next(), n, k)
		r.runBody(tc)
		body, addr := r.runSend(tc)
		if body != nil && k > 0 && ((o.Tier != "thorough" && o.Shard == 7 && i == 0) || (o.Tier == "thorough" && i < 2)) {
			r.runFlips(tc, body, addr, rng, 64, 64)
		}
	}
	// cases at and near the limits of the large versions
	bigVers := []string{"V5Beta", "V5R1", "HighLoadV2R2"}
	for i := 0; i < nBig; i++ {
		ver := bigVers[(i+o.Shard)%3]
		tc := randCase(rng, next(), ver, pickCount(rng, ver, true))
		r.runBody(tc)
		body, addr := r.runSend(tc)
		if o.Tier == "thorough" && i == 0 && body != nil {
			r.runFlips(tc, body, addr, rng, 64, 64)
		}
	}
	w.Emit(ev.M{"k": "End", "events": w.N})
}

// ------------------------------------------------------------------------ fixtures

// fixtures emits the wallet messages captured in the repository's own tests (string literals `boc:` in
// wallet/*_test.go, with `ver:` and `publicKey:` where the test states them).
func fixtures(w *ev.Writer) {
	fs := token.NewFileSet()
	for _, fn := range []string{"/repo/wallet/messages_test.go", "/repo/wallet/wallet_test.go", "/repo/wallet/wallet_v5_test.go"} {
		f, err := parser.ParseFile(fs, fn, nil, 0)
		if err != nil {
			continue
		}
		ast.Inspect(f, func(n ast.Node) bool {
			cl, ok := n.(*ast.CompositeLit)
			if !ok {
				return true
			}
			var b, ver, pk string
			var bad []string
			for _, e := range cl.Elts {
				kv, ok := e.(*ast.KeyValueExpr)
				if !ok {
					continue
				}
				k, _ := kv.Key.(*ast.Ident)
				if k == nil {
					continue
				}
				switch k.Name {
				case "boc":
					if l, ok := kv.Value.(*ast.BasicLit); ok {
						b, _ = strconv.Unquote(l.Value)
					}
				case "ver":
					if id, ok := kv.Value.(*ast.Ident); ok {
						ver = id.Name
					}
				case "publicKey":
					pk = firstStringArg(kv.Value)
				case "invalidPublicKeys":
					if l, ok := kv.Value.(*ast.CompositeLit); ok {
						for _, x := range l.Elts {
							if s := firstStringArg(x); s != "" {
								bad = append(bad, s)
							}
						}
					}
				}
			}
			if !strings.HasPrefix(b, "te6") {
				return true
			}
			raw, err := base64.StdEncoding.DecodeString(b) // the captured bytes themselves
			if err != nil {
				return true
			}
			if _, known := verOf[ver]; !known && ver != "" {
				return true
			}
			pk2 := ""
			if len(bad) > 0 {
				pk2 = bad[len(bad)-1]
			}
			w.Emit(ev.M{"p": "C14", "k": "Fixture", "src": fs.Position(cl.Pos()).String(), "ver": ver, "boc": hex.EncodeToString(raw), "pk": pk, "pk2": pk2})
			return true
		})
	}
}

func firstStringArg(e ast.Expr) string {
	c, ok := e.(*ast.CallExpr)
	if !ok || len(c.Args) != 1 {
		return ""
	}
	l, ok := c.Args[0].(*ast.BasicLit)
	if !ok {
		return ""
	}
	s, _ := strconv.Unquote(l.Value)
	return s
}
