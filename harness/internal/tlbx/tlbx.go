// Package tlbx is the reflection side of the TL-B checks (C03, C04, C08): for any Go type of the library it
// extracts the TL-B schema the reflection codec implies (AST of DESIGN.md A.4), generates random in-domain
// canonical values, and dumps values in the JSON value shape that spec/TlbSem.tla understands.
package tlbx

import (
	"fmt"
	"math/big"
	"math/rand"
	"reflect"
	"regexp"
	"sort"
	"strconv"
	"strings"

	"github.com/tonkeeper/tongo/abi"
	"github.com/tonkeeper/tongo/boc"
	"github.com/tonkeeper/tongo/tlb"
)

type M = map[string]any

var (
	reInt   = regexp.MustCompile(`^(Uint|Int)(\d+)$`)
	reBits  = regexp.MustCompile(`^Bits(\d+)$`)
	reVar   = regexp.MustCompile(`^VarUInteger(\d+)$`)
	tCell   = reflect.TypeOf(boc.Cell{})
	tBitStr = reflect.TypeOf(boc.BitString{})
	tAny    = reflect.TypeOf(tlb.Any{})
	tBigInt = reflect.TypeOf(big.Int{})
	tMagic  = reflect.TypeOf(tlb.Magic(0))
	tSum    = reflect.TypeOf(tlb.SumType(""))
	tUnary  = reflect.TypeOf(tlb.Unary(0))
	tGrams  = reflect.TypeOf(tlb.Grams(0))
	tMarsh  = reflect.TypeOf((*tlb.MarshalerTLB)(nil)).Elem()
	tUnmar  = reflect.TypeOf((*tlb.UnmarshalerTLB)(nil)).Elem()
)

const tlbPkg = "github.com/tonkeeper/tongo/tlb"

func isTlb(t reflect.Type) bool { return t.PkgPath() == tlbPkg }

// generic name of an instantiated generic type: "Maybe", "Either", ...
func genericName(t reflect.Type) string {
	n := t.Name()
	if i := strings.Index(n, "["); i > 0 {
		return n[:i]
	}
	return ""
}

type tagInfo struct {
	maybe, ref bool
	rest       string
}

func parseTag(s string) tagInfo {
	var t tagInfo
	if strings.HasPrefix(s, "maybe^") {
		t.maybe, t.ref = true, true
		return t
	}
	if strings.HasPrefix(s, "maybe") {
		t.maybe = true
		s = s[5:]
	}
	if strings.HasPrefix(s, "^") {
		t.ref = true
		s = strings.TrimSpace(s[1:])
	}
	t.rest = s
	return t
}

// tagPart returns the "$0101" / "#abcd" part of "name$0101".
func tagPart(s string) string {
	if i := strings.IndexAny(s, "$#"); i >= 0 {
		return s[i:]
	}
	return ""
}

func hasCustomMarshal(t reflect.Type) bool {
	return t.Implements(tMarsh) || reflect.PointerTo(t).Implements(tMarsh)
}
func hasCustomUnmarshal(t reflect.Type) bool {
	return t.Implements(tUnmar) || reflect.PointerTo(t).Implements(tUnmar)
}

// Kind classifies a type for the three walkers.
type kind int

const (
	kUint kind = iota
	kInt
	kBigUint
	kBigInt
	kBits
	kVarUint
	kBool
	kUnary
	kGrams
	kMagic
	kMaybe
	kEither
	kEitherRef
	kRef
	kDict
	kCell
	kAny
	kBitString
	kSum
	kSeq
	kPtr
	kOpaque // custom codec without a schema here: generated / dumped by structure, bits not judged
	kSkip   // cannot be generated (interfaces, funcs, ...)
)

func classify(t reflect.Type) (kind, int) {
	name := t.Name()
	if isTlb(t) {
		if m := reInt.FindStringSubmatch(name); m != nil {
			n, _ := strconv.Atoi(m[2])
			signed := m[1] == "Int"
			if t.Kind() == reflect.Struct { // big.Int based
				if signed {
					return kBigInt, n
				}
				return kBigUint, n
			}
			if signed {
				return kInt, n
			}
			return kUint, n
		}
		if m := reBits.FindStringSubmatch(name); m != nil {
			n, _ := strconv.Atoi(m[1])
			return kBits, n
		}
		if m := reVar.FindStringSubmatch(name); m != nil {
			n, _ := strconv.Atoi(m[1])
			return kVarUint, n
		}
		switch genericName(t) {
		case "Maybe":
			return kMaybe, 0
		case "Either":
			return kEither, 0
		case "EitherRef":
			return kEitherRef, 0
		case "Ref":
			return kRef, 0
		case "HashmapE":
			return kDict, 0
		case "Hashmap", "HashmapAug", "HashmapAugE", "BinTree":
			return kOpaque, 0
		}
	}
	switch t {
	case tCell:
		return kCell, 0
	case tAny:
		return kAny, 0
	case tBitStr:
		return kBitString, 0
	case tMagic:
		return kMagic, 0
	case tUnary:
		return kUnary, 0
	case tGrams:
		return kGrams, 0
	}
	switch t.Kind() {
	case reflect.Bool:
		return kBool, 0
	case reflect.Uint8, reflect.Uint16, reflect.Uint32, reflect.Uint64:
		if hasCustomMarshal(t) {
			return kOpaque, 0
		}
		return kUint, t.Bits()
	case reflect.Int8, reflect.Int16, reflect.Int32, reflect.Int64:
		if hasCustomMarshal(t) {
			return kOpaque, 0
		}
		return kInt, t.Bits()
	case reflect.Array:
		if t.Elem().Kind() == reflect.Uint8 && !hasCustomMarshal(t) {
			return kBits, 8 * t.Len()
		}
		return kOpaque, 0
	case reflect.Pointer:
		return kPtr, 0
	case reflect.Struct:
		if hasCustomMarshal(t) || hasCustomUnmarshal(t) {
			return kOpaque, 0
		}
		if _, ok := t.FieldByName("SumType"); ok {
			return kSum, 0
		}
		return kSeq, 0
	case reflect.Interface, reflect.Func, reflect.Chan, reflect.Map, reflect.UnsafePointer:
		return kSkip, 0
	}
	return kOpaque, 0
}

// ---------------------------------------------------------------------------------------------- schema

// AST returns the TL-B type the reflection codec implements for t under struct tag `tag`.
// Nodes of kind "opaque" mark sub-values whose bits this extractor does not know.
func AST(t reflect.Type, tag string) M {
	return ast(t, tag, 0)
}

func ast(t reflect.Type, tag string, depth int) M {
	if depth > 12 {
		return M{"t": "opaque", "go": t.String()}
	}
	if t == tMagic {
		return M{"t": "magic", "tag": tagPart(tag)}
	}
	ti := parseTag(tag)
	if ti.maybe {
		inner := t
		if t.Kind() == reflect.Pointer {
			inner = t.Elem()
		}
		of := ast(inner, "", depth+1)
		if ti.ref {
			of = M{"t": "ref", "of": of}
		}
		return M{"t": "maybe", "of": of}
	}
	if ti.ref {
		return M{"t": "ref", "of": ast(t, "", depth+1)}
	}
	k, n := classify(t)
	switch k {
	case kUint, kBigUint:
		return M{"t": "uint", "n": n}
	case kInt, kBigInt:
		return M{"t": "int", "n": n}
	case kBits:
		return M{"t": "bits", "n": n}
	case kVarUint:
		return M{"t": "varuint", "n": n}
	case kGrams:
		// the Go representation is a uint64: the domain is what both the type and the TL-B definition can express
		return M{"t": "varuint", "n": 16, "gobytes": 8}
	case kBool:
		return M{"t": "bool"}
	case kUnary:
		return M{"t": "unary"}
	case kMaybe:
		return M{"t": "maybe", "of": ast(fieldType(t, "Value"), "", depth+1)}
	case kEither:
		return M{"t": "either", "l": ast(fieldType(t, "Left"), "", depth+1), "r": ast(fieldType(t, "Right"), "", depth+1)}
	case kEitherRef:
		v := ast(fieldType(t, "Value"), "", depth+1)
		return M{"t": "either", "l": v, "r": M{"t": "ref", "of": v}}
	case kRef:
		return M{"t": "ref", "of": ast(fieldType(t, "Value"), "", depth+1)}
	case kDict:
		// HashmapE[K, V]: key width n = K.FixedSize(), value schema = schema of V. Where V has no complete schema the
		// node stays the bare {"t":"dict"} (the specification's encoder only needs to know "dictionary"; its decoder
		// then declines to read the entries).
		if kt, vt, ok := dictTypes(t); ok {
			if n, ok := fixedSize(kt); ok {
				if va := ast(vt, "", depth+1); !HasOpaque(va) {
					return M{"t": "dict", "n": n, "val": va}
				}
			}
		}
		return M{"t": "dict"}
	case kCell:
		return M{"t": "cell"}
	case kAny:
		return M{"t": "any"}
	case kBitString:
		return M{"t": "bitstring"}
	case kPtr:
		return ast(t.Elem(), "", depth+1)
	case kSum:
		ctors := []M{}
		for i := 0; i < t.NumField(); i++ {
			f := t.Field(i)
			if f.Type == tSum {
				continue
			}
			st := f.Tag.Get("tlbSumType")
			ft := f.Type
			if ft.Kind() == reflect.Pointer {
				ft = ft.Elem()
			}
			ctors = append(ctors, M{"name": f.Name, "tag": tagPart(st), "body": ast(ft, "", depth+1)})
		}
		return M{"t": "sum", "ctors": ctors}
	case kSeq:
		fields := []M{}
		for i := 0; i < t.NumField(); i++ {
			f := t.Field(i)
			if !f.IsExported() {
				fields = append(fields, M{"name": f.Name, "ty": M{"t": "opaque", "go": "unexported"}})
				continue
			}
			fields = append(fields, M{"name": f.Name, "ty": ast(f.Type, f.Tag.Get("tlb"), depth+1)})
		}
		return M{"t": "seq", "fields": fields}
	}
	return M{"t": "opaque", "go": t.String()}
}

// HasOpaque reports whether the AST contains a node this extractor has no bit-level schema for.
func HasOpaque(a any) bool {
	switch x := a.(type) {
	case M:
		if x["t"] == "opaque" {
			return true
		}
		for _, v := range x {
			if HasOpaque(v) {
				return true
			}
		}
	case []M:
		for _, v := range x {
			if HasOpaque(v) {
				return true
			}
		}
	}
	return false
}

// dictTypes returns the key and value types of a HashmapE[K, V] (from the signature of its Put method).
func dictTypes(t reflect.Type) (kt, vt reflect.Type, ok bool) {
	m, has := reflect.PointerTo(t).MethodByName("Put")
	if !has || m.Type.NumIn() != 3 {
		return nil, nil, false
	}
	return m.Type.In(1), m.Type.In(2), true
}

func fixedSize(kt reflect.Type) (n int, ok bool) {
	defer func() {
		if recover() != nil {
			ok = false
		}
	}()
	fs, is := reflect.New(kt).Elem().Interface().(interface{ FixedSize() int })
	if !is {
		return 0, false
	}
	return fs.FixedSize(), true
}

func fieldType(t reflect.Type, name string) reflect.Type {
	f, ok := t.FieldByName(name)
	if !ok {
		panic("tlbx: " + t.String() + " has no field " + name)
	}
	return f.Type
}

// ---------------------------------------------------------------------------------------------- cells

// Tree is the nested JSON form of a cell.
func Tree(c *boc.Cell) M {
	bs := c.RawBitString()
	refs := []M{}
	for _, r := range c.Refs() {
		refs = append(refs, Tree(r))
	}
	return M{"b": bs.BinaryString(), "x": int(c.CellType()), "r": refs}
}

// TreeText is the canonical one-line text of a cell tree (same format as TlbSem!TreeText).
func TreeText(c *boc.Cell) string {
	var sb strings.Builder
	var rec func(c *boc.Cell, budget *int)
	budget := 200000
	rec = func(c *boc.Cell, budget *int) {
		*budget--
		if *budget < 0 {
			return
		}
		bs := c.RawBitString()
		fmt.Fprintf(&sb, "%d{%s[", c.CellType(), bs.BinaryString())
		for _, r := range c.Refs() {
			rec(r, budget)
			sb.WriteByte(',')
		}
		sb.WriteString("]}")
	}
	rec(c, &budget)
	return sb.String()
}

func randCell(rng *rand.Rand, depth int) *boc.Cell {
	c := boc.NewCell()
	n := []int{0, 1, 7, 8, 9, 32, 100}[rng.Intn(7)]
	for i := 0; i < n; i++ {
		c.WriteBit(rng.Intn(2) == 1)
	}
	if depth > 0 {
		for k := rng.Intn(3); k > 0; k-- {
			c.AddRef(randCell(rng, depth-1))
		}
	}
	return c
}

// ---------------------------------------------------------------------------------------------- generation

// Gen fills v (settable) with a random canonical in-domain value of its type.
type Gen struct {
	Rng *rand.Rand
	// Small keeps values short so that nested records fit into cells more often.
	Small bool
	// Sweep = k+1 (k >= 0) makes the choice of boundary pattern (0, 1, max, top bit, ...) deterministic for the next
	// value: it starts at pattern k and advances with every scalar generated, so the first values of every type walk
	// through all boundary patterns instead of leaving them to chance. 0: random.
	Sweep int
	// Ctor = k+1 (k >= 0) makes the top-level value of a tagged union take its k-th constructor (mod their number)
	Ctor int
	calls int
}

func (g *Gen) pattern(n int) int {
	if g.Sweep <= 0 {
		return g.Rng.Intn(n)
	}
	g.calls++
	return (g.Sweep - 1 + g.calls - 1) % n
}

func (g *Gen) bigBelow(bits int) *big.Int {
	if bits <= 0 {
		return big.NewInt(0)
	}
	lim := new(big.Int).Lsh(big.NewInt(1), uint(bits))
	switch g.pattern(6) {
	case 0:
		return big.NewInt(0)
	case 1:
		return big.NewInt(1)
	case 2:
		return new(big.Int).Sub(lim, big.NewInt(1))
	case 3:
		return new(big.Int).Rsh(lim, 1)
	}
	return new(big.Int).Rand(g.Rng, lim)
}

func (g *Gen) signedBig(bits int) *big.Int {
	v := g.bigBelow(bits)
	half := new(big.Int).Lsh(big.NewInt(1), uint(bits-1))
	if v.Cmp(half) >= 0 {
		v.Sub(v, new(big.Int).Lsh(big.NewInt(1), uint(bits)))
	}
	return v
}

func setBigStruct(v reflect.Value, x *big.Int) {
	// the generated big integer types are `type UintN big.Int`
	p := v.Addr().Interface()
	bi := reflect.ValueOf(p).Convert(reflect.TypeOf((*big.Int)(nil))).Interface().(*big.Int)
	bi.Set(x)
}

func getBigStruct(v reflect.Value) *big.Int {
	if !v.CanAddr() {
		c := reflect.New(v.Type()).Elem()
		c.Set(v)
		v = c
	}
	return reflect.ValueOf(v.Addr().Interface()).Convert(reflect.TypeOf((*big.Int)(nil))).Interface().(*big.Int)
}

func (g *Gen) Fill(v reflect.Value, tag string, depth int) {
	t := v.Type()
	if depth > 9 { // recursive types: stop; the zero value either encodes or is refused with an error
		// ... but an enumeration has no zero value: the empty name is outside its domain
		if vals, ok := Enums[regName(t)]; ok && v.Kind() == reflect.String {
			v.SetString(vals[g.Rng.Intn(len(vals))])
		}
		return
	}
	if t == tMagic {
		tp := tagPart(tag)
		var x uint64
		if strings.HasPrefix(tp, "$") && tp != "$_" {
			x, _ = strconv.ParseUint(tp[1:], 2, 64)
		} else if strings.HasPrefix(tp, "#") && tp != "#_" {
			x, _ = strconv.ParseUint(tp[1:], 16, 64)
		}
		v.SetUint(x)
		return
	}
	ti := parseTag(tag)
	if ti.maybe && t.Kind() == reflect.Pointer {
		if g.Rng.Intn(2) == 0 || depth > 6 {
			v.Set(reflect.Zero(t))
			return
		}
		p := reflect.New(t.Elem())
		g.Fill(p.Elem(), "", depth+1)
		v.Set(p)
		return
	}
	k, n := classify(t)
	switch k {
	case kUint:
		v.SetUint(g.bigBelow(n).Uint64())
	case kInt:
		v.SetInt(g.signedBig(n).Int64())
	case kBigUint:
		setBigStruct(v, g.bigBelow(n))
	case kBigInt:
		setBigStruct(v, g.signedBig(n))
	case kVarUint:
		bytes := g.Rng.Intn(n) // 0..n-1 bytes
		setBigStruct(v, g.bigBelow(8*bytes))
	case kGrams:
		v.SetUint(g.bigBelow([]int{0, 8, 32, 63, 64}[g.Rng.Intn(5)]).Uint64())
	case kBits:
		for i := 0; i < v.Len(); i++ {
			v.Index(i).SetUint(uint64(g.Rng.Intn(256)))
		}
	case kBool:
		v.SetBool(g.Rng.Intn(2) == 1)
	case kUnary:
		// any length that fits a cell; the 63/64/65 boundary is where a machine word ends
		v.SetUint(uint64([]int{0, 1, 2, 19, 62, 63, 64, 65, 66, 127, 128, 500, 1000}[g.Rng.Intn(13)]))
	case kMaybe:
		if g.Rng.Intn(2) == 1 && depth < 8 {
			v.FieldByName("Exists").SetBool(true)
			g.Fill(v.FieldByName("Value"), "", depth+1)
		}
	case kEither:
		if g.Rng.Intn(2) == 1 {
			v.FieldByName("IsRight").SetBool(true)
			g.Fill(v.FieldByName("Right"), "", depth+1)
		} else {
			g.Fill(v.FieldByName("Left"), "", depth+1)
		}
	case kEitherRef:
		v.FieldByName("IsRight").SetBool(g.Rng.Intn(2) == 1)
		g.Fill(v.FieldByName("Value"), "", depth+1)
	case kRef:
		g.Fill(v.FieldByName("Value"), "", depth+1)
	case kDict:
		// mostly empty (the only form with a unique encoding); sometimes a few entries through Put
		if g.Rng.Intn(4) == 0 && depth < 5 {
			g.fillDict(v, depth)
		}
	case kCell:
		v.Set(reflect.ValueOf(*randCell(g.Rng, 1)))
	case kAny:
		v.Set(reflect.ValueOf(tlb.Any(*randCell(g.Rng, 1))))
	case kBitString:
		bs := boc.NewBitString(16)
		for i := g.Rng.Intn(17); i > 0; i-- {
			bs.WriteBit(g.Rng.Intn(2) == 1)
		}
		v.Set(reflect.ValueOf(bs))
	case kPtr:
		p := reflect.New(t.Elem())
		g.Fill(p.Elem(), "", depth+1)
		v.Set(p)
	case kSum:
		var idx []int
		for i := 0; i < t.NumField(); i++ {
			if t.Field(i).Type != tSum && t.Field(i).IsExported() {
				idx = append(idx, i)
			}
		}
		if len(idx) == 0 {
			return
		}
		i := idx[g.Rng.Intn(len(idx))]
		if g.Ctor > 0 && depth == 0 {
			i = idx[(g.Ctor-1)%len(idx)]
		}
		v.FieldByName("SumType").SetString(t.Field(i).Name)
		g.Fill(v.Field(i), "", depth+1)
	case kSeq, kOpaque:
		if t.Kind() != reflect.Struct {
			g.fillOpaqueScalar(v)
			return
		}
		if custom, ok := customGen[t]; ok {
			custom(g, v)
			return
		}
		if gn := genericName(t); isTlb(t) && gn == "Hashmap" {
			// Hashmap (without E) has no empty form: at least one entry
			for tries := 0; tries < 3; tries++ {
				g.fillDict(v, depth)
			}
			return
		}
		if _, ok := t.FieldByName("SumType"); ok && k == kOpaque {
			// custom codec over a sum-type shaped struct: choose one constructor like kSum
			var idx []int
			for i := 0; i < t.NumField(); i++ {
				if t.Field(i).Type != tSum && t.Field(i).IsExported() {
					idx = append(idx, i)
				}
			}
			if len(idx) > 0 {
				i := idx[g.Rng.Intn(len(idx))]
				if g.Ctor > 0 && depth == 0 {
					i = idx[(g.Ctor-1)%len(idx)]
				}
				v.FieldByName("SumType").SetString(t.Field(i).Name)
				g.Fill(v.Field(i), "", depth+1)
			}
			return
		}
		for i := 0; i < t.NumField(); i++ {
			f := t.Field(i)
			if !f.IsExported() {
				continue
			}
			g.Fill(v.Field(i), f.Tag.Get("tlb"), depth+1)
		}
	}
}

func regName(t reflect.Type) string {
	p := t.PkgPath()
	if i := strings.LastIndex(p, "/"); i >= 0 {
		p = p[i+1:]
	}
	return p + "." + t.Name()
}

func (g *Gen) fillOpaqueScalar(v reflect.Value) {
	if vals, ok := Enums[regName(v.Type())]; ok && v.Kind() == reflect.String {
		v.SetString(vals[g.Rng.Intn(len(vals))])
		return
	}
	switch v.Kind() {
	case reflect.Uint8, reflect.Uint16, reflect.Uint32, reflect.Uint64, reflect.Uint:
		// scalar with its own codec (e.g. a coins type): the whole range of the representation, boundaries first
		v.SetUint(g.bigBelow(v.Type().Bits()).Uint64())
	case reflect.Int8, reflect.Int16, reflect.Int32, reflect.Int64, reflect.Int:
		v.SetInt(g.signedBig(v.Type().Bits()).Int64())
	case reflect.String:
		// (texts: empty, ASCII, multi-byte UTF-8 - a length counted in characters is not a length in bytes -, long)
		v.SetString([]string{"", "a", "hello world", strings.Repeat("x", 130), "h\u00e9llo w\u00f6rld", "\u043f\u0440\u0438\u0432\u0435\u0442", "\u65e5\u672c\u8a9e \U0001F600", strings.Repeat("\u00e9", 100)}[g.Rng.Intn(8)])
	case reflect.Slice:
		if v.Type().Elem().Kind() == reflect.Uint8 {
			b := make([]byte, []int{0, 1, 5, 127, 300}[g.Rng.Intn(5)])
			g.Rng.Read(b)
			v.SetBytes(b)
			return
		}
		// lists of records (action lists, message lists): 0..3 elements; lists that TL-B defines as non-empty get >= 1
		n := g.Rng.Intn(4)
		if minLen[regName(v.Type())] > n {
			n = minLen[regName(v.Type())]
		}
		s := reflect.MakeSlice(v.Type(), n, n)
		for i := 0; i < n; i++ {
			g.Fill(s.Index(i), "", 3)
		}
		v.Set(s)
	}
}

// minLen: list types whose TL-B form has no empty value (the absent list is expressed by the enclosing Maybe).
var minLen = map[string]int{"wallet.W5ExtendedActions": 1}

func (g *Gen) fillDict(v reflect.Value, depth int) {
	put := v.Addr().MethodByName("Put")
	if !put.IsValid() {
		return
	}
	kt, vt := put.Type().In(0), put.Type().In(1)
	for i := 1 + g.Rng.Intn(3); i > 0; i-- {
		k := reflect.New(kt).Elem()
		g.Fill(k, "", depth+1)
		val := reflect.New(vt).Elem()
		g.Fill(val, "", depth+1)
		put.Call([]reflect.Value{k, val})
	}
}

// customGen: types whose Go representation has invariants the structure does not show.
var customGen map[reflect.Type]func(g *Gen, v reflect.Value)

func init() {
	customGen = map[reflect.Type]func(g *Gen, v reflect.Value){
		reflect.TypeOf(tlb.Anycast{}): func(g *Gen, v reflect.Value) {
			d := 1 + g.Rng.Intn(30)
			v.FieldByName("Depth").SetUint(uint64(d))
			v.FieldByName("RewritePfx").SetUint(g.bigBelow(d).Uint64())
		},
		reflect.TypeOf(tlb.MsgAddress{}): func(g *Gen, v reflect.Value) {
			a := v.Addr().Interface().(*tlb.MsgAddress)
			any_ := func() tlb.Maybe[tlb.Anycast] {
				var m tlb.Maybe[tlb.Anycast]
				if g.Rng.Intn(3) == 0 {
					m.Exists = true
					d := 1 + g.Rng.Intn(30)
					m.Value = tlb.Anycast{Depth: uint32(d), RewritePfx: uint32(g.bigBelow(d).Uint64())}
				}
				return m
			}
			switch g.Rng.Intn(4) {
			case 0:
				a.SumType = "AddrNone"
			case 1:
				a.SumType = "AddrExtern"
				n := []int{0, 1, 8, 9, 256, 511}[g.Rng.Intn(6)]
				bs := boc.NewBitString(n)
				for i := 0; i < n; i++ {
					bs.WriteBit(g.Rng.Intn(2) == 1)
				}
				a.AddrExtern = &bs
			case 2:
				a.SumType = "AddrStd"
				a.AddrStd.Anycast = any_()
				a.AddrStd.WorkchainId = int8(g.signedBig(8).Int64())
				g.Rng.Read(a.AddrStd.Address[:])
			case 3:
				a.SumType = "AddrVar"
				n := []int{0, 1, 8, 255, 256, 257, 511}[g.Rng.Intn(7)]
				bs := boc.NewBitString(n)
				for i := 0; i < n; i++ {
					bs.WriteBit(g.Rng.Intn(2) == 1)
				}
				a.AddrVar = &struct {
					Anycast     tlb.Maybe[tlb.Anycast]
					AddrLen     tlb.Uint9
					WorkchainId int32
					Address     boc.BitString
				}{Anycast: any_(), AddrLen: tlb.Uint9(n), WorkchainId: int32(g.signedBig(32).Int64()), Address: bs}
			}
		},
		// block.tlb: flags:(## 16) { flags <= 1 } ... block_create_stats:(flags . 0)?BlockCreateStats
		reflect.TypeOf(tlb.McStateExtraOther{}): func(g *Gen, v reflect.Value) {
			for i := 0; i < v.NumField(); i++ {
				if n := v.Type().Field(i).Name; n != "Flags" && n != "BlockCreateStats" {
					g.Fill(v.Field(i), "", 4)
				}
			}
			v.FieldByName("Flags").SetUint(1)
			g.Fill(v.FieldByName("BlockCreateStats"), "", 4)
		},
		// block.tlb: key_block:(## 1) ... config:key_block?ConfigParams
		reflect.TypeOf(tlb.McBlockExtra{}): func(g *Gen, v reflect.Value) {
			for i := 0; i < v.NumField(); i++ {
				f := v.Type().Field(i)
				if f.Name != "KeyBlock" && f.Name != "Config" {
					g.Fill(v.Field(i), f.Tag.Get("tlb"), 4)
				}
			}
			v.FieldByName("KeyBlock").SetBool(true)
			g.Fill(v.FieldByName("Config"), "", 4)
		},
		// abi payload / body unions: SumType + OpCode + Value any. A value of a known kind carries that kind's struct and op code,
		// an unknown one a cell starting with an op code nobody knows, the empty one nothing.
		reflect.TypeOf(abi.JettonPayload{}): payloadGen(abi.KnownJettonTypes, func(n string) (uint32, bool) { c, ok := abi.JettonOpCodes[n]; return c, ok }, abi.UnknownJettonOp),
		reflect.TypeOf(abi.NFTPayload{}):    payloadGen(abi.KnownNFTTypes, func(n string) (uint32, bool) { c, ok := abi.NFTOpCodes[n]; return c, ok }, abi.UnknownNFTOp),
		reflect.TypeOf(abi.InMsgBody{}):     payloadGen(abi.KnownMsgInTypes, func(n string) (uint32, bool) { c, ok := MsgOpCodes[""][n]; return c, ok }, abi.UnknownMsgOp),
		reflect.TypeOf(abi.ExtOutMsgBody{}): payloadGen(abi.KnownMsgExtOutTypes, func(n string) (uint32, bool) { c, ok := MsgOpCodes["ExtOut"][n]; return c, ok }, abi.UnknownMsgOp),
		reflect.TypeOf(tlb.VmCellSlice{}): func(g *Gen, v reflect.Value) {
			// all fields are unexported: the only way to a value is the library's own constructor
			sv, err := tlb.CellToVmCellSlice(randCell(g.Rng, 1))
			if err == nil {
				v.Set(reflect.ValueOf(sv.VmStkSlice))
			}
		},
	}
}

// payloadGen: generator for the abi unions {SumType, OpCode *uint32, Value any}.
func payloadGen(known map[string]any, code func(string) (uint32, bool), unknown string) func(g *Gen, v reflect.Value) {
	// an op code shared by several kinds (two abi bodies with the same code) cannot be told apart by the decoder: a value of such a
	// kind has no round trip of its own and is outside the domain
	uses := map[uint32]int{}
	for n := range known {
		if c, ok := code(n); ok {
			uses[c]++
		}
	}
	var names []string
	for n := range known {
		if c, ok := code(n); ok && uses[c] == 1 {
			names = append(names, n)
		}
	}
	sort.Strings(names)
	return func(g *Gen, v reflect.Value) {
		setOp := func(op uint32) { v.FieldByName("OpCode").Set(reflect.ValueOf(&op)) }
		switch r := g.Rng.Intn(12); {
		case r == 0 || len(names) == 0:
			v.FieldByName("SumType").SetString("")
		case r == 1:
			op := uint32(0xfffffff0 + g.Rng.Intn(15))
			c := boc.NewCell()
			_ = c.WriteUint(uint64(op), 32)
			for i := g.Rng.Intn(40); i > 0; i-- {
				_ = c.WriteBit(g.Rng.Intn(2) == 1)
			}
			v.FieldByName("SumType").SetString(unknown)
			setOp(op)
			// the decoders store a *boc.Cell; callers inside the library (contract/nft) also hand over a boc.Cell value
			if g.Rng.Intn(2) == 0 {
				v.FieldByName("Value").Set(reflect.ValueOf(*c))
			} else {
				v.FieldByName("Value").Set(reflect.ValueOf(c))
			}
		default:
			n := names[g.Rng.Intn(len(names))]
			val := reflect.New(reflect.TypeOf(known[n])).Elem()
			// the body must be a value of its own type's domain (the depth-limited generator can leave a nested constructor or a
			// non-E dictionary empty): a body that does not survive its own codec standing alone is not used inside the union -
			// the stand-alone round trip of that type judges it
			inDomain := false
			for tries := 0; tries < 6 && !inDomain; tries++ {
				val = reflect.New(reflect.TypeOf(known[n])).Elem()
				g.Fill(val, "", 4)
				func() {
					defer func() { _ = recover() }()
					c := boc.NewCell()
					if tlb.Marshal(c, val.Interface()) != nil {
						return
					}
					back := reflect.New(val.Type())
					if tlb.Unmarshal(c, back.Interface()) != nil {
						return
					}
					inDomain = c.BitsAvailableForRead() == 0 && c.RefsAvailableForRead() == 0
				}()
			}
			if !inDomain {
				v.FieldByName("SumType").SetString("")
				return
			}
			op, _ := code(n)
			v.FieldByName("SumType").SetString(n)
			setOp(op)
			v.FieldByName("Value").Set(val)
		}
	}
}

// Constructors: the number of alternatives of a tagged-union shaped struct type (0 for other types).
func Constructors(t reflect.Type) int {
	if t.Kind() != reflect.Struct {
		return 0
	}
	if _, ok := t.FieldByName("SumType"); !ok {
		return 0
	}
	n := 0
	for i := 0; i < t.NumField(); i++ {
		if t.Field(i).Type != tSum && t.Field(i).IsExported() {
			n++
		}
	}
	return n
}

// New returns a new random value of type t (addressable).
func (g *Gen) New(t reflect.Type) reflect.Value {
	g.calls = 0
	v := reflect.New(t).Elem()
	g.Fill(v, "", 0)
	return v
}

// ---------------------------------------------------------------------------------------------- dumping

func bitsOfBytes(b []byte) string {
	var sb strings.Builder
	for _, x := range b {
		fmt.Fprintf(&sb, "%08b", x)
	}
	return sb.String()
}

// Dump renders v in the JSON value shape that mirrors AST(t, tag).
func Dump(v reflect.Value, tag string) any {
	return dump(v, tag, 0)
}

// camel turns a TL-B constructor name into the CamelCase form tools/tlb2json.py uses (addr_std -> AddrStd).
func camel(s string) string {
	var sb strings.Builder
	for _, p := range strings.Split(s, "_") {
		if p != "" {
			sb.WriteString(strings.ToUpper(p[:1]) + p[1:])
		}
	}
	return sb.String()
}

// DictBits makes Dump render a dictionary the way the specification's decoder (spec/TlbDec.tla) does: a list of
// [key bits, value] pairs in ascending order of the key bits (the abstract value of a dictionary is a finite map; this is
// its canonical listing). Without it entries are listed as the library's Items() returns them, keys in their own dump.
var DictBits bool

// SchemaShape makes Dump follow the field lists of block.tlb where the Go representation folds fields:
// addr_extern (a bare *BitString in Go) becomes [len, bits]; Anycast{Depth, RewritePfx uint32} becomes [depth, bits].
var SchemaShape bool

var tVmCellSlice = reflect.TypeOf(tlb.VmCellSlice{})
var payloadTypes = map[reflect.Type]bool{reflect.TypeOf(abi.JettonPayload{}): true, reflect.TypeOf(abi.NFTPayload{}): true,
	reflect.TypeOf(abi.InMsgBody{}): true, reflect.TypeOf(abi.ExtOutMsgBody{}): true}

func vmSliceDump(x tlb.VmCellSlice) (out any) {
	defer func() {
		if p := recover(); p != nil {
			out = M{"slice": "unset"}
		}
	}()
	return M{"slice": TreeText(x.Cell())}
}

func dump(v reflect.Value, tag string, depth int) any {
	t := v.Type()
	if depth > 40 {
		return "…"
	}
	if _, ok := payloadTypes[t]; ok {
		out := M{"c": v.FieldByName("SumType").String(), "op": "none", "v": "none"}
		if p := v.FieldByName("OpCode"); !p.IsNil() {
			out["op"] = strconv.FormatUint(p.Elem().Uint(), 10)
		}
		if iv := v.FieldByName("Value"); !iv.IsNil() {
			if c, ok := iv.Interface().(*boc.Cell); ok {
				out["v"] = Tree(c)
			} else if c, ok := iv.Interface().(boc.Cell); ok {
				out["v"] = Tree(&c)
			} else {
				out["v"] = dump(iv.Elem(), "", depth+1)
			}
		}
		return out
	}
	if t == tVmCellSlice {
		// the fields are unexported: the abstract value of a slice is the cell Cell() cuts out of its source
		return vmSliceDump(v.Interface().(tlb.VmCellSlice))
	}
	if SchemaShape {
		switch x := v.Interface().(type) {
		case tlb.Anycast:
			s := strconv.FormatUint(uint64(x.RewritePfx), 2)
			for len(s) < int(x.Depth) {
				s = "0" + s
			}
			return []any{strconv.Itoa(int(x.Depth)), s}
		case tlb.AccountStatus:
			return M{"c": camel("acc_state_" + string(x)), "v": []any{}}
		case tlb.AccStatusChange:
			return M{"c": camel(string(x)), "v": []any{}}
		case tlb.ComputeSkipReason:
			return M{"c": camel(string(x)), "v": []any{}}
		case tlb.MsgAddress:
			if x.SumType == "AddrExtern" && x.AddrExtern != nil {
				bs := x.AddrExtern.BinaryString()
				return M{"c": "AddrExtern", "v": []any{strconv.Itoa(len(bs)), bs}}
			}
		case tlb.BlockInfo:
			return blockInfoShape(x, depth)
		case tlb.ValueFlow:
			return valueFlowShape(x, depth)
		}
	}
	if t == tMagic {
		return ""
	}
	ti := parseTag(tag)
	if ti.maybe {
		if v.Kind() == reflect.Pointer {
			if v.IsNil() {
				return M{"has": false}
			}
			return M{"has": true, "v": dump(v.Elem(), "", depth+1)}
		}
		return M{"has": true, "v": dump(v, "", depth+1)}
	}
	k, _ := classify(t)
	switch k {
	case kUint:
		return strconv.FormatUint(v.Uint(), 10)
	case kInt:
		return strconv.FormatInt(v.Int(), 10)
	case kBigUint, kBigInt, kVarUint:
		return getBigStruct(v).String()
	case kGrams:
		return strconv.FormatUint(v.Uint(), 10)
	case kBits:
		b := make([]byte, v.Len())
		for i := range b {
			b[i] = byte(v.Index(i).Uint())
		}
		return bitsOfBytes(b)
	case kBool:
		return v.Bool()
	case kUnary:
		return strconv.FormatUint(v.Uint(), 10)
	case kMaybe:
		if !v.FieldByName("Exists").Bool() {
			return M{"has": false}
		}
		return M{"has": true, "v": dump(v.FieldByName("Value"), "", depth+1)}
	case kEither:
		if v.FieldByName("IsRight").Bool() {
			return M{"right": true, "v": dump(v.FieldByName("Right"), "", depth+1)}
		}
		return M{"right": false, "v": dump(v.FieldByName("Left"), "", depth+1)}
	case kEitherRef:
		return M{"right": v.FieldByName("IsRight").Bool(), "v": dump(v.FieldByName("Value"), "", depth+1)}
	case kRef:
		return dump(v.FieldByName("Value"), "", depth+1)
	case kDict:
		return dumpDict(v, depth)
	case kCell:
		c := v.Interface().(boc.Cell)
		return Tree(&c)
	case kAny:
		c := boc.Cell(v.Interface().(tlb.Any))
		return Tree(&c)
	case kBitString:
		bs := v.Interface().(boc.BitString)
		return bs.BinaryString()
	case kPtr:
		if v.IsNil() {
			return M{"nil": true}
		}
		return dump(v.Elem(), "", depth+1)
	case kSum:
		name := v.FieldByName("SumType").String()
		f := v.FieldByName(name)
		if name == "" || !f.IsValid() {
			return M{"c": name, "v": []any{}}
		}
		if f.Kind() == reflect.Pointer {
			if f.IsNil() {
				return M{"c": name, "v": M{"nil": true}}
			}
			f = f.Elem()
		}
		if SchemaShape {
			// constructors the Go structs name differently from block.tlb
			if r, ok := ctorRename[t.Name()][name]; ok && isTlb(t) {
				name = r
			}
		}
		return M{"c": name, "v": dump(f, "", depth+1)}
	case kSeq, kOpaque:
		switch v.Kind() {
		case reflect.Struct:
			if t == tBigInt {
				x := v.Interface().(big.Int)
				return x.String()
			}
			if _, ok := t.FieldByName("SumType"); ok {
				name := v.FieldByName("SumType").String()
				f := v.FieldByName(name)
				if name == "" || !f.IsValid() {
					return M{"c": name, "v": []any{}}
				}
				if f.Kind() == reflect.Pointer {
					if f.IsNil() {
						return M{"c": name, "v": M{"nil": true}}
					}
					f = f.Elem()
				}
				return M{"c": name, "v": dump(f, "", depth+1)}
			}
			out := []any{}
			for i := 0; i < t.NumField(); i++ {
				f := t.Field(i)
				if !f.IsExported() {
					continue
				}
				out = append(out, dump(v.Field(i), f.Tag.Get("tlb"), depth+1))
			}
			return out
		case reflect.String:
			return M{"s": fmt.Sprintf("%x", v.String())}
		case reflect.Slice:
			if t.Elem().Kind() == reflect.Uint8 {
				return M{"s": fmt.Sprintf("%x", v.Bytes())}
			}
			out := []any{}
			for i := 0; i < v.Len(); i++ {
				out = append(out, dump(v.Index(i), "", depth+1))
			}
			return out
		case reflect.Uint8, reflect.Uint16, reflect.Uint32, reflect.Uint64, reflect.Uint:
			return strconv.FormatUint(v.Uint(), 10)
		case reflect.Int8, reflect.Int16, reflect.Int32, reflect.Int64, reflect.Int:
			return strconv.FormatInt(v.Int(), 10)
		case reflect.Array:
			out := []any{}
			for i := 0; i < v.Len(); i++ {
				out = append(out, dump(v.Index(i), "", depth+1))
			}
			return out
		}
	}
	return M{"unsupported": t.String()}
}

// ctorRename: Go constructor field -> CamelCase of the block.tlb constructor name (only where they differ).
var ctorRename = map[string]map[string]string{
	"MsgEnvelope": {"V1": "MsgEnvelope", "V2": "MsgEnvelopeV2"},
	"IntermediateAddress": {"IntermediateAddressRegular": "IntermAddrRegular", "IntermediateAddressSimple": "IntermAddrSimple",
		"IntermediateAddressExt": "IntermAddrExt"},
}

func bit01(b bool) string {
	if b {
		return "1"
	}
	return "0"
}

func condShape(present bool, v func() any) any {
	if !present {
		return M{"has": false}
	}
	return M{"has": true, "v": v()}
}

// blockInfoShape lists a decoded BlockInfo field by field as block.tlb declares block_info#9bc7a987 (the Go value folds
// the one-bit naturals into bools and keeps the conditional fields as pointers).
func blockInfoShape(x tlb.BlockInfo, depth int) any {
	u := func(n uint64) string { return strconv.FormatUint(n, 10) }
	d := func(v any) any { return dump(reflect.ValueOf(v), "", depth+1) }
	return []any{"", u(uint64(x.Version)), bit01(x.NotMaster), bit01(x.AfterMerge), bit01(x.BeforeSplit), bit01(x.AfterSplit),
		x.WantSplit, x.WantMerge, x.KeyBlock, bit01(x.VertSeqnoIncr), u(uint64(x.Flags)), u(uint64(x.SeqNo)), u(uint64(x.VertSeqNo)),
		d(x.Shard), u(uint64(x.GenUtime)), u(x.StartLt), u(x.EndLt), u(uint64(x.GenValidatorListHashShort)), u(uint64(x.GenCatchainSeqno)),
		u(uint64(x.MinRefMcSeqno)), u(uint64(x.PrevKeyBlockSeqno)),
		condShape(x.GenSoftware != nil, func() any { return d(*x.GenSoftware) }),
		condShape(x.MasterRef != nil, func() any { return d(*x.MasterRef) }),
		d(x.PrevRef),
		condShape(x.PrevVertRef != nil, func() any { return d(*x.PrevVertRef) }),
	}
}

// valueFlowShape: value_flow#b8e48dfb / value_flow_v2#3ebf98b7 with their two anonymous records.
func valueFlowShape(x tlb.ValueFlow, depth int) any {
	d := func(v tlb.CurrencyCollection) any { return dump(reflect.ValueOf(v), "", depth+1) }
	first := []any{d(x.FromPrevBlk), d(x.ToNextBlk), d(x.Imported), d(x.Exported)}
	second := []any{d(x.FeesImported), d(x.Recovered), d(x.Created), d(x.Minted)}
	switch uint32(x.Magic) {
	case 0xb8e48dfb:
		return M{"c": "ValueFlow", "v": []any{first, d(x.FeesCollected), second}}
	case 0x3ebf98b7:
		if x.Burned == nil {
			return M{"c": "ValueFlowV2", "v": []any{first, d(x.FeesCollected), M{"nil": true}, second}}
		}
		return M{"c": "ValueFlowV2", "v": []any{first, d(x.FeesCollected), d(*x.Burned), second}}
	}
	return M{"c": fmt.Sprintf("magic_%x", uint32(x.Magic)), "v": []any{}}
}

func dumpDict(v reflect.Value, depth int) any {
	// HashmapE[K, V]: Items() []HashmapItem[K, V]
	m := v.MethodByName("Items")
	if !m.IsValid() {
		return []any{}
	}
	items := m.Call(nil)[0]
	out := []any{}
	if DictBits {
		type kv struct {
			k string
			v any
		}
		var l []kv
		for i := 0; i < items.Len(); i++ {
			it := items.Index(i)
			kb, ok := KeyBits(it.FieldByName("Key"))
			if !ok {
				return M{"unsupported": "dictionary key " + it.FieldByName("Key").Type().String()}
			}
			l = append(l, kv{kb, dump(it.FieldByName("Value"), "", depth+1)})
		}
		sort.SliceStable(l, func(a, b int) bool { return l[a].k < l[b].k })
		for _, e := range l {
			out = append(out, []any{e.k, e.v})
		}
		return out
	}
	for i := 0; i < items.Len(); i++ {
		it := items.Index(i)
		out = append(out, []any{dump(it.FieldByName("Key"), "", depth+1), dump(it.FieldByName("Value"), "", depth+1)})
	}
	return out
}

// KeyBits is the n-bit key of a dictionary entry as the TL-B definition of the key type lays it out (big-endian,
// two's complement for signed keys, the bits themselves for bitsN), computed here from the numeric value - not by
// the library's encoder. Key types with a codec of their own go through that codec.
func KeyBits(k reflect.Value) (string, bool) {
	kind, n := classify(k.Type())
	var x *big.Int
	switch kind {
	case kUint:
		x = new(big.Int).SetUint64(k.Uint())
	case kInt:
		x = big.NewInt(k.Int())
	case kBigUint, kBigInt:
		x = new(big.Int).Set(getBigStruct(k))
	case kBits:
		b := make([]byte, k.Len())
		for i := range b {
			b[i] = byte(k.Index(i).Uint())
		}
		return bitsOfBytes(b), true
	default:
		c := boc.NewCell()
		if err := tlb.Marshal(c, k.Interface()); err != nil {
			return "", false
		}
		bs := c.RawBitString()
		return bs.BinaryString(), true
	}
	if n <= 0 {
		return "", n == 0
	}
	if x.Sign() < 0 {
		x.Add(x, new(big.Int).Lsh(big.NewInt(1), uint(n)))
	}
	s := x.Text(2)
	if len(s) > n {
		return "", false
	}
	return strings.Repeat("0", n-len(s)) + s, true
}

// ---------------------------------------------------------------------------------------------- undumping

// CellOfTree builds an (ordinary or exotic-typed as given) cell from the nested JSON form.
func CellOfTree(j any) (*boc.Cell, error) {
	m, ok := j.(map[string]any)
	if !ok {
		return nil, fmt.Errorf("tree: not an object")
	}
	c := boc.NewCell()
	bits, _ := m["b"].(string)
	for _, ch := range bits {
		if err := c.WriteBit(ch == '1'); err != nil {
			return nil, err
		}
	}
	rs, _ := m["r"].([]any)
	for _, r := range rs {
		k, err := CellOfTree(r)
		if err != nil {
			return nil, err
		}
		if err := c.AddRef(k); err != nil {
			return nil, err
		}
	}
	return c, nil
}

// Undump is the inverse of Dump: it stores the JSON-shaped value j into v (settable).
func Undump(v reflect.Value, tag string, j any) error {
	t := v.Type()
	if t == tMagic {
		(&Gen{}).Fill(v, tag, 0)
		return nil
	}
	ti := parseTag(tag)
	if ti.maybe {
		m, _ := j.(map[string]any)
		if has, _ := m["has"].(bool); !has {
			v.Set(reflect.Zero(t))
			return nil
		}
		if t.Kind() == reflect.Pointer {
			p := reflect.New(t.Elem())
			if err := Undump(p.Elem(), "", m["v"]); err != nil {
				return err
			}
			v.Set(p)
			return nil
		}
		return Undump(v, "", m["v"])
	}
	k, _ := classify(t)
	str := func() string { s, _ := j.(string); return s }
	big10 := func() (*big.Int, error) {
		x, ok := new(big.Int).SetString(str(), 10)
		if !ok {
			return nil, fmt.Errorf("bad number %q", str())
		}
		return x, nil
	}
	switch k {
	case kUint, kGrams, kUnary:
		x, err := big10()
		if err != nil {
			return err
		}
		v.SetUint(x.Uint64())
	case kInt:
		x, err := big10()
		if err != nil {
			return err
		}
		v.SetInt(x.Int64())
	case kBigUint, kBigInt, kVarUint:
		x, err := big10()
		if err != nil {
			return err
		}
		setBigStruct(v, x)
	case kBits:
		s := str()
		for i := 0; i < v.Len(); i++ {
			x, _ := strconv.ParseUint(s[8*i:8*i+8], 2, 8)
			v.Index(i).SetUint(x)
		}
	case kBool:
		b, _ := j.(bool)
		v.SetBool(b)
	case kMaybe:
		m, _ := j.(map[string]any)
		if has, _ := m["has"].(bool); has {
			v.FieldByName("Exists").SetBool(true)
			return Undump(v.FieldByName("Value"), "", m["v"])
		}
	case kEither:
		m, _ := j.(map[string]any)
		if r, _ := m["right"].(bool); r {
			v.FieldByName("IsRight").SetBool(true)
			return Undump(v.FieldByName("Right"), "", m["v"])
		}
		return Undump(v.FieldByName("Left"), "", m["v"])
	case kEitherRef:
		m, _ := j.(map[string]any)
		r, _ := m["right"].(bool)
		v.FieldByName("IsRight").SetBool(r)
		return Undump(v.FieldByName("Value"), "", m["v"])
	case kRef:
		return Undump(v.FieldByName("Value"), "", j)
	case kCell:
		c, err := CellOfTree(j)
		if err != nil {
			return err
		}
		v.Set(reflect.ValueOf(*c))
	case kAny:
		c, err := CellOfTree(j)
		if err != nil {
			return err
		}
		v.Set(reflect.ValueOf(tlb.Any(*c)))
	case kPtr:
		p := reflect.New(t.Elem())
		if err := Undump(p.Elem(), "", j); err != nil {
			return err
		}
		v.Set(p)
	case kSum:
		m, _ := j.(map[string]any)
		name, _ := m["c"].(string)
		f := v.FieldByName(name)
		if !f.IsValid() {
			return fmt.Errorf("no constructor %q in %v", name, t)
		}
		v.FieldByName("SumType").SetString(name)
		return Undump(f, "", m["v"])
	case kSeq:
		l, _ := j.([]any)
		i := 0
		for fi := 0; fi < t.NumField(); fi++ {
			f := t.Field(fi)
			if !f.IsExported() {
				continue
			}
			if i >= len(l) {
				return fmt.Errorf("too few values for %v", t)
			}
			if err := Undump(v.Field(fi), f.Tag.Get("tlb"), l[i]); err != nil {
				return err
			}
			i++
		}
	default:
		return fmt.Errorf("undump: unsupported type %v", t)
	}
	return nil
}

// PrimTypes lists the Go types whose TL-B form is a primitive or a combinator of primitives: every generated
// integer / bits / VarUInteger type plus a fixed set of combinator instantiations and tag-driven structs.
func PrimTypes() map[string]reflect.Type {
	out := map[string]reflect.Type{}
	for n, t := range Registry {
		if !strings.HasPrefix(n, "tlb.") {
			continue
		}
		switch k, _ := classify(t); k {
		case kUint, kInt, kBigUint, kBigInt, kBits, kVarUint, kUnary, kGrams:
			out[n] = t
		}
	}
	out["bool"] = reflect.TypeOf(false)
	for n, x := range map[string]any{
		"uint8": uint8(0), "uint16": uint16(0), "uint32": uint32(0), "uint64": uint64(0),
		"int8": int8(0), "int16": int16(0), "int32": int32(0), "int64": int64(0), "[4]byte": [4]byte{},
		"Maybe[Uint7]": tlb.Maybe[tlb.Uint7]{}, "Maybe[Int9]": tlb.Maybe[tlb.Int9]{}, "Maybe[Ref[Uint16]]": tlb.Maybe[tlb.Ref[tlb.Uint16]]{},
		"Either[Uint3,Int13]": tlb.Either[tlb.Uint3, tlb.Int13]{}, "EitherRef[Uint32]": tlb.EitherRef[tlb.Uint32]{},
		"Ref[Int64]": tlb.Ref[tlb.Int64]{}, "Ref[Maybe[Bits80]]": tlb.Ref[tlb.Maybe[tlb.Bits80]]{},
		"Either[Ref[Uint8],Maybe[VarUInteger4]]": tlb.Either[tlb.Ref[tlb.Uint8], tlb.Maybe[tlb.VarUInteger4]]{},
		"Maybe[Either[Bool,Unary]]":              tlb.Maybe[tlb.Either[bool, tlb.Unary]]{},
	} {
		out[n] = reflect.TypeOf(x)
	}
	u5, i12 := reflect.TypeOf(tlb.Uint5(0)), reflect.TypeOf(tlb.Int12(0))
	out["struct{^,maybe,maybe^,magic}"] = reflect.StructOf([]reflect.StructField{
		{Name: "Magic", Type: tMagic, Tag: `tlb:"tagged#a1b"`},
		{Name: "A", Type: u5, Tag: `tlb:"^"`},
		{Name: "B", Type: reflect.PointerTo(i12), Tag: `tlb:"maybe"`},
		{Name: "C", Type: reflect.PointerTo(u5), Tag: `tlb:"maybe^"`},
		{Name: "D", Type: reflect.TypeOf(false)},
	})
	out["sum{$0,$10,#c3}"] = reflect.StructOf([]reflect.StructField{
		{Name: "SumType", Type: tSum},
		{Name: "Zero", Type: reflect.StructOf([]reflect.StructField{{Name: "X", Type: u5}}), Tag: `tlbSumType:"zero$0"`},
		{Name: "OneZero", Type: reflect.StructOf([]reflect.StructField{{Name: "Y", Type: i12}, {Name: "Z", Type: reflect.TypeOf(false)}}), Tag: `tlbSumType:"one_zero$10"`},
		{Name: "Hex", Type: reflect.PointerTo(reflect.StructOf([]reflect.StructField{{Name: "W", Type: reflect.TypeOf(tlb.Bits80{})}})), Tag: `tlbSumType:"hex#c3"`},
	})
	return out
}

// Perturb moves the read cursors of every bit-string valued field inside v (a decoded value that "has been looked at"):
// the TL-B value of a bit string is all of its bits, wherever its cursor is. Cells (Any, ^Cell) are left alone: for
// them the cursor is part of the value (the remainder of a cell).
func Perturb(v reflect.Value, rng *rand.Rand, depth int) {
	if depth > 40 {
		return
	}
	t := v.Type()
	switch {
	case t == tBitStr:
		if v.CanAddr() {
			bs := v.Addr().Interface().(*boc.BitString)
			if n := bs.BitsAvailableForRead(); n > 0 {
				bs.ReadBits(1 + rng.Intn(n))
			}
		}
		return
	case t == tCell || t == tAny:
		return
	}
	switch v.Kind() {
	case reflect.Pointer:
		if !v.IsNil() {
			Perturb(v.Elem(), rng, depth+1)
		}
	case reflect.Struct:
		for i := 0; i < v.NumField(); i++ {
			if t.Field(i).IsExported() {
				Perturb(v.Field(i), rng, depth+1)
			}
		}
	case reflect.Slice:
		if t.Elem().Kind() != reflect.Uint8 {
			for i := 0; i < v.Len(); i++ {
				Perturb(v.Index(i), rng, depth+1)
			}
		}
	}
}
