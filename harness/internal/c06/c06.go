// Package c06 records calls on real boc.BitString / boc.Cell objects as NDJSON events
// that spec/trace/Bits_Trace.tla judges (C->S), and replays TLC-generated operation
// sequences (S->C) comparing the observable state after every step.
package c06

import (
	"math"
	"encoding/hex"
	"fmt"
	"math/big"
	"math/rand"
	"strconv"
	"strings"

	"github.com/tonkeeper/tongo/boc"

	"verifharness/internal/ev"
)

// target is the part of the API both boc.BitString and boc.Cell offer.
type target interface {
	WriteBit(bool) error
	WriteUint(uint64, int) error
	WriteInt(int64, int) error
	WriteBigUint(*big.Int, int) error
	WriteBigInt(*big.Int, int) error
	WriteBytes([]byte) error
	WriteUnary(uint) error
	WriteLimUint(int, int) error
	WriteBitString(boc.BitString) error
	ReadBit() (bool, error)
	ReadUint(int) (uint64, error)
	PickUint(int) (uint64, error)
	ReadInt(int) (int64, error)
	ReadBigUint(int) (*big.Int, error)
	ReadBigInt(int) (*big.Int, error)
	ReadBytes(int) ([]byte, error)
	ReadBits(int) (boc.BitString, error)
	ReadRemainingBits() boc.BitString
	ReadUnary() (uint, error)
	ReadLimUint(int) (uint, error)
	Skip(int) error
	BitsAvailableForRead() int
}

type bsT struct{ *boc.BitString }
type cellT struct{ *boc.Cell }

func (c cellT) bin() string { b := c.RawBitString(); return b.BinaryString() }
func (b bsT) bin() string   { return b.BinaryString() }

// Rec wraps one object under test and logs every call.
type Rec struct {
	W       *ev.Writer
	t       target
	bs      *boc.BitString // non-nil when the target is a bare bit string
	cell    *boc.Cell      // non-nil when the target is a cell
	lastBin string
	// SrcReads, when set, makes WriteBitString pass sources whose read cursor has been moved
	SrcReads *rand.Rand
}

func (r *Rec) binNow() string {
	if r.cell != nil {
		return cellT{r.cell}.bin()
	}
	return r.bs.BinaryString()
}

// Reset starts a new segment on a fresh object.
func (r *Rec) Reset(capBits int, cell bool) {
	if cell {
		r.cell = boc.NewCell()
		r.bs = nil
		r.t = r.cell
		capBits = boc.CellBits
	} else {
		b := boc.NewBitString(capBits)
		r.bs = &b
		r.cell = nil
		r.t = r.bs
	}
	r.lastBin = ""
	obj := "bs"
	if cell {
		obj = "cell"
	}
	r.W.Emit(ev.M{"k": "Reset", "cap": capBits, "obj": obj, "bin": r.binNow(), "avail": r.t.BitsAvailableForRead(), "refs": r.refs(), "ravail": r.ravail(), "err": ""})
}

func (r *Rec) refs() int {
	if r.cell != nil {
		return r.cell.RefsSize()
	}
	return 0
}
func (r *Rec) ravail() int {
	if r.cell != nil {
		return r.cell.RefsAvailableForRead()
	}
	return 0
}

func (r *Rec) emit(m ev.M, err error) {
	m["err"] = ev.ErrClass(err)
	b := r.binNow()
	if b != r.lastBin {
		m["bin"] = b
		r.lastBin = b
	}
	m["avail"] = r.t.BitsAvailableForRead()
	m["refs"] = r.refs()
	m["ravail"] = r.ravail()
	r.W.Emit(m)
}

func b2i(b bool) int {
	if b {
		return 1
	}
	return 0
}

func (r *Rec) WriteBit(b bool) { r.emit(ev.M{"k": "WriteBit", "b": b2i(b)}, r.t.WriteBit(b)) }
func (r *Rec) WriteUint(v uint64, w int) {
	r.emit(ev.M{"k": "WriteUint", "v": strconv.FormatUint(v, 10), "w": w}, r.t.WriteUint(v, w))
}
func (r *Rec) WriteInt(v int64, w int) {
	r.emit(ev.M{"k": "WriteInt", "v": strconv.FormatInt(v, 10), "w": w}, r.t.WriteInt(v, w))
}
func (r *Rec) WriteBigUint(v *big.Int, w int) {
	r.emit(ev.M{"k": "WriteBigUint", "v": v.String(), "w": w}, r.t.WriteBigUint(new(big.Int).Set(v), w))
}
func (r *Rec) WriteBigInt(v *big.Int, w int) {
	r.emit(ev.M{"k": "WriteBigInt", "v": v.String(), "w": w}, r.t.WriteBigInt(new(big.Int).Set(v), w))
}
func (r *Rec) WriteBytes(b []byte) {
	r.emit(ev.M{"k": "WriteBytes", "hex": hex.EncodeToString(b)}, r.t.WriteBytes(b))
}
func (r *Rec) WriteByte(b byte) {
	if r.bs == nil {
		r.WriteBytes([]byte{b})
		return
	}
	r.emit(ev.M{"k": "WriteByte", "v": strconv.Itoa(int(b))}, r.bs.WriteByte(b))
}
func (r *Rec) WriteUnary(n uint) { r.emit(ev.M{"k": "WriteUnary", "n": int(n)}, r.t.WriteUnary(n)) }
func (r *Rec) WriteLimUint(v, n int) {
	// the bound as decimal text ("ns"): bounds beyond 2^31 are not TLC integers; the width of (#<= n) is the length of n in bits
	r.emit(ev.M{"k": "WriteLimUint", "v": strconv.Itoa(v), "ns": strconv.Itoa(n)}, r.t.WriteLimUint(v, n))
}
func (r *Rec) WriteBitString(bits string) {
	src := boc.NewBitString(len(bits))
	for _, c := range bits {
		if err := src.WriteBit(c == '1'); err != nil {
			panic(err)
		}
	}
	// the nested bit string denotes all of its bits, wherever its own read cursor happens to be
	if r.SrcReads != nil && len(bits) > 0 {
		switch r.SrcReads.Intn(4) {
		case 0:
			src.ReadBit()
		case 1:
			src.ReadBits(r.SrcReads.Intn(len(bits) + 1))
		case 2:
			src.Skip(len(bits))
		}
	}
	r.emit(ev.M{"k": "WriteBitString", "bits": bits}, r.t.WriteBitString(src))
}

// Append: a nested bit string appended to a growing bit string (BitString objects only): all of its bits, wherever its own
// read cursor is; the capacity grows as far as needed.
func (r *Rec) Append(bits string, srcRead int) {
	if r.bs == nil {
		r.WriteBitString(bits)
		return
	}
	src := boc.NewBitString(len(bits) + 8*(srcRead%3)) // sometimes with spare capacity
	for _, c := range bits {
		if err := src.WriteBit(c == '1'); err != nil {
			panic(err)
		}
	}
	if srcRead > len(bits) {
		srcRead = len(bits)
	}
	if srcRead > 0 {
		src.Skip(srcRead)
	}
	r.bs.Append(src)
	r.emit(ev.M{"k": "Append", "bits": bits, "srcread": srcRead}, nil)
}

// growResult appends to a bit string a read RETURNED: the result is a value of its own, the source must not change
// (the event's recorded state is taken afterwards).
func growResult(v *boc.BitString) {
	ones := boc.NewBitString(24)
	for i := 0; i < 24; i++ {
		_ = ones.WriteBit(true)
	}
	v.Append(ones)
}

func (r *Rec) ReadBit() {
	b, err := r.t.ReadBit()
	r.emit(ev.M{"k": "ReadBit", "out": strconv.Itoa(b2i(b))}, err)
}
func (r *Rec) ReadUint(w int) {
	v, err := r.t.ReadUint(w)
	r.emit(ev.M{"k": "ReadUint", "w": w, "out": strconv.FormatUint(v, 10)}, err)
}
func (r *Rec) PickUint(w int) {
	v, err := r.t.PickUint(w)
	r.emit(ev.M{"k": "PickUint", "w": w, "out": strconv.FormatUint(v, 10)}, err)
}
func (r *Rec) ReadInt(w int) {
	v, err := r.t.ReadInt(w)
	r.emit(ev.M{"k": "ReadInt", "w": w, "out": strconv.FormatInt(v, 10)}, err)
}
func bigStr(v *big.Int) string {
	if v == nil {
		return "0"
	}
	return v.String()
}
func (r *Rec) ReadBigUint(w int) {
	v, err := r.t.ReadBigUint(w)
	r.emit(ev.M{"k": "ReadBigUint", "w": w, "out": bigStr(v)}, err)
}
func (r *Rec) ReadBigInt(w int) {
	v, err := r.t.ReadBigInt(w)
	r.emit(ev.M{"k": "ReadBigInt", "w": w, "out": bigStr(v)}, err)
}
func (r *Rec) ReadByte() {
	if r.bs == nil {
		r.ReadBytes(1)
		return
	}
	v, err := r.bs.ReadByte()
	r.emit(ev.M{"k": "ReadByte", "out": strconv.Itoa(int(v))}, err)
}
func (r *Rec) ReadBytes(n int) {
	v, err := r.t.ReadBytes(n)
	r.emit(ev.M{"k": "ReadBytes", "n": n, "out": hex.EncodeToString(v)}, err)
}
func (r *Rec) ReadBits(n int) {
	v, err := r.t.ReadBits(n)
	out := ""
	if err == nil {
		out = v.BinaryString()
		growResult(&v)
	}
	r.emit(ev.M{"k": "ReadBits", "n": n, "out": out}, err)
}
func (r *Rec) ReadRemainingBits() {
	v := r.t.ReadRemainingBits()
	out := v.BinaryString()
	growResult(&v)
	r.emit(ev.M{"k": "ReadRemainingBits", "out": out}, nil)
}
func (r *Rec) ReadUnary() {
	v, err := r.t.ReadUnary()
	r.emit(ev.M{"k": "ReadUnary", "out": int(v)}, err)
}
func (r *Rec) ReadLimUint(n int) {
	v, err := r.t.ReadLimUint(n)
	r.emit(ev.M{"k": "ReadLimUint", "ns": strconv.Itoa(n), "out": strconv.FormatUint(uint64(v), 10)}, err)
}
func (r *Rec) Skip(n int) { r.emit(ev.M{"k": "Skip", "n": n}, r.t.Skip(n)) }
func (r *Rec) ResetCounter() {
	if r.cell != nil {
		r.cell.ResetCounters()
	} else {
		r.bs.ResetCounter()
	}
	r.emit(ev.M{"k": "ResetCounter"}, nil)
}
func (r *Rec) AddRef() {
	if r.cell == nil {
		return
	}
	// a reference is named by the order it was added: the child holds that number
	c := boc.NewCell()
	_ = c.WriteUint(uint64(r.cell.RefsSize()+1), 8)
	var err error
	pan := ""
	func() {
		defer func() {
			if p := recover(); p != nil {
				pan = fmt.Sprint(p)
			}
		}()
		err = r.cell.AddRef(c)
	}()
	if pan != "" {
		r.W.Emit(ev.M{"k": "Panic", "op": "AddRef", "panic": pan})
		return
	}
	r.emit(ev.M{"k": "AddRef"}, err)
}

// limBound: the bound n of a (#<= n) field: small ones, and the whole range of int (the width is the bit length of n: 32
// bits at 2^32 - 1, 33 at 2^32, 63 at the largest int)
func limBound(rng *rand.Rand) int {
	switch rng.Intn(6) {
	case 0:
		e := uint(31 + rng.Intn(32))
		b := []int{1<<e - 1, 1 << e, 1<<e + 1 + rng.Intn(1000), math.MaxInt64, math.MaxUint32, math.MaxUint32 + 1}
		if e == 62 {
			b[2] = 1<<62 + rng.Intn(1000)
		}
		return b[rng.Intn(len(b))]
	case 1:
		return int(rng.Int63())
	}
	return rng.Intn(1 << uint(rng.Intn(21)))
}
func refID(c *boc.Cell) int {
	c.ResetCounters()
	v, err := c.ReadUint(8)
	c.ResetCounters()
	if err != nil {
		return -1
	}
	return int(v)
}
func (r *Rec) NextRef() {
	if r.cell == nil {
		return
	}
	var c *boc.Cell
	var err error
	pan := ""
	func() {
		defer func() {
			if p := recover(); p != nil {
				pan = fmt.Sprint(p)
			}
		}()
		c, err = r.cell.NextRef()
	}()
	if pan != "" {
		r.W.Emit(ev.M{"k": "Panic", "op": "NextRef", "panic": pan})
		return
	}
	m := ev.M{"k": "NextRef"}
	if err == nil {
		m["id"] = refID(c)
	}
	r.emit(m, err)
}

// SetBit: On(n) / Off(n) on the bit string itself (a bare bit string only: a cell does not expose them).
func (r *Rec) SetBit(n int, on bool) {
	if r.bs == nil {
		return
	}
	if on {
		r.emit(ev.M{"k": "On", "n": n}, r.bs.On(n))
	} else {
		r.emit(ev.M{"k": "Off", "n": n}, r.bs.Off(n))
	}
}

// AliasWrite appends bits to a by-value copy of the object's bit string (the copy shares the buffer).
func (r *Rec) AliasWrite(bits string) {
	var cp boc.BitString
	if r.cell != nil {
		cp = r.cell.RawBitString()
	} else {
		cp = *r.bs
	}
	for _, ch := range bits {
		if cp.WriteBit(ch == '1') != nil {
			break
		}
	}
	r.emit(ev.M{"k": "AliasWrite", "bits": bits}, nil)
}

// CopyRemaining: the unread bits and references as a new cell.
func (r *Rec) CopyRemaining() {
	if r.cell == nil {
		return
	}
	c2 := r.cell.CopyRemaining()
	bs := c2.RawBitString()
	ids := []int{}
	for _, ch := range c2.Refs() {
		ids = append(ids, refID(ch))
	}
	r.emit(ev.M{"k": "CopyRemaining", "out": bs.BinaryString(), "outrefs": ids}, nil)
}

// FiftHex logs the text form and what parsing that text gives back.
func (r *Rec) FiftHex() {
	var bs boc.BitString
	if r.cell != nil {
		bs = r.cell.RawBitString()
	} else {
		bs = *r.bs
	}
	txt := bs.ToFiftHex()
	back, err := boc.BitStringFromFiftHex(txt)
	bk := "!"
	if err == nil {
		bk = back.BinaryString()
	}
	r.emit(ev.M{"k": "FiftHex", "out": txt, "back": bk}, err)
}

// TopUp logs the byte form and what reading those bytes back gives.
func (r *Rec) TopUp() {
	var bs boc.BitString
	if r.cell != nil {
		bs = r.cell.RawBitString()
	} else {
		bs = *r.bs
	}
	n := bs.GetWriteCursor()
	arr, err := bs.GetTopUppedArray()
	out, bk := "", "!"
	if err == nil {
		out = hex.EncodeToString(arr)
		back := boc.NewBitString(len(arr) * 8)
		if e := back.SetTopUppedArray(arr, n%8 == 0); e == nil {
			bk = back.BinaryString()
		} else {
			err = e
		}
	}
	r.emit(ev.M{"k": "TopUp", "out": out, "back": bk}, err)
}

// ---------------------------------------------------------------- patterns

func Pattern(id int, n int, rng *rand.Rand) string {
	var sb strings.Builder
	for i := 0; i < n; i++ {
		var b bool
		switch id % 5 {
		case 0:
			b = i%2 == 0
		case 1:
			b = rng.Intn(2) == 1
		case 2:
			b = i%7 != 3
		case 3:
			b = (i/8)%2 == 0 // alternating bytes ff 00
		case 4:
			b = (i*i+i/3)%5 < 2
		}
		if b {
			sb.WriteByte('1')
		} else {
			sb.WriteByte('0')
		}
	}
	return sb.String()
}

type Opts struct {
	Tier   string
	Seed   int64
	Shard  int
	Shards int
}

// Drive writes the recorded trace for one shard.
func Drive(w *ev.Writer, o Opts) {
	rng := rand.New(rand.NewSource(o.Seed*1000003 + int64(o.Shard)))
	r := &Rec{W: w, SrcReads: rand.New(rand.NewSource(o.Seed + 77))}
	thorough := o.Tier == "thorough"

	// (0) references: 0..4 added (a fifth is refused), all of them read, and reads beyond what was written - an error, not a crash
	if o.Shard == 0 {
		for nref := 0; nref <= 5; nref++ {
			r.Reset(1023, true)
			r.WriteUint(uint64(nref), 8)
			for i := 0; i < nref; i++ {
				r.AddRef()
			}
			for i := 0; i < nref+2; i++ {
				r.CopyRemaining()
				r.NextRef()
			}
			r.ResetCounter()
			r.NextRef()
			r.CopyRemaining()
		}
	}

	// (1) fast-path grid: every cursor offset x every width, over patterned buffers.
	npat := 1
	offStep := 1
	if thorough {
		npat = 3
	}
	for p := 0; p < npat; p++ {
		pat := Pattern(p+int(o.Seed), 1023, rng)
		for off := o.Shard; off <= 1023; off += o.Shards * offStep {
			r.Reset(1023, (off+p)%2 == 0)
			r.WriteBitString(pat)
			r.Skip(off)
			for wd := 0; wd <= 64; wd++ {
				r.PickUint(wd)
			}
			uw := []int{0, 1, 7, 8, 9, 16, 31, 32, 33, 48, 55, 56, 57, 58, 63, 64}
			iw := []int{1, 2, 7, 8, 9, 16, 32, 33, 56, 57, 58, 63, 64}
			if thorough {
				uw = uw[:0]
				for i := 0; i <= 64; i++ {
					uw = append(uw, i)
				}
				iw = uw[1:]
			}
			for _, wd := range uw {
				r.ReadUint(wd)
				r.ResetCounter()
				r.Skip(off)
			}
			for _, wd := range iw {
				r.ReadInt(wd)
				r.ResetCounter()
				r.Skip(off)
			}
			r.ReadByte()
			r.ResetCounter()
			r.Skip(off)
			for _, n := range []int{0, 1, 2, 3, 8, 33, 127} {
				r.ReadBytes(n)
				r.ResetCounter()
				r.Skip(off)
			}
			for _, n := range []int{0, 1, 5, 7, 8, 9, 64, 65, 300} {
				r.ReadBits(n)
				r.ResetCounter()
				r.Skip(off)
			}
			r.ReadLimUint(limBound(rng))
			r.ResetCounter()
			r.Skip(off)
			r.ReadUnary()
			r.ResetCounter()
			r.Skip(off)
			if off%8 == off%64 || thorough || off > 1023-260 { // big-int widths at offsets 0..7 (+ the tail)
				bw := []int{1, 2, 3, 7, 8, 9, 15, 16, 17, 63, 64, 65, 127, 128, 129, 255, 256, 257}
				if thorough && off < 8 {
					bw = bw[:0]
					for i := 1; i <= 257; i++ {
						bw = append(bw, i)
					}
				}
				for _, wd := range bw {
					r.ReadBigUint(wd)
					r.ResetCounter()
					r.Skip(off)
					r.ReadBigInt(wd)
					r.ResetCounter()
					r.Skip(off)
				}
			}
			r.ReadRemainingBits()
			r.FiftHex()
		}
	}

	// (2) Fift hex for every length 0..1023
	for n := o.Shard; n <= 1023; n += o.Shards {
		for p := 0; p < 3; p++ {
			if !thorough && p > 0 && n%4 != p {
				continue
			}
			r.Reset(n, false)
			r.WriteBitString(Pattern(p+1, n, rng))
			r.FiftHex()
		}
	}

	// (3) random operation sequences over many capacities, all operations, incl. overflow and underflow
	nseq := 40
	if thorough {
		nseq = 600
	}
	caps := []int{0, 1, 7, 8, 9, 12, 63, 64, 65, 256, 1023}
	for i := 0; i < nseq; i++ {
		c := caps[rng.Intn(len(caps))]
		r.Reset(c, rng.Intn(2) == 0)
		RandomOps(r, rng, 40)
	}
	w.Emit(ev.M{"k": "End", "events": w.N})
}

var widths = []int{0, 1, 2, 7, 8, 9, 15, 16, 17, 31, 32, 33, 55, 56, 57, 58, 63, 64}

func randVal(rng *rand.Rand, w int) uint64 {
	if w == 0 {
		return 0
	}
	var v uint64
	switch rng.Intn(6) {
	case 0:
		v = 0
	case 1:
		v = 1
	case 2:
		v = ^uint64(0)
	case 3:
		v = 1 << uint(w-1)
	case 4:
		v = 0xAAAAAAAAAAAAAAAA
	default:
		v = rng.Uint64()
	}
	if w < 64 {
		v &= (1 << uint(w)) - 1
	}
	return v
}

func randBig(rng *rand.Rand, w int, signed bool) *big.Int {
	one := big.NewInt(1)
	lim := new(big.Int).Lsh(one, uint(w))
	var v *big.Int
	switch rng.Intn(5) {
	case 0:
		v = big.NewInt(0)
	case 1:
		v = new(big.Int).Sub(lim, one) // all ones
	case 2:
		v = new(big.Int).Rsh(lim, 1) // top bit only
	case 3:
		v = big.NewInt(1)
	default:
		v = new(big.Int).Rand(rng, lim)
	}
	if signed { // map the w-bit pattern to its two's complement value
		half := new(big.Int).Rsh(lim, 1)
		if v.Cmp(half) >= 0 {
			v.Sub(v, lim)
		}
	}
	return v
}

// RandomOps performs n random in-domain operations.
func RandomOps(r *Rec, rng *rand.Rand, n int) {
	for i := 0; i < n; i++ {
		switch rng.Intn(38) {
		case 0:
			r.WriteBit(rng.Intn(2) == 1)
		case 1, 2:
			w := widths[rng.Intn(len(widths))]
			r.WriteUint(randVal(rng, w), w)
		case 3, 4:
			w := widths[1+rng.Intn(len(widths)-1)]
			u := randVal(rng, w)
			var v int64
			if w == 64 {
				v = int64(u)
			} else if u>>(uint(w)-1) == 1 {
				v = int64(u) - (1 << uint(w))
			} else {
				v = int64(u)
			}
			r.WriteInt(v, w)
		case 5:
			w := 1 + rng.Intn(257)
			r.WriteBigUint(randBig(rng, w, false), w)
		case 6:
			w := 1 + rng.Intn(257)
			r.WriteBigInt(randBig(rng, w, true), w)
		case 7:
			b := make([]byte, rng.Intn(5))
			rng.Read(b)
			r.WriteBytes(b)
		case 8:
			r.WriteByte(byte(rng.Intn(256)))
		case 9:
			ns := []uint{0, 1, 5, 62, 63, 64, 70}
			r.WriteUnary(ns[rng.Intn(len(ns))])
		case 10:
			n := limBound(rng)
			v := 0
			switch {
			case n > 0 && rng.Intn(4) == 0:
				v = n
			case n > 0 && n < math.MaxInt64:
				v = int(rng.Int63n(int64(n) + 1))
			case n > 0:
				v = int(rng.Int63())
			}
			r.WriteLimUint(v, n)
		case 11:
			r.WriteBitString(Pattern(rng.Intn(5), rng.Intn(20), rng))
		case 12:
			r.ReadBit()
		case 13, 14:
			r.ReadUint(widths[rng.Intn(len(widths))])
		case 15:
			r.PickUint(widths[rng.Intn(len(widths))])
		case 16, 17:
			r.ReadInt(widths[1+rng.Intn(len(widths)-1)])
		case 18:
			r.ReadBigUint(1 + rng.Intn(80))
		case 19:
			r.ReadBigInt(1 + rng.Intn(80))
		case 20:
			r.ReadByte()
		case 21:
			r.ReadBytes(rng.Intn(4))
		case 22:
			r.ReadBits(rng.Intn(20))
		case 23:
			r.ReadUnary()
		case 24:
			r.ReadLimUint(limBound(rng))
		case 25:
			r.Skip(rng.Intn(12))
		case 26:
			r.ResetCounter()
		case 27:
			r.AddRef()
		case 28:
			r.NextRef()
		case 29:
			r.FiftHex()
		case 30: // a bit set or cleared in place: inside what is written, at the write cursor, ahead of it, at / beyond the capacity
			n := rng.Intn(40)
			if rng.Intn(3) == 0 {
				n = rng.Intn(1100)
			}
			r.SetBit(n, rng.Intn(2) == 0)
		case 31:
			r.AliasWrite(Pattern(1+rng.Intn(4), 1+rng.Intn(12), rng))
		case 32:
			r.AliasWrite(strings.Repeat("1", 1+rng.Intn(16)))
		case 33:
			r.CopyRemaining()
		case 34:
			r.TopUp()
		case 35, 36:
			bits := Pattern(1+rng.Intn(4), 1+rng.Intn(40), rng)
			r.Append(bits, rng.Intn(len(bits)+1))
		case 37: // whole bytes at a byte boundary, then the result is grown
			r.ReadBits(8 * (1 + rng.Intn(3)))
		}
	}
}

var _ = fmt.Sprint
