package c06

import (
	"bufio"
	"encoding/json"
	"fmt"
	"math/big"
	"os"
	"strconv"
	"strings"

	"verifharness/internal/ev"
)

// Replay steps TLC-generated behaviours of Bits through the real object. Each input line is
// {"vec":n,"cell":bool,"cap":c,"steps":[{k,...args..., "ok":bool, "bin":"..", "avail":n, "out":".."}]}
// For every step it writes {"vec":n,"i":i,"k":..,"match":bool,...}; mismatches carry both sides.
func Replay(in string, w *ev.Writer) error {
	f, err := os.Open(in)
	if err != nil {
		return err
	}
	defer f.Close()
	sc := bufio.NewScanner(f)
	sc.Buffer(make([]byte, 1<<20), 1<<26)
	nvec := 0
	for sc.Scan() {
		var v struct {
			Vec   int              `json:"vec"`
			Cell  bool             `json:"cell"`
			Cap   int              `json:"cap"`
			Steps []map[string]any `json:"steps"`
		}
		if err := json.Unmarshal(sc.Bytes(), &v); err != nil {
			return fmt.Errorf("vector %d: %v", nvec, err)
		}
		nvec++
		mem, _ := ev.Create(os.DevNull)
		r := &Rec{W: mem}
		r.Reset(v.Cap, v.Cell)
		bad := -1
		prevBin := ""
		var got ev.M
		for i, st := range v.Steps {
			got = stepOne(r, st)
			if got == nil {
				return fmt.Errorf("vector %d step %d: unknown op %v", v.Vec, i, st["k"])
			}
			expOK, _ := st["ok"].(bool)
			match := (got["err"] == "") == expOK && fmt.Sprint(got["avail"]) == fmt.Sprint(st["avail"])
			gb, eb := fmt.Sprint(got["bin"]), fmt.Sprint(st["bin"])
			if expOK || !strings.HasPrefix(fmt.Sprint(st["k"]), "Write") {
				match = match && gb == eb
			} else {
				// failed write: what was there before stays; any prefix of the new bits may have been appended
				match = (got["err"] != "") && strings.HasPrefix(gb, prevBin) && strings.HasPrefix(eb, gb)
			}
			if eo, _ := st["out"].(string); expOK && eo != "" && fmt.Sprint(got["out"]) != eo {
				match = false
			}
			prevBin = gb
			if !match {
				bad = i
				break
			}
		}
		mem.Close()
		m := ev.M{"vec": v.Vec, "steps": len(v.Steps), "match": bad < 0}
		if bad >= 0 {
			m["i"] = bad
			m["exp"] = v.Steps[bad]
			m["got"] = got
			m["key"] = fmt.Sprint(v.Steps[bad]["k"])
		}
		w.Emit(m)
	}
	w.Emit(ev.M{"k": "End", "events": nvec})
	return sc.Err()
}

func num(x any) int {
	switch t := x.(type) {
	case float64:
		return int(t)
	case string:
		n, _ := strconv.Atoi(t)
		return n
	}
	return 0
}

// stepOne performs one generated step and returns the observation in the generator's terms:
// err class, bin (full bit string), avail, out (bits for reads).
func stepOne(r *Rec, st map[string]any) ev.M {
	k, _ := st["k"].(string)
	var err error
	out := any(nil)
	bitsOfU := func(v uint64, w int) string {
		if w == 0 {
			return ""
		}
		s := strconv.FormatUint(v, 2)
		for len(s) < w {
			s = "0" + s
		}
		return s
	}
	switch k {
	case "WriteBit":
		err = r.t.WriteBit(num(st["b"]) == 1)
	case "WriteUint":
		v, _ := strconv.ParseUint(st["v"].(string), 10, 64)
		err = r.t.WriteUint(v, num(st["w"]))
	case "WriteInt":
		v, _ := strconv.ParseInt(st["v"].(string), 10, 64)
		err = r.t.WriteInt(v, num(st["w"]))
	case "WriteBigUint":
		v, _ := new(big.Int).SetString(st["v"].(string), 10)
		err = r.t.WriteBigUint(v, num(st["w"]))
	case "WriteBigInt":
		v, _ := new(big.Int).SetString(st["v"].(string), 10)
		err = r.t.WriteBigInt(v, num(st["w"]))
	case "WriteUnary":
		err = r.t.WriteUnary(uint(num(st["n"])))
	case "ReadBit":
		var b bool
		b, err = r.t.ReadBit()
		out = strconv.Itoa(b2i(b))
	case "ReadUint":
		var v uint64
		v, err = r.t.ReadUint(num(st["w"]))
		out = bitsOfU(v, num(st["w"]))
	case "PickUint":
		var v uint64
		v, err = r.t.PickUint(num(st["w"]))
		out = bitsOfU(v, num(st["w"]))
	case "ReadInt":
		var v int64
		w := num(st["w"])
		v, err = r.t.ReadInt(w)
		u := uint64(v)
		if w < 64 {
			u &= (1 << uint(w)) - 1
		}
		out = bitsOfU(u, w)
	case "ReadBigUint":
		var v *big.Int
		w := num(st["w"])
		v, err = r.t.ReadBigUint(w)
		if err == nil {
			s := v.Text(2)
			for len(s) < w {
				s = "0" + s
			}
			out = s
		}
	case "ReadBits":
		v, e := r.t.ReadBits(num(st["n"]))
		err = e
		if e == nil {
			out = v.BinaryString()
		}
	case "ReadUnary":
		var v uint
		v, err = r.t.ReadUnary()
		out = strconv.Itoa(int(v))
	case "Skip":
		err = r.t.Skip(num(st["n"]))
	case "ResetCounter":
		if r.cell != nil {
			r.cell.ResetCounters()
		} else {
			r.bs.ResetCounter()
		}
	default:
		return nil
	}
	return ev.M{"err": ev.ErrClass(err), "bin": r.binNow(), "avail": r.t.BitsAvailableForRead(), "out": out}
}
