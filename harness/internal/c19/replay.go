package c19

import (
	"bufio"
	"encoding/json"
	"fmt"
	"os"
	"strconv"

	"verifharness/internal/ev"
)

func readLines(path string, each func(line []byte) error) error {
	f, err := os.Open(path)
	if err != nil {
		return err
	}
	defer f.Close()
	sc := bufio.NewScanner(f)
	sc.Buffer(make([]byte, 1<<20), 1<<28)
	for sc.Scan() {
		if len(sc.Bytes()) == 0 {
			continue
		}
		if err := each(sc.Bytes()); err != nil {
			return err
		}
	}
	return sc.Err()
}

// Replay (S->C) concretises and runs every decision-table row of the input file. One Check event per row carries all
// concrete inputs, the result of the real code and whether it is the verdict the table requires.
func Replay(in string, w *ev.Writer) error {
	w.Sync = true
	n := 0
	err := readLines(in, func(line []byte) error {
		var cs Case
		if err := json.Unmarshal(line, &cs); err != nil {
			return fmt.Errorf("bad vector: %w", err)
		}
		n++
		return runCase(&cs, w)
	})
	if err != nil {
		return err
	}
	w.Emit(ev.M{"k": "End", "events": n})
	return nil
}

// Exec re-runs recorded concrete events (Check / Payload) against the current tree. The clock cannot be set back, so
// the lifetimes are extended by the time that has passed since the recording: every age keeps its relation to its
// lifetime, which is all the verdict depends on.
func Exec(in string, w *ev.Writer) error {
	w.Sync = true
	n := 0
	err := readLines(in, func(line []byte) error {
		var k struct {
			K   string `json:"k"`
			Now string `json:"now"`
		}
		if err := json.Unmarshal(line, &k); err != nil {
			return err
		}
		var keep map[string]any
		_ = json.Unmarshal(line, &keep)
		then, _ := strconv.ParseInt(k.Now, 10, 64)
		switch k.K {
		case "Check":
			var c Concrete
			if err := json.Unmarshal(line, &c); err != nil {
				return err
			}
			for attempt := 0; ; attempt++ {
				now := settle().Unix()
				cc := c
				cc.Lp, cc.Lpr = c.Lp+(now-then), c.Lpr+(now-then)
				w.Emit(ev.M{"k": "Begin", "vec": n})
				m, ok := run(&cc, now)
				if !ok && attempt < 5 {
					continue
				}
				for _, f := range []string{"case", "vec", "rep", "want", "owner_seed", "owner_pub", "signer"} {
					if v, has := keep[f]; has {
						m[f] = v
					}
				}
				w.Emit(m)
				break
			}
			n++
		case "Payload":
			var p payloadEvent
			if err := json.Unmarshal(line, &p); err != nil {
				return err
			}
			now := settle().Unix()
			p.Lp += now - then
			w.Emit(p.run(now, keep["class"]))
			n++
		}
		return nil
	})
	if err != nil {
		return err
	}
	w.Emit(ev.M{"k": "End", "events": n})
	return nil
}
