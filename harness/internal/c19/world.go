// Package c19 drives tonconnect.Server (CheckProof, CheckPayload, GeneratePayload) and
// tonconnect.CreateSignedProof for property C19. It only builds inputs, runs the real code under
// recover() and records what happened; every verdict is decided by TLC (spec/TonConnect.tla).
package c19

import (
	"context"
	"crypto/ed25519"
	"crypto/hmac"
	"crypto/sha256"
	"encoding/base64"
	"encoding/binary"
	"encoding/hex"
	"fmt"
	"math/big"
	"math/rand"
	"sync"

	"github.com/tonkeeper/tongo/boc"
	"github.com/tonkeeper/tongo/tlb"
	"github.com/tonkeeper/tongo/ton"
	"github.com/tonkeeper/tongo/wallet"
)

// Opts selects the size and the random stream of a recording run.
type Opts struct {
	Tier          string
	Seed          int64
	Shard, Shards int
}

// ---------------------------------------------------------------- wallets

var versions = map[string]wallet.Version{
	"v1r1": wallet.V1R1, "v1r2": wallet.V1R2, "v1r3": wallet.V1R3, "v2r1": wallet.V2R1, "v2r2": wallet.V2R2,
	"v3r1": wallet.V3R1, "v3r2": wallet.V3R2, "v4r1": wallet.V4R1, "v4r2": wallet.V4R2, "v5beta": wallet.V5Beta, "v5r1": wallet.V5R1,
	"v3r2_lockup": wallet.V3R2Lockup, "highload_v1r1": wallet.HighLoadV1R1, "highload_v1r2": wallet.HighLoadV1R2,
	"highload_v2": wallet.HighLoadV2, "highload_v2r1": wallet.HighLoadV2R1, "highload_v2r2": wallet.HighLoadV2R2,
}

var stdVersions = []string{"v1r1", "v1r2", "v1r3", "v2r1", "v2r2", "v3r1", "v3r2", "v4r1", "v4r2", "v5beta", "v5r1"}
var otherVersions = []string{"v3r2_lockup", "highload_v1r1", "highload_v1r2", "highload_v2", "highload_v2r1", "highload_v2r2"}

func isStd(ver string) bool {
	for _, v := range stdVersions {
		if v == ver {
			return true
		}
	}
	return false
}

type acct struct {
	ver  string
	seed []byte
	priv ed25519.PrivateKey
	pub  ed25519.PublicKey
	wc   int32
	si   tlb.StateInit
	addr ton.AccountID
}

func keyFromSeed(seed []byte) (ed25519.PrivateKey, ed25519.PublicKey) {
	priv := ed25519.NewKeyFromSeed(seed)
	return priv, priv.Public().(ed25519.PublicKey)
}

func randSeed(r *rand.Rand) []byte {
	s := make([]byte, 32)
	r.Read(s)
	return s
}

// siCell marshals a StateInit with the library's own TL-B encoder (what CreateSignedProof does).
func siCell(si tlb.StateInit) (*boc.Cell, error) {
	c := boc.NewCell()
	if err := tlb.Marshal(c, si); err != nil {
		return nil, err
	}
	return c, nil
}

func siBase64(si tlb.StateInit) (string, error) {
	c, err := siCell(si)
	if err != nil {
		return "", err
	}
	return c.ToBocBase64()
}

func siAddress(si tlb.StateInit, wc int32) (ton.AccountID, error) {
	c, err := siCell(si)
	if err != nil {
		return ton.AccountID{}, err
	}
	h, err := c.Hash256()
	if err != nil {
		return ton.AccountID{}, err
	}
	return ton.AccountID{Workchain: wc, Address: h}, nil
}

// dataCell writes the persistent data of the wallet contracts the wallet package cannot build itself
// (layouts from the contracts' sources: seqno / subwallet / key ...).
func dataCell(ver string, pub ed25519.PublicKey, sub uint32, r *rand.Rand) *boc.Cell {
	c := boc.NewCell()
	switch ver {
	case "v3r2_lockup":
		c.WriteUint(0, 32)
		c.WriteUint(uint64(sub), 32)
		c.WriteBytes(pub)
		cfg := make([]byte, 32)
		r.Read(cfg)
		c.WriteBytes(cfg) // config_public_key
		c.WriteUint(0, 1) // allowed_destinations
		c.WriteUint(0, 4) // total_locked_value
		c.WriteUint(0, 1) // locked
		c.WriteUint(0, 4) // total_restricted_value
		c.WriteUint(0, 1) // restricted
	case "highload_v1r1", "highload_v1r2":
		c.WriteUint(0, 32)
		c.WriteUint(uint64(sub), 32)
		c.WriteBytes(pub)
	default: // highload v2 family
		c.WriteUint(uint64(sub), 32)
		c.WriteUint(0, 64)
		c.WriteBytes(pub)
		c.WriteUint(0, 1)
	}
	return c
}

// newAcct builds a wallet of the given version for the key of `seed`: state-init and address through the wallet
// package where it supports the version, by hand (published code + data layout) otherwise.
func newAcct(ver string, seed []byte, wc int32, sub *uint32, r *rand.Rand) (*acct, error) {
	v, ok := versions[ver]
	if !ok {
		return nil, fmt.Errorf("unknown version %q", ver)
	}
	priv, pub := keyFromSeed(seed)
	a := &acct{ver: ver, seed: seed, priv: priv, pub: pub, wc: wc}
	if isStd(ver) || ver == "highload_v2r2" {
		si, err := wallet.GenerateStateInit(pub, v, nil, int(wc), sub)
		if err != nil {
			return nil, err
		}
		if !si.Code.Exists || !si.Data.Exists {
			return nil, fmt.Errorf("wallet.GenerateStateInit(%s) returned an empty state-init", ver)
		}
		addr, err := wallet.GenerateWalletAddress(pub, v, nil, int(wc), sub)
		if err != nil {
			return nil, err
		}
		a.si, a.addr = si, addr
		return a, nil
	}
	s := uint32(wallet.DefaultSubWallet)
	if sub != nil {
		s = *sub
	}
	a.si.Code.Exists = true
	a.si.Code.Value.Value = *wallet.GetCodeByVer(v)
	a.si.Data.Exists = true
	a.si.Data.Value.Value = *dataCell(ver, pub, s, r)
	addr, err := siAddress(a.si, wc)
	if err != nil {
		return nil, err
	}
	a.addr = addr
	return a, nil
}

// ---------------------------------------------------------------- the chain as the server sees it (mock executor)

// ChainEntry is one account the executor knows: mode "key" answers get_public_key with Key, mode "exit" runs the
// method with a non-zero exit code (a contract without that method).
type ChainEntry struct {
	Wc   int32  `json:"wc"`
	Addr string `json:"addr"`
	Mode string `json:"mode"`
	Key  string `json:"key"`
}

type execCall struct {
	Wc     int32
	Addr   string
	Method int
}

type mockExecutor struct {
	mu      sync.Mutex
	entries map[string]ChainEntry
	calls   []execCall
}

func newExecutor(chain []ChainEntry) *mockExecutor {
	m := &mockExecutor{entries: map[string]ChainEntry{}}
	for _, e := range chain {
		m.entries[fmt.Sprintf("%d:%s", e.Wc, e.Addr)] = e
	}
	return m
}

func (m *mockExecutor) RunSmcMethodByID(ctx context.Context, id ton.AccountID, method int, params tlb.VmStack) (uint32, tlb.VmStack, error) {
	m.mu.Lock()
	defer m.mu.Unlock()
	a := hex.EncodeToString(id.Address[:])
	m.calls = append(m.calls, execCall{id.Workchain, a, method})
	e, ok := m.entries[fmt.Sprintf("%d:%s", id.Workchain, a)]
	if !ok {
		return 0, nil, fmt.Errorf("account state not found")
	}
	if e.Mode != "key" {
		return 11, tlb.VmStack{}, nil
	}
	kb, _ := hex.DecodeString(e.Key)
	v := tlb.VmStackValue{SumType: "VmStkInt", VmStkInt: tlb.Int257(*new(big.Int).SetBytes(kb))}
	return 0, tlb.VmStack{v}, nil
}

// ---------------------------------------------------------------- the library's payload format and the signed message
// (used to craft inputs only: payloads with chosen time stamps / foreign secrets, and the attacker's forgery)

func craftPayload(secret []byte, nonce []byte, t int64) []byte {
	p := make([]byte, 16, 48)
	copy(p[:8], nonce)
	binary.BigEndian.PutUint64(p[8:16], uint64(t))
	h := hmac.New(sha256.New, secret)
	h.Write(p)
	return h.Sum(p)[:32]
}

func tcMessage(wc int32, addr []byte, domain string, ts int64, payload string) []byte {
	m := []byte("ton-proof-item-v2/")
	m = binary.BigEndian.AppendUint32(m, uint32(wc))
	m = append(m, addr...)
	m = binary.LittleEndian.AppendUint32(m, uint32(len(domain)))
	m = append(m, domain...)
	m = binary.LittleEndian.AppendUint64(m, uint64(ts))
	m = append(m, payload...)
	h := sha256.Sum256(m)
	f := append([]byte{0xff, 0xff}, "ton-connect"...)
	f = append(f, h[:]...)
	r := sha256.Sum256(f)
	return r[:]
}

// the encodings of the four points of order dividing 4 on edwards25519; 00..00 is one of them, so anybody can
// "sign" for the all-zero public key: S = 0 and R = [k](-A) is one of these
var smallOrderR = []string{
	"0100000000000000000000000000000000000000000000000000000000000000",
	"ecffffffffffffffffffffffffffffffffffffffffffffffffffffffffffff7f",
	"0000000000000000000000000000000000000000000000000000000000000000",
	"0000000000000000000000000000000000000000000000000000000000000080",
	// the four points of order 8
	"c7176a703d4dd84fba3c0b760d10670f2a2053fa2c39ccc64ec7fd7792ac037a",
	"c7176a703d4dd84fba3c0b760d10670f2a2053fa2c39ccc64ec7fd7792ac03fa",
	"26e8958fc2b227b045c3f489f2ef98f0d5dfac05d3c63339b13802886d53fc05",
	"26e8958fc2b227b045c3f489f2ef98f0d5dfac05d3c63339b13802886d53fc85",
}

// forgeFor returns a degenerate signature (R of small order, S = 0) that verifies for `key` over msg, if there is one.
func forgeFor(key, msg []byte) (string, bool) {
	if len(key) != ed25519.PublicKeySize {
		return "", false
	}
	for _, rh := range smallOrderR {
		rb, _ := hex.DecodeString(rh)
		sig := append(rb, make([]byte, 32)...)
		if ed25519.Verify(key, msg, sig) {
			return base64.StdEncoding.EncodeToString(sig), true
		}
	}
	return "", false
}

// forgeZeroKey returns a signature valid for the public key 00..00 over msg, if one of the candidates works.
func forgeZeroKey(msg []byte) (string, bool) {
	zero := make([]byte, 32)
	for _, rh := range smallOrderR {
		rb, _ := hex.DecodeString(rh)
		sig := append(rb, make([]byte, 32)...)
		if ed25519.Verify(zero, msg, sig) {
			return base64.StdEncoding.EncodeToString(sig), true
		}
	}
	return "", false
}

// addRoot turns a single-root bag (generic magic, no index, no crc) into a two-root bag by appending one leaf cell
// and naming it as a second root.
func addRoot(b []byte) ([]byte, error) {
	if len(b) < 6 || hex.EncodeToString(b[:4]) != "b5ee9c72" || b[4]&0xe0 != 0 {
		return nil, fmt.Errorf("addRoot: unexpected bag header")
	}
	size, off := int(b[4]&7), int(b[5])
	rd := func(p, n int) int {
		v := 0
		for i := 0; i < n; i++ {
			v = v<<8 | int(b[p+i])
		}
		return v
	}
	wr := func(v, n int) []byte {
		o := make([]byte, n)
		for i := n - 1; i >= 0; i-- {
			o[i] = byte(v)
			v >>= 8
		}
		return o
	}
	cells, roots, absent, tot := rd(6, size), rd(6+size, size), rd(6+2*size, size), rd(6+3*size, off)
	if roots != 1 || cells+1 >= 1<<(8*size) {
		return nil, fmt.Errorf("addRoot: cannot extend")
	}
	p := 6 + 3*size + off
	root0 := rd(p, size)
	data := b[p+size:]
	leaf := []byte{0x00, 0x02, 0xab}
	out := append([]byte{}, b[:6]...)
	out = append(out, wr(cells+1, size)...)
	out = append(out, wr(2, size)...)
	out = append(out, wr(absent, size)...)
	out = append(out, wr(tot+len(leaf), off)...)
	out = append(out, wr(root0, size)...)
	out = append(out, wr(cells, size)...)
	out = append(out, data...)
	out = append(out, leaf...)
	return out, nil
}
