package c19

import (
	"bytes"
	"encoding/base64"
	"encoding/binary"
	"encoding/hex"
	"fmt"
	"math/rand"
	"strconv"
	"sync"
	"time"

	"github.com/tonkeeper/tongo/tonconnect"

	"verifharness/internal/ev"
)

// ---------------------------------------------------------------- payload functions on their own

type payloadEvent struct {
	Secret  string `json:"secret"`
	Lp      int64  `json:"lp"`
	Payload string `json:"payload"` // hex of the text
}

func (p *payloadEvent) run(now int64, class any) ev.M {
	secret, _ := hex.DecodeString(p.Secret)
	srv, err := tonconnect.NewTonConnect(newExecutor(nil), string(secret), tonconnect.WithLifeTimePayload(p.Lp))
	if err != nil {
		panic("c19: NewTonConnect: " + err.Error())
	}
	g := callCheckPayload(srv, unhx(p.Payload))
	return ev.M{"k": "Payload", "p": "C19", "class": class, "secret": p.Secret, "lp": p.Lp, "now": strconv.FormatInt(now, 10),
		"payload": p.Payload, "go": g.m()}
}

var payloadClasses = []string{"fresh", "b-1", "b+1", "old", "foreign_secret", "short", "long", "empty", "bad_hex", "odd_hex", "upper_hex",
	"flip_nonce", "flip_time", "flip_mac", "flip_char", "mac_of_other_nonce"}

func drivePayloads(w *ev.Writer, r *rand.Rand, n int) {
	for i := 0; i < n; i++ {
		class := payloadClasses[i%len(payloadClasses)]
		secret := make([]byte, 1+r.Intn(40))
		r.Read(secret)
		lp := int64(2 + r.Intn(2000))
		for attempt := 0; attempt < 6; attempt++ {
			now := settle().Unix()
			t := now - int64(r.Intn(int(lp)))
			nonce := make([]byte, 8)
			r.Read(nonce)
			switch class {
			case "b-1":
				t = now - (lp - 1)
			case "b+1":
				t = now - (lp + 1)
			case "old":
				t = now - lp - 2 - int64(r.Intn(100000))
			}
			raw := craftPayload(secret, nonce, t)
			text := hex.EncodeToString(raw)
			switch class {
			case "foreign_secret":
				text = hex.EncodeToString(craftPayload(append([]byte{'x'}, secret...), nonce, t))
			case "short":
				text = text[:2*r.Intn(32)]
			case "long":
				text += hex.EncodeToString(make([]byte, 1+r.Intn(4)))
			case "empty":
				text = ""
			case "bad_hex":
				text = mutHexChar(r, text, "gG xz-"[r.Intn(6)])
			case "odd_hex":
				text = text[:63]
			case "upper_hex":
				text = fmt.Sprintf("%X", raw)
			case "flip_nonce":
				raw[r.Intn(8)] ^= 1 << uint(r.Intn(8))
				text = hex.EncodeToString(raw)
			case "flip_time":
				raw[8+r.Intn(8)] ^= 1 << uint(r.Intn(8))
				text = hex.EncodeToString(raw)
			case "flip_mac":
				raw[16+r.Intn(16)] ^= 1 << uint(r.Intn(8))
				text = hex.EncodeToString(raw)
			case "flip_char":
				b := []byte(text)
				b[r.Intn(len(b))] ^= 1 << uint(r.Intn(7))
				text = string(b)
			case "mac_of_other_nonce":
				other := craftPayload(secret, []byte("12345678"), t)
				copy(raw[16:], other[16:])
				text = hex.EncodeToString(raw)
			}
			p := &payloadEvent{Secret: hex.EncodeToString(secret), Lp: lp, Payload: hx(text)}
			w.Emit(ev.M{"k": "Begin", "payload": i})
			m := p.run(now, class)
			if time.Now().Unix() != now {
				continue
			}
			w.Emit(m)
			break
		}
	}
}

// issued: payloads made by GeneratePayload itself, checked at once and after real waiting, so that the lifetime is
// pinned end to end (whatever the payload stores inside).
func driveIssued(out *[]ev.M, r *rand.Rand, mu *sync.Mutex, lifetimes []int64, waits []time.Duration) {
	var wg sync.WaitGroup
	for _, life := range lifetimes {
		secret := make([]byte, 16)
		r.Read(secret)
		wg.Add(1)
		go func(life int64, secret []byte) {
			defer wg.Done()
			srv, err := tonconnect.NewTonConnect(newExecutor(nil), string(secret), tonconnect.WithLifeTimePayload(life))
			if err != nil {
				panic(err)
			}
			var text string
			var issued time.Time
			for {
				issued = settle()
				text, err = srv.GeneratePayload()
				if time.Now().Unix() == issued.Unix() {
					break
				}
			}
			gerr := ev.ErrClass(err)
			for _, wt := range waits {
				if d := time.Until(issued.Add(wt)); d > 0 {
					time.Sleep(d)
				}
				for {
					now := settle().Unix()
					g := callCheckPayload(srv, text)
					if time.Now().Unix() != now {
						continue
					}
					mu.Lock()
					*out = append(*out, ev.M{"k": "Issued", "p": "C19", "secret": hex.EncodeToString(secret), "lp": life, "issued": strconv.FormatInt(issued.Unix(), 10),
						"now": strconv.FormatInt(now, 10), "payload": hx(text), "gen_err": gerr, "go": g.m()})
					mu.Unlock()
					break
				}
			}
		}(life, secret)
	}
	wg.Wait()
}

// tampered: payloads made by GeneratePayload with one thing changed -- every byte of the nonce, of the time field and of
// the tag; the time field rewritten to now, to later times within the window -- and an expired payload "revived" by
// writing the present time into it. Each must be refused, whatever the format is.
func driveTampered(out *[]ev.M, r *rand.Rand, n int, revive bool) {
	emit := func(srv *tonconnect.Server, secret []byte, life int64, class, orig string, raw []byte, upper bool) {
		text := hex.EncodeToString(raw)
		if upper {
			text = fmt.Sprintf("%X", raw)
		}
		for {
			now := settle().Unix()
			g := callCheckPayload(srv, text)
			if time.Now().Unix() != now {
				continue
			}
			*out = append(*out, ev.M{"k": "Tampered", "p": "C19", "class": class, "secret": hex.EncodeToString(secret), "lp": life,
				"now": strconv.FormatInt(now, 10), "orig": hx(orig), "payload": hx(text), "go": g.m()})
			return
		}
	}
	region := func(i int) string {
		switch {
		case i < 8:
			return "nonce"
		case i < 16:
			return "time"
		}
		return "tag"
	}
	for k := 0; k < n; k++ {
		secret := make([]byte, 8+r.Intn(24))
		r.Read(secret)
		life := int64(100 + r.Intn(2000))
		srv, err := tonconnect.NewTonConnect(newExecutor(nil), string(secret), tonconnect.WithLifeTimePayload(life))
		if err != nil {
			panic(err)
		}
		orig, err := srv.GeneratePayload()
		raw, derr := hex.DecodeString(orig)
		if err != nil || derr != nil || len(raw) != 32 {
			*out = append(*out, ev.M{"k": "Tampered", "p": "C19", "class": "generate_failed", "secret": hex.EncodeToString(secret), "lp": life,
				"now": strconv.FormatInt(time.Now().Unix(), 10), "orig": hx(orig), "payload": hx(orig), "go": goResult{Panic: "GeneratePayload did not return 32 bytes of hex"}.m()})
			continue
		}
		for i := 0; i < 32; i++ {
			for _, d := range []byte{1, 0x80, 0xff} {
				m := append([]byte{}, raw...)
				m[i] += d
				emit(srv, secret, life, region(i)+"_byte", orig, m, false)
			}
		}
		now := time.Now().Unix()
		for _, t := range []int64{now + 1, now + life/2, now + life - 1, now - 1, now - life/2, 0} {
			m := append([]byte{}, raw...)
			binary.BigEndian.PutUint64(m[8:16], uint64(t))
			if !bytes.Equal(m, raw) {
				emit(srv, secret, life, "time_rewritten", orig, m, false)
			}
		}
		emit(srv, secret, life, "respelled", orig, raw, true) // the same bytes in upper-case digits: free
	}
	if revive {
		secret := []byte("revive-secret")
		srv, err := tonconnect.NewTonConnect(newExecutor(nil), string(secret), tonconnect.WithLifeTimePayload(1))
		if err != nil {
			panic(err)
		}
		orig, _ := srv.GeneratePayload()
		if raw, err := hex.DecodeString(orig); err == nil && len(raw) == 32 {
			time.Sleep(2300 * time.Millisecond) // now it has expired
			for _, back := range []int64{0, 1} {
				m := append([]byte{}, raw...)
				binary.BigEndian.PutUint64(m[8:16], uint64(time.Now().Unix()-back))
				if !bytes.Equal(m, raw) {
					emit(srv, secret, 1, "expired_revived", orig, m, false)
				}
			}
		}
	}
}

// ---------------------------------------------------------------- single-field substitutions and bit flips of valid proofs

var mutFields = []string{"address", "domain", "ts", "sig", "payload", "state_init"}

func flipText(r *rand.Rand, hexText string) string {
	b, _ := hex.DecodeString(hexText)
	if len(b) == 0 {
		return hx("A")
	}
	b[r.Intn(len(b))] ^= 1 << uint(r.Intn(8))
	return hex.EncodeToString(b)
}

// flipDecoded flips one bit of the bytes a base64 text stands for
func flipDecoded(r *rand.Rand, hexText string) string {
	raw, err := base64.StdEncoding.DecodeString(unhx(hexText))
	if err != nil || len(raw) == 0 {
		return flipText(r, hexText)
	}
	raw[r.Intn(len(raw))] ^= 1 << uint(r.Intn(8))
	return hx(base64.StdEncoding.EncodeToString(raw))
}

func mutate(r *rand.Rand, c *Concrete, donor *Concrete) string {
	f := mutFields[r.Intn(len(mutFields))]
	get := map[string]*string{"address": &c.Address, "domain": &c.Domain, "ts": &c.Ts, "sig": &c.Sig, "payload": &c.Payload, "state_init": &c.StateInit}
	from := map[string]string{"address": donor.Address, "domain": donor.Domain, "ts": donor.Ts, "sig": donor.Sig, "payload": donor.Payload, "state_init": donor.StateInit}
	if r.Intn(3) == 0 && *get[f] != from[f] {
		*get[f] = from[f]
		return "subst:" + f
	}
	if f == "ts" {
		v, _ := strconv.ParseInt(c.Ts, 10, 64)
		v ^= 1 << uint(r.Intn(64))
		c.Ts = strconv.FormatInt(v, 10)
		return "flip:ts"
	}
	if (f == "sig" || f == "state_init") && r.Intn(2) == 0 {
		*get[f] = flipDecoded(r, *get[f])
		return "flipbyte:" + f
	}
	*get[f] = flipText(r, *get[f])
	return "flip:" + f
}

func driveMutations(w *ev.Writer, r *rand.Rand, n int, seed int64) error {
	srcs := []string{"chain", "si", "si_exit"}
	times := []string{"fresh", "fresh", "fresh", "proof_b-1", "payload_b-1"}
	for i := 0; i < n; i++ {
		cs := &Case{Vec: i, Src: srcs[r.Intn(3)], Tamper: "none", Time: times[r.Intn(len(times))], Seed: seed}
		if r.Intn(5) == 0 {
			cs.Ver = pick(r, otherVersions)
		} else {
			cs.Ver = pick(r, stdVersions)
		}
		dn := &Case{Vec: i, Src: cs.Src, Ver: pick(r, stdVersions), Tamper: "none", Time: "fresh", Seed: seed}
		sub := r.Int63()
		for attempt := 0; ; attempt++ {
			rr := rand.New(rand.NewSource(sub))
			now := settle().Unix()
			b, err := concretise(cs, rr, now)
			if err != nil {
				return err
			}
			d, err := concretise(dn, rr, now)
			if err != nil {
				return err
			}
			label := "none"
			if i%12 != 0 {
				label = mutate(rr, b.c, d.c)
			}
			cs.Tamper = label
			w.Emit(ev.M{"k": "Begin", "mut": i, "case": caseLabel(cs)})
			m, ok := run(b.c, now)
			cs.Tamper = "none"
			if !ok && attempt < 5 {
				continue
			}
			lab := caseLabel(cs)
			lab["tamper"] = label
			m["case"], m["mut"] = lab, i
			m["owner_seed"], m["owner_pub"] = hex.EncodeToString(b.owner.seed), hex.EncodeToString(b.owner.pub)
			w.Emit(m)
			break
		}
	}
	return nil
}

// Drive (C->S) records: payload checks, payloads issued by the server and checked after real waiting, and random
// single-field substitutions / bit flips of valid proofs.
func Drive(w *ev.Writer, o Opts) error {
	w.Sync = true
	r := rand.New(rand.NewSource(o.Seed*1000003 + int64(o.Shard)*7919 + 17))
	nm, np := 160, 48
	if o.Tier == "thorough" {
		nm, np = 1500, 320
	}
	var mu sync.Mutex
	var wg sync.WaitGroup
	var issued []ev.M
	if o.Shard == 0 {
		// real waiting: lifetimes of 1, 2 and 3 seconds, checked just after issue and up to 4.3 s later
		wg.Add(1)
		go func() {
			defer wg.Done()
			ri := rand.New(rand.NewSource(o.Seed + 99))
			var rv []ev.M
			var wg2 sync.WaitGroup
			wg2.Add(1)
			go func() { defer wg2.Done(); driveTampered(&rv, rand.New(rand.NewSource(o.Seed+7)), 0, true) }()
			defer func() { wg2.Wait(); mu.Lock(); issued = append(issued, rv...); mu.Unlock() }()
			driveIssued(&issued, ri, &mu, []int64{1, 2, 3, 300}, []time.Duration{0, 300 * time.Millisecond, 1300 * time.Millisecond, 2300 * time.Millisecond, 3300 * time.Millisecond, 4300 * time.Millisecond})
		}()
	}
	drivePayloads(w, r, np)
	if err := driveMutations(w, r, nm, o.Seed*31+int64(o.Shard)); err != nil {
		return err
	}
	if err := driveBagSweep(w, r, o.Tier == "thorough", o.Seed, o.Shard, o.Shards); err != nil {
		return err
	}
	var tampered []ev.M
	driveTampered(&tampered, r, map[bool]int{false: 1, true: 4}[o.Tier == "thorough"], false)
	wg.Wait()
	issued = append(issued, tampered...)
	for _, m := range issued {
		w.Emit(m)
	}
	w.Emit(ev.M{"k": "End", "events": w.N})
	return nil
}
