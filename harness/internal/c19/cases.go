package c19

import (
	"crypto/ed25519"
	"encoding/base64"
	"encoding/hex"
	"fmt"
	"math/rand"
	"strings"
	"time"

	"github.com/tonkeeper/tongo/boc"
	"github.com/tonkeeper/tongo/tlb"
	"github.com/tonkeeper/tongo/ton"
	"github.com/tonkeeper/tongo/tonconnect"

	"verifharness/internal/ev"
)

// Case is one row of the decision table as printed by TonConnect_Gen.
type Case struct {
	Vec    int            `json:"vec"`
	Rep    int            `json:"rep"`
	Src    string         `json:"src"`
	Ver    string         `json:"ver"`
	Tamper string         `json:"tamper"`
	Time   string         `json:"time"`
	F      map[string]any `json:"f"`
	Want   struct {
		V   string `json:"v"`
		Key string `json:"key"`
	} `json:"want"`
	Seed int64 `json:"seed"`
	// kind "bag": a bag written by the specification is presented as the state-init (for account id Addr)
	Kind string `json:"kind"`
	Boc  string `json:"boc"`
	Addr string `json:"addr"`
}

var domains = []string{"example.com", "ton.app", "getgems.io", "a.b", "xn--e1afmkfd.xn--p1ai", "тон.рф", "sub.domain.example.org", "x"}

type built struct {
	c      *Concrete
	owner  *acct
	keys   map[string]string // symbolic key name of the table -> hex
	signer string            // hex of the public key that produced the signature ("" = nobody's)
}

func pick(r *rand.Rand, xs []string) string { return xs[r.Intn(len(xs))] }

func otherDomain(r *rand.Rand, d string) string {
	for {
		if x := pick(r, domains); x != d {
			return x
		}
	}
}

func chainFor(src string, a *acct, key ed25519.PublicKey) []ChainEntry {
	e := ChainEntry{Wc: a.addr.Workchain, Addr: hex.EncodeToString(a.addr.Address[:]), Key: hex.EncodeToString(key)}
	switch src {
	case "chain":
		e.Mode = "key"
	case "si_exit":
		e.Mode = "exit"
		e.Key = ""
	default:
		return []ChainEntry{}
	}
	return []ChainEntry{e}
}

// honest holds what an honest client and server would use; tamperings change exactly one thing before or after signing.
type scenario struct {
	secret     []byte
	lp, lpr    int64
	now        int64
	ts, pt     int64 // proof time stamp, payload time stamp
	domain     string
	wantDomain string
	payload    string
	owner      *acct
	signKey    ed25519.PrivateKey
	si         tlb.StateInit
	addr       ton.AccountID
	chain      []ChainEntry
}

func (s *scenario) newPayload(r *rand.Rand, secret []byte, t int64) string {
	n := make([]byte, 8)
	r.Read(n)
	return hex.EncodeToString(craftPayload(secret, n, t))
}

func mutHexChar(r *rand.Rand, s string, bad byte) string {
	b := []byte(s)
	b[r.Intn(len(b))] = bad
	return string(b)
}

// concretise builds the concrete inputs of a table row for the second `now`.
func concretise(cs *Case, r *rand.Rand, now int64) (*built, error) {
	s := &scenario{now: now}
	s.secret = make([]byte, 8+r.Intn(24))
	r.Read(s.secret)
	s.lp = int64(20 + r.Intn(900))
	s.lpr = int64(20 + r.Intn(900))
	s.domain = pick(r, domains)
	s.wantDomain = s.domain
	// the workchain of the account: mostly 0 and -1, sometimes any other int32 (the proof binds all 32 bits of it)
	wc := int32(0)
	switch x := r.Intn(10); {
	case x < 2:
		wc = -1
	case x < 4:
		wc = unusualWc[r.Intn(len(unusualWc))]
	}
	var sub *uint32
	if r.Intn(2) == 0 {
		x := r.Uint32()
		sub = &x
	}
	ownerSeed := randSeed(r)
	if strings.HasPrefix(cs.Tamper, "ck_pad31") {
		// a key pair whose public key begins with a zero byte: as an integer it has 31 significant bytes
		for {
			if _, pub := keyFromSeed(ownerSeed); pub[0] == 0 && pub[1] != 0 {
				break
			}
			ownerSeed = randSeed(r)
		}
	}
	owner, err := acctAt(cs.Ver, ownerSeed, wc, sub, r)
	if err != nil {
		return nil, err
	}
	s.owner, s.signKey, s.si, s.addr = owner, owner.priv, owner.si, owner.addr
	s.chain = chainFor(cs.Src, owner, owner.pub)
	keys := map[string]string{"owner": hex.EncodeToString(owner.pub), "": ""}

	// times
	s.ts, s.pt = now-int64(r.Intn(5)), now-int64(r.Intn(5))
	switch cs.Time {
	case "proof_b-1":
		s.ts = now - (s.lpr - 1)
	case "proof_b+1":
		s.ts = now - (s.lpr + 1)
	case "payload_b-1":
		s.pt = now - (s.lp - 1)
	case "payload_b+1":
		s.pt = now - (s.lp + 1)
	}
	s.payload = s.newPayload(r, s.secret, s.pt)

	// ---- tamperings applied BEFORE signing (the signature covers what is presented)
	t := cs.Tamper
	if cs.Kind == "bag" {
		// an honest proof in every other respect, made for the account id the generator names; the state-init text is replaced below
		ab, err := hex.DecodeString(cs.Addr)
		if err != nil || len(ab) != 32 {
			return nil, fmt.Errorf("bag vector without an account id")
		}
		copy(s.addr.Address[:], ab)
		for i := range s.chain {
			s.chain[i].Addr = cs.Addr
		}
		t = "none"
	}
	switch t {
	case "signer":
		s.signKey, _ = keyFromSeed(randSeed(r))
	case "sih_root_claims_victim", "sih_all_claims_victim":
		att, err := acctAt(cs.Ver, randSeed(r), wc, sub, r)
		if err != nil {
			return nil, err
		}
		s.signKey, s.si = att.priv, att.si // the address stays the victim's; the bag will be labelled with it below
		keys["other"] = hex.EncodeToString(att.pub)
	case "sih_code_claims_wallet":
		c := boc.NewCell()
		c.WriteUint(r.Uint64(), 64)
		s.si.Code.Value.Value = *c
		a, err := siAddress(s.si, wc)
		if err != nil {
			return nil, err
		}
		s.addr = a
		for i := range s.chain {
			s.chain[i].Addr = hex.EncodeToString(a.Address[:])
		}
	case "si_attacker":
		att, err := acctAt(cs.Ver, randSeed(r), wc, sub, r)
		if err != nil {
			return nil, err
		}
		s.signKey, s.si = att.priv, att.si // the address stays the victim's
		keys["other"] = hex.EncodeToString(att.pub)
	case "chain_differs_signer_owner", "chain_differs_signer_chain":
		k2priv, k2pub := keyFromSeed(randSeed(r))
		if cs.Src == "chain" {
			s.chain = chainFor(cs.Src, owner, k2pub)
			keys["chain"] = hex.EncodeToString(k2pub)
		}
		if t == "chain_differs_signer_chain" {
			s.signKey = k2priv
		}
	case "domain_foreign", "domain_swapped":
		s.domain = otherDomain(r, s.wantDomain)
	case "payload_foreign_secret":
		other := append([]byte("foreign-"), s.secret...)
		s.payload = s.newPayload(r, other, s.pt)
	case "payload_short":
		s.payload = s.payload[:62]
	case "payload_long":
		s.payload = s.payload + "00"
	case "payload_bad_hex":
		s.payload = mutHexChar(r, s.payload, "gzZ:-"[r.Intn(5)])
	case "payload_mac_flip":
		b, _ := hex.DecodeString(s.payload)
		b[16+r.Intn(16)] ^= 1 << uint(r.Intn(8))
		s.payload = hex.EncodeToString(b)
	case "si_unknown_code":
		c := boc.NewCell()
		c.WriteUint(r.Uint64(), 64)
		if r.Intn(2) == 0 { // a cell that merely quotes a wallet's code hash: nearly, but not, a known contract
			if h, err := s.si.Code.Value.Value.Hash(); err == nil {
				c = boc.NewCell()
				_ = c.WriteBytes(h)
			}
		}
		s.si.Code.Value.Value = *c
	case "si_no_code":
		s.si.Code = tlb.Maybe[tlb.Ref[boc.Cell]]{}
	case "si_no_data":
		s.si.Data = tlb.Maybe[tlb.Ref[boc.Cell]]{}
	case "si_no_code_no_data":
		s.si.Code = tlb.Maybe[tlb.Ref[boc.Cell]]{}
		s.si.Data = tlb.Maybe[tlb.Ref[boc.Cell]]{}
	case "si_short_data":
		c := boc.NewCell()
		c.WriteUint(uint64(r.Intn(1<<16)), 1+r.Intn(24))
		s.si.Data.Value.Value = *c
	}
	if t == "si_unknown_code" || t == "si_no_code" || t == "si_no_data" || t == "si_no_code_no_data" || t == "si_short_data" {
		// the attacker presents the address this state-init hashes to; an account with that address would answer the same way
		a, err := siAddress(s.si, wc)
		if err != nil {
			return nil, err
		}
		s.addr = a
		for i := range s.chain {
			s.chain[i].Addr = hex.EncodeToString(a.Address[:])
		}
	}

	// ---- what the account answers to get_public_key (rows ck_<answer>_<signature>)
	forgeKey := []byte(owner.pub)
	if strings.HasPrefix(t, "ck_") && cs.Src == "chain" && len(s.chain) == 1 {
		var v []byte
		switch strings.Split(t, "_")[1] {
		case "zero":
		case "one":
			v = []byte{1}
		case "short":
			if r.Intn(3) == 0 {
				v = []byte{0x80} // as 32 bytes 00..0080: the other point of order 4
			} else {
				v = make([]byte, 1+r.Intn(23))
				r.Read(v)
				v[0] |= 1
			}
		case "pad24":
			v = make([]byte, 24)
			r.Read(v)
			v[0] |= 1
			keys["chain"] = hex.EncodeToString(append(make([]byte, 8), v...))
		case "pad31":
			v = owner.pub[1:]
		}
		s.chain[0].Key = hex.EncodeToString(v)
		forgeKey = append(make([]byte, 32-len(v)), v...)
	}

	// ---- the proof
	var p *tonconnect.Proof
	signer := hex.EncodeToString(s.signKey.Public().(ed25519.PublicKey))
	if t == "forged_zero_key" {
		// nobody signs: a signature that verifies under the degenerate public key 00..00 (a point of order 4) is
		// searched for; the attacker may ask the server for as many payloads as he likes
		b64, err := siBase64(s.si)
		if err != nil {
			return nil, err
		}
		found := false
		for try := 0; try < 200 && !found; try++ {
			pl := s.newPayload(r, s.secret, s.pt)
			if sig, ok := forgeZeroKey(tcMessage(s.addr.Workchain, s.addr.Address[:], s.domain, s.ts, pl)); ok {
				p = &tonconnect.Proof{Address: s.addr.String(), Proof: tonconnect.ProofData{Timestamp: s.ts, Domain: s.domain,
					Signature: sig, Payload: pl, StateInit: b64}}
				found = true
			}
		}
		if !found {
			return nil, fmt.Errorf("no zero-key forgery found in 200 payloads")
		}
		signer = ""
	} else {
		p, err = tonconnect.CreateSignedProof(s.payload, s.addr, s.signKey, s.si, tonconnect.ProofOptions{Timestamp: time.Unix(s.ts, 0), Domain: s.domain})
		if err != nil {
			return nil, fmt.Errorf("CreateSignedProof: %w", err)
		}
	}

	if t == "sig_degenerate" || strings.HasSuffix(t, "_degenerate") {
		// nobody signs. The attacker writes R of small order, S = 0, and looks for a payload / a timestamp within the lifetime
		// for which that verifies under the key the server will use (it can, if that key is itself of small order)
		ident, _ := hex.DecodeString(smallOrderR[0])
		p.Proof.Signature = base64.StdEncoding.EncodeToString(append(ident, make([]byte, 32)...))
		for try := 0; try < 64; try++ {
			ts, pl := s.ts, s.newPayload(r, s.secret, s.pt)
			if cs.Time == "fresh" {
				ts = s.ts - int64(try%8)
			}
			if sig, ok := forgeFor(forgeKey, tcMessage(s.addr.Workchain, s.addr.Address[:], s.domain, ts, pl)); ok {
				p.Proof.Timestamp, p.Proof.Payload, p.Proof.Signature = ts, pl, sig
				break
			}
		}
		signer = ""
	}
	if cs.Kind == "bag" {
		bag, err := hex.DecodeString(cs.Boc)
		if err != nil {
			return nil, err
		}
		p.Proof.StateInit = base64.StdEncoding.EncodeToString(bag)
	}
	// ---- tamperings applied AFTER signing (the presented field differs from what was signed)
	switch t {
	case "sig_flip":
		b, _ := base64.StdEncoding.DecodeString(p.Proof.Signature)
		b[r.Intn(len(b))] ^= 1 << uint(r.Intn(8))
		p.Proof.Signature = base64.StdEncoding.EncodeToString(b)
	case "sig_short":
		b, _ := base64.StdEncoding.DecodeString(p.Proof.Signature)
		p.Proof.Signature = base64.StdEncoding.EncodeToString(b[:63])
	case "sig_empty":
		p.Proof.Signature = ""
	case "sig_bad_b64":
		if r.Intn(2) == 0 {
			p.Proof.Signature = mutHexChar(r, p.Proof.Signature[:86], "*!.~"[r.Intn(4)]) + "=="
		} else {
			p.Proof.Signature = p.Proof.Signature[:87] // padding broken
		}
	case "address":
		ver2 := "v4r2"
		if cs.Ver == "v4r2" {
			ver2 = "v3r2"
		}
		o2, err := acctAt(ver2, owner.seed, wc, sub, r)
		if err != nil {
			return nil, err
		}
		p.Address = o2.addr.String()
		if p.Proof.StateInit, err = siBase64(o2.si); err != nil {
			return nil, err
		}
		s.chain = chainFor(cs.Src, o2, owner.pub)
	case "address_unknown":
		var a ton.AccountID
		a.Workchain = wc
		r.Read(a.Address[:])
		p.Address = a.String()
	case "workchain":
		a := s.addr
		a.Workchain = -1 - wc // 0 <-> -1
		p.Address = a.String()
	case "wc_plus256", "wc_minus256", "wc_plus512", "wc_plus65536", "wc_minus65536", "wc_plus16777216", "wc_int32_max", "wc_int32_min":
		// only the workchain of the presented address changes; nothing else of the proof does
		delta := map[string]int64{"wc_plus256": 256, "wc_minus256": -256, "wc_plus512": 512, "wc_plus65536": 65536, "wc_minus65536": -65536, "wc_plus16777216": 1 << 24}[t]
		w2 := int64(wc) + delta
		if w2 > 2147483647 || w2 < -2147483648 {
			w2 = int64(wc) - delta
		}
		if t == "wc_int32_max" {
			w2 = 2147483647
			if wc == 2147483647 {
				w2 = 2147483646
			}
		}
		if t == "wc_int32_min" {
			w2 = -2147483648
		}
		p.Address = fmt.Sprintf("%d:%x", w2, s.addr.Address[:])
	case "addr_bad_hex":
		b := []byte(p.Address)
		b[len(b)-1-r.Intn(64)] = "gxZ "[r.Intn(4)]
		p.Address = string(b)
	case "addr_friendly":
		p.Address = s.addr.ToHuman(r.Intn(2) == 0, false)
	case "domain":
		p.Proof.Domain = otherDomain(r, s.wantDomain)
	case "domain_swapped":
		p.Proof.Domain = s.wantDomain
	case "timestamp":
		if cs.Time == "proof_b-1" {
			p.Proof.Timestamp++
		} else {
			p.Proof.Timestamp--
		}
	case "payload":
		p.Proof.Payload = s.newPayload(r, s.secret, s.pt)
	case "si_other":
		o3, err := acctAt(cs.Ver, randSeed(r), wc, sub, r)
		if err != nil {
			return nil, err
		}
		if p.Proof.StateInit, err = siBase64(o3.si); err != nil {
			return nil, err
		}
		keys["other"] = hex.EncodeToString(o3.pub)
	case "sih_honest", "sih_root_only", "sih_root_claims_victim", "sih_all_claims_victim", "sih_wrong_root_hash", "sih_wrong_root_depth",
		"sih_wrong_inner_hash", "sih_code_claims_wallet":
		plain, _ := base64.StdEncoding.DecodeString(p.Proof.StateInit)
		cells, root, err := bagCells(plain)
		if err != nil {
			return nil, err
		}
		all := func(int) bool { return true }
		rootOnly := func(i int) bool { return i == root }
		with, fake := all, map[int]storedHD{}
		rnd := make([]byte, 32)
		r.Read(rnd)
		switch t {
		case "sih_root_only":
			with = rootOnly
		case "sih_root_claims_victim":
			with = rootOnly
			fake[root] = storedHD{s.addr.Address[:], cells[root].depth}
		case "sih_all_claims_victim":
			fake[root] = storedHD{s.addr.Address[:], cells[root].depth}
		case "sih_wrong_root_hash":
			if r.Intn(2) == 0 {
				with = rootOnly
			}
			fake[root] = storedHD{rnd, cells[root].depth}
		case "sih_wrong_root_depth":
			fake[root] = storedHD{cells[root].hash, cells[root].depth + 1 + r.Intn(3)}
		case "sih_wrong_inner_hash":
			i := (root + 1 + r.Intn(len(cells)-1)) % len(cells)
			fake[i] = storedHD{rnd, cells[i].depth}
		case "sih_code_claims_wallet":
			// the code cell is the root's first reference; it is labelled with the hash of the wallet's real code
			h, err := owner.si.Code.Value.Value.Hash()
			if err != nil {
				return nil, err
			}
			code := cells[root].refs[0]
			fake[code] = storedHD{h, cells[code].depth}
		}
		p.Proof.StateInit = base64.StdEncoding.EncodeToString(writeWithHashes(cells, root, with, fake))
	case "si_multi_root":
		b, _ := base64.StdEncoding.DecodeString(p.Proof.StateInit)
		c, err := boc.DeserializeBoc(b)
		if err != nil {
			return nil, err
		}
		plain, err := c[0].ToBocCustom(false, false, false, 0)
		if err != nil {
			return nil, err
		}
		two, err := addRoot(plain)
		if err != nil {
			return nil, err
		}
		p.Proof.StateInit = base64.StdEncoding.EncodeToString(two)
	case "si_garbage":
		g := make([]byte, 1+r.Intn(120))
		r.Read(g)
		if r.Intn(2) == 0 {
			g = append([]byte{0xb5, 0xee, 0x9c, 0x72}, g...)
		}
		p.Proof.StateInit = base64.StdEncoding.EncodeToString(g)
	case "si_truncated":
		b, _ := base64.StdEncoding.DecodeString(p.Proof.StateInit)
		p.Proof.StateInit = base64.StdEncoding.EncodeToString(b[:len(b)-1-r.Intn(len(b)-6)])
	case "si_bad_b64":
		b := []byte(p.Proof.StateInit)
		if r.Intn(2) == 0 {
			b[r.Intn(len(b)-4)] = "*!.~"[r.Intn(4)]
		} else {
			b = append(b[:7], b[8:]...) // one digit lost: length no longer a multiple of 4
		}
		p.Proof.StateInit = string(b)
	case "si_empty":
		p.Proof.StateInit = ""
	}
	return &built{c: concreteOf(s.secret, s.lp, s.lpr, s.wantDomain, p, s.chain), owner: owner, keys: keys, signer: signer}, nil
}

// runCase concretises and executes a row, rebuilding it if the wall clock left the second it was built for.
func runCase(cs *Case, w *ev.Writer) error {
	for attempt := 0; attempt < 6; attempt++ {
		r := rand.New(rand.NewSource(cs.Seed*7919 + int64(cs.Vec)*131 + int64(cs.Rep)))
		now := settle().Unix()
		b, err := concretise(cs, r, now)
		if err != nil {
			return fmt.Errorf("vector %d (%s/%s/%s/%s): %w", cs.Vec, cs.Src, cs.Ver, cs.Tamper, cs.Time, err)
		}
		w.Emit(ev.M{"k": "Begin", "vec": cs.Vec, "rep": cs.Rep, "case": caseLabel(cs)})
		m, inSecond := run(b.c, now)
		if !inSecond {
			w.Emit(ev.M{"k": "Retry", "vec": cs.Vec})
			continue
		}
		wantKey, ok := b.keys[cs.Want.Key]
		if !ok {
			return fmt.Errorf("vector %d: the table names key %q which this case does not have", cs.Vec, cs.Want.Key)
		}
		g := m["go"].(ev.M)
		okAcc := g["ok"].(bool) && g["err"] == "" && g["key"] == wantKey
		okRej := !g["ok"].(bool) && g["err"] != ""
		match := g["panic"] == "" && ((cs.Want.V != "reject" && okAcc) || (cs.Want.V != "accept" && okRej))
		m["vec"], m["rep"], m["case"] = cs.Vec, cs.Rep, caseLabel(cs)
		m["want"] = ev.M{"v": cs.Want.V, "key": wantKey}
		m["match"] = match
		m["owner_seed"], m["owner_pub"] = hex.EncodeToString(b.owner.seed), hex.EncodeToString(b.owner.pub)
		m["signer"] = b.signer
		w.Emit(m)
		return nil
	}
	return fmt.Errorf("vector %d: could not run within one wall-clock second", cs.Vec)
}

func caseLabel(cs *Case) ev.M {
	return ev.M{"src": cs.Src, "ver": cs.Ver, "tamper": cs.Tamper, "time": cs.Time}
}

var unusualWc = []int32{1, 127, 128, 255, 256, -256, -257, 65536, -65536, 16777216, 2147483647, -2147483647}

// acctAt builds a wallet for any int32 workchain: the wallet package derives parts of some contracts' data from the
// workchain (8 bits of it), so outside -128..127 the contract is built for workchain 0 and the account placed at wc.
func acctAt(ver string, seed []byte, wc int32, sub *uint32, r *rand.Rand) (*acct, error) {
	build := wc
	if wc < -128 || wc > 127 {
		build = 0
	}
	a, err := newAcct(ver, seed, build, sub, r)
	if err != nil {
		return nil, err
	}
	a.wc, a.addr.Workchain = wc, wc
	return a, nil
}
