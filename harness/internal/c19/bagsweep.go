package c19

import (
	"encoding/base64"
	"encoding/hex"
	"fmt"
	"math/rand"

	"verifharness/internal/ev"
)

// Systematic corruption of genuine state-init bags (the "garbage state-init" family): for the bag of every wallet
// contract, every single-byte substitution b+1, b-1, 0x00, 0xff and every truncation is presented to CheckProof /
// ParseStateInit inside an otherwise honest proof whose key must come from the state-init. Structural bytes (header,
// root list, index, cell descriptors, reference indices, checksum) are always swept completely; data bytes and
// truncation points inside data are sampled in the quick tier.

// bagRegions labels every byte of a bag the library wrote itself: header | rootlist | index | d1 | d2 | data | ref | crc.
func bagRegions(b []byte) ([]string, error) {
	if len(b) < 6 || hex.EncodeToString(b[:4]) != "b5ee9c72" {
		return nil, fmt.Errorf("bagRegions: unexpected magic")
	}
	reg := make([]string, len(b))
	size, off := int(b[4]&7), int(b[5])
	hasIdx, hasCrc := b[4]&0x80 != 0, b[4]&0x40 != 0
	rd := func(p, n int) int {
		v := 0
		for i := 0; i < n; i++ {
			v = v<<8 | int(b[p+i])
		}
		return v
	}
	hdr := 6 + 3*size + off
	if len(b) < hdr {
		return nil, fmt.Errorf("bagRegions: short")
	}
	cells, roots := rd(6, size), rd(6+size, size)
	p := 0
	mark := func(n int, name string) {
		for i := 0; i < n && p < len(b); i++ {
			reg[p] = name
			p++
		}
	}
	mark(hdr, "header")
	mark(roots*size, "rootlist")
	if hasIdx {
		mark(cells*off, "index")
	}
	for c := 0; c < cells; c++ {
		if p+2 > len(b) {
			return nil, fmt.Errorf("bagRegions: cell %d outside the bag", c)
		}
		d1, d2 := int(b[p]), int(b[p+1])
		if d1&0x10 != 0 {
			return nil, fmt.Errorf("bagRegions: stored hashes not expected in own output")
		}
		mark(1, "d1")
		mark(1, "d2")
		mark(d2/2+d2%2, "data")
		mark((d1&7)*size, "ref")
	}
	if hasCrc {
		mark(4, "crc")
	}
	if p != len(b) {
		return nil, fmt.Errorf("bagRegions: %d bytes left over", len(b)-p)
	}
	return reg, nil
}

type bagMut struct {
	region string
	op     string
	pos    int
	bytes  []byte
}

// bagMutants lists the corrupted copies of bag b. all = every position; otherwise data positions are sampled 1 in `every`.
func bagMutants(b []byte, reg []string, all bool, every int, r *rand.Rand) []bagMut {
	var out []bagMut
	boundary := make([]bool, len(b)+1) // truncation lengths next to a structural boundary
	for i := range b {
		if i == 0 || reg[i] != reg[i-1] || reg[i] != "data" {
			for _, j := range []int{i - 1, i, i + 1} {
				if j >= 0 && j <= len(b) {
					boundary[j] = true
				}
			}
		}
	}
	for i, o := range b {
		if !(all || reg[i] != "data" || r.Intn(every) == 0) {
			continue
		}
		seen := map[byte]bool{o: true}
		for _, s := range []struct {
			op string
			v  byte
		}{{"+1", o + 1}, {"-1", o - 1}, {"00", 0x00}, {"ff", 0xff}} {
			if seen[s.v] {
				continue
			}
			seen[s.v] = true
			m := append([]byte{}, b...)
			m[i] = s.v
			out = append(out, bagMut{reg[i], s.op, i, m})
		}
	}
	for n := 0; n < len(b); n++ {
		if all || boundary[n] || r.Intn(every) == 0 {
			region := "end"
			if n < len(b) {
				region = reg[n]
			}
			out = append(out, bagMut{"trunc_" + region, "trunc", n, append([]byte{}, b[:n]...)})
		}
	}
	return out
}

// driveBagSweep: shard `shard` of `shards` takes every shards-th (version, container variant) pair.
func driveBagSweep(w *ev.Writer, r *rand.Rand, thorough bool, seed int64, shard, shards int) error {
	type job struct {
		ver     string
		variant string
	}
	var jobs []job
	for _, v := range append(append([]string{}, stdVersions...), otherVersions...) {
		jobs = append(jobs, job{v, "plain"})
	}
	if thorough {
		for _, v := range []string{"v3r2", "v4r2", "v5r1", "v5beta", "v3r2_lockup"} {
			jobs = append(jobs, job{v, "crc"}, job{v, "idx"}, job{v, "idx_crc_cache"})
		}
	}
	n := 0
	for ji, j := range jobs {
		if ji%shards != shard {
			continue
		}
		src := []string{"si", "si_exit"}[ji%2]
		cs := &Case{Vec: ji, Src: src, Ver: j.ver, Tamper: "none", Time: "fresh", Seed: seed}
		rr := rand.New(rand.NewSource(seed*977 + int64(ji)))
		b, err := concretise(cs, rr, settle().Unix())
		if err != nil {
			return err
		}
		// the sweep of one bag may take several seconds: ages stay far from the lifetimes
		b.c.Lp, b.c.Lpr = 100000, 100000
		raw, err := base64.StdEncoding.DecodeString(unhx(b.c.StateInit))
		if err != nil {
			return err
		}
		if j.variant != "plain" {
			c, err := siCell(b.owner.si)
			if err != nil {
				return err
			}
			switch j.variant {
			case "crc":
				raw, err = c.ToBocCustom(false, true, false, 0)
			case "idx":
				raw, err = c.ToBocCustom(true, false, false, 0)
			default:
				raw, err = c.ToBocCustom(true, true, true, 0)
			}
			if err != nil {
				return err
			}
		}
		reg, err := bagRegions(raw)
		if err != nil {
			return fmt.Errorf("%s/%s: %w", j.ver, j.variant, err)
		}
		every := 8
		if len(raw) > 400 {
			every = 16
		}
		muts := append([]bagMut{{"intact", "none", 0, raw}}, bagMutants(raw, reg, thorough, every, rr)...)
		for _, m := range muts {
			c := *b.c
			c.StateInit = hx(base64.StdEncoding.EncodeToString(m.bytes))
			lab := ev.M{"src": src, "ver": j.ver, "tamper": "bag:" + m.region, "time": "fresh"}
			for attempt := 0; ; attempt++ {
				now := settle().Unix()
				w.Emit(ev.M{"k": "Begin", "bag": n, "case": lab, "pos": m.pos, "op": m.op, "state_init": c.StateInit})
				e, ok := run(&c, now)
				if !ok && attempt < 5 {
					continue
				}
				e["case"], e["bag"] = lab, ev.M{"variant": j.variant, "pos": m.pos, "op": m.op, "len": len(raw)}
				e["owner_seed"], e["owner_pub"] = hex.EncodeToString(b.owner.seed), hex.EncodeToString(b.owner.pub)
				w.Emit(e)
				break
			}
			n++
		}
	}
	return nil
}
