package c19

import (
	"crypto/sha256"
	"encoding/base64"
	"encoding/hex"
	"fmt"
	"math/rand"

	"verifharness/internal/ev"
)

// Systematic corruption of genuine state-init bags (the "garbage state-init" family): for the bag of every wallet
// contract, every single-byte substitution b+1, b-1, 0x00, 0xff and every truncation is presented to CheckProof /
// ParseStateInit inside an otherwise honest proof whose key must come from the state-init. Structural bytes (header,
// root list, index, cell descriptors, reference indices, checksum) are always swept completely; data bytes and
// truncation points inside data are sampled in the quick tier.

// bagRegions labels every byte of a bag the library wrote itself: header | rootlist | index | d1 | d2 | data | ref | crc.
func bagRegions(b []byte) ([]string, error) {
	if len(b) < 6 || hex.EncodeToString(b[:4]) != "b5ee9c72" {
		return nil, fmt.Errorf("bagRegions: unexpected magic")
	}
	reg := make([]string, len(b))
	size, off := int(b[4]&7), int(b[5])
	hasIdx, hasCrc := b[4]&0x80 != 0, b[4]&0x40 != 0
	rd := func(p, n int) int {
		v := 0
		for i := 0; i < n; i++ {
			v = v<<8 | int(b[p+i])
		}
		return v
	}
	hdr := 6 + 3*size + off
	if len(b) < hdr {
		return nil, fmt.Errorf("bagRegions: short")
	}
	cells, roots := rd(6, size), rd(6+size, size)
	p := 0
	mark := func(n int, name string) {
		for i := 0; i < n && p < len(b); i++ {
			reg[p] = name
			p++
		}
	}
	mark(hdr, "header")
	mark(roots*size, "rootlist")
	if hasIdx {
		mark(cells*off, "index")
	}
	for c := 0; c < cells; c++ {
		if p+2 > len(b) {
			return nil, fmt.Errorf("bagRegions: cell %d outside the bag", c)
		}
		d1, d2 := int(b[p]), int(b[p+1])
		mark(1, "d1")
		mark(1, "d2")
		if d1&0x10 != 0 { // stored hashes and depths, one pair per significant level
			n := 1
			for m := d1 >> 5; m != 0; m >>= 1 {
				n += m & 1
			}
			mark(32*n, "stored_hash")
			mark(2*n, "stored_depth")
		}
		mark(d2/2+d2%2, "data")
		mark((d1&7)*size, "ref")
	}
	if hasCrc {
		mark(4, "crc")
	}
	if p != len(b) {
		return nil, fmt.Errorf("bagRegions: %d bytes left over", len(b)-p)
	}
	return reg, nil
}

type bagMut struct {
	region string
	op     string
	pos    int
	bytes  []byte
}

// bagMutants lists the corrupted copies of bag b. all = every position; otherwise data positions are sampled 1 in `every`.
func bagMutants(b []byte, reg []string, all bool, every int, r *rand.Rand) []bagMut {
	var out []bagMut
	boundary := make([]bool, len(b)+1) // truncation lengths next to a structural boundary
	for i := range b {
		if i == 0 || reg[i] != reg[i-1] || reg[i] != "data" {
			for _, j := range []int{i - 1, i, i + 1} {
				if j >= 0 && j <= len(b) {
					boundary[j] = true
				}
			}
		}
	}
	for i, o := range b {
		if !(all || reg[i] != "data" || r.Intn(every) == 0) {
			continue
		}
		seen := map[byte]bool{o: true}
		for _, s := range []struct {
			op string
			v  byte
		}{{"+1", o + 1}, {"-1", o - 1}, {"00", 0x00}, {"ff", 0xff}} {
			if seen[s.v] {
				continue
			}
			seen[s.v] = true
			m := append([]byte{}, b...)
			m[i] = s.v
			out = append(out, bagMut{reg[i], s.op, i, m})
		}
	}
	for n := 0; n < len(b); n++ {
		if all || boundary[n] || r.Intn(every) == 0 {
			region := "end"
			if n < len(b) {
				region = reg[n]
			}
			out = append(out, bagMut{"trunc_" + region, "trunc", n, append([]byte{}, b[:n]...)})
		}
	}
	return out
}

// driveBagSweep: shard `shard` of `shards` takes every shards-th (version, container variant) pair.
func driveBagSweep(w *ev.Writer, r *rand.Rand, thorough bool, seed int64, shard, shards int) error {
	type job struct {
		ver     string
		variant string
	}
	var jobs []job
	for _, v := range append(append([]string{}, stdVersions...), otherVersions...) {
		jobs = append(jobs, job{v, "plain"})
	}
	jobs = append(jobs, job{"v3r2", "hashes"})
	if thorough {
		for _, v := range []string{"v3r2", "v4r2", "v5r1", "v5beta", "v3r2_lockup"} {
			jobs = append(jobs, job{v, "crc"}, job{v, "idx"}, job{v, "idx_crc_cache"})
		}
		jobs = append(jobs, job{"v4r2", "hashes"}, job{"v5beta", "hashes"}, job{"v1r3", "hashes"})
	}
	n := 0
	for ji, j := range jobs {
		if ji%shards != shard {
			continue
		}
		src := []string{"si", "si_exit"}[ji%2]
		cs := &Case{Vec: ji, Src: src, Ver: j.ver, Tamper: "none", Time: "fresh", Seed: seed}
		rr := rand.New(rand.NewSource(seed*977 + int64(ji)))
		b, err := concretise(cs, rr, settle().Unix())
		if err != nil {
			return err
		}
		// the sweep of one bag may take several seconds: ages stay far from the lifetimes
		b.c.Lp, b.c.Lpr = 100000, 100000
		raw, err := base64.StdEncoding.DecodeString(unhx(b.c.StateInit))
		if err != nil {
			return err
		}
		if j.variant == "hashes" {
			cells, root, err := bagCells(raw)
			if err != nil {
				return err
			}
			raw = writeWithHashes(cells, root, func(int) bool { return true }, nil)
		} else if j.variant != "plain" {
			c, err := siCell(b.owner.si)
			if err != nil {
				return err
			}
			switch j.variant {
			case "crc":
				raw, err = c.ToBocCustom(false, true, false, 0)
			case "idx":
				raw, err = c.ToBocCustom(true, false, false, 0)
			default:
				raw, err = c.ToBocCustom(true, true, true, 0)
			}
			if err != nil {
				return err
			}
		}
		reg, err := bagRegions(raw)
		if err != nil {
			return fmt.Errorf("%s/%s: %w", j.ver, j.variant, err)
		}
		every := 8
		if len(raw) > 400 {
			every = 16
		}
		muts := append([]bagMut{{"intact", "none", 0, raw}}, bagMutants(raw, reg, thorough, every, rr)...)
		for _, m := range muts {
			c := *b.c
			c.StateInit = hx(base64.StdEncoding.EncodeToString(m.bytes))
			lab := ev.M{"src": src, "ver": j.ver, "tamper": "bag:" + m.region, "time": "fresh"}
			for attempt := 0; ; attempt++ {
				now := settle().Unix()
				w.Emit(ev.M{"k": "Begin", "bag": n, "case": lab, "pos": m.pos, "op": m.op, "state_init": c.StateInit})
				e, ok := run(&c, now)
				if !ok && attempt < 5 {
					continue
				}
				e["case"], e["bag"] = lab, ev.M{"variant": j.variant, "pos": m.pos, "op": m.op, "len": len(raw)}
				e["owner_seed"], e["owner_pub"] = hex.EncodeToString(b.owner.seed), hex.EncodeToString(b.owner.pub)
				w.Emit(e)
				break
			}
			n++
		}
	}
	return nil
}

// ---------------------------------------------------------------- bags written "with hashes"

type bagCell struct {
	d1, d2 byte
	data   []byte
	refs   []int
	hash   []byte // representation hash computed from the content (level 0 cells only)
	depth  int
}

// bagCells reads the cells of a bag the library wrote itself (no stored hashes, every cell of level 0) and computes
// hash and depth of each from its content: sha256(d1 d2 data depth(ref).. hash(ref)..).
func bagCells(b []byte) ([]bagCell, int, error) {
	reg, err := bagRegions(b)
	if err != nil {
		return nil, 0, err
	}
	size := int(b[4] & 7)
	rd := func(p, n int) int {
		v := 0
		for i := 0; i < n; i++ {
			v = v<<8 | int(b[p+i])
		}
		return v
	}
	root := rd(6+3*size+int(b[5]), size)
	var cells []bagCell
	for p := 0; p < len(b); {
		if reg[p] != "d1" {
			p++
			continue
		}
		c := bagCell{d1: b[p], d2: b[p+1]}
		if c.d1>>5 != 0 {
			return nil, 0, fmt.Errorf("bagCells: cell of level > 0")
		}
		dl := int(c.d2)/2 + int(c.d2)%2
		c.data = b[p+2 : p+2+dl]
		p += 2 + dl
		for j := 0; j < int(c.d1&7); j++ {
			c.refs = append(c.refs, rd(p, size))
			p += size
		}
		cells = append(cells, c)
	}
	for i := len(cells) - 1; i >= 0; i-- {
		c := &cells[i]
		repr := append([]byte{c.d1, c.d2}, c.data...)
		for _, r := range c.refs {
			if r <= i || r >= len(cells) {
				return nil, 0, fmt.Errorf("bagCells: reference out of order")
			}
			repr = append(repr, byte(cells[r].depth>>8), byte(cells[r].depth))
			if cells[r].depth+1 > c.depth {
				c.depth = cells[r].depth + 1
			}
		}
		for _, r := range c.refs {
			repr = append(repr, cells[r].hash...)
		}
		h := sha256.Sum256(repr)
		c.hash = h[:]
	}
	return cells, root, nil
}

type storedHD struct {
	hash  []byte
	depth int
}

// writeWithHashes serialises the cells again (generic magic, no index, no checksum) with stored hash and depth in front of
// the data of every cell selected by `with`; `fake` overrides what is stored for a cell.
func writeWithHashes(cells []bagCell, root int, with func(i int) bool, fake map[int]storedHD) []byte {
	var data []byte
	for i, c := range cells {
		if with(i) {
			h, d := c.hash, c.depth
			if f, ok := fake[i]; ok {
				h, d = f.hash, f.depth
			}
			data = append(data, c.d1|0x10, c.d2)
			data = append(data, h...)
			data = append(data, byte(d>>8), byte(d))
		} else {
			data = append(data, c.d1, c.d2)
		}
		data = append(data, c.data...)
		for _, r := range c.refs {
			data = append(data, byte(r))
		}
	}
	out := []byte{0xb5, 0xee, 0x9c, 0x72, 0x01, 0x03, byte(len(cells)), 0x01, 0x00, byte(len(data) >> 16), byte(len(data) >> 8), byte(len(data)), byte(root)}
	return append(out, data...)
}
