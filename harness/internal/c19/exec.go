package c19

import (
	"context"
	"encoding/hex"
	"fmt"
	"strconv"
	"time"

	"github.com/tonkeeper/tongo/tonconnect"

	"verifharness/internal/ev"
)

// Concrete is one fully determined run of Server.CheckProof: the server's configuration, the chain it sees and the
// proof presented to it. Texts travel as the hex of their bytes (a tampered text need not be valid UTF-8).
type Concrete struct {
	Secret     string       `json:"secret"` // hex of the secret's bytes
	Lp         int64        `json:"lp"`     // lifeTimePayload
	Lpr        int64        `json:"lpr"`    // lifeTimeProof
	WantDomain string       `json:"want_domain"`
	Address    string       `json:"address"`
	Domain     string       `json:"domain"`
	Ts         string       `json:"ts"` // decimal
	Sig        string       `json:"sig"`
	Payload    string       `json:"payload"`
	StateInit  string       `json:"state_init"`
	Chain      []ChainEntry `json:"chain"`
}

func hx(s string) string { return hex.EncodeToString([]byte(s)) }
func unhx(s string) string {
	b, err := hex.DecodeString(s)
	if err != nil {
		panic("c19: bad hex in a recorded event: " + err.Error())
	}
	return string(b)
}

func concreteOf(secret []byte, lp, lpr int64, wantDomain string, p *tonconnect.Proof, chain []ChainEntry) *Concrete {
	if chain == nil {
		chain = []ChainEntry{}
	}
	return &Concrete{Secret: hex.EncodeToString(secret), Lp: lp, Lpr: lpr, WantDomain: hx(wantDomain),
		Address: hx(p.Address), Domain: hx(p.Proof.Domain), Ts: strconv.FormatInt(p.Proof.Timestamp, 10),
		Sig: hx(p.Proof.Signature), Payload: hx(p.Proof.Payload), StateInit: hx(p.Proof.StateInit), Chain: chain}
}

func (c *Concrete) proof() *tonconnect.Proof {
	ts, err := strconv.ParseInt(c.Ts, 10, 64)
	if err != nil {
		panic("c19: bad ts in a recorded event")
	}
	return &tonconnect.Proof{Address: unhx(c.Address), Proof: tonconnect.ProofData{Timestamp: ts, Domain: unhx(c.Domain),
		Signature: unhx(c.Sig), Payload: unhx(c.Payload), StateInit: unhx(c.StateInit)}}
}

type goResult struct {
	Ok    bool
	Key   string
	Err   string
	Panic string
}

func (g goResult) m() ev.M { return ev.M{"ok": g.Ok, "key": g.Key, "err": g.Err, "panic": g.Panic} }

func callCheckProof(srv *tonconnect.Server, p *tonconnect.Proof, wantDomain string) (g goResult) {
	defer func() {
		if r := recover(); r != nil {
			g = goResult{Panic: fmt.Sprint(r)}
		}
	}()
	ok, key, err := srv.CheckProof(context.Background(), p, srv.CheckPayload, tonconnect.StaticDomain(wantDomain))
	return goResult{Ok: ok, Key: hex.EncodeToString(key), Err: ev.ErrClass(err)}
}

func callParseStateInit(s string) (g goResult) {
	defer func() {
		if r := recover(); r != nil {
			g = goResult{Panic: fmt.Sprint(r)}
		}
	}()
	key, err := tonconnect.ParseStateInit(s)
	return goResult{Ok: err == nil, Key: hex.EncodeToString(key), Err: ev.ErrClass(err)}
}

func callCheckPayload(srv *tonconnect.Server, s string) (g goResult) {
	defer func() {
		if r := recover(); r != nil {
			g = goResult{Panic: fmt.Sprint(r)}
		}
	}()
	ok, err := srv.CheckPayload(s)
	return goResult{Ok: ok, Err: ev.ErrClass(err)}
}

// settle waits until the wall clock is not about to enter the next second, so that a case built for second `now` is
// also executed within it.
func settle() time.Time {
	for {
		t := time.Now()
		if t.Nanosecond() < 850_000_000 {
			return t
		}
		time.Sleep(time.Duration(1_000_000_000-t.Nanosecond()) + time.Millisecond)
	}
}

// run executes one concrete case against the real server and returns the event (without case labels).
// The clock cannot be injected: the caller builds the case relative to `now` and passes it; run reports whether the
// call stayed within that second (if not, the caller rebuilds the case).
func run(c *Concrete, now int64) (ev.M, bool) {
	ex := newExecutor(c.Chain)
	secret, _ := hex.DecodeString(c.Secret)
	srv, err := tonconnect.NewTonConnect(ex, string(secret), tonconnect.WithLifeTimePayload(c.Lp), tonconnect.WithLifeTimeProof(c.Lpr))
	if err != nil {
		panic("c19: NewTonConnect: " + err.Error())
	}
	p := c.proof()
	g := callCheckProof(srv, p, unhx(c.WantDomain))
	inSecond := time.Now().Unix() == now
	ps := callParseStateInit(p.Proof.StateInit)
	calls := []ev.M{}
	for _, cl := range ex.calls {
		calls = append(calls, ev.M{"wc": strconv.FormatInt(int64(cl.Wc), 10), "addr": cl.Addr, "method": cl.Method})
	}
	m := ev.M{"k": "Check", "p": "C19", "secret": c.Secret, "lp": c.Lp, "lpr": c.Lpr, "want_domain": c.WantDomain,
		"now": strconv.FormatInt(now, 10), "address": c.Address, "domain": c.Domain, "ts": c.Ts, "sig": c.Sig,
		"payload": c.Payload, "state_init": c.StateInit, "chain": c.Chain, "go": g.m(), "ps": ps.m(), "execs": calls}
	return m, inSecond
}
