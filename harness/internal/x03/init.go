package x03

import (
	"bufio"
	"context"
	"encoding/base64"
	"encoding/json"
	"fmt"
	"os"
	"syscall"
	"time"

	"github.com/tonkeeper/tongo/config"
	"github.com/tonkeeper/tongo/liteapi"

	"verifharness/internal/ev"
)

// InitVec is one configuration of LiteInit_Gen: a vector of server classes, the options of liteapi.NewClient.
type InitVec struct {
	ID      int    `json:"id"`
	Cls     string `json:"cls"`
	Servers []struct {
		C string `json:"c"`
		D int    `json:"d"`
	} `json:"servers"`
	MaxC int  `json:"maxc"`
	Sync bool `json:"sync"`
	T    int  `json:"t"`   // WithTimeout, ms
	Ctx  int  `json:"ctx"` // deadline of the initialization context, ms (0 = context.Background())
}

func cpuMs() int64 {
	var ru syscall.Rusage
	if err := syscall.Getrusage(syscall.RUSAGE_SELF, &ru); err != nil {
		return 0
	}
	return (ru.Utime.Sec+ru.Stime.Sec)*1000 + int64(ru.Utime.Usec+ru.Stime.Usec)/1000
}

// busyPct is the CPU time the whole process uses during a window, in percent of one core.
func busyPct(window time.Duration) int {
	c0, t0 := cpuMs(), time.Now()
	time.Sleep(window)
	el := time.Since(t0).Milliseconds()
	if el <= 0 {
		return 0
	}
	return int((cpuMs() - c0) * 100 / el)
}

func guard(f func() (bool, int)) (res string, val int) {
	type r struct {
		s string
		v int
	}
	ch := make(chan r, 1)
	go func() {
		defer func() {
			if x := recover(); x != nil {
				ch <- r{"panic", 0}
			}
		}()
		ok, v := f()
		if ok {
			ch <- r{"ok", v}
		} else {
			ch <- r{"err", v}
		}
	}()
	select {
	case x := <-ch:
		return x.s, x.v
	case <-time.After(8 * time.Second):
		return "hang", 0
	}
}

func runInit(v *InitVec) ev.M {
	rec := ev.M{"k": "Init", "id": v.ID, "cls": v.Cls}
	var srvs []*liteSrv
	var cfg []config.LiteServer
	idxOf := map[string]int{}
	for i, s := range v.Servers {
		ls, err := newLiteSrv(s.C, s.D, i)
		if err != nil {
			rec["infra"] = err.Error()
			return rec
		}
		defer ls.close()
		srvs = append(srvs, ls)
		cfg = append(cfg, config.LiteServer{Host: ls.host, Key: base64.StdEncoding.EncodeToString(ls.key)})
		idxOf[ls.host] = i
	}
	T := time.Duration(v.T) * time.Millisecond
	opts := []liteapi.Option{liteapi.WithLiteServers(cfg), liteapi.WithMaxConnectionsNumber(v.MaxC), liteapi.WithTimeout(T)}
	if !v.Sync {
		opts = append(opts, liteapi.WithAsyncConnectionsInit())
	}
	if v.Ctx > 0 {
		ctx, cancel := context.WithTimeout(context.Background(), time.Duration(v.Ctx)*time.Millisecond)
		defer cancel()
		opts = append(opts, liteapi.WithInitializationContext(ctx))
	}
	type res struct {
		c   *liteapi.Client
		err error
		pan string
	}
	ch := make(chan res, 1)
	t0 := time.Now()
	go func() {
		var r res
		defer func() {
			if x := recover(); x != nil {
				r.pan = fmt.Sprint(x)
			}
			ch <- r
		}()
		r.c, r.err = liteapi.NewClient(opts...)
	}()
	out := ev.M{"ret": true, "err": false, "ms": 0, "panic": "", "nilc": true}
	var cl *liteapi.Client
	// the watchdog is far beyond every bound the specification allows (3 x timeout)
	select {
	case r := <-ch:
		out["ms"] = int(time.Since(t0).Milliseconds())
		out["err"] = r.err != nil
		out["panic"] = r.pan
		out["nilc"] = r.c == nil
		if r.err == nil && r.pan == "" {
			cl = r.c
		}
	case <-time.After(4*T + 1500*time.Millisecond):
		out["ret"] = false
		out["ms"] = int(time.Since(t0).Milliseconds())
	}
	rec["res"] = out
	// pool as NewClient left it (sync mode: this is the moment the contract speaks about)
	poolNow := func() ([]int, []bool) {
		idx, conn := []int{}, []bool{}
		if cl == nil {
			return idx, conn
		}
		for _, c := range cl.GetPoolStatus().Connections {
			i, ok := idxOf[c.ServerHost]
			if !ok {
				i = -1
			}
			idx = append(idx, i)
			conn = append(conn, c.Connected)
		}
		return idx, conn
	}
	p0, _ := poolNow()
	rec["pool0"] = p0
	// let every attempt resolve (a query to a mute server ends at the timeout), then look again
	if rest := T + 400*time.Millisecond - time.Since(t0); rest > 0 {
		time.Sleep(rest)
	}
	p1, c1 := poolNow()
	rec["pool"], rec["connected"] = p1, c1
	probe := ev.M{"mc": "none", "seq": 0, "tm": "none", "now": 0}
	if cl != nil {
		pctx, cancel := context.WithTimeout(context.Background(), 2*time.Second)
		probe["mc"], probe["seq"] = guard(func() (bool, int) {
			r, err := cl.GetMasterchainInfo(pctx)
			return err == nil, int(r.Last.Seqno)
		})
		probe["tm"], probe["now"] = guard(func() (bool, int) {
			r, err := cl.GetTime(pctx)
			return err == nil, int(int64(r) - 1700000000)
		})
		cancel()
	}
	rec["probe"] = probe
	// nothing is in flight any more: whatever CPU the process burns now is burnt by a loop that does not wait
	rec["busy"] = busyPct(500 * time.Millisecond)
	obs := []srvObs{}
	for _, s := range srvs {
		obs = append(obs, s.snapshot())
	}
	rec["srv"] = obs
	return rec
}

// ReplayInit runs the configurations of the input file one after the other. A configuration on which NewClient did
// not return leaves goroutines of the code under test behind (possibly spinning): the process stops there and reports
// the remaining vectors as not run; the runner starts a fresh process for them.
func ReplayInit(in string, w *ev.Writer) error {
	f, err := os.Open(in)
	if err != nil {
		return err
	}
	defer f.Close()
	w.Sync = true
	sc := bufio.NewScanner(f)
	sc.Buffer(make([]byte, 1<<20), 16<<20)
	n := 0
	tainted := false
	for sc.Scan() {
		if len(sc.Bytes()) == 0 {
			continue
		}
		var raw ev.M
		var v InitVec
		if err := json.Unmarshal(sc.Bytes(), &raw); err != nil {
			return err
		}
		if err := json.Unmarshal(sc.Bytes(), &v); err != nil {
			return err
		}
		if tainted {
			w.Emit(ev.M{"k": "Skipped", "id": v.ID})
			n++
			continue
		}
		w.Emit(ev.M{"k": "Begin", "id": v.ID})
		r := runInit(&v)
		r["vec"] = raw
		w.Emit(r)
		n++
		if res, ok := r["res"].(ev.M); ok {
			if ret, _ := res["ret"].(bool); !ret {
				tainted = true
			}
		}
		if b, _ := r["busy"].(int); b >= 20 {
			tainted = true
		}
	}
	w.Emit(ev.M{"k": "End", "events": n})
	return nil
}
