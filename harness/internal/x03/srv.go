// Package x03 drives the two areas of check X03:
//
//	(A) the client-authentication step of liteclient.NewConnection (tcp.authentificate / tcp.authentificationNonce /
//	    tcp.authentificationComplete) against a scripted server, and
//	(B) liteapi.NewClient / pool.InitializeConnections against a set of scripted lite servers of several classes.
//
// The harness only drives and records: every judgement (is the completion packet the boxed TL object, does the
// signature verify, is the outcome one the state machine allows, is the pool what the relation requires) is made by
// TLC over the recorded NDJSON (spec/trace/LiteAuth_Trace.tla, spec/trace/LiteInit_Trace.tla).
package x03

import (
	"crypto/ed25519"
	"encoding/binary"
	"encoding/hex"
	"net"
	"sync"
	"syscall"
	"time"

	"verifharness/internal/adnlsrv"
)

const (
	mPing         = 0x4d082b9a
	mPong         = 0xdc69fb03
	mQuery        = 0xb48bf97a
	mAnswer       = 0x0fac8416
	mLsQuery      = 0x798c06df
	mWaitMc       = 0xbaeab892
	mLsError      = 0xbba9e148
	mMcInfo       = 0x85832881
	mAuth         = 0x445bab12
	mAuthNonce    = 0xe35d4ab6
	mAuthComplete = 0xf7ad9ea6
	mPubEd        = 0x4813b4c6
	fGetMcInfo    = 0x89b5e62e
	fGetTime      = 0x16ad5a34
	cCurrentTime  = 0xe953000d
)

func le32(v uint32) []byte { b := make([]byte, 4); binary.LittleEndian.PutUint32(b, v); return b }

func magic(p []byte) uint32 {
	if len(p) < 4 {
		return 0
	}
	return binary.LittleEndian.Uint32(p)
}

// tlBytes frames a TL byte string (the harness's own framing of its answers; never used to judge anything).
func tlBytes(d []byte) []byte {
	var out []byte
	if len(d) < 254 {
		out = append(out, byte(len(d)))
	} else {
		out = append(out, 254, byte(len(d)), byte(len(d)>>8), byte(len(d)>>16))
	}
	out = append(out, d...)
	for len(out)%4 != 0 {
		out = append(out, 0)
	}
	return out
}

func readTlBytes(b []byte) (data, rest []byte, ok bool) {
	if len(b) == 0 {
		return nil, nil, false
	}
	n, h := int(b[0]), 1
	if b[0] == 254 {
		if len(b) < 4 {
			return nil, nil, false
		}
		n, h = int(b[1])|int(b[2])<<8|int(b[3])<<16, 4
	} else if b[0] == 255 {
		return nil, nil, false
	}
	tot := (h + n + 3) &^ 3
	if len(b) < tot {
		return nil, nil, false
	}
	return b[h : h+n], b[tot:], true
}

func blockIDExt(seqno uint32) []byte {
	b := le32(0xffffffff)                    // workchain -1
	b = append(b, 0, 0, 0, 0, 0, 0, 0, 0x80) // shard
	b = append(b, le32(seqno)...)            // seqno
	b = append(b, make([]byte, 64)...)       // root hash, file hash
	return b
}

// masterchainInfo: liteServer.masterchainInfo last:tonNode.blockIdExt state_root_hash:int256 init:tonNode.zeroStateIdExt
func masterchainInfo(seqno uint32) []byte {
	head := append(le32(mMcInfo), blockIDExt(seqno)...)
	head = append(head, make([]byte, 32)...)
	head = append(head, le32(0xffffffff)...)
	head = append(head, make([]byte, 64)...)
	return head
}

func lsError(code uint32, text string) []byte {
	e := append(le32(mLsError), le32(code)...)
	return append(e, tlBytes([]byte(text))...)
}

func answer(id, boxed []byte) []byte {
	return append(append(le32(mAnswer), id...), tlBytes(boxed)...)
}

// liteQuery unwraps adnl.message.query(liteServer.query(data)): the query id and the function id (behind an optional
// liteServer.waitMasterchainSeqno prefix).
func liteQuery(p []byte) (id []byte, fid uint32, waiting, ok bool) {
	if len(p) < 36 || magic(p) != mQuery {
		return nil, 0, false, false
	}
	id = p[4:36]
	q, _, ok1 := readTlBytes(p[36:])
	if !ok1 || len(q) < 4 || magic(q) != mLsQuery {
		return id, 0, false, false
	}
	data, _, ok2 := readTlBytes(q[4:])
	if !ok2 || len(data) < 4 {
		return id, 0, false, false
	}
	if magic(data) == mWaitMc && len(data) >= 16 {
		data = data[12:]
		waiting = true
	}
	return id, magic(data), waiting, true
}

// ---------------------------------------------------------------- a lite server of one class (part B)

// Server classes:
//
//	good       answers at once
//	slow       answers getMasterchainInfo after D ms (D well inside every deadline)
//	late       answers getMasterchainInfo after D ms (D well beyond the client's timeout)
//	mute       completes the ADNL handshake, answers pings, never answers a query
//	error      answers getMasterchainInfo with liteServer.error
//	garbage    answers getMasterchainInfo with bytes that are no liteServer.masterchainInfo
//	bad_key    listens with another key than the one in the configuration: the handshake is refused
//	blackhole  accepts TCP connections and never writes a byte
//	dead       nothing listens on the port: connection refused
type srvObs struct {
	Conns int `json:"conns"` // TCP connections accepted
	Hs    int `json:"hs"`    // ADNL handshakes accepted
	Mc    int `json:"mc"`    // getMasterchainInfo queries seen
	Open  int `json:"open"`  // connections the client has not closed yet
}

type liteSrv struct {
	class string
	delay time.Duration
	seqno uint32
	host  string
	key   []byte // the public key put into the configuration
	mu    sync.Mutex
	obs   srvObs
	stop  []func()
}

func (s *liteSrv) snapshot() srvObs { s.mu.Lock(); defer s.mu.Unlock(); return s.obs }
func (s *liteSrv) add(f func(o *srvObs)) { s.mu.Lock(); f(&s.obs); s.mu.Unlock() }
func (s *liteSrv) close() {
	for _, f := range s.stop {
		f()
	}
}

func seedOf(tag string, i int) []byte {
	b := make([]byte, 32)
	copy(b, []byte(tag))
	b[30], b[31] = byte(i>>8), byte(i)
	return b
}

// reservedPort binds a TCP socket to 127.0.0.1:0 without listening: connections to it are refused and the port
// cannot be handed to anybody else while the test runs.
func reservedPort() (string, func(), error) {
	fd, err := syscall.Socket(syscall.AF_INET, syscall.SOCK_STREAM, 0)
	if err != nil {
		return "", nil, err
	}
	sa := &syscall.SockaddrInet4{Port: 0, Addr: [4]byte{127, 0, 0, 1}}
	if err := syscall.Bind(fd, sa); err != nil {
		syscall.Close(fd)
		return "", nil, err
	}
	got, err := syscall.Getsockname(fd)
	if err != nil {
		syscall.Close(fd)
		return "", nil, err
	}
	port := got.(*syscall.SockaddrInet4).Port
	return net.JoinHostPort("127.0.0.1", itoa(port)), func() { syscall.Close(fd) }, nil
}

func itoa(n int) string {
	if n == 0 {
		return "0"
	}
	var b []byte
	for n > 0 {
		b = append([]byte{byte('0' + n%10)}, b...)
		n /= 10
	}
	return string(b)
}

func newLiteSrv(class string, delayMs int, idx int) (*liteSrv, error) {
	s := &liteSrv{class: class, delay: time.Duration(delayMs) * time.Millisecond, seqno: uint32(100 + idx)}
	switch class {
	case "dead":
		host, rel, err := reservedPort()
		if err != nil {
			return nil, err
		}
		s.host, s.key = host, pubOf(seedOf("dead", idx))
		s.stop = append(s.stop, rel)
		return s, nil
	case "blackhole":
		ln, err := net.Listen("tcp", "127.0.0.1:0")
		if err != nil {
			return nil, err
		}
		s.host, s.key = ln.Addr().String(), pubOf(seedOf("hole", idx))
		s.stop = append(s.stop, func() { ln.Close() })
		go func() {
			for {
				c, err := ln.Accept()
				if err != nil {
					return
				}
				s.add(func(o *srvObs) { o.Conns++; o.Open++ })
				go func() {
					// never writes; notices when the client gives up
					buf := make([]byte, 4096)
					for {
						if _, err := c.Read(buf); err != nil {
							break
						}
					}
					s.add(func(o *srvObs) { o.Open-- })
					c.Close()
				}()
			}
		}()
		return s, nil
	}
	srv, err := adnlsrv.New(seedOf("x03 lite", idx))
	if err != nil {
		return nil, err
	}
	srv.Timeout = time.Hour
	s.host, s.key = srv.Addr(), srv.PublicKey()
	if class == "bad_key" {
		s.key = pubOf(seedOf("x03 other", idx))
	}
	s.stop = append(s.stop, func() { srv.Close() })
	go func() {
		for {
			c, err := srv.Accept(0)
			if err != nil {
				return
			}
			s.add(func(o *srvObs) { o.Conns++; o.Open++ })
			go func() {
				defer func() { s.add(func(o *srvObs) { o.Open-- }); c.Close() }()
				if err := c.Handshake(); err != nil {
					return
				}
				if err := c.SendPacket(nil); err != nil {
					return
				}
				s.add(func(o *srvObs) { o.Hs++ })
				s.handle(c)
			}()
		}
	}()
	return s, nil
}

func (s *liteSrv) handle(c *adnlsrv.Conn) {
	for {
		p, err := c.ReadPacket()
		if err != nil {
			return
		}
		switch magic(p) {
		case mPing:
			if len(p) == 12 {
				c.SendPacket(append(le32(mPong), p[4:12]...))
			}
		case mQuery:
			id, fid, waiting, ok := liteQuery(p)
			if !ok {
				continue
			}
			if fid == fGetMcInfo && !waiting {
				s.add(func(o *srvObs) { o.Mc++ })
			}
			if waiting || s.class == "mute" {
				continue // the pool's background wait for the next block is never answered
			}
			switch fid {
			case fGetMcInfo:
				switch s.class {
				case "error":
					c.SendPacket(answer(id, lsError(500, "scripted")))
				case "garbage":
					c.SendPacket(answer(id, append(le32(mMcInfo), 1, 2, 3, 4, 5, 6, 7, 8)))
				default:
					if s.delay > 0 {
						id2 := append([]byte{}, id...)
						go func() {
							time.Sleep(s.delay)
							c.SendPacket(answer(id2, masterchainInfo(s.seqno)))
						}()
					} else {
						c.SendPacket(answer(id, masterchainInfo(s.seqno)))
					}
				}
			case fGetTime:
				c.SendPacket(answer(id, append(le32(cCurrentTime), le32(1700000000+s.seqno)...)))
			default:
				c.SendPacket(answer(id, lsError(404, "not scripted")))
			}
		}
	}
}

func pubOf(seed []byte) []byte {
	return append([]byte{}, ed25519.NewKeyFromSeed(seed).Public().(ed25519.PublicKey)...)
}

func hx(b []byte) string { return hex.EncodeToString(b) }
