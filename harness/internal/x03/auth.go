package x03

import (
	"bufio"
	"context"
	"crypto/ed25519"
	"encoding/hex"
	"encoding/json"
	"fmt"
	"net"
	"os"
	"sync"
	"time"

	"github.com/tonkeeper/tongo/liteclient"

	"verifharness/internal/adnlsrv"
	"verifharness/internal/ev"
)

// SendStep is one packet of the server's script: an ADNL payload (produced by the specification, byte for byte)
// sent Wait ms after the previous one.
type SendStep struct {
	Hex  string `json:"hex"`
	Wait int    `json:"wait"`
}

// AuthVec is one server script of LiteAuth_Gen.
type AuthVec struct {
	ID     int        `json:"id"`
	Cls    string     `json:"cls"`
	Key    bool       `json:"key"`    // the client is given an authentication key
	CSeed  string     `json:"cseed"`  // its seed
	SSeed  string     `json:"sseed"`  // the server's ADNL key seed
	Send   []SendStep `json:"send"`   // what the server sends once it has the client's first packet (or, without key, the handshake)
	Send2  []SendStep `json:"send2"`  // the script of every later connection (reconnects)
	Cancel int        `json:"cancel"` // ms after which the caller's context is cancelled (0 = never)
	Drop   bool       `json:"drop"`   // the server resets the connection after the first answered query; the script is played again on the next one
	Now    int        `json:"now"`    // what the server answers to liteServer.getTime
	Within int        `json:"within"` // Drop: how long (ms) the caller keeps asking until a query succeeds again
	// the rest of the vector (the specification's expectation) is carried through untouched
}

type session struct {
	mu     sync.Mutex
	C2S    []string // decrypted client->server ADNL payloads in order of arrival
	Auth   bool     // the (conforming) server accepted a tcp.authentificationComplete
	Closed string   // why the server ended the session: "" (client closed / still open) | "unknown-packet" | "bad-complete" | "drop"
}

func (s *session) snapshot() ev.M {
	s.mu.Lock()
	defer s.mu.Unlock()
	return ev.M{"c2s": append([]string{}, s.C2S...), "srv_auth": s.Auth, "closed": s.Closed}
}

type authSrv struct {
	v     *AuthVec
	srv   *adnlsrv.Server
	mu    sync.Mutex
	sess  []*session
	cpub  []byte
	drops int
}

func (a *authSrv) sessions() []*session {
	a.mu.Lock()
	defer a.mu.Unlock()
	return append([]*session{}, a.sess...)
}

func (a *authSrv) serve() {
	for {
		c, err := a.srv.Accept(0)
		if err != nil {
			return
		}
		s := &session{}
		a.mu.Lock()
		a.sess = append(a.sess, s)
		script := a.v.Send
		if len(a.sess) > 1 {
			script = a.v.Send2
		}
		a.mu.Unlock()
		go a.run(c, s, script)
	}
}

func reset(c *adnlsrv.Conn) {
	if tc, ok := c.NetConn().(*net.TCPConn); ok {
		tc.SetLinger(0)
	}
	c.Close()
}

// run is a conforming adnl-ext-server as far as authentication goes, plus the script's packets: it answers pings and
// liteServer.getTime, verifies a tcp.authentificationComplete against the nonces of this session and closes the
// connection on any packet that is neither (as the reference server does with a packet it cannot parse).
func (a *authSrv) run(c *adnlsrv.Conn, s *session, script []SendStep) {
	defer c.Close()
	if err := c.Handshake(); err != nil {
		return
	}
	if err := c.SendPacket(nil); err != nil {
		return
	}
	var clientNonce, serverNonce []byte
	note := func(p []byte) { s.mu.Lock(); s.C2S = append(s.C2S, hx(p)); s.mu.Unlock() }
	end := func(why string) { s.mu.Lock(); s.Closed = why; s.mu.Unlock() }
	if a.v.Key {
		// the client speaks first
		p, err := c.ReadPacket()
		if err != nil {
			return
		}
		note(p)
		if magic(p) == mAuth {
			if d, _, ok := readTlBytes(p[4:]); ok {
				clientNonce = d
			}
		}
	}
	var wmu sync.Mutex
	send := func(b []byte) { wmu.Lock(); c.SendPacket(b); wmu.Unlock() }
	go func() {
		for _, st := range script {
			if st.Wait > 0 {
				time.Sleep(time.Duration(st.Wait) * time.Millisecond)
			}
			b, _ := hex.DecodeString(st.Hex)
			if magic(b) == mAuthNonce {
				if d, _, ok := readTlBytes(b[4:]); ok {
					s.mu.Lock()
					if serverNonce == nil {
						serverNonce = d
					}
					s.mu.Unlock()
				}
			}
			send(b)
		}
	}()
	answered := 0
	for {
		p, err := c.ReadPacket()
		if err != nil {
			return
		}
		note(p)
		switch {
		case magic(p) == mPing && len(p) == 12:
			send(append(le32(mPong), p[4:12]...))
		case magic(p) == mAuthComplete:
			s.mu.Lock()
			sn := serverNonce
			already := s.Auth
			s.mu.Unlock()
			ok := false
			if !already && len(p) >= 40 && magic(p[4:]) == mPubEd && clientNonce != nil && sn != nil {
				pub := p[8:40]
				if sig, rest, okb := readTlBytes(p[40:]); okb && len(rest) == 0 && len(sig) == 64 {
					ok = ed25519.Verify(ed25519.PublicKey(pub), append(append([]byte{}, clientNonce...), sn...), sig)
					if ok {
						a.mu.Lock()
						a.cpub = append([]byte{}, pub...)
						a.mu.Unlock()
					}
				}
			}
			if !ok {
				end("bad-complete")
				return
			}
			s.mu.Lock()
			s.Auth = true
			s.mu.Unlock()
		case magic(p) == mQuery:
			id, fid, _, ok := liteQuery(p)
			if !ok {
				end("unknown-packet")
				return
			}
			if fid == fGetTime {
				send(answer(id, append(le32(cCurrentTime), le32(uint32(a.v.Now))...)))
			} else {
				send(answer(id, lsError(404, "not scripted")))
			}
			answered++
			a.mu.Lock()
			dropNow := a.v.Drop && a.drops == 0 && answered == 1
			if dropNow {
				a.drops++
			}
			a.mu.Unlock()
			if dropNow {
				time.Sleep(50 * time.Millisecond) // let the answer arrive
				end("drop")
				reset(c)
				return
			}
		default:
			end("unknown-packet")
			return
		}
	}
}

type authOut struct {
	Ret    bool // NewConnection returned
	Err    bool
	Ms     int
	Status int
	Panic  string
}

func runAuth(v *AuthVec) (rec ev.M) {
	rec = ev.M{"k": "Auth", "id": v.ID, "cls": v.Cls}
	sseed, _ := hex.DecodeString(v.SSeed)
	cseed, _ := hex.DecodeString(v.CSeed)
	srv, err := adnlsrv.New(sseed)
	if err != nil {
		rec["infra"] = err.Error()
		return rec
	}
	srv.Timeout = time.Hour
	defer srv.Close()
	a := &authSrv{v: v, srv: srv}
	go a.serve()

	ctx := context.Background()
	if v.Cancel > 0 {
		var cancel context.CancelFunc
		ctx, cancel = context.WithCancel(ctx)
		time.AfterFunc(time.Duration(v.Cancel)*time.Millisecond, cancel)
		defer cancel()
	}
	var keys []ed25519.PrivateKey
	if v.Key {
		keys = append(keys, ed25519.NewKeyFromSeed(cseed))
	}
	type res struct {
		c   *liteclient.Connection
		err error
		pan string
	}
	ch := make(chan res, 1)
	t0 := time.Now()
	go func() {
		var r res
		defer func() {
			if x := recover(); x != nil {
				r.pan = fmt.Sprint(x)
			}
			ch <- r
		}()
		r.c, r.err = liteclient.NewConnection(ctx, srv.PublicKey(), srv.Addr(), keys...)
	}()
	out := ev.M{"ret": true, "err": false, "ms": 0, "st": -1, "panic": ""}
	var conn *liteclient.Connection
	select {
	case r := <-ch:
		out["ms"] = int(time.Since(t0).Milliseconds())
		out["err"] = r.err != nil
		out["panic"] = r.pan
		if r.err == nil && r.pan == "" {
			conn = r.c
		}
	case <-time.After(35 * time.Second):
		out["ret"] = false
		out["ms"] = int(time.Since(t0).Milliseconds())
	}
	rec["res"] = out
	q := ev.M{"done": false, "r": "none", "now": 0, "ms": 0}
	q2 := ev.M{"done": false, "r": "none", "now": 0, "ms": 0, "st": -1}
	if conn != nil {
		// Status() takes the connection's mutex: it is asked with a watchdog (-2: it did not return)
		status := func() int {
			stc := make(chan int, 1)
			go func() { stc <- int(conn.Status()) }()
			select {
			case st := <-stc:
				return st
			case <-time.After(3 * time.Second):
				return -2
			}
		}
		out["st"] = status()
		cl := liteclient.NewClient(conn, liteclient.OptionTimeout(2*time.Second))
		// a query takes the connection's mutex as well: asked with a watchdog ("hang": it did not return)
		ask := func() (string, int) {
			return guard(func() (bool, int) {
				r, err := cl.LiteServerGetTime(context.Background())
				return err == nil, int(r.Now)
			})
		}
		t1 := time.Now()
		r, now := ask()
		q = ev.M{"done": true, "r": r, "now": now, "ms": int(time.Since(t1).Milliseconds())}
		if v.Drop && r != "hang" && r != "panic" {
			// the server has reset the connection; the client is expected to come back by itself
			t2 := time.Now()
			for time.Since(t2) < time.Duration(v.Within)*time.Millisecond {
				time.Sleep(400 * time.Millisecond)
				if r, now = ask(); r == "ok" || r == "hang" || r == "panic" {
					break
				}
			}
			q2 = ev.M{"done": true, "r": r, "now": now, "ms": int(time.Since(t2).Milliseconds()), "st": status()}
		}
	}
	rec["q"], rec["q2"] = q, q2
	// whatever the client still sends (a second completion, a signature after a refused nonce) is part of the record
	time.Sleep(400 * time.Millisecond)
	var ss []ev.M
	for _, s := range a.sessions() {
		ss = append(ss, s.snapshot())
	}
	if ss == nil {
		ss = []ev.M{}
	}
	rec["sess"] = ss
	return rec
}

// ReplayAuth runs every script of the input file (concurrently: the timeout scripts take 10 s each) and writes one
// record per script: the vector as generated plus what was observed.
func ReplayAuth(in string, w *ev.Writer) error {
	f, err := os.Open(in)
	if err != nil {
		return err
	}
	defer f.Close()
	type item struct {
		raw ev.M
		v   AuthVec
	}
	var items []item
	sc := bufio.NewScanner(f)
	sc.Buffer(make([]byte, 1<<20), 64<<20)
	for sc.Scan() {
		if len(sc.Bytes()) == 0 {
			continue
		}
		var it item
		if err := json.Unmarshal(sc.Bytes(), &it.raw); err != nil {
			return err
		}
		if err := json.Unmarshal(sc.Bytes(), &it.v); err != nil {
			return err
		}
		items = append(items, it)
	}
	recs := make([]ev.M, len(items))
	var wg sync.WaitGroup
	sem := make(chan struct{}, 24)
	for i := range items {
		wg.Add(1)
		go func(i int) {
			defer wg.Done()
			sem <- struct{}{}
			defer func() { <-sem }()
			r := runAuth(&items[i].v)
			r["vec"] = items[i].raw
			recs[i] = r
		}(i)
	}
	wg.Wait()
	for _, r := range recs {
		w.Emit(r)
	}
	w.Emit(ev.M{"k": "End", "events": len(recs)})
	return nil
}
