package c17

import (
	"encoding/hex"
	"encoding/json"
	"math/rand"
	"strconv"
	"strings"

	"github.com/tonkeeper/tongo/ton"

	"verifharness/internal/ev"
)

// Opts selects the size and the random stream of a recording run.
type Opts struct {
	Tier          string
	Seed          int64
	Shard, Shards int
}

type driver struct {
	w   *ev.Writer
	r   *rand.Rand
	seg int // events in the current segment
}

const segLen = 24

// emit writes one event, opening a new segment (Reset record) every segLen events so that one
// rejected event hides at most the rest of its own segment.
func (d *driver) emit(m ev.M) {
	if d.seg == 0 {
		d.w.Emit(ev.M{"k": "Reset", "p": "C17"})
	}
	m["p"] = "C17"
	d.w.Emit(m)
	d.seg = (d.seg + 1) % segLen
}

var wcEdges = []int64{-2147483648, -2147483647, -65537, -65536, -32769, -32768, -257, -256, -255, -129, -128, -127, -2, -1, 0, 1, 2,
	126, 127, 128, 129, 255, 256, 257, 32767, 32768, 65535, 65536, 2147483646, 2147483647}

func (d *driver) wc() int64 {
	switch x := d.r.Intn(10); {
	case x < 4:
		return int64(d.r.Intn(256) - 128)
	case x < 6:
		return wcEdges[d.r.Intn(len(wcEdges))]
	default:
		return int64(int32(d.r.Uint32()))
	}
}

func (d *driver) wc8() int64 { return int64(d.r.Intn(256) - 128) }

func (d *driver) hash() []byte {
	h := make([]byte, 32)
	switch x := d.r.Intn(20); {
	case x < 12:
		d.r.Read(h)
	case x < 14: // leading zero bytes / nibbles (zero fill of the raw form)
		d.r.Read(h)
		k := 1 + d.r.Intn(31)
		for i := 0; i < k; i++ {
			h[i] = 0
		}
		if d.r.Intn(2) == 0 {
			h[k] &= 0x0f
		}
	case x < 15:
	case x < 16:
		for i := range h {
			h[i] = 0xff
		}
	case x < 18: // one bit set / one bit clear
		bit := d.r.Intn(256)
		if x == 17 {
			for i := range h {
				h[i] = 0xff
			}
		}
		h[bit/8] ^= 0x80 >> uint(bit%8)
	default: // bytes that give '+' '/' '-' '_' digits
		for i := range h {
			h[i] = []byte{0xfb, 0xff, 0xef, 0xbe, 0xfe, 0x3f}[d.r.Intn(6)]
		}
	}
	return h
}

func result(id ton.AccountID, err error) ev.M {
	m := ev.M{"err": ev.ErrClass(err), "wc": "", "hash": ""}
	if err == nil {
		a := acctOf(id)
		m["wc"], m["hash"] = a.Wc, a.Hash
	}
	return m
}

var fnShort = map[string]string{"AccountIDFromRaw": "raw", "AccountIDFromBase64Url": "b64", "ParseAccountID": "any",
	"MustParseAccountID": "must", "UnmarshalJSON": "json", "tongo.ParseAddress": "root"}

// parseEvents hands s to every text parser and records one Parse event per call.
func (d *driver) parseEvents(s string) {
	for _, p := range textParsers {
		if !p.Applies(s) {
			continue
		}
		id, err, pn := guard(func() (ton.AccountID, error) { return p.Call(s) })
		m := result(id, err)
		m["k"], m["fn"], m["s"] = "Parse", fnShort[p.Name], s
		if p.Name == "UnmarshalJSON" { // the JSON text travels as hex (no escaped quotes in the trace)
			delete(m, "s")
			m["sx"] = hex.EncodeToString([]byte(`"` + s + `"`))
		}
		if pn != "" && p.Name != "MustParseAccountID" {
			m["k"], m["panic"] = "Panic", pn
		}
		d.emit(m)
	}
}

// backs parses a text produced by the library with every parser that takes it.
func backs(tag, s string, only string) []ev.M {
	var out []ev.M
	for _, p := range textParsers {
		if !p.Applies(s) || (p.Judge != "an" && p.Judge != only) {
			continue
		}
		id, err, _ := guard(func() (ton.AccountID, error) { return p.Call(s) })
		m := result(id, err)
		m["fn"] = fnShort[p.Name] + ":" + tag
		out = append(out, m)
	}
	return out
}

func toStd(s string) string { return strings.NewReplacer("-", "+", "_", "/").Replace(s) }

// encode records every output form of one account and the result of parsing each of them back.
func (d *driver) encode() (raw, url string) {
	wc := d.wc()
	h := d.hash()
	var id ton.AccountID
	id.Workchain = int32(wc)
	copy(id.Address[:], h)
	bounce, testnet := d.r.Intn(2) == 0, d.r.Intn(2) == 0
	m := ev.M{"k": "Enc", "wc": strconv.FormatInt(wc, 10), "hash": hex.EncodeToString(h), "bounce": bounce, "testnet": testnet}
	raw = id.ToRaw()
	m["raw"], m["str"] = raw, id.String()
	js, err := json.Marshal(id)
	m["json"], m["err"] = hex.EncodeToString(js), ev.ErrClass(err) // JSON text as hex bytes
	tb, err := id.MarshalTL()
	if err != nil {
		m["err"] = "e"
	}
	m["tl"] = hex.EncodeToString(tb)
	bk := backs("raw", raw, "rw")
	var back ton.AccountID
	err = json.Unmarshal(js, &back)
	r := result(back, err)
	r["fn"] = "json:json"
	bk = append(bk, r)
	back, err = tlDecode(tb)
	r = result(back, err)
	r["fn"] = "tl:tl"
	bk = append(bk, r)
	back, err = tlDecodeGeneric(tb)
	r = result(back, err)
	r["fn"] = "tlg:tl"
	bk = append(bk, r)
	for _, kind := range tlReaderKinds[1:] { // the same bytes through the other deliveries
		back, err = tlDecodeVia(kind, tb, d.r.Intn(2) == 0)
		r = result(back, err)
		r["fn"] = "tl-" + kind + ":tl"
		bk = append(bk, r)
	}
	if wc >= -128 && wc <= 127 {
		url = id.ToHuman(bounce, testnet)
		m["human"], m["std"] = url, toStd(url)
		bk = append(bk, backs("url", url, "fr")...)
		bk = append(bk, backs("std", toStd(url), "fr")...)
		bits, err := tlbEncode(id.ToMsgAddress())
		if err != nil {
			m["err"] = "e"
		}
		m["tlb"] = bits
		_, pid, err := tlbDecode(bits)
		if pid == nil {
			pid = &ton.AccountID{}
			if err == nil {
				err = errNil
			}
		}
		r = result(*pid, err)
		r["fn"] = "tlb:tlb"
		bk = append(bk, r)
	}
	m["backs"] = bk
	d.emit(m)
	return raw, url
}

type strErr string

func (e strErr) Error() string { return string(e) }

const errNil = strErr("AccountIDFromTlb returned nil")

const alpha66 = "ABCDEFGHIJKLMNOPQRSTUVWXYZabcdefghijklmnopqrstuvwxyz0123456789+/-_"
const hexUp = "0123456789abcdefABCDEF"

// mutateFriendly derives a text from a user-friendly form; the specification decides what it is.
func (d *driver) mutateFriendly(s string) string {
	b := []byte(s)
	switch d.r.Intn(9) {
	case 0, 1, 2: // one character replaced
		b[d.r.Intn(len(b))] = alpha66[d.r.Intn(66)]
	case 3: // two or three characters replaced
		for i := 0; i < 2+d.r.Intn(2); i++ {
			b[d.r.Intn(len(b))] = alpha66[d.r.Intn(66)]
		}
	case 4: // neighbours swapped
		i := d.r.Intn(len(b) - 1)
		b[i], b[i+1] = b[i+1], b[i]
	case 5:
		b = b[:len(b)-1-d.r.Intn(4)]
	case 6:
		b = append(b, alpha66[d.r.Intn(66)])
	case 7: // other alphabet, wholly or for one character only
		if d.r.Intn(2) == 0 {
			return toStd(s)
		}
		if i := strings.IndexAny(s, "-_"); i >= 0 {
			b[i] = toStd(s[i : i+1])[0]
		}
	case 8:
		b[d.r.Intn(len(b))] = "!*.:= ~@"[d.r.Intn(8)]
	}
	return string(b)
}

func (d *driver) mutateRaw(s string) string {
	colon := strings.IndexByte(s, ':')
	w, h := s[:colon], s[colon+1:]
	switch d.r.Intn(12) {
	case 0:
		h = strings.TrimLeft(h, "0")
	case 1:
		h = strings.ToUpper(h)
	case 2:
		h = h[d.r.Intn(len(h)):]
	case 3:
		h = h + "0"
	case 4:
		b := []byte(h)
		b[d.r.Intn(len(b))] = "ghxz-+ :_"[d.r.Intn(9)]
		h = string(b)
	case 5:
		b := []byte(h)
		b[d.r.Intn(len(b))] = hexUp[d.r.Intn(len(hexUp))]
		h = string(b)
	case 6:
		w = "+" + w
	case 7:
		w = strings.Replace("0"+w, "0-", "-0", 1)
	case 8:
		w = strconv.FormatInt(d.r.Int63n(1<<34)-(1<<33), 10)
	case 9:
		return w + h
	case 10:
		w = w + []string{" ", "x", ".0", "e1", ""}[d.r.Intn(5)]
		if d.r.Intn(3) == 0 {
			w = ""
		}
	case 11:
		return s + ":"
	}
	return w + ":" + h
}

// tlEvents decodes a TL byte stream (random length, so mostly one id, sometimes a prefix, sometimes two ids
// back to back) through a random delivery and records what each successive decode returned.
func (d *driver) tlEvents() {
	n := []int{0, 1, 3, 4, 5, 31, 35, 36, 36, 36, 37, 44, 71, 72, 72, 80}[d.r.Intn(16)]
	b := make([]byte, n)
	d.r.Read(b)
	for off := 0; off+4 <= n; off += 36 {
		if d.r.Intn(2) == 0 {
			w := uint32(int32(d.wc()))
			b[off], b[off+1], b[off+2], b[off+3] = byte(w), byte(w>>8), byte(w>>16), byte(w>>24)
		}
	}
	kinds := append([]string{"split", "split", "split"}, tlReaderKinds...)
	kind := kinds[d.r.Intn(len(kinds))]
	var chunks [][]byte
	cuts := []int{}
	if kind == "split" { // one to three cuts anywhere
		rest := b
		pos := 0
		for k := 0; k < 1+d.r.Intn(3) && len(rest) > 1; k++ {
			c := 1 + d.r.Intn(len(rest)-1)
			chunks = append(chunks, rest[:c])
			rest = rest[c:]
			pos += c
			cuts = append(cuts, pos)
		}
		chunks = append(chunks, rest)
	}
	generic := d.r.Intn(2) == 0
	ids, errs := tlDecodeN(tlReader(kind, b, chunks), 2, generic)
	outs := make([]ev.M, 2)
	for i := range outs {
		outs[i] = result(ids[i], errs[i])
	}
	fn := "UnmarshalTL"
	if generic {
		fn = "tl.Unmarshal"
	}
	d.emit(ev.M{"k": "TlDec", "bytes": hex.EncodeToString(b), "rd": kind, "cuts": cuts, "fn": fn, "outs": outs})
}

func (d *driver) bits(n int) string {
	b := make([]byte, n)
	for i := range b {
		b[i] = '0' + byte(d.r.Intn(2))
	}
	return string(b)
}

func (d *driver) tlbEvents() {
	a := StdAddr{Wc8: strconv.FormatInt(d.wc8(), 10), Addr: hex.EncodeToString(d.hash())}
	if d.r.Intn(5) > 0 {
		a.D = 1 + d.r.Intn(30)
		switch d.r.Intn(4) {
		case 0:
			a.P = strings.Repeat("1", a.D)
		case 1:
			a.P = strings.Repeat("0", a.D)
		default:
			a.P = d.bits(a.D)
		}
	}
	ma, err := a.msgAddress()
	if err != nil {
		panic(err)
	}
	bits, err := tlbEncode(ma)
	d.emit(ev.M{"k": "TlbEnc", "d": a.D, "pfx": a.P, "wc8": a.Wc8, "addr": a.Addr, "bits": bits, "err": ev.ErrClass(err)})
	if err != nil {
		return
	}
	in := bits
	switch d.r.Intn(6) {
	case 0:
		in = bits[:d.r.Intn(len(bits))]
	case 1:
		in = bits + d.bits(1+d.r.Intn(40))
	}
	m, pid, err := tlbDecode(in)
	e := ev.M{"k": "TlbDec", "bits": in, "err": ev.ErrClass(err), "d": 0, "pfx": "", "wc8": "", "addr": "", "wc": "", "hash": ""}
	if err == nil && pid == nil {
		e["err"] = "nil"
	}
	if err == nil && pid != nil {
		s := stdAddrOf(m)
		acc := acctOf(*pid)
		e["d"], e["pfx"], e["wc8"], e["addr"], e["wc"], e["hash"] = s.D, s.P, s.Wc8, s.Addr, acc.Wc, acc.Hash
	}
	d.emit(e)
}

// shardPrefix draws a prefix length 0..60 and a prefix; returns the 64-bit id text and the prefix text.
func (d *driver) shard() (id string, pfx string) {
	n := d.r.Intn(61)
	switch d.r.Intn(8) {
	case 0:
		n = 0
	case 1:
		n = 60
	}
	switch d.r.Intn(5) {
	case 0:
		pfx = strings.Repeat("0", n)
	case 1:
		pfx = strings.Repeat("1", n)
	default:
		pfx = d.bits(n)
	}
	return pfx + "1" + strings.Repeat("0", 63-n), pfx
}

// related derives a 64-bit id text that shares k leading bits with pfx, for random k around the boundary.
func (d *driver) relatedBits(pfx string, total int) string {
	out := []byte(d.bits(total))
	k := len(pfx)
	switch d.r.Intn(4) {
	case 0:
		k = d.r.Intn(len(pfx) + 1)
	case 1:
		if k > 0 {
			k--
		}
	}
	copy(out, pfx[:k])
	if k < len(pfx) && d.r.Intn(3) > 0 {
		out[k] = '0' + '1' - pfx[k] // first difference exactly at k
	}
	return string(out)
}

func hexOfBits(bits string) string {
	b := make([]byte, len(bits)/8)
	for i := 0; i < len(bits); i++ {
		if bits[i] == '1' {
			b[i/8] |= 0x80 >> uint(i%8)
		}
	}
	return hex.EncodeToString(b)
}

func (d *driver) shardEvents() {
	id, pfx := d.shard()
	if d.r.Intn(40) == 0 {
		id, pfx = strings.Repeat("0", 64), ""
	}
	sh, err := ton.ParseShardID(int64(u64(id)))
	e := ev.M{"k": "Shard", "id": id, "err": ev.ErrClass(err), "enc": ""}
	if err == nil {
		e["enc"] = b64(uint64(sh.Encode()))
	}
	d.emit(e)
	if err != nil {
		return
	}
	for i := 0; i < 3; i++ {
		h := hexOfBits(d.relatedBits(pfx, 256))
		aid, _ := mkID(strconv.FormatInt(d.wc(), 10), h)
		d.emit(ev.M{"k": "Match", "id": id, "hash": h, "out": sh.MatchAccountID(aid)})
	}
	for i := 0; i < 3; i++ {
		// a block shard whose prefix is related to this one's: ancestor, descendant, or diverging
		m := d.r.Intn(61)
		if d.r.Intn(2) == 0 {
			m = len(pfx) + d.r.Intn(5) - 2
			if m < 0 {
				m = 0
			}
			if m > 62 {
				m = 62
			}
		}
		bp := d.relatedBits(pfx, 64)[:m]
		blk := bp + "1" + strings.Repeat("0", 63-m)
		if d.r.Intn(30) == 0 {
			blk = strings.Repeat("0", 64)
		}
		d.emit(ev.M{"k": "MatchBlk", "id": id, "blk": blk, "out": sh.MatchBlockID(ton.BlockID{Workchain: int32(d.wc()), Shard: u64(blk), Seqno: d.r.Uint32()})})
	}
	n := len(pfx)
	ident := pfx + strings.Repeat("0", 64-n)
	for _, mode := range []string{"same", "split", "merge"} {
		if mode == "split" && n == 0 {
			continue
		}
		ps, err := parents(n, u64(ident), mode)
		if ps == nil {
			ps = []string{}
		}
		d.emit(ev.M{"k": "Parents", "n": n, "ident": ident, "mode": mode, "out": ps, "err": ev.ErrClass(err)})
	}
}

func (d *driver) adnlEvents() {
	a := hex.EncodeToString(d.hash())
	t := adnlText(a)
	back, err := adnlParse(t)
	d.emit(ev.M{"k": "Adnl", "addr": a, "text": t, "back": back, "err": ev.ErrClass(err)})
	s := t
	switch d.r.Intn(4) {
	case 0:
		b := []byte(t)
		b[d.r.Intn(len(b))] = "abcdefghijklmnopqrstuvwxyz234567"[d.r.Intn(32)]
		s = string(b)
	case 1:
		s = t[:len(t)-1]
	}
	got, err := adnlParse(s)
	if err != nil {
		got = ""
	}
	d.emit(ev.M{"k": "AdnlParse", "s": s, "addr": got, "err": ev.ErrClass(err)})
}

// Drive records calls on random inputs. Every random choice comes from (seed, shard).
func Drive(w *ev.Writer, o Opts) {
	d := &driver{w: w, r: rand.New(rand.NewSource(o.Seed*1000003 + int64(o.Shard)*7919 + 17))}
	rounds := 70
	if o.Tier == "thorough" {
		rounds = 3000
	}
	for i := 0; i < rounds; i++ {
		raw, url := d.encode()
		d.parseEvents(d.mutateRaw(raw))
		if url != "" {
			d.parseEvents(d.mutateFriendly(url))
			d.parseEvents(d.mutateFriendly(url))
		}
		d.tlEvents()
		d.tlbEvents()
		d.shardEvents()
		d.adnlEvents()
	}
	w.Emit(ev.M{"k": "End", "events": w.N})
}
