package c17

import (
	"bufio"
	"context"
	"encoding/hex"
	"encoding/json"
	"fmt"
	"os"
	"strconv"

	"github.com/tonkeeper/tongo"
	"github.com/tonkeeper/tongo/tl"
	"github.com/tonkeeper/tongo/ton"

	"verifharness/internal/ev"
)

// Form is a decoder verdict of the specification: cls ok|bad|free|lax|any and the account it denotes.
type Form struct {
	Cls  string `json:"cls"`
	Wc   string `json:"wc"`
	Hash string `json:"hash"`
}

type vector struct {
	Vec int    `json:"vec"`
	K   string `json:"k"`
	Cl  string `json:"cl"`
	// enc
	Wc      string `json:"wc"`
	Hash    string `json:"hash"`
	Bounce  bool   `json:"bounce"`
	Testnet bool   `json:"testnet"`
	Raw     string `json:"raw"`
	JSON    string `json:"json"`
	TL      string `json:"tl"`
	URL     string `json:"url"`
	Std     string `json:"std"`
	Tlb     string `json:"tlb"`
	// parse
	S  string `json:"s"`
	Rw Form   `json:"rw"`
	Fr Form   `json:"fr"`
	An Form   `json:"an"`
	// tl
	Bytes  string   `json:"bytes"`
	Rd     string   `json:"rd"`
	At     int      `json:"at"`
	Chunks []string `json:"chunks"`
	Exps   []Form   `json:"exps"`
	// tlb
	Bits string `json:"bits"`
	Cls  string `json:"cls"`
	D    int    `json:"d"`
	P    string `json:"p"`
	Wc8  string `json:"wc8"`
	Addr string `json:"addr"`
	// shard
	ID      string `json:"id"`
	N       int    `json:"n"`
	Ident   string `json:"ident"`
	IdentID string `json:"identid"`
	Left    string `json:"left"`
	Right   string `json:"right"`
	Parent  string `json:"parent"`
	LastBit int    `json:"lastbit"`
	Pl      string `json:"pl"`
	Pr      string `json:"pr"`
	Valid   bool   `json:"valid"`
	Accts   []struct {
		Hash string `json:"hash"`
		Exp  bool   `json:"exp"`
	} `json:"accts"`
	Blks []struct {
		Blk string `json:"blk"`
		Exp bool   `json:"exp"`
	} `json:"blks"`
	// adnl
	Text string `json:"text"`
	Back struct {
		Cls  string `json:"cls"`
		Addr string `json:"addr"`
	} `json:"back"`
}

type fail struct {
	Fn  string `json:"fn"`
	In  string `json:"in,omitempty"`
	Exp any    `json:"exp"`
	Got any    `json:"got"`
}

type checker struct {
	fails []fail
	calls int
	obs   []string // functions that accepted a text of class "lax" (recorded, never a verdict)
}

func (c *checker) eq(fn, in string, exp, got any) {
	c.calls++
	if fmt.Sprint(exp) != fmt.Sprint(got) {
		c.fails = append(c.fails, fail{fn, in, exp, got})
	}
}

// judge compares what a parser returned with the verdict of the specification.
func (c *checker) judge(fn, in string, exp Form, id ton.AccountID, err error) {
	c.calls++
	got := acctOf(id)
	same := err == nil && got.Wc == exp.Wc && got.Hash == exp.Hash
	ok := false
	switch exp.Cls {
	case "ok":
		ok = same
	case "bad":
		ok = err != nil
	case "free":
		ok = err != nil || same
	case "lax":
		ok = true
		if err == nil {
			c.obs = append(c.obs, fn)
		}
	case "any":
		ok = true
	}
	if !ok {
		g := ev.M{"err": ev.ErrClass(err)}
		if err == nil {
			g["wc"], g["hash"] = got.Wc, got.Hash
		} else {
			g["msg"] = err.Error()
		}
		c.fails = append(c.fails, fail{fn, in, exp, g})
	}
}

func (c *checker) parseAll(s string, rw, fr, an Form) {
	for _, p := range textParsers {
		if !p.Applies(s) {
			continue
		}
		exp := an
		switch p.Judge {
		case "rw":
			exp = rw
		case "fr":
			exp = fr
		}
		id, err, _ := guard(func() (ton.AccountID, error) { return p.Call(s) })
		c.judge(p.Name, s, exp, id, err)
	}
}

func replayOne(v *vector) (*checker, error) {
	c := &checker{}
	switch v.K {
	case "enc":
		id, err := mkID(v.Wc, v.Hash)
		if err != nil {
			return nil, err
		}
		want := Form{"ok", v.Wc, v.Hash}
		none := Form{Cls: "any"} // the other text decoder: not what this vector is about
		c.eq("ToRaw", "", v.Raw, id.ToRaw())
		c.eq("String", "", v.Raw, id.String())
		c.eq("NewAccountID.ToRaw", "", v.Raw, tongo.NewAccountId(id.Workchain, id.Address).ToRaw())
		js, err := json.Marshal(id)
		c.eq("MarshalJSON", "", v.JSON, string(js))
		c.eq("MarshalJSON.err", "", nil, err)
		tb, err := id.MarshalTL()
		c.eq("MarshalTL", "", v.TL, hex.EncodeToString(tb))
		c.eq("MarshalTL.err", "", nil, err)
		tb2, err := tl.Marshal(id)
		c.eq("tl.Marshal", "", v.TL, hex.EncodeToString(tb2))
		c.eq("tl.Marshal.err", "", nil, err)
		// parse-backs of the specification's own texts / bytes
		c.parseAll(v.Raw, want, none, want)
		var back ton.AccountID
		err = json.Unmarshal([]byte(v.JSON), &back)
		c.judge("UnmarshalJSON(json)", v.JSON, want, back, err)
		raw, _ := hex.DecodeString(v.TL)
		back, err = tlDecode(raw)
		c.judge("UnmarshalTL", v.TL, want, back, err)
		back, err = tlDecodeGeneric(raw)
		c.judge("tl.Unmarshal", v.TL, want, back, err)
		for _, kind := range tlReaderKinds[1:] {
			back, err = tlDecodeVia(kind, raw, false)
			c.judge("UnmarshalTL["+kind+"]", v.TL, want, back, err)
		}
		if v.URL != "" {
			c.eq("ToHuman", "", v.URL, id.ToHuman(v.Bounce, v.Testnet))
			c.parseAll(v.URL, none, want, want)
			c.parseAll(v.Std, none, want, want)
			// outside C17 (the account id is what must survive): does the root parser report the tag's bounce flag?
			if a, err := rootParser.ParseAddress(context.Background(), v.URL); err == nil && a.Bounce != v.Bounce {
				c.obs = append(c.obs, "tongo.ParseAddress.Bounce")
			}
			ma := id.ToMsgAddress()
			bits, err := tlbEncode(ma)
			c.eq("ToMsgAddress.MarshalTLB", "", v.Tlb, bits)
			c.eq("ToMsgAddress.MarshalTLB.err", "", nil, err)
			_, pid, err := tlbDecode(v.Tlb)
			if pid == nil {
				pid = &ton.AccountID{}
				if err == nil {
					err = fmt.Errorf("AccountIDFromTlb returned nil")
				}
			}
			c.judge("AccountIDFromTlb", v.Tlb, want, *pid, err)
			pid2, err := tongo.AccountIDFromTlb(ma)
			if pid2 == nil {
				pid2 = &ton.AccountID{}
				if err == nil {
					err = fmt.Errorf("AccountIDFromTlb returned nil")
				}
			}
			c.judge("AccountIDFromTlb(ToMsgAddress)", "", want, *pid2, err)
		}
	case "parse":
		c.parseAll(v.S, v.Rw, v.Fr, v.An)
	case "tl":
		raw, err := hex.DecodeString(v.Bytes)
		if err != nil {
			return nil, err
		}
		var chunks [][]byte
		for _, ch := range v.Chunks {
			b, err := hex.DecodeString(ch)
			if err != nil {
				return nil, err
			}
			chunks = append(chunks, b)
		}
		for _, generic := range []bool{false, true} {
			fn := "UnmarshalTL"
			if generic {
				fn = "tl.Unmarshal"
			}
			ids, errs := tlDecodeN(tlReader(v.Rd, raw, chunks), len(v.Exps), generic)
			for i, exp := range v.Exps {
				c.judge(fmt.Sprintf("%s#%d", fn, i+1), fmt.Sprintf("%s via %s at %d", v.Bytes, v.Rd, v.At), exp, ids[i], errs[i])
			}
		}
	case "tlb":
		m, pid, err := tlbDecode(v.Bits)
		switch v.Cls {
		case "lax":
			c.calls++
			if err == nil {
				c.obs = append(c.obs, "MsgAddress.UnmarshalTLB")
			}
		case "ok":
			if pid == nil {
				pid = &ton.AccountID{}
				if err == nil {
					err = fmt.Errorf("AccountIDFromTlb returned nil")
				}
			}
			c.judge("AccountIDFromTlb", v.Bits, Form{"ok", v.Wc, v.Hash}, *pid, err)
			if err == nil {
				c.eq("MsgAddress.UnmarshalTLB", v.Bits, StdAddr{v.D, v.P, v.Wc8, v.Addr}, stdAddrOf(m))
			}
			// the same address built from its fields must serialise to the same bits
			ma, e := StdAddr{v.D, v.P, v.Wc8, v.Addr}.msgAddress()
			if e != nil {
				return nil, e
			}
			bits, e := tlbEncode(ma)
			c.eq("MsgAddress.MarshalTLB", "", v.Bits, bits)
			c.eq("MsgAddress.MarshalTLB.err", "", nil, e)
		}
	case "shard":
		id := u64(v.ID)
		sh, err := ton.ParseShardID(int64(id))
		c.eq("ParseShardID.err", v.ID, nil, err)
		if err != nil {
			break
		}
		c.eq("ShardID.Encode", v.ID, v.ID, b64(uint64(sh.Encode())))
		c.eq("MustParseShardID.Encode", v.ID, v.ID, b64(uint64(ton.MustParseShardID(int64(id)).Encode())))
		for _, a := range v.Accts {
			aid, e := mkID("0", a.Hash)
			if e != nil {
				return nil, e
			}
			c.eq("ShardID.MatchAccountID", v.ID+" "+a.Hash, a.Exp, sh.MatchAccountID(aid))
			aid.Workchain = -1
			c.eq("ShardID.MatchAccountID", v.ID+" "+a.Hash, a.Exp, sh.MatchAccountID(aid))
		}
		for _, b := range v.Blks {
			c.eq("ShardID.MatchBlockID", v.ID+" "+b.Blk, b.Exp, sh.MatchBlockID(ton.BlockID{Workchain: 0, Shard: u64(b.Blk), Seqno: 1}))
		}
		pfx := u64(v.Ident)
		ps, err := parents(v.N, pfx, "same")
		c.eq("GetParents(same)", v.ID, []string{v.IdentID}, ps)
		c.eq("GetParents(same).err", v.ID, nil, err)
		ps, err = parents(v.N, pfx, "merge")
		c.eq("GetParents(after_merge)", v.ID, []string{v.Left, v.Right}, ps)
		c.eq("GetParents(after_merge).err", v.ID, nil, err)
		if v.N >= 1 {
			ps, err = parents(v.N, pfx, "split")
			c.eq("GetParents(after_split)", v.ID, []string{v.Parent}, ps)
			c.eq("GetParents(after_split).err", v.ID, nil, err)
			// Child(Parent(s), last bit of s) = s
			ppfx := pfx &^ (uint64(1) << uint(64-v.N))
			ps, err = parents(v.N-1, ppfx, "merge")
			if err == nil && len(ps) == 2 {
				c.eq("GetParents(after_merge) of parent", v.ID, v.ID, ps[v.LastBit])
			} else {
				c.eq("GetParents(after_merge) of parent", v.ID, nil, err)
			}
		}
		// Parent(Child(s, b)) = s for both children
		ps, err = parents(v.N+1, pfx, "split")
		c.eq("GetParents(after_split) of left child", v.ID, []string{v.Pl}, ps)
		c.eq("GetParents(after_split) of left child.err", v.ID, nil, err)
		ps, err = parents(v.N+1, pfx|(uint64(1)<<uint(63-v.N)), "split")
		c.eq("GetParents(after_split) of right child", v.ID, []string{v.Pr}, ps)
		c.eq("GetParents(after_split) of right child.err", v.ID, nil, err)
	case "shardzero":
		_, err := ton.ParseShardID(int64(u64(v.ID)))
		want := "e"
		if v.Valid {
			want = ""
		}
		c.eq("ParseShardID.err", v.ID, want, ev.ErrClass(err))
	case "adnl":
		c.eq("ADNLAddressToBase32", v.Addr, v.Text, adnlText(v.Addr))
		got, err := adnlParse(v.Text)
		c.eq("ParseADNLAddress.err", v.Text, nil, err)
		c.eq("ParseADNLAddress", v.Text, v.Back.Addr, got)
		c.eq("spec: decode(encode)", v.Text, v.Addr, v.Back.Addr)
	default:
		return nil, fmt.Errorf("unknown vector kind %q", v.K)
	}
	return c, nil
}

// Replay runs every vector of `in` and writes one result line per vector:
// {"vec":n,"k":..,"cl":..,"match":bool,"calls":n,"fails":[{fn,in,exp,got}]}.
func Replay(in string, w *ev.Writer) error {
	f, err := os.Open(in)
	if err != nil {
		return err
	}
	defer f.Close()
	sc := bufio.NewScanner(f)
	sc.Buffer(make([]byte, 1<<20), 1<<26)
	n := 0
	for sc.Scan() {
		var v vector
		if err := json.Unmarshal(sc.Bytes(), &v); err != nil {
			return fmt.Errorf("vector line %d: %v", n+1, err)
		}
		n++
		c, err := func() (c *checker, err error) {
			defer func() {
				if r := recover(); r != nil {
					c = &checker{fails: []fail{{"panic", "", "no panic", fmt.Sprint(r)}}}
				}
			}()
			return replayOne(&v)
		}()
		if err != nil {
			return fmt.Errorf("vector %d: %v", v.Vec, err)
		}
		m := ev.M{"vec": v.Vec, "k": v.K, "cl": v.Cl, "match": len(c.fails) == 0, "calls": c.calls}
		if len(c.fails) > 0 {
			m["fails"] = c.fails
		}
		if len(c.obs) > 0 {
			m["obs"] = c.obs
		}
		w.Emit(m)
	}
	w.Emit(ev.M{"k": "End", "events": n})
	return sc.Err()
}

var _ = strconv.Itoa
