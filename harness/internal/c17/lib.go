// Package c17 binds spec/Addr.tla to the address / shard code of the library: replay.go runs
// TLC-generated vectors through every conversion function (S->C), drive.go records calls on
// random inputs as NDJSON events judged by spec/trace/Addr_Trace.tla (C->S).
// This file holds the thin wrappers around the library calls; they convert between the
// exchange format (decimal workchain, hex id, "0101" bit strings) and Go values and recover panics.
package c17

import (
	"bufio"
	"bytes"
	"context"
	"encoding/hex"
	"encoding/json"
	"errors"
	"fmt"
	"io"
	"strconv"
	"strings"
	"testing/iotest"

	"github.com/tonkeeper/tongo"
	"github.com/tonkeeper/tongo/boc"
	"github.com/tonkeeper/tongo/liteclient"
	"github.com/tonkeeper/tongo/tl"
	"github.com/tonkeeper/tongo/tlb"
	"github.com/tonkeeper/tongo/ton"
)

// Acct is an account in exchange form.
type Acct struct {
	Wc   string
	Hash string
}

func acctOf(id ton.AccountID) Acct {
	return Acct{Wc: strconv.FormatInt(int64(id.Workchain), 10), Hash: hex.EncodeToString(id.Address[:])}
}

func mkID(wc, hash string) (ton.AccountID, error) {
	w, err := strconv.ParseInt(wc, 10, 32)
	if err != nil {
		return ton.AccountID{}, err
	}
	b, err := hex.DecodeString(hash)
	if err != nil || len(b) != 32 {
		return ton.AccountID{}, fmt.Errorf("bad id %q", hash)
	}
	var id ton.AccountID
	id.Workchain = int32(w)
	copy(id.Address[:], b)
	return id, nil
}

// guard runs f and turns a panic into an error of class "panic".
func guard(f func() (ton.AccountID, error)) (id ton.AccountID, err error, panicked string) {
	defer func() {
		if r := recover(); r != nil {
			err = fmt.Errorf("panic: %v", r)
			panicked = fmt.Sprint(r)
		}
	}()
	id, err = f()
	return
}

type failingResolver struct{}

func (failingResolver) Resolve(context.Context, string) ([]tlb.DNSRecord, error) {
	return nil, errors.New("verif: no dns")
}

var rootParser = tongo.NewAccountAddressParser(failingResolver{})

// textParsers: every function of the library that takes an account in text form.
// judge: which decoder of the specification decides it ("rw" raw, "fr" friendly, "an" either).
type textParser struct {
	Name  string
	Judge string
	Call  func(s string) (ton.AccountID, error)
	// Applies reports whether the function can be handed s (JSON quoting, DNS names).
	Applies func(s string) bool
}

func always(string) bool { return true }

func jsonSafe(s string) bool {
	for i := 0; i < len(s); i++ {
		if s[i] < 32 || s[i] > 126 || s[i] == '"' || s[i] == '\\' {
			return false
		}
	}
	return true
}

var textParsers = []textParser{
	{"AccountIDFromRaw", "rw", ton.AccountIDFromRaw, always},
	{"AccountIDFromBase64Url", "fr", ton.AccountIDFromBase64Url, always},
	{"ParseAccountID", "an", ton.ParseAccountID, always},
	{"MustParseAccountID", "an", func(s string) (id ton.AccountID, err error) {
		defer func() {
			if r := recover(); r != nil {
				err = fmt.Errorf("%v", r)
			}
		}()
		return ton.MustParseAccountID(s), nil
	}, always},
	{"UnmarshalJSON", "an", func(s string) (ton.AccountID, error) {
		var id ton.AccountID
		err := json.Unmarshal([]byte(`"`+s+`"`), &id)
		return id, err
	}, jsonSafe},
	{"tongo.ParseAddress", "an", func(s string) (ton.AccountID, error) {
		a, err := rootParser.ParseAddress(context.Background(), s)
		return a.ID, err
	}, func(s string) bool { return !strings.Contains(s, ".") }},
}

// ---------------------------------------------------------------- TL

// chunkReader hands out the given chunks one read call at a time (never more than one chunk per
// call, never an error together with data); a caller's smaller buffer gets the chunk in pieces.
type chunkReader struct{ chunks [][]byte }

func (c *chunkReader) Read(p []byte) (int, error) {
	for len(c.chunks) > 0 && len(c.chunks[0]) == 0 {
		c.chunks = c.chunks[1:]
	}
	if len(c.chunks) == 0 {
		return 0, io.EOF
	}
	if len(p) == 0 {
		return 0, nil
	}
	n := copy(p, c.chunks[0])
	c.chunks[0] = c.chunks[0][n:]
	return n, nil
}

// tlReaders: the deliveries of a TL byte stream the decoders are run over.
var tlReaderKinds = []string{"bytes", "one", "half", "dataerr", "bufio16"}

func tlReader(kind string, b []byte, chunks [][]byte) io.Reader {
	switch kind {
	case "bytes":
		return bytes.NewReader(b)
	case "one":
		return iotest.OneByteReader(bytes.NewReader(b))
	case "half":
		return iotest.HalfReader(bytes.NewReader(b))
	case "dataerr":
		return iotest.DataErrReader(bytes.NewReader(b))
	case "bufio16":
		return bufio.NewReaderSize(bytes.NewReader(b), 16)
	case "split":
		cp := make([][]byte, len(chunks))
		for i := range chunks {
			cp[i] = append([]byte{}, chunks[i]...)
		}
		return &chunkReader{cp}
	}
	panic("unknown reader kind " + kind)
}

// tlDecodeN reads n account ids one after the other from ONE stream, directly (generic=false)
// or through tl.Unmarshal. After the first error the remaining ids are reported as errors too.
func tlDecodeN(r io.Reader, n int, generic bool) ([]ton.AccountID, []error) {
	ids, errs := make([]ton.AccountID, n), make([]error, n)
	for i := 0; i < n; i++ {
		if i > 0 && errs[i-1] != nil {
			errs[i] = errs[i-1]
			continue
		}
		func() {
			defer func() {
				if rec := recover(); rec != nil {
					errs[i] = fmt.Errorf("panic: %v", rec)
				}
			}()
			if generic {
				errs[i] = tl.Unmarshal(r, &ids[i])
			} else {
				errs[i] = ids[i].UnmarshalTL(r)
			}
		}()
	}
	return ids, errs
}

func tlDecodeVia(kind string, b []byte, generic bool) (ton.AccountID, error) {
	ids, errs := tlDecodeN(tlReader(kind, b, nil), 1, generic)
	return ids[0], errs[0]
}

func tlDecode(b []byte) (ton.AccountID, error)        { return tlDecodeVia("bytes", b, false) }
func tlDecodeGeneric(b []byte) (ton.AccountID, error) { return tlDecodeVia("bytes", b, true) }

// ---------------------------------------------------------------- TL-B

func cellFromBits(bits string) (*boc.Cell, error) {
	c := boc.NewCell()
	for i := 0; i < len(bits); i++ {
		if err := c.WriteBit(bits[i] == '1'); err != nil {
			return nil, err
		}
	}
	return c, nil
}

func cellBits(c *boc.Cell) string {
	b := c.RawBitString()
	return b.BinaryString()
}

// StdAddr is an addr_std in exchange form: depth 0 = no anycast, P = rewrite_pfx as D bits.
type StdAddr struct {
	D    int
	P    string
	Wc8  string
	Addr string
}

func (a StdAddr) msgAddress() (tlb.MsgAddress, error) {
	w, err := strconv.ParseInt(a.Wc8, 10, 8)
	if err != nil {
		return tlb.MsgAddress{}, err
	}
	h, err := hex.DecodeString(a.Addr)
	if err != nil || len(h) != 32 {
		return tlb.MsgAddress{}, fmt.Errorf("bad address")
	}
	m := tlb.MsgAddress{SumType: "AddrStd"}
	m.AddrStd.WorkchainId = int8(w)
	copy(m.AddrStd.Address[:], h)
	if a.D > 0 {
		p, err := strconv.ParseUint(a.P, 2, 32)
		if err != nil || len(a.P) != a.D {
			return tlb.MsgAddress{}, fmt.Errorf("bad rewrite prefix")
		}
		m.AddrStd.Anycast.Exists = true
		m.AddrStd.Anycast.Value = tlb.Anycast{Depth: uint32(a.D), RewritePfx: uint32(p)}
	}
	return m, nil
}

func stdAddrOf(m tlb.MsgAddress) StdAddr {
	a := StdAddr{Wc8: strconv.Itoa(int(m.AddrStd.WorkchainId)), Addr: hex.EncodeToString(m.AddrStd.Address[:])}
	if m.AddrStd.Anycast.Exists {
		a.D = int(m.AddrStd.Anycast.Value.Depth)
		if a.D >= 1 && a.D <= 32 {
			p := strconv.FormatUint(uint64(m.AddrStd.Anycast.Value.RewritePfx), 2)
			for len(p) < a.D {
				p = "0" + p
			}
			a.P = p
		} else {
			a.P = "?"
		}
	}
	return a
}

func tlbEncode(m tlb.MsgAddress) (bits string, err error) {
	defer func() {
		if r := recover(); r != nil {
			err = fmt.Errorf("panic: %v", r)
		}
	}()
	c := boc.NewCell()
	if err := tlb.Marshal(c, m); err != nil {
		return "", err
	}
	return cellBits(c), nil
}

// tlbDecode parses an addr_std from the bit string of a cell and converts it to an account.
func tlbDecode(bits string) (m tlb.MsgAddress, id *ton.AccountID, err error) {
	defer func() {
		if r := recover(); r != nil {
			err = fmt.Errorf("panic: %v", r)
		}
	}()
	c, err := cellFromBits(bits)
	if err != nil {
		return m, nil, err
	}
	if err = tlb.Unmarshal(c, &m); err != nil {
		return m, nil, err
	}
	id, err = ton.AccountIDFromTlb(m)
	return m, id, err
}

// ---------------------------------------------------------------- shards

func u64(bits string) uint64 {
	v, err := strconv.ParseUint(bits, 2, 64)
	if err != nil || len(bits) != 64 {
		panic("bad 64-bit string " + bits)
	}
	return v
}

func b64(v uint64) string {
	s := strconv.FormatUint(v, 2)
	return strings.Repeat("0", 64-len(s)) + s
}

// parents calls ton.GetParents for a block of the shard denoted by (n, prefix) in the given mode
// ("same": neither flag, "split": after_split, "merge": after_merge) and returns the shard ids.
func parents(n int, prefix uint64, mode string) ([]string, error) {
	var bi tlb.BlockInfo
	bi.Shard = tlb.ShardIdent{ShardPfxBits: tlb.Uint6(n), WorkchainID: 0, ShardPrefix: prefix}
	switch mode {
	case "merge":
		bi.AfterMerge = true
		bi.PrevRef.SumType = "PrevBlksInfo"
		bi.PrevRef.PrevBlksInfo = &struct {
			Prev1 tlb.ExtBlkRef
			Prev2 tlb.ExtBlkRef
		}{}
	case "split":
		bi.AfterSplit = true
		fallthrough
	default:
		bi.PrevRef.SumType = "PrevBlkInfo"
		bi.PrevRef.PrevBlkInfo = &struct{ Prev tlb.ExtBlkRef }{}
	}
	ps, err := ton.GetParents(bi)
	if err != nil {
		return nil, err
	}
	out := make([]string, len(ps))
	for i, p := range ps {
		out[i] = b64(p.Shard)
	}
	return out, nil
}

// ---------------------------------------------------------------- ADNL

func adnlText(addrHex string) string {
	var a ton.Bits256
	b, _ := hex.DecodeString(addrHex)
	copy(a[:], b)
	return liteclient.ADNLAddressToBase32(a)
}

func adnlParse(s string) (string, error) {
	a, err := liteclient.ParseADNLAddress(s)
	return hex.EncodeToString(a[:]), err
}
