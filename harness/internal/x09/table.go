package x09

import "github.com/tonkeeper/tongo/tlb"

// The table of the library's get-method functions (schema name -> abi.GetXxx) and result decoders (layout name ->
// abi.DecodeXxxResult). checks/x09.py generates the real table from the names in abi/schemas/*.xml (CamelCase rule) at check time
// and compiles it in place of this file with `go build -overlay`, so that it is checked against the tree under test; this
// placeholder keeps the package buildable on its own.
var Funcs = map[string]any{}

var Decoders = map[string]func(tlb.VmStack) (string, any, error){}
