// Package x09 drives the get-method layer of package abi (GetXxx / DecodeXxxResult, generated from abi/schemas/*.xml) for X09.
// It calls every exported function by reflection with a recording executor that returns the scripted answer, calls every
// result decoder of the method on the same stack, and records what came back; every judgement is made by TLC
// (spec/GetMethodAbi.tla through spec/trace/GetMethodAbi_Trace.tla).
package x09

import (
	"bufio"
	"bytes"
	"context"
	"encoding/json"
	"fmt"
	"io"
	"math/big"
	"os"
	"reflect"
	"strconv"
	"strings"

	"github.com/tonkeeper/tongo/boc"
	"github.com/tonkeeper/tongo/tlb"
	"github.com/tonkeeper/tongo/ton"

	"verifharness/internal/ev"
	"verifharness/internal/tlbx"
)

// ------------------------------------------------------------------------------------------------ stack values
// values travel in the JSON shape of spec/VmStackApi.tla (see harness/internal/c03/vmstack_val.go)

type vmVal struct {
	T  string          `json:"t"`
	V  string          `json:"v"`
	C  json.RawMessage `json:"c"`
	Sb int             `json:"sb"`
	Eb int             `json:"eb"`
	Sr int             `json:"sr"`
	Er int             `json:"er"`
	Es []vmVal         `json:"es"`
}

func cellOfRaw(raw json.RawMessage) (*boc.Cell, error) {
	var j any
	if err := json.Unmarshal(raw, &j); err != nil {
		return nil, err
	}
	return tlbx.CellOfTree(j)
}

// tuple builds vm_stk_tuple per block.tlb: VmTuple (n+1) = head:(VmTupleRef n) tail:^VmStackValue; VmTupleRef 0 = nothing,
// VmTupleRef 1 = entry:^VmStackValue, VmTupleRef (n+2) = ref:^(VmTuple (n+2)).
func tupleBody(es []tlb.VmStackValue) *tlb.VmTuple {
	if len(es) == 0 {
		return nil
	}
	t := &tlb.VmTuple{Tail: es[len(es)-1]}
	switch rest := es[:len(es)-1]; len(rest) {
	case 0:
	case 1:
		e := rest[0]
		t.Head.Entry = &e
	default:
		t.Head.Ref = tupleBody(rest)
	}
	return t
}

func (v vmVal) build() (tlb.VmStackValue, error) {
	switch v.T {
	case "null":
		return tlb.VmStackValue{SumType: "VmStkNull"}, nil
	case "nan":
		return tlb.VmStackValue{SumType: "VmStkNan"}, nil
	case "tinyint":
		x, err := strconv.ParseInt(v.V, 10, 64)
		return tlb.VmStackValue{SumType: "VmStkTinyInt", VmStkTinyInt: x}, err
	case "int":
		b, ok := new(big.Int).SetString(v.V, 10)
		if !ok {
			return tlb.VmStackValue{}, fmt.Errorf("bad integer %q", v.V)
		}
		return tlb.VmStackValue{SumType: "VmStkInt", VmStkInt: tlb.Int257(*b)}, nil
	case "cell", "builder", "slice":
		c, err := cellOfRaw(v.C)
		if err != nil {
			return tlb.VmStackValue{}, err
		}
		switch v.T {
		case "cell":
			return tlb.VmStackValue{SumType: "VmStkCell", VmStkCell: tlb.Ref[boc.Cell]{Value: *c}}, nil
		case "builder":
			return tlb.VmStackValue{SumType: "VmStkBuilder", VmStkBuilder: tlb.Ref[boc.Cell]{Value: *c}}, nil
		}
		if v.Sb != 0 || v.Sr != 0 || v.Eb != c.BitSize() || v.Er != c.RefsSize() {
			return tlb.VmStackValue{}, fmt.Errorf("a slice with a window smaller than its cell has no constructor")
		}
		return tlb.CellToVmCellSlice(c)
	case "tuple":
		es := make([]tlb.VmStackValue, 0, len(v.Es))
		for _, e := range v.Es {
			x, err := e.build()
			if err != nil {
				return tlb.VmStackValue{}, err
			}
			es = append(es, x)
		}
		return tlb.VmStackValue{SumType: "VmStkTuple", VmStkTuple: tlb.VmStkTuple{Len: uint16(len(es)), Data: tupleBody(es)}}, nil
	}
	return tlb.VmStackValue{}, fmt.Errorf("value of kind %q has no constructor", v.T)
}

func buildStack(vs []vmVal) (tlb.VmStack, error) {
	s := make(tlb.VmStack, 0, len(vs))
	for _, v := range vs {
		x, err := v.build()
		if err != nil {
			return nil, err
		}
		s = append(s, x)
	}
	return s, nil
}

func tupleItems(n int, t *tlb.VmTuple, out *[]string) {
	if n == 0 {
		return
	}
	if t == nil {
		*out = append(*out, "?nil")
		return
	}
	switch {
	case n-1 == 0:
	case n-1 == 1:
		if t.Head.Entry == nil {
			*out = append(*out, "?nil")
		} else {
			*out = append(*out, vmText(*t.Head.Entry))
		}
	default:
		tupleItems(n-1, t.Head.Ref, out)
	}
	*out = append(*out, vmText(t.Tail))
}

// vmText is VmStackApi!Text of a Go stack value.
func vmText(v tlb.VmStackValue) (s string) {
	defer func() {
		if p := recover(); p != nil {
			s = "?panic:" + fmt.Sprint(p)
		}
	}()
	switch v.SumType {
	case "VmStkNull":
		return "nil"
	case "VmStkNan":
		return "nan"
	case "VmStkCont":
		return "cont"
	case "VmStkTinyInt":
		return "tiny:" + strconv.FormatInt(v.VmStkTinyInt, 10)
	case "VmStkInt":
		b := big.Int(v.VmStkInt)
		return "int:" + b.String()
	case "VmStkCell":
		return "cell:" + tlbx.TreeText(&v.VmStkCell.Value)
	case "VmStkBuilder":
		return "builder:" + tlbx.TreeText(&v.VmStkBuilder.Value)
	case "VmStkSlice":
		return "slice:" + tlbx.TreeText(v.VmStkSlice.Cell())
	case "VmStkTuple":
		es := []string{}
		tupleItems(int(v.VmStkTuple.Len), v.VmStkTuple.Data, &es)
		return "tuple(" + strings.Join(es, ",") + ")"
	}
	return "?" + string(v.SumType)
}

// ------------------------------------------------------------------------------------------------ arguments

type addrDesc struct {
	Ctor string `json:"ctor"`
	Wc   string `json:"wc"`
	Addr string `json:"addr"`
}

type argDesc struct {
	T string          `json:"t"`
	V string          `json:"v"`
	S addrDesc        `json:"s"`
	C json.RawMessage `json:"c"`
}

var (
	tBig      = reflect.TypeOf(big.Int{})
	tBits256  = reflect.TypeOf(tlb.Bits256{})
	tMsgAddr  = reflect.TypeOf(tlb.MsgAddress{})
	tCell     = reflect.TypeOf(boc.Cell{})
	tAny      = reflect.TypeOf(tlb.Any{})
	errSig    = fmt.Errorf("the function's parameter cannot take the argument the schema declares")
	accountID = ton.AccountID{Workchain: 0, Address: [32]byte{9, 8, 7, 6, 5, 4, 3, 2, 1}}
)

func msgAddress(d addrDesc) (tlb.MsgAddress, error) {
	if d.Ctor == "none" {
		return tlb.MsgAddress{SumType: "AddrNone"}, nil
	}
	wc, err := strconv.ParseInt(d.Wc, 10, 8)
	if err != nil || len(d.Addr) != 64 {
		return tlb.MsgAddress{}, fmt.Errorf("bad address description")
	}
	a := tlb.MsgAddress{SumType: "AddrStd"}
	a.AddrStd.WorkchainId = int8(wc)
	for i := 0; i < 32; i++ {
		b, err := strconv.ParseUint(d.Addr[2*i:2*i+2], 16, 8)
		if err != nil {
			return tlb.MsgAddress{}, err
		}
		a.AddrStd.Address[i] = byte(b)
	}
	return a, nil
}

func isBigStruct(t reflect.Type) bool {
	return t.Kind() == reflect.Struct && t != tBig && t.ConvertibleTo(tBig) && t.PkgPath() == tBits256.PkgPath()
}

// argValue builds the Go value of parameter type t from the description; errSig when t cannot hold such an argument.
func argValue(t reflect.Type, d argDesc) (reflect.Value, error) {
	switch d.T {
	case "num":
		b, ok := new(big.Int).SetString(d.V, 10)
		if !ok {
			return reflect.Value{}, fmt.Errorf("bad number %q", d.V)
		}
		v := reflect.New(t).Elem()
		switch {
		case isBigStruct(t):
			v.Set(reflect.ValueOf(*b).Convert(t))
		case reflect.Int <= t.Kind() && t.Kind() <= reflect.Int64:
			if !b.IsInt64() || v.OverflowInt(b.Int64()) {
				return reflect.Value{}, fmt.Errorf("%s does not fit %s", d.V, t)
			}
			v.SetInt(b.Int64())
		case reflect.Uint <= t.Kind() && t.Kind() <= reflect.Uint64:
			if !b.IsUint64() || v.OverflowUint(b.Uint64()) {
				return reflect.Value{}, fmt.Errorf("%s does not fit %s", d.V, t)
			}
			v.SetUint(b.Uint64())
		default:
			return reflect.Value{}, errSig
		}
		return v, nil
	case "addr":
		if t != tMsgAddr {
			return reflect.Value{}, errSig
		}
		a, err := msgAddress(d.S)
		return reflect.ValueOf(a), err
	case "raw", "cell":
		c, err := cellOfRaw(d.C)
		if err != nil {
			return reflect.Value{}, err
		}
		switch {
		case t == tCell:
			return reflect.ValueOf(*c), nil
		case t == tAny:
			return reflect.ValueOf(tlb.Any(*c)), nil
		case t.Kind() == reflect.Slice && t.Elem().Kind() == reflect.Uint8:
			if c.BitSize()%8 != 0 || c.RefsSize() != 0 {
				return reflect.Value{}, fmt.Errorf("byte string of %d bits", c.BitSize())
			}
			c.ResetCounters()
			bs, err := c.ReadBytes(c.BitSize() / 8)
			if err != nil {
				return reflect.Value{}, err
			}
			if bs == nil {
				bs = []byte{}
			}
			return reflect.ValueOf(bs).Convert(t), nil
		}
		// any other TL-B type: the value whose serialisation the description gives
		p := reflect.New(t)
		if err := tlb.Unmarshal(c, p.Interface()); err != nil {
			return reflect.Value{}, fmt.Errorf("the argument's serialisation is not read as %s: %w", t, err)
		}
		return p.Elem(), nil
	}
	return reflect.Value{}, fmt.Errorf("unknown argument description %q", d.T)
}

// ------------------------------------------------------------------------------------------------ results

func addrText(p tlb.MsgAddress) string {
	switch p.SumType {
	case "AddrNone":
		return "MsgAddress:none"
	case "AddrStd":
		if p.AddrStd.Anycast.Exists {
			return "MsgAddress:?anycast"
		}
		return "MsgAddress:std:" + strconv.Itoa(int(p.AddrStd.WorkchainId)) + ":" + p.AddrStd.Address.Hex()
	}
	return "MsgAddress:?" + string(p.SumType)
}

// fieldText is the canonical text of one filled destination (GetMethodAbi!ReadTo's "val").
func fieldText(v reflect.Value) string {
	t := v.Type()
	switch {
	case t == tBits256:
		var sb strings.Builder
		sb.WriteString("x")
		for i := 0; i < v.Len(); i++ {
			fmt.Fprintf(&sb, "%02x", v.Index(i).Uint())
		}
		return sb.String()
	case t == tMsgAddr:
		return addrText(v.Interface().(tlb.MsgAddress))
	case t == tCell:
		c := v.Interface().(boc.Cell)
		return "cell:" + tlbx.TreeText(&c)
	case t == tAny:
		c := boc.Cell(v.Interface().(tlb.Any))
		return "cell:" + tlbx.TreeText(&c)
	case isBigStruct(t):
		b := v.Convert(tBig).Interface().(big.Int)
		return b.String()
	}
	switch v.Kind() {
	case reflect.Int, reflect.Int8, reflect.Int16, reflect.Int32, reflect.Int64:
		return strconv.FormatInt(v.Int(), 10)
	case reflect.Uint, reflect.Uint8, reflect.Uint16, reflect.Uint32, reflect.Uint64:
		return strconv.FormatUint(v.Uint(), 10)
	case reflect.Bool:
		return strconv.FormatBool(v.Bool())
	case reflect.Pointer:
		if v.IsNil() {
			return "nil"
		}
		return "&" + fieldText(v.Elem())
	case reflect.Struct:
		if t.Name() == "" {
			fs := make([]string, v.NumField())
			for i := range fs {
				fs[i] = fieldText(v.Field(i))
			}
			return "{" + strings.Join(fs, ",") + "}"
		}
	case reflect.Slice:
		if t.Elem().Kind() != reflect.Uint8 {
			fs := make([]string, v.Len())
			for i := range fs {
				fs[i] = fieldText(v.Index(i))
			}
			return "[" + strings.Join(fs, ",") + "]"
		}
	}
	return "?" + t.String()
}

// outcome of one decoder / one call: {"res": "ok" | "err" | "panic", "layout", "ty", "fields"}
func outcome(f func() (string, any, error)) (m ev.M) {
	m = ev.M{"res": "ok", "layout": "", "ty": "", "fields": []string{}}
	defer func() {
		if p := recover(); p != nil {
			m = ev.M{"res": "panic", "layout": "", "ty": "", "fields": []string{}, "panic": fmt.Sprint(p)}
		}
	}()
	name, res, err := f()
	if err != nil {
		m["res"] = "err"
		m["msg"] = err.Error()
		return m
	}
	m["layout"] = name
	v := reflect.ValueOf(res)
	if !v.IsValid() {
		m["ty"] = "?nil"
		return m
	}
	m["ty"] = v.Type().Name()
	if v.Kind() == reflect.Struct {
		fs := make([]string, v.NumField())
		for i := range fs {
			fs[i] = fieldText(v.Field(i))
		}
		m["fields"] = fs
	} else {
		m["ty"] = "?" + v.Type().String()
	}
	return m
}

// ------------------------------------------------------------------------------------------------ the executor

// recorder stands for the blockchain: it writes down what it is asked and returns the scripted answer.
type recorder struct {
	calls  int
	id     int
	acct   ton.AccountID
	params []string
	exit   uint32
	stack  tlb.VmStack
	err    error
}

func (r *recorder) RunSmcMethodByID(ctx context.Context, a ton.AccountID, id int, params tlb.VmStack) (uint32, tlb.VmStack, error) {
	r.calls++
	r.id, r.acct = id, a
	r.params = make([]string, 0, len(params))
	for _, p := range params {
		r.params = append(r.params, vmText(p))
	}
	return r.exit, r.stack, r.err
}

// ------------------------------------------------------------------------------------------------ replay

type vcase struct {
	Cls   string          `json:"cls"`
	Args  []argDesc       `json:"args"`
	RArgs json.RawMessage `json:"-"`
	Exit  string          `json:"exit"`
	Xerr  bool            `json:"xerr"`
	Stack []vmVal         `json:"stack"`
}

type vmethod struct {
	Method  string            `json:"method"`
	Layouts []string          `json:"layouts"`
	Cases   []json.RawMessage `json:"cases"`
}

var (
	tCtx  = reflect.TypeOf((*context.Context)(nil)).Elem()
	tAcct = reflect.TypeOf(ton.AccountID{})
)

func runCase(w *ev.Writer, m vmethod, idx int, raw json.RawMessage) error {
	var c vcase
	if err := json.Unmarshal(raw, &c); err != nil {
		return fmt.Errorf("bad case: %w", err)
	}
	var echo struct {
		Args  json.RawMessage `json:"args"`
		Stack json.RawMessage `json:"stack"`
	}
	json.Unmarshal(raw, &echo)
	w.Emit(ev.M{"k": "Begin", "method": m.Method, "case": idx, "cls": c.Cls})
	e := ev.M{"k": "Call", "method": m.Method, "case": idx, "cls": c.Cls, "args": echo.Args, "exit": c.Exit, "xerr": c.Xerr, "stack": echo.Stack,
		"present": false, "calls": 0, "gotid": 0, "acct": false, "params": []string{},
		"out": ev.M{"res": "na", "layout": "", "ty": "", "fields": []string{}}}
	exit, err := strconv.ParseUint(c.Exit, 10, 32)
	if err != nil {
		return fmt.Errorf("bad exit code %q", c.Exit)
	}
	if _, err := buildStack(c.Stack); err != nil {
		return fmt.Errorf("method %s case %d: the result stack cannot be built: %w", m.Method, idx, err)
	}
	fresh := func() tlb.VmStack { s, _ := buildStack(c.Stack); return s }
	// every decoder of the method on the same stack
	decs := make([]ev.M, 0, len(m.Layouts))
	for _, ln := range m.Layouts {
		d, ok := Decoders[ln]
		if !ok {
			decs = append(decs, ev.M{"name": ln, "res": "missing", "layout": "", "ty": "", "fields": []string{}})
			continue
		}
		o := outcome(func() (string, any, error) { return d(fresh()) })
		o["name"] = ln
		decs = append(decs, o)
	}
	e["decs"] = decs
	// the call
	if fn, ok := Funcs[m.Method]; ok {
		e["present"] = true
		fv := reflect.ValueOf(fn)
		ft := fv.Type()
		sigOK := ft.Kind() == reflect.Func && ft.NumIn() == 3+len(c.Args) && ft.NumOut() == 3 && ft.In(0) == tCtx && ft.In(2) == tAcct
		in := []reflect.Value{}
		rec := &recorder{exit: uint32(exit), stack: fresh()}
		if c.Xerr {
			rec.err = fmt.Errorf("scripted executor error")
		}
		if sigOK {
			in = append(in, reflect.ValueOf(context.Background()), reflect.ValueOf(rec), reflect.ValueOf(accountID))
			for i, a := range c.Args {
				v, err := argValue(ft.In(3+i), a)
				if err == errSig {
					sigOK = false
					break
				}
				if err != nil {
					return fmt.Errorf("method %s case %d argument %d: %w", m.Method, idx, i, err)
				}
				in = append(in, v)
			}
		}
		if !sigOK {
			e["out"] = ev.M{"res": "signature", "layout": "", "ty": "", "fields": []string{}, "msg": ft.String()}
		} else {
			e["out"] = outcome(func() (string, any, error) {
				out := fv.Call(in)
				var err error
				if !out[2].IsNil() {
					err = out[2].Interface().(error)
				}
				var res any
				if out[1].IsValid() && !(out[1].Kind() == reflect.Interface && out[1].IsNil()) {
					res = out[1].Interface()
				}
				return out[0].String(), res, err
			})
			e["calls"], e["gotid"], e["acct"] = rec.calls, rec.id, rec.acct == accountID
			if rec.params != nil {
				e["params"] = rec.params
			}
		}
	}
	w.Emit(e)
	return nil
}

// Replay (S->C and C->S): every case of every method of the generated vectors through the real code.
func Replay(in string, w *ev.Writer) error {
	w.Sync = true
	f, err := os.Open(in)
	if err != nil {
		return err
	}
	defer f.Close()
	rd := bufio.NewReaderSize(f, 1<<20)
	n := 0
	for {
		line, err := rd.ReadBytes('\n')
		if len(bytes.TrimSpace(line)) > 0 {
			var m vmethod
			if e := json.Unmarshal(line, &m); e != nil {
				return fmt.Errorf("bad vector: %w", e)
			}
			for i, c := range m.Cases {
				if e := runCase(w, m, i, c); e != nil {
					return e
				}
				n++
			}
		}
		if err == io.EOF {
			break
		}
		if err != nil {
			return err
		}
	}
	w.Emit(ev.M{"k": "End", "events": n})
	return nil
}
