// Package x05 drives the pure helpers of tongo/utils and tongo/ton (CRC, get-method ids, amounts, block id and 256-bit
// text forms) for X05.  It only calls the real code and records inputs and outputs; every judgement is made by TLC
// (spec/TextForms.tla, spec/trace/TextForms_Trace.tla) or by the runner against TLC-generated expectations.
// Every text travels as the hex of its bytes.
package x05

import (
	"bufio"
	"bytes"
	"encoding/hex"
	"encoding/json"
	"fmt"
	"io"
	mrand "math/rand"
	"os"
	"sort"
	"strconv"

	"github.com/tonkeeper/tongo/code"
	"github.com/tonkeeper/tongo/ton"
	"github.com/tonkeeper/tongo/utils"

	"verifharness/internal/ev"
)

type Opts struct {
	Tier          string
	Seed          int64
	Shard, Shards int
}

func hx(b []byte) string { return hex.EncodeToString(b) }
func hs(s string) string { return hex.EncodeToString([]byte(s)) }
func unhex(s string) []byte {
	b, err := hex.DecodeString(s)
	if err != nil {
		panic(err)
	}
	return b
}

// guard runs f and turns a panic into the "panic" field of the record (no trace spec accepts a line with one).
func guard(e ev.M, f func()) {
	e["panic"] = ""
	defer func() {
		if r := recover(); r != nil {
			e["panic"] = fmt.Sprint(r)
		}
	}()
	f()
}

func emit(w *ev.Writer, e ev.M, extra ev.M) {
	for k, v := range extra {
		e[k] = v
	}
	w.Emit(e)
}

// ---------------------------------------------------------------------------------------------------- calls
func Crc(w *ev.Writer, data []byte, extra ev.M) {
	w.Emit(ev.M{"k": "Begin", "what": "crc"})
	e := ev.M{"k": "Crc", "data": hx(data), "c16": -1, "c16s": -1, "c32": "", "mid": -1}
	guard(e, func() {
		e["c16"] = int(utils.Crc16(data))
		e["c16s"] = int(utils.Crc16String(string(data)))
		e["c32"] = strconv.FormatUint(uint64(utils.Crc32String(string(data))), 10)
		e["mid"] = utils.MethodIdFromName(string(data))
	})
	emit(w, e, extra)
}

func Coins(w *ev.Writer, amount int64, extra ev.M) {
	w.Emit(ev.M{"k": "Begin", "what": "coins", "amount": strconv.FormatInt(amount, 10)})
	e := ev.M{"k": "Coins", "amount": strconv.FormatInt(amount, 10), "out": ""}
	guard(e, func() { e["out"] = hs(utils.HumanFriendlyCoinsRepr(amount)) })
	emit(w, e, extra)
}

func idRec(id ton.BlockID, err error) ev.M {
	return ev.M{"err": ev.ErrClass(err), "wc": strconv.FormatInt(int64(id.Workchain), 10), "shard": fmt.Sprintf("%016x", id.Shard),
		"seqno": strconv.FormatUint(uint64(id.Seqno), 10)}
}

func parseID(s string) ev.M {
	r := ev.M{}
	guard(r, func() {
		id, err := ton.ParseBlockID(s)
		for k, v := range idRec(id, err) {
			r[k] = v
		}
	})
	if r["panic"] != "" {
		r["err"], r["wc"], r["shard"], r["seqno"] = "p", "", "", ""
	}
	return r
}

func Blk(w *ev.Writer, wc int32, shard uint64, seqno uint32, root, file [32]byte, extra ev.M) {
	w.Emit(ev.M{"k": "Begin", "what": "blk"})
	id := ton.BlockID{Workchain: wc, Shard: shard, Seqno: seqno}
	ext := ton.BlockIDExt{BlockID: id, RootHash: ton.Bits256(root), FileHash: ton.Bits256(file)}
	e := idRec(id, nil)
	delete(e, "err")
	e["k"], e["root"], e["file"] = "Blk", hx(root[:]), hx(file[:])
	guard(e, func() {
		str := id.String()
		e["str"] = hs(str)
		e["ext"] = hs(ext.String())
		e["back"] = parseID(str)
		e["back16"] = parseID(fmt.Sprintf("(%d,%016x,%d)", wc, shard, seqno))
		e["backmin"] = parseID("(" + strconv.FormatInt(int64(wc), 10) + "," + strconv.FormatUint(shard, 16) + "," + strconv.FormatUint(uint64(seqno), 10) + ")")
		tl, err := ext.MarshalTL()
		if err != nil {
			e["tl"] = ""
		} else {
			e["tl"] = hx(tl)
		}
		e["tlback"] = tlDec(tl)
	})
	emit(w, e, extra)
}

func tlDec(b []byte) ev.M {
	var x ton.BlockIDExt
	err := x.UnmarshalTL(b)
	r := idRec(x.BlockID, err)
	r["root"], r["file"] = hx(x.RootHash[:]), hx(x.FileHash[:])
	return r
}

func BlkParse(w *ev.Writer, s []byte, extra ev.M) {
	w.Emit(ev.M{"k": "Begin", "what": "blkparse", "s": hx(s)})
	e := parseID(string(s))
	e["k"], e["s"] = "BlkParse", hx(s)
	emit(w, e, extra)
}

func TlDec(w *ev.Writer, b []byte, extra ev.M) {
	w.Emit(ev.M{"k": "Begin", "what": "tldec", "bytes": hx(b)})
	e := ev.M{"k": "TlDec", "bytes": hx(b)}
	guard(e, func() {
		for k, v := range tlDec(b) {
			e[k] = v
		}
	})
	emit(w, e, extra)
}

// readers of 256-bit strings by name
func read256(fn string, s []byte) (r ev.M) {
	r = ev.M{"err": "p", "v": ""}
	defer func() {
		if x := recover(); x != nil {
			r = ev.M{"err": "p", "v": "", "panic": fmt.Sprint(x)}
		}
	}()
	var h ton.Bits256
	var err error
	switch fn {
	case "hex":
		err = h.FromHex(string(s))
	case "b64":
		err = h.FromBase64(string(s))
	case "url":
		err = h.FromBase64URL(string(s))
	case "any":
		err = h.FromUnknownString(string(s))
	case "parsehash":
		h, err = ton.ParseHash(string(s))
	case "json":
		err = h.UnmarshalJSON(s)
	case "json.std":
		err = json.Unmarshal(s, &h)
	case "bytes":
		err = h.FromBytes(s)
	default:
		panic("unknown reader " + fn)
	}
	if err != nil {
		return ev.M{"err": "e", "v": ""}
	}
	return ev.M{"err": "", "v": hx(h[:])}
}

func H256(w *ev.Writer, v [32]byte, url string, extra ev.M) {
	w.Emit(ev.M{"k": "Begin", "what": "h256"})
	h := ton.Bits256(v)
	e := ev.M{"k": "H256", "v": hx(v[:])}
	guard(e, func() {
		hexs, b64 := h.Hex(), h.Base64()
		js, err := h.MarshalJSON()
		if err != nil {
			js = nil
		}
		js2, err := json.Marshal(h)
		if err != nil || !bytes.Equal(js, js2) {
			js = nil
		}
		e["hex"], e["b64"], e["json"] = hs(hexs), hs(b64), hx(js)
		var backs [][]string
		add := func(name, fn string, s []byte) {
			r := read256(fn, s)
			backs = append(backs, []string{name, r["err"].(string), r["v"].(string)})
		}
		add("hex", "hex", []byte(hexs))
		add("hex0x", "hex", []byte("0x"+hexs))
		add("b64", "b64", []byte(b64))
		add("url", "url", []byte(url))
		add("any:hex", "any", []byte(hexs))
		add("any:b64", "any", []byte(b64))
		add("any:url", "any", []byte(url))
		add("parsehash:hex", "parsehash", []byte(hexs))
		add("json", "json", js)
		add("json.std", "json.std", js)
		add("bytes", "bytes", v[:])
		e["backs"] = backs
	})
	emit(w, e, extra)
}

func H256Parse(w *ev.Writer, fn string, s []byte, extra ev.M) {
	w.Emit(ev.M{"k": "Begin", "what": "h256parse", "fn": fn, "s": hx(s)})
	e := read256(fn, s)
	if _, ok := e["panic"]; !ok {
		e["panic"] = ""
	}
	e["k"], e["fn"], e["s"] = "H256Parse", fn, hx(s)
	emit(w, e, extra)
}

func FromBytes(w *ev.Writer, n int, extra ev.M) {
	r := read256("bytes", make([]byte, n))
	emit(w, ev.M{"k": "FromBytes", "n": n, "err": r["err"], "panic": ""}, extra)
}

// ---------------------------------------------------------------------------------------------------- replay
type idT struct {
	Wc    string `json:"wc"`
	Shard string `json:"shard"`
	Seqno string `json:"seqno"`
}

type vector struct {
	Vec    int    `json:"vec"`
	K      string `json:"k"`
	Data   string `json:"data"`
	Amount string `json:"amount"`
	ID     idT    `json:"id"`
	Root   string `json:"root"`
	File   string `json:"file"`
	S      string `json:"s"`
	V      string `json:"v"`
	URL    string `json:"url"`
	Bytes  string `json:"bytes"`
}

func arr32(h string) (a [32]byte) { copy(a[:], unhex(h)); return }

// Replay (S->C): every generated vector through the functions that take it; one or more records per vector, tagged "vec".
func Replay(in string, w *ev.Writer) error {
	w.Sync = true
	f, err := os.Open(in)
	if err != nil {
		return err
	}
	defer f.Close()
	rd := bufio.NewReaderSize(f, 1<<20)
	for {
		line, err := rd.ReadBytes('\n')
		if len(bytes.TrimSpace(line)) > 0 {
			var v vector
			if e := json.Unmarshal(line, &v); e != nil {
				return fmt.Errorf("bad vector: %w", e)
			}
			x := ev.M{"vec": v.Vec}
			switch v.K {
			case "crc":
				Crc(w, unhex(v.Data), x)
			case "coins":
				a, e := strconv.ParseInt(v.Amount, 10, 64)
				if e != nil {
					return fmt.Errorf("vector %d: %w", v.Vec, e)
				}
				Coins(w, a, x)
			case "blkfmt":
				wc, _ := strconv.ParseInt(v.ID.Wc, 10, 32)
				sh, _ := strconv.ParseUint(v.ID.Shard, 16, 64)
				sq, _ := strconv.ParseUint(v.ID.Seqno, 10, 32)
				Blk(w, int32(wc), sh, uint32(sq), arr32(v.Root), arr32(v.File), x)
			case "blkparse":
				BlkParse(w, unhex(v.S), x)
			case "tldec":
				TlDec(w, unhex(v.Bytes), x)
			case "h256":
				H256(w, arr32(v.V), string(unhex(v.URL)), x)
			case "h256parse":
				for _, fn := range []string{"hex", "b64", "url", "any", "parsehash", "json", "json.std"} {
					H256Parse(w, fn, unhex(v.S), x)
				}
			default:
				return fmt.Errorf("vector %d: unknown kind %q", v.Vec, v.K)
			}
		}
		if err == io.EOF {
			break
		}
		if err != nil {
			return err
		}
	}
	w.Emit(ev.M{"k": "End", "events": w.N})
	return nil
}

// ---------------------------------------------------------------------------------------------------- drive
const idAlphabet = "0123456789abcdefABCDEF-+,() x\n\t._:)(,,"
const hAlphabet = "0123456789abcdefABCDEFxXzZ+/-_= \n\"\\"

func mutate(r *mrand.Rand, s []byte, alphabet string) []byte {
	b := append([]byte{}, s...)
	for n := 1 + r.Intn(2); n > 0; n-- {
		c := alphabet[r.Intn(len(alphabet))]
		switch op := r.Intn(4); {
		case op == 0 && len(b) > 0:
			b[r.Intn(len(b))] = c
		case op == 1:
			i := r.Intn(len(b) + 1)
			b = append(b[:i], append([]byte{c}, b[i:]...)...)
		case op == 2 && len(b) > 0:
			i := r.Intn(len(b))
			b = append(b[:i], b[i+1:]...)
		case op == 3 && len(b) > 0:
			b = b[:r.Intn(len(b))]
		}
	}
	return b
}

// MethodTable records the hand-written table code.Methods (get-method id -> name), sorted by id.
func MethodTable(w *ev.Writer) {
	var ids []int64
	for id := range code.Methods {
		ids = append(ids, id)
	}
	sort.Slice(ids, func(i, j int) bool { return ids[i] < ids[j] })
	for _, id := range ids {
		w.Emit(ev.M{"k": "MethodTable", "name": hs(string(code.Methods[id])), "id": strconv.FormatInt(id, 10), "panic": ""})
	}
}

// Drive (C->S): random and boundary inputs through the real API.
func Drive(w *ev.Writer, o Opts) {
	w.Sync = true
	if o.Shard == 0 {
		MethodTable(w)
	}
	r := mrand.New(mrand.NewSource(o.Seed*1000003 + int64(o.Shard)*7919 + 23))
	n := 100
	if o.Tier == "thorough" {
		n = 2500
	}
	bytesN := func(k int) []byte { b := make([]byte, k); r.Read(b); return b }
	wcs := []int32{-2147483648, -2147483647, -65536, -256, -129, -128, -1, 0, 1, 127, 128, 255, 65535, 2147483646, 2147483647}
	seqs := []uint32{0, 1, 9, 10, 255, 256, 65535, 65536, 2147483647, 2147483648, 4294967294, 4294967295}
	for i := 0; i < n; i++ {
		// CRC and method ids
		switch i % 4 {
		case 0:
			Crc(w, bytesN(r.Intn(20)), nil)
		case 1:
			Crc(w, bytesN(r.Intn(200)), nil)
		case 2:
			name := make([]byte, 1+r.Intn(30))
			for j := range name {
				name[j] = "abcdefghijklmnopqrstuvwxyz_0123456789"[r.Intn(37)]
			}
			Crc(w, name, nil)
		default:
			if i%40 == 3 {
				Crc(w, bytesN(1000+r.Intn(1000)), nil)
			} else {
				Crc(w, bytesN(r.Intn(64)), nil)
			}
		}
		// amounts: uniform in the number of digits, with runs of zeros and nines
		for j := 0; j < 3; j++ {
			digits := 1 + r.Intn(19)
			s := make([]byte, digits)
			for k := range s {
				switch r.Intn(3) {
				case 0:
					s[k] = '0'
				case 1:
					s[k] = '9'
				default:
					s[k] = byte('0' + r.Intn(10))
				}
			}
			if s[0] == '0' {
				s[0] = byte('1' + r.Intn(9))
			}
			a, err := strconv.ParseInt(string(s), 10, 64)
			if err != nil {
				a = int64(r.Uint64() >> 1)
			}
			if j == 2 && i%5 == 0 {
				a = -a
			}
			Coins(w, a, nil)
		}
		// block ids
		var wc int32
		var shard uint64
		var seqno uint32
		if r.Intn(2) == 0 {
			wc = wcs[r.Intn(len(wcs))]
		} else {
			wc = int32(r.Uint32())
		}
		switch r.Intn(4) {
		case 0:
			shard = uint64(1) << uint(r.Intn(64))
		case 1:
			shard = r.Uint64() >> uint(r.Intn(64))
		case 2:
			shard = (r.Uint64() | 1) << uint(r.Intn(64))
		default:
			shard = r.Uint64()
		}
		if r.Intn(2) == 0 {
			seqno = seqs[r.Intn(len(seqs))]
		} else {
			seqno = r.Uint32()
		}
		var root, file [32]byte
		r.Read(root[:])
		r.Read(file[:])
		Blk(w, wc, shard, seqno, root, file, nil)
		// texts near a block id
		base := []byte(fmt.Sprintf("(%d,%x,%d)", wc, shard, seqno))
		if r.Intn(2) == 0 {
			base = []byte(fmt.Sprintf("(%d,%016x,%d)", wc, shard, seqno))
		}
		for j := 0; j < 4; j++ {
			BlkParse(w, mutate(r, base, idAlphabet), nil)
		}
		if i%10 == 0 {
			BlkParse(w, bytesN(r.Intn(12)), nil)
			BlkParse(w, base, nil)
		}
		// TL bytes of every length around 80
		ext := ton.BlockIDExt{BlockID: ton.BlockID{Workchain: wc, Shard: shard, Seqno: seqno}, RootHash: ton.Bits256(root), FileHash: ton.Bits256(file)}
		tl, _ := ext.MarshalTL()
		switch i % 5 {
		case 0:
			TlDec(w, tl, nil)
		case 1:
			TlDec(w, tl[:r.Intn(80)], nil)
		case 2:
			TlDec(w, append(tl, bytesN(1+r.Intn(8))...), nil)
		case 3:
			TlDec(w, bytesN(80), nil)
		default:
			TlDec(w, nil, nil)
		}
		// 256-bit strings
		var hv [32]byte
		r.Read(hv[:])
		if i%7 == 0 {
			for k := range hv {
				hv[k] = []byte{0xfb, 0xef, 0xbe}[k%3] // base64 digits 62 / 63 only
			}
			hv[r.Intn(32)] ^= byte(r.Intn(256))
		}
		h := ton.Bits256(hv)
		url := bytes.NewBufferString("").String()
		{
			b := []byte(h.Base64())
			for k := range b {
				if b[k] == '+' {
					b[k] = '-'
				} else if b[k] == '/' {
					b[k] = '_'
				}
			}
			url = string(b)
		}
		H256(w, hv, url, nil)
		forms := [][]byte{[]byte(h.Hex()), []byte("0x" + h.Hex()), []byte(h.Base64()), []byte(url), []byte("\"" + h.Hex() + "\"")}
		fns := []string{"hex", "b64", "url", "any", "parsehash", "json", "json.std"}
		for j := 0; j < 6; j++ {
			t := mutate(r, forms[r.Intn(len(forms))], hAlphabet)
			H256Parse(w, fns[r.Intn(len(fns))], t, nil)
		}
		// each reader on each clean form (cross forms: most must be refused)
		H256Parse(w, fns[i%len(fns)], forms[(i/len(fns))%len(forms)], nil)
		if i%10 == 0 {
			FromBytes(w, []int{0, 1, 31, 32, 33, 64}[(i/10)%6], nil)
		}
	}
	w.Emit(ev.M{"k": "End", "events": w.N})
}
