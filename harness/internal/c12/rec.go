// Package c12 binds spec/LiteClient.tla to tongo's concurrent lite client.
//
// One execution = one process: a scripted lite server (internal/adnlsrv plus the adnl.message /
// tcp.ping framing below) performs the server actions of one TLC behaviour of LiteClient
// (answer order, duplicates, unknown ids, pongs, other packets, closes mid-request / idle /
// during the handshake of a reconnect, answers held back beyond the deadline) while real caller
// goroutines use one liteclient.Client. Build tag `verif` hooks in /repo/liteclient report the
// linearization points; together with the server's own log (taken before it writes) they form
// the trace that spec/trace/LiteClient_Trace.tla must accept. The harness additionally asserts
// payload equality, return-by-deadline, the goroutine census and (built with -race) the absence
// of data race reports.
package c12

import (
	"bytes"
	"crypto/sha256"
	"encoding/binary"
	"encoding/hex"
	"fmt"
	"runtime"
	"strconv"
	"strings"
	"sync/atomic"
	"time"
)

const (
	magicQuery        = 0xb48bf97a // adnl.message.query query_id:int256 query:bytes = adnl.Message
	magicAnswer       = 0x0fac8416 // adnl.message.answer query_id:int256 answer:bytes = adnl.Message
	magicPing         = 0x4d082b9a // tcp.ping random_id:long = tcp.Pong
	magicPong         = 0xdc69fb03 // tcp.pong random_id:long = tcp.Pong
	magicOther        = 0x5a5a1234 // not a constructor the client knows
	magicAuth         = 0x445bab12 // tcp.authentificate nonce:bytes = tcp.Message
	magicAuthNonce    = 0xe35d4ab6 // tcp.authentificationNonce nonce:bytes = tcp.Message
	magicAuthComplete = 0xf7ad9ea6 // tcp.authentificationComplete key:PublicKey signature:bytes = tcp.Message
	magicPubKey       = 0x4813b4c6 // pub.ed25519 key:int256 = PublicKey
)

// raw is one recorded hook or server event; the slot index is its global sequence number.
type raw struct {
	ok    atomic.Bool
	ev    string
	t     int64 // microseconds since start
	gid   uint64
	obj   uintptr
	a, b  uint64
	ptr   uintptr // channel / econn identity carried in x
	pay   []byte  // copy of a payload carried in x
	pay2  []byte
	addr  string
	srvEv map[string]any // server / harness events are stored ready-made
}

type recorder struct {
	start  time.Time
	next   atomic.Uint64
	slots  []raw
	jitter uint64 // 0 = off
	// silenceHold: extra sleep (microseconds) at the cr.silence hook (widens the window in which the
	// packet goroutine can be stranded); 0 = none
	silenceHold atomic.Int64
	// timeoutHold: extra sleep (microseconds) at the ret.timeout hook: the caller has left its select but is still
	// registered, which is the window in which a late answer is delivered to a channel nobody reads any more
	timeoutHold atomic.Int64
	overflow    atomic.Bool
	closed      atomic.Bool
}

func newRecorder(capacity int, jitter uint64) *recorder {
	return &recorder{start: time.Now(), slots: make([]raw, capacity), jitter: jitter}
}

func (r *recorder) us() int64 { return int64(time.Since(r.start) / time.Microsecond) }

func (r *recorder) slot() (*raw, uint64) {
	n := r.next.Add(1) - 1
	if n >= uint64(len(r.slots)) {
		r.overflow.Store(true)
		return nil, n
	}
	return &r.slots[n], n
}

func goid() uint64 {
	var buf [64]byte
	n := runtime.Stack(buf[:], false)
	// "goroutine 123 [running]:"
	s := buf[10:n]
	i := bytes.IndexByte(s, ' ')
	if i < 0 {
		return 0
	}
	id, _ := strconv.ParseUint(string(s[:i]), 10, 64)
	return id
}

func ptrOf(x any) uintptr {
	if x == nil {
		return 0
	}
	// %p works for pointers and channels alike
	s := fmt.Sprintf("%p", x)
	v, _ := strconv.ParseUint(strings.TrimPrefix(s, "0x"), 16, 64)
	return uintptr(v)
}

func splitmix(x uint64) uint64 {
	x += 0x9e3779b97f4a7c15
	x = (x ^ (x >> 30)) * 0xbf58476d1ce4e5b9
	x = (x ^ (x >> 27)) * 0x94d049bb133111eb
	return x ^ (x >> 31)
}

// hook is installed as liteclient.VerifHook. It runs inside the critical section of the hook point:
// the sequence number is taken first, then the arguments are copied, then (optionally) the goroutine
// is delayed - still inside the critical section, which is what a preemption there would do.
func (r *recorder) hook(localAddr func(any) string) func(ev string, obj any, a, b uint64, x any) {
	return func(ev string, obj any, a, b uint64, x any) {
		if r.closed.Load() {
			return
		}
		s, n := r.slot()
		if s == nil {
			return
		}
		s.ev, s.t, s.gid, s.obj, s.a, s.b = ev, r.us(), goid(), ptrOf(obj), a, b
		switch v := x.(type) {
		case nil:
		case []byte:
			s.pay = append([]byte(nil), v...)
		case [][]byte:
			if len(v) > 0 {
				s.pay = append([]byte(nil), v[0]...)
			}
			if len(v) > 1 {
				s.pay2 = append([]byte{}, v[1]...)
			}
		default:
			s.ptr = ptrOf(x)
			if ev == "conn.up" || ev == "conn.up.auth" || ev == "rc.begin" {
				s.addr = localAddr(x)
			}
		}
		s.ok.Store(true)
		if ev == "cr.silence" {
			if h := r.silenceHold.Load(); h > 0 {
				time.Sleep(time.Duration(h) * time.Microsecond)
			}
		}
		if ev == "ret.timeout" {
			if h := r.timeoutHold.Load(); h > 0 {
				time.Sleep(time.Duration(h) * time.Microsecond)
			}
		}
		if r.jitter != 0 {
			z := splitmix(r.jitter ^ (n * 0x9e3779b97f4a7c15))
			switch {
			case z%16 == 0:
				time.Sleep(time.Duration(20+(z>>8)%400) * time.Microsecond)
			case z%16 < 4:
				runtime.Gosched()
			}
		}
	}
}

// emit records a server- or harness-side event (same sequence counter as the hooks).
func (r *recorder) emit(m map[string]any) {
	s, _ := r.slot()
	if s == nil {
		return
	}
	s.ev, s.t, s.gid, s.srvEv = "@", r.us(), 0, m
	s.ok.Store(true)
}

// hash8 names a payload in the trace: the first 8 bytes of its SHA-256.
func hash8(b []byte) string {
	h := sha256.Sum256(b)
	return hex.EncodeToString(h[:8])
}

// ------------------------------------------------------------------ TL framing (harness side)

func tlBytes(b []byte) []byte {
	var out []byte
	if len(b) < 254 {
		out = append(out, byte(len(b)))
	} else {
		out = append(out, 254, byte(len(b)), byte(len(b)>>8), byte(len(b)>>16))
	}
	out = append(out, b...)
	for len(out)%4 != 0 {
		out = append(out, 0)
	}
	return out
}

// tlBytesDecode reads a TL `bytes` at the start of b.
func tlBytesDecode(b []byte) ([]byte, bool) {
	if len(b) == 0 {
		return nil, false
	}
	n, off := int(b[0]), 1
	if b[0] == 254 {
		if len(b) < 4 {
			return nil, false
		}
		n, off = int(b[1])|int(b[2])<<8|int(b[3])<<16, 4
	} else if b[0] == 255 {
		return nil, false
	}
	if len(b) < off+n {
		return nil, false
	}
	return b[off : off+n], true
}

func frameAnswer(id []byte, data []byte) []byte {
	p := binary.LittleEndian.AppendUint32(nil, magicAnswer)
	p = append(p, id...)
	return append(p, tlBytes(data)...)
}

func framePong(randomID []byte) []byte {
	p := binary.LittleEndian.AppendUint32(nil, magicPong)
	return append(p, randomID...)
}

func magicOf(p []byte) uint32 {
	if len(p) < 4 {
		return 0
	}
	return binary.LittleEndian.Uint32(p)
}

// parseQuery splits an adnl.message.query payload.
func parseQuery(p []byte) (id []byte, q []byte, ok bool) {
	if magicOf(p) != magicQuery || len(p) < 37 {
		return nil, nil, false
	}
	q, ok = tlBytesDecode(p[36:])
	return p[4:36], q, ok
}

// the harness's query body: "c12q" | call number (uint32 LE) | salt (uint32 LE) | padding (pseudo-random, any length)
func makeQ(call int, salt uint32, pad int) []byte {
	q := []byte("c12q")
	q = binary.LittleEndian.AppendUint32(q, uint32(call))
	q = binary.LittleEndian.AppendUint32(q, salt)
	x := uint64(salt)<<32 | uint64(call)
	for len(q) < 12+pad {
		x = splitmix(x)
		q = binary.LittleEndian.AppendUint64(q, x)
	}
	return q[:12+pad]
}

func callOfQ(q []byte) int {
	if len(q) < 12 || string(q[:4]) != "c12q" {
		return 0
	}
	return int(binary.LittleEndian.Uint32(q[4:]))
}

// ------------------------------------------------------------------ goroutine census

// Census counts the client's goroutines by entry function.
type Census struct{ Ping, Cl, Pkt, Cr, Rc, Other int }

func (c Census) Total() int { return c.Ping + c.Cl + c.Pkt + c.Cr + c.Rc + c.Other }
func (c Census) Map() map[string]any {
	return map[string]any{"ping": c.Ping, "cl": c.Cl, "pkt": c.Pkt, "cr": c.Cr, "rc": c.Rc, "other": c.Other}
}

func census() (Census, string) {
	buf := make([]byte, 1<<20)
	for {
		n := runtime.Stack(buf, true)
		if n < len(buf) {
			buf = buf[:n]
			break
		}
		buf = make([]byte, 2*len(buf))
	}
	var c Census
	var stuck []string
	for _, blk := range strings.Split(string(buf), "\n\n") {
		if !strings.Contains(blk, "tongo/liteclient.") {
			continue
		}
		// the entry function is the last function line before "created by"
		lines := strings.Split(blk, "\n")
		entry := ""
		for i := 1; i < len(lines); i++ {
			l := lines[i]
			if strings.HasPrefix(l, "created by ") {
				break
			}
			if !strings.HasPrefix(l, "\t") && l != "" {
				entry = l
			}
		}
		switch {
		case strings.Contains(entry, "liteclient.(*Connection).ping"):
			c.Ping++
		case strings.Contains(entry, "liteclient.(*Client).reader"):
			c.Cl++
		case strings.Contains(entry, "handleIncomingPackets"):
			c.Pkt++
			if strings.Contains(lines[0], "chan send") {
				stuck = append(stuck, lines[0])
			}
		case strings.Contains(entry, "liteclient.(*Connection).reader"):
			c.Cr++
		case strings.Contains(entry, "liteclient.(*Connection).reconnect"):
			c.Rc++
		case strings.Contains(entry, "/c12."):
			// a caller of the harness inside Request: not a goroutine of the client
		default:
			c.Other++
		}
	}
	return c, strings.Join(stuck, "; ")
}
