package c12

import (
	"crypto/ed25519"
	"crypto/rand"
	"crypto/sha256"
	"encoding/binary"
	"errors"
	"net"
	"sync"
	"sync/atomic"
	"time"

	"verifharness/internal/adnlsrv"
)

// slink is the server side of one TCP connection of the client.
type slink struct {
	c      *adnlsrv.Conn
	port   string // remote address = the client's local address
	mu     sync.Mutex
	closed bool // closed by us or found closed by the client
	seqUp  uint64
	// authenticated mode: the nonces of the latest tcp.authentificate exchange on this link
	clientNonce, srvNonce []byte
	authed                atomic.Bool // a valid tcp.authentificationComplete has arrived
}

// arrival of a scripted query
type arrival struct {
	l    *slink
	id   []byte
	at   time.Time
	data []byte      // the answer this server produces for it
	sent atomic.Bool // the answer has been written at least once
}

type server struct {
	rec  *recorder
	srv  *adnlsrv.Server
	seed int64

	mu       sync.Mutex
	cond     *sync.Cond
	links    []*slink         // in accept order (those that completed the handshake)
	arrived  map[int]*arrival // by call number
	scripted int              // calls 1..scripted are answered by the script only
	hsdrops  int              // incoming connections still to be closed during the handshake
	mute     map[string]bool  // ports on which the server answers nothing (silence scenario)
	nHsDrop  int
	// outage: from the first connection attempt after it was armed, every attempt is closed during its handshake
	// for outageFor; then the server accepts again (same address, same key)
	outageFor   time.Duration
	outageStart time.Time
	outageEnd   time.Time
	nCorrupt    atomic.Int64 // frames of the client that did not decrypt to a valid frame
	// splitEvery > 0: every splitEvery-th packet with a body is written in two pieces with a pause of splitMs in between;
	// the cut position cycles through the regions of a frame (size prefix after 1, 2, 3 bytes, nonce, payload, checksum)
	authMode bool
	// eager: the handshake acknowledgement is followed at once by an unsolicited packet (pong / unknown id / other, in turn):
	// 1 = both in ONE write, 2 = two writes without a pause
	eager  int
	nEager int
	// stallFor: the next connection attempt is accepted and its handshake read, but the acknowledgement is held back that long
	stallFor   time.Duration
	splitOn    atomic.Bool
	splitEvery int
	splitMs    int
	nSplit     atomic.Int64
	nAuthOK    atomic.Int64 // tcp.authentificationComplete packets with a valid signature over client nonce || server nonce
	nAuthBad   atomic.Int64
	wg         sync.WaitGroup
}

func newScriptedServer(rec *recorder, seedText string, seed int64, scripted int) (*server, error) {
	s := sha256.Sum256([]byte(seedText))
	srv, err := adnlsrv.New(s[:])
	if err != nil {
		return nil, err
	}
	srv.Timeout = time.Hour
	sv := &server{rec: rec, srv: srv, seed: seed, arrived: map[int]*arrival{}, scripted: scripted, mute: map[string]bool{}}
	sv.cond = sync.NewCond(&sv.mu)
	go sv.acceptLoop()
	return sv, nil
}

func (sv *server) acceptLoop() {
	for {
		c, err := sv.srv.Accept(0)
		if err != nil {
			return
		}
		port := c.NetConn().RemoteAddr().String()
		sv.mu.Lock()
		drop := sv.hsdrops > 0
		if drop {
			sv.hsdrops--
		} else if sv.outageFor > 0 {
			if sv.outageStart.IsZero() {
				sv.outageStart = time.Now()
				sv.outageEnd = sv.outageStart.Add(sv.outageFor)
				sv.cond.Broadcast()
			}
			drop = time.Now().Before(sv.outageEnd)
		}
		if drop {
			sv.nHsDrop++
		}
		n := sv.nHsDrop
		sv.mu.Unlock()
		if drop {
			// close the attempt during the handshake: alternately before reading it (RST) and after (FIN)
			sv.rec.emit(map[string]any{"k": "srv.hsdrop", "port": port})
			if n%2 == 0 {
				c.Handshake()
			}
			c.Close()
			continue
		}
		go sv.serve(c, port)
	}
}

func (sv *server) serve(c *adnlsrv.Conn, port string) {
	if err := c.Handshake(); err != nil {
		c.Close()
		return
	}
	sv.mu.Lock()
	stall := sv.stallFor
	sv.stallFor = 0
	sv.mu.Unlock()
	if stall > 0 {
		sv.rec.emit(map[string]any{"k": "srv.stall", "port": port, "ms": int(stall / time.Millisecond)})
		time.Sleep(stall)
	}
	l := &slink{c: c, port: port}
	l.mu.Lock()
	sv.mu.Lock()
	sv.links = append(sv.links, l)
	eager := sv.eager
	sv.nEager++
	turn := sv.nEager
	sv.mu.Unlock()
	sv.rec.emit(map[string]any{"k": "srv.up", "port": port})
	var err error
	if eager == 0 {
		err = c.SendPacket(nil)
	} else {
		var p []byte
		m := map[string]any{"port": port}
		if sv.authMode {
			// before the authentication exchange nobody reads Connection.Responses() on a first connection: anything but a pong
			// (consumed inside Connection.reader) would sit in front of the server's nonce for ever
			turn = 0
		}
		switch turn % 3 {
		case 0:
			p, m["k"] = framePong(randomID()[:8]), "srv.pong"
		case 1:
			id := randomID()
			data := sv.answerFor(id)
			p, m["k"], m["h"] = frameAnswer(id, data), "srv.unk", hash8(data)
		default:
			p = append(binary.LittleEndian.AppendUint32(nil, magicOther), randomID()...)
			m["k"], m["h"] = "srv.other", hash8(p)
		}
		_, err = c.Queue(nil)
		if err == nil && eager == 2 {
			_, err = c.Flush(-1)
		}
		sv.rec.emit(m)
		if err == nil {
			err = c.SendPacket(p) // eager == 1: the acknowledgement is still pending, both leave in one write
		}
	}
	l.mu.Unlock()
	sv.mu.Lock()
	sv.cond.Broadcast()
	sv.mu.Unlock()
	if err != nil {
		sv.closeLink(l, false)
		return
	}
	for {
		pl, err := c.ReadPacket()
		if err != nil {
			if errors.Is(err, adnlsrv.ErrChecksum) || errors.Is(err, adnlsrv.ErrBadLength) {
				// the bytes the client wrote are not a sequence of valid frames of its own stream
				sv.nCorrupt.Add(1)
				sv.rec.emit(map[string]any{"k": "srv.corrupt", "port": port})
			}
			sv.closeLink(l, false)
			return
		}
		switch magicOf(pl) {
		case magicAuth:
			// authenticated mode: answer the client's nonce with ours
			if n, ok := tlBytesDecode(pl[4:]); ok {
				sv.sendAuthNonce(l, append([]byte(nil), n...))
			}
		case magicPubKey, magicAuthComplete:
			// tongo writes the PublicKey constructor over the authentificationComplete constructor: key at [4:36], signature follows
			if len(pl) >= 37 {
				if sig, ok := tlBytesDecode(pl[36:]); ok {
					l.mu.Lock()
					msg := append(append([]byte{}, l.clientNonce...), l.srvNonce...)
					l.mu.Unlock()
					if len(sig) == ed25519.SignatureSize && ed25519.Verify(ed25519.PublicKey(pl[4:36]), msg, sig) {
						sv.nAuthOK.Add(1)
						l.authed.Store(true)
					} else {
						sv.nAuthBad.Add(1)
					}
				}
			}
		case magicPing:
			if len(pl) == 12 && !sv.muted(port) {
				sv.send(l, "srv.pong", nil, "", framePong(pl[4:12]))
			}
		case magicQuery:
			id, q, ok := parseQuery(pl)
			if !ok {
				continue
			}
			call := callOfQ(q)
			a := &arrival{l: l, id: append([]byte(nil), id...), at: time.Now(), data: sv.answerFor(id)}
			sv.rec.emit(map[string]any{"k": "srv.recv", "port": port, "id": string(a.id), "i": call})
			sv.mu.Lock()
			sv.arrived[call] = a
			sv.cond.Broadcast()
			scripted := call >= 1 && call <= sv.scripted
			sv.mu.Unlock()
			if !scripted && !sv.muted(port) {
				if sv.send(l, "srv.ans", a.id, hash8(a.data), frameAnswer(a.id, a.data)) {
					a.sent.Store(true)
				}
			}
		}
	}
}

func (sv *server) muted(port string) bool {
	sv.mu.Lock()
	defer sv.mu.Unlock()
	return sv.mute[port]
}

// answerFor is the answer this server produces for a query id: pseudo-random bytes of a length that
// covers both TL length forms (0..~700 bytes).
func (sv *server) answerFor(id []byte) []byte {
	h := sha256.New()
	var sd [8]byte
	binary.LittleEndian.PutUint64(sd[:], uint64(sv.seed))
	h.Write(sd[:])
	h.Write(id)
	sum := h.Sum(nil)
	n := int(binary.LittleEndian.Uint16(sum[:2])) % 700
	if sum[2]%32 == 0 {
		n = 0
	}
	if sum[2]%32 == 1 {
		n = 253 + int(sum[3]%3)
	}
	out := make([]byte, 0, n+32)
	for j := uint32(0); len(out) < n; j++ {
		var ctr [4]byte
		binary.LittleEndian.PutUint32(ctr[:], j)
		blk := sha256.Sum256(append(append([]byte{}, sum...), ctr[:]...))
		out = append(out, blk[:]...)
	}
	return out[:n]
}

// sendAuthNonce sends tcp.authentificationNonce (a fresh server nonce) on the link; clientNonce != nil starts a new exchange.
func (sv *server) sendAuthNonce(l *slink, clientNonce []byte) bool {
	n := randomID()
	l.mu.Lock()
	if clientNonce != nil {
		l.clientNonce = clientNonce
	}
	l.srvNonce = n
	l.mu.Unlock()
	p := binary.LittleEndian.AppendUint32(nil, magicAuthNonce)
	return sv.send(l, "srv.authnonce", nil, "", append(p, tlBytes(n)...))
}

// cutPos is the number of bytes written before the pause: class 1..3 inside the size prefix, 4 inside the nonce,
// 5 inside the payload (the nonce if the payload is empty), 6 inside the checksum. n = 4 + 32 + len(payload) + 32.
func cutPos(class, n int) int {
	switch class {
	case 1, 2, 3:
		return class
	case 4:
		return 4 + 13
	case 5:
		if n > 68 {
			return 36 + (n-68)/2
		}
		return 4 + 29
	default:
		return n - 9
	}
}

// send logs the action and then writes the packet, both under the link's lock (the log order is the wire order).
func (sv *server) send(l *slink, kind string, id []byte, h string, payload []byte) bool {
	return sv.sendCut(l, kind, id, h, payload, 0, 0)
}

// sendCut is send with the frame written in two pieces (cut class 1..6, pause ms); class 0 follows the server's split policy.
func (sv *server) sendCut(l *slink, kind string, id []byte, h string, payload []byte, class, ms int) bool {
	l.mu.Lock()
	defer l.mu.Unlock()
	if l.closed {
		return false
	}
	if class == 0 && sv.splitEvery > 0 && kind != "srv.pong" && sv.splitOn.Load() {
		if c := sv.nSplit.Add(1); c%int64(sv.splitEvery) == 0 {
			class, ms = int((c/int64(sv.splitEvery))%6)+1, sv.splitMs
		}
	}
	m := map[string]any{"k": kind, "port": l.port}
	if id != nil {
		m["id"] = string(id)
	}
	if h != "" {
		m["h"] = h
	}
	if class > 0 {
		m["cut"] = class
	}
	sv.rec.emit(m)
	if class == 0 {
		return l.c.SendPacket(payload) == nil
	}
	n, err := l.c.Queue(payload)
	if err != nil {
		return false
	}
	if _, err := l.c.Flush(cutPos(class, n)); err != nil {
		return false
	}
	time.Sleep(time.Duration(ms) * time.Millisecond)
	_, err = l.c.Flush(-1)
	return err == nil
}

// closeLink closes the socket; ours=true is the server's own decision (SrvDrop), logged before the close.
func (sv *server) closeLink(l *slink, ours bool) bool {
	l.mu.Lock()
	defer l.mu.Unlock()
	if l.closed {
		return false
	}
	l.closed = true
	if ours {
		sv.rec.emit(map[string]any{"k": "srv.drop", "port": l.port})
	}
	l.c.Close()
	sv.mu.Lock()
	sv.cond.Broadcast()
	sv.mu.Unlock()
	return true
}

// waitArrival waits until the query of call i has arrived (or the deadline passes).
func (sv *server) waitArrival(i int, d time.Duration) *arrival {
	deadline := time.Now().Add(d)
	t := time.AfterFunc(d, func() { sv.mu.Lock(); sv.cond.Broadcast(); sv.mu.Unlock() })
	defer t.Stop()
	sv.mu.Lock()
	defer sv.mu.Unlock()
	for sv.arrived[i] == nil && time.Now().Before(deadline) {
		sv.cond.Wait()
	}
	return sv.arrived[i]
}

func (sv *server) arrivalOf(i int) *arrival {
	sv.mu.Lock()
	defer sv.mu.Unlock()
	return sv.arrived[i]
}

// openLinks are the links not closed by either side, in accept order.
func (sv *server) openLinks() []*slink {
	sv.mu.Lock()
	ls := append([]*slink(nil), sv.links...)
	sv.mu.Unlock()
	var out []*slink
	for _, l := range ls {
		l.mu.Lock()
		if !l.closed && (!sv.authMode || l.authed.Load()) { // an authenticated link is usable once the exchange is complete
			out = append(out, l)
		}
		l.mu.Unlock()
	}
	return out
}

// waitOpen waits until n links are open.
func (sv *server) waitOpen(n int, d time.Duration) bool {
	deadline := time.Now().Add(d)
	for time.Now().Before(deadline) {
		if len(sv.openLinks()) >= n {
			return true
		}
		time.Sleep(5 * time.Millisecond)
	}
	return len(sv.openLinks()) >= n
}

func randomID() []byte {
	b := make([]byte, 32)
	rand.Read(b)
	return b
}

var _ = net.IPv4
