package c12

import (
	"bufio"
	"encoding/json"
	"fmt"
	"os"
	"time"
)

type lk struct{ k, g int }

type binding struct {
	from uint64
	l    lk
}

// waitConnUps waits until every connection's latest conn.up hook is newer than the server's latest srv.up for it,
// i.e. the client has installed every socket the server has acknowledged (n open links).
func (r *recorder) waitConnUps(n int, sv *server, d time.Duration) bool {
	deadline := time.Now().Add(d)
	for {
		ports := map[string]bool{}
		for _, l := range sv.openLinks() {
			ports[l.port] = true
		}
		N := r.next.Load()
		if N > uint64(len(r.slots)) {
			N = uint64(len(r.slots))
		}
		got := 0
		for i := uint64(0); i < N; i++ {
			s := &r.slots[i]
			if s.ok.Load() && (s.ev == "conn.up" || s.ev == "conn.up.auth") && ports[s.addr] {
				got++
			}
		}
		if got >= n {
			return true
		}
		if time.Now().After(deadline) {
			return false
		}
		time.Sleep(5 * time.Millisecond)
	}
}

// writeTrace turns the recorded hook and server events into one trace segment:
// Reset, events in global sequence order with connection / generation / call numbers resolved, Quiesce.
func (r *recorder) writeTrace(path string, sc *Script, ncalls int) (int, []string, error) {
	N := r.next.Load()
	if N > uint64(len(r.slots)) {
		N = uint64(len(r.slots))
	}
	// the last slot taken may still be being filled by a ping goroutine: stop at the Quiesce record
	end := uint64(0)
	for i := uint64(0); i < N; i++ {
		s := &r.slots[i]
		if !s.ok.Load() {
			// a hook call that took its number but was still copying when we stopped: only possible after Quiesce
			continue
		}
		if s.srvEv != nil && s.srvEv["k"] == "Quiesce" {
			end = i + 1
		}
	}
	if end == 0 {
		return 0, nil, fmt.Errorf("no Quiesce record")
	}
	for i := uint64(0); i < end; i++ {
		if !r.slots[i].ok.Load() {
			return 0, nil, fmt.Errorf("event %d was not completed before Quiesce", i)
		}
	}
	var notes []string
	note := func(f string, a ...any) {
		if len(notes) < 20 {
			notes = append(notes, fmt.Sprintf(f, a...))
		}
	}

	// ---- pass 1: identities
	connIdx := map[uintptr]int{}
	gen := map[int]int{}
	pendStart := map[uint64]*raw{} // goroutine -> its latest pkt.start
	pendSeq := map[uint64]uint64{}
	pendEconn := map[uintptr]uint64{} // socket -> goroutine of its pkt.start, until its conn.up
	again := map[uint64]bool{}
	chBind := map[uintptr][]binding{}
	portBind := map[string]lk{}
	idCall := map[string]int{}
	ready := uint64(0)
	for i := uint64(0); i < end; i++ {
		s := &r.slots[i]
		switch s.ev {
		case "@":
			if s.srvEv["k"] == "ready" {
				ready = i
			}
		case "pkt.start":
			pendStart[s.gid], pendSeq[s.gid] = s, i
			pendEconn[s.obj] = s.gid
		case "conn.up", "conn.up.auth":
			// conn.up: same goroutine as pkt.start. conn.up.auth: logged by the reader in handleAuthResponse; x is the socket
			gid := s.gid
			if s.ev == "conn.up.auth" {
				g, ok := pendEconn[s.ptr]
				if !ok {
					again[i] = true // authentication "completed" once more on a socket that is installed already
					continue
				}
				gid = g
			}
			k, ok := connIdx[s.obj]
			if !ok {
				k = len(connIdx) + 1
				connIdx[s.obj] = k
			}
			gen[k]++
			l := lk{k, gen[k]}
			ps := pendStart[gid]
			if ps == nil {
				return 0, nil, fmt.Errorf("conn.up without pkt.start (seq %d)", i)
			}
			chBind[ps.ptr] = append(chBind[ps.ptr], binding{pendSeq[gid], l})
			delete(pendStart, gid)
			delete(pendEconn, ps.obj)
			if s.addr == "" {
				return 0, nil, fmt.Errorf("conn.up without local address")
			}
			if _, dup := portBind[s.addr]; dup {
				return 0, nil, fmt.Errorf("local address %s used twice", s.addr)
			}
			portBind[s.addr] = l
		case "send.nc", "send.try", "send.ok", "send.fail":
			if id, q, ok := parseQuery(s.pay); ok {
				if c := callOfQ(q); c > 0 {
					idCall[string(id)] = c
				}
			}
		}
	}
	if len(connIdx) != sc.NConns {
		return 0, nil, fmt.Errorf("saw %d connections, expected %d", len(connIdx), sc.NConns)
	}
	chLink := func(ch uintptr, at uint64) (lk, bool) {
		bs := chBind[ch]
		for j := len(bs) - 1; j >= 0; j-- {
			if bs[j].from <= at {
				return bs[j].l, true
			}
		}
		return lk{}, false
	}
	callOf := func(id []byte) int { return idCall[string(id)] } // 0 = an id no call uses

	// ---- pass 2: events
	f, err := os.Create(path)
	if err != nil {
		return 0, nil, err
	}
	w := bufio.NewWriterSize(f, 1<<20)
	n := 0
	put := func(m map[string]any) {
		b, err := json.Marshal(m)
		if err != nil {
			panic(err)
		}
		w.Write(b)
		w.WriteByte('\n')
		n++
	}
	put(map[string]any{"k": "Reset", "id": sc.ID, "cls": sc.Cls, "nconns": sc.NConns, "ncalls": ncalls, "timeout": sc.TimeoutMs,
		"scripted": sc.NCalls, "drops": countSteps(sc, "drop") + countSteps(sc, "hsdrop")})
	readerOf := map[uint64]lk{} // goroutine of a connection reader -> its generation
	clOf := map[uint64]int{}    // goroutine of a client reader -> its connection
	var bad error
	for i := uint64(0); i < end && bad == nil; i++ {
		s := &r.slots[i]
		m := map[string]any{"seq": int(i), "t": int(s.t / 1000)}
		emit := func(k string, kv ...any) {
			m["k"] = k
			for j := 0; j+1 < len(kv); j += 2 {
				m[kv[j].(string)] = kv[j+1]
			}
			put(m)
		}
		initial := i < ready
		if s.ev == "@" {
			e := s.srvEv
			k := e["k"].(string)
			switch k {
			case "ready":
			case "call", "return", "Quiesce", "Hang":
				for kk, v := range e {
					m[kk] = v
				}
				if k == "return" && m["h"] == nil {
					m["h"] = ""
				}
				put(m)
			case "srv.hsdrop":
				emit(k)
			default: // srv.up, srv.recv, srv.ans, srv.dup, srv.unk, srv.pong, srv.other, srv.drop
				l, ok := portBind[e["port"].(string)]
				if !ok {
					note("server event %s on a connection the client never installed (%v): left out", k, e["port"])
					continue
				}
				if k == "srv.up" && initial {
					continue
				}
				m["k"], m["c"], m["g"] = k, l.k, l.g
				if id, ok := e["id"].(string); ok {
					m["i"] = callOf([]byte(id))
					if ci, ok := e["i"].(int); ok && k == "srv.recv" {
						m["i"] = ci
					}
				}
				if h, ok := e["h"].(string); ok {
					m["h"] = h
				}
				if ms, ok := e["ms"].(int); ok {
					m["ms"] = ms
				}
				put(m)
			}
			continue
		}
		switch s.ev {
		case "pkt.start", "pkt.fwd", "rc.done":
			// identity bookkeeping / no counterpart in the specification
		case "conn.up", "conn.up.auth":
			if again[i] {
				l := portBind[s.addr]
				emit("conn.up.again", "c", l.k, "g", l.g)
			} else if !initial {
				l := portBind[s.addr]
				emit("conn.up", "c", l.k, "g", l.g)
			}
		case "cr.start":
			if l, ok := chLink(s.ptr, i); ok {
				readerOf[s.gid] = l
			} else {
				// the reader started before the setup's conn.up hook: bind by the channel's next binding
				bs := chBind[s.ptr]
				if len(bs) == 0 {
					bad = fmt.Errorf("cr.start on an unknown channel (seq %d)", i)
					break
				}
				readerOf[s.gid] = bs[len(bs)-1].l
			}
		case "pkt.exit":
			l, ok := chLink(s.ptr, i)
			if !ok {
				bad = fmt.Errorf("pkt.exit on an unknown channel (seq %d)", i)
				break
			}
			emit("pkt.exit", "c", l.k, "g", l.g)
		case "cr.eof", "cr.silence", "cr.exit", "cr.offered":
			l, ok := readerOf[s.gid]
			if !ok {
				bad = fmt.Errorf("%s by an unknown reader goroutine (seq %d)", s.ev, i)
				break
			}
			emit(s.ev, "c", l.k, "g", l.g)
		case "cr.pong":
			l := readerOf[s.gid]
			emit("cr.pong", "c", l.k, "g", l.g, "ok", int(s.a))
		case "cr.offer", "cl.recv":
			ty, ci, h := classify(s.pay, callOf)
			if s.ev == "cr.offer" {
				l := readerOf[s.gid]
				emit("cr.offer", "c", l.k, "g", l.g, "ty", ty, "i", ci, "h", h)
			} else {
				k := connIdx[s.obj]
				clOf[s.gid] = k
				emit("cl.recv", "c", k, "ty", ty, "i", ci, "h", h)
			}
		case "lookup":
			emit("lookup", "c", clOf[s.gid], "i", callOf(s.pay), "found", int(s.a))
		case "dlv.pre", "dlv.post":
			emit(s.ev, "c", clOf[s.gid], "i", callOf(s.pay))
		case "reg", "unreg", "ret.err", "ret.timeout":
			emit(s.ev, "i", callOf(s.pay))
		case "ret.answer":
			emit("ret.answer", "i", callOf(s.pay), "h", hash8(s.pay2))
		case "pick":
			k := connIdx[s.obj]
			if k != int(s.a)+1 {
				bad = fmt.Errorf("pick: connection %d is at index %d", k, s.a)
				break
			}
			emit("pick", "i", callOf(s.pay), "c", k)
		case "send.nc", "send.try", "send.ok", "send.fail":
			k := connIdx[s.obj]
			if magicOf(s.pay) == magicPing {
				emit(s.ev, "who", "ping", "i", 0, "c", k)
			} else if id, _, ok := parseQuery(s.pay); ok {
				emit(s.ev, "who", "call", "i", callOf(id), "c", k)
			} else {
				bad = fmt.Errorf("%s of an unknown packet (seq %d)", s.ev, i)
			}
		case "rc.begin", "rc.skip", "rc.dialfail":
			k := connIdx[s.obj]
			if l, ok := readerOf[s.gid]; ok {
				emit(s.ev, "c", k, "who", "r", "g", l.g)
			} else {
				emit(s.ev, "c", k, "who", "rc", "g", 0)
			}
		default:
			bad = fmt.Errorf("unknown hook event %q", s.ev)
		}
	}
	if bad != nil {
		f.Close()
		return 0, nil, bad
	}
	b, _ := json.Marshal(map[string]any{"k": "End", "events": n})
	w.Write(b)
	w.WriteByte('\n')
	if err := w.Flush(); err != nil {
		return 0, nil, err
	}
	return n, notes, f.Close()
}

func countSteps(sc *Script, a string) int {
	n := 0
	for _, st := range sc.Steps {
		if st.A == a {
			n++
		}
	}
	return n
}

// classify names a packet the way the specification does: ("ans", call or 0, hash of the answer bytes) |
// ("other", 0, hash of the payload).
func classify(p []byte, callOf func([]byte) int) (string, int, string) {
	if magicOf(p) == magicAnswer && len(p) >= 37 {
		if data, ok := tlBytesDecode(p[36:]); ok {
			return "ans", callOf(p[4:36]), hash8(data)
		}
	}
	return "other", 0, hash8(p)
}
