package c12

import (
	"bufio"
	"bytes"
	"context"
	"crypto/ed25519"
	"crypto/sha256"
	"encoding/binary"
	"encoding/json"
	"fmt"
	"os"
	"runtime"
	"sort"
	"sync"
	"sync/atomic"
	"time"

	"github.com/tonkeeper/tongo/liteclient"

	"verifharness/internal/ev"
)

// Step is one server-side step of a script (the projection of a TLC behaviour of LiteClient onto the
// server's actions, plus "late": a caller's timeout precedes the next server action).
//
//	recv i            wait until the query of call i has arrived (on whichever connection)
//	ans i             answer call i on the connection it arrived on
//	dup i [of|k]      send the answer of i again
//	unk|pong|other    unsolicited packet on a link: "of": the one call `of` arrived on, "k": the k-th open link
//	drop [of|k]       close that link
//	hsdrop            close the next incoming connection during its handshake
//	late i            wait until call i's deadline has passed
//	outage [of|k] ms  close that link and refuse every connection attempt (close it during its handshake) for ms,
//	                  counted from the client's first attempt; then accept again on the same address with the same key
//	pause ms
//	stall [of|k] ms   close that link; the client's next connection attempt is accepted and its handshake read, but the
//	                  acknowledgement is held back for ms
//	authnonce [of|k]  (authenticated connections) send tcp.authentificationNonce once more on that link
//
// "cut" (1..6) on ans / dup / unk / other writes the frame in two pieces with a pause of "ms": after 1, 2, 3 bytes of the size
// prefix, inside the nonce, inside the payload, inside the checksum. "m" on other picks the constructor: 0 unknown,
// 1 tcp.authentificationComplete, 2 tcp.authentificate.
type Step struct {
	A   string `json:"a"`
	I   int    `json:"i"`
	K   int    `json:"k"`
	Of  int    `json:"of"`
	Ms  int    `json:"ms"`
	Cut int    `json:"cut"`
	M   int    `json:"m"`
}

type Script struct {
	ID        int    `json:"id"`
	NCalls    int    `json:"ncalls"` // scripted calls 1..NCalls (one caller goroutine each)
	NConns    int    `json:"nconns"`
	TimeoutMs int    `json:"timeout_ms"`
	Steps     []Step `json:"steps"`
	BgCallers int    `json:"bg_callers"` // additional callers whose queries the server answers at once
	BgCalls   int    `json:"bg_calls"`   // calls of each of them, one after the other
	BgGapMs   int    `json:"bg_gap_ms"`  // pause between them
	Followup  int    `json:"followup"`   // rounds of 2*NConns calls after everything has recovered ("later calls succeed")
	Mode      string `json:"mode"`       // "traced" (hooks installed, trace written) | "bare" (no hook: race detector and assertions only)
	Jitter    bool   `json:"jitter"`
	Cls       string `json:"cls"`
	// silence scenario: the server mutes link 1 for SilenceMs, the reader's cr.silence hook is held for HoldUs and
	// the server sends one packet HitUs after the 10 s have passed
	SilenceMs int `json:"silence_ms"`
	HoldUs    int `json:"hold_us"`
	HitUs     int `json:"hit_us"`
	// HoldTimeoutUs: callers are held this long at the ret.timeout hook (after the select, before unregisterCallback) and
	// "late i" waits only until just after the deadline: the following "ans i" then finds the entry still registered
	HoldTimeoutUs int `json:"hold_timeout_us"`
	// QBytes: padding of every query body (large frames make the writes of concurrent senders overlap)
	QBytes int `json:"q_bytes"`
	// Auth: the connections are made with an ed25519 authentication key; the server plays the tcp.authentificate exchange
	Auth bool `json:"auth"`
	// SplitEvery / SplitMs: the server writes every SplitEvery-th packet in two pieces (cut position cycling through the frame's regions)
	SplitEvery int `json:"split_every"`
	SplitMs    int `json:"split_ms"`
	// Eager: every handshake acknowledgement (initial connections and reconnections) is followed at once by an unsolicited
	// packet: 1 = in the same write, 2 = in a second write without a pause
	Eager int `json:"eager"`
	// CtxMode / CtxMs: the callers' own contexts. 1: every call has a deadline CtxMs after its start; 2: every call is cancelled
	// CtxMs after its start; 3: by call number (n%3 = 1 deadline, 2 cancel, 0 neither). CtxMs is shorter than the client's timeout.
	// Follow-up calls use plain contexts.
	CtxMode int `json:"ctx_mode"`
	CtxMs   int `json:"ctx_ms"`
	// MustAnswer: calls that have to return an answer (the server answers them on a connection that stays alive)
	MustAnswer []int `json:"must_answer"`
}

type callRes struct {
	call     int
	start    time.Time
	dur      time.Duration
	err      error
	data     []byte
	followup bool
	limit    time.Duration // the client's timeout or the caller's own earlier deadline / cancellation
}

const (
	pingPeriod   = 3 * time.Second // connection.go: ping()
	retrySleep   = 1 * time.Second // connection.go: reconnect()
	silencePerio = 10 * time.Second
)

// Drive executes script number `index` of the NDJSON file `in`. The result record goes to w, the trace
// (if Mode is "traced") to tracePath.
func Drive(in string, index int, w *ev.Writer, seed int64, tracePath string) error {
	sc, err := readScript(in, index)
	if err != nil {
		return err
	}
	if sc.Mode == "" {
		sc.Mode = "traced"
	}
	if sc.TimeoutMs == 0 {
		sc.TimeoutMs = 400
	}
	timeout := time.Duration(sc.TimeoutMs) * time.Millisecond
	var jit uint64
	if sc.Jitter {
		jit = splitmix(uint64(seed)*1000003+uint64(sc.ID)) | 1
	}
	rec := newRecorder(1<<18, jit)
	rec.timeoutHold.Store(int64(sc.HoldTimeoutUs))
	traced := sc.Mode == "traced"
	if traced {
		liteclient.VerifHook = rec.hook(liteclient.VerifLocalAddr)
	}
	sv, err := newScriptedServer(rec, fmt.Sprintf("C12/%d/%d", seed, sc.ID), seed*7919+int64(sc.ID), sc.NCalls)
	if err != nil {
		return err
	}
	sv.mu.Lock()
	sv.splitEvery, sv.splitMs, sv.authMode, sv.eager = sc.SplitEvery, sc.SplitMs, sc.Auth, sc.Eager
	sv.mu.Unlock()
	ctx := context.Background()
	var authKeys []ed25519.PrivateKey
	if sc.Auth {
		ks := sha256.Sum256([]byte(fmt.Sprintf("C12/auth/%d/%d", seed, sc.ID)))
		authKeys = append(authKeys, ed25519.NewKeyFromSeed(ks[:]))
	}
	c0, err := liteclient.NewConnection(ctx, sv.srv.PublicKey(), sv.srv.Addr(), authKeys...)
	if err != nil {
		return setupFailed(w, sc, fmt.Sprintf("NewConnection: %v", err))
	}
	client := liteclient.NewClient(c0, liteclient.OptionTimeout(timeout), liteclient.OptionWorkersPerConnection(sc.NConns))
	if !sv.waitOpen(sc.NConns, 20*time.Second) {
		return setupFailed(w, sc, fmt.Sprintf("only %d of %d connections came up", len(sv.openLinks()), sc.NConns))
	}
	time.Sleep(20 * time.Millisecond)
	rec.emit(map[string]any{"k": "ready"})
	sv.splitOn.Store(true) // the split policy applies from here on (the initial connections are up)
	cen0, _ := census()
	// an application thread that watches the client through its public read-only accessors while everything else goes on
	// (no hook, no synchronisation of its own: whatever it reads must be protected by the client)
	pollStop := make(chan struct{})
	var polls atomic.Int64
	go func() {
		for {
			select {
			case <-pollStop:
				return
			default:
			}
			_ = client.IsOK()
			_ = client.AverageRoundTrip()
			_ = c0.Status()
			_ = c0.AverageRoundTrip()
			polls.Add(1)
			time.Sleep(150 * time.Microsecond)
		}
	}()
	defer close(pollStop)

	// ---------------------------------------------------------------- callers
	var mu sync.Mutex
	var results []callRes
	inflight := map[int]time.Time{} // call -> the moment from which it counts as outliving its own limit
	limits := map[int]time.Duration{}
	grace := time.Duration(slackMs())*time.Millisecond + time.Second
	// outlived reports the calls that are still inside Request although deadline + slack (+1 s) has passed
	outlived := func() []int {
		mu.Lock()
		defer mu.Unlock()
		var late []int
		for c, t0 := range inflight {
			if time.Since(t0) > limits[c]+grace {
				late = append(late, c)
			}
		}
		sort.Ints(late)
		return late
	}
	doCall := func(call int, followup bool) {
		q := makeQ(call, uint32(splitmix(uint64(seed)^uint64(call))), sc.QBytes)
		// the caller's own context: a deadline or a cancellation earlier than the client's timeout
		mode, own := 0, timeout
		if !followup && sc.CtxMode > 0 && sc.CtxMs > 0 && time.Duration(sc.CtxMs)*time.Millisecond < timeout {
			mode = sc.CtxMode
			if mode == 3 {
				mode = call % 3
			}
			if mode != 0 {
				own = time.Duration(sc.CtxMs) * time.Millisecond
			}
		}
		cm := map[string]any{"k": "call", "i": call}
		if mode != 0 {
			cm["dl"] = sc.CtxMs
		}
		rec.emit(cm)
		t0 := time.Now()
		cctx := ctx
		switch mode {
		case 1:
			var cancel context.CancelFunc
			cctx, cancel = context.WithTimeout(ctx, own)
			defer cancel()
		case 2:
			var cancel context.CancelFunc
			cctx, cancel = context.WithCancel(ctx)
			tm := time.AfterFunc(own, cancel)
			defer tm.Stop()
			defer cancel()
		}
		mu.Lock()
		inflight[call], limits[call] = t0, own
		mu.Unlock()
		b, err := client.Request(cctx, q)
		d := time.Since(t0)
		mu.Lock()
		delete(inflight, call)
		mu.Unlock()
		m := map[string]any{"k": "return", "i": call, "res": "answer"}
		if err != nil {
			m["res"] = "err"
		} else {
			m["h"] = hash8(b)
		}
		rec.emit(m)
		mu.Lock()
		results = append(results, callRes{call: call, start: t0, dur: d, err: err, data: b, followup: followup, limit: own})
		mu.Unlock()
	}
	var wg sync.WaitGroup
	startGate := make(chan struct{})
	for i := 1; i <= sc.NCalls; i++ {
		wg.Add(1)
		go func(i int) { defer wg.Done(); <-startGate; doCall(i, false) }(i)
	}
	next := sc.NCalls
	for b := 0; b < sc.BgCallers; b++ {
		first := next + 1
		next += sc.BgCalls
		wg.Add(1)
		go func(first int) {
			defer wg.Done()
			<-startGate
			for j := 0; j < sc.BgCalls; j++ {
				if j > 0 && sc.BgGapMs > 0 {
					time.Sleep(time.Duration(sc.BgGapMs) * time.Millisecond)
				}
				doCall(first+j, false)
			}
		}(first)
	}
	close(startGate)

	// ---------------------------------------------------------------- the script
	tScript := time.Now()
	scriptDone := make(chan struct{})
	go func() { sv.run(sc, timeout); close(scriptDone) }()
	callersDone := make(chan struct{})
	go func() { wg.Wait(); close(callersDone) }()
	// a call that does not return by its deadline (+slack) is reported, not waited for
	hang := ""
	var hung []int
	waitAll := func(done chan struct{}) bool {
		tick := time.NewTicker(50 * time.Millisecond)
		defer tick.Stop()
		for {
			select {
			case <-done:
				return true
			case <-tick.C:
				if hung = outlived(); len(hung) > 0 {
					buf := make([]byte, 1<<20)
					hang = string(buf[:runtime.Stack(buf, true)])
					rec.emit(map[string]any{"k": "Hang", "i": hung[0]})
					return false
				}
			}
		}
	}
	if waitAll(scriptDone) {
		waitAll(callersDone)
	}
	scriptMs := time.Since(tScript).Milliseconds()

	// ---------------------------------------------------------------- recovery, later calls
	nDrops := 0
	for _, st := range sc.Steps {
		if st.A == "drop" || st.A == "hsdrop" {
			nDrops++
		}
	}
	bound := 2*pingPeriod + time.Duration(nDrops)*retrySleep + 4*time.Second
	for _, st := range sc.Steps {
		if st.A == "stall" {
			nDrops++
			bound += time.Duration(st.Ms) * time.Millisecond
		}
	}
	if sc.SilenceMs > 0 {
		bound += silencePerio
	}
	tRec := time.Now()
	outageBackMs := int64(-1)
	sv.mu.Lock()
	oEnd := sv.outageEnd
	sv.mu.Unlock()
	if !oEnd.IsZero() {
		// the server is back since oEnd: the client retries every second
		bound = time.Until(oEnd) + retrySleep + 2*time.Second + time.Duration(slackMs())*time.Millisecond
	}
	recovered := hang == "" && sv.waitOpen(sc.NConns, bound)
	recoverMs := time.Since(tRec).Milliseconds()
	if !oEnd.IsZero() && recovered {
		outageBackMs = time.Since(oEnd).Milliseconds()
	}
	if recovered && traced {
		// the server has acknowledged the handshake; the client installs the socket a moment later
		recovered = rec.waitConnUps(sc.NConns, sv, 2*time.Second)
	}
	time.Sleep(30*time.Millisecond + time.Duration(slackMs()/4)*time.Millisecond) // the client installs an acknowledged socket a moment after the server sees it open
	for r := 0; r < sc.Followup && recovered && hang == ""; r++ {
		var fw sync.WaitGroup
		for j := 0; j < 2*sc.NConns; j++ {
			next++
			fw.Add(1)
			go func(call int) { defer fw.Done(); doCall(call, true) }(next)
		}
		fwDone := make(chan struct{})
		go func() { fw.Wait(); close(fwDone) }()
		if !waitAll(fwDone) {
			break
		}
	}

	// ---------------------------------------------------------------- quiescence
	var cen1 Census
	var stuckInfo string
	want := Census{Ping: sc.NConns, Cl: sc.NConns, Pkt: sc.NConns, Cr: sc.NConns}
	for i := 0; i < 40; i++ {
		time.Sleep(50 * time.Millisecond)
		cen1, stuckInfo = census()
		if cen1.Rc == 0 && cen1.Cr == want.Cr && cen1.Other == 0 && cen1.Ping == want.Ping && cen1.Cl == want.Cl && (cen1.Pkt == want.Pkt || i >= 10) {
			break
		}
	}
	rec.emit(map[string]any{"k": "Quiesce", "gor": cen1.Map()})
	rec.closed.Store(true) // later hook calls of the still running ping goroutines are not recorded

	// ---------------------------------------------------------------- harness-side assertions
	res := ev.M{"k": "Result", "id": sc.ID, "cls": sc.Cls, "mode": sc.Mode, "ncalls": next, "nconns": sc.NConns, "timeout_ms": sc.TimeoutMs,
		"script_ms": scriptMs, "recovered": recovered, "recover_ms": recoverMs, "drops": nDrops,
		"census0": cen0.Map(), "census1": cen1.Map(), "stuck": stuckInfo, "hsdrops_done": sv.nHsDrop}
	var mism, late, early, fuFail []int
	nAns, nErr := 0, 0
	slack := time.Duration(slackMs()) * time.Millisecond
	sort.Slice(results, func(a, b int) bool { return results[a].call < results[b].call })
	for _, r := range results {
		if r.dur > r.limit+slack {
			late = append(late, r.call)
		}
		if r.err != nil {
			nErr++
			if r.followup {
				fuFail = append(fuFail, r.call)
			}
			continue
		}
		nAns++
		a := sv.arrivalOf(r.call)
		if a == nil || !bytes.Equal(a.data, r.data) {
			mism = append(mism, r.call)
		}
	}
	res["answers"], res["errors"] = nAns, nErr
	res["polls"] = int(polls.Load())
	var unanswered []int
	for _, c := range sc.MustAnswer {
		for _, r := range results {
			if r.call == c && r.err != nil {
				unanswered = append(unanswered, c)
			}
		}
	}
	res["unanswered"] = ints(unanswered)
	res["hang"] = hang != ""
	res["hung_calls"] = ints(hung)
	res["stream_corrupt"] = int(sv.nCorrupt.Load())
	res["auth_ok"], res["auth_bad"], res["splits"] = int(sv.nAuthOK.Load()), int(sv.nAuthBad.Load()), int(sv.nSplit.Load())
	res["outage_back_ms"] = outageBackMs
	if len(hang) > 6000 {
		hang = hang[:6000]
	}
	res["hang_stacks"] = hang
	res["payload_mismatch"], res["late"], res["early"], res["followup_failed"] = ints(mism), ints(late), ints(early), ints(fuFail)
	res["census_ok"] = cen1.Ping == want.Ping && cen1.Cl == want.Cl && cen1.Cr == want.Cr && cen1.Rc == 0 && cen1.Other == 0 && cen1.Pkt == want.Pkt
	res["pkt_extra"] = cen1.Pkt - want.Pkt
	res["events"] = int(rec.next.Load())
	if rec.overflow.Load() {
		return fmt.Errorf("event buffer overflow")
	}
	if traced {
		n, notes, err := rec.writeTrace(tracePath, sc, next)
		if err != nil {
			return err
		}
		res["trace_events"] = n
		res["notes"] = notes
	}
	w.Emit(res)
	w.Emit(ev.M{"k": "End", "events": 1})
	return nil
}

// setupFailed records that the client could not establish its initial connections against a conforming server
// (judged by the check after re-execution, like every other observation).
func setupFailed(w *ev.Writer, sc *Script, what string) error {
	w.Emit(ev.M{"k": "Result", "id": sc.ID, "cls": sc.Cls, "mode": sc.Mode, "setup_failed": what, "nconns": sc.NConns, "timeout_ms": sc.TimeoutMs})
	w.Emit(ev.M{"k": "End", "events": 1})
	return nil
}

func waitTimeout(wg *sync.WaitGroup, d time.Duration) bool {
	done := make(chan struct{})
	go func() { wg.Wait(); close(done) }()
	select {
	case <-done:
		return true
	case <-time.After(d):
		return false
	}
}

func slackMs() int {
	if s := os.Getenv("C12_SLACK_MS"); s != "" {
		var n int
		fmt.Sscan(s, &n)
		if n > 0 {
			return n
		}
	}
	return 400
}

func ints(x []int) []int {
	if x == nil {
		return []int{}
	}
	return x
}

func readScript(path string, index int) (*Script, error) {
	f, err := os.Open(path)
	if err != nil {
		return nil, err
	}
	defer f.Close()
	rd := bufio.NewScanner(f)
	rd.Buffer(make([]byte, 1<<20), 1<<26)
	for i := 0; rd.Scan(); i++ {
		if i == index {
			var sc Script
			if err := json.Unmarshal(rd.Bytes(), &sc); err != nil {
				return nil, err
			}
			return &sc, nil
		}
	}
	return nil, fmt.Errorf("no script %d in %s", index, path)
}

// run performs the script's steps in order.
func (sv *server) run(sc *Script, timeout time.Duration) {
	if sc.SilenceMs > 0 {
		sv.runSilence(sc)
	}
	resolve := func(st Step) *slink {
		if st.Of > 0 {
			if a := sv.arrivalOf(st.Of); a != nil {
				return a.l
			}
		}
		open := sv.openLinks()
		if len(open) == 0 {
			return nil
		}
		k := st.K
		if k < 1 {
			k = 1
		}
		return open[(k-1)%len(open)]
	}
	recvBy := time.Now().Add(1500*time.Millisecond + time.Duration(slackMs())*time.Millisecond)
	for _, st := range sc.Steps {
		switch st.A {
		case "recv":
			// every scripted call is issued when the script starts: a query that has not arrived a little later never will
			w := time.Until(recvBy)
			if w < 20*time.Millisecond {
				w = 20 * time.Millisecond
			}
			sv.waitArrival(st.I, w)
		case "ans":
			if a := sv.waitArrival(st.I, 50*time.Millisecond); a != nil {
				if sv.sendCut(a.l, "srv.ans", a.id, hash8(a.data), frameAnswer(a.id, a.data), st.Cut, st.Ms) {
					a.sent.Store(true)
				}
			}
		case "authnonce":
			if l := resolve(st); l != nil {
				sv.sendAuthNonce(l, nil)
			}
		case "dup":
			if a := sv.arrivalOf(st.I); a != nil && a.sent.Load() { // a duplicate of an answer that was produced
				l := a.l
				if st.Of > 0 || st.K > 0 {
					if x := resolve(st); x != nil {
						l = x
					}
				}
				sv.sendCut(l, "srv.dup", a.id, hash8(a.data), frameAnswer(a.id, a.data), st.Cut, st.Ms)
			}
		case "unk":
			if l := resolve(st); l != nil {
				id := randomID()
				data := sv.answerFor(id)
				sv.sendCut(l, "srv.unk", nil, hash8(data), frameAnswer(id, data), st.Cut, st.Ms)
			}
		case "pong":
			if l := resolve(st); l != nil {
				sv.send(l, "srv.pong", nil, "", framePong(randomID()[:8]))
			}
		case "other":
			if l := resolve(st); l != nil {
				mg := uint32(magicOther)
				if st.M == 1 {
					mg = magicAuthComplete
				} else if st.M == 2 {
					mg = magicAuth
				}
				p := append(binary.LittleEndian.AppendUint32(nil, mg), randomID()...)
				sv.sendCut(l, "srv.other", nil, hash8(p), p, st.Cut, st.Ms)
			}
		case "drop":
			if l := resolve(st); l != nil {
				sv.closeLink(l, true)
			}
		case "hsdrop":
			sv.mu.Lock()
			sv.hsdrops++
			sv.mu.Unlock()
		case "stall":
			sv.mu.Lock()
			sv.stallFor = time.Duration(st.Ms) * time.Millisecond
			sv.mu.Unlock()
			if l := resolve(st); l != nil {
				sv.closeLink(l, true)
			}
		case "outage":
			sv.mu.Lock()
			sv.outageFor = time.Duration(st.Ms) * time.Millisecond
			sv.mu.Unlock()
			if l := resolve(st); l != nil {
				sv.closeLink(l, true)
			}
			// wait until the client has started to reconnect (at most the two ping periods it needs to notice), then until the outage is over
			deadline := time.Now().Add(2*pingPeriod + 3*time.Second)
			for {
				sv.mu.Lock()
				end := sv.outageEnd
				sv.mu.Unlock()
				if !end.IsZero() {
					time.Sleep(time.Until(end))
					break
				}
				if time.Now().After(deadline) {
					break
				}
				time.Sleep(20 * time.Millisecond)
			}
		case "late":
			at := time.Now()
			if a := sv.arrivalOf(st.I); a != nil {
				at = a.at
			}
			margin := 80 * time.Millisecond
			if sc.HoldTimeoutUs > 0 {
				margin = time.Duration(sc.HoldTimeoutUs/5) * time.Microsecond
			}
			if d := time.Until(at.Add(timeout + margin)); d > 0 {
				time.Sleep(d)
			}
		case "pause":
			time.Sleep(time.Duration(st.Ms) * time.Millisecond)
		}
	}
}

// runSilence: the first link goes silent (no pongs) for the 10 s of the reader's timer; the reader's
// cr.silence hook is held for HoldUs and one packet is sent HitUs after the 10 s: the packet goroutine
// of the old generation parses it and nobody will ever take it.
func (sv *server) runSilence(sc *Script) {
	open := sv.openLinks()
	if len(open) == 0 {
		return
	}
	l := open[0]
	sv.rec.silenceHold.Store(int64(sc.HoldUs))
	// one last packet: the reader's timer restarts when it has consumed it
	sv.send(l, "srv.pong", nil, "", framePong(randomID()[:8]))
	t0 := time.Now()
	sv.mu.Lock()
	sv.mute[l.port] = true
	sv.mu.Unlock()
	time.Sleep(time.Until(t0.Add(silencePerio + time.Duration(sc.HitUs)*time.Microsecond)))
	p := append([]byte{0x34, 0x12, 0x5a, 0x5a}, randomID()...)
	sv.send(l, "srv.other", nil, hash8(p), p)
	time.Sleep(time.Duration(sc.SilenceMs) * time.Millisecond)
	sv.mu.Lock()
	delete(sv.mute, l.port)
	sv.mu.Unlock()
}
