// Package x08 drives the shard-chain functions of tongo (ton.GetParents, ton.ShardIDs, ton.ToBlockId, ton.ShardID, ton.ParseBlockID)
// for X08.  It only writes cells per block.tlb, calls the real code and records the inputs and what came back; every judgement is
// made by TLC (spec/ShardChain.tla, spec/trace/ShardChain_Trace.tla).
package x08

import (
	"encoding/hex"
	"fmt"
	"strconv"
	"strings"

	"github.com/tonkeeper/tongo/boc"

	"verifharness/internal/cells"
)

// bw writes bits as text.
type bw struct{ sb strings.Builder }

func (w *bw) u(v uint64, n int) *bw {
	for i := n - 1; i >= 0; i-- {
		if i < 64 && v>>uint(i)&1 == 1 {
			w.sb.WriteByte('1')
		} else {
			w.sb.WriteByte('0')
		}
	}
	return w
}
func (w *bw) raw(s string) *bw { w.sb.WriteString(s); return w }
func (w *bw) hex(h string) *bw {
	b, err := hex.DecodeString(h)
	if err != nil {
		panic("bad hex " + h)
	}
	for _, x := range b {
		w.u(uint64(x), 8)
	}
	return w
}
func (w *bw) String() string { return w.sb.String() }

func bits64(v uint64) string { return fmt.Sprintf("%064b", v) }
func parse64(s string) uint64 {
	v, err := strconv.ParseUint(s, 2, 64)
	if err != nil || len(s) != 64 {
		panic("bad 64-bit string " + s)
	}
	return v
}

// num is the exchange form of a uint32: a JSON number below 2^31, a decimal string from there on.
func num(v uint32) any {
	if v < 1<<31 {
		return int(v)
	}
	return strconv.FormatUint(uint64(v), 10)
}

// table is a cell table under construction; row 0 is the root.
type table struct{ rows []cells.C }

func (t *table) add(bits string, refs ...int) int {
	if refs == nil {
		refs = []int{}
	}
	t.rows = append(t.rows, cells.C{B: bits, R: refs})
	return len(t.rows) - 1
}
func (t *table) setRefs(i int, refs ...int) { t.rows[i].R = refs }

// graft copies another table (root 0) in and returns the index of its root.
func (t *table) graft(o []cells.C) int {
	off := len(t.rows)
	for _, r := range o {
		rr := make([]int, len(r.R))
		for i, k := range r.R {
			rr[i] = k + off
		}
		t.rows = append(t.rows, cells.C{B: r.B, R: rr})
	}
	return off
}
func (t *table) cell() (*boc.Cell, error) {
	cs, err := cells.Build(&cells.Table{Cells: t.rows, Roots: []int{0}}, false)
	if err != nil {
		return nil, err
	}
	return cs[0], nil
}
