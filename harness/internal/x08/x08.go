package x08

import (
	"bufio"
	"bytes"
	"encoding/binary"
	"encoding/hex"
	"encoding/json"
	"fmt"
	"io"
	mbits "math/bits"
	mrand "math/rand"
	"os"
	"sort"
	"strconv"

	"github.com/tonkeeper/tongo"
	"github.com/tonkeeper/tongo/boc"
	"github.com/tonkeeper/tongo/tlb"
	"github.com/tonkeeper/tongo/ton"

	"verifharness/internal/cells"
	"verifharness/internal/ev"
)

type Opts struct {
	Tier          string
	Seed          int64
	Shard, Shards int
}

// Tip is the last block of a shard.
type Tip struct {
	Seqno uint32 `json:"seqno"`
	Root  string `json:"root"`
	File  string `json:"file"`
}

func (t Tip) m() ev.M { return ev.M{"seqno": num(t.Seqno), "root": t.Root, "file": t.File} }

// BlkIn is what is written into a block header.
type BlkIn struct {
	Wc      int32
	PfxBits int
	Prefix  uint64
	Own     Tip
	Am, As  int
	Ctor    int
	Prevs   []Tip
}

func (b BlkIn) fields() ev.M {
	ps := []ev.M{}
	for _, p := range b.Prevs {
		ps = append(ps, p.m())
	}
	return ev.M{"wc": strconv.Itoa(int(b.Wc)), "pfxbits": b.PfxBits, "prefix": bits64(b.Prefix), "seqno": num(b.Own.Seqno), "root": b.Own.Root,
		"file": b.Own.File, "am": b.Am, "as": b.As, "ctor": b.Ctor, "prevs": ps}
}

func extBlkRef(t Tip, lt uint64) string {
	return new(bw).u(lt, 64).u(uint64(t.Seqno), 32).hex(t.Root).hex(t.File).String()
}

// blockInfoTable writes block_info#9bc7a987 per block.tlb.
func blockInfoTable(b BlkIn, r *mrand.Rand) *table {
	t := &table{}
	w := new(bw).u(0x9bc7a987, 32).u(uint64(r.Uint32()), 32)
	notMaster := b.Wc != -1
	flag := func(x bool) {
		if x {
			w.raw("1")
		} else {
			w.raw("0")
		}
	}
	flags := uint64(r.Intn(2))
	flag(notMaster)
	flag(b.Am == 1)
	flag(r.Intn(4) == 0) // before_split
	flag(b.As == 1)
	flag(r.Intn(2) == 0) // want_split
	flag(r.Intn(2) == 0) // want_merge
	flag(false)          // key_block
	flag(false)          // vert_seqno_incr
	w.u(flags, 8).u(uint64(b.Own.Seqno), 32).u(0, 32)
	w.raw("00").u(uint64(b.PfxBits), 6).u(uint64(uint32(b.Wc)), 32).u(b.Prefix, 64)
	w.u(uint64(r.Uint32()), 32).u(r.Uint64(), 64).u(r.Uint64(), 64).u(uint64(r.Uint32()), 32).u(uint64(r.Uint32()), 32).u(uint64(r.Uint32()), 32).u(uint64(r.Uint32()), 32)
	if flags&1 == 1 {
		w.u(0xc4, 8).u(uint64(r.Uint32()), 32).u(r.Uint64(), 64)
	}
	root := t.add(w.String())
	var refs []int
	if notMaster {
		refs = append(refs, t.add(extBlkRef(Tip{Seqno: r.Uint32(), Root: randHash(r), File: randHash(r)}, r.Uint64())))
	}
	prev := func(i int) Tip {
		if i < len(b.Prevs) {
			return b.Prevs[i]
		}
		return b.Prevs[len(b.Prevs)-1]
	}
	if b.Ctor == 0 {
		refs = append(refs, t.add(extBlkRef(prev(0), r.Uint64())))
	} else {
		p := t.add("")
		p1 := t.add(extBlkRef(prev(0), r.Uint64()))
		p2 := t.add(extBlkRef(prev(1), r.Uint64()))
		t.setRefs(p, p1, p2)
		refs = append(refs, p)
	}
	t.setRefs(root, refs...)
	return t
}

func hash32(h string) (out tlb.Bits256) {
	b, err := hexDecode(h)
	if err != nil || len(b) != 32 {
		panic("bad hash " + h)
	}
	copy(out[:], b)
	return
}

func blockInfoStruct(b BlkIn) tlb.BlockInfo {
	var bi tlb.BlockInfo
	bi.NotMaster = b.Wc != -1
	bi.AfterMerge, bi.AfterSplit = b.Am == 1, b.As == 1
	bi.SeqNo = b.Own.Seqno
	bi.Shard = tlb.ShardIdent{ShardPfxBits: tlb.Uint6(b.PfxBits), WorkchainID: b.Wc, ShardPrefix: b.Prefix}
	ref := func(i int) tlb.ExtBlkRef {
		if i >= len(b.Prevs) {
			i = len(b.Prevs) - 1
		}
		p := b.Prevs[i]
		return tlb.ExtBlkRef{EndLt: 7, SeqNo: p.Seqno, RootHash: hash32(p.Root), FileHash: hash32(p.File)}
	}
	if b.Ctor == 0 {
		bi.PrevRef.SumType = "PrevBlkInfo"
		bi.PrevRef.PrevBlkInfo = &struct{ Prev tlb.ExtBlkRef }{Prev: ref(0)}
	} else {
		bi.PrevRef.SumType = "PrevBlksInfo"
		bi.PrevRef.PrevBlksInfo = &struct {
			Prev1 tlb.ExtBlkRef
			Prev2 tlb.ExtBlkRef
		}{Prev1: ref(0), Prev2: ref(1)}
	}
	return bi
}

func idOut(p ton.BlockIDExt) ev.M {
	return ev.M{"wc": strconv.Itoa(int(p.Workchain)), "shard": bits64(p.Shard), "seqno": num(p.Seqno), "root": fmt.Sprintf("%x", p.RootHash[:]),
		"file": fmt.Sprintf("%x", p.FileHash[:])}
}

// guarded runs f and turns a panic into the event's panic field.
func guarded(e ev.M, f func()) {
	defer func() {
		if r := recover(); r != nil {
			e["panic"] = fmt.Sprint(r)
		}
	}()
	f()
}

type D struct {
	w *ev.Writer
	r *mrand.Rand
	x ev.M // fields added to every event (vector and step numbers in replays)
}

func (d *D) emit(e ev.M) {
	for k, v := range d.x {
		e[k] = v
	}
	d.w.Emit(e)
}
func (d *D) begin(k string) { d.w.Emit(ev.M{"k": "Begin", "call": k}) }

// Parents: GetParents on a header given as a cell (decoded by tlb.Unmarshal) or as a filled struct.
func (d *D) Parents(kind, src string, b BlkIn) {
	d.begin(kind)
	e := b.fields()
	e["k"], e["src"], e["dec"], e["err"], e["panic"], e["parents"] = kind, src, "", "", "", []ev.M{}
	guarded(e, func() {
		var bi tlb.BlockInfo
		var ps []ton.BlockIDExt
		var err error
		if src == "cell" {
			c, cerr := blockInfoTable(b, d.r).cell()
			if cerr != nil {
				panic("harness: " + cerr.Error())
			}
			if derr := tlb.Unmarshal(c, &bi); derr != nil {
				e["dec"] = "e"
				return
			}
			ps, err = ton.GetParents(bi)
		} else {
			bi = blockInfoStruct(b)
			ps, err = tongo.GetParents(bi)
		}
		e["err"] = ev.ErrClass(err)
		out := []ev.M{}
		for _, p := range ps {
			out = append(out, idOut(p))
		}
		e["parents"] = out
	})
	d.emit(e)
}

// ---------------------------------------------------------------- ShardHashes

type Leaf struct {
	Pfx string
	Tip
	Nvs   *uint64 // next_validator_shard when it is not the shard itself
	TagA  bool    // shard_descr_new#a
	Fsm   int     // 0 none, 1 split, 2 merge
	Short int     // > 0: the descriptor is cut to this many bits (malformed)
	BadTag bool
}

type WcTree struct {
	Wc     int32
	Leaves []Leaf
	// malformations of the tree itself
	ForkOneRef bool // the first fork gets one reference only
	ForkExtra  bool // the first fork carries bits after the tag
}

func idOfPrefix(p string) uint64 {
	var v uint64
	for i, ch := range p {
		if ch == '1' {
			v |= 1 << uint(63-i)
		}
	}
	return v | 1<<uint(63-len(p))
}

func descrBits(l Leaf, r *mrand.Rand) string {
	w := new(bw)
	tag := uint64(0xb)
	if l.TagA {
		tag = 0xa
	}
	if l.BadTag {
		tag = 0x3
	}
	nvs := idOfPrefix(l.Pfx)
	if l.Nvs != nil {
		nvs = *l.Nvs
	}
	w.u(tag, 4).u(uint64(l.Seqno), 32).u(uint64(r.Uint32()), 32).u(r.Uint64(), 64).u(r.Uint64(), 64).hex(l.Root).hex(l.File)
	w.u(uint64(r.Intn(32)), 5).u(0, 3).u(uint64(r.Uint32()), 32).u(nvs, 64).u(uint64(r.Uint32()), 32).u(uint64(r.Uint32()), 32)
	switch l.Fsm {
	case 0:
		w.raw("0")
	case 1:
		w.raw("10").u(uint64(r.Uint32()), 32).u(uint64(r.Uint32()), 32)
	default:
		w.raw("11").u(uint64(r.Uint32()), 32).u(uint64(r.Uint32()), 32)
	}
	if !l.TagA {
		w.raw("0000" + "0" + "0000" + "0") // fees_collected, funds_created: two empty CurrencyCollections
	}
	s := w.String()
	if l.Short > 0 && l.Short < len(s) {
		s = s[:l.Short]
	}
	return s
}

// binTree writes BinTree ShardDescr: bt_leaf$0 leaf:X | bt_fork$1 left:^ right:^ ; the shard of a leaf is the path to it.
func binTree(t WcTree, r *mrand.Rand) (*table, []string) {
	tb := &table{}
	byPfx := map[string]Leaf{}
	for _, l := range t.Leaves {
		byPfx[l.Pfx] = l
	}
	var leafBits []string
	first := true
	var mk func(p string) int
	mk = func(p string) int {
		if l, ok := byPfx[p]; ok {
			db := descrBits(l, r)
			leafBits = append(leafBits, db)
			i := tb.add("0" + db)
			if l.TagA {
				k := tb.add("0000" + "0" + "0000" + "0")
				tb.setRefs(i, k)
			}
			return i
		}
		if len(p) > 62 {
			panic("harness: the leaves do not cover the tree")
		}
		b := "1"
		one := false
		if first {
			first = false
			if t.ForkExtra {
				b = "101"
			}
			one = t.ForkOneRef
		}
		i := tb.add(b)
		l := mk(p + "0")
		if one {
			tb.setRefs(i, l)
			return i
		}
		rr := mk(p + "1")
		tb.setRefs(i, l, rr)
		return i
	}
	mk("")
	return tb, leafBits
}

// dict writes Hashmap n X with labels in the hml_long form; the value of a leaf is one reference.
func dict(t *table, keys []string, refs map[string]int, n int) int {
	lab := keys[0]
	for _, k := range keys[1:] {
		i := 0
		for i < len(lab) && i < len(k) && lab[i] == k[i] {
			i++
		}
		lab = lab[:i]
	}
	w := new(bw).raw("10").u(uint64(len(lab)), mbits.Len(uint(n))).raw(lab)
	if len(lab) == n {
		return t.add(w.String(), refs[keys[0]])
	}
	i := t.add(w.String())
	var ls, rs []string
	lr, rr := map[string]int{}, map[string]int{}
	for _, k := range keys {
		rest := k[len(lab)+1:]
		if k[len(lab)] == '0' {
			ls = append(ls, rest)
			lr[rest] = refs[k]
		} else {
			rs = append(rs, rest)
			rr[rest] = refs[k]
		}
	}
	a := dict(t, ls, lr, n-len(lab)-1)
	b := dict(t, rs, rr, n-len(lab)-1)
	t.setRefs(i, a, b)
	return i
}

// mcExtraTable writes masterchain_block_extra#cca5 key_block:0 shard_hashes shard_fees ^[...].
func mcExtraTable(wcs []WcTree, r *mrand.Rand) (*table, []ev.M, [][]string) {
	t := &table{}
	root := t.add("")
	other := t.add("000")
	shardFees := "0" + "0000" + "0" + "0000" + "0"
	var trees []ev.M
	var leafBits [][]string
	refs := map[string]int{}
	var keys []string
	for _, wt := range wcs {
		bt, lb := binTree(wt, r)
		k := new(bw).u(uint64(uint32(wt.Wc)), 32).String()
		refs[k] = t.graft(bt.rows)
		keys = append(keys, k)
		trees = append(trees, ev.M{"wc": strconv.Itoa(int(wt.Wc)), "tree": bt.rows})
		leafBits = append(leafBits, lb)
	}
	if len(keys) == 0 {
		t.rows[root] = cells.C{B: new(bw).u(0xcca5, 16).raw("0").raw("0").raw(shardFees).String(), R: []int{other}}
		return t, []ev.M{}, nil
	}
	sort.Strings(keys)
	dr := dict(t, keys, refs, 32)
	t.rows[root] = cells.C{B: new(bw).u(0xcca5, 16).raw("0").raw("1").raw(shardFees).String(), R: []int{dr, other}}
	return t, trees, leafBits
}

// ShardIDs: the configuration as a McBlockExtra cell -> tlb.Unmarshal -> ton.ShardIDs; and ton.ToBlockId on every descriptor.
func (d *D) ShardIDs(kind string, wc int32, seqno uint32, wcs []WcTree) {
	d.begin(kind)
	t, trees, leafBits := mcExtraTable(wcs, d.r)
	e := ev.M{"k": kind, "wc": strconv.Itoa(int(wc)), "seqno": num(seqno), "wcs": trees, "dec": "", "panic": "", "ids": []ev.M{}}
	guarded(e, func() {
		c, err := t.cell()
		if err != nil {
			panic("harness: " + err.Error())
		}
		var blk tlb.Block
		if err := tlb.Unmarshal(c, &blk.Extra.Custom.Value.Value); err != nil {
			e["dec"] = "e"
			return
		}
		blk.Extra.Custom.Exists = true
		var ids []ton.BlockIDExt
		if d.r.Intn(2) == 0 {
			ids = ton.ShardIDs(&blk)
		} else {
			ids = tongo.ShardIDs(&blk)
		}
		out := []ev.M{}
		for _, p := range ids {
			out = append(out, idOut(p))
		}
		e["ids"] = out
	})
	d.emit(e)
	if e["dec"] != "" || e["panic"] != "" {
		return
	}
	for i, wt := range wcs {
		for j, lb := range leafBits[i] {
			if j > 3 && d.r.Intn(4) > 0 {
				continue
			}
			d.begin("ToBlockId")
			te := ev.M{"k": "ToBlockId", "wc": strconv.Itoa(int(wt.Wc)), "leaf": lb, "panic": "", "dec": "", "out": ev.M{}}
			guarded(te, func() {
				tb := &table{}
				var kids []int
				if lb[:4] == "1010" {
					kids = []int{1}
				}
				tb.add(lb, kids...)
				if kids != nil {
					tb.add("0000000000")
				}
				c, err := tb.cell()
				if err != nil {
					panic("harness: " + err.Error())
				}
				var sd tlb.ShardDesc
				if err := tlb.Unmarshal(c, &sd); err != nil {
					te["dec"] = "e"
					return
				}
				te["out"] = idOut(tongo.ToBlockId(sd, wt.Wc))
			})
			d.emit(te)
		}
	}
}

// ------------------------------------------------------------------- ShardID

func (d *D) Parse(id uint64) {
	d.begin("Parse")
	e := ev.M{"k": "Parse", "id": bits64(id), "err": "", "panic": "", "enc": ""}
	guarded(e, func() {
		var s ton.ShardID
		var err error
		if d.r.Intn(2) == 0 {
			s, err = ton.ParseShardID(int64(id))
		} else {
			s, err = tongo.ParseShardID(int64(id))
		}
		e["err"] = ev.ErrClass(err)
		if err == nil {
			e["enc"] = bits64(uint64(s.Encode()))
		}
	})
	d.emit(e)
}

func (d *D) MatchAcc(id, acc uint64) {
	d.begin("MatchAcc")
	e := ev.M{"k": "MatchAcc", "id": bits64(id), "acc": bits64(acc), "out": false, "panic": ""}
	guarded(e, func() {
		s, err := ton.ParseShardID(int64(id))
		if err != nil {
			panic("harness: id without tag bit")
		}
		var a ton.AccountID
		a.Workchain = int32(d.r.Intn(3) - 1)
		d.r.Read(a.Address[:])
		binary.BigEndian.PutUint64(a.Address[:8], acc)
		e["out"] = s.MatchAccountID(a)
	})
	d.emit(e)
}

func (d *D) MatchBlk(id, blk uint64) {
	d.begin("MatchBlk")
	e := ev.M{"k": "MatchBlk", "id": bits64(id), "blk": bits64(blk), "out": false, "panic": ""}
	guarded(e, func() {
		s, err := ton.ParseShardID(int64(id))
		if err != nil {
			panic("harness: id without tag bit")
		}
		e["out"] = s.MatchBlockID(ton.BlockID{Workchain: 0, Shard: blk, Seqno: d.r.Uint32()})
	})
	d.emit(e)
}

func blockIDm(id ton.BlockID) ev.M {
	return ev.M{"wc": strconv.Itoa(int(id.Workchain)), "shard": bits64(id.Shard), "seqno": strconv.FormatUint(uint64(id.Seqno), 10)}
}

func (d *D) IdText(wc int32, shard uint64, seqno uint32) {
	d.begin("IdText")
	id := ton.BlockID{Workchain: wc, Shard: shard, Seqno: seqno}
	e := blockIDm(id)
	e["k"], e["text"], e["err"], e["panic"], e["back"] = "IdText", "", "", "", ev.M{}
	guarded(e, func() {
		txt := id.String()
		e["text"] = txt
		back, err := tongo.ParseBlockID(txt)
		e["err"] = ev.ErrClass(err)
		e["back"] = blockIDm(back)
	})
	d.emit(e)
}

func (d *D) ParseId(text string) {
	d.begin("ParseId")
	e := ev.M{"k": "ParseId", "text": text, "err": "", "panic": "", "id": ev.M{}}
	guarded(e, func() {
		id, err := ton.ParseBlockID(text)
		e["err"] = ev.ErrClass(err)
		if err == nil {
			e["id"] = blockIDm(id)
		}
	})
	d.emit(e)
}

// around runs the ShardID functions on a shard and on accounts / blocks on both sides of its boundaries.
func (d *D) around(pfx string, light bool) {
	id := idOfPrefix(pfx)
	d.Parse(id)
	span := uint64(0)
	if len(pfx) > 0 {
		span = uint64(1) << uint(64-len(pfx))
	}
	first := id &^ (uint64(1)<<uint(63-len(pfx)) - 1) &^ (uint64(1) << uint(63-len(pfx)))
	last := first + span - 1
	accs := []uint64{first, last, first - 1, last + 1}
	if !light {
		accs = append(accs, first+d.r.Uint64()%maxu(span, 1), d.r.Uint64(), id)
	}
	for _, a := range accs {
		d.MatchAcc(id, a)
	}
	blks := []uint64{id, 1 << 63}
	if len(pfx) > 0 {
		blks = append(blks, idOfPrefix(pfx[:len(pfx)-1]), idOfPrefix(pfx[:len(pfx)-1]+flip(pfx[len(pfx)-1:])))
	}
	if len(pfx) < 60 {
		blks = append(blks, idOfPrefix(pfx+"0"), idOfPrefix(pfx+"1"))
	}
	if !light {
		blks = append(blks, idOfPrefix(randPfx(d.r, d.r.Intn(61))), 0)
		if len(pfx) > 2 { // a cousin: the same depth, the first bit flipped
			blks = append(blks, idOfPrefix(flip(pfx[:1])+pfx[1:]))
		}
	}
	for _, b := range blks {
		d.MatchBlk(id, b)
	}
}

func maxu(a, b uint64) uint64 {
	if a == 0 { // the whole space
		return ^uint64(0)
	}
	if a > b {
		return a
	}
	return b
}
func flip(s string) string {
	if s == "0" {
		return "1"
	}
	return "0"
}
func randPfx(r *mrand.Rand, n int) string {
	b := make([]byte, n)
	for i := range b {
		b[i] = byte('0' + r.Intn(2))
	}
	return string(b)
}
func randHash(r *mrand.Rand) string {
	b := make([]byte, 32)
	r.Read(b)
	return fmt.Sprintf("%x", b)
}
func hexDecode(h string) ([]byte, error) { return hex.DecodeString(h) }

// ------------------------------------------------------------ S->C: behaviours

type vLeaf struct {
	Pfx string `json:"pfx"`
	Tip
}
type vStep struct {
	T       string  `json:"t"`
	Kind    string  `json:"kind"`
	Wc      string  `json:"wc"`
	Pfx     string  `json:"pfx"`
	PfxBits int     `json:"pfxbits"`
	Prefix  string  `json:"prefix"`
	Seqno   uint32  `json:"seqno"`
	Root    string  `json:"root"`
	File    string  `json:"file"`
	Am      int     `json:"am"`
	As      int     `json:"as"`
	Ctor    int     `json:"ctor"`
	Prevs   []Tip   `json:"prevs"`
	Leaves  []vLeaf `json:"leaves"`
}
type vBeh struct {
	Vec   int     `json:"vec"`
	Wc    string  `json:"wc"`
	Init  []vLeaf `json:"init"`
	Steps []vStep `json:"steps"`
}

func resetEvent(wc int32, cfg []vLeaf, mcseqno uint32) ev.M {
	sh := []ev.M{}
	for _, l := range cfg {
		m := l.Tip.m()
		m["pfx"] = l.Pfx
		sh = append(sh, m)
	}
	return ev.M{"k": "Reset", "wc": strconv.Itoa(int(wc)), "shards": sh, "mcseqno": num(mcseqno)}
}

func leavesOf(ls []vLeaf) []Leaf {
	out := make([]Leaf, len(ls))
	for i, l := range ls {
		out[i] = Leaf{Pfx: l.Pfx, Tip: l.Tip}
	}
	return out
}

// Replay (S->C): every behaviour TLC printed, step by step through the real code.
func Replay(in string, w *ev.Writer) error {
	w.Sync = true
	f, err := os.Open(in)
	if err != nil {
		return err
	}
	defer f.Close()
	rd := bufio.NewReaderSize(f, 1<<22)
	for {
		line, err := rd.ReadBytes('\n')
		if len(bytes.TrimSpace(line)) > 0 {
			var b vBeh
			if e := json.Unmarshal(line, &b); e != nil {
				return fmt.Errorf("bad vector: %w", e)
			}
			wc64, e := strconv.ParseInt(b.Wc, 10, 32)
			if e != nil {
				return fmt.Errorf("bad workchain: %w", e)
			}
			d := &D{w: w, r: mrand.New(mrand.NewSource(int64(b.Vec)*7907 + 13)), x: ev.M{"vec": b.Vec, "step": -1}}
			d.emit(resetEvent(int32(wc64), b.Init, 0))
			for i, s := range b.Steps {
				d.x["step"] = i
				if s.T == "blk" {
					bi := BlkIn{Wc: int32(wc64), PfxBits: s.PfxBits, Prefix: parse64(s.Prefix), Own: Tip{s.Seqno, s.Root, s.File}, Am: s.Am, As: s.As, Ctor: s.Ctor, Prevs: s.Prevs}
					d.Parents("Blk", "cell", bi)
					d.Parents("Parents", "struct", bi)
					d.around(s.Pfx, true)
				} else {
					wcs := []WcTree{{Wc: int32(wc64), Leaves: leavesOf(s.Leaves)}}
					if i%2 == 1 { // a second workchain with one shard next to it: the order across workchains is not part of the expectation
						wcs = append(wcs, WcTree{Wc: int32(wc64) + 5, Leaves: []Leaf{{Pfx: "", Tip: Tip{Seqno: 9, Root: randHash(d.r), File: randHash(d.r)}}}})
					}
					d.ShardIDs("Mc", int32(wc64), s.Seqno, wcs)
				}
			}
		}
		if err == io.EOF {
			break
		}
		if err != nil {
			return err
		}
	}
	w.Emit(ev.M{"k": "End", "events": w.N})
	return nil
}

var _ = boc.NewCell
