package x08

import (
	mrand "math/rand"
	"sort"

	"verifharness/internal/ev"
)

// chain is the driver's own random shard chain (random hashes, any depth up to 60).
type chain struct {
	d     *D
	wc    int32
	sh    map[string]Tip // live shards
	pend  map[string]Tip // second halves of splits not yet made: child prefix -> last block of the parent
	mcSeq uint32
	max   int
}

func (c *chain) tip(seqno uint32) Tip { return Tip{Seqno: seqno, Root: randHash(c.d.r), File: randHash(c.d.r)} }

func (c *chain) keys(m map[string]Tip) []string {
	ks := make([]string, 0, len(m))
	for k := range m {
		ks = append(ks, k)
	}
	sort.Strings(ks)
	return ks
}

func (c *chain) config() []vLeaf {
	var out []vLeaf
	for _, k := range c.keys(c.sh) {
		out = append(out, vLeaf{Pfx: k, Tip: c.sh[k]})
	}
	// left to right = increasing identifier
	sort.Slice(out, func(i, j int) bool { return idOfPrefix(out[i].Pfx) < idOfPrefix(out[j].Pfx) })
	return out
}

func prefixBits(p string) uint64 { return idOfPrefix(p) &^ (uint64(1) << uint(63-len(p))) }

func (c *chain) block(p string, own Tip, am, as int, prevs ...Tip) {
	b := BlkIn{Wc: c.wc, PfxBits: len(p), Prefix: prefixBits(p), Own: own, Am: am, As: as, Ctor: am, Prevs: prevs}
	c.d.Parents("Blk", "cell", b)
	if c.d.r.Intn(3) == 0 {
		c.d.Parents("Parents", "struct", b)
	}
	if c.d.r.Intn(2) == 0 {
		c.d.around(p, c.d.r.Intn(3) > 0)
	}
	if c.d.r.Intn(4) == 0 {
		c.d.IdText(c.wc, idOfPrefix(p), own.Seqno)
	}
}

func (c *chain) newBlock(p string) {
	t := c.tip(c.sh[p].Seqno + 1)
	c.block(p, t, 0, 0, c.sh[p])
	c.sh[p] = t
}
func (c *chain) half(q string, par Tip) {
	t := c.tip(par.Seqno + 1)
	c.block(q, t, 0, 1, par)
	c.sh[q] = t
}
func (c *chain) split(p string) {
	par := c.sh[p]
	delete(c.sh, p)
	a, b := p+"0", p+"1"
	if c.d.r.Intn(2) == 0 {
		a, b = b, a
	}
	c.half(a, par)
	if c.d.r.Intn(3) == 0 {
		c.pend[b] = par // the other half comes later
	} else {
		c.half(b, par)
	}
}
func (c *chain) merge(p string) {
	l, r := c.sh[p+"0"], c.sh[p+"1"]
	s := l.Seqno
	if r.Seqno > s {
		s = r.Seqno
	}
	t := c.tip(s + 1)
	c.block(p, t, 1, 0, l, r)
	delete(c.sh, p+"0")
	delete(c.sh, p+"1")
	c.sh[p] = t
}
func (c *chain) mc() {
	c.mcSeq++
	wcs := []WcTree{{Wc: c.wc, Leaves: leavesOf(c.config())}}
	for i := 0; i < c.d.r.Intn(3); i++ {
		o := []int32{-7, 3, 1 << 30, -1 << 31, 1<<31 - 1, 12}[c.d.r.Intn(6)] + int32(i)
		if o == c.wc || (i > 0 && o == wcs[len(wcs)-1].Wc) {
			continue
		}
		ls := []Leaf{{Pfx: "", Tip: c.tip(uint32(c.d.r.Intn(1000) + 1))}}
		if c.d.r.Intn(2) == 0 {
			ls = []Leaf{{Pfx: "0", Tip: c.tip(uint32(c.d.r.Intn(1000) + 1)), TagA: true}, {Pfx: "10", Tip: c.tip(5), Fsm: 1}, {Pfx: "11", Tip: c.tip(6), Fsm: 2}}
		}
		wcs = append(wcs, WcTree{Wc: o, Leaves: ls})
	}
	c.d.ShardIDs("Mc", c.wc, c.mcSeq, wcs)
}

func (c *chain) merges() []string {
	var out []string
	for _, k := range c.keys(c.sh) {
		if len(k) > 0 && k[len(k)-1] == '0' {
			if _, ok := c.sh[k[:len(k)-1]+"1"]; ok {
				out = append(out, k[:len(k)-1])
			}
		}
	}
	return out
}

func (c *chain) step() {
	r := c.d.r
	if len(c.pend) > 0 && r.Intn(2) == 0 {
		q := c.keys(c.pend)[r.Intn(len(c.pend))]
		par := c.pend[q]
		delete(c.pend, q)
		c.half(q, par)
		return
	}
	live := c.keys(c.sh)
	switch k := r.Intn(10); {
	case k < 3:
		c.newBlock(live[r.Intn(len(live))])
	case k < 6:
		var can []string
		for _, p := range live {
			if len(p) < c.max {
				can = append(can, p)
			}
		}
		if len(can) == 0 || len(live) > 40 {
			c.newBlock(live[r.Intn(len(live))])
			return
		}
		c.split(can[r.Intn(len(can))])
	case k < 8:
		ms := c.merges()
		if len(ms) == 0 {
			c.newBlock(live[r.Intn(len(live))])
			return
		}
		c.merge(ms[r.Intn(len(ms))])
	default:
		if len(c.pend) == 0 {
			c.mc()
		}
	}
}

// deep splits along one path down to depth 60 and merges everything back.
func (c *chain) deep() {
	p := ""
	for k := range c.sh {
		p = k
		break
	}
	for len(p) < 60 {
		c.split(p)
		for q, par := range c.pend {
			delete(c.pend, q)
			c.half(q, par)
		}
		p += string(byte('0' + c.d.r.Intn(2)))
		if c.d.r.Intn(6) == 0 {
			c.newBlock(p)
		}
	}
	c.mc()
	for len(p) > 0 {
		p = p[:len(p)-1]
		if _, ok := c.sh[p+"0"]; !ok {
			break
		}
		if _, ok := c.sh[p+"1"]; !ok {
			break
		}
		c.merge(p)
	}
	c.mc()
}

func (d *D) newChain(maxDepth int) *chain {
	wcs := []int32{0, 0, 0, 1, -5, 1<<31 - 1, -1 << 31, 77}
	c := &chain{d: d, wc: wcs[d.r.Intn(len(wcs))], sh: map[string]Tip{}, pend: map[string]Tip{}, max: maxDepth, mcSeq: uint32(d.r.Intn(1 << 20))}
	// start from the undivided workchain or from a configuration two levels down
	if d.r.Intn(3) == 0 {
		for _, p := range []string{"00", "01", "1"} {
			c.sh[p] = c.tip(uint32(d.r.Intn(1 << 24)))
		}
	} else {
		c.sh[""] = c.tip(uint32(d.r.Intn(3)) * uint32(d.r.Intn(1<<24)))
	}
	d.emit(resetEvent(c.wc, c.config(), c.mcSeq))
	return c
}

// alone puts a free-standing event into its own segment, so that every such event gets its own verdict.
func (d *D) alone(f func()) {
	d.emit(resetEvent(0, []vLeaf{{Pfx: "", Tip: Tip{Seqno: 0, Root: randHash(d.r), File: randHash(d.r)}}}, 0))
	f()
}

var idTexts = []string{"(0,8000000000000000,1)", "(-1,8000000000000000,4294967295)", "(0,8000000000000000,4294967296)", "", "(", "()", "(0,,1)", "(0,xyz,1)",
	"(0,10000000000000000,1)", "(2147483648,8,1)", "(-2147483648,8,1)", "(-2147483649,8,1)", "0,8,1", "(0,8,1", "(0,8,1)x", "(0,8000000000000000,-1)",
	"(0,0x8,1)", "(0,8000000000000000,1,2)", "(0;8000000000000000;1)", "(0,-8,1)", "(0,ffffffffffffffff,0)", "(0,FFFFFFFFFFFFFFFF,0)", "(a,8,1)", "(0,8,1.5)",
	"(0,8000000000000000,00000000000000000000000000000000000001)", "(99999999999999999999,8,1)", "((0,8,1))", "(0,8,1))", "[0,8,1]"}

// adversarial: inputs at the edge of and outside the formats.
func (d *D) adversarial(n int) {
	r := d.r
	tip := func(s uint32) Tip { return Tip{Seqno: s, Root: randHash(r), File: randHash(r)} }
	seqs := []uint32{0, 1, 1<<31 - 1, 1 << 31, 1<<32 - 1}
	for i := 0; i < n; i++ {
		s := seqs[r.Intn(len(seqs))]
		// shard_pfx_bits at and beyond the limit of #<= 60, in both header forms
		for _, pb := range []int{0, 1, 59, 60, 61, 62, 63} {
			p := randPfx(r, pb)
			for _, src := range []string{"cell", "struct"} {
				for _, mode := range [][2]int{{0, 0}, {0, 1}, {1, 0}} {
					if r.Intn(3) > 0 && pb > 1 && pb < 59 {
						continue
					}
					b := BlkIn{Wc: int32(r.Intn(5) - 2), PfxBits: pb, Prefix: prefixBits(p), Own: tip(s), Am: mode[0], As: mode[1], Ctor: mode[0], Prevs: []Tip{tip(s), tip(seqs[r.Intn(len(seqs))])}}
					if mode[0] == 0 {
						b.Prevs = b.Prevs[:1]
					}
					d.alone(func() { d.Parents("Parents", src, b) })
				}
			}
		}
		// struct only: values that do not fit six bits
		for _, pb := range []int{64, 65, 127, 255} {
			b := BlkIn{Wc: 0, PfxBits: pb, Prefix: r.Uint64(), Own: tip(s), Am: r.Intn(2), Prevs: []Tip{tip(1), tip(2)}}
			b.Ctor = b.Am
			d.alone(func() { d.Parents("Parents", "struct", b) })
		}
		// the constructor of BlkPrevInfo against after_merge; after_merge and after_split together; bits below the tag position
		pb := r.Intn(59) + 1
		p := randPfx(r, pb)
		for _, src := range []string{"cell", "struct"} {
			for _, am := range []int{0, 1} {
				b := BlkIn{Wc: 0, PfxBits: pb, Prefix: prefixBits(p), Own: tip(s), Am: am, As: r.Intn(2) * (1 - am), Ctor: 1 - am, Prevs: []Tip{tip(3), tip(4)}}
				d.alone(func() { d.Parents("Parents", src, b) })
			}
			b := BlkIn{Wc: 0, PfxBits: pb, Prefix: prefixBits(p), Own: tip(s), Am: 1, As: 1, Ctor: 1, Prevs: []Tip{tip(3), tip(4)}}
			d.alone(func() { d.Parents("Parents", src, b) })
			b = BlkIn{Wc: 0, PfxBits: pb, Prefix: prefixBits(p) | 1<<uint(r.Intn(63-pb)), Own: tip(s), Am: r.Intn(2), Prevs: []Tip{tip(3), tip(4)}}
			b.Ctor = b.Am
			if b.Am == 0 {
				b.As = r.Intn(2)
				b.Prevs = b.Prevs[:1]
			}
			d.alone(func() { d.Parents("Parents", src, b) })
			// valid headers with large sequence numbers and extreme workchains
			b = BlkIn{Wc: []int32{-1 << 31, 1<<31 - 1, -1, 0}[r.Intn(4)], PfxBits: pb, Prefix: prefixBits(p), Own: tip(s), Am: r.Intn(2), Prevs: []Tip{tip(seqs[r.Intn(5)]), tip(seqs[r.Intn(5)])}}
			b.Ctor = b.Am
			if b.Am == 0 {
				b.As = r.Intn(2)
				b.Prevs = b.Prevs[:1]
			}
			d.alone(func() { d.Parents("Parents", src, b) })
		}
		// shard identifiers: none, the whole workchain, the deepest, deeper than 60, every tag position now and then
		for _, id := range []uint64{0, 1 << 63, 1, 2, 4, 8, 16, ^uint64(0), 1<<63 | 1, idOfPrefix(randPfx(r, 60)), idOfPrefix(randPfx(r, 61)), idOfPrefix(randPfx(r, 63)),
			idOfPrefix(randPfx(r, r.Intn(64)))} {
			d.alone(func() { d.Parse(id) })
			if id != 0 {
				d.alone(func() { d.MatchBlk(id, 0) })
				d.alone(func() { d.MatchBlk(id, idOfPrefix(randPfx(r, 63))) })
				d.alone(func() { d.MatchBlk(id, id) })
				d.alone(func() { d.MatchAcc(id, r.Uint64()) })
				d.alone(func() { d.MatchAcc(id, id) })
				d.alone(func() { d.MatchAcc(id, id-1) })
			}
		}
		d.alone(func() { d.around(randPfx(r, r.Intn(61)), false) })
		// configurations: next_validator_shard that is not the path, seq_no 0, both descriptor forms, large seq_no, three workchains, none
		a, bb := idOfPrefix("1"), idOfPrefix("0")
		d.alone(func() {
			d.ShardIDs("ShardIDs", 0, 1, []WcTree{{Wc: 0, Leaves: []Leaf{{Pfx: "0", Tip: tip(4), Nvs: &a}, {Pfx: "1", Tip: tip(5), Nvs: &bb}}}})
		})
		d.alone(func() {
			d.ShardIDs("ShardIDs", 0, 1, []WcTree{{Wc: 0, Leaves: []Leaf{{Pfx: "0", Tip: tip(0)}, {Pfx: "10", Tip: tip(1 << 31), TagA: true}, {Pfx: "11", Tip: tip(1<<32 - 1), Fsm: 2}}},
				{Wc: -1 << 31, Leaves: []Leaf{{Pfx: "", Tip: tip(0)}}}, {Wc: 1<<31 - 1, Leaves: []Leaf{{Pfx: "", Tip: tip(2), Fsm: 1, TagA: true}}}})
		})
		d.alone(func() { d.ShardIDs("ShardIDs", 0, 1, []WcTree{}) })
		// malformed trees
		d.alone(func() {
			d.ShardIDs("ShardIDs", 0, 1, []WcTree{{Wc: 0, ForkOneRef: true, Leaves: []Leaf{{Pfx: "0", Tip: tip(4)}, {Pfx: "1", Tip: tip(5)}}}})
		})
		d.alone(func() {
			d.ShardIDs("ShardIDs", 0, 1, []WcTree{{Wc: 0, ForkExtra: true, Leaves: []Leaf{{Pfx: "0", Tip: tip(4)}, {Pfx: "1", Tip: tip(5)}}}})
		})
		d.alone(func() {
			d.ShardIDs("ShardIDs", 0, 1, []WcTree{{Wc: 0, Leaves: []Leaf{{Pfx: "0", Tip: tip(4)}, {Pfx: "1", Tip: tip(5), Short: 100 + r.Intn(700)}}}})
		})
		d.alone(func() {
			d.ShardIDs("ShardIDs", 0, 1, []WcTree{{Wc: 0, Leaves: []Leaf{{Pfx: "0", Tip: tip(4), BadTag: true}, {Pfx: "1", Tip: tip(5)}}}})
		})
		for j := 0; j < 6; j++ {
			t := idTexts[(i*6+j)%len(idTexts)]
			d.alone(func() { d.ParseId(t) })
		}
		d.alone(func() { d.IdText(int32(r.Uint32()), r.Uint64(), r.Uint32()) })
		d.alone(func() { d.IdText(-1, 1<<63, seqs[r.Intn(5)]) })
		d.alone(func() { d.IdText(0, uint64(r.Intn(1<<16)), 0) })
	}
}

// Drive (C->S): random chains and the adversarial inputs.
func Drive(w *ev.Writer, o Opts) {
	w.Sync = true
	d := &D{w: w, r: mrand.New(mrand.NewSource(o.Seed*1000003 + int64(o.Shard)*7919 + 61)), x: ev.M{}}
	chains, steps, adv, deeps := 6, 25, 2, 1
	if o.Tier == "thorough" {
		chains, steps, adv, deeps = 40, 60, 12, 4
	}
	for i := 0; i < chains; i++ {
		c := d.newChain([]int{3, 5, 8, 60}[d.r.Intn(4)])
		for k := 0; k < steps; k++ {
			c.step()
		}
	}
	for i := 0; i < deeps; i++ {
		d.newChain(60).deepFromRoot()
	}
	d.adversarial(adv)
	w.Emit(ev.M{"k": "End", "events": w.N})
}

func (c *chain) deepFromRoot() {
	// finish pending halves first (none right after newChain), then go down one path
	if len(c.sh) != 1 {
		for len(c.merges()) > 0 {
			c.merge(c.merges()[0])
		}
	}
	c.deep()
}
