package c05

import (
	"bufio"
	"encoding/json"
	"fmt"
	"os"
	"reflect"
	"regexp"
	"sort"
	"strconv"

	"github.com/tonkeeper/tongo/boc"
	"github.com/tonkeeper/tongo/tlb"

	"verifharness/internal/ev"
	"verifharness/internal/tlbx"
)

// Key operations of every key-capable type of package tlb (spec/KeyOps.tla, judged by spec/trace/KeyOps_Trace.tla).
// The types are found by reflection in tlbx.Registry: whatever has FixedSize / Equal / Compare is a key type; whatever has
// only FixedSize is a fixed-width type. The (kind, n) a type stands for is read off its NAME (UintN / IntN / BitsN are the
// TL-B types uintN / intN / bitsN; AddressWithWorkchain is the 288-bit key of suspended_address_list), never off the
// methods under test.

var (
	tKeyC      = reflect.TypeOf((*keyC)(nil)).Elem()
	tFixedOnly = reflect.TypeOf((*interface{ FixedSize() int })(nil)).Elem()
	reKeyName  = regexp.MustCompile(`^tlb\.(Uint|Int|Bits)(\d+)$`)
)

// KeyType is one reflected type with the key type (kind, n) its name denotes.
type KeyType struct {
	Name string
	T    reflect.Type
	Kind string
	N    int
	Full bool // has Equal and Compare as well
}

func classify(name string) (string, int, bool) {
	if name == "tlb.AddressWithWorkchain" {
		return "a", 288, true
	}
	m := reKeyName.FindStringSubmatch(name)
	if m == nil {
		return "", 0, false
	}
	n, _ := strconv.Atoi(m[2])
	return map[string]string{"Uint": "u", "Int": "i", "Bits": "b"}[m[1]], n, true
}

// KeyTypes lists the fixed-width types of package tlb in name order; unclassified holds the names of types that have a
// FixedSize method but no (kind, n) reading.
func KeyTypes() (out []KeyType, unclassified []string) {
	var names []string
	for n := range tlbx.Registry {
		names = append(names, n)
	}
	sort.Strings(names)
	for _, name := range names {
		t := tlbx.Registry[name]
		if t.PkgPath() != "github.com/tonkeeper/tongo/tlb" || !t.Implements(tFixedOnly) {
			continue
		}
		kind, n, ok := classify(name)
		if !ok {
			unclassified = append(unclassified, name)
			continue
		}
		out = append(out, KeyType{Name: name, T: t, Kind: kind, N: n, Full: t.Implements(tKeyC)})
	}
	return out, unclassified
}

// build makes a value of type t from n bits with the library's own codec; rem = bits the decoder left unread.
func build(t reflect.Type, bits string) (v reflect.Value, rem int, err error) {
	p := reflect.New(t)
	c := cellFromBits(bits)
	err = safely(func() error { return tlb.Unmarshal(c, p.Interface()) })
	return p.Elem(), c.BitsAvailableForRead(), err
}

func encBits(v reflect.Value) (string, error) {
	var s string
	err := safely(func() error {
		var e error
		s, e = bitsOf(v.Interface())
		return e
	})
	return s, err
}

type keyVec struct {
	Kind  string   `json:"kind"`
	N     int      `json:"n"`
	Vals  []string `json:"vals"`
	Pairs [][2]int `json:"pairs"`
}

// KeyOps calls FixedSize / Equal / Compare of every key type on the pairs TLC generated for its (kind, n).
func KeyOps(in string, w *ev.Writer, shard, shards int) error {
	f, err := os.Open(in)
	if err != nil {
		return err
	}
	defer f.Close()
	vecs := map[string]keyVec{}
	sc := bufio.NewScanner(f)
	sc.Buffer(make([]byte, 1<<20), 1<<26)
	for sc.Scan() {
		var v keyVec
		if err := json.Unmarshal(sc.Bytes(), &v); err != nil {
			return err
		}
		vecs[fmt.Sprintf("%s%d", v.Kind, v.N)] = v
	}
	if err := sc.Err(); err != nil {
		return err
	}
	types, uncl := KeyTypes()
	if shards < 1 {
		shards = 1
	}
	if shard == 0 {
		for _, n := range uncl {
			w.Emit(ev.M{"k": "Unclassified", "type": n})
		}
	}
	// a key type of the same width and another kind (or any other key type) for the Foreign event
	other := func(kt KeyType) *KeyType {
		var any *KeyType
		for i := range types {
			o := &types[i]
			if !o.Full || o.Name == kt.Name {
				continue
			}
			if o.N == kt.N {
				return o
			}
			if any == nil && o.Kind != "a" {
				any = o
			}
		}
		return any
	}
	for ti, kt := range types {
		if ti%shards != shard {
			continue
		}
		base := ev.M{"type": kt.Name, "kind": kt.Kind, "n": kt.N}
		with := func(k string, extra ev.M) ev.M {
			m := ev.M{"k": k}
			for a, b := range base {
				m[a] = b
			}
			for a, b := range extra {
				m[a] = b
			}
			return m
		}
		if !kt.Full {
			// fixed-width, not key-capable: FixedSize and the width the codec writes for the zero value
			m := with("Size", ev.M{"fs": -1, "w": -1})
			z := reflect.New(kt.T).Elem()
			err := safely(func() error {
				m["fs"] = z.Interface().(interface{ FixedSize() int }).FixedSize()
				s, e := bitsOf(z.Interface())
				m["w"] = len(s)
				return e
			})
			if err != nil {
				m = with("KeyFail", ev.M{"op": "Size", "err": err.Error()})
			}
			w.Emit(m)
			continue
		}
		v, ok := vecs[fmt.Sprintf("%s%d", kt.Kind, kt.N)]
		if !ok {
			w.Emit(with("NoVector", nil))
			continue
		}
		vals := make([]reflect.Value, len(v.Vals))
		rems := make([]int, len(v.Vals))
		encs := make([]string, len(v.Vals))
		bad := false
		for i, bits := range v.Vals {
			var err error
			vals[i], rems[i], err = build(kt.T, bits)
			if err == nil {
				encs[i], err = encBits(vals[i])
			}
			if err != nil {
				w.Emit(with("KeyFail", ev.M{"op": "build", "a": bits, "err": err.Error()}))
				bad = true
			}
		}
		if bad {
			continue
		}
		for _, p := range v.Pairs {
			i, j := p[0]-1, p[1]-1 // TLC sequences are 1-based
			a, b := vals[i].Interface().(keyC), vals[j].Interface().(keyC)
			m := with("Key", ev.M{"a": v.Vals[i], "b": v.Vals[j], "ea": encs[i], "eb": encs[j], "rem": rems[i] + rems[j]})
			err := safely(func() error {
				m["fs"] = a.FixedSize()
				m["eq"], m["req"] = a.Equal(vals[j].Interface()), b.Equal(vals[i].Interface())
				m["cmp"], m["ok"] = a.Compare(vals[j].Interface())
				m["rcmp"], m["rok"] = b.Compare(vals[i].Interface())
				return nil
			})
			if err != nil {
				m = with("KeyFail", ev.M{"op": "call", "a": v.Vals[i], "b": v.Vals[j], "err": err.Error()})
			}
			w.Emit(m)
		}
		// a key of another key type holding the same leading bits: never equal, not comparable
		if o := other(kt); o != nil {
			if ov, ok2 := vecs[fmt.Sprintf("%s%d", o.Kind, o.N)]; ok2 && len(ov.Vals) > 0 && len(v.Vals) > 0 {
				x, _, e1 := build(kt.T, v.Vals[0])
				y, _, e2 := build(o.T, ov.Vals[0])
				if e1 == nil && e2 == nil {
					m := with("Foreign", ev.M{"other": o.Name, "a": v.Vals[0], "b": ov.Vals[0]})
					err := safely(func() error {
						a, b := x.Interface().(keyC), y.Interface().(keyC)
						m["eq"], m["req"] = a.Equal(y.Interface()), b.Equal(x.Interface())
						m["cmp"], m["ok"] = a.Compare(y.Interface())
						m["rcmp"], m["rok"] = b.Compare(x.Interface())
						return nil
					})
					if err != nil {
						m = with("KeyFail", ev.M{"op": "foreign", "other": o.Name, "err": err.Error()})
					}
					w.Emit(m)
				}
			}
		}
	}
	w.Emit(ev.M{"k": "End", "events": w.N})
	return nil
}

var _ = boc.NewCell
