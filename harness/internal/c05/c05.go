// Package c05 drives tlb.HashmapE for property C05: replays TLC-generated behaviours of the abstract
// dictionary (S->C) and records random executions (C->S), both as traces for spec/trace/Dict_Trace.tla.
package c05

import (
	"bufio"
	"encoding/hex"
	"encoding/json"
	"fmt"
	"math/rand"
	"os"
	"sort"
	"strings"

	"github.com/tonkeeper/tongo/boc"
	"github.com/tonkeeper/tongo/tlb"

	"verifharness/internal/cells"
	"verifharness/internal/ev"
)

type keyC interface {
	FixedSize() int
	Equal(other any) bool
	Compare(other any) (int, bool)
}

// Dict is a HashmapE[K, Uint32] behind key/value bit strings.
type Dict interface {
	Put(k, v string) error
	Get(k string) (bool, string, error)
	Items() ([][2]string, error)
	Enc() (*boc.Cell, error)
	Dec(c *boc.Cell) (Dict, error)
	// Build: a dictionary made by the library's constructor from key and value lists in the order given
	Build(pairs [][2]string) (Dict, error)
	// DecInto decodes a cell INTO this object (a reused variable): afterwards it holds what the cell denotes, nothing of before
	DecInto(c *boc.Cell) error
	// Cols: Keys() and Values() of the dictionary
	Cols() (keys, vals []string, err error)
	// JSON: json.Marshal of the dictionary (HashmapE.MarshalJSON)
	JSON() ([]byte, error)
	// Plain decodes the hashmap cell of an encoded HashmapE (its first reference; nil = empty) into a second, plain
	// tlb.Hashmap and returns its Items(), Keys(), Values() and JSON form (Hashmap.MarshalJSON)
	Plain(root *boc.Cell) (items [][2]string, keys, vals []string, js []byte, err error)
}

func cellFromBits(bits string) *boc.Cell {
	c := boc.NewCell()
	for _, ch := range bits {
		if err := c.WriteBit(ch == '1'); err != nil {
			panic(err)
		}
	}
	return c
}

func bitsOf(v any) (string, error) {
	c := boc.NewCell()
	if err := tlb.Marshal(c, v); err != nil {
		return "", err
	}
	bs := c.RawBitString()
	return bs.BinaryString(), nil
}

type gd[K keyC] struct {
	m tlb.HashmapE[K, tlb.Uint32]
}

func (d *gd[K]) key(bits string) (K, error) {
	var k K
	err := tlb.Unmarshal(cellFromBits(bits), &k)
	return k, err
}
func (d *gd[K]) Put(kb, vb string) error {
	k, err := d.key(kb)
	if err != nil {
		return err
	}
	var v tlb.Uint32
	if err := tlb.Unmarshal(cellFromBits(vb), &v); err != nil {
		return err
	}
	d.m.Put(k, v)
	return nil
}
func (d *gd[K]) Get(kb string) (bool, string, error) {
	k, err := d.key(kb)
	if err != nil {
		return false, "", err
	}
	v, ok := d.m.Get(k)
	if !ok {
		return false, "", nil
	}
	s, err := bitsOf(v)
	return true, s, err
}
func (d *gd[K]) Items() ([][2]string, error) {
	out := [][2]string{}
	for _, it := range d.m.Items() {
		k, err := bitsOf(it.Key)
		if err != nil {
			return nil, err
		}
		v, err := bitsOf(it.Value)
		if err != nil {
			return nil, err
		}
		out = append(out, [2]string{k, v})
	}
	return out, nil
}
func (d *gd[K]) Enc() (*boc.Cell, error) {
	c := boc.NewCell()
	err := tlb.Marshal(c, d.m)
	return c, err
}
func (d *gd[K]) Build(pairs [][2]string) (Dict, error) {
	var ks []K
	var vs []tlb.Uint32
	for _, p := range pairs {
		k, err := d.key(p[0])
		if err != nil {
			return nil, err
		}
		var v tlb.Uint32
		if err := tlb.Unmarshal(cellFromBits(p[1]), &v); err != nil {
			return nil, err
		}
		ks = append(ks, k)
		vs = append(vs, v)
	}
	return &gd[K]{m: tlb.NewHashmapE(ks, vs)}, nil
}
func colStrings[K keyC](ks []K, vs []tlb.Uint32) (keys, vals []string, err error) {
	keys, vals = []string{}, []string{}
	for _, k := range ks {
		s, e := bitsOf(k)
		if e != nil {
			return nil, nil, e
		}
		keys = append(keys, s)
	}
	for _, v := range vs {
		s, e := bitsOf(v)
		if e != nil {
			return nil, nil, e
		}
		vals = append(vals, s)
	}
	return keys, vals, nil
}
func (d *gd[K]) Cols() ([]string, []string, error) { return colStrings(d.m.Keys(), d.m.Values()) }
func (d *gd[K]) JSON() ([]byte, error)             { return json.Marshal(d.m) }
func (d *gd[K]) Plain(root *boc.Cell) ([][2]string, []string, []string, []byte, error) {
	var hm tlb.Hashmap[K, tlb.Uint32]
	if root != nil {
		root.ResetCounters()
		if err := tlb.Unmarshal(root, &hm); err != nil {
			return nil, nil, nil, nil, err
		}
	}
	items := [][2]string{}
	for _, it := range hm.Items() {
		k, err := bitsOf(it.Key)
		if err != nil {
			return nil, nil, nil, nil, err
		}
		v, err := bitsOf(it.Value)
		if err != nil {
			return nil, nil, nil, nil, err
		}
		items = append(items, [2]string{k, v})
	}
	keys, vals, err := colStrings(hm.Keys(), hm.Values())
	if err != nil {
		return nil, nil, nil, nil, err
	}
	js, err := json.Marshal(hm)
	return items, keys, vals, js, err
}
func (d *gd[K]) DecInto(c *boc.Cell) error {
	c.ResetCounters()
	return tlb.Unmarshal(c, &d.m)
}
func (d *gd[K]) Dec(c *boc.Cell) (Dict, error) {
	n := &gd[K]{}
	c.ResetCounters()
	err := tlb.Unmarshal(c, &n.m)
	return n, err
}

// New returns an empty dictionary for the key kind ("u" unsigned, "i" signed, "b" bits, "a" address) and width.
func New(kind string, n int) Dict {
	switch fmt.Sprintf("%s%d", kind, n) {
	case "u1":
		return &gd[tlb.Uint1]{}
	case "u2":
		return &gd[tlb.Uint2]{}
	case "u8":
		return &gd[tlb.Uint8]{}
	case "u9":
		return &gd[tlb.Uint9]{}
	case "u12":
		return &gd[tlb.Uint12]{}
	case "u15":
		return &gd[tlb.Uint15]{}
	case "u23":
		return &gd[tlb.Uint23]{}
	case "i12":
		return &gd[tlb.Int12]{}
	case "u16":
		return &gd[tlb.Uint16]{}
	case "u32":
		return &gd[tlb.Uint32]{}
	case "u64":
		return &gd[tlb.Uint64]{}
	case "i8":
		return &gd[tlb.Int8]{}
	case "i16":
		return &gd[tlb.Int16]{}
	case "i32":
		return &gd[tlb.Int32]{}
	case "i64":
		return &gd[tlb.Int64]{}
	case "b80":
		return &gd[tlb.Bits80]{}
	case "b96":
		return &gd[tlb.Bits96]{}
	case "b256":
		return &gd[tlb.Bits256]{}
	case "b264":
		return &gd[tlb.Bits264]{}
	case "b512":
		return &gd[tlb.Bits512]{}
	case "a288":
		return &gd[tlb.AddressWithWorkchain]{}
	// a sample of the generated key types the library itself never instantiates a dictionary with (Go generics need
	// static types; KeyOps covers the key operations of ALL of them by reflection)
	case "u3":
		return &gd[tlb.Uint3]{}
	case "u7":
		return &gd[tlb.Uint7]{}
	case "u24":
		return &gd[tlb.Uint24]{}
	case "u33":
		return &gd[tlb.Uint33]{}
	case "u48":
		return &gd[tlb.Uint48]{}
	case "u63":
		return &gd[tlb.Uint63]{}
	case "i3":
		return &gd[tlb.Int3]{}
	case "i7":
		return &gd[tlb.Int7]{}
	case "i24":
		return &gd[tlb.Int24]{}
	case "i33":
		return &gd[tlb.Int33]{}
	case "i63":
		return &gd[tlb.Int63]{}
	case "b128":
		return &gd[tlb.Bits128]{}
	case "b320":
		return &gd[tlb.Bits320]{}
	case "b352":
		return &gd[tlb.Bits352]{}
	}
	return nil
}

var AllTypes = [][2]any{{"u", 1}, {"u", 2}, {"u", 8}, {"u", 9}, {"u", 12}, {"u", 15}, {"u", 23}, {"i", 12}, {"u", 16}, {"u", 32}, {"u", 64},
	{"i", 8}, {"i", 16}, {"i", 32}, {"i", 64}, {"b", 80}, {"b", 96}, {"b", 256}, {"b", 264}, {"b", 512}, {"a", 288},
	{"u", 3}, {"u", 7}, {"u", 24}, {"u", 33}, {"u", 48}, {"u", 63}, {"i", 3}, {"i", 7}, {"i", 24}, {"i", 33}, {"i", 63}, {"b", 128}, {"b", 320}, {"b", 352}}

// rec records one dictionary's life as a Dict_Trace segment.
type rec struct {
	w    *ev.Writer
	d    Dict
	kind string
	n    int
	last *boc.Cell
	puts int
	rng  *rand.Rand // label forms / filler fields of the shard states built for Balances
}

func safely(f func() error) (err error) {
	defer func() {
		if r := recover(); r != nil {
			err = fmt.Errorf("panic: %v", r)
		}
	}()
	return f()
}

func (r *rec) reset(kind string, n int, src string) {
	r.kind, r.n = kind, n
	r.d = New(kind, n)
	r.last = nil
	r.w.Emit(ev.M{"k": "Reset", "n": n, "kind": kind, "src": src})
}
func (r *rec) fail(op string, err error, extra ev.M) {
	m := ev.M{"k": "Fail", "op": op, "err": err.Error(), "kind": r.kind, "n": r.n}
	for k, v := range extra {
		m[k] = v
	}
	r.w.Emit(m)
}
func (r *rec) put(k, v string) bool {
	var items [][2]string
	err := safely(func() error {
		if err := r.d.Put(k, v); err != nil {
			return err
		}
		var e error
		items, e = r.d.Items()
		return e
	})
	if err != nil {
		r.fail("Put", err, ev.M{"key": k})
		return false
	}
	r.puts++
	if len(items) <= 64 || r.puts%64 == 0 {
		r.w.Emit(ev.M{"k": "Put", "key": k, "val": v, "size": len(items), "items": items})
	} else {
		// big maps: the full listing with every 64th Put only (the trace is quadratic otherwise); Enc / Dec list everything
		r.w.Emit(ev.M{"k": "Put", "key": k, "val": v, "size": len(items)})
	}
	return true
}
func (r *rec) get(k string) bool {
	var found bool
	var v string
	err := safely(func() error {
		var e error
		found, v, e = r.d.Get(k)
		return e
	})
	if err != nil {
		r.fail("Get", err, ev.M{"key": k})
		return false
	}
	r.w.Emit(ev.M{"k": "Get", "key": k, "found": found, "val": v})
	return true
}
func (r *rec) enc() bool {
	var c *boc.Cell
	err := safely(func() error {
		var e error
		c, e = r.d.Enc()
		return e
	})
	if err != nil {
		r.w.Emit(ev.M{"k": "Enc", "err": "e", "msg": err.Error(), "cells": []int{}, "roots": []int{0}})
		return false
	}
	r.last = c
	t := cells.Project([]*boc.Cell{c})
	r.w.Emit(ev.M{"k": "Enc", "err": "", "cells": t.Cells, "roots": t.Roots})
	// encoding is an observation: the dictionary in memory must still be the same map afterwards
	var items [][2]string
	err = safely(func() error {
		var e error
		items, e = r.d.Items()
		return e
	})
	if err != nil {
		r.fail("List", err, nil)
		return false
	}
	if len(items) <= 256 {
		r.w.Emit(ev.M{"k": "List", "size": len(items), "items": items})
	} else {
		r.w.Emit(ev.M{"k": "List", "size": len(items), "items": append(append([][2]string{}, items[:128]...), items[len(items)-128:]...), "part": true})
	}
	return true
}

// dec decodes the last encoding into a fresh dictionary object, which replaces the current one.
func (r *rec) dec() bool {
	if r.last == nil {
		return false
	}
	var items [][2]string
	err := safely(func() error {
		nd, e := r.d.Dec(r.last)
		if e != nil {
			return e
		}
		r.d = nd
		items, e = nd.Items()
		return e
	})
	if err != nil {
		r.w.Emit(ev.M{"k": "Dec", "err": "e", "msg": err.Error(), "items": [][2]string{}})
		return false
	}
	r.w.Emit(ev.M{"k": "Dec", "err": "", "items": items})
	return true
}

// load decodes a foreign bag.
func (r *rec) load(bocHex string) bool {
	var items [][2]string
	err := safely(func() error {
		b, e := hex.DecodeString(bocHex)
		if e != nil {
			return e
		}
		roots, e := boc.DeserializeBoc(b)
		if e != nil {
			return e
		}
		nd, e := r.d.Dec(roots[0])
		if e != nil {
			return e
		}
		r.d = nd
		r.last = roots[0]
		items, e = nd.Items()
		return e
	})
	if err != nil {
		r.w.Emit(ev.M{"k": "Load", "err": "e", "msg": err.Error(), "boc": bocHex, "items": [][2]string{}})
		return false
	}
	r.w.Emit(ev.M{"k": "Load", "err": "", "boc": bocHex, "items": items})
	return true
}

// loadInto decodes a bag into the dictionary object in use (not a fresh one): a Load event like any other - what the object
// held before must not show through.
func (r *rec) loadInto(bocHex string) bool {
	var items [][2]string
	err := safely(func() error {
		b, e := hex.DecodeString(bocHex)
		if e != nil {
			return e
		}
		roots, e := boc.DeserializeBoc(b)
		if e != nil {
			return e
		}
		if e := r.d.DecInto(roots[0]); e != nil {
			return e
		}
		r.last = roots[0]
		items, e = r.d.Items()
		return e
	})
	if err != nil {
		r.w.Emit(ev.M{"k": "Load", "err": "e", "msg": err.Error(), "boc": bocHex, "items": [][2]string{}, "into": true})
		return false
	}
	r.w.Emit(ev.M{"k": "Load", "err": "", "boc": bocHex, "items": items, "into": true})
	return true
}

// bocOf: a dictionary of the given pairs, encoded by the library into a bag (hex).
func bocOf(kind string, n int, pairs [][2]string) (string, error) {
	d := New(kind, n)
	for _, p := range pairs {
		if err := d.Put(p[0], p[1]); err != nil {
			return "", err
		}
	}
	c, err := d.Enc()
	if err != nil {
		return "", err
	}
	b, err := c.ToBoc()
	if err != nil {
		return "", err
	}
	return hex.EncodeToString(b), nil
}

func sameSet(a, b [][2]string) bool {
	if len(a) != len(b) {
		return false
	}
	x := append([][2]string{}, a...)
	y := append([][2]string{}, b...)
	less := func(s [][2]string) func(i, j int) bool { return func(i, j int) bool { return s[i][0] < s[j][0] } }
	sort.Slice(x, less(x))
	sort.Slice(y, less(y))
	for i := range x {
		if x[i] != y[i] {
			return false
		}
	}
	return true
}

type step struct {
	Op    string      `json:"op"`
	K     string      `json:"k"`
	V     string      `json:"v"`
	Items [][2]string `json:"items"`
}

// Replay runs TLC-generated vectors. Lines are either {"kind","n","steps":[...]} (behaviours) or
// {"kind","n","boc","items"} (foreign dictionaries). Every vector becomes one trace segment; a disagreement with
// the vector's expectation is recorded as a Mismatch event.
func Replay(in string, w *ev.Writer) error {
	f, err := os.Open(in)
	if err != nil {
		return err
	}
	defer f.Close()
	sc := bufio.NewScanner(f)
	sc.Buffer(make([]byte, 1<<20), 1<<26)
	r := &rec{w: w, rng: rand.New(rand.NewSource(1))}
	for sc.Scan() {
		var v struct {
			Vec   int         `json:"vec"`
			Kind  string      `json:"kind"`
			N     int         `json:"n"`
			Steps []step      `json:"steps"`
			Boc   string      `json:"boc"`
			Items [][2]string `json:"items"`
			Forms []string    `json:"forms"`
		}
		if err := json.Unmarshal(sc.Bytes(), &v); err != nil {
			return err
		}
		if New(v.Kind, v.N) == nil {
			return fmt.Errorf("no Go type for key kind %s%d", v.Kind, v.N)
		}
		mismatch := func(i int, what string, got any) {
			w.Emit(ev.M{"k": "Mismatch", "vec": v.Vec, "step": i, "what": what, "got": got, "kind": v.Kind, "n": v.N})
		}
		if v.Boc != "" {
			r.reset(v.Kind, v.N, "foreign:"+strings.Join(v.Forms, ","))
			if !r.load(v.Boc) {
				mismatch(0, "load-failed", "")
				continue
			}
			items, _ := r.d.Items()
			if fmt.Sprint(items) != fmt.Sprint(v.Items) {
				mismatch(0, "load-items", items)
				continue
			}
			r.observe(true)
			for _, it := range v.Items {
				r.get(it[0])
			}
			// an update on the decoded dictionary, then encode and decode again
			if len(v.Items) > 0 {
				r.put(v.Items[0][0], v.Items[0][1])
			}
			r.enc()
			r.dec()
			continue
		}
		r.reset(v.Kind, v.N, "ops")
		for i, st := range v.Steps {
			ok := true
			switch st.Op {
			case "put":
				ok = r.put(st.K, st.V)
				if ok {
					if items, _ := r.d.Items(); !sameSet(items, st.Items) {
						mismatch(i, "put-items", items)
						ok = false
					}
				}
			case "enc":
				ok = r.enc()
			case "dec":
				ok = r.dec()
				if ok {
					if items, _ := r.d.Items(); fmt.Sprint(items) != fmt.Sprint(st.Items) {
						mismatch(i, "dec-items-order", items)
						ok = false
					}
				}
				if ok && i == len(v.Steps)-1 {
					r.observe(true) // the dictionary decoded after the updates on a decoded dictionary
				}
			case "get", "getabsent":
				ok = r.get(st.K)
				if ok {
					found, val, _ := r.d.Get(st.K)
					if (st.Op == "get" && (!found || val != st.V)) || (st.Op == "getabsent" && found) {
						mismatch(i, st.Op, val)
						ok = false
					}
				}
			default:
				return fmt.Errorf("unknown op %q", st.Op)
			}
			if !ok {
				break
			}
		}
		// the same insertion order through the constructor (lists taken as given): same tree as the one built by Put
		var pl [][2]string
		seen := map[string]bool{}
		for _, st := range v.Steps {
			if st.Op == "put" && !seen[st.K] {
				seen[st.K] = true
				pl = append(pl, [2]string{st.K, st.V})
			} else if st.Op == "put" {
				pl = nil // an overwrite: the constructor's lists have no such thing
				break
			}
		}
		if len(pl) > 0 {
			var tables []ev.M
			err := safely(func() error {
				for _, mk := range []func() (Dict, error){
					func() (Dict, error) { return New(v.Kind, v.N).Build(pl) },
					func() (Dict, error) {
						d := New(v.Kind, v.N)
						for _, p := range pl {
							if e := d.Put(p[0], p[1]); e != nil {
								return nil, e
							}
						}
						return d, nil
					}} {
					d, e := mk()
					if e != nil {
						return e
					}
					c, e := d.Enc()
					if e != nil {
						return e
					}
					t := cells.Project([]*boc.Cell{c})
					tables = append(tables, ev.M{"cells": t.Cells, "roots": t.Roots})
				}
				return nil
			})
			if err != nil {
				r.fail("Orders", err, ev.M{"order": pl})
			} else {
				w.Emit(ev.M{"k": "Orders", "items": pl, "tables": tables})
			}
		}
	}
	w.Emit(ev.M{"k": "End", "events": w.N})
	return sc.Err()
}

func randBits(rng *rand.Rand, n int) string {
	var sb strings.Builder
	mode := rng.Intn(5)
	for i := 0; i < n; i++ {
		var b bool
		switch mode {
		case 0, 1:
			b = rng.Intn(2) == 1
		case 2: // long common prefix, vary the tail
			b = i >= n-6 && rng.Intn(2) == 1
		case 3:
			b = i < n-6 || rng.Intn(2) == 1
		case 4:
			b = i < 9 || (i >= n-3 && rng.Intn(2) == 1)
		}
		if b {
			sb.WriteByte('1')
		} else {
			sb.WriteByte('0')
		}
	}
	return sb.String()
}

// fixKey maps a random bit string into the key type's domain: address keys (workchain:int32 address:bits256)
// must have a workchain that fits the library's int8 field, i.e. the top 25 bits are copies of the sign bit.
func fixKey(kind, k string) string {
	if kind != "a" {
		return k
	}
	return strings.Repeat(string(k[24]), 24) + k[24:]
}

// subset records ConfigParams.CloneKeepingSubsetOfKeys on a decoded configuration dictionary: ids requested in any order,
// some twice, some absent.
func subset(w *ev.Writer, rng *rand.Rand) {
	w.Emit(ev.M{"k": "Reset", "n": 32, "kind": "cfg", "src": "config-subset"})
	size := 1 + rng.Intn(12)
	ids := map[uint32]uint32{}
	for len(ids) < size {
		id := uint32(rng.Intn(48))
		if rng.Intn(4) == 0 {
			id = rng.Uint32()
		}
		ids[id] = rng.Uint32()
	}
	var sorted []uint32
	for id := range ids {
		sorted = append(sorted, id)
	}
	sort.Slice(sorted, func(i, j int) bool { return sorted[i] < sorted[j] })
	bits32 := func(x uint32) string { return fmt.Sprintf("%032b", x) }
	var ks []tlb.Uint32
	var vs []tlb.Ref[boc.Cell]
	src := [][2]string{}
	for _, id := range sorted {
		ks = append(ks, tlb.Uint32(id))
		vs = append(vs, tlb.Ref[boc.Cell]{Value: *cellFromBits(bits32(ids[id]))})
		src = append(src, [2]string{bits32(id), bits32(ids[id])})
	}
	var req []uint32
	for _, id := range sorted {
		switch rng.Intn(4) {
		case 0:
		case 1:
			req = append(req, id, id) // named twice
		default:
			req = append(req, id)
		}
	}
	for k := rng.Intn(3); k > 0; k-- {
		req = append(req, uint32(rng.Intn(64))) // possibly absent, possibly a repetition
	}
	rng.Shuffle(len(req), func(i, j int) { req[i], req[j] = req[j], req[i] })
	reqBits := []string{}
	for _, id := range req {
		reqBits = append(reqBits, bits32(id))
	}
	m := ev.M{"k": "Subset", "src": src, "req": reqBits, "err": "", "items": [][2]string{}, "cells": []cells.C{}, "roots": []int{}}
	err := safely(func() error {
		orig := tlb.ConfigParams{Config: tlb.NewHashmap(ks, vs)}
		c := boc.NewCell()
		if e := tlb.Marshal(c, orig); e != nil {
			return e
		}
		var decoded tlb.ConfigParams
		if e := tlb.Unmarshal(c, &decoded); e != nil {
			return e
		}
		clone := decoded.CloneKeepingSubsetOfKeys(req)
		items := [][2]string{}
		for _, it := range clone.Config.Items() {
			vb, e := bitsOf(it.Value.Value)
			if e != nil {
				return e
			}
			items = append(items, [2]string{bits32(uint32(it.Key)), vb})
		}
		m["items"] = items
		if len(items) == 0 {
			return nil
		}
		out := boc.NewCell()
		if e := tlb.Marshal(out, clone); e != nil {
			return e
		}
		root, e := out.NextRef()
		if e != nil {
			return e
		}
		t := cells.Project([]*boc.Cell{root})
		m["cells"], m["roots"] = t.Cells, t.Roots
		return nil
	})
	if err != nil {
		m["err"] = err.Error()
	}
	w.Emit(m)
}

// cluster: up to 7 keys of width n sharing a random prefix and differing only in the last t bits, t = n%8 (at least 3).
func cluster(rng *rand.Rand, kind string, n int) ([]string, map[string]string) {
	t := n % 8
	if t < 3 {
		t = 3
	}
	if t > n {
		t = n
	}
	prefix := randBits(rng, n)[:n-t]
	pairs := map[string]string{}
	for tries := 0; tries < 40 && len(pairs) < 7; tries++ {
		tail := ""
		for i := 0; i < t; i++ {
			tail += string("01"[rng.Intn(2)])
		}
		k := fixKey(kind, prefix+tail)
		if len(k) == n {
			pairs[k] = randBits(rng, 32)
		}
	}
	keys := make([]string, 0, len(pairs))
	for k := range pairs {
		keys = append(keys, k)
	}
	sort.Strings(keys)
	return keys, pairs
}

// orders: the same pairs put in different orders - by Put and through the constructor - must encode to the same tree.
func orders(r *rec, w *ev.Writer, rng *rand.Rand, kind string, n int, keys []string, pairs map[string]string) {
	small := keys
	if len(small) > 7 {
		small = small[:7]
	}
	var tables []ev.M
	items := [][2]string{}
	for _, k := range small {
		items = append(items, [2]string{k, pairs[k]})
	}
	norders := 10
	okAll := true
	for p := 0; p < norders && okAll; p++ {
		d := New(kind, n)
		ord := append([]string{}, small...)
		switch p {
		case 0:
			sort.Strings(ord)
		case 1:
			sort.Sort(sort.Reverse(sort.StringSlice(ord)))
		default:
			rng.Shuffle(len(ord), func(i, j int) { ord[i], ord[j] = ord[j], ord[i] })
		}
		err := safely(func() error {
			if p%2 == 1 || p >= 6 { // the constructor takes the lists as they are
				var pl [][2]string
				for _, k := range ord {
					pl = append(pl, [2]string{k, pairs[k]})
				}
				b, e := d.Build(pl)
				if e != nil {
					return e
				}
				d = b
			} else {
				for _, k := range ord {
					if e := d.Put(k, pairs[k]); e != nil {
						return e
					}
				}
			}
			c, e := d.Enc()
			if e != nil {
				return e
			}
			t := cells.Project([]*boc.Cell{c})
			tables = append(tables, ev.M{"cells": t.Cells, "roots": t.Roots})
			return nil
		})
		if err != nil {
			r.fail("Orders", err, ev.M{"order": ord})
			okAll = false
		}
	}
	if okAll {
		w.Emit(ev.M{"k": "Orders", "items": items, "tables": tables})
	}
}

type Opts struct {
	Tier          string
	Seed          int64
	Shard, Shards int
}

// Drive records random executions: maps of many sizes over every key type, random insertion orders, encode /
// decode / lookups / updates on the decoded dictionary, and the Orders events (same pairs, different orders).
func Drive(w *ev.Writer, o Opts) {
	rng := rand.New(rand.NewSource(o.Seed*2654435761 + int64(o.Shard)))
	r := &rec{w: w, rng: rand.New(rand.NewSource(o.Seed*31 + int64(o.Shard)))}
	rounds := 2
	maxN := 120
	if o.Tier == "thorough" {
		rounds = 4
		maxN = 2000
	}
	for round := 0; round < rounds; round++ {
		for k := 0; k < 6; k++ {
			subset(w, rng)
		}
		for ti, ty := range AllTypes {
			if (round*len(AllTypes)+ti)%o.Shards != o.Shard {
				continue
			}
			kind, n := ty[0].(string), ty[1].(int)
			size := 1 + rng.Intn(12)
			if rng.Intn(3) == 0 {
				size = rng.Intn(maxN)
			}
			if n < 16 && size > 1<<uint(n) {
				size = 1 << uint(n)
			}
			pairs := map[string]string{}
			for tries := 0; len(pairs) < size && tries < size*20; tries++ {
				pairs[fixKey(kind, randBits(rng, n))] = randBits(rng, 32)
			}
			keys := make([]string, 0, len(pairs))
			for k := range pairs {
				keys = append(keys, k)
			}
			sort.Strings(keys)
			rng.Shuffle(len(keys), func(i, j int) { keys[i], keys[j] = keys[j], keys[i] })
			r.reset(kind, n, "random")
			ok := true
			for _, k := range keys {
				if ok = r.put(k, pairs[k]); !ok {
					break
				}
			}
			if !ok {
				continue
			}
			if !r.enc() || !r.dec() {
				continue
			}
			r.observe(true)
			for i := 0; i < 5 && i < len(keys); i++ {
				r.get(keys[rng.Intn(len(keys))])
			}
			r.get(fixKey(kind, randBits(rng, n)))
			// updates on the decoded dictionary: overwrite, insert (incl. keys that sort first / last), encode again
			if len(keys) > 0 {
				r.put(keys[0], randBits(rng, 32))
			}
			extra := []string{fixKey(kind, randBits(rng, n)), strings.Repeat("1", n), strings.Repeat("0", n)}
			if n >= 8 && kind != "a" { // twins: two keys that differ in their last bit only (sibling leaves under one fork)
				tw := randBits(rng, n)[:n-1]
				extra = append(extra, tw+"0", tw+"1")
			}
			if kind == "a" { // the extreme workchains of an address key: -128 and 127
				tail := randBits(rng, n-32)
				extra = append(extra, strings.Repeat("1", 25)+strings.Repeat("0", 7)+tail, strings.Repeat("0", 25)+strings.Repeat("1", 7)+tail)
			} else if n >= 2 { // the minimum / maximum of a signed key, the top-bit boundary of an unsigned one
				extra = append(extra, "1"+strings.Repeat("0", n-1), "0"+strings.Repeat("1", n-1))
			}
			for i, nk := range extra {
				val := randBits(rng, 32)
				if n >= 8 && kind != "a" && i >= len(extra)-2 {
					val = val[:31] + "0" // the twins carry the same kind of value ("no account" where values are read as accounts)
				}
				if !r.put(nk, val) {
					break
				}
			}
			r.observe(false)        // the dictionary in memory after updates (no longer in key-bit order for signed keys)
			if r.enc() && r.enc() { // twice: the second encoding is of the dictionary the first one left in memory
				if r.dec() {
					r.observe(true)
				}
			}
			// a reused variable: another dictionary, then the EMPTY dictionary, decoded into the object that holds this one
			if len(keys) > 0 {
				other := [][2]string{{keys[0], randBits(rng, 32)}}
				if hb, err := bocOf(kind, n, other); err == nil && r.loadInto(hb) {
					r.get(keys[0])
					if he, err := bocOf(kind, n, nil); err == nil && r.loadInto(he) {
						r.get(keys[0])
						r.put(keys[0], pairs[keys[0]])
						r.enc()
					}
				}
			}
			orders(r, w, rng, kind, n, keys, pairs)
			// clustered keys: equal in every whole byte (or in all but the last byte), different in the trailing bits
			ckeys, cpairs := cluster(rng, kind, n)
			if len(ckeys) >= 2 {
				orders(r, w, rng, kind, n, ckeys, cpairs)
			}
		}
	}
	w.Emit(ev.M{"k": "End", "events": w.N})
}
