package c05

import (
	"fmt"
	"math/rand"
	"sort"
	"strconv"
	"strings"

	"github.com/tonkeeper/tongo/boc"
	"github.com/tonkeeper/tongo/tlb"

	"verifharness/internal/cells"
	"verifharness/internal/ev"
)

// Balances: ShardState.AccountBalances() on shard states whose account dictionaries (ShardAccounts =
// HashmapAugE 256 ShardAccount DepthBalanceInfo) the harness writes, bit by bit per block.tlb, from the current map of a
// 256-bit-keyed segment: account id = key; the account exists iff the value's last bit is 1; its balance is the value
// read as a number of nanograms. The dictionary cells are recorded, spec/ShardAccounts.tla decodes them on its own.

func mk(bits string, refs ...*boc.Cell) *boc.Cell {
	c := cellFromBits(bits)
	for _, r := range refs {
		if err := c.AddRef(r); err != nil {
			panic(err)
		}
	}
	return c
}

func ubits(v uint64, w int) string {
	if w == 0 {
		return ""
	}
	s := strconv.FormatUint(v, 2)
	if len(s) > w {
		panic("ubits: value does not fit")
	}
	return strings.Repeat("0", w-len(s)) + s
}

// grams: nanograms$_ amount:(VarUInteger 16): len:(#< 16) in 4 bits, then len bytes (minimal length)
func gramsBits(v uint64) string {
	n := 0
	for x := v; x > 0; x >>= 8 {
		n++
	}
	return ubits(uint64(n), 4) + ubits(v, 8*n)
}

// varU7: VarUInteger 7: len:(#< 7) in 3 bits
func varU7(v uint64) string {
	n := 0
	for x := v; x > 0; x >>= 8 {
		n++
	}
	return ubits(uint64(n), 3) + ubits(v, 8*n)
}

// depth_balance$_ split_depth:(#<= 30) balance:CurrencyCollection (no extra currencies)
func depthBalance(depth int, g uint64) string { return ubits(uint64(depth), 5) + gramsBits(g) + "0" }

func bitLen(m int) int {
	n := 0
	for ; m > 0; m >>= 1 {
		n++
	}
	return n
}

// label writes HmLabel ~len m in the form asked for (falls back to hml_long when the form cannot express it).
func labelBits(s string, m int, form int) string {
	same := strings.Count(s, "0") == len(s) || strings.Count(s, "1") == len(s)
	switch {
	case form == 0 && len(s) <= 96:
		return "0" + strings.Repeat("1", len(s)) + "0" + s
	case form == 2 && same && len(s) > 0:
		return "11" + s[:1] + ubits(uint64(len(s)), bitLen(m))
	}
	return "10" + ubits(uint64(len(s)), bitLen(m)) + s
}

type accEntry struct {
	key    string
	exists bool
	grams  uint64
	acc    *boc.Cell
}

func accountCell(rng *rand.Rand, e accEntry) *boc.Cell {
	if !e.exists {
		return mk("0") // account_none$0
	}
	var sb strings.Builder
	sb.WriteString("1")                                                    // account$1
	sb.WriteString("10" + "0" + ubits(uint64(rng.Intn(2))*255, 8) + e.key) // addr_std$10, no anycast, workchain 0 or -1, address
	sb.WriteString(varU7(uint64(rng.Intn(1 << uint(rng.Intn(20))))))       // storage_used: cells
	sb.WriteString(varU7(uint64(rng.Intn(1 << uint(rng.Intn(30))))))       // bits
	frozen := rng.Intn(3) == 0
	if !frozen && rng.Intn(3) == 0 {
		sb.WriteString("001" + randBits(rng, 256)) // storage_extra_info$001 dict_hash
	} else {
		sb.WriteString("000")
	}
	sb.WriteString(ubits(uint64(rng.Uint32()), 32)) // last_paid
	if rng.Intn(2) == 0 {
		sb.WriteString("1" + gramsBits(uint64(rng.Intn(1<<uint(rng.Intn(31)))))) // due_payment: just Grams
	} else {
		sb.WriteString("0")
	}
	sb.WriteString(ubits(rng.Uint64(), 64))  // account_storage: last_trans_lt
	sb.WriteString(gramsBits(e.grams) + "0") // balance
	if frozen {
		sb.WriteString("01" + randBits(rng, 256)) // account_frozen$01 state_hash
	} else {
		sb.WriteString("00") // account_uninit$00
	}
	return mk(sb.String())
}

// accEdge writes the edge for entries[lo:hi) (sorted by key) with `at` key bits consumed; returns the cell and the sum of balances.
func accEdge(rng *rand.Rand, es []accEntry, at int) (*boc.Cell, uint64) {
	const n = 256
	first, last := es[0].key, es[len(es)-1].key
	l := at
	for l < n && first[l] == last[l] {
		l++
	}
	lbl := labelBits(first[at:l], n-at, rng.Intn(3))
	if l == n {
		e := es[0]
		g := uint64(0)
		if e.exists {
			g = e.grams
		}
		// ahmn_leaf: extra, then account_descr$_ account:^Account last_trans_hash:bits256 last_trans_lt:uint64
		if !e.exists {
			// entries for accounts that do not exist are written identically (zero hash and lt, empty label in the long form):
			// two of them under one fork are EQUAL subtrees, which a bag of cells stores once - both references of the fork
			// then resolve to the same cell object
			return mk(labelBits(first[at:l], n-at, 1)+depthBalance(0, 0)+strings.Repeat("0", 256+64), e.acc), 0
		}
		return mk(lbl+depthBalance(0, g)+randBits(rng, 256)+ubits(rng.Uint64(), 64), e.acc), g
	}
	split := sort.Search(len(es), func(i int) bool { return es[i].key[l] == '1' })
	left, gl := accEdge(rng, es[:split], l+1)
	right, gr := accEdge(rng, es[split:], l+1)
	return mk(lbl+depthBalance(0, gl+gr), left, right), gl + gr
}

// shardAccountsCell: ahme_empty$0 extra / ahme_root$1 root:^ extra
func shardAccountsCell(rng *rand.Rand, es []accEntry) *boc.Cell {
	if len(es) == 0 {
		return mk("0" + depthBalance(0, 0))
	}
	root, total := accEdge(rng, es, 0)
	return mk("1"+depthBalance(0, total), root)
}

// unsplitState: a ShardStateUnsplit cell whose `accounts` reference is acc. Everything but that reference is the
// library's own encoding of an otherwise empty state.
func unsplitState(acc *boc.Cell) (*boc.Cell, error) {
	var st tlb.ShardStateUnsplit
	c := boc.NewCell()
	if err := tlb.Marshal(c, st); err != nil {
		return nil, err
	}
	refs := c.Refs()
	if len(refs) != 3 {
		return nil, fmt.Errorf("empty ShardStateUnsplit has %d references", len(refs))
	}
	out := boc.NewCell()
	if err := out.WriteBitString(c.RawBitString()); err != nil {
		return nil, err
	}
	for i, r := range refs {
		if i == 1 { // out_msg_queue_info, accounts, ^[...]
			r = acc
		}
		if err := out.AddRef(r); err != nil {
			return nil, err
		}
	}
	return out, nil
}

func (r *rec) balances(items [][2]string) {
	if r.rng == nil {
		r.rng = rand.New(rand.NewSource(int64(len(items))*7919 + 1))
	}
	rng := r.rng
	var es []accEntry
	for _, it := range items {
		v, err := strconv.ParseUint(it[1], 2, 64)
		if err != nil || len(it[0]) != 256 {
			return
		}
		e := accEntry{key: it[0], exists: it[1][len(it[1])-1] == '1', grams: v}
		e.acc = accountCell(rng, e)
		es = append(es, e)
	}
	sort.Slice(es, func(i, j int) bool { return es[i].key < es[j].key })
	for _, form := range []string{"unsplit", "split"} {
		var accs []*boc.Cell
		m := ev.M{"k": "Balances", "form": form, "err": "", "items": [][2]string{}, "extras": 0, "counts": []int{}, "avals": [][]string{}, "cells": []cells.C{}, "roots": []int{}}
		err := safely(func() error {
			var root *boc.Cell
			if form == "unsplit" {
				accs = []*boc.Cell{shardAccountsCell(rng, es)}
				var e error
				if root, e = unsplitState(accs[0]); e != nil {
					return e
				}
			} else {
				// split_state#5f327da5 left:^ShardStateUnsplit right:^ShardStateUnsplit: ids starting with 0 / with 1
				cut := sort.Search(len(es), func(i int) bool { return es[i].key[0] == '1' })
				accs = []*boc.Cell{shardAccountsCell(rng, es[:cut]), shardAccountsCell(rng, es[cut:])}
				l, e := unsplitState(accs[0])
				if e != nil {
					return e
				}
				rr, e := unsplitState(accs[1])
				if e != nil {
					return e
				}
				root = mk(ubits(0x5f327da5, 32), l, rr)
			}
			t := cells.Project(accs)
			m["cells"], m["roots"] = t.Cells, t.Roots
			// the entry counter that walks labels only, on the augmented dictionary cells
			counts := []int{}
			for _, a := range accs {
				extra := tlb.BlockExtra{InMsgDescrCell: *a}
				n, e := extra.InMsgDescrLength()
				if e != nil {
					return e
				}
				a.ResetCounters()
				counts = append(counts, n)
			}
			m["counts"] = counts
			// Values() of a plain HashmapAug decoded from the root edge of each account dictionary
			avals := [][]string{}
			for _, a := range accs {
				col := []string{}
				if refs := a.Refs(); len(refs) == 1 {
					var aug tlb.HashmapAug[tlb.Bits256, tlb.ShardAccount, tlb.DepthBalanceInfo]
					refs[0].ResetCounters()
					if e := tlb.Unmarshal(refs[0], &aug); e != nil {
						return e
					}
					refs[0].ResetCounters()
					for _, sa := range aug.Values() {
						if sa.Account.SumType == "AccountNone" {
							col = append(col, "none")
						} else {
							col = append(col, strconv.FormatUint(uint64(sa.Account.Account.Storage.Balance.Grams), 10))
						}
					}
				}
				avals = append(avals, col)
			}
			m["avals"] = avals
			// through a bag of cells, as a state arrives: equal cells become one shared object
			if bb, e := root.ToBoc(); e != nil {
				return e
			} else if rs, e := boc.DeserializeBoc(bb); e != nil || len(rs) != 1 {
				return fmt.Errorf("state bag does not parse back: %v", e)
			} else {
				root = rs[0]
			}
			var st tlb.ShardState
			if e := tlb.Unmarshal(root, &st); e != nil {
				return e
			}
			bal := st.AccountBalances()
			out := [][2]string{}
			extras := 0
			for k, cc := range bal {
				kb, e := bitsOf(k)
				if e != nil {
					return e
				}
				out = append(out, [2]string{kb, strconv.FormatUint(uint64(cc.Grams), 10)})
				extras += len(cc.Other.Dict.Keys())
			}
			sort.Slice(out, func(i, j int) bool { return out[i][0] < out[j][0] })
			m["items"], m["extras"] = out, extras
			return nil
		})
		if err != nil {
			m["err"], m["msg"] = "e", err.Error()
		}
		r.w.Emit(m)
	}
}
