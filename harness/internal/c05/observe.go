package c05

import (
	"bytes"
	"encoding/json"
	"fmt"

	"github.com/tonkeeper/tongo/boc"
	"github.com/tonkeeper/tongo/tlb"

	"verifharness/internal/ev"
)

// Observations of a dictionary that are no step of the abstract map (Dict_Trace: Values, Json, Count, Balances).

// obsMax: dictionaries above this size are observed through Put / Enc / Dec / List only (trace size).
const obsMax = 300

// jsonPairs lists the members of a JSON object in document order (a member named twice is listed twice); numbers
// keep their text.
func jsonPairs(js []byte) ([][2]string, error) {
	dec := json.NewDecoder(bytes.NewReader(js))
	dec.UseNumber()
	tok, err := dec.Token()
	if err != nil {
		return nil, err
	}
	if d, ok := tok.(json.Delim); !ok || d != '{' {
		return nil, fmt.Errorf("not a JSON object: %.40s", js)
	}
	pairs := [][2]string{}
	for dec.More() {
		kt, err := dec.Token()
		if err != nil {
			return nil, err
		}
		k, ok := kt.(string)
		if !ok {
			return nil, fmt.Errorf("member name is not a string")
		}
		vt, err := dec.Token()
		if err != nil {
			return nil, err
		}
		var v string
		switch x := vt.(type) {
		case json.Number:
			v = x.String()
		case string:
			v = "\"" + x + "\""
		default:
			return nil, fmt.Errorf("member %q is not a number", k)
		}
		pairs = append(pairs, [2]string{k, v})
	}
	if _, err := dec.Token(); err != nil {
		return nil, err
	}
	return pairs, nil
}

// hashmapCell returns the cell holding the Hashmap of an encoded HashmapE (nil for the empty dictionary).
func hashmapCell(root *boc.Cell) (*boc.Cell, error) {
	root.ResetCounters()
	defer root.ResetCounters()
	bit, err := root.ReadBit()
	if err != nil {
		return nil, err
	}
	if !bit {
		return nil, nil
	}
	return root.NextRef()
}

func (r *rec) obsFail(op string, err error) {
	r.fail(op, err, nil)
}

// observe records Keys() / Values() and the JSON form of the dictionary in memory and - when r.last encodes the
// current map - of a plain tlb.Hashmap decoded from it, the entry counters and the account balances (256-bit keys).
func (r *rec) observe(encoded bool) {
	var items [][2]string
	var keys, vals []string
	var js []byte
	err := safely(func() error {
		var e error
		if items, e = r.d.Items(); e != nil {
			return e
		}
		if len(items) > obsMax {
			return nil
		}
		if keys, vals, e = r.d.Cols(); e != nil {
			return e
		}
		js, e = r.d.JSON()
		return e
	})
	if err != nil {
		r.obsFail("Values", err)
		return
	}
	if len(items) > obsMax {
		return
	}
	if encoded {
		// freshly decoded: the ascending order is the order of Items() (judged at Dec / Load)
		r.w.Emit(ev.M{"k": "Values", "api": "HashmapE", "keys": keys, "vals": vals})
	} else {
		r.w.Emit(ev.M{"k": "Values", "api": "HashmapE", "items": items, "keys": keys, "vals": vals})
	}
	r.emitJSON("HashmapE", js)
	if !encoded || r.last == nil {
		return
	}
	err = safely(func() error {
		hc, e := hashmapCell(r.last)
		if e != nil {
			return e
		}
		_, keys, vals, js, e = r.d.Plain(hc)
		return e
	})
	if err != nil {
		r.obsFail("Values", err)
		return
	}
	r.w.Emit(ev.M{"k": "Values", "api": "Hashmap", "keys": keys, "vals": vals})
	r.emitJSON("Hashmap", js)
	if r.kind == "b" && r.n == 256 {
		r.count()
		r.balances(items)
	}
}

func (r *rec) emitJSON(api string, js []byte) {
	pairs, err := jsonPairs(js)
	if err != nil {
		r.w.Emit(ev.M{"k": "Json", "api": api, "kind": r.kind, "err": "e", "msg": err.Error(), "pairs": [][2]string{}, "raw": clip(string(js), 120)})
		return
	}
	r.w.Emit(ev.M{"k": "Json", "api": api, "kind": r.kind, "err": "", "pairs": pairs, "raw": clip(string(js), 120)})
}

func clip(s string, n int) string {
	if len(s) > n {
		return s[:n]
	}
	return s
}

// count: the entry counters that walk the labels of a 256-bit-keyed dictionary cell without decoding it
// (countLeafs / loadLabelSize behind BlockExtra.InMsgDescrLength and OutMsgDescrLength).
func (r *rec) count() {
	for _, api := range []string{"InMsgDescrLength", "OutMsgDescrLength"} {
		var n int
		err := safely(func() error {
			r.last.ResetCounters()
			defer r.last.ResetCounters()
			var extra tlb.BlockExtra
			var e error
			if api == "InMsgDescrLength" {
				extra.InMsgDescrCell = *r.last
				n, e = extra.InMsgDescrLength()
			} else {
				extra.OutMsgDescrCell = *r.last
				n, e = extra.OutMsgDescrLength()
			}
			return e
		})
		if err != nil {
			r.w.Emit(ev.M{"k": "Count", "api": api, "count": -1, "err": "e", "msg": err.Error()})
			continue
		}
		r.w.Emit(ev.M{"k": "Count", "api": api, "count": n, "err": ""})
	}
}
