// Package c18 drives boc.MerkleProver / boc.Cursor and tlb.ProveKeyInHashmap for property C18.
// It only builds inputs, calls the real code and records what came back (proof bytes, value, error);
// every judgement is made by spec/trace/MerkleProof_Trace.tla.
//
// Vectors (from TLC, from replay files and from the random driver alike):
//
//	{"t":"dict","n":8,"cells":[{b,x,r}..],"roots":[0],"keys":["0101..",..],"exp":[{found,v}..]?,"modes":[..]?}
//	{"t":"walk","cells":[..],"roots":[0],"script":[{"k":"Cursor","c":1},{"k":"Ref","c":1,"h":0,"nh":1,"i":0},
//	   {"k":"Prune","c":1,"h":1},{"k":"Create","c":1,"h":0},{"k":"Cursor","c":2},..],"exphash":[hex per Create]?,"modes":[..]?}
//
// "preread" (any vector): what is done to the cells BEFORE NewMerkleProver: "" nothing; "readall" every cell is partly
// read (bits and references) and nothing is reset; "prove-before" (dictionaries) another prover proves the keys first.
// The cells' read positions are no part of the tree: the specification judges as if nothing had been read.
//
// Every vector is executed on ONE MerkleProver per build mode: all keys of a dictionary vector are asked from the same
// prover in the given order, all cursor sessions of a script are opened on the same prover (sessions may interleave).
// The recording is one trace segment per prover: Reset (= NewMerkleProver), then one event per request / cursor call.
// A vector with "srcboc" (hex of an earlier proof) and "orig" (the level-0 tree that proof is about) is a two-step proof:
// the prover's source is the tree under the earlier proof (build mode "proof").
//
// modes: how the tree handed to the prover is made from the table
//
//	tree: every occurrence its own *boc.Cell (cells.Build share=false)
//	rows: one *boc.Cell per table row (cells.Build share=true); equal rows stay distinct pointers
//	dag:  one *boc.Cell per distinct cell value, built in memory (no bag involved)
//	boc:  serialised and parsed again (boc.DeserializeBoc makes structurally equal cells ONE pointer)
package c18

import (
	"bufio"
	"encoding/hex"
	"encoding/json"
	"fmt"
	"math/rand"
	"os"
	"sort"
	"strings"

	"github.com/tonkeeper/tongo/boc"
	"github.com/tonkeeper/tongo/tlb"

	"verifharness/internal/c05"
	"verifharness/internal/cells"
	"verifharness/internal/ev"
)

// Step is one call of a cursor script. Cursor values are first-class: every value a call returns gets a handle and stays
// alive (the replayer keeps the *boc.Cursor object), so a script can take several children of a node first and use the
// earlier ones later.
//
//	Cursor: handle 0 of session C := prover.Cursor()
//	Ref:    handle NH := (handle H).Ref(I)          Prune: (handle H).Prune()
//	Create: prover.CreateProof(handle H)
type Step struct {
	K  string `json:"k"`
	C  int    `json:"c"`
	H  int    `json:"h"`
	NH int    `json:"nh"`
	I  int    `json:"i"`
}

type Exp struct {
	Found bool   `json:"found"`
	V     string `json:"v"`
}

type Vector struct {
	T      string    `json:"t"`
	Vec    int       `json:"vec"`
	Src    string    `json:"src"`
	N      int       `json:"n"`
	Cells  []cells.C `json:"cells"`
	Roots  []int     `json:"roots"`
	Keys   []string  `json:"keys"`
	Exp    []Exp     `json:"exp"`
	Script []Step    `json:"script"`
	// ExpHash: per Create, the hash of the proof the generator expects under the occurrence reading of Prune (passed through)
	ExpHash []string `json:"exphash"`
	Modes   []string `json:"modes"`
	// Two-step proofs: SrcBoc is the bag of an earlier proof of the level-0 tree Orig; the source handed to the prover is
	// the tree under that proof (its Merkle-proof root's only child): a partial view with pruned branches. Cells is ignored.
	Orig   []cells.C `json:"orig"`
	SrcBoc string    `json:"srcboc"`
	// Preread: see the package comment
	Preread string `json:"preread"`
	// Bag: the source tree (Cells) has Merkle-proof / Merkle-update cells below its root; it is handed over as this bag of
	// cells written by the specification (the root of the bag is the source) and - when it has no pruned branches - also
	// built in memory with boc.NewCellExotic
	Bag string `json:"bag"`
	// KeyForms: per key, how the boc.BitString object handed to ProveKeyInHashmap is made (see mkKey); the key is a VALUE (its
	// bits): the answer must not depend on it. Absent: the forms rotate with the vector and request numbers.
	KeyForms []string `json:"kfs"`
	// LibMade: the Merkle cell of the bag was made by the library itself (C->S: an earlier proof embedded below a new root)
	LibMade bool `json:"libmade"`
}

var DictModes = []string{"tree", "dag", "boc"}
var WalkModes = []string{"tree", "rows", "boc"}

func build(t *cells.Table, mode string) (*boc.Cell, error) {
	switch mode {
	case "tree", "rows":
		roots, err := cells.Build(t, mode == "rows")
		if err != nil {
			return nil, err
		}
		return roots[0], nil
	case "dag":
		roots, err := cells.Build(t, false)
		if err != nil {
			return nil, err
		}
		// Project merges structurally equal cells into one row (its own structural key, no hashing)
		roots, err = cells.Build(cells.Project(roots), true)
		if err != nil {
			return nil, err
		}
		return roots[0], nil
	case "boc":
		roots, err := cells.Build(t, false)
		if err != nil {
			return nil, err
		}
		return viaBoc(roots[0])
	}
	return nil, fmt.Errorf("unknown mode %q", mode)
}

// buildMerkle makes, in memory, a tree whose rows are ordinary cells and Merkle-proof / Merkle-update cells (public API:
// NewCellExotic, WriteBit, AddRef); every use of a row gets its own copy.
func buildMerkle(t *cells.Table) (*boc.Cell, error) {
	var mk func(i int) (*boc.Cell, error)
	mk = func(i int) (*boc.Cell, error) {
		c := boc.NewCell()
		switch t.Cells[i].X {
		case 0:
		case int(boc.MerkleProofCell):
			c = boc.NewCellExotic(boc.MerkleProofCell)
		case int(boc.MerkleUpdateCell):
			c = boc.NewCellExotic(boc.MerkleUpdateCell)
		default:
			return nil, fmt.Errorf("row %d: type %d cannot be built in memory", i, t.Cells[i].X)
		}
		for _, ch := range t.Cells[i].B {
			if err := c.WriteBit(ch == '1'); err != nil {
				return nil, err
			}
		}
		for _, r := range t.Cells[i].R {
			k, err := mk(r)
			if err != nil {
				return nil, err
			}
			if err := c.AddRef(k); err != nil {
				return nil, err
			}
		}
		c.ResetCounters()
		return c, nil
	}
	return mk(t.Roots[0])
}

// rootOfBag parses a bag of cells with one root.
func rootOfBag(hexBag string) (*boc.Cell, error) {
	b, err := hex.DecodeString(hexBag)
	if err != nil {
		return nil, err
	}
	roots, err := boc.DeserializeBoc(b)
	if err != nil {
		return nil, err
	}
	if len(roots) != 1 {
		return nil, fmt.Errorf("bag has %d roots", len(roots))
	}
	return roots[0], nil
}

func viaBoc(c *boc.Cell) (*boc.Cell, error) {
	b, err := boc.SerializeBoc(c, false, false, false, 0)
	if err != nil {
		return nil, err
	}
	roots, err := boc.DeserializeBoc(b)
	if err != nil {
		return nil, err
	}
	if len(roots) != 1 {
		return nil, fmt.Errorf("round trip gave %d roots", len(roots))
	}
	return roots[0], nil
}

// KeyFormNames: the ways a key BitString is made. All of them hold exactly the key's bits, unread (BitsAvailableForRead =
// key width, the precondition of ProveKeyInHashmap).
var KeyFormNames = []string{"exact", "oversized", "cell-raw", "cell-read", "appended"}

func mkKey(k string, form string, salt int) boc.BitString {
	write := func(bs interface{ WriteBit(bool) error }) {
		for _, ch := range k {
			_ = bs.WriteBit(ch == '1')
		}
	}
	switch form {
	case "oversized": // capacity larger than the key
		kb := boc.NewBitString(len(k) + []int{1, 7, 8, 9, 64, 300}[salt%6])
		write(&kb)
		return kb
	case "cell-raw": // the bit string of a cell that holds the key (1023-bit buffer)
		c := boc.NewCell()
		write(c)
		return c.RawBitString()
	case "cell-read": // read out of a cell, after a few other bits (unaligned copy)
		c := boc.NewCell()
		pre := salt % 8
		_ = c.WriteUint(uint64(salt), pre)
		write(c)
		_ = c.WriteUint(5, 3)
		_ = c.Skip(pre)
		kb, err := c.ReadBits(len(k))
		if err != nil {
			panic(err)
		}
		return kb
	case "appended": // grown by Append
		kb := boc.NewBitString(len(k))
		write(&kb)
		out := boc.NewBitString(len(k) / 2)
		out.Append(kb)
		return out
	}
	kb := boc.NewBitString(len(k))
	write(&kb)
	return kb
}

func safely(f func() error) (p string, err error) {
	defer func() {
		if r := recover(); r != nil {
			p = fmt.Sprint(r)
			if p == "" {
				p = "panic"
			}
		}
	}()
	return "", f()
}

var emptyTable = ev.M{"cells": []int{}, "roots": []int{}}

// twoStep is what a Reset line says about a source that is the tree under an earlier proof.
type twoStep struct {
	orig    []cells.C
	srcBoc  string
	preread string
	bag     string // the source is the root of this bag (trees with Merkle cells below the root)
	libmade bool
	kfs     []string
}

// readAll advances the read cursors of every cell of the DAG (about half of the bits, the first reference) and resets nothing.
func readAll(root *boc.Cell) {
	var all []*boc.Cell
	seen := map[*boc.Cell]bool{}
	var rec func(c *boc.Cell)
	rec = func(c *boc.Cell) {
		if seen[c] {
			return
		}
		seen[c] = true
		all = append(all, c)
		for _, r := range c.Refs() {
			rec(r)
		}
	}
	rec(root)
	for _, c := range all { // NextRef resets the counters of the child it returns: references first, bits afterwards
		c.ResetCounters()
		if len(c.Refs()) > 0 {
			_, _ = c.NextRef()
		}
	}
	for _, c := range all {
		if n := c.BitsAvailableForRead(); n > 0 {
			_, _ = c.ReadBits((n + 1) / 2)
		}
	}
}

// preread applies a vector's "preread" to the cells before the prover is built.
func preread(root *boc.Cell, kind string, n int, keys []string) {
	switch kind {
	case "readall":
		readAll(root)
	case "prove-before":
		_, _ = safely(func() error {
			prover, err := boc.NewMerkleProver(root)
			if err != nil {
				return err
			}
			for _, k := range keys {
				kb := boc.NewBitString(len(k))
				for _, ch := range k {
					_ = kb.WriteBit(ch == '1')
				}
				root.ResetCounters()
				_, _, _ = tlb.ProveKeyInHashmap[tlb.Any](prover, root, kb)
			}
			return nil
		})
	}
}

func reset(w *ev.Writer, root *boc.Cell, kind, src, mode string, vec, n int, ts *twoStep) {
	t := cells.Project([]*boc.Cell{root})
	m := ev.M{"k": "Reset", "kind": kind, "src": src, "mode": mode, "vec": vec, "n": n, "cells": t.Cells, "roots": t.Roots}
	if ts != nil && ts.srcBoc != "" {
		m["orig"] = ev.M{"cells": ts.orig, "roots": []int{0}}
		m["srcboc"] = ts.srcBoc
	}
	if ts != nil && ts.preread != "" {
		m["preread"] = ts.preread
	}
	if ts != nil && ts.bag != "" {
		m["bag"] = ts.bag
	}
	if ts != nil && ts.libmade {
		m["libmade"] = true
	}
	w.Emit(m)
}

// underProof parses the bag of a proof and returns the tree under its Merkle-proof root.
func underProof(hexBag string) (*boc.Cell, error) {
	b, err := hex.DecodeString(hexBag)
	if err != nil {
		return nil, err
	}
	roots, err := boc.DeserializeBoc(b)
	if err != nil {
		return nil, err
	}
	if len(roots) != 1 || roots[0].CellType() != boc.MerkleProofCell || len(roots[0].Refs()) != 1 {
		return nil, fmt.Errorf("not a Merkle proof bag")
	}
	return roots[0].Refs()[0], nil
}

// proveKeys asks ONE prover for a proof of every key, in order; one segment: Reset, then a Key event per request.
func proveKeys(w *ev.Writer, root *boc.Cell, n int, keys []string, src, mode string, vec int, exp []Exp, ts *twoStep) (proofs []string) {
	var kfs []string
	if ts != nil {
		kfs = ts.kfs
	}
	reset(w, root, "dict", src, mode, vec, n, ts)
	var prover *boc.MerkleProver
	p, err := safely(func() error {
		var e error
		prover, e = boc.NewMerkleProver(root)
		return e
	})
	if p != "" || err != nil {
		w.Emit(ev.M{"k": "Panic", "op": "NewMerkleProver", "panic": p, "msg": fmt.Sprint(err)})
		return
	}
	for i, k := range keys {
		kf := KeyFormNames[(vec+i)%len(KeyFormNames)]
		if len(kfs) == len(keys) {
			kf = kfs[i]
		}
		q := ev.M{"k": "Key", "key": k, "kf": kf, "err": "", "panic": "", "val": emptyTable, "proof": ""}
		kb := mkKey(k, kf, vec+3*i)
		if kb.BitsAvailableForRead() != len(k) || kb.BinaryString() != k {
			panic("c18: key object does not hold the key")
		}
		var val tlb.Any
		var proof []byte
		root.ResetCounters()
		pq, eq := safely(func() error {
			var e error
			val, proof, e = tlb.ProveKeyInHashmap[tlb.Any](prover, root, kb)
			return e
		})
		switch {
		case pq != "":
			q["panic"], q["err"] = pq, "e"
		case eq != nil:
			q["err"], q["msg"] = "e", eq.Error()
		default:
			vc := boc.Cell(val)
			vt := cells.Project([]*boc.Cell{&vc})
			q["val"] = ev.M{"cells": vt.Cells, "roots": vt.Roots}
			q["proof"] = hex.EncodeToString(proof)
		}
		proofs = append(proofs, fmt.Sprint(q["proof"]))
		if len(exp) == len(keys) {
			q["exp"] = exp[i]
		}
		w.Emit(q)
	}
	return proofs
}

// runScript replays cursor calls on ONE prover; one segment: Reset, then one event per call.
func runScript(w *ev.Writer, root *boc.Cell, script []Step, expHash []string, src, mode string, vec int, ts *twoStep) (proofs []string) {
	reset(w, root, "walk", src, mode, vec, 0, ts)
	var prover *boc.MerkleProver
	p, err := safely(func() error {
		var e error
		prover, e = boc.NewMerkleProver(root)
		return e
	})
	if p != "" || err != nil {
		w.Emit(ev.M{"k": "Panic", "op": "NewMerkleProver", "panic": p, "msg": fmt.Sprint(err)})
		return
	}
	sessions := map[int]map[int]*boc.Cursor{}
	creates := 0
	for _, st := range script {
		m := ev.M{"k": st.K, "c": st.C}
		var proof []byte
		p, err := safely(func() error {
			cur := sessions[st.C]
			switch st.K {
			case "Cursor":
				sessions[st.C] = map[int]*boc.Cursor{0: prover.Cursor()}
			case "Ref":
				m["h"], m["nh"], m["i"] = st.H, st.NH, st.I
				cur[st.NH] = cur[st.H].Ref(st.I)
			case "Prune":
				m["h"] = st.H
				cur[st.H].Prune()
			case "Create":
				m["h"] = st.H
				var e error
				proof, e = prover.CreateProof(cur[st.H])
				return e
			default:
				panic("c18: unknown step " + st.K)
			}
			return nil
		})
		if st.K == "Create" {
			m["err"], m["panic"], m["proof"] = "", p, ""
			if err != nil {
				m["err"], m["msg"] = "e", err.Error()
			} else if p == "" {
				m["proof"] = hex.EncodeToString(proof)
			}
			if creates < len(expHash) {
				m["exphash"] = expHash[creates]
			}
			creates++
			proofs = append(proofs, fmt.Sprint(m["proof"]))
		} else if p != "" || err != nil {
			w.Emit(ev.M{"k": "Panic", "op": st.K, "panic": p, "msg": fmt.Sprint(err)})
			return
		}
		w.Emit(m)
	}
	return proofs
}

func run(w *ev.Writer, v *Vector) error {
	if v.SrcBoc != "" {
		root, err := underProof(v.SrcBoc)
		if err != nil {
			return fmt.Errorf("vector %d: cannot open the first proof: %v", v.Vec, err)
		}
		for i := range v.Orig {
			if v.Orig[i].R == nil {
				v.Orig[i].R = []int{}
			}
		}
		ts := &twoStep{orig: v.Orig, srcBoc: v.SrcBoc, preread: v.Preread, kfs: v.KeyForms}
		preread(root, v.Preread, v.N, v.Keys)
		switch v.T {
		case "dict":
			proveKeys(w, root, v.N, v.Keys, v.Src, "proof", v.Vec, v.Exp, ts)
		case "walk":
			runScript(w, root, v.Script, v.ExpHash, v.Src, "proof", v.Vec, ts)
		default:
			return fmt.Errorf("vector %d: unknown kind %q", v.Vec, v.T)
		}
		return nil
	}
	if v.Bag != "" {
		if v.T != "walk" {
			return fmt.Errorf("vector %d: a bag source is for cursor walks", v.Vec)
		}
		for i := range v.Cells {
			if v.Cells[i].R == nil {
				v.Cells[i].R = []int{}
			}
		}
		tab := &cells.Table{Cells: v.Cells, Roots: v.Roots}
		inMemory := true
		for _, c := range v.Cells {
			inMemory = inMemory && c.X != int(boc.PrunedBranchCell)
		}
		for _, mode := range []string{"boc", "tree"} {
			if len(v.Modes) > 0 && v.Modes[0] != mode || mode == "tree" && !inMemory {
				continue
			}
			var root *boc.Cell
			var err error
			if mode == "boc" {
				root, err = rootOfBag(v.Bag)
			} else {
				root, err = buildMerkle(tab)
			}
			if err != nil {
				return fmt.Errorf("vector %d: cannot build the source with Merkle cells (%s): %v", v.Vec, mode, err)
			}
			ts2 := &twoStep{preread: v.Preread, libmade: v.LibMade}
			preread(root, v.Preread, 0, nil)
			if mode == "boc" {
				ts2.bag = v.Bag
			}
			runScript(w, root, v.Script, v.ExpHash, v.Src, mode, v.Vec, ts2)
		}
		return nil
	}
	modes := v.Modes
	if len(modes) == 0 {
		modes = DictModes
		if v.T == "walk" {
			modes = WalkModes
		}
	}
	for i := range v.Cells {
		if v.Cells[i].R == nil {
			v.Cells[i].R = []int{}
		}
	}
	tab := &cells.Table{Cells: v.Cells, Roots: v.Roots}
	for _, mode := range modes {
		root, err := build(tab, mode)
		if err != nil {
			return fmt.Errorf("vector %d: cannot build input (%s): %v", v.Vec, mode, err)
		}
		ts := &twoStep{preread: v.Preread, kfs: v.KeyForms}
		preread(root, v.Preread, v.N, v.Keys)
		switch v.T {
		case "dict":
			proveKeys(w, root, v.N, v.Keys, v.Src, mode, v.Vec, v.Exp, ts)
		case "walk":
			runScript(w, root, v.Script, v.ExpHash, v.Src, mode, v.Vec, ts)
		default:
			return fmt.Errorf("vector %d: unknown kind %q", v.Vec, v.T)
		}
	}
	return nil
}

// Replay runs vectors (one JSON object per line).
func Replay(in string, w *ev.Writer) error {
	f, err := os.Open(in)
	if err != nil {
		return err
	}
	defer f.Close()
	sc := bufio.NewScanner(f)
	sc.Buffer(make([]byte, 1<<20), 1<<28)
	for sc.Scan() {
		var v Vector
		if err := json.Unmarshal(sc.Bytes(), &v); err != nil {
			return err
		}
		if v.Src == "" {
			v.Src = "gen"
		}
		if err := run(w, &v); err != nil {
			return err
		}
	}
	w.Emit(ev.M{"k": "End", "events": w.N})
	return sc.Err()
}

// ---------------------------------------------------------------- random inputs (C->S)

type item struct {
	k  string
	vb string
	vr []cells.C // value references: leaf cells (rows appended after the leaf)
}

func bitsOfInt(v, w int) string {
	var sb strings.Builder
	for i := w - 1; i >= 0; i-- {
		if v>>uint(i)&1 == 1 {
			sb.WriteByte('1')
		} else {
			sb.WriteByte('0')
		}
	}
	return sb.String()
}

func bitLen(m int) int {
	n := 0
	for m > 0 {
		n++
		m >>= 1
	}
	return n
}

// label writes s as an HmLabel with m key bits remaining in one of the legal forms.
func label(s string, m int, form int) string {
	same := len(s) > 0 && strings.Count(s, s[:1]) == len(s)
	short := "0" + strings.Repeat("1", len(s)) + "0" + s
	long := "10" + bitsOfInt(len(s), bitLen(m)) + s
	switch form {
	case 1:
		return short
	case 2:
		return long
	case 3:
		if same {
			return "11" + s[:1] + bitsOfInt(len(s), bitLen(m))
		}
		return long
	}
	// 0: the shortest, as the reference implementation does
	best := short
	if len(long) < len(best) {
		best = long
	}
	if same {
		if sm := "11" + s[:1] + bitsOfInt(len(s), bitLen(m)); len(sm) < len(best) {
			best = sm
		}
	}
	return best
}

// dictTable lays a Patricia tree out as a tree-shaped cell table (the Hashmap root is row 0).
// items are sorted by key and distinct. formOf picks the label form per edge.
func dictTable(items []item, n int, formOf func() int) *cells.Table {
	t, _ := dictTableMeta(items, n, formOf)
	return t
}

// rowMeta says what a row of a dictionary table is: 'F' fork, 'L' leaf (with its key), 'V' cell referenced by a value.
type rowMeta struct {
	kind byte
	key  string
}

func dictTableMeta(items []item, n int, formOf func() int) (*cells.Table, []rowMeta) {
	t := &cells.Table{Roots: []int{0}}
	var meta []rowMeta
	var rec func(its []item, at int) int
	rec = func(its []item, at int) int {
		lcp := n - at
		for _, it := range its[1:] {
			j := 0
			for j < lcp && it.k[at+j] == its[0].k[at+j] {
				j++
			}
			lcp = j
		}
		s := its[0].k[at : at+lcp]
		lb := label(s, n-at, formOf())
		idx := len(t.Cells)
		t.Cells = append(t.Cells, cells.C{})
		meta = append(meta, rowMeta{kind: 'F'})
		if at+lcp == n {
			c := cells.C{B: lb + its[0].vb, R: []int{}}
			for _, r := range its[0].vr {
				c.R = append(c.R, len(t.Cells))
				t.Cells = append(t.Cells, r)
				meta = append(meta, rowMeta{kind: 'V'})
			}
			t.Cells[idx] = c
			meta[idx] = rowMeta{kind: 'L', key: its[0].k}
			return idx
		}
		split := sort.Search(len(its), func(i int) bool { return its[i].k[at+lcp] == '1' })
		l := rec(its[:split], at+lcp+1)
		r := rec(its[split:], at+lcp+1)
		t.Cells[idx] = cells.C{B: lb, R: []int{l, r}}
		return idx
	}
	rec(items, 0)
	return t, meta
}

// valueRefLikeSibling rewrites the table so that, at forks whose two children are leaves, the cell referenced by one
// leaf's value is the same cell (value) as the other leaf. Returns the keys concerned.
func valueRefLikeSibling(t *cells.Table, meta []rowMeta) []string {
	var keys []string
	for f := range t.Cells {
		if meta[f].kind != 'F' {
			continue
		}
		a, b := t.Cells[f].R[0], t.Cells[f].R[1]
		if meta[a].kind != 'L' || meta[b].kind != 'L' {
			continue
		}
		if len(t.Cells[a].R) == 0 && len(t.Cells[b].R) > 0 {
			a, b = b, a
		}
		if len(t.Cells[a].R) > 0 && len(t.Cells[b].R) == 0 {
			t.Cells[t.Cells[a].R[0]] = cells.C{B: t.Cells[b].B, R: []int{}}
			keys = append(keys, meta[a].key)
		}
	}
	return keys
}

func isLeafKey(meta []rowMeta, k string) bool {
	for _, m := range meta {
		if m.kind == 'L' && m.key == k {
			return true
		}
	}
	return false
}

// keepPaths returns the positions to prune so that exactly the paths of the keys in keep survive: the topmost rows
// under which none of them lies.
func keepPaths(t *cells.Table, meta []rowMeta, keep map[string]bool) [][]int {
	has := make([]int, len(t.Cells)) // 0 unknown, 1 no, 2 yes
	var under func(row int) bool
	under = func(row int) bool {
		if has[row] != 0 {
			return has[row] == 2
		}
		r := false
		switch meta[row].kind {
		case 'L':
			r = keep[meta[row].key]
		case 'F':
			for _, c := range t.Cells[row].R {
				if under(c) {
					r = true
				}
			}
		}
		has[row] = 1
		if r {
			has[row] = 2
		}
		return r
	}
	var out [][]int
	var walk func(row int, path []int)
	walk = func(row int, path []int) {
		if !under(row) {
			out = append(out, append([]int{}, path...))
			return
		}
		if meta[row].kind != 'F' {
			return
		}
		for i, c := range t.Cells[row].R {
			walk(c, append(path, i))
		}
	}
	walk(t.Roots[0], nil)
	return out
}

// pruneScript is one cursor session that prunes the given positions.
func pruneScript(paths [][]int) []Step {
	out := []Step{{K: "Cursor", C: 1}}
	handle := map[string]int{"": 0} // every position is derived once; its cursor value is kept and used again
	for _, p := range paths {
		key := ""
		for _, i := range p {
			next := key + fmt.Sprint(i) + "/"
			if _, ok := handle[next]; !ok {
				handle[next] = len(handle)
				out = append(out, Step{K: "Ref", C: 1, H: handle[key], NH: handle[next], I: i})
			}
			key = next
		}
		out = append(out, Step{K: "Prune", C: 1, H: handle[key]})
	}
	return append(out, Step{K: "Create", C: 1})
}

func randBits(rng *rand.Rand, n int) string {
	var sb strings.Builder
	mode := rng.Intn(5)
	for i := 0; i < n; i++ {
		var b bool
		switch mode {
		case 0, 1:
			b = rng.Intn(2) == 1
		case 2: // long common prefix, vary the tail
			b = i >= n-6 && rng.Intn(2) == 1
		case 3:
			b = i < n-6 || rng.Intn(2) == 1
		case 4:
			b = i < 9 || (i >= n-3 && rng.Intn(2) == 1)
		}
		if b {
			sb.WriteByte('1')
		} else {
			sb.WriteByte('0')
		}
	}
	return sb.String()
}

func min(a, b int) int {
	if a < b {
		return a
	}
	return b
}

func flip(k string, i int) string {
	b := []byte(k)
	b[i] ^= 1
	return string(b)
}

type Opts struct {
	Tier          string
	Seed          int64
	Shard, Shards int
}

// libWidths are the key widths in 8..256 for which the library has a key type (dictionaries written by its own encoder).
var libWidths = [][2]any{{"u", 8}, {"u", 9}, {"u", 15}, {"u", 16}, {"u", 32}, {"u", 64}, {"b", 80}, {"b", 96}, {"b", 256}}

// randomDict draws a key->value map. shape: 5 comb (one fork per entry on the path of a base key), 0 random, 1 twin (a fork whose two sub-trees are equal), 2 dense block with
// one value, 3 random keys with one value, 4 pairs of neighbouring keys (see valueRefLikeSibling).
func randomDict(rng *rand.Rand, n, size, shape int, inlineOnly bool) []item {
	m := map[string]item{}
	val := func() item {
		it := item{vb: cells.RandBits(rng, 64)}
		if inlineOnly {
			it.vb = randBits(rng, 32)
		} else if rng.Intn(6) == 0 {
			for j := 0; j <= rng.Intn(2); j++ {
				it.vr = append(it.vr, cells.C{B: cells.RandBits(rng, 80), R: []int{}})
			}
		}
		return it
	}
	put := func(k string, it item) {
		it.k = k
		m[k] = it
	}
	switch shape {
	case 1:
		p := rng.Intn(n)
		prefix := randBits(rng, p)
		half := size/2 + 1
		for i := 0; i < half; i++ {
			s := randBits(rng, n-p-1)
			it := val()
			put(prefix+"0"+s, it)
			put(prefix+"1"+s, it)
		}
		for i := 0; i < size/4; i++ {
			put(randBits(rng, n), val())
		}
	case 2:
		lo := 1 + rng.Intn(4)
		if lo > n {
			lo = n
		}
		pos := rng.Intn(n - lo + 1)
		base := randBits(rng, n)
		one := val()
		for x := 0; x < 1<<uint(lo); x++ {
			put(base[:pos]+bitsOfInt(x, lo)+base[pos+lo:], one)
		}
		for i := 0; i < size/4; i++ {
			put(randBits(rng, n), val())
		}
	case 4:
		// pairs of keys that differ in one bit; one value of each pair has a reference, the other has none
		for i := 0; i <= size/2; i++ {
			k := randBits(rng, n)
			a, b := val(), val()
			a.vr = []cells.C{{B: cells.RandBits(rng, 40), R: []int{}}}
			b.vr = nil
			if rng.Intn(2) == 0 {
				a, b = b, a
			}
			put(k, a)
			put(flip(k, n-1-rng.Intn(min(n, 1+rng.Intn(8)))), b)
		}
	case 5:
		// comb: key i shares exactly i bits with a base key, so the base key's path has one fork per entry: 33..72 forks for
		// keys of 40 bits and more (cursor positions deeper than 32 and than 64 steps), n - 1 for shorter keys
		base := randBits(rng, n)
		depth := 33 + rng.Intn(40)
		if depth > n-1 {
			depth = n - 1
		}
		put(base, val())
		for i := 0; i < depth; i++ {
			put(flip(base[:i+1], i)+randBits(rng, n-i-1), val())
		}
	case 3:
		one := val()
		for tries := 0; len(m) < size && tries < size*20; tries++ {
			k := randBits(rng, n)
			put(k, one)
			if rng.Intn(3) == 0 {
				put(flip(k, n-1), one)
			}
		}
	default:
		for tries := 0; len(m) < size && tries < size*20; tries++ {
			put(randBits(rng, n), val())
		}
	}
	out := make([]item, 0, len(m))
	for _, it := range m {
		out = append(out, it)
	}
	sort.Slice(out, func(i, j int) bool { return out[i].k < out[j].k })
	return out
}

// deepestPair: the two keys (items are sorted) with the longest common prefix - the deepest leaves of the Patricia tree
func deepestPair(items []item) []string {
	best, bi := -1, 0
	for i := 0; i+1 < len(items); i++ {
		a, b := items[i].k, items[i+1].k
		l := 0
		for l < len(a) && a[l] == b[l] {
			l++
		}
		if l > best {
			best, bi = l, i
		}
	}
	if best < 0 {
		return nil
	}
	return []string{items[bi].k, items[bi+1].k}
}

func sampleKeys(rng *rand.Rand, items []item, n, present, absent int) []string {
	have := map[string]bool{}
	for _, it := range items {
		have[it.k] = true
	}
	var keys []string
	if len(items) <= present {
		for _, it := range items {
			keys = append(keys, it.k)
		}
	} else {
		keys = append(keys, items[0].k, items[len(items)-1].k)
		for len(keys) < present {
			keys = append(keys, items[rng.Intn(len(items))].k)
		}
	}
	seen := map[string]bool{}
	for tries := 0; absent > 0 && tries < 200; tries++ {
		var k string
		base := items[rng.Intn(len(items))].k
		switch rng.Intn(4) {
		case 0:
			k = randBits(rng, n)
		case 1:
			k = flip(base, n-1)
		case 2:
			k = flip(base, 0)
		default:
			k = flip(base, rng.Intn(n))
		}
		if !have[k] && !seen[k] {
			seen[k] = true
			keys = append(keys, k)
			absent--
		}
	}
	return keys
}

// unfolded counts the nodes of the tree a table row unfolds to (saturating).
func unfolded(t *cells.Table) int {
	memo := make([]int, len(t.Cells))
	for i := len(t.Cells) - 1; i >= 0; i-- {
		s := 1
		for _, r := range t.Cells[i].R {
			s += memo[r]
			if s > 1<<20 {
				s = 1 << 20
			}
		}
		memo[i] = s
	}
	return memo[t.Roots[0]]
}

// Drive records random executions: dictionaries of many shapes and sizes (built in memory by the library's own
// encoder, from a table in memory, and round-tripped through a bag), and random cursor walks on random DAGs.
func Drive(w *ev.Writer, o Opts) {
	rng := rand.New(rand.NewSource(o.Seed*2654435761 + int64(o.Shard)*97 + 18))
	thorough := o.Tier == "thorough"
	ndict, nwalk, maxN := 10, 16, 60
	if thorough {
		ndict, nwalk, maxN = 60, 260, 500
	}
	vec := 0
	for d := 0; d < ndict; d++ {
		vec++
		shape := d % 4
		if d%7 == 5 {
			shape = 4
		}
		if d%5 == 4 {
			shape = 5
		}
		var n int
		lib := d%3 == 0 && shape != 4
		var kind string
		if lib {
			ty := libWidths[rng.Intn(len(libWidths))]
			kind, n = ty[0].(string), ty[1].(int)
		} else {
			switch rng.Intn(4) {
			case 0:
				n = 8 + rng.Intn(9)
			case 1:
				n = []int{8, 32, 64, 128, 255, 256}[rng.Intn(6)]
			default:
				n = 8 + rng.Intn(249)
			}
		}
		size := 1 + rng.Intn(12)
		if rng.Intn(3) == 0 {
			size = 1 + rng.Intn(maxN)
		}
		if n < 16 && size > 1<<uint(n-1) {
			size = 1 << uint(n-1)
		}
		if shape == 5 && !lib && n < 64 && rng.Intn(4) != 0 {
			n = []int{64, 128, 255, 256}[rng.Intn(4)]
		}
		items := randomDict(rng, n, size, shape, lib)
		np, na := 6, 4
		if thorough {
			np, na = 12, 6
		}
		keys := sampleKeys(rng, items, n, np, na)
		if shape == 5 {
			keys = append(deepestPair(items), keys...)
		}
		// the same prover is asked again for keys it has already proven, after other proofs
		keys = append(keys, keys[0], keys[rng.Intn(len(keys))])
		src := fmt.Sprintf("rand:shape%d", shape)
		if lib {
			// written by the library's encoder, in memory; then the same dictionary parsed from a bag
			dd := c05.New(kind, n)
			var hm *boc.Cell
			p, err := safely(func() error {
				for _, it := range items {
					if e := dd.Put(it.k, it.vb); e != nil {
						return e
					}
				}
				var e error
				hm, e = dd.Enc()
				return e
			})
			if p != "" || err != nil || len(hm.Refs()) != 1 {
				// building the input failed: not this property's business (C05 judges the encoder); no event
				continue
			}
			root := hm.Refs()[0]
			var pre *twoStep
			if d%2 == 0 {
				// the dictionary is decoded first (as an application does to learn the keys): every cell has been read
				if _, e := safely(func() error { _, e := dd.Dec(hm); return e }); e == nil {
					pre = &twoStep{preread: "decode"}
				}
			}
			proofs := proveKeys(w, root, n, keys, src+":lib", "lib", vec, nil, pre)
			if back, e := viaBoc(root); e == nil {
				proveKeys(w, back, n, keys, src+":lib", "boc", vec, nil, nil)
			}
			// two-step: the proof of the first key is narrowed down again from the dictionary under it (every sibling on
			// the path is a pruned branch already and is pruned again); the other keys run into pruned branches
			if len(proofs) > 0 && proofs[0] != "" {
				vec++
				orig := cells.Project([]*boc.Cell{root})
				v := &Vector{T: "dict", Vec: vec, Src: src + ":lib:two-step", N: n, Orig: orig.Cells, SrcBoc: proofs[0], Keys: append([]string{keys[0], keys[0]}, keys[1:]...)}
				if err := run(w, v); err != nil {
					panic(err)
				}
			}
			continue
		}
		forms := rng.Intn(3) // 0: canonical everywhere, 1: random per edge, 2: one fixed non-canonical form
		fixed := 1 + rng.Intn(3)
		tab, meta := dictTableMeta(items, n, func() int {
			switch forms {
			case 0:
				return 0
			case 1:
				return rng.Intn(4)
			}
			return fixed
		})
		if shape == 4 {
			keys = append(valueRefLikeSibling(tab, meta), keys...)
			if len(keys) > np+na+4 {
				keys = append(keys[:4], keys[len(keys)-np-na:]...)
			}
		}
		v := &Vector{T: "dict", Vec: vec, Src: src, N: n, Cells: tab.Cells, Roots: tab.Roots, Keys: keys, Preread: []string{"", "readall", "prove-before"}[d%3]}
		if err := run(w, v); err != nil {
			panic(err)
		}
		// two-step: a proof that keeps 1..3 of the keys (made with the cursor API from the table's structure), then the
		// dictionary under it is proven further, key by key, by one prover
		keep := map[string]bool{}
		var keepList []string
		for _, k := range keys {
			if len(keepList) < 1+rng.Intn(3) && isLeafKey(meta, k) && !keep[k] {
				keep[k] = true
				keepList = append(keepList, k)
			}
		}
		if len(keepList) > 0 {
			vec++
			root, err := build(tab, "tree")
			if err != nil {
				panic(err)
			}
			first := runScript(w, root, pruneScript(keepPaths(tab, meta, keep)), nil, src+":keep-keys", "tree", vec, nil)
			if len(first) == 1 && first[0] != "" {
				vec++
				v2 := &Vector{T: "dict", Vec: vec, Src: src + ":two-step", N: n, Orig: tab.Cells, SrcBoc: first[0], Keys: append(append([]string{}, keepList...), keys...), Preread: []string{"prove-before", "", "readall"}[d%3]}
				if err := run(w, v2); err != nil {
					panic(err)
				}
			}
		}
	}
	for i := 0; i < nwalk; i++ {
		vec++
		var tab *cells.Table
		for {
			nc := 1 + rng.Intn(24)
			if thorough && rng.Intn(4) == 0 {
				nc = 1 + rng.Intn(60)
			}
			tab = cells.RandTable(rng, nc, 40)
			// sometimes make two children of a node equal cells: a leaf row is copied to a new row (two distinct pointers
			// in memory, one after parsing); an inner row is referenced a second time
			if len(tab.Cells) > 2 && rng.Intn(3) == 0 {
				a := 1 + rng.Intn(len(tab.Cells)-1)
				p := rng.Intn(a)
				if len(tab.Cells[p].R) < 4 {
					if len(tab.Cells[a].R) == 0 {
						tab.Cells = append(tab.Cells, cells.C{B: tab.Cells[a].B, R: []int{}})
						tab.Cells[p].R = append(tab.Cells[p].R, len(tab.Cells)-1)
					} else {
						tab.Cells[p].R = append(tab.Cells[p].R, a)
					}
				}
			}
			if unfolded(tab) <= 250 {
				break
			}
		}
		// one prover serves several cursor sessions: sequential ones, sometimes two interleaved; one session that prunes
		// nothing always comes after a session that pruned
		// a session keeps every cursor value it obtained (handle -> table row) and uses any of them later: mostly the newest
		// (a walk), often an older one (held values), sometimes all children of a node are taken first
		sessionOn := func(tab *cells.Table, c int, empty bool) []Step {
			out := []Step{{K: "Cursor", C: c}}
			rows := []int{tab.Roots[0]}
			if !empty {
				steps := 1 + rng.Intn(2*len(tab.Cells)+2)
				pp := 0.15 + rng.Float64()*0.3
				for s := 0; s < steps; s++ {
					h := len(rows) - 1
					if rng.Intn(3) == 0 {
						h = rng.Intn(len(rows))
					}
					cur := tab.Cells[rows[h]]
					x := rng.Float64()
					switch {
					case x < pp || len(cur.R) == 0:
						out = append(out, Step{K: "Prune", C: c, H: h})
					case x < pp+0.15:
						for j, r := range cur.R { // take all children first
							out = append(out, Step{K: "Ref", C: c, H: h, NH: len(rows), I: j})
							rows = append(rows, r)
						}
					default:
						j := rng.Intn(len(cur.R))
						out = append(out, Step{K: "Ref", C: c, H: h, NH: len(rows), I: j})
						rows = append(rows, cur.R[j])
					}
				}
			}
			return append(out, Step{K: "Create", C: c, H: rng.Intn(len(rows))})
		}
		session := func(c int, empty bool) []Step { return sessionOn(tab, c, empty) }
		var script []Step
		nreq := 2 + rng.Intn(3)
		emptyAt := 1 + rng.Intn(nreq-1)
		for c := 1; c <= nreq; c++ {
			a := session(c, c-1 == emptyAt)
			if c < nreq && c-1 != emptyAt && c != emptyAt && rng.Intn(3) == 0 {
				// interleave with the next session
				c++
				b := session(c, false)
				for len(a) > 0 || len(b) > 0 {
					if len(b) == 0 || (len(a) > 0 && rng.Intn(2) == 0) {
						script, a = append(script, a[0]), a[1:]
					} else {
						script, b = append(script, b[0]), b[1:]
					}
				}
				continue
			}
			script = append(script, a...)
		}
		v := &Vector{T: "walk", Vec: vec, Src: "rand", Cells: tab.Cells, Roots: tab.Roots, Script: script, Preread: []string{"", "readall"}[i%2]}
		if err := run(w, v); err != nil {
			panic(err)
		}
		// two-step (every second tree): a first proof with a random prune set, then the tree under it - with its pruned
		// branches, root of level 1 - is the source of a new prover that serves 2..3 sessions of its own
		if i%2 == 0 {
			vec++
			root, err := build(tab, "tree")
			if err != nil {
				panic(err)
			}
			first := runScript(w, root, sessionOn(tab, 1, false), nil, "rand:first-step", "tree", vec, nil)
			if len(first) != 1 || first[0] == "" {
				continue
			}
			under, err := underProof(first[0])
			if err != nil {
				continue // the first proof is judged in its own segment
			}
			st := cells.Project([]*boc.Cell{under})
			var script2 []Step
			for c := 1; c <= 2+rng.Intn(2); c++ {
				script2 = append(script2, sessionOn(st, c, c == 2 && rng.Intn(2) == 0)...)
			}
			vec++
			v2 := &Vector{T: "walk", Vec: vec, Src: "rand:two-step", Orig: tab.Cells, SrcBoc: first[0], Script: script2, Preread: []string{"", "readall"}[(i/2)%2]}
			if err := run(w, v2); err != nil {
				panic(err)
			}
			// Merkle cell below the root (every fourth tree): the first proof - a Merkle-proof cell over a partly pruned tree,
			// made by the library - becomes a child of a new ordinary root; sessions walk and prune anywhere, also beneath it
			if i%4 == 0 {
				mp, err := rootOfBag(first[0])
				if err != nil {
					continue
				}
				nr := boc.NewCell()
				for _, ch := range randBits(rng, 1+rng.Intn(20)) {
					_ = nr.WriteBit(ch == '1')
				}
				leaf := boc.NewCell()
				_ = leaf.WriteUint(uint64(rng.Intn(1<<16)), 16)
				kids := []*boc.Cell{leaf, mp}
				if rng.Intn(2) == 0 {
					mid := boc.NewCell()
					_ = mid.WriteUint(uint64(rng.Intn(256)), 8)
					_ = mid.AddRef(mp)
					kids = []*boc.Cell{mid, leaf}
				}
				for _, k := range kids {
					_ = nr.AddRef(k)
				}
				bag, err := boc.SerializeBoc(nr, false, false, false, 0)
				if err != nil {
					continue
				}
				xt := cells.Project([]*boc.Cell{nr})
				var script3 []Step
				for c := 1; c <= 2+rng.Intn(2); c++ {
					script3 = append(script3, sessionOn(xt, c, false)...)
				}
				vec++
				v3 := &Vector{T: "walk", Vec: vec, Src: "rand:merkle-below-root", Cells: xt.Cells, Roots: xt.Roots, Script: script3, Bag: hex.EncodeToString(bag), Modes: []string{"boc"}, LibMade: true}
				if err := run(w, v3); err != nil {
					panic(err)
				}
			}
		}
	}
	w.Emit(ev.M{"k": "End", "events": w.N})
}
