package c20

import (
	"bufio"
	"bytes"
	"encoding/hex"
	"encoding/json"
	"fmt"
	"math/big"
	"math/rand"
	"os"
	"reflect"
	"sort"
	"strings"

	"verifharness/internal/ev"
)

type Opts struct {
	Tier          string
	Seed          int64
	Shard, Shards int
}

// ---------------------------------------------------------------- guarded calls

// marshalRaw calls the type's own MarshalJSON (the text the encoder really produces, before
// encoding/json compacts / validates it) and additionally json.Marshal, which must not fail either.
func marshalRaw(p any) (text []byte, errc string, pan string) {
	defer func() {
		if r := recover(); r != nil {
			pan = fmt.Sprint(r)
		}
	}()
	m, ok := p.(json.Marshaler)
	if !ok {
		return nil, "no-marshaler", ""
	}
	text, err := m.MarshalJSON()
	if err != nil {
		return text, "e", ""
	}
	if _, err := json.Marshal(p); err != nil {
		return text, "e", ""
	}
	return text, "", ""
}

func unmarshal(h *Handler, doc []byte, direct bool) (p any, errc string, pan string) {
	defer func() {
		if r := recover(); r != nil {
			pan = fmt.Sprint(r)
		}
	}()
	p = h.New()
	var err error
	if direct {
		err = p.(json.Unmarshaler).UnmarshalJSON(doc)
	} else {
		err = json.Unmarshal(doc, p)
	}
	return p, ev.ErrClass(err), ""
}

func dumpSafe(h *Handler, p any) (v any, pan string) {
	defer func() {
		if r := recover(); r != nil {
			pan = fmt.Sprint(r)
		}
	}()
	return h.Dump(p), ""
}

// norm brings an abstract value to its JSON-decoded shape so that two of them compare with DeepEqual
func norm(v any) any {
	b, _ := json.Marshal(v)
	var x any
	json.Unmarshal(b, &x)
	return x
}

// roundTrip performs v --Marshal--> text --Unmarshal--> v' on the real code and emits one RT (or Panic) event.
// It returns the text produced (nil if none).
func roundTrip(w *ev.Writer, h *Handler, p any, val any, extra ev.M) []byte {
	base := ev.M{"ty": h.TD.M(), "name": h.Name, "val": val}
	for k, v := range extra {
		base[k] = v
	}
	emit := func(k string, m ev.M) {
		for kk, v := range base {
			m[kk] = v
		}
		m["k"] = k
		w.Emit(m)
	}
	if h.Inner != nil {
		if ip := h.InnerPtr(p); ip != nil {
			base["inner"] = innerRoundTrip(h.Inner, ip)
		}
	}
	text, errc, pan := marshalRaw(p)
	if pan != "" {
		emit("Panic", ev.M{"op": "marshal", "panic": pan})
		return nil
	}
	if errc != "" {
		emit("RT", ev.M{"text": hex.EncodeToString(text), "back": "", "err": "marshal"})
		return nil
	}
	// the same value held BY VALUE (in an interface: not addressable, as a map element or a field of a struct passed by
	// value would be): encoding/json must find the same encoder. Equal text: noted on the event; another text: one more run
	if vtext, differs := marshalHeldByValue(p, text); differs {
		defer func() {
			base["held"] = "value"
			delete(base, "byval")
			finishRun(h, vtext, emit)
		}()
	} else {
		base["byval"] = 1
	}
	finishRun(h, text, emit)
	return text
}

// marshalHeldByValue marshals *p as a non-addressable value. differs = the text is not the one the type's encoder gave.
func marshalHeldByValue(p any, text []byte) (vtext []byte, differs bool) {
	defer func() {
		if r := recover(); r != nil {
			vtext, differs = []byte("panic: "+fmt.Sprint(r)), true
		}
	}()
	rv := reflect.ValueOf(p)
	if rv.Kind() != reflect.Pointer || rv.IsNil() {
		return nil, false
	}
	vtext, err := json.Marshal(rv.Elem().Interface())
	if err != nil {
		return []byte("error: " + err.Error()), true
	}
	var a, b bytes.Buffer
	if json.Compact(&a, text) != nil || json.Compact(&b, vtext) != nil {
		return vtext, !bytes.Equal(text, vtext)
	}
	return vtext, !bytes.Equal(a.Bytes(), b.Bytes())
}

// finishRun: text --Unmarshal--> v' and the RT (or Panic) event of the run
func finishRun(h *Handler, text []byte, emit func(string, ev.M)) []byte {
	p2, errc, pan := unmarshal(h, text, false)
	if pan != "" {
		emit("Panic", ev.M{"op": "unmarshal", "text": hex.EncodeToString(text), "panic": pan})
		return text
	}
	if errc != "" {
		emit("RT", ev.M{"text": hex.EncodeToString(text), "back": "", "err": "unmarshal"})
		return text
	}
	back, pan := dumpSafe(h, p2)
	if pan != "" {
		emit("Panic", ev.M{"op": "dump", "text": hex.EncodeToString(text), "panic": pan})
		return text
	}
	emit("RT", ev.M{"text": hex.EncodeToString(text), "back": back, "err": ""})
	return text
}

// innerRoundTrip: the same run on the wrapped value with the inner type alone (attribution only, never judged)
func innerRoundTrip(h *Handler, p any) ev.M {
	text, errc, pan := marshalRaw(p)
	if pan != "" {
		return ev.M{"err": "panic"}
	}
	if errc != "" {
		return ev.M{"err": "marshal"}
	}
	p2, errc, pan := unmarshal(h, text, false)
	if pan != "" {
		return ev.M{"err": "panic"}
	}
	if errc != "" {
		return ev.M{"err": "unmarshal"}
	}
	back, pan := dumpSafe(h, p2)
	if pan != "" {
		return ev.M{"err": "panic"}
	}
	return ev.M{"err": "", "back": back}
}

// encoderValueFor looks for a value whose encoder text is exactly doc. Candidates: the value the decoder
// produced (if any) and, for the numeral / hex families, the value the document spells under the loose reading.
// Each candidate is built and encoded with the real MarshalJSON; only byte equality of the text counts.
func encoderValueFor(h *Handler, doc []byte, back any, ok bool) (any, bool) {
	var cands []any
	if ok {
		cands = append(cands, back)
	}
	inner := doc
	if len(doc) >= 2 && doc[0] == '"' && doc[len(doc)-1] == '"' {
		inner = doc[1 : len(doc)-1]
	}
	switch h.TD.T {
	case "uint", "int", "varuint", "grams", "signedcoins":
		if z, good := new(big.Int).SetString(string(inner), 10); good && z.String() == string(inner) {
			cands = append(cands, z.String())
		}
	case "bits", "tonbits256", "tlint256":
		if len(inner) < len(doc) {
			if _, err := hex.DecodeString(string(inner)); err == nil {
				cands = append(cands, strings.ToLower(string(inner)))
			}
		}
	}
	for _, c := range cands {
		c = norm(c)
		found := func() bool {
			defer func() { recover() }()
			p, err := h.Build(c)
			if err != nil {
				return false
			}
			text, errc, pan := marshalRaw(p)
			return pan == "" && errc == "" && bytes.Equal(text, doc)
		}()
		if found {
			return c, true
		}
	}
	return nil, false
}

func innerDecode(h *Handler, doc []byte) ev.M {
	p, errc, pan := unmarshal(h, doc, false)
	if pan != "" {
		return ev.M{"res": "panic"}
	}
	if errc != "" {
		return ev.M{"res": "err"}
	}
	back, pan := dumpSafe(h, p)
	if pan != "" {
		return ev.M{"res": "panic"}
	}
	return ev.M{"res": "ok", "back": back}
}

// decode feeds a document that the encoder did not produce to json.Unmarshal (or to UnmarshalJSON directly)
func decode(w *ev.Writer, h *Handler, doc []byte, direct bool, extra ev.M) {
	k := "Dec"
	if direct {
		k = "Direct"
	}
	m := ev.M{"k": k, "ty": h.TD.M(), "name": h.Name, "doc": hex.EncodeToString(doc), "gowf": b2i(json.Valid(doc))}
	for kk, v := range extra {
		m[kk] = v
	}
	w.Emit(ev.M{"k": "Begin", "name": h.Name, "doc": m["doc"], "direct": b2i(direct)})
	if h.Inner != nil && !direct {
		m["inner"] = innerDecode(h.Inner, doc)
	}
	p, errc, pan := unmarshal(h, doc, direct)
	if pan != "" {
		m["k"] = "Panic"
		m["op"] = "unmarshal"
		if direct {
			m["op"] = "unmarshal-direct"
		}
		m["panic"] = pan
		w.Emit(m)
		return
	}
	if errc != "" {
		m["res"] = "err"
		m["back"] = ""
		if v, found := encoderValueFor(h, doc, nil, false); found && !direct {
			m["encof"] = v
		}
		w.Emit(m)
		return
	}
	back, pan := dumpSafe(h, p)
	if pan != "" {
		m["k"] = "Panic"
		m["op"] = "dump"
		m["panic"] = pan
		w.Emit(m)
		return
	}
	m["res"] = "ok"
	m["back"] = back
	if v, found := encoderValueFor(h, doc, back, true); found && !direct {
		m["encof"] = v
	}
	w.Emit(m)
}

func b2i(b bool) int {
	if b {
		return 1
	}
	return 0
}

// ---------------------------------------------------------------- malformed documents

// documents of the wrong JSON kind (and a few odd but well-formed spellings)
var kindDocs = []string{
	`123`, `-1`, `0`, `1.5`, `1e3`, `-0`, `"abc"`, `""`, `"0"`, `"-1"`, `{}`, `[]`, `[1]`, `["0"]`, `{"a":1}`, `{"0":"0"}`,
	`true`, `false`, `null`, `"1"`, `"\"0\""`, ` "0" `, `"0x10"`, `"00"`, `"+1"`, `"1_"`, `"0:"`, `":"`, `"::"`, `"-"`, `"_"`,
	`"0:00:Anycast(1,0)"`, `"0:00:Anycast(,)"`, `"0:00:Anycast()"`, `"b5ee9c72"`, `{"SumType":"Unknown"}`, `{"SumType":"Unknown","Value":5}`,
	// bags of cells as text: no cell and no root, one cell and no root, one root, the same root twice
	`"b5ee9c72010100000000"`, `"b5ee9c720101010000020000"`, `"b5ee9c72010101010002000000"`, `"b5ee9c7201010102000200000000"`,
	`{"SumType":"nope","Value":{}}`, `{"SumType":"TextComment","Value":[]}`, `{"SumType":"Excess","OpCode":"x","Value":{}}`, `{"OpCode":-1}`,
}

var substPool = []byte{'"', '\\', '0', '1', '9', 'a', 'f', 'F', 'g', 'z', '-', '+', '_', ':', ',', '(', ')', '{', '}', '[', ']', ' ', '.', 'e', 'x', 'n', 0x00, 0x1f, 0x7f, 0x80, 0xff}

func positions(n, limit int, r *rand.Rand) []int {
	ps := make([]int, 0, n)
	if n <= limit {
		for i := 0; i < n; i++ {
			ps = append(ps, i)
		}
		return ps
	}
	// long documents: the first and last 48 bytes always, a random sample in between
	seen := map[int]bool{}
	for i := 0; i < 48 && i < n; i++ {
		seen[i] = true
		seen[n-1-i] = true
	}
	for len(seen) < limit {
		seen[r.Intn(n)] = true
	}
	for i := range seen {
		ps = append(ps, i)
	}
	sort.Ints(ps)
	return ps
}

// fixed replacement bytes of the deterministic mutation (bases = encoder output for TLC-enumerated class values)
var detPool = []byte{'"', '-', 'g', '_', ':', ',', 0x00, 0x80}

func substCandidates(c byte, r *rand.Rand, nsub int) []byte {
	if r == nil { // deterministic
		cands := []byte{}
		switch {
		case c >= '0' && c <= '9':
			cands = append(cands, '0', '9', byte('0'+(int(c-'0')+1)%10), 'f')
		case c >= 'a' && c <= 'f':
			cands = append(cands, '0', 'f', 'a', '9')
		case c >= 'A' && c <= 'F':
			cands = append(cands, '0', 'F', 'A', '9')
		}
		return append(cands, detPool...)
	}
	cands := []byte{}
	// a neighbour of the same character class keeps the document plausible (digit -> other digit, hex -> other hex)
	switch {
	case c >= '0' && c <= '9':
		cands = append(cands, byte('0'+(int(c-'0')+1+r.Intn(9))%10), '0', '9')
	case (c >= 'a' && c <= 'f') || (c >= 'A' && c <= 'F'):
		cands = append(cands, "0123456789abcdefABCDEF"[r.Intn(22)], '0')
	}
	for len(cands) < nsub+2 {
		cands = append(cands, substPool[r.Intn(len(substPool))])
	}
	return cands
}

// mutate: truncation at every byte, one-byte substitutions at every byte, wrong-kind documents.
// r == nil: deterministic (every position, fixed replacement bytes); otherwise random replacements and, for long
// documents, a random sample of positions.
func mutate(w *ev.Writer, h *Handler, base []byte, r *rand.Rand, thorough bool, extra ev.M) {
	limit, nsub := 160, 2
	if thorough {
		limit, nsub = 4000, 6
	}
	if r == nil {
		limit, nsub = 1<<30, 100
	}
	bh := hex.EncodeToString(base)
	if len(bh) > 200 {
		bh = bh[:200]
	}
	with := func(m ev.M) ev.M {
		for k, v := range extra {
			m[k] = v
		}
		return m
	}
	pr := r
	if pr == nil {
		pr = rand.New(rand.NewSource(1))
	}
	for _, i := range positions(len(base), limit, pr) {
		decode(w, h, base[:i], false, with(ev.M{"mut": "trunc", "pos": i}))
		if i%3 == 0 {
			decode(w, h, base[:i], true, with(ev.M{"mut": "trunc", "pos": i}))
		}
	}
	for _, i := range positions(len(base), limit, pr) {
		c := base[i]
		done := 0
		seen := map[byte]bool{c: true}
		for _, x := range substCandidates(c, r, nsub) {
			if seen[x] || done >= nsub {
				continue
			}
			seen[x] = true
			done++
			d := append([]byte{}, base...)
			d[i] = x
			decode(w, h, d, false, with(ev.M{"mut": "subst", "pos": i, "base": bh}))
		}
	}
	for _, d := range kindDocs {
		decode(w, h, []byte(d), false, with(ev.M{"mut": "kind"}))
		decode(w, h, []byte(d), true, with(ev.M{"mut": "kind"}))
	}
}

// ---------------------------------------------------------------- the driver

func randomValue(h *Handler, r *rand.Rand) (p any, val any, err error) {
	if h.RandGo != nil {
		p = h.RandGo(r)
		return p, h.Dump(p), nil
	}
	val = norm(h.Rand(r))
	p, err = h.Build(val)
	if err != nil {
		return nil, val, err
	}
	// harness self-check: Build and Dump are inverse (no JSON code of the library involved)
	if d := norm(h.Dump(p)); !reflect.DeepEqual(d, val) {
		return nil, val, fmt.Errorf("harness Build/Dump mismatch for %s: %v vs %v", h.Name, val, d)
	}
	return p, val, nil
}

func isGenerated(t string) bool {
	return t == "uint" || t == "int" || t == "varuint" || t == "bits"
}

// Drive records random round trips and mutated-document decodes for the types of this shard.
func Drive(w *ev.Writer, o Opts) error {
	w.Sync = true
	thorough := o.Tier == "thorough"
	for idx, key := range order {
		if o.Shards > 1 && idx%o.Shards != o.Shard {
			continue
		}
		h := handlers[key]
		r := rand.New(rand.NewSource(o.Seed*1000003 + int64(idx)*7919 + 17))
		nval, nseed := 160, 2
		if isGenerated(h.TD.T) {
			nval = 40
		}
		if h.TD.T == "cell" || h.TD.T == "any" || h.TD.T == "inbody" || h.TD.T == "outbody" {
			nval = 60
		}
		if h.TD.T == "addr" {
			nval = 400
		}
		if thorough {
			nval *= 80
			nseed = 12
		}
		w.Emit(ev.M{"k": "Reset", "name": h.Name, "part": "rt"})
		var texts [][]byte
		var sdocs []seqDoc
		for i := 0; i < nval; i++ {
			p, val, err := randomValue(h, r)
			if err != nil {
				return err
			}
			t := roundTrip(w, h, p, val, ev.M{"src": "rand"})
			if t != nil && len(t) <= 700 {
				texts = append(texts, t)
			}
			if t != nil && len(t) <= 3000 && len(sdocs) < 400 {
				sdocs = append(sdocs, seqDoc{t, val})
			}
		}
		// decoding into a reused target: chains of random documents through one variable / reused slice elements
		w.Emit(ev.M{"k": "Reset", "name": h.Name, "part": "reuse"})
		chains := 6
		if thorough {
			chains = 60
		}
		randomReuse(w, h, sdocs, r, chains, 8)
		// garbage inserted into string documents
		w.Emit(ev.M{"k": "Reset", "name": h.Name, "part": "ins"})
		for i := 0; i < chains && len(sdocs) > 0; i++ {
			d := sdocs[r.Intn(len(sdocs))]
			insertGarbage(w, h, d.doc, d.val, ev.M{"src": "rand"})
		}
		w.Emit(ev.M{"k": "Reset", "name": h.Name, "part": "mut"})
		if len(texts) == 0 {
			continue
		}
		// seeds for mutation: the shortest, the longest and random ones
		sort.SliceStable(texts, func(i, j int) bool { return len(texts[i]) < len(texts[j]) })
		seeds := [][]byte{texts[0], texts[len(texts)-1]}
		for len(seeds) < nseed {
			seeds = append(seeds, texts[r.Intn(len(texts))])
		}
		for _, s := range seeds[:nseed] {
			mutate(w, h, s, r, thorough, ev.M{"src": "rand"})
		}
	}
	w.Emit(ev.M{"k": "End", "events": w.N})
	return nil
}

// ---------------------------------------------------------------- S->C replay

// Replay executes TLC-generated vectors: {"k":"RT","ty":..,"cls":..,"val":..} and {"k":"Dec","ty":..,"cls":..,"doc":hex}.
// The output is a trace of the same shape as the driver's (judged by JsonForms_Trace) plus a harness-side "match" flag.
func Replay(in string, w *ev.Writer, shard, shards int) error {
	w.Sync = true
	f, err := os.Open(in)
	if err != nil {
		return err
	}
	defer f.Close()
	sc := bufio.NewScanner(f)
	sc.Buffer(make([]byte, 1<<20), 64<<20)
	n := 0
	w.Emit(ev.M{"k": "Reset", "name": "vectors", "part": "vec"})
	for sc.Scan() {
		if len(sc.Bytes()) == 0 {
			continue
		}
		if shards > 1 && n%shards != shard {
			n++
			continue
		}
		var v map[string]any
		if err := json.Unmarshal(sc.Bytes(), &v); err != nil {
			return fmt.Errorf("vector %d: %v", n, err)
		}
		td, err := tdFrom(v["ty"])
		if err != nil {
			return fmt.Errorf("vector %d: %v", n, err)
		}
		h, err := lookup(td)
		if err != nil {
			return fmt.Errorf("vector %d: %v", n, err)
		}
		extra := ev.M{"src": "vec", "vec": n, "cls": v["cls"]}
		switch v["k"] {
		case "RT":
			p, err := h.Build(v["val"])
			if err != nil {
				return fmt.Errorf("vector %d (%s %v): cannot build the value: %v", n, h.Name, v["cls"], err)
			}
			// the event carries the harness's own reading of the value it built: Dump(Build(val)); for
			// cell trees this also turns the tree into the canonical text the specification compares
			val, pan := dumpSafe(h, p)
			if pan != "" {
				return fmt.Errorf("vector %d: dump panicked: %s", n, pan)
			}
			if td.T != "cell" && td.T != "any" && td.T != "inbody" && td.T != "outbody" && td.T != "maybe" {
				if !reflect.DeepEqual(norm(val), norm(v["val"])) {
					return fmt.Errorf("vector %d (%s): harness Build/Dump mismatch: %v vs %v", n, h.Name, v["val"], val)
				}
			}
			if want, ok := v["canon"]; ok { // canonical value form computed by the specification (cells)
				extra["canon"] = want
			}
			text := roundTrip(w, h, p, val, extra)
			if num(v["mut"]) == 1 && text != nil {
				mutate(w, h, text, nil, false, ev.M{"src": "vec", "vec": n, "cls": v["cls"]})
				insertGarbage(w, h, text, val, ev.M{"src": "vec", "vec": n, "cls": v["cls"]})
			}
		case "Seq":
			vals, _ := v["vals"].([]any)
			var docs []seqDoc
			for _, av := range vals {
				p, err := h.Build(av)
				if err != nil {
					return fmt.Errorf("vector %d (%s %v): cannot build the value: %v", n, h.Name, v["cls"], err)
				}
				val, pan := dumpSafe(h, p)
				if pan != "" {
					return fmt.Errorf("vector %d: dump panicked: %s", n, pan)
				}
				text, errc, pan := marshalRaw(p)
				if pan != "" || errc != "" {
					docs = nil // the round-trip vectors report an encoder that fails
					break
				}
				docs = append(docs, seqDoc{text, norm(val)})
			}
			if len(docs) >= 2 {
				reuseSequence(w, h, docs, extra)
			}
		case "Dec":
			doc, err := hex.DecodeString(v["doc"].(string))
			if err != nil {
				return fmt.Errorf("vector %d: bad doc hex", n)
			}
			extra["mut"] = "bad"
			decode(w, h, doc, num(v["direct"]) == 1, extra)
		default:
			return fmt.Errorf("vector %d: unknown kind %v", n, v["k"])
		}
		n++
	}
	if err := sc.Err(); err != nil {
		return err
	}
	w.Emit(ev.M{"k": "End", "events": w.N, "vectors": n})
	return nil
}

// Types lists the registered types (for the runner's coverage figures).
func Types(w *ev.Writer) error {
	for _, k := range order {
		h := handlers[k]
		w.Emit(ev.M{"k": "Type", "ty": h.TD.M(), "name": h.Name})
	}
	w.Emit(ev.M{"k": "End", "events": w.N})
	return nil
}
