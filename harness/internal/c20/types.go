// Package c20 drives the JSON encoders / decoders of tongo's chain value types for property C20
// (spec/JsonForms.tla).  The harness only builds values, calls MarshalJSON / json.Unmarshal and records
// what happened; every judgement (well-formedness of the text, equality of the parsed-back value,
// domain membership, the stated exclusion) is made by TLC over the recorded events.
//
// Abstract value forms (shared with the specification):
//
//	integers (uint/int/varuint/grams/signedcoins/magic)   decimal string
//	byte arrays (bits N, tonbits256, tlint256)             lower-case hex string
//	bitstring                                              "0101..."
//	cell, any                                              canonical text  <type>{<bits>}[child,child,...]  ("cyclic" if not a finite tree)
//	addr      {"kind":"none|extern|std|var","wc":"dec","bits":"0101","any":0|1,"ad":depth,"ap":"dec"}
//	account   {"wc":"dec","hex":"..."}
//	maybe     {"ex":0|1,"v":<inner or "">}
//	inbody / outbody {"sum":"..","hasop":0|1,"op":"dec","v":"canonical cell text or TL-B hash"}
//
// types_generated.go was produced by a ten-line python loop over the widths of tlb/generator.go
// (1..64, 128/256/257, VarUInteger 1..32, Bits 80..512).
package c20

import (
	"encoding/hex"
	"fmt"
	"math/big"
	"math/rand"
	"reflect"
	"strings"

	"github.com/tonkeeper/tongo/abi"
	"github.com/tonkeeper/tongo/boc"
	"github.com/tonkeeper/tongo/tl"
	"github.com/tonkeeper/tongo/tlb"
	"github.com/tonkeeper/tongo/ton"
)

// TD is a type descriptor as the specification sees it.
type TD struct {
	T  string `json:"t"`
	N  int    `json:"n"`
	Of *TD    `json:"of,omitempty"`
}

func (d TD) Key() string {
	if d.Of != nil {
		return fmt.Sprintf("%s(%s)", d.T, d.Of.Key())
	}
	return fmt.Sprintf("%s:%d", d.T, d.N)
}

func (d TD) M() map[string]any {
	m := map[string]any{"t": d.T, "n": d.N}
	if d.Of != nil {
		m["of"] = d.Of.M()
	}
	return m
}

func tdFrom(x any) (TD, error) {
	m, ok := x.(map[string]any)
	if !ok {
		return TD{}, fmt.Errorf("type descriptor is not an object: %v", x)
	}
	d := TD{}
	d.T, _ = m["t"].(string)
	if n, ok := m["n"].(float64); ok {
		d.N = int(n)
	}
	if of, ok := m["of"]; ok {
		o, err := tdFrom(of)
		if err != nil {
			return d, err
		}
		d.Of = &o
	}
	return d, nil
}

// Handler binds one Go type to its descriptor.
type Handler struct {
	TD    TD
	Name  string                     // Go type name, used in report keys
	New   func() any                 // pointer to a fresh zero value
	Build func(val any) (any, error) // abstract form -> pointer to a Go value
	Dump  func(p any) any            // pointer to a Go value -> abstract form (no JSON code involved, cycle safe)
	Rand  func(r *rand.Rand) any     // random in-domain abstract value
	// RandGo: for types whose abstract form cannot be rebuilt into a Go value (known message bodies):
	// a random Go value directly; its abstract form is Dump of it
	RandGo func(r *rand.Rand) any
	// Inner: for wrappers that delegate to another covered type (Maybe[T] -> T, Any -> Cell): the inner
	// handler and the inner value of a wrapper value (nil if absent). The driver runs the inner type on
	// the same input so that the runner can attribute a rejection to the inner type's own decoder.
	Inner    *Handler
	InnerPtr func(p any) any
}

var handlers = map[string]*Handler{}
var order []string

func reg(h *Handler) {
	k := h.TD.Key()
	if _, dup := handlers[k]; dup {
		panic("c20: duplicate handler " + k)
	}
	handlers[k] = h
	order = append(order, k)
}

func lookup(d TD) (*Handler, error) {
	h, ok := handlers[d.Key()]
	if !ok {
		return nil, fmt.Errorf("no handler for type %s", d.Key())
	}
	return h, nil
}

var bigIntType = reflect.TypeOf(big.Int{})

func typeName(p any) string { return reflect.TypeOf(p).Elem().Name() }

func parseDec(val any) (*big.Int, error) {
	s, ok := val.(string)
	if !ok {
		return nil, fmt.Errorf("integer value must be a decimal string, got %T", val)
	}
	z, ok := new(big.Int).SetString(s, 10)
	if !ok {
		return nil, fmt.Errorf("bad decimal %q", s)
	}
	return z, nil
}

// effective width / signedness of the integer families (the domain is re-checked by the specification)
func intShape(t string, n int) (w int, signed bool) {
	switch t {
	case "uint":
		return n, false
	case "int":
		return n, true
	case "varuint":
		return 8 * (n - 1), false
	case "grams":
		return 64, false
	case "signedcoins":
		return 64, true
	case "magic":
		return 32, false
	}
	panic("intShape " + t)
}

// randInt: boundary-biased random integer of the family's domain
func randInt(r *rand.Rand, w int, signed bool) *big.Int {
	one := big.NewInt(1)
	if w == 0 {
		return big.NewInt(0)
	}
	mw := w // magnitude width
	if signed {
		mw = w - 1
	}
	max := new(big.Int).Sub(new(big.Int).Lsh(one, uint(mw)), one) // 2^mw - 1
	min := big.NewInt(0)
	if signed {
		min = new(big.Int).Neg(new(big.Int).Lsh(one, uint(mw)))
	}
	switch r.Intn(10) {
	case 0:
		return max
	case 1:
		return min
	case 2:
		z := new(big.Int).Sub(max, big.NewInt(int64(1+r.Intn(2))))
		if z.Sign() < 0 {
			z.SetInt64(0)
		}
		return z
	case 3:
		if signed {
			return big.NewInt(-1)
		}
		return big.NewInt(0)
	}
	// random bit length, then random bits: covers every order of magnitude
	bl := 0
	if mw > 0 {
		bl = r.Intn(mw + 1)
	}
	z := new(big.Int)
	for i := 0; i < bl; i++ {
		z.Lsh(z, 1)
		if r.Intn(2) == 1 || i == 0 {
			z.Or(z, one)
		}
	}
	if signed && r.Intn(2) == 1 {
		z.Neg(z)
		if r.Intn(8) == 0 {
			z.Sub(z, one) // can reach min
		}
		if z.Cmp(min) < 0 {
			z.Set(min)
		}
	}
	return z
}

func regNative(t string, n int, mk func() any) {
	w, signed := intShape(t, n)
	reg(&Handler{TD: TD{T: t, N: n}, Name: typeName(mk()), New: mk,
		Build: func(val any) (any, error) {
			z, err := parseDec(val)
			if err != nil {
				return nil, err
			}
			p := mk()
			e := reflect.ValueOf(p).Elem()
			switch e.Kind() {
			case reflect.Uint8, reflect.Uint16, reflect.Uint32, reflect.Uint64:
				if z.Sign() < 0 || z.BitLen() > e.Type().Bits() {
					return nil, fmt.Errorf("%s does not fit the Go type", z)
				}
				e.SetUint(z.Uint64())
			default:
				if !z.IsInt64() || e.OverflowInt(z.Int64()) {
					return nil, fmt.Errorf("%s does not fit the Go type", z)
				}
				e.SetInt(z.Int64())
			}
			return p, nil
		},
		Dump: func(p any) any {
			e := reflect.ValueOf(p).Elem()
			switch e.Kind() {
			case reflect.Uint8, reflect.Uint16, reflect.Uint32, reflect.Uint64:
				return new(big.Int).SetUint64(e.Uint()).String()
			}
			return big.NewInt(e.Int()).String()
		},
		Rand: func(r *rand.Rand) any { return randInt(r, w, signed).String() },
	})
}

func regBig(t string, n int, mk func() any) {
	w, signed := intShape(t, n)
	reg(&Handler{TD: TD{T: t, N: n}, Name: typeName(mk()), New: mk,
		Build: func(val any) (any, error) {
			z, err := parseDec(val)
			if err != nil {
				return nil, err
			}
			p := mk()
			e := reflect.ValueOf(p).Elem()
			e.Set(reflect.ValueOf(*z).Convert(e.Type()))
			return p, nil
		},
		Dump: func(p any) any {
			e := reflect.ValueOf(p).Elem()
			z := e.Convert(bigIntType).Interface().(big.Int)
			return z.String()
		},
		Rand: func(r *rand.Rand) any { return randInt(r, w, signed).String() },
	})
}

func randBytes(r *rand.Rand, n int) []byte {
	b := make([]byte, n)
	switch r.Intn(6) {
	case 0: // zeros
	case 1:
		for i := range b {
			b[i] = 0xff
		}
	case 2:
		b[r.Intn(n)] = 1 << uint(r.Intn(8))
	default:
		r.Read(b)
	}
	return b
}

func regBytes(t string, n int, nbytes int, mk func() any) {
	reg(&Handler{TD: TD{T: t, N: n}, Name: typeName(mk()), New: mk,
		Build: func(val any) (any, error) {
			s, _ := val.(string)
			b, err := hex.DecodeString(s)
			if err != nil || len(b) != nbytes {
				return nil, fmt.Errorf("bad %d-byte hex %q", nbytes, s)
			}
			p := mk()
			reflect.Copy(reflect.ValueOf(p).Elem(), reflect.ValueOf(b))
			return p, nil
		},
		Dump: func(p any) any {
			e := reflect.ValueOf(p).Elem()
			b := make([]byte, e.Len())
			reflect.Copy(reflect.ValueOf(b), e)
			return hex.EncodeToString(b)
		},
		Rand: func(r *rand.Rand) any { return hex.EncodeToString(randBytes(r, nbytes)) },
	})
}

// ---------------------------------------------------------------- bit strings and cells

func bitsFromStr(s string) (boc.BitString, error) {
	bs := boc.NewBitString(len(s))
	for _, c := range s {
		switch c {
		case '0':
			bs.WriteBit(false)
		case '1':
			bs.WriteBit(true)
		default:
			return bs, fmt.Errorf("bad bit string %q", s)
		}
	}
	return bs, nil
}

func randBitsStr(r *rand.Rand, max int) string {
	var n int
	switch r.Intn(8) {
	case 0:
		n = 0
	case 1:
		n = max
	case 2:
		n = max - 1 - r.Intn(8)
		if n < 0 {
			n = 0
		}
	case 3:
		n = r.Intn(17)
	default:
		n = r.Intn(max + 1)
	}
	mode := r.Intn(5)
	var sb strings.Builder
	for i := 0; i < n; i++ {
		switch mode {
		case 0:
			sb.WriteByte('0')
		case 1:
			sb.WriteByte('1')
		default:
			sb.WriteByte(byte('0' + r.Intn(2)))
		}
	}
	return sb.String()
}

// cellText is the canonical non-JSON form of a cell: <type>{<bits>}[children]. It walks the pointer
// structure itself (no Hash, no BoC code) and reports "cyclic" for anything that is not a finite tree.
func cellText(c *boc.Cell) string {
	var sb strings.Builder
	onPath := map[*boc.Cell]bool{}
	budget := 200000
	var walk func(c *boc.Cell, depth int) bool
	walk = func(c *boc.Cell, depth int) bool {
		if c == nil {
			sb.WriteString("nil")
			return true
		}
		budget--
		if onPath[c] || depth > 2000 || budget < 0 {
			return false
		}
		onPath[c] = true
		defer delete(onPath, c)
		bs := c.RawBitString()
		fmt.Fprintf(&sb, "%d{%s}", int(c.CellType()), bs.BinaryString())
		refs := c.Refs()
		if len(refs) > 0 {
			sb.WriteByte('[')
			for i, ch := range refs {
				if i > 0 {
					sb.WriteByte(',')
				}
				if !walk(ch, depth+1) {
					return false
				}
			}
			sb.WriteByte(']')
		}
		return true
	}
	if !walk(c, 0) {
		return "cyclic"
	}
	return sb.String()
}

// cell tree in vectors: {"x":type,"b":"0101","r":[...]}; "share":true makes all children one pointer
func cellFromTree(x any) (*boc.Cell, error) {
	m, ok := x.(map[string]any)
	if !ok {
		return nil, fmt.Errorf("cell tree must be an object, got %T", x)
	}
	ct := 0
	if f, ok := m["x"].(float64); ok {
		ct = int(f)
	}
	var c *boc.Cell
	if ct == 0 {
		c = boc.NewCell()
	} else {
		c = boc.NewCellExotic(boc.CellType(ct))
	}
	b, _ := m["b"].(string)
	bs, err := bitsFromStr(b)
	if err != nil {
		return nil, err
	}
	if err := c.WriteBitString(bs); err != nil {
		return nil, err
	}
	if rs, ok := m["r"].([]any); ok {
		for _, ch := range rs {
			cc, err := cellFromTree(ch)
			if err != nil {
				return nil, err
			}
			if err := c.AddRef(cc); err != nil {
				return nil, err
			}
		}
	}
	return c, nil
}

// parse the canonical text back into a cell (used to rebuild stored values)
func cellFromText(s string) (*boc.Cell, error) {
	pos := 0
	var parse func() (*boc.Cell, error)
	parse = func() (*boc.Cell, error) {
		if pos >= len(s) || s[pos] < '0' || s[pos] > '9' {
			return nil, fmt.Errorf("bad cell text at %d", pos)
		}
		ct := int(s[pos] - '0')
		pos++
		if pos >= len(s) || s[pos] != '{' {
			return nil, fmt.Errorf("bad cell text at %d", pos)
		}
		end := strings.IndexByte(s[pos:], '}')
		if end < 0 {
			return nil, fmt.Errorf("bad cell text")
		}
		bits := s[pos+1 : pos+end]
		pos += end + 1
		var c *boc.Cell
		if ct == 0 {
			c = boc.NewCell()
		} else {
			c = boc.NewCellExotic(boc.CellType(ct))
		}
		bs, err := bitsFromStr(bits)
		if err != nil {
			return nil, err
		}
		if err := c.WriteBitString(bs); err != nil {
			return nil, err
		}
		if pos < len(s) && s[pos] == '[' {
			pos++
			for {
				ch, err := parse()
				if err != nil {
					return nil, err
				}
				if err := c.AddRef(ch); err != nil {
					return nil, err
				}
				if pos < len(s) && s[pos] == ',' {
					pos++
					continue
				}
				if pos < len(s) && s[pos] == ']' {
					pos++
					break
				}
				return nil, fmt.Errorf("bad cell text at %d", pos)
			}
		}
		return c, nil
	}
	c, err := parse()
	if err != nil {
		return nil, err
	}
	if pos != len(s) {
		return nil, fmt.Errorf("trailing cell text")
	}
	return c, nil
}

func buildCell(val any) (*boc.Cell, error) {
	switch v := val.(type) {
	case string:
		return cellFromText(v)
	case map[string]any:
		return cellFromTree(v)
	}
	return nil, fmt.Errorf("bad cell value %T", val)
}

func randCell(r *rand.Rand, depth int, pool *[]*boc.Cell) *boc.Cell {
	if r.Intn(12) == 0 { // library cell: the simplest exotic cell that any tree may contain
		c := boc.NewCellExotic(boc.LibraryCell)
		c.WriteUint(2, 8)
		c.WriteBytes(randBytes(r, 32))
		return c
	}
	c := boc.NewCell()
	bs, _ := bitsFromStr(randBitsStr(r, 1023))
	c.WriteBitString(bs)
	if depth > 0 {
		n := r.Intn(5)
		if r.Intn(3) == 0 {
			n = 0
		}
		for i := 0; i < n; i++ {
			var ch *boc.Cell
			if len(*pool) > 0 && r.Intn(4) == 0 {
				ch = (*pool)[r.Intn(len(*pool))] // shared sub-tree (DAG)
			} else {
				ch = randCell(r, depth-1, pool)
				*pool = append(*pool, ch)
			}
			c.AddRef(ch)
		}
	}
	return c
}

func randCellText(r *rand.Rand) string {
	var pool []*boc.Cell
	d := r.Intn(4)
	if r.Intn(10) == 0 { // a long chain
		c := boc.NewCell()
		c.WriteUint(uint64(r.Intn(256)), 8)
		links := 40 + r.Intn(60)
		if r.Intn(3) == 0 { // around the 1-byte / 2-byte counter boundary of a bag: 255, 256, 257 distinct cells
			links = 252 + r.Intn(7)
		}
		for i := 0; i < links; i++ {
			p := boc.NewCell()
			p.WriteUint(uint64(i), 16)
			p.AddRef(c)
			c = p
		}
		return cellText(c)
	}
	return cellText(randCell(r, d, &pool))
}

// ---------------------------------------------------------------- addresses

func addrM(kind, wc, bits string, any_, ad int, ap string) map[string]any {
	return map[string]any{"kind": kind, "wc": wc, "bits": bits, "any": any_, "ad": ad, "ap": ap}
}

func num(x any) int {
	f, _ := x.(float64)
	if i, ok := x.(int); ok {
		return i
	}
	return int(f)
}

func buildAddr(val any) (*tlb.MsgAddress, error) {
	m, ok := val.(map[string]any)
	if !ok {
		return nil, fmt.Errorf("address value must be an object")
	}
	kind, _ := m["kind"].(string)
	bitsS, _ := m["bits"].(string)
	wc, err := parseDec(m["wc"])
	if err != nil {
		return nil, err
	}
	var any_ tlb.Maybe[tlb.Anycast]
	if num(m["any"]) == 1 {
		ap, err := parseDec(m["ap"])
		if err != nil {
			return nil, err
		}
		any_ = tlb.Maybe[tlb.Anycast]{Exists: true, Value: tlb.Anycast{Depth: uint32(num(m["ad"])), RewritePfx: uint32(ap.Uint64())}}
	}
	bs, err := bitsFromStr(bitsS)
	if err != nil {
		return nil, err
	}
	a := &tlb.MsgAddress{}
	switch kind {
	case "none":
		a.SumType = "AddrNone"
	case "extern":
		a.SumType = "AddrExtern"
		a.AddrExtern = &bs
	case "std":
		if len(bitsS) != 256 {
			return nil, fmt.Errorf("std address needs 256 bits")
		}
		a.SumType = "AddrStd"
		a.AddrStd.Anycast = any_
		a.AddrStd.WorkchainId = int8(wc.Int64())
		b, _ := bs.GetTopUppedArray()
		copy(a.AddrStd.Address[:], b)
	case "var":
		a.SumType = "AddrVar"
		a.AddrVar = &struct {
			Anycast     tlb.Maybe[tlb.Anycast]
			AddrLen     tlb.Uint9
			WorkchainId int32
			Address     boc.BitString
		}{Anycast: any_, AddrLen: tlb.Uint9(len(bitsS)), WorkchainId: int32(wc.Int64()), Address: bs}
	default:
		return nil, fmt.Errorf("bad address kind %q", kind)
	}
	return a, nil
}

func bytesBits(b []byte) string {
	var sb strings.Builder
	for _, x := range b {
		fmt.Fprintf(&sb, "%08b", x)
	}
	return sb.String()
}

func dumpAnycast(m tlb.Maybe[tlb.Anycast]) (int, int, string) {
	if !m.Exists {
		return 0, 0, "0"
	}
	return 1, int(m.Value.Depth), fmt.Sprint(m.Value.RewritePfx)
}

func dumpAddr(a *tlb.MsgAddress) any {
	switch a.SumType {
	case "AddrNone":
		return addrM("none", "0", "", 0, 0, "0")
	case "AddrExtern":
		if a.AddrExtern == nil {
			return addrM("extern-nil", "0", "", 0, 0, "0")
		}
		return addrM("extern", "0", a.AddrExtern.BinaryString(), 0, 0, "0")
	case "AddrStd":
		e, d, p := dumpAnycast(a.AddrStd.Anycast)
		return addrM("std", fmt.Sprint(a.AddrStd.WorkchainId), bytesBits(a.AddrStd.Address[:]), e, d, p)
	case "AddrVar":
		if a.AddrVar == nil {
			return addrM("var-nil", "0", "", 0, 0, "0")
		}
		e, d, p := dumpAnycast(a.AddrVar.Anycast)
		// AddrLen is part of the value: a decoder that sets it inconsistently with the bits is wrong
		if int(a.AddrVar.AddrLen) != a.AddrVar.Address.BitsAvailableForRead() {
			return addrM("var-len-mismatch", fmt.Sprint(a.AddrVar.WorkchainId), a.AddrVar.Address.BinaryString(), e, d, p)
		}
		return addrM("var", fmt.Sprint(a.AddrVar.WorkchainId), a.AddrVar.Address.BinaryString(), e, d, p)
	}
	return addrM("sumtype:"+string(a.SumType), "0", "", 0, 0, "0")
}

var wcInteresting = []int64{-2147483648, -2147483647, -32769, -32768, -129, -128, -127, -2, -1, 0, 1, 2, 126, 127, 128, 255, 256, 32767, 65536, 2147483646, 2147483647}

func randAnycast(r *rand.Rand) (int, int, string) {
	if r.Intn(3) != 0 {
		return 0, 0, "0"
	}
	d := 1 + r.Intn(30)
	if r.Intn(4) == 0 {
		d = []int{1, 30}[r.Intn(2)]
	}
	var p uint32
	switch r.Intn(3) {
	case 0:
		p = 0
	case 1:
		p = uint32(1)<<uint(d) - 1
	default:
		p = uint32(r.Int63()) & (uint32(1)<<uint(d) - 1)
	}
	return 1, d, fmt.Sprint(p)
}

func randAddr(r *rand.Rand) any {
	switch r.Intn(8) {
	case 0:
		return addrM("none", "0", "", 0, 0, "0")
	case 1, 2:
		return addrM("extern", "0", randBitsStr(r, 511), 0, 0, "0")
	case 3, 4:
		e, d, p := randAnycast(r)
		wc := int64(int8(r.Intn(256)))
		if r.Intn(3) == 0 {
			wc = []int64{-128, -1, 0, 127}[r.Intn(4)]
		}
		return addrM("std", fmt.Sprint(wc), bytesBits(randBytes(r, 32)), e, d, p)
	default:
		e, d, p := randAnycast(r)
		wc := wcInteresting[r.Intn(len(wcInteresting))]
		if r.Intn(3) == 0 {
			wc = int64(int32(r.Uint32()))
		}
		bits := randBitsStr(r, 511)
		if r.Intn(5) == 0 { // around the standard length, on both sides of the excluded class
			bits = bytesBits(randBytes(r, 33))[:252+r.Intn(9)]
		}
		return addrM("var", fmt.Sprint(wc), bits, e, d, p)
	}
}

// ---------------------------------------------------------------- message body envelopes

type bodyLike struct {
	sum   string
	op    *uint32
	value any
}

func bodyDump(b bodyLike) any {
	m := map[string]any{"sum": b.sum, "hasop": 0, "op": "0", "v": ""}
	if b.op != nil {
		m["hasop"] = 1
		m["op"] = fmt.Sprint(*b.op)
	}
	switch v := b.value.(type) {
	case nil:
		m["v"] = "nil"
	case *boc.Cell:
		m["v"] = cellText(v)
	default:
		// known body types: canonical form = the TL-B serialisation of the decoded struct
		c := boc.NewCell()
		if err := tlb.Marshal(c, v); err != nil {
			m["v"] = "tlb-marshal-error:" + reflect.TypeOf(v).String()
		} else {
			m["v"] = reflect.TypeOf(v).Name() + ":" + cellText(c)
		}
	}
	return m
}

func stdAddr(r *rand.Rand) tlb.MsgAddress {
	a, _ := buildAddr(addrM("std", fmt.Sprint(int64(int8(r.Intn(256)))), bytesBits(randBytes(r, 32)), 0, 0, "0"))
	return *a
}

func randGrams16(r *rand.Rand) tlb.VarUInteger16 {
	return tlb.VarUInteger16(*randInt(r, 120, false))
}

// random envelope values; the inner values stay inside classes that round-trip on their own
func randBody(r *rand.Rand, in bool) bodyLike {
	u32 := func() *uint32 { x := r.Uint32(); return &x }
	switch k := r.Intn(8); {
	case k == 0:
		return bodyLike{sum: abi.EmptyMsgOp}
	case k <= 3:
		var pool []*boc.Cell
		c := randCell(r, r.Intn(3), &pool)
		b := bodyLike{sum: abi.UnknownMsgOp, value: c}
		if r.Intn(2) == 0 {
			b.op = u32()
		}
		return b
	}
	if !in {
		if r.Intn(2) == 0 {
			v := abi.DedustWithdrawalExtOutMsgBody{}
			fillRandom(r, reflect.ValueOf(&v).Elem())
			return bodyLike{sum: abi.DedustWithdrawalExtOutMsgOp, op: u32(), value: v}
		}
		v := abi.MegatonUpdateMiningParamsExtOutMsgBody{}
		fillRandom(r, reflect.ValueOf(&v).Elem())
		return bodyLike{sum: abi.MegatonUpdateMiningParamsExtOutMsgOp, op: u32(), value: v}
	}
	switch r.Intn(4) {
	case 0:
		return bodyLike{sum: abi.ExcessMsgOp, op: u32(), value: abi.ExcessMsgBody{QueryId: r.Uint64()}}
	case 1:
		txt := []string{"", "hello", "a \"quoted\" \\ text\n\t", "привет, мир", "{\"k\":1}", "  line sep", "<&>"}[r.Intn(7)]
		return bodyLike{sum: abi.TextCommentMsgOp, op: u32(), value: abi.TextCommentMsgBody{Text: tlb.Text(txt)}}
	case 2:
		return bodyLike{sum: abi.JettonBurnMsgOp, op: u32(), value: abi.JettonBurnMsgBody{QueryId: r.Uint64(), Amount: randGrams16(r), ResponseDestination: stdAddr(r)}}
	default:
		return bodyLike{sum: abi.HipoFinanceProxyTokensMintedMsgOp, value: func() any {
			v := abi.HipoFinanceProxyTokensMintedMsgBody{}
			fillRandom(r, reflect.ValueOf(&v).Elem())
			return v
		}()}
	}
}

// fillRandom fills plain structs made of the covered types (uint64, VarUInteger16, Grams, MsgAddress, bool...)
func fillRandom(r *rand.Rand, v reflect.Value) {
	switch x := v.Addr().Interface().(type) {
	case *tlb.MsgAddress:
		*x = stdAddr(r)
		return
	case *tlb.VarUInteger16:
		*x = randGrams16(r)
		return
	case *tlb.Grams:
		*x = tlb.Grams(r.Uint64() >> uint(r.Intn(64)) >> 1)
		return
	case *tlb.Bits256:
		copy(x[:], randBytes(r, 32))
		return
	case *tlb.Uint256:
		*x = tlb.Uint256(*randInt(r, 256, false))
		return
	}
	switch v.Kind() {
	case reflect.Struct:
		if v.Type().ConvertibleTo(bigIntType) {
			return
		}
		for i := 0; i < v.NumField(); i++ {
			if v.Field(i).CanSet() {
				fillRandom(r, v.Field(i))
			}
		}
	case reflect.Uint8, reflect.Uint16, reflect.Uint32, reflect.Uint64:
		v.SetUint(r.Uint64() >> uint(64-v.Type().Bits()))
	case reflect.Int8, reflect.Int16, reflect.Int32, reflect.Int64:
		v.SetInt(int64(r.Uint64()) >> uint(64-v.Type().Bits()))
	case reflect.Bool:
		v.SetBool(r.Intn(2) == 1)
	}
}

// rebuild an envelope from its abstract form; only Empty / Unknown can be rebuilt from the form alone,
// known bodies are kept by the driver (S->C vectors contain only Empty / Unknown)
func buildBody(val any) (bodyLike, error) {
	m, ok := val.(map[string]any)
	if !ok {
		return bodyLike{}, fmt.Errorf("body value must be an object")
	}
	b := bodyLike{}
	b.sum, _ = m["sum"].(string)
	if num(m["hasop"]) == 1 {
		z, err := parseDec(m["op"])
		if err != nil {
			return b, err
		}
		x := uint32(z.Uint64())
		b.op = &x
	}
	switch b.sum {
	case abi.EmptyMsgOp:
	case abi.UnknownMsgOp:
		c, err := buildCell(m["v"])
		if err != nil {
			return b, err
		}
		b.value = c
	default:
		return b, fmt.Errorf("cannot rebuild a %q body from its abstract form", b.sum)
	}
	return b, nil
}

// ---------------------------------------------------------------- registration of the hand-written types

func regMaybe[T any](inner TD) {
	ih, err := lookup(inner)
	if err != nil {
		panic(err)
	}
	in := inner
	reg(&Handler{TD: TD{T: "maybe", N: 0, Of: &in}, Name: "Maybe[" + ih.Name + "]", Inner: ih,
		InnerPtr: func(p any) any {
			m := p.(*tlb.Maybe[T])
			if !m.Exists {
				return nil
			}
			return &m.Value
		},
		New: func() any { return new(tlb.Maybe[T]) },
		Build: func(val any) (any, error) {
			m, ok := val.(map[string]any)
			if !ok {
				return nil, fmt.Errorf("maybe value must be an object")
			}
			p := new(tlb.Maybe[T])
			if num(m["ex"]) == 1 {
				iv, err := ih.Build(m["v"])
				if err != nil {
					return nil, err
				}
				p.Exists = true
				p.Value = *(iv.(*T))
			}
			return p, nil
		},
		Dump: func(p any) any {
			m := p.(*tlb.Maybe[T])
			if !m.Exists {
				return map[string]any{"ex": 0, "v": ""}
			}
			return map[string]any{"ex": 1, "v": ih.Dump(&m.Value)}
		},
		Rand: func(r *rand.Rand) any {
			if r.Intn(4) == 0 {
				return map[string]any{"ex": 0, "v": ""}
			}
			return map[string]any{"ex": 1, "v": ih.Rand(r)}
		},
	})
}

func init() {
	regGenerated() // types_generated.go
	regHandwritten()
}

func regHandwritten() {
	regNative("grams", 0, func() any { return new(tlb.Grams) })
	regNative("signedcoins", 0, func() any { return new(tlb.SignedCoins) })
	regNative("magic", 0, func() any { return new(tlb.Magic) })
	regBytes("tonbits256", 0, 32, func() any { return new(ton.Bits256) })
	regBytes("tlint256", 0, 32, func() any { return new(tl.Int256) })
	handlers["tonbits256:0"].Name = "ton.Bits256" // not to be confused with tlb.Bits256
	handlers["tlint256:0"].Name = "tl.Int256"

	reg(&Handler{TD: TD{T: "bitstring"}, Name: "BitString", New: func() any { return new(boc.BitString) },
		Build: func(val any) (any, error) {
			s, _ := val.(string)
			bs, err := bitsFromStr(s)
			return &bs, err
		},
		Dump: func(p any) any { return p.(*boc.BitString).BinaryString() },
		Rand: func(r *rand.Rand) any { return randBitsStr(r, 1023) },
	})
	reg(&Handler{TD: TD{T: "cell"}, Name: "Cell", New: func() any { return new(boc.Cell) },
		Build: func(val any) (any, error) { return buildCell(val) },
		Dump:  func(p any) any { return cellText(p.(*boc.Cell)) },
		Rand:  func(r *rand.Rand) any { return randCellText(r) },
	})
	reg(&Handler{TD: TD{T: "any"}, Name: "Any", New: func() any { return new(tlb.Any) }, Inner: handlers["cell:0"],
		InnerPtr: func(p any) any { return (*boc.Cell)(p.(*tlb.Any)) },
		Build: func(val any) (any, error) {
			c, err := buildCell(val)
			if err != nil {
				return nil, err
			}
			a := tlb.Any(*c)
			return &a, nil
		},
		Dump: func(p any) any { return cellText((*boc.Cell)(p.(*tlb.Any))) },
		Rand: func(r *rand.Rand) any { return randCellText(r) },
	})
	reg(&Handler{TD: TD{T: "addr"}, Name: "MsgAddress", New: func() any { return new(tlb.MsgAddress) },
		Build: func(val any) (any, error) { return buildAddr(val) },
		Dump:  func(p any) any { return dumpAddr(p.(*tlb.MsgAddress)) },
		Rand:  randAddr,
	})
	reg(&Handler{TD: TD{T: "account"}, Name: "AccountID", New: func() any { return new(ton.AccountID) },
		Build: func(val any) (any, error) {
			m, ok := val.(map[string]any)
			if !ok {
				return nil, fmt.Errorf("account value must be an object")
			}
			wc, err := parseDec(m["wc"])
			if err != nil {
				return nil, err
			}
			h, _ := m["hex"].(string)
			b, err := hex.DecodeString(h)
			if err != nil || len(b) != 32 {
				return nil, fmt.Errorf("bad account hex")
			}
			a := &ton.AccountID{Workchain: int32(wc.Int64())}
			copy(a.Address[:], b)
			return a, nil
		},
		Dump: func(p any) any {
			a := p.(*ton.AccountID)
			return map[string]any{"wc": fmt.Sprint(a.Workchain), "hex": hex.EncodeToString(a.Address[:])}
		},
		Rand: func(r *rand.Rand) any {
			wc := wcInteresting[r.Intn(len(wcInteresting))]
			if r.Intn(3) == 0 {
				wc = int64(int32(r.Uint32()))
			}
			return map[string]any{"wc": fmt.Sprint(wc), "hex": hex.EncodeToString(randBytes(r, 32))}
		},
	})
	reg(&Handler{TD: TD{T: "inbody"}, Name: "InMsgBody", New: func() any { return new(abi.InMsgBody) },
		Build: func(val any) (any, error) {
			b, err := buildBody(val)
			if err != nil {
				return nil, err
			}
			return &abi.InMsgBody{SumType: b.sum, OpCode: b.op, Value: b.value}, nil
		},
		Dump: func(p any) any {
			b := p.(*abi.InMsgBody)
			return bodyDump(bodyLike{b.SumType, b.OpCode, b.Value})
		},
		RandGo: func(r *rand.Rand) any {
			b := randBody(r, true)
			return &abi.InMsgBody{SumType: b.sum, OpCode: b.op, Value: b.value}
		},
	})
	reg(&Handler{TD: TD{T: "outbody"}, Name: "ExtOutMsgBody", New: func() any { return new(abi.ExtOutMsgBody) },
		Build: func(val any) (any, error) {
			b, err := buildBody(val)
			if err != nil {
				return nil, err
			}
			return &abi.ExtOutMsgBody{SumType: b.sum, OpCode: b.op, Value: b.value}, nil
		},
		Dump: func(p any) any {
			b := p.(*abi.ExtOutMsgBody)
			return bodyDump(bodyLike{b.SumType, b.OpCode, b.Value})
		},
		RandGo: func(r *rand.Rand) any {
			b := randBody(r, false)
			return &abi.ExtOutMsgBody{SumType: b.sum, OpCode: b.op, Value: b.value}
		},
	})

	regMaybe[tlb.Uint8](TD{T: "uint", N: 8})
	regMaybe[tlb.Int64](TD{T: "int", N: 64})
	regMaybe[tlb.Uint256](TD{T: "uint", N: 256})
	regMaybe[tlb.VarUInteger16](TD{T: "varuint", N: 16})
	regMaybe[tlb.Grams](TD{T: "grams"})
	regMaybe[tlb.Bits256](TD{T: "bits", N: 256})
	regMaybe[tlb.MsgAddress](TD{T: "addr"})
	regMaybe[boc.Cell](TD{T: "cell"})
	regMaybe[boc.BitString](TD{T: "bitstring"})
	// no Maybe[Maybe[T]]: the library ships no such instantiation
}
