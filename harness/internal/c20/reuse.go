package c20

// Decoding into a target that is not fresh (C20: the value denoted after decoding document d is Denote(d),
// independent of what the target held before).  A sequence of documents is decoded into ONE reused variable
// (and into the reused elements of a slice with spare capacity, which is what encoding/json does itself);
// after every step the harness records the FULL structural state of the target - every exported field,
// including Value under Exists=false and the fields of constructors that are not selected - and the full
// state of a fresh decode of the same document.  The comparison is made by TLC (JsonForms!ReuseOK).

import (
	"encoding/hex"
	"encoding/json"
	"fmt"
	"math/big"
	"math/rand"
	"reflect"
	"sort"
	"strings"

	"github.com/tonkeeper/tongo/boc"
	"github.com/tonkeeper/tongo/tlb"

	"verifharness/internal/ev"
)

var (
	cellType      = reflect.TypeOf(boc.Cell{})
	bitStringType = reflect.TypeOf(boc.BitString{})
	anyType       = reflect.TypeOf(tlb.Any{})
)

// fullDump: the complete structural state reachable from p (a pointer). No JSON code, no Hash, cycle safe for cells.
func fullDump(p any) (s string, pan string) {
	defer func() {
		if r := recover(); r != nil {
			pan = fmt.Sprint(r)
		}
	}()
	var sb strings.Builder
	dumpValue(&sb, reflect.ValueOf(p).Elem(), 0)
	return sb.String(), ""
}

func dumpValue(sb *strings.Builder, v reflect.Value, depth int) {
	if depth > 40 {
		sb.WriteString("<deep>")
		return
	}
	t := v.Type()
	switch {
	case t == cellType || t == anyType:
		pv := v
		if !pv.CanAddr() {
			c := reflect.New(t)
			c.Elem().Set(v)
			pv = c.Elem()
		}
		sb.WriteString("cell:" + cellText(pv.Addr().Convert(reflect.PointerTo(cellType)).Interface().(*boc.Cell)))
		return
	case t == bitStringType:
		bs := v.Interface().(boc.BitString)
		sb.WriteString("bits:" + bs.BinaryString())
		return
	case t.Kind() == reflect.Struct && t.ConvertibleTo(bigIntType) && bigIntType.ConvertibleTo(t):
		z := v.Convert(bigIntType).Interface().(big.Int)
		sb.WriteString(z.String())
		return
	}
	switch v.Kind() {
	case reflect.Bool:
		fmt.Fprint(sb, v.Bool())
	case reflect.Int, reflect.Int8, reflect.Int16, reflect.Int32, reflect.Int64:
		fmt.Fprint(sb, v.Int())
	case reflect.Uint, reflect.Uint8, reflect.Uint16, reflect.Uint32, reflect.Uint64:
		fmt.Fprint(sb, v.Uint())
	case reflect.String:
		fmt.Fprintf(sb, "%q", v.String())
	case reflect.Array, reflect.Slice:
		if v.Kind() == reflect.Slice && v.IsNil() {
			sb.WriteString("nil")
			return
		}
		if t.Elem().Kind() == reflect.Uint8 {
			b := make([]byte, v.Len())
			reflect.Copy(reflect.ValueOf(b), v)
			sb.WriteString("x" + hex.EncodeToString(b))
			return
		}
		sb.WriteByte('[')
		for i := 0; i < v.Len(); i++ {
			if i > 0 {
				sb.WriteByte(',')
			}
			dumpValue(sb, v.Index(i), depth+1)
		}
		sb.WriteByte(']')
	case reflect.Pointer:
		if v.IsNil() {
			sb.WriteString("nil")
			return
		}
		sb.WriteByte('&')
		dumpValue(sb, v.Elem(), depth+1)
	case reflect.Interface:
		if v.IsNil() {
			sb.WriteString("nil")
			return
		}
		e := v.Elem()
		sb.WriteString(e.Type().String() + "(")
		if e.Kind() == reflect.Pointer || e.CanAddr() {
			dumpValue(sb, e, depth+1)
		} else {
			c := reflect.New(e.Type())
			c.Elem().Set(e)
			dumpValue(sb, c.Elem(), depth+1)
		}
		sb.WriteByte(')')
	case reflect.Map:
		keys := v.MapKeys()
		ks := make([]string, len(keys))
		m := map[string]reflect.Value{}
		for i, k := range keys {
			ks[i] = fmt.Sprint(k.Interface())
			m[ks[i]] = v.MapIndex(k)
		}
		sort.Strings(ks)
		sb.WriteString("map{")
		for _, k := range ks {
			sb.WriteString(k + ":")
			c := reflect.New(m[k].Type())
			c.Elem().Set(m[k])
			dumpValue(sb, c.Elem(), depth+1)
			sb.WriteByte(';')
		}
		sb.WriteByte('}')
	case reflect.Struct:
		sb.WriteByte('{')
		for i := 0; i < t.NumField(); i++ {
			f := t.Field(i)
			if !f.IsExported() {
				continue
			}
			sb.WriteString(f.Name + ":")
			dumpValue(sb, v.Field(i), depth+1)
			sb.WriteByte(';')
		}
		sb.WriteByte('}')
	default:
		fmt.Fprintf(sb, "<%s>", v.Kind())
	}
}

type seqDoc struct {
	doc []byte
	val any // abstract form of the value the document encodes (nil if it is not an encoder text)
}

func putVal(m ev.M, key string, d seqDoc) {
	if d.val != nil {
		m[key] = d.val
	}
}

func decodeInto(p any, doc []byte) (res string, pan string) {
	defer func() {
		if r := recover(); r != nil {
			pan = fmt.Sprint(r)
		}
	}()
	if err := json.Unmarshal(doc, p); err != nil {
		return "err", ""
	}
	return "ok", ""
}

// freshDecode: Denote(doc) as the real decoder reads it into a zero target
func freshDecode(h *Handler, doc []byte) (res, full, pan string) {
	p := h.New()
	res, pan = decodeInto(p, doc)
	if pan != "" {
		return "", "", pan
	}
	full, pan = fullDump(p)
	return res, full, pan
}

// reuseSequence decodes docs one after another into one variable, then once more into the reused elements of a slice.
func reuseSequence(w *ev.Writer, h *Handler, docs []seqDoc, extra ev.M) {
	emit := func(k string, m ev.M) {
		m["k"] = k
		m["ty"] = h.TD.M()
		m["name"] = h.Name
		for kk, v := range extra {
			m[kk] = v
		}
		w.Emit(m)
	}
	step := func(how string, i int, target any, before string) (string, bool) {
		d := docs[i]
		base := ev.M{"how": how, "step": i + 1, "doc": hex.EncodeToString(d.doc), "before": before}
		putVal(base, "val", d)
		if i > 0 {
			putVal(base, "prev", docs[i-1])
			base["prevdoc"] = hex.EncodeToString(docs[i-1].doc)
		}
		w.Emit(ev.M{"k": "Begin", "name": h.Name, "doc": base["doc"], "direct": 0})
		fres, ffull, pan := freshDecode(h, d.doc)
		if pan != "" {
			base["op"], base["panic"] = "unmarshal", pan
			emit("Panic", base)
			return "", false
		}
		res, pan := decodeInto(target, d.doc)
		if pan != "" {
			base["op"], base["panic"] = "unmarshal-reused", pan
			emit("Panic", base)
			return "", false
		}
		after, pan := fullDump(target)
		if pan != "" {
			base["op"], base["panic"] = "dump", pan
			emit("Panic", base)
			return "", false
		}
		base["res"], base["after"], base["freshres"], base["fresh"] = res, after, fres, ffull
		emit("Seq", base)
		return after, true
	}
	// (1) one variable
	target := h.New()
	before, pan := fullDump(target)
	if pan != "" {
		return
	}
	for i := range docs {
		var ok bool
		if before, ok = step("var", i, target, before); !ok {
			return
		}
	}
	// (2) a slice with spare capacity: encoding/json decodes into the old elements
	n := len(docs)
	if n < 2 {
		return
	}
	et := reflect.TypeOf(h.New()).Elem()
	sl := reflect.MakeSlice(reflect.SliceOf(et), n, n)
	for i := 0; i < n; i++ { // element i holds the value of document i
		if _, pan := decodeInto(sl.Index(i).Addr().Interface(), docs[i].doc); pan != "" {
			return
		}
	}
	// now decode the documents rotated by one, so that every element receives another document
	var arr []byte
	arr = append(arr, '[')
	rot := make([]seqDoc, n)
	for i := 0; i < n; i++ {
		rot[i] = docs[(i+1)%n]
		if i > 0 {
			arr = append(arr, ',')
		}
		arr = append(arr, rot[i].doc...)
	}
	arr = append(arr, ']')
	befores := make([]string, n)
	for i := 0; i < n; i++ {
		befores[i], _ = fullDump(sl.Index(i).Addr().Interface())
	}
	ptr := reflect.New(sl.Type())
	ptr.Elem().Set(sl.Slice(0, 0))
	w.Emit(ev.M{"k": "Begin", "name": h.Name, "doc": hex.EncodeToString(arr), "direct": 0})
	res, pan := decodeInto(ptr.Interface(), arr)
	if pan != "" {
		emit("Panic", ev.M{"how": "slice", "doc": hex.EncodeToString(arr), "op": "unmarshal-reused", "panic": pan})
		return
	}
	if res != "ok" || ptr.Elem().Len() != n {
		return // some document is not decodable: the single-variable steps above already recorded that
	}
	for i := 0; i < n; i++ {
		fres, ffull, pan := freshDecode(h, rot[i].doc)
		if pan != "" || fres != "ok" {
			continue
		}
		after, pan := fullDump(ptr.Elem().Index(i).Addr().Interface())
		if pan != "" {
			continue
		}
		m := ev.M{"how": "slice", "step": i + 1, "doc": hex.EncodeToString(rot[i].doc), "prevdoc": hex.EncodeToString(docs[i].doc),
			"before": befores[i], "res": "ok", "after": after, "freshres": fres, "fresh": ffull}
		putVal(m, "val", rot[i])
		putVal(m, "prev", docs[i])
		emit("Seq", m)
	}
}

// randomReuse: a chain of random encoder texts (plus null and a few foreign documents) through one variable
func randomReuse(w *ev.Writer, h *Handler, texts []seqDoc, r *rand.Rand, chains, length int) {
	if len(texts) == 0 {
		return
	}
	foreign := []string{`null`, `""`, `0`, `{}`, `"0"`}
	for c := 0; c < chains; c++ {
		var docs []seqDoc
		for i := 0; i < length; i++ {
			if r.Intn(5) == 0 {
				docs = append(docs, seqDoc{[]byte(foreign[r.Intn(len(foreign))]), nil})
			} else {
				docs = append(docs, texts[r.Intn(len(texts))])
			}
		}
		reuseSequence(w, h, docs, ev.M{"src": "rand"})
	}
}

// ---------------------------------------------------------------- garbage inserted into a string document

// garbage that is no part of any spelling of a value (JsonForms section 5b); white space is left out on purpose:
// trimming it is a leniency, not a loss of input
var garbage = []string{"zz", "_", " 00", ":Anycast", "g", "!"}

// insertGarbage: from the encoder's text "s" of value val build "g s", "s1 g s2" and "s g" (garbage after the
// opening quote, in the middle, before the closing quote) and decode them. Judged by JsonForms!InsertOK: an error, or a
// value different from val - never val itself, which would mean that part of the string was ignored.
func insertGarbage(w *ev.Writer, h *Handler, text []byte, val any, extra ev.M) {
	n := len(text)
	if n < 2 || text[0] != '"' || text[n-1] != '"' {
		return
	}
	for _, g := range garbage {
		for _, pos := range []int{n - 1, 1, 1 + (n-2)/2} {
			if pos != n-1 && (g == " 00" || g == "_" || g == ":Anycast") {
				continue // in front of / inside a numeral, zeros and separators can be part of another spelling of the same value
			}
			if pos == 1+(n-2)/2 && n <= 3 {
				continue // no middle
			}
			doc := append(append(append([]byte{}, text[:pos]...), g...), text[pos:]...)
			m := ev.M{"k": "Ins", "ty": h.TD.M(), "name": h.Name, "val": val, "base": hex.EncodeToString(text), "doc": hex.EncodeToString(doc),
				"garbage": g, "pos": pos, "where": map[int]string{n - 1: "end", 1: "start"}[pos], "gowf": b2i(json.Valid(doc))}
			if m["where"] == "" {
				m["where"] = "middle"
			}
			for k, v := range extra {
				m[k] = v
			}
			w.Emit(ev.M{"k": "Begin", "name": h.Name, "doc": m["doc"], "direct": 0})
			p, errc, pan := unmarshal(h, doc, false)
			if pan != "" {
				m["k"], m["op"], m["panic"] = "Panic", "unmarshal", pan
				w.Emit(m)
				continue
			}
			if errc != "" {
				m["res"], m["back"] = "err", ""
				w.Emit(m)
				continue
			}
			back, pan := dumpSafe(h, p)
			if pan != "" {
				m["k"], m["op"], m["panic"] = "Panic", "dump", pan
				w.Emit(m)
				continue
			}
			m["res"], m["back"] = "ok", back
			w.Emit(m)
		}
	}
}
