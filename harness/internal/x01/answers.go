package x01

// answers.go: concrete answers.  An answer is described by a handful of independent CHOICES (which block each part
// is taken from, what is kept in each proof, the shape of each bag); the honest answer is the default of every
// choice, a named tampering of the decision table changes one or two of them, the random driver draws them freely.

import (
	"fmt"
	"math/rand"
)

// ------------------------------------------------------------------ getAccountState
type acctCtx struct {
	w        *world
	ref, sb  *block // trusted reference block, block of the account's shard (ref == sb when the account lives in ref)
	ref2     *block // the older reference block
	sb2      *block // the older block of the account's shard
	sib      *block // top block of the sibling shard (nil in a one-shard world or for masterchain accounts)
	wc       int32
	addr     [32]byte
	present  bool
	shardKey uint64
}

type acctChoice struct {
	idSrc      string  // "ref" | "alt"                        block the answer claims to be about
	seqBump    bool    // the trusted id names seqno+1 (and the answer echoes it)
	idFile     bool    // one bit of file_hash of the id in the answer is changed
	sbFile     bool    // one bit of file_hash of shardblk is changed
	sbSeq      bool    // shardblk names seqno+1
	sbSrc      string  // "sb" | "alt" | "sib"                 shardblk
	spForm     string  // "honest" | "missing" | "trunc" | "one_root"
	spHdr      string  // "ref" | "alt"                        shard proof: which masterchain block
	spState    string  // "ref" | "alt"                        shard proof: which masterchain state
	spPruned   bool    // shard proof: the BinTree leaf is pruned
	hdrSrc     string  // "sb" | "alt" | "sib"                 proof root 1
	hdrKeep    string  // "full" | "no_su" | "no_info"
	stSrc      string  // "sb" | "alt" | "sib"                 proof root 2
	path       string  // "addr" | "other" | "cut"
	leaf       string  // "" | "stale" | "rehashed"
	storedHash bool    // one bit of the hash stored in the Merkle-proof cell of the state proof is changed
	pForm      string  // "two" | "one_root" | "three" | "swapped" | "not_exotic" | "trunc" | "garbage" | "empty"
	state      string  // "own" | "other" | "modified" | "empty" | "some"
	sForm      string  // "one" | "trunc" | "two_roots"
	extra      float64 // share of further cells revealed in the state proof (still honest: a proof may reveal more than needed)
	opt        bocOpt
}

func honestAcct() acctChoice {
	return acctChoice{idSrc: "ref", sbSrc: "sb", spForm: "honest", spHdr: "ref", spState: "ref", hdrSrc: "sb", hdrKeep: "full", stSrc: "sb",
		path: "addr", pForm: "two", state: "own", sForm: "one"}
}

type acctAnswer struct {
	trusted           blockID // what the client is told to trust (WithBlock) - equals ref.id unless seqBump
	id, shardblk      blockID
	shardProof, proof []byte
	state             []byte
}

var errNotApplicable = fmt.Errorf("not applicable in this world")

func (c *acctCtx) refOf(src string) *block {
	if src == "alt" {
		return c.ref2
	}
	return c.ref
}
func (c *acctCtx) sbOf(src string) *block {
	switch src {
	case "alt":
		return c.sb2
	case "sib":
		return c.sib
	}
	return c.sb
}

func (st *state) find(addr [32]byte) *account {
	for _, a := range st.accounts {
		if a.addr == addr {
			return a
		}
	}
	return nil
}

func headerProof(b *block, keep string) *node {
	ks := keepSet(b.headerKeep())
	switch keep {
	case "no_su":
		delete(ks, b.su)
	case "no_info":
		delete(ks, b.info)
		for _, n := range b.inf2 {
			delete(ks, n)
		}
	}
	return proofOf(b.root, ks)
}

func (st *state) acctKeep(addr [32]byte) []*node {
	ks := []*node{st.root, st.accCell}
	if st.dictRoot != nil {
		ks = append(ks, lookupPath(st.dictRoot, keyBits(addr), 256)...)
	}
	return ks
}

func shardStateProof(st *state, shard uint64, pruneLeaf bool) *node {
	ks := []*node{st.root, st.custom}
	ks = append(ks, lookupPath(st.shardsD, new(bw).u(0, 32).String(), 32)...)
	p := st.binPath[shard]
	if pruneLeaf {
		p = p[:len(p)-1]
	}
	ks = append(ks, p...)
	return proofOf(st.root, keepSet(ks))
}

// revealMore adds cells to a keep set: children of kept cells, each with probability p (closed under parents)
func revealMore(rng *rand.Rand, n *node, ks map[*node]bool, p float64) {
	if !ks[n] {
		return
	}
	for _, k := range n.r {
		if !ks[k] && rng.Float64() < p {
			ks[k] = true
		}
		revealMore(rng, k, ks, p)
	}
}

func flipBit(b string, i int) string {
	f := byte('0')
	if b[i] == '0' {
		f = '1'
	}
	return b[:i] + string(f) + b[i+1:]
}

func truncated(rng *rand.Rand, b []byte) []byte {
	if len(b) < 2 {
		return nil
	}
	return b[:1+rng.Intn(len(b)-1)]
}

func garbage(rng *rand.Rand) []byte {
	b := make([]byte, 20+rng.Intn(60))
	rng.Read(b)
	b[0] = 0x11 // not a bag-of-cells magic
	return b
}

func randOpt(rng *rand.Rand) bocOpt { return bocOpt{crc: rng.Intn(2) == 0, idx: rng.Intn(3) == 0} }

func (c *acctCtx) build(rng *rand.Rand, ch acctChoice) (*acctAnswer, error) {
	a := &acctAnswer{}
	idb, sbb := c.refOf(ch.idSrc), c.sbOf(ch.sbSrc)
	hb, stb := c.sbOf(ch.hdrSrc), c.sbOf(ch.stSrc)
	if sbb == nil || hb == nil || stb == nil {
		return nil, errNotApplicable
	}
	a.trusted = c.ref.id
	a.id, a.shardblk = idb.id, sbb.id
	if ch.seqBump {
		a.trusted.Seqno++
		if ch.idSrc == "ref" {
			a.id.Seqno++
		}
		if c.ref == c.sb && ch.sbSrc == "sb" {
			a.shardblk.Seqno++
		}
	}
	if ch.idFile {
		a.id.File[rng.Intn(32)] ^= 1 << uint(rng.Intn(8))
	}
	if ch.sbFile {
		a.shardblk.File[rng.Intn(32)] ^= 1 << uint(rng.Intn(8))
	}
	if ch.sbSeq {
		a.shardblk.Seqno++
	}
	// shard proof
	if c.ref != c.sb {
		switch ch.spForm {
		case "missing":
		default:
			hp := headerProof(c.refOf(ch.spHdr), "full")
			roots := []*node{hp}
			if ch.spForm != "one_root" {
				mst := c.refOf(ch.spState).st
				shard := sbb.id.Shard
				if _, ok := mst.binPath[shard]; !ok {
					return nil, errNotApplicable
				}
				roots = append(roots, shardStateProof(mst, shard, ch.spPruned))
			}
			a.shardProof = writeBoc(roots, ch.opt)
			if ch.spForm == "trunc" {
				a.shardProof = truncated(rng, a.shardProof)
			}
		}
	}
	// proof: [block header, state]
	hp := headerProof(hb, ch.hdrKeep)
	st := stb.st
	var keep []*node
	switch ch.path {
	case "addr":
		keep = st.acctKeep(c.addr)
	case "other":
		if st.dictRoot == nil {
			return nil, errNotApplicable
		}
		mine := lookupPath(st.dictRoot, keyBits(c.addr), 256)
		var cands [][]*node
		for _, o := range st.accounts {
			if o.addr == c.addr {
				continue
			}
			ks := keepSet(st.acctKeep(o.addr))
			hidden := false
			for _, n := range mine {
				if !ks[n] {
					hidden = true
				}
			}
			if hidden {
				cands = append(cands, st.acctKeep(o.addr))
			}
		}
		if len(cands) == 0 {
			return nil, errNotApplicable
		}
		keep = cands[rng.Intn(len(cands))]
	case "cut":
		if st.dictRoot == nil {
			return nil, errNotApplicable
		}
		p := lookupPath(st.dictRoot, keyBits(c.addr), 256)
		keep = append([]*node{st.root, st.accCell}, p[:rng.Intn(len(p))]...)
	}
	ks := keepSet(keep)
	if ch.extra > 0 && ch.path == "addr" {
		revealMore(rng, st.accCell, ks, ch.extra) // only the dictionary and the account records: the rest of the synthetic state is filler
	}
	sp := proofOf(st.root, ks)
	if ch.leaf != "" {
		// change last_trans_lt in the (revealed) leaf of the pruned copy
		child := sp.r[0]
		if st.dictRoot == nil || st.find(c.addr) == nil {
			return nil, errNotApplicable
		}
		p := lookupPath(child.r[1].r[0], keyBits(c.addr), 256)
		leaf := p[len(p)-1]
		if leaf.x != tOrd || len(leaf.b) < 64 {
			return nil, errNotApplicable
		}
		flip := byte('0')
		if leaf.b[len(leaf.b)-1] == '0' {
			flip = '1'
		}
		leaf.b = leaf.b[:len(leaf.b)-1] + string(flip)
		for _, n := range subtree(sp) {
			n.inf = nil
		}
		if ch.leaf == "rehashed" {
			sp = merkleProofOf(child)
		}
	}
	if ch.storedHash {
		sp = &node{b: flipBit(sp.b, 8+rng.Intn(256)), x: sp.x, r: sp.r}
	}
	switch ch.pForm {
	case "two":
		a.proof = writeBoc([]*node{hp, sp}, ch.opt)
	case "one_root":
		a.proof = writeBoc([]*node{sp}, ch.opt)
	case "three":
		a.proof = writeBoc([]*node{hp, sp, randCell(rng, 1)}, ch.opt)
	case "swapped":
		a.proof = writeBoc([]*node{sp, hp}, ch.opt)
	case "not_exotic":
		a.proof = writeBoc([]*node{hp, {b: sp.b, x: tOrd, r: sp.r}}, ch.opt)
	case "trunc":
		a.proof = truncated(rng, writeBoc([]*node{hp, sp}, ch.opt))
	case "garbage":
		a.proof = garbage(rng)
	case "empty":
	}
	// state
	var rec *node
	own := st.find(c.addr)
	switch ch.state {
	case "own":
		if own != nil {
			rec = own.cell
		}
	case "other", "some":
		var cands []*account
		for _, o := range st.accounts {
			if o.addr != c.addr {
				cands = append(cands, o)
			}
		}
		if len(cands) == 0 {
			return nil, errNotApplicable
		}
		rec = cands[rng.Intn(len(cands))].cell
	case "modified":
		rec = makeAccount(rng, c.wc, c.addr, rng.Intn(3)).cell
	case "empty":
	}
	if rec != nil {
		switch ch.sForm {
		case "one":
			a.state = writeBoc([]*node{rec}, ch.opt)
		case "trunc":
			a.state = truncated(rng, writeBoc([]*node{rec}, ch.opt))
		case "two_roots":
			a.state = writeBoc([]*node{rec, randCell(rng, 1)}, ch.opt)
		}
	}
	return a, nil
}

// the choices a named tampering of the decision table stands for
func acctTamper(t string) (acctChoice, error) {
	ch := honestAcct()
	switch t {
	case "none":
	case "ans_id_other":
		ch.idSrc, ch.sbSrc, ch.spHdr, ch.spState, ch.hdrSrc, ch.stSrc = "alt", "alt", "alt", "alt", "alt", "alt"
	case "ans_id_file_hash":
		ch.idFile = true
	case "shardblk_file_hash":
		ch.sbFile = true
	case "shardblk_seqno":
		ch.sbSeq = true
	case "wrong_shard":
		ch.sbSrc, ch.hdrSrc, ch.stSrc, ch.state = "sib", "sib", "sib", "empty"
	case "trusted_id_seqno":
		ch.seqBump = true
	case "shard_proof_missing":
		ch.spForm = "missing"
	case "shard_proof_trunc":
		ch.spForm = "trunc"
	case "shard_proof_one_root":
		ch.spForm = "one_root"
	case "shard_proof_other_mc":
		ch.spHdr, ch.spState, ch.sbSrc, ch.hdrSrc, ch.stSrc = "alt", "alt", "alt", "alt", "alt"
	case "shard_proof_state_mismatch":
		ch.spState, ch.sbSrc, ch.hdrSrc, ch.stSrc = "alt", "alt", "alt", "alt"
	case "shard_descr_other":
		ch.sbSrc, ch.hdrSrc, ch.stSrc = "alt", "alt", "alt"
	case "shard_proof_pruned":
		ch.spPruned = true
	case "header_other_block":
		ch.hdrSrc, ch.stSrc = "alt", "alt"
	case "state_update_mismatch":
		ch.stSrc = "alt"
	case "state_update_pruned":
		ch.hdrKeep = "no_su"
	case "info_pruned":
		ch.hdrKeep = "no_info"
	case "proof_other_account":
		ch.path = "other"
	case "path_pruned":
		ch.path = "cut"
	case "state_other":
		ch.state = "other"
	case "state_modified":
		ch.state = "modified"
	case "state_empty":
		ch.state = "empty"
	case "absent_with_state":
		ch.state = "some"
	case "leaf_lt_stale":
		ch.leaf = "stale"
	case "leaf_lt_rehashed":
		ch.leaf = "rehashed"
	case "proof_stored_hash":
		ch.storedHash = true
	case "proof_one_root":
		ch.pForm = "one_root"
	case "proof_three_roots":
		ch.pForm = "three"
	case "proof_swapped":
		ch.pForm = "swapped"
	case "proof_not_exotic":
		ch.pForm = "not_exotic"
	case "proof_trunc":
		ch.pForm = "trunc"
	case "proof_garbage":
		ch.pForm = "garbage"
	case "proof_empty":
		ch.pForm = "empty"
	case "state_trunc":
		ch.sForm = "trunc"
	case "state_two_roots":
		ch.sForm = "two_roots"
	default:
		return ch, fmt.Errorf("unknown account tampering %q", t)
	}
	return ch, nil
}

func pick(rng *rand.Rand, p float64, honest string, others ...string) string {
	if rng.Float64() < p {
		return others[rng.Intn(len(others))]
	}
	return honest
}

// a random combination of choices (most parts honest)
func randomAcctChoice(rng *rand.Rand, c *acctCtx, withblock bool) acctChoice {
	ch := honestAcct()
	const p = 0.07
	ch.idSrc = pick(rng, p, "ref", "alt")
	ch.seqBump = withblock && rng.Float64() < p/2
	ch.sbSrc = pick(rng, p, "sb", "alt", "sib")
	ch.idFile, ch.sbFile, ch.sbSeq = rng.Float64() < p/3, rng.Float64() < p/3, rng.Float64() < p/3
	ch.spForm = pick(rng, p, "honest", "missing", "trunc", "one_root")
	ch.spHdr = pick(rng, p, "ref", "alt")
	ch.spState = pick(rng, p, "ref", "alt")
	ch.spPruned = rng.Float64() < p/2
	ch.hdrSrc = pick(rng, p, "sb", "alt", "sib")
	ch.hdrKeep = pick(rng, p, "full", "no_su", "no_info")
	ch.stSrc = pick(rng, p, "sb", "alt", "sib")
	ch.path = pick(rng, p, "addr", "other", "cut")
	if c.present && ch.path == "addr" {
		ch.leaf = pick(rng, p, "", "stale", "rehashed")
	}
	ch.storedHash = rng.Float64() < p/3
	ch.pForm = pick(rng, p, "two", "one_root", "three", "swapped", "not_exotic", "trunc", "garbage", "empty")
	ch.state = pick(rng, p, "own", "other", "modified", "empty", "some")
	ch.sForm = pick(rng, p/2, "one", "trunc", "two_roots")
	ch.opt = randOpt(rng)
	if rng.Intn(3) == 0 {
		ch.extra = 0.1 + 0.6*rng.Float64()
	}
	return ch
}

// acctContext picks an account for a base of the decision table
func (w *world) acctContext(rng *rand.Rand, base string) (*acctCtx, error) {
	c := &acctCtx{w: w}
	present := false
	switch base {
	case "mc_present", "mc_absent":
		c.ref, c.sb, c.ref2, c.sb2, c.wc = w.M, w.M, w.M2, w.M2, -1
		present = base == "mc_present"
	case "wc_present", "wc_absent", "sb_present", "sb_absent":
		s := w.shardIDs[rng.Intn(len(w.shardIDs))]
		c.shardKey = s
		c.sb, c.sb2, c.wc = w.B[s], w.B2[s], 0
		if len(w.shardIDs) == 2 {
			c.sib = w.B[w.shardIDs[0]^w.shardIDs[1]^s]
		}
		if base[:2] == "wc" {
			c.ref, c.ref2 = w.M, w.M2
		} else {
			c.ref, c.ref2 = c.sb, c.sb2
		}
		present = base[3:] == "present"
	default:
		return nil, fmt.Errorf("unknown account base %q", base)
	}
	c.present = present
	if present {
		if len(c.sb.st.accounts) == 0 {
			return nil, errNotApplicable
		}
		c.addr = c.sb.st.accounts[rng.Intn(len(c.sb.st.accounts))].addr
	} else {
		for {
			c.addr = rnd32(rng)
			if c.wc == 0 && !shardContains(c.sb.id.Shard, c.addr) {
				continue
			}
			if c.sb.st.find(c.addr) == nil {
				break
			}
		}
	}
	return c, nil
}
