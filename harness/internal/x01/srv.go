package x01

// srv.go: a scripted lite server on the reference ADNL server (the core of harness/internal/c08/lite.go, whose
// types are not exported): answers getMasterchainInfo with the world's head, pings with pongs, and every other
// liteServer query through a callback that sees the request bytes; the request of the last query is kept so that
// the recorded event carries the block id the client really asked about.

import (
	"crypto/sha256"
	"encoding/base64"
	"encoding/binary"
	"fmt"
	"sync"
	"time"

	"github.com/tonkeeper/tongo/config"
	"github.com/tonkeeper/tongo/liteapi"

	"verifharness/internal/adnlsrv"
)

const (
	mPing    = 0x4d082b9a
	mPong    = 0xdc69fb03
	mQuery   = 0xb48bf97a
	mAnswer  = 0x0fac8416
	mLsQuery = 0x798c06df
	mWaitMc  = 0xbaeab892
	mLsError = 0xbba9e148
	mMcInfo  = 0x85832881

	fGetMcInfo       = 0x89b5e62e
	fGetAccount      = 0x6b890e25
	fGetBlock        = 0x6377cf0d
	fGetHeader       = 0x21ec069e
	fLookupBlock     = 0xfac8f71e
	fGetConfigAll    = 0x911b26b7
	fGetConfigParams = 0x2a111c19

	cAccountState = 0x7079c751
	cBlockData    = 0xa574ed6c
	cBlockHeader  = 0x752d8219
	cConfigInfo   = 0xae7b272f
)

func le32(v uint32) []byte { b := make([]byte, 4); binary.LittleEndian.PutUint32(b, v); return b }

func tlBytes(d []byte) []byte {
	var out []byte
	if len(d) < 254 {
		out = append(out, byte(len(d)))
	} else {
		out = append(out, 254, byte(len(d)), byte(len(d)>>8), byte(len(d)>>16))
	}
	out = append(out, d...)
	for len(out)%4 != 0 {
		out = append(out, 0)
	}
	return out
}

func readTlBytes(b []byte) (data, rest []byte, ok bool) {
	if len(b) == 0 {
		return nil, nil, false
	}
	n, h := int(b[0]), 1
	if b[0] == 254 {
		if len(b) < 4 {
			return nil, nil, false
		}
		n, h = int(b[1])|int(b[2])<<8|int(b[3])<<16, 4
	} else if b[0] == 255 {
		return nil, nil, false
	}
	tot := (h + n + 3) &^ 3
	if len(b) < tot {
		return nil, nil, false
	}
	return b[h : h+n], b[tot:], true
}

func tlBlockID(id blockID) []byte {
	b := le32(uint32(id.Wc))
	s := make([]byte, 8)
	binary.LittleEndian.PutUint64(s, id.Shard)
	b = append(b, s...)
	b = append(b, le32(id.Seqno)...)
	b = append(b, id.Root[:]...)
	return append(b, id.File[:]...)
}

func readBlockID(b []byte) (id blockID, rest []byte, ok bool) {
	if len(b) < 80 {
		return id, nil, false
	}
	id.Wc = int32(binary.LittleEndian.Uint32(b))
	id.Shard = binary.LittleEndian.Uint64(b[4:])
	id.Seqno = binary.LittleEndian.Uint32(b[12:])
	copy(id.Root[:], b[16:48])
	copy(id.File[:], b[48:80])
	return id, b[80:], true
}

type liteSrv struct {
	srv  *adnlsrv.Server
	mu   sync.Mutex
	head blockID
	// answer for a query (function id, request body after the id); nil = liteServer.error
	answer func(fid uint32, body []byte) []byte
	last   map[uint32][]byte
}

func newLiteSrv(name string, head blockID) (*liteSrv, error) {
	seed := sha256.Sum256([]byte("x01 scripted lite server " + name))
	srv, err := adnlsrv.New(seed[:])
	if err != nil {
		return nil, err
	}
	srv.Timeout = time.Hour
	s := &liteSrv{srv: srv, head: head, last: map[uint32][]byte{}}
	go srv.Serve(s.handle)
	return s, nil
}

func (s *liteSrv) handle(c *adnlsrv.Conn) {
	for {
		p, err := c.ReadPacket()
		if err != nil {
			return
		}
		if len(p) < 4 {
			continue
		}
		switch binary.LittleEndian.Uint32(p) {
		case mPing:
			if len(p) == 12 {
				c.SendPacket(append(le32(mPong), p[4:12]...))
			}
		case mQuery:
			if len(p) < 36 {
				continue
			}
			id := p[4:36]
			q, _, ok := readTlBytes(p[36:])
			if !ok || len(q) < 4 || binary.LittleEndian.Uint32(q) != mLsQuery {
				continue
			}
			data, _, ok := readTlBytes(q[4:])
			if !ok || len(data) < 4 {
				continue
			}
			if binary.LittleEndian.Uint32(data) == mWaitMc && len(data) >= 16 {
				continue // the pool's background wait for the next block: never answered
			}
			fid := binary.LittleEndian.Uint32(data)
			var ans []byte
			s.mu.Lock()
			s.last[fid] = append([]byte{}, data[4:]...)
			f := s.answer
			head := s.head
			s.mu.Unlock()
			if fid == fGetMcInfo {
				// liteServer.masterchainInfo last:tonNode.blockIdExt state_root_hash:int256 init:tonNode.zeroStateIdExt
				ans = append(le32(mMcInfo), tlBlockID(head)...)
				ans = append(ans, make([]byte, 32)...)
				ans = append(ans, le32(0xffffffff)...)
				ans = append(ans, make([]byte, 64)...)
			} else if f != nil {
				ans = f(fid, data[4:])
			}
			if ans == nil {
				ans = append(le32(mLsError), le32(404)...)
				ans = append(ans, tlBytes([]byte("not scripted"))...)
			}
			c.SendPacket(append(append(le32(mAnswer), id...), tlBytes(ans)...))
		}
	}
}

func (s *liteSrv) script(f func(fid uint32, body []byte) []byte) {
	s.mu.Lock()
	s.answer = f
	s.mu.Unlock()
}

func (s *liteSrv) lastReq(fid uint32) []byte {
	s.mu.Lock()
	defer s.mu.Unlock()
	return s.last[fid]
}

func (s *liteSrv) client(policy liteapi.ProofPolicy) (*liteapi.Client, error) {
	ls := config.LiteServer{Host: s.srv.Addr(), Key: base64.StdEncoding.EncodeToString(s.srv.PublicKey())}
	cl, err := liteapi.NewClient(liteapi.WithLiteServers([]config.LiteServer{ls}), liteapi.WithTimeout(5*time.Second),
		liteapi.WithMaxConnectionsNumber(1), liteapi.WithProofPolicy(policy))
	if err != nil {
		return nil, fmt.Errorf("liteapi client against the scripted server: %v", err)
	}
	return cl, nil
}
