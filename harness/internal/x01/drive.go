package x01

// drive.go: runs the real client calls.  Replay executes the rows of the decision table printed by LiteProof_Gen
// (S->C); Drive draws random combinations of choices (C->S).  Every call is recorded with the request the server
// saw, the answer it sent and what the client returned; TLC judges the file (LiteProof_Trace).

import (
	"bufio"
	"context"
	"encoding/hex"
	"encoding/json"
	"errors"
	"fmt"
	"math/rand"
	"os"
	"strings"
	"time"

	"github.com/tonkeeper/tongo/boc"
	"github.com/tonkeeper/tongo/liteapi"
	"github.com/tonkeeper/tongo/liteclient"
	"github.com/tonkeeper/tongo/tl"
	"github.com/tonkeeper/tongo/tlb"
	"github.com/tonkeeper/tongo/ton"

	"verifharness/internal/ev"
)

type Opts struct {
	Tier          string
	Seed          int64
	Shard, Shards int
}

type env struct {
	w    *world
	srv  *liteSrv
	cl   map[string]*liteapi.Client
	real map[string]*realBlock
	rng  *rand.Rand
}

func idJSON(b blockID) ev.M {
	return ev.M{"wc": b.Wc, "shard": fmt.Sprintf("%016x", b.Shard), "seqno": int(b.Seqno & 0x7fffffff), "root": hx(b.Root[:]), "file": hx(b.File[:])}
}

func tlID(b blockID) liteclient.TonNodeBlockIdExtC {
	return liteclient.TonNodeBlockIdExtC{Workchain: uint32(b.Wc), Shard: b.Shard, Seqno: b.Seqno, RootHash: tl.Int256(b.Root), FileHash: tl.Int256(b.File)}
}

func mustTL(v any) []byte {
	b, err := tl.Marshal(v)
	if err != nil {
		panic(fmt.Sprintf("x01: tl.Marshal: %v", err))
	}
	return b
}

func newEnv(name string, seed int64, nshards int, small bool, real map[string]*realBlock) (*env, error) {
	w := newWorld(seed, nshards, small)
	if err := w.selfCheck(); err != nil {
		return nil, err
	}
	srv, err := newLiteSrv(name, w.M.id)
	if err != nil {
		return nil, err
	}
	e := &env{w: w, srv: srv, cl: map[string]*liteapi.Client{}, real: real, rng: rand.New(rand.NewSource(seed ^ 0x5eed))}
	for p, pol := range map[string]liteapi.ProofPolicy{"unsafe": liteapi.ProofPolicyUnsafe, "fast": liteapi.ProofPolicyFast} {
		cl, err := srv.client(pol)
		if err != nil {
			return nil, err
		}
		e.cl[p] = cl
	}
	// the pool learns its head in the background
	for i := 0; ; i++ {
		ok := true
		for _, cl := range e.cl {
			mi, err := cl.GetMasterchainInfo(context.Background())
			if err != nil || mi.Last.Seqno != w.M.id.Seqno {
				ok = false
			}
		}
		if ok {
			break
		}
		if i > 100 {
			return nil, fmt.Errorf("x01: the client never learnt the scripted head")
		}
		time.Sleep(50 * time.Millisecond)
	}
	time.Sleep(200 * time.Millisecond)
	return e, nil
}

type rec struct {
	w   *ev.Writer
	seq int
}

// call records Begin (flushed) before and the result after the client call; panics become part of the result
func (r *rec) call(e ev.M, f func(g ev.M) error) {
	r.seq++
	e["seq"] = r.seq
	r.w.Sync = true
	r.w.Emit(ev.M{"k": "Begin", "seq": r.seq, "of": e["k"], "case": e["case"]})
	r.w.Sync = false
	g := ev.M{"ok": false, "err": "", "panic": ""}
	func() {
		defer func() {
			if p := recover(); p != nil {
				g["ok"] = false
				g["panic"] = fmt.Sprint(p)
				if len(g["panic"].(string)) > 300 {
					g["panic"] = g["panic"].(string)[:300]
				}
			}
		}()
		err := f(g)
		if err != nil {
			g["err"], g["msg"] = "e", trunc(err.Error(), 200)
			// a refusal must come from the answer, not from an overloaded machine: the runner treats this as infrastructure
			if errors.Is(err, context.DeadlineExceeded) || strings.Contains(err.Error(), "timeout") || strings.Contains(err.Error(), "not connected") {
				g["timeout"] = true
			}
		} else {
			g["ok"] = true
		}
	}()
	e["go"] = g
	r.w.Emit(e)
}

func trunc(s string, n int) string {
	if len(s) > n {
		return s[:n]
	}
	return s
}

func (e *env) client(policy, via string, trusted blockID) *liteapi.Client {
	cl := e.cl[policy]
	if via == "withblock" {
		return cl.WithBlock(trusted.ext())
	}
	return cl
}

func bits(v uint64, n int) string { return new(bw).u(v, n).String() }

// ------------------------------------------------------------------ calls
func (e *env) doAcct(r *rec, label ev.M, policy, via string, c *acctCtx, ch acctChoice) error {
	a, err := c.build(e.rng, ch)
	if err != nil {
		return err
	}
	if via == "head" && c.ref != e.w.M {
		return errNotApplicable
	}
	boxed := append(le32(cAccountState), mustTL(liteclient.LiteServerAccountStateC{Id: tlID(a.id), Shardblk: tlID(a.shardblk),
		ShardProof: a.shardProof, Proof: a.proof, State: a.state})...)
	e.srv.script(func(fid uint32, body []byte) []byte {
		if fid == fGetAccount {
			return boxed
		}
		return nil
	})
	want := a.trusted
	if via == "head" {
		want = e.w.M.id
	}
	m := ev.M{"k": "Acct", "policy": policy, "via": via,
		"ans": ev.M{"id": idJSON(a.id), "shardblk": idJSON(a.shardblk), "shard_proof": hx(a.shardProof), "proof": hx(a.proof), "state": hx(a.state)}}
	for k, v := range label {
		m[k] = v
	}
	cl := e.client(policy, via, a.trusted)
	r.call(m, func(g ev.M) error {
		ctx, cancel := context.WithTimeout(context.Background(), 5*time.Second)
		defer cancel()
		res, err := cl.GetAccountState(ctx, ton.AccountID{Workchain: c.wc, Address: c.addr})
		// the request as the server saw it
		req := ev.M{"id": idJSON(want), "wc": c.wc, "addr": hx(c.addr[:]), "seen": false}
		if b := e.srv.lastReq(fGetAccount); len(b) >= 116 {
			if id, rest, ok := readBlockID(b); ok {
				req = ev.M{"id": idJSON(id), "wc": int32(uint32(rest[0]) | uint32(rest[1])<<8 | uint32(rest[2])<<16 | uint32(rest[3])<<24), "addr": hx(rest[4:36]), "seen": true}
			}
		}
		m["req"] = req
		g["status"], g["acc"], g["lt"], g["hash"] = "", "", bits(0, 64), ""
		if err != nil {
			return err
		}
		g["status"] = string(res.Account.SumType)
		g["lt"] = bits(res.LastTransLt, 64)
		g["hash"] = hx(res.LastTransHash[:])
		if res.Account.SumType == "Account" {
			cell := boc.NewCell()
			if err := tlb.Marshal(cell, res.Account); err != nil {
				g["acc"] = "unencodable: " + err.Error()
			} else if h, err := cell.Hash(); err == nil {
				g["acc"] = hx(h)
			}
		}
		return nil
	})
	return nil
}

func (e *env) doBlock(r *rec, label ev.M, policy, via string, own, other *realBlock, ch blockChoice) {
	a := buildBlock(e.rng, own, other, ch)
	boxed := append(le32(cBlockData), mustTL(liteclient.LiteServerBlockDataC{Id: tlID(a.id), Data: a.data})...)
	e.srv.script(func(fid uint32, body []byte) []byte {
		if fid == fGetBlock {
			return boxed
		}
		return nil
	})
	m := ev.M{"k": "Block", "policy": policy, "via": via, "req": ev.M{"id": idJSON(a.want)}, "ans": ev.M{"id": idJSON(a.id), "data": hx(a.data)}}
	for k, v := range label {
		m[k] = v
	}
	cl := e.client(policy, via, a.want)
	r.call(m, func(g ev.M) error {
		ctx, cancel := context.WithTimeout(context.Background(), 5*time.Second)
		defer cancel()
		g["gid"], g["seqno"], g["utime"] = bits(0, 32), bits(0, 32), bits(0, 32)
		res, err := cl.GetBlock(ctx, a.want.ext())
		if err != nil {
			return err
		}
		g["gid"], g["seqno"], g["utime"] = bits(uint64(uint32(res.GlobalId)), 32), bits(uint64(res.Info.SeqNo), 32), bits(uint64(res.Info.GenUtime), 32)
		return nil
	})
}

func (e *env) doHeader(r *rec, label ev.M, kind, policy string, own, other *hblock, ch headerChoice) {
	a := buildHeader(e.rng, own, other, ch)
	boxed := append(le32(cBlockHeader), mustTL(liteclient.LiteServerBlockHeaderC{Id: tlID(a.id), Mode: 0, HeaderProof: a.proof})...)
	e.srv.script(func(fid uint32, body []byte) []byte {
		if fid == fGetHeader || fid == fLookupBlock {
			return boxed
		}
		return nil
	})
	req := idJSON(a.want)
	if kind == "lookup" {
		req["root"], req["file"] = "", ""
	}
	m := ev.M{"k": "Header", "kind": kind, "policy": policy, "via": "head", "req": ev.M{"id": req}, "ans": ev.M{"id": idJSON(a.id), "header_proof": hx(a.proof)}}
	for k, v := range label {
		m[k] = v
	}
	cl := e.cl[policy]
	r.call(m, func(g ev.M) error {
		ctx, cancel := context.WithTimeout(context.Background(), 5*time.Second)
		defer cancel()
		g["seqno"], g["utime"], g["start_lt"], g["end_lt"], g["rid"] = bits(0, 32), bits(0, 32), bits(0, 64), bits(0, 64), idJSON(blockID{})
		var info tlb.BlockInfo
		var err error
		if kind == "lookup" {
			var rid ton.BlockIDExt
			rid, info, err = cl.LookupBlock(ctx, a.want.ext().BlockID, 1, nil, nil)
			g["rid"] = idJSON(blockID{Wc: rid.Workchain, Shard: rid.Shard, Seqno: rid.Seqno, Root: rid.RootHash, File: rid.FileHash})
		} else {
			info, err = cl.GetBlockHeader(ctx, a.want.ext(), 0)
		}
		if err != nil {
			return err
		}
		g["seqno"], g["utime"], g["start_lt"], g["end_lt"] = bits(uint64(info.SeqNo), 32), bits(uint64(info.GenUtime), 32), bits(info.StartLt, 64), bits(info.EndLt, 64)
		return nil
	})
}

func (e *env) doConfig(r *rec, label ev.M, policy, via string, ch configChoice) {
	a := e.w.buildConfig(e.rng, ch)
	params := e.rng.Intn(2) == 0 // GetConfigParams takes the same answer
	boxed := append(le32(cConfigInfo), mustTL(liteclient.LiteServerConfigInfoC{Mode: 0, Id: tlID(a.id), StateProof: a.stateProof, ConfigProof: a.configProof})...)
	e.srv.script(func(fid uint32, body []byte) []byte {
		if fid == fGetConfigAll || fid == fGetConfigParams {
			return boxed
		}
		return nil
	})
	m := ev.M{"k": "Config", "policy": policy, "via": via, "params": params, "req": ev.M{"id": idJSON(a.want)},
		"ans": ev.M{"id": idJSON(a.id), "state_proof": hx(a.stateProof), "config_proof": hx(a.configProof)}}
	for k, v := range label {
		m[k] = v
	}
	cl := e.client(policy, via, a.want)
	r.call(m, func(g ev.M) error {
		ctx, cancel := context.WithTimeout(context.Background(), 5*time.Second)
		defer cancel()
		g["addr"] = ""
		var res tlb.ConfigParams
		var err error
		if params {
			res, err = cl.GetConfigParams(ctx, 0, []uint32{0, 1, 34})
		} else {
			res, err = cl.GetConfigAll(ctx, 0)
		}
		if err != nil {
			return err
		}
		g["addr"] = hx(res.ConfigAddr[:])
		return nil
	})
}

// ------------------------------------------------------------------ S->C
type row struct {
	Vec    int    `json:"vec"`
	Api    string `json:"api"`
	Policy string `json:"policy"`
	Via    string `json:"via"`
	Base   string `json:"base"`
	Tamper string `json:"tamper"`
	Reason string `json:"reason"`
	Cls    string `json:"cls"`
	Want   string `json:"want"`
}

func loadReals() (map[string]*realBlock, error) {
	out := map[string]*realBlock{}
	for k, n := range map[string]string{"real4": "block-4", "real5": "block-5"} {
		rb, err := loadReal(n)
		if err != nil {
			return nil, err
		}
		out[k] = rb
	}
	return out, nil
}

func (e *env) hblocks(base string) (own, other *hblock, err error) {
	switch base {
	case "real4":
		return e.real["real4"].hb(), e.real["real5"].hb(), nil
	case "real5":
		return e.real["real5"].hb(), e.real["real4"].hb(), nil
	case "mc":
		return e.w.M.hb(), e.w.M2.hb(), nil
	case "sb":
		s := e.w.shardIDs[e.rng.Intn(len(e.w.shardIDs))]
		return e.w.B[s].hb(), e.w.B2[s].hb(), nil
	}
	return nil, nil, fmt.Errorf("unknown header base %q", base)
}

// Replay executes decision-table rows. Seeds decide the worlds; a row that cannot be built in its world (e.g. no
// suitable second account) is retried on the next world and reported as skipped if none fits.
func Replay(in string, w *ev.Writer, seed int64) error {
	f, err := os.Open(in)
	if err != nil {
		return err
	}
	defer f.Close()
	real, err := loadReals()
	if err != nil {
		return err
	}
	var envs []*env
	for i := 0; i < 4; i++ {
		e, err := newEnv(fmt.Sprintf("replay %d %d", seed, i), seed*1000+int64(i), 1+i%2, false, real)
		if err != nil {
			return err
		}
		envs = append(envs, e)
	}
	r := &rec{w: w}
	sc := bufio.NewScanner(f)
	sc.Buffer(make([]byte, 1<<20), 1<<26)
	n := 0
	for sc.Scan() {
		var probe struct {
			K   string          `json:"k"`
			Ans json.RawMessage `json:"ans"`
		}
		if err := json.Unmarshal(sc.Bytes(), &probe); err != nil {
			return err
		}
		if probe.K != "" && len(probe.Ans) > 0 {
			if err := rawReplay(r, sc.Bytes()); err != nil {
				return err
			}
			continue
		}
		var v row
		if err := json.Unmarshal(sc.Bytes(), &v); err != nil {
			return err
		}
		label := ev.M{"vec": v.Vec, "case": fmt.Sprintf("%s/%s/%s/%s/%s", v.Api, v.Policy, v.Via, v.Base, v.Tamper), "src": "gen"}
		done := false
		for k := 0; k < len(envs) && !done; k++ {
			e := envs[(v.Vec+k)%len(envs)]
			e.rng = rand.New(rand.NewSource(seed*7919 + int64(v.Vec)))
			var err error
			switch v.Api {
			case "acct":
				var ch acctChoice
				if ch, err = acctTamper(v.Tamper); err != nil {
					return err
				}
				ch.opt = randOpt(e.rng)
				var c *acctCtx
				if c, err = e.w.acctContext(e.rng, v.Base); err == nil {
					err = e.doAcct(r, label, v.Policy, v.Via, c, ch)
				}
			case "block":
				var ch blockChoice
				if ch, err = blockTamper(v.Tamper); err != nil {
					return err
				}
				other := "real5"
				if v.Base == "real5" {
					other = "real4"
				}
				e.doBlock(r, label, v.Policy, v.Via, real[v.Base], real[other], ch)
			case "header", "lookup":
				var ch headerChoice
				if ch, err = headerTamper(v.Tamper); err != nil {
					return err
				}
				ch.opt = randOpt(e.rng)
				own, other, err2 := e.hblocks(v.Base)
				if err2 != nil {
					return err2
				}
				e.doHeader(r, label, v.Api, v.Policy, own, other, ch)
			case "config":
				var ch configChoice
				if ch, err = configTamper(v.Tamper); err != nil {
					return err
				}
				ch.opt = randOpt(e.rng)
				e.doConfig(r, label, v.Policy, v.Via, ch)
			default:
				return fmt.Errorf("unknown api %q", v.Api)
			}
			if err == errNotApplicable {
				continue
			}
			if err != nil {
				return err
			}
			done = true
		}
		if !done {
			w.Emit(ev.M{"k": "Skipped", "vec": v.Vec, "case": label["case"]})
		}
		n++
	}
	w.Emit(ev.M{"k": "End", "events": w.N})
	return sc.Err()
}

// ------------------------------------------------------------------ C->S
func Drive(w *ev.Writer, o Opts) error {
	real, err := loadReals()
	if err != nil {
		return err
	}
	worlds, calls := 2, 40
	if o.Tier == "thorough" {
		worlds, calls = 6, 300
	}
	r := &rec{w: w}
	rng := rand.New(rand.NewSource(o.Seed*104729 + int64(o.Shard)))
	bases := []string{"mc_present", "mc_absent", "wc_present", "wc_absent", "sb_present", "sb_absent"}
	for wi := 0; wi < worlds; wi++ {
		e, err := newEnv(fmt.Sprintf("drive %d %d %d", o.Seed, o.Shard, wi), rng.Int63(), 1+rng.Intn(2), wi%2 == 1, real)
		if err != nil {
			return err
		}
		e.rng = rng
		for k := 0; k < calls; k++ {
			policy := []string{"unsafe", "fast"}[rng.Intn(2)]
			via := []string{"head", "withblock"}[rng.Intn(2)]
			label := ev.M{"src": "rand", "case": "rand"}
			switch x := rng.Intn(10); {
			case x < 6:
				base := bases[rng.Intn(len(bases))]
				if base[:2] == "sb" {
					via = "withblock"
				}
				c, err := e.w.acctContext(rng, base)
				if err == errNotApplicable {
					continue
				}
				if err != nil {
					return err
				}
				ch := randomAcctChoice(rng, c, via == "withblock")
				label["base"] = base
				if err := e.doAcct(r, label, policy, via, c, ch); err != nil && err != errNotApplicable {
					return err
				}
			case x < 7:
				names := []string{"real4", "real5"}
				i := rng.Intn(2)
				ch := blockChoice{wantFlip: pick(rng, 0.25, "", "rand", "first", "last"), data: pick(rng, 0.3, "own", "other", "trunc", "garbage", "two_roots"), opt: randOpt(rng)}
				e.doBlock(r, label, policy, via, real[names[i]], real[names[1-i]], ch)
			case x < 9:
				own, other, _ := e.hblocks([]string{"real4", "real5", "mc", "sb"}[rng.Intn(4)])
				ch := headerChoice{idSrc: pick(rng, 0.15, "own", "other"), seqBump: rng.Intn(8) == 0, idFile: rng.Intn(12) == 0, prSrc: pick(rng, 0.15, "own", "other"),
					keep: pick(rng, 0.15, "full", "no_info", "no_su"), form: pick(rng, 0.25, "one", "trunc", "garbage", "two_roots", "not_exotic", "stale", "storedhash"), opt: randOpt(rng)}
				e.doHeader(r, label, []string{"header", "lookup"}[rng.Intn(2)], policy, own, other, ch)
			default:
				ch := configChoice{idFile: rng.Intn(12) == 0, idSrc: pick(rng, 0.15, "ref", "alt"), spSrc: pick(rng, 0.15, "ref", "alt"), spKeep: pick(rng, 0.1, "full", "no_su"),
					spForm: pick(rng, 0.1, "one", "trunc"), cpSrc: pick(rng, 0.15, "ref", "alt"), cpKeep: pick(rng, 0.1, "full", "no_dict"),
					cpForm: pick(rng, 0.1, "one", "trunc"), opt: randOpt(rng)}
				e.doConfig(r, label, policy, via, ch)
			}
		}
	}
	w.Emit(ev.M{"k": "End", "events": w.N})
	return nil
}

// ------------------------------------------------------------------ replay of a recorded event (bin/check --replay)
type rawID struct {
	Wc    int32  `json:"wc"`
	Shard string `json:"shard"`
	Seqno uint32 `json:"seqno"`
	Root  string `json:"root"`
	File  string `json:"file"`
}

func (r rawID) id() blockID {
	b := blockID{Wc: r.Wc, Seqno: r.Seqno}
	fmt.Sscanf(r.Shard, "%x", &b.Shard)
	copy(b.Root[:], unhex(r.Root))
	copy(b.File[:], unhex(r.File))
	return b
}

func unhex(s string) []byte {
	b, err := hex.DecodeString(s)
	if err != nil {
		panic("x01: bad hex in a recorded event")
	}
	return b
}

type rawEvent struct {
	K      string `json:"k"`
	Kind   string `json:"kind"`
	Policy string `json:"policy"`
	Via    string `json:"via"`
	Case   string `json:"case"`
	Req    struct {
		ID   rawID  `json:"id"`
		Wc   int32  `json:"wc"`
		Addr string `json:"addr"`
	} `json:"req"`
	Ans struct {
		ID          rawID  `json:"id"`
		Shardblk    rawID  `json:"shardblk"`
		ShardProof  string `json:"shard_proof"`
		Proof       string `json:"proof"`
		State       string `json:"state"`
		Data        string `json:"data"`
		HeaderProof string `json:"header_proof"`
		StateProof  string `json:"state_proof"`
		ConfigProof string `json:"config_proof"`
	} `json:"ans"`
}

// rawReplay serves exactly the recorded answer to a fresh client of the recorded policy and records what it returns
func rawReplay(r *rec, line []byte) error {
	var e rawEvent
	if err := json.Unmarshal(line, &e); err != nil {
		return err
	}
	want := e.Req.ID.id()
	srv, err := newLiteSrv(fmt.Sprintf("raw %d", r.seq), want)
	if err != nil {
		return err
	}
	defer srv.srv.Close()
	pol := liteapi.ProofPolicyUnsafe
	if e.Policy == "fast" {
		pol = liteapi.ProofPolicyFast
	}
	cl, err := srv.client(pol)
	if err != nil {
		return err
	}
	time.Sleep(400 * time.Millisecond)
	if e.Via == "withblock" {
		cl = cl.WithBlock(want.ext())
	}
	var m map[string]any
	json.Unmarshal(line, &m)
	delete(m, "go")
	m["src"] = "replay"
	ctx, cancel := context.WithTimeout(context.Background(), 5*time.Second)
	defer cancel()
	switch e.K {
	case "Acct":
		boxed := append(le32(cAccountState), mustTL(liteclient.LiteServerAccountStateC{Id: tlID(e.Ans.ID.id()), Shardblk: tlID(e.Ans.Shardblk.id()),
			ShardProof: unhex(e.Ans.ShardProof), Proof: unhex(e.Ans.Proof), State: unhex(e.Ans.State)})...)
		srv.script(func(fid uint32, body []byte) []byte { return boxed })
		var addr [32]byte
		copy(addr[:], unhex(e.Req.Addr))
		r.call(m, func(g ev.M) error {
			g["status"], g["acc"], g["lt"], g["hash"] = "", "", bits(0, 64), ""
			res, err := cl.GetAccountState(ctx, ton.AccountID{Workchain: e.Req.Wc, Address: addr})
			if err != nil {
				return err
			}
			g["status"], g["lt"], g["hash"] = string(res.Account.SumType), bits(res.LastTransLt, 64), hx(res.LastTransHash[:])
			if res.Account.SumType == "Account" {
				cell := boc.NewCell()
				if err := tlb.Marshal(cell, res.Account); err == nil {
					if h, err := cell.Hash(); err == nil {
						g["acc"] = hx(h)
					}
				}
			}
			return nil
		})
	case "Block":
		boxed := append(le32(cBlockData), mustTL(liteclient.LiteServerBlockDataC{Id: tlID(e.Ans.ID.id()), Data: unhex(e.Ans.Data)})...)
		srv.script(func(fid uint32, body []byte) []byte { return boxed })
		r.call(m, func(g ev.M) error {
			g["gid"], g["seqno"], g["utime"] = bits(0, 32), bits(0, 32), bits(0, 32)
			res, err := cl.GetBlock(ctx, want.ext())
			if err != nil {
				return err
			}
			g["gid"], g["seqno"], g["utime"] = bits(uint64(uint32(res.GlobalId)), 32), bits(uint64(res.Info.SeqNo), 32), bits(uint64(res.Info.GenUtime), 32)
			return nil
		})
	case "Header":
		boxed := append(le32(cBlockHeader), mustTL(liteclient.LiteServerBlockHeaderC{Id: tlID(e.Ans.ID.id()), HeaderProof: unhex(e.Ans.HeaderProof)})...)
		srv.script(func(fid uint32, body []byte) []byte { return boxed })
		r.call(m, func(g ev.M) error {
			g["seqno"], g["utime"], g["start_lt"], g["end_lt"], g["rid"] = bits(0, 32), bits(0, 32), bits(0, 64), bits(0, 64), idJSON(blockID{})
			var info tlb.BlockInfo
			var err error
			if e.Kind == "lookup" {
				var rid ton.BlockIDExt
				rid, info, err = cl.LookupBlock(ctx, want.ext().BlockID, 1, nil, nil)
				g["rid"] = idJSON(blockID{Wc: rid.Workchain, Shard: rid.Shard, Seqno: rid.Seqno, Root: rid.RootHash, File: rid.FileHash})
			} else {
				info, err = cl.GetBlockHeader(ctx, want.ext(), 0)
			}
			if err != nil {
				return err
			}
			g["seqno"], g["utime"], g["start_lt"], g["end_lt"] = bits(uint64(info.SeqNo), 32), bits(uint64(info.GenUtime), 32), bits(info.StartLt, 64), bits(info.EndLt, 64)
			return nil
		})
	case "Config":
		boxed := append(le32(cConfigInfo), mustTL(liteclient.LiteServerConfigInfoC{Id: tlID(e.Ans.ID.id()), StateProof: unhex(e.Ans.StateProof), ConfigProof: unhex(e.Ans.ConfigProof)})...)
		srv.script(func(fid uint32, body []byte) []byte { return boxed })
		r.call(m, func(g ev.M) error {
			g["addr"] = ""
			res, err := cl.GetConfigAll(ctx, 0)
			if err != nil {
				return err
			}
			g["addr"] = hx(res.ConfigAddr[:])
			return nil
		})
	default:
		return fmt.Errorf("cannot replay an event of kind %q", e.K)
	}
	return nil
}
