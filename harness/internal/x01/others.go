package x01

// others.go: answers for getBlock (the repository's real blocks), getBlockHeader / lookupBlock (real blocks and the
// synthetic world) and getConfigAll.

import (
	"fmt"
	"math/rand"
	"os"
	"path/filepath"

	"github.com/tonkeeper/tongo/boc"
)

// ------------------------------------------------------------------ real blocks of the repository
type realBlock struct {
	name string
	raw  []byte
	root *node
	id   blockID
}

func repoDir() string {
	if d := os.Getenv("VERIF_REPO"); d != "" {
		return d
	}
	return "/repo"
}

func loadReal(name string) (*realBlock, error) {
	raw, err := os.ReadFile(filepath.Join(repoDir(), "tlb", "testdata", name, "block.bin"))
	if err != nil {
		return nil, err
	}
	cs, err := boc.DeserializeBoc(raw)
	if err != nil || len(cs) != 1 {
		return nil, fmt.Errorf("fixture %s: %v", name, err)
	}
	rb := &realBlock{name: name, raw: raw, root: projectLib(cs[0])}
	h, err := cs[0].Hash()
	if err != nil || string(h) != string(rb.root.hash()) {
		return nil, fmt.Errorf("fixture %s: harness hash differs from the library's", name)
	}
	if len(rb.root.r) != 4 || len(rb.root.r[0].b) < 408 {
		return nil, fmt.Errorf("fixture %s: not a block", name)
	}
	info := rb.root.r[0].b
	pfx := int(parseU(info[146:152]))
	wc := int32(uint32(parseU(info[152:184])))
	prefix := parseU(info[184:248])
	rb.id = blockID{Wc: wc, Shard: prefix | 1<<uint(63-pfx), Seqno: uint32(parseU(info[80:112])), Root: rb.root.hash32()}
	copy(rb.id.File[:], rb.root.hash()) // not judged
	return rb, nil
}

// header-carrying view shared by real and synthetic blocks
type hblock struct {
	id   blockID
	root *node
	keep []*node // root, info, info's children, state_update
	info *node
	su   *node
	inf2 []*node
}

func (rb *realBlock) hb() *hblock {
	r := rb.root
	h := &hblock{id: rb.id, root: r, info: r.r[0], su: r.r[2], inf2: subtree(r.r[0])[1:]}
	return h
}
func (b *block) hb() *hblock {
	return &hblock{id: b.id, root: b.root, info: b.info, su: b.su, inf2: b.inf2}
}
func (h *hblock) proof(keep string) *node {
	ks := keepSet([]*node{h.root, h.info, h.su}, h.inf2)
	if keep == "no_info" {
		delete(ks, h.info)
		for _, n := range h.inf2 {
			delete(ks, n)
		}
	}
	if keep == "no_su" {
		delete(ks, h.su)
	}
	return proofOf(h.root, ks)
}

// ------------------------------------------------------------------ getBlock
type blockChoice struct {
	wantFlip string // "" | "rand" | "first" | "last": the requested root hash differs in that bit from the served block's
	data     string // "own" | "other" | "trunc" | "garbage" | "two_roots"
	opt      bocOpt
}

type blockAnswer struct {
	want blockID
	id   blockID
	data []byte
}

func buildBlock(rng *rand.Rand, own, other *realBlock, ch blockChoice) *blockAnswer {
	a := &blockAnswer{want: own.id, id: own.id}
	switch ch.wantFlip {
	case "rand":
		a.want.Root[rng.Intn(32)] ^= 1 << uint(rng.Intn(8))
	case "first":
		a.want.Root[0] ^= 0x80
	case "last":
		a.want.Root[31] ^= 1
	}
	a.id = a.want
	switch ch.data {
	case "own":
		a.data = own.raw
	case "other":
		a.data = other.raw
	case "trunc":
		a.data = truncated(rng, own.raw)
	case "garbage":
		a.data = garbage(rng)
	case "two_roots":
		a.data = writeBoc([]*node{own.root, randCell(rng, 1)}, ch.opt)
	}
	return a
}

func blockTamper(t string) (blockChoice, error) {
	ch := blockChoice{data: "own"}
	switch t {
	case "none":
	case "want_other_hash":
		ch.wantFlip = "rand"
	case "want_hash_first_bit":
		ch.wantFlip = "first"
	case "want_hash_last_bit":
		ch.wantFlip = "last"
	case "data_other_block":
		ch.data = "other"
	case "data_trunc":
		ch.data = "trunc"
	case "data_garbage":
		ch.data = "garbage"
	case "data_two_roots":
		ch.data = "two_roots"
	default:
		return ch, fmt.Errorf("unknown block tampering %q", t)
	}
	return ch, nil
}

// ------------------------------------------------------------------ getBlockHeader / lookupBlock
type headerChoice struct {
	idSrc   string // "own" | "other"       the id in the answer
	seqBump bool   // requested (and answered) seqno is one more than the header's
	idFile  bool   // one bit of file_hash of the id in the answer is changed
	prSrc   string // "own" | "other"       the block the proof is about
	keep    string // "full" | "no_info" | "no_su"
	form    string // "one" | "trunc" | "garbage" | "two_roots" | "not_exotic" | "stale"
	opt     bocOpt
}

type headerAnswer struct {
	want  blockID
	id    blockID
	proof []byte
}

func buildHeader(rng *rand.Rand, own, other *hblock, ch headerChoice) *headerAnswer {
	a := &headerAnswer{want: own.id, id: own.id}
	if ch.idSrc == "other" {
		a.id = other.id
	}
	if ch.seqBump {
		a.want.Seqno++
		if ch.idSrc == "own" {
			a.id.Seqno++
		}
	}
	if ch.idFile {
		a.id.File[rng.Intn(32)] ^= 1 << uint(rng.Intn(8))
	}
	src := own
	if ch.prSrc == "other" {
		src = other
	}
	hp := src.proof(ch.keep)
	switch ch.form {
	case "one":
		a.proof = writeBoc([]*node{hp}, ch.opt)
	case "trunc":
		a.proof = truncated(rng, writeBoc([]*node{hp}, ch.opt))
	case "garbage":
		a.proof = garbage(rng)
	case "two_roots":
		a.proof = writeBoc([]*node{hp, randCell(rng, 1)}, ch.opt)
	case "not_exotic":
		a.proof = writeBoc([]*node{{b: hp.b, x: tOrd, r: hp.r}}, ch.opt)
	case "storedhash":
		a.proof = writeBoc([]*node{{b: flipBit(hp.b, 8+rng.Intn(256)), x: hp.x, r: hp.r}}, ch.opt)
	case "stale":
		// one bit of gen_utime changed in the revealed header, the Merkle-proof cell keeps the old hash
		info := hp.r[0].r[0]
		if info.x == tOrd && len(info.b) > 280 {
			f := byte('0')
			if info.b[279] == '0' {
				f = '1'
			}
			info.b = info.b[:279] + string(f) + info.b[280:]
			for _, n := range subtree(hp) {
				n.inf = nil
			}
		}
		a.proof = writeBoc([]*node{hp}, ch.opt)
	}
	return a
}

func headerTamper(t string) (headerChoice, error) {
	ch := headerChoice{idSrc: "own", prSrc: "own", keep: "full", form: "one"}
	switch t {
	case "none":
	case "ans_id_other":
		ch.idSrc, ch.prSrc = "other", "other"
	case "ans_id_file_hash":
		ch.idFile = true
	case "proof_other_block":
		ch.prSrc = "other"
	case "id_seqno":
		ch.seqBump = true
	case "info_pruned":
		ch.keep = "no_info"
	case "proof_trunc":
		ch.form = "trunc"
	case "proof_garbage":
		ch.form = "garbage"
	case "proof_two_roots":
		ch.form = "two_roots"
	case "proof_not_exotic":
		ch.form = "not_exotic"
	case "proof_stale_hash":
		ch.form = "stale"
	case "proof_stored_hash":
		ch.form = "storedhash"
	default:
		return ch, fmt.Errorf("unknown header tampering %q", t)
	}
	return ch, nil
}

// ------------------------------------------------------------------ getConfigAll
type configChoice struct {
	idFile bool   // one bit of file_hash of the id in the answer is changed
	idSrc  string // "ref" | "alt"
	spSrc  string // state_proof about "ref" | "alt"
	spKeep string // "full" | "no_su"
	spForm string // "one" | "trunc"
	cpSrc  string // config_proof from the state of "ref" | "alt"
	cpKeep string // "full" | "no_dict"
	cpForm string // "one" | "trunc"
	opt    bocOpt
}

type configAnswer struct {
	want                    blockID
	id                      blockID
	stateProof, configProof []byte
}

func configProof(st *state, keep string) *node {
	ks := []*node{st.root, st.custom}
	if keep != "no_dict" {
		ks = append(ks, subtree(st.cfgRoot)...)
	}
	return proofOf(st.root, keepSet(ks))
}

func (w *world) buildConfig(rng *rand.Rand, ch configChoice) *configAnswer {
	of := func(s string) *block {
		if s == "alt" {
			return w.M2
		}
		return w.M
	}
	a := &configAnswer{want: w.M.id, id: of(ch.idSrc).id}
	if ch.idFile {
		a.id.File[rng.Intn(32)] ^= 1 << uint(rng.Intn(8))
	}
	a.stateProof = writeBoc([]*node{of(ch.spSrc).hb().proof(ch.spKeep)}, ch.opt)
	if ch.spForm == "trunc" {
		a.stateProof = truncated(rng, a.stateProof)
	}
	a.configProof = writeBoc([]*node{configProof(of(ch.cpSrc).st, ch.cpKeep)}, ch.opt)
	if ch.cpForm == "trunc" {
		a.configProof = truncated(rng, a.configProof)
	}
	return a
}

func configTamper(t string) (configChoice, error) {
	ch := configChoice{idSrc: "ref", spSrc: "ref", spKeep: "full", spForm: "one", cpSrc: "ref", cpKeep: "full", cpForm: "one"}
	switch t {
	case "none":
	case "ans_id_other":
		ch.idSrc, ch.spSrc, ch.cpSrc = "alt", "alt", "alt"
	case "ans_id_file_hash":
		ch.idFile = true
	case "state_proof_other":
		ch.spSrc, ch.cpSrc = "alt", "alt"
	case "config_state_mismatch":
		ch.cpSrc = "alt"
	case "config_pruned":
		ch.cpKeep = "no_dict"
	case "config_trunc":
		ch.cpForm = "trunc"
	case "state_proof_trunc":
		ch.spForm = "trunc"
	case "state_update_pruned":
		ch.spKeep = "no_su"
	default:
		return ch, fmt.Errorf("unknown config tampering %q", t)
	}
	return ch, nil
}
