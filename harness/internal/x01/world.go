package x01

// world.go: a small synthetic piece of blockchain, written cell by cell from block.tlb:
//   two masterchain blocks M (the head) and M' (its predecessor), each with its state (accounts of workchain -1,
//   shard configuration naming the top shard blocks, configuration parameters), and for every shard of workchain 0
//   two blocks B, B' with their states (accounts of that shard).
// Account records themselves are encoded by the library (tlb.Marshal of tlb.Account) so that the client can
// decode what it is served; everything else is laid out here by hand.

import (
	"bytes"
	"fmt"
	"math/big"
	"math/rand"
	"sort"

	"github.com/tonkeeper/tongo/boc"
	"github.com/tonkeeper/tongo/tlb"
	"github.com/tonkeeper/tongo/ton"

	"verifharness/internal/cells"
)

type blockID struct {
	Wc    int32
	Shard uint64
	Seqno uint32
	Root  [32]byte
	File  [32]byte
}

func (b blockID) ext() ton.BlockIDExt {
	return ton.BlockIDExt{BlockID: ton.BlockID{Workchain: b.Wc, Shard: b.Shard, Seqno: b.Seqno}, RootHash: ton.Bits256(b.Root), FileHash: ton.Bits256(b.File)}
}

type account struct {
	wc   int32
	addr [32]byte
	cell *node // the Account record
	lt   uint64
	hash [32]byte
	bal  uint64
}

type state struct {
	root     *node
	accCell  *node // ^ShardAccounts
	dictRoot *node // root edge of the dictionary (nil when empty)
	accounts []*account
	custom   *node // McStateExtra (masterchain only)
	shardsD  *node // root edge of shard_hashes
	binRoot  *node // BinTree of workchain 0
	cfgRoot  *node // root edge of the config dictionary
	cfgAddr  [32]byte
	leaves   map[uint64]*node // shard id -> BinTree leaf
	binPath  map[uint64][]*node
}

type block struct {
	id    blockID
	root  *node
	info  *node
	inf2  []*node // children of info (master_ref, prev_ref)
	vf    *node
	su    *node
	extra *node
	st    *state
}

type world struct {
	seed     int64
	nshards  int
	M, M2    *block // M2: the previous masterchain block (its own shard configuration and states)
	B, B2    map[uint64]*block
	shardIDs []uint64
	rng      *rand.Rand
}

func rnd32(rng *rand.Rand) (o [32]byte) { rng.Read(o[:]); return }

func randCell(rng *rand.Rand, depth int) *node {
	n := ord(cells.RandBits(rng, 200))
	if depth > 0 {
		for i := rng.Intn(3); i > 0; i-- {
			n.r = append(n.r, randCell(rng, depth-1))
		}
	}
	return n
}

// --------------------------------------------------------------------- accounts
func projectLib(c *boc.Cell) *node {
	t := cells.Project([]*boc.Cell{c})
	made := make([]*node, len(t.Cells))
	var mk func(i int) *node
	mk = func(i int) *node {
		if made[i] != nil {
			return made[i]
		}
		n := &node{b: t.Cells[i].B, x: t.Cells[i].X}
		for _, r := range t.Cells[i].R {
			n.r = append(n.r, mk(r))
		}
		made[i] = n
		return n
	}
	return mk(t.Roots[0])
}

func makeAccount(rng *rand.Rand, wc int32, addr [32]byte, kind int) *account {
	a := &account{wc: wc, addr: addr, lt: uint64(rng.Int63n(1 << 40)), hash: rnd32(rng), bal: uint64(rng.Int63n(1 << 50))}
	var acc tlb.Account
	acc.SumType = "Account"
	aid := ton.AccountID{Workchain: wc, Address: addr}
	acc.Account.Addr = aid.ToMsgAddress()
	acc.Account.StorageStat.Used.Cells = tlb.VarUInteger7(*big.NewInt(int64(1 + rng.Intn(50))))
	acc.Account.StorageStat.Used.Bits = tlb.VarUInteger7(*big.NewInt(int64(100 + rng.Intn(5000))))
	acc.Account.StorageStat.StorageExtra.SumType = "StorageExtraNone"
	acc.Account.StorageStat.LastPaid = uint32(rng.Int31())
	acc.Account.Storage.LastTransLt = a.lt
	acc.Account.Storage.Balance.Grams = tlb.Grams(a.bal)
	switch kind % 3 {
	case 0:
		acc.Account.Storage.State.SumType = "AccountUninit"
	case 1:
		acc.Account.Storage.State.SumType = "AccountFrozen"
		acc.Account.Storage.State.AccountFrozen.StateHash = tlb.Bits256(rnd32(rng))
	default:
		acc.Account.Storage.State.SumType = "AccountActive"
		code, data := boc.NewCell(), boc.NewCell()
		code.WriteUint(rng.Uint64(), 64)
		data.WriteUint(rng.Uint64(), 48)
		lib := boc.NewCell()
		lib.WriteUint(rng.Uint64(), 17)
		code.AddRef(lib)
		acc.Account.Storage.State.AccountActive.StateInit.Code.Exists = true
		acc.Account.Storage.State.AccountActive.StateInit.Code.Value.Value = *code
		acc.Account.Storage.State.AccountActive.StateInit.Data.Exists = true
		acc.Account.Storage.State.AccountActive.StateInit.Data.Value.Value = *data
	}
	c := boc.NewCell()
	if err := tlb.Marshal(c, acc); err != nil {
		panic(fmt.Sprintf("x01: cannot encode an account record: %v", err))
	}
	a.cell = projectLib(c)
	return a
}

// --------------------------------------------------------------------- dictionaries
type ditem struct {
	key  string // bits
	bits string // leaf payload after the label (for augmented maps: extra then value)
	refs []*node
	bal  uint64
}

func bitLen(m int) int {
	n := 0
	for m > 0 {
		n++
		m >>= 1
	}
	return n
}

// label of s when m key bits remain, in a form chosen at random among the legal ones
func label(rng *rand.Rand, s string, m int) string {
	forms := []int{0, 1}
	same := true
	for i := range s {
		if s[i] != s[0] {
			same = false
		}
	}
	if same {
		forms = append(forms, 2)
	}
	w := bitLen(m)
	switch forms[rng.Intn(len(forms))] {
	case 0:
		b := new(bw).raw("0")
		for range s {
			b.raw("1")
		}
		return b.raw("0").raw(s).String()
	case 1:
		return new(bw).raw("10").u(uint64(len(s)), w).raw(s).String()
	default:
		v := "0"
		if len(s) > 0 {
			v = s[:1]
		}
		return new(bw).raw("11").raw(v).u(uint64(len(s)), w).String()
	}
}

func depthBalance(bal uint64) string { // depth_balance$_ split_depth:(#<= 30) balance:CurrencyCollection
	return new(bw).u(0, 5).varuint(bal, 4).raw("0").String()
}

// buildDict: Patricia tree over items (sorted by key, distinct). aug: forks carry the sum of balances as extra.
// path collects, per key, the cells from the root edge to the leaf.
func buildDict(rng *rand.Rand, items []ditem, at, n int, aug bool, path map[string][]*node, above []*node) *node {
	lcp := n
	for _, it := range items[1:] {
		k := at
		for k < lcp && it.key[k] == items[0].key[k] {
			k++
		}
		if k < lcp {
			lcp = k
		}
	}
	s := items[0].key[at:lcp]
	lb := label(rng, s, n-at)
	if lcp == n {
		leaf := ord(lb+items[0].bits, items[0].refs...)
		path[items[0].key] = append(append([]*node{}, above...), leaf)
		return leaf
	}
	var l, r []ditem
	var sum uint64
	for _, it := range items {
		sum += it.bal
		if it.key[lcp] == '0' {
			l = append(l, it)
		} else {
			r = append(r, it)
		}
	}
	fork := ord(lb)
	if aug {
		fork.b += depthBalance(sum)
	}
	ab := append(append([]*node{}, above...), fork)
	fork.r = []*node{buildDict(rng, l, lcp+1, n, aug, path, ab), buildDict(rng, r, lcp+1, n, aug, path, ab)}
	return fork
}

// lookupPath: the cells a reader visits when it looks key up (ends at the leaf or at the first edge whose label
// differs from the key)
func lookupPath(root *node, key string, n int) []*node {
	var out []*node
	c := root
	at := 0
	for c != nil {
		out = append(out, c)
		s, used := readLabel(c.b, n-at)
		if len(s) > len(key)-at || key[at:at+len(s)] != s {
			return out
		}
		at += len(s)
		_ = used
		if at == n || len(c.r) < 2 {
			return out
		}
		c = c.r[key[at]-'0']
		at++
	}
	return out
}

func readLabel(b string, m int) (string, int) {
	if b[0] == '0' {
		n := 0
		for b[1+n] == '1' {
			n++
		}
		return b[2+n : 2+2*n], 2 + 2*n
	}
	w := bitLen(m)
	if b[1] == '0' {
		n := int(parseU(b[2 : 2+w]))
		return b[2+w : 2+w+n], 2 + w + n
	}
	n := int(parseU(b[3 : 3+w]))
	s := make([]byte, n)
	for i := range s {
		s[i] = b[2]
	}
	return string(s), 3 + w
}

func parseU(b string) uint64 {
	var v uint64
	for i := range b {
		v = v<<1 | uint64(b[i]-'0')
	}
	return v
}

func keyBits(a [32]byte) string { return bytesToBits(a[:]) }

// --------------------------------------------------------------------- states
func shardIdent(wc int32, shard uint64) string { // shard_ident$00 shard_pfx_bits:(#<= 60) workchain_id:int32 shard_prefix:uint64
	tz := 0
	for shard>>uint(tz)&1 == 0 {
		tz++
	}
	pfx := 63 - tz
	return new(bw).raw("00").u(uint64(pfx), 6).i32(wc).u(shard&^(1<<uint(tz)), 64).String()
}

func shardContains(shard uint64, addr [32]byte) bool {
	tz := 0
	for shard>>uint(tz)&1 == 0 {
		tz++
	}
	pfx := 63 - tz
	if pfx == 0 {
		return true
	}
	a := uint64(0)
	for i := 0; i < 8; i++ {
		a = a<<8 | uint64(addr[i])
	}
	return a>>uint(64-pfx) == shard>>uint(64-pfx)
}

func makeState(rng *rand.Rand, wc int32, shard uint64, seqno uint32, accts []*account, mc *mcExtra) *state {
	st := &state{accounts: accts}
	sort.Slice(st.accounts, func(i, j int) bool { return bytes.Compare(st.accounts[i].addr[:], st.accounts[j].addr[:]) < 0 })
	var items []ditem
	var total uint64
	for _, a := range st.accounts {
		// account_descr$_ account:^Account last_trans_hash:bits256 last_trans_lt:uint64 = ShardAccount, after the extra
		items = append(items, ditem{key: keyBits(a.addr), bal: a.bal, refs: []*node{a.cell},
			bits: depthBalance(a.bal) + new(bw).bytes(a.hash[:]).u(a.lt, 64).String()})
		total += a.bal
	}
	if len(items) > 0 {
		st.dictRoot = buildDict(rng, items, 0, 256, true, map[string][]*node{}, nil)
		st.accCell = ord("1"+depthBalance(total), st.dictRoot)
	} else {
		st.accCell = ord("0" + depthBalance(0))
	}
	outq := randCell(rng, 2)
	other := randCell(rng, 2)
	// shard_state#9023afe2 global_id:int32 shard_id:ShardIdent seq_no:uint32 vert_seq_no:# gen_utime:uint32 gen_lt:uint64
	//   min_ref_mc_seqno:uint32 out_msg_queue_info:^ before_split:(## 1) accounts:^ShardAccounts ^[...] custom:(Maybe ^McStateExtra)
	b := new(bw).u(0x9023afe2, 32).i32(-239).raw(shardIdent(wc, shard)).u(uint64(seqno), 32).u(0, 32).u(uint64(1700000000+rng.Intn(1000)), 32).
		u(uint64(rng.Int63n(1<<40)), 64).u(uint64(seqno), 32).raw("0")
	refs := []*node{outq, st.accCell, other}
	if mc != nil {
		st.custom = makeMcExtra(rng, st, mc)
		b.raw("1")
		refs = append(refs, st.custom)
	} else {
		b.raw("0")
	}
	st.root = ord(mustLen(b.String(), 362, "ShardStateUnsplit"), refs...)
	return st
}

type mcExtra struct {
	tops map[uint64]blockID // shard id -> top shard block of workchain 0
}

func shardDescr(rng *rand.Rand, id blockID) string {
	// shard_descr#b seq_no:uint32 reg_mc_seqno:uint32 start_lt:uint64 end_lt:uint64 root_hash:bits256 file_hash:bits256
	//  before_split:Bool before_merge:Bool want_split:Bool want_merge:Bool nx_cc_updated:Bool flags:(## 3) next_catchain_seqno:uint32
	//  next_validator_shard:uint64 min_ref_mc_seqno:uint32 gen_utime:uint32 split_merge_at:FutureSplitMerge
	//  fees_collected:CurrencyCollection funds_created:CurrencyCollection
	return new(bw).u(0xb, 4).u(uint64(id.Seqno), 32).u(uint64(id.Seqno), 32).u(uint64(rng.Int63n(1<<40)), 64).u(uint64(rng.Int63n(1<<40)), 64).
		bytes(id.Root[:]).bytes(id.File[:]).raw("00000").u(0, 3).u(uint64(rng.Int31()), 32).u(id.Shard, 64).u(uint64(id.Seqno), 32).
		u(1700000000, 32).raw("0").varuint(uint64(rng.Int63n(1<<30)), 4).raw("0").varuint(uint64(rng.Int63n(1<<30)), 4).raw("0").String()
}

func makeMcExtra(rng *rand.Rand, st *state, mc *mcExtra) *node {
	st.leaves = map[uint64]*node{}
	st.binPath = map[uint64][]*node{}
	// BinTree: bt_leaf$0 leaf:X | bt_fork$1 left:^ right:^ ; one leaf for the whole workchain or a fork with two leaves
	var ids []uint64
	for s := range mc.tops {
		ids = append(ids, s)
	}
	sort.Slice(ids, func(i, j int) bool { return ids[i] < ids[j] })
	if len(ids) == 1 {
		st.binRoot = ord("0" + shardDescr(rng, mc.tops[ids[0]]))
		st.leaves[ids[0]] = st.binRoot
		st.binPath[ids[0]] = []*node{st.binRoot}
	} else {
		l := ord("0" + shardDescr(rng, mc.tops[ids[0]]))
		r := ord("0" + shardDescr(rng, mc.tops[ids[1]]))
		st.binRoot = ord("1", l, r)
		st.leaves[ids[0]], st.leaves[ids[1]] = l, r
		st.binPath[ids[0]] = []*node{st.binRoot, l}
		st.binPath[ids[1]] = []*node{st.binRoot, r}
	}
	// shard_hashes: HashmapE 32 ^(BinTree ShardDescr): workchain 0 and (sometimes) a second workchain
	items := []ditem{{key: new(bw).u(0, 32).String(), refs: []*node{st.binRoot}}}
	if rng.Intn(2) == 0 {
		items = append(items, ditem{key: new(bw).u(7, 32).String(), refs: []*node{ord("0" + shardDescr(rng, blockID{Wc: 7, Shard: 1 << 63, Seqno: 5, Root: rnd32(rng), File: rnd32(rng)}))}})
	}
	st.shardsD = buildDict(rng, items, 0, 32, false, map[string][]*node{}, nil)
	// config: _ config_addr:bits256 config:^(Hashmap 32 ^Cell)
	st.cfgAddr = rnd32(rng)
	var citems []ditem
	for _, k := range []uint32{0, 1, 2, 4, 8, 15, 17, 34} {
		if rng.Intn(4) > 0 {
			citems = append(citems, ditem{key: new(bw).u(uint64(k), 32).String(), refs: []*node{randCell(rng, 1)}})
		}
	}
	if len(citems) == 0 {
		citems = append(citems, ditem{key: new(bw).u(0, 32).String(), refs: []*node{randCell(rng, 1)}})
	}
	st.cfgRoot = buildDict(rng, citems, 0, 32, false, map[string][]*node{}, nil)
	other := randCell(rng, 1)
	// masterchain_state_extra#cc26 shard_hashes:ShardHashes config:ConfigParams ^[...] global_balance:CurrencyCollection
	return ord(new(bw).u(0xcc26, 16).raw("1").bytes(st.cfgAddr[:]).varuint(uint64(rng.Int63n(1<<50)), 4).raw("0").String(), st.shardsD, st.cfgRoot, other)
}

// --------------------------------------------------------------------- blocks
func extBlkRef(rng *rand.Rand, seqno uint32) *node { // ext_blk_ref$_ end_lt:uint64 seq_no:uint32 root_hash:bits256 file_hash:bits256
	r, f := rnd32(rng), rnd32(rng)
	return ord(new(bw).u(uint64(rng.Int63n(1<<40)), 64).u(uint64(seqno), 32).bytes(r[:]).bytes(f[:]).String())
}

func makeBlock(rng *rand.Rand, wc int32, shard uint64, seqno uint32, st *state) *block {
	b := &block{st: st}
	notMaster := wc != -1
	// block_info#9bc7a987 version:uint32 not_master after_merge before_split after_split want_split want_merge key_block
	//  vert_seqno_incr flags:(## 8) seq_no:# vert_seq_no:# shard:ShardIdent gen_utime:uint32 start_lt:uint64 end_lt:uint64
	//  gen_validator_list_hash_short:uint32 gen_catchain_seqno:uint32 min_ref_mc_seqno:uint32 prev_key_block_seqno:uint32
	//  master_ref:not_master?^BlkMasterInfo prev_ref:^(BlkPrevInfo after_merge)
	w := new(bw).u(0x9bc7a987, 32).u(0, 32).bit(notMaster).raw("0000000").u(0, 8).u(uint64(seqno), 32).u(0, 32).raw(shardIdent(wc, shard)).
		u(uint64(1700000000+rng.Intn(100000)), 32).u(uint64(rng.Int63n(1<<40)), 64).u(uint64(rng.Int63n(1<<40)), 64).
		u(uint64(rng.Int31()), 32).u(uint64(rng.Int31()), 32).u(uint64(seqno), 32).u(uint64(seqno/2), 32)
	if notMaster {
		b.inf2 = append(b.inf2, extBlkRef(rng, seqno))
	}
	b.inf2 = append(b.inf2, extBlkRef(rng, seqno-1))
	b.info = ord(mustLen(w.String(), 536, "BlockInfo"), b.inf2...)
	b.vf = randCell(rng, 2)
	b.extra = randCell(rng, 2)
	// !merkle_update#04 old_hash:bits256 new_hash:bits256 old_depth:uint16 new_depth:uint16 old:^X new:^X, both sides pruned
	old := randCell(rng, 1)
	po, pn := prunedOf(old), prunedOf(st.root)
	b.su = &node{x: tMUpd, r: []*node{po, pn},
		b: new(bw).u(4, 8).bytes(old.hash0()).bytes(st.root.hash0()).u(uint64(old.info().d[0]), 16).u(uint64(st.root.info().d[0]), 16).String()}
	// block#11ef55aa global_id:int32 info:^BlockInfo value_flow:^ValueFlow state_update:^(MERKLE_UPDATE ShardState) extra:^BlockExtra
	b.root = ord(new(bw).u(0x11ef55aa, 32).i32(-239).String(), b.info, b.vf, b.su, b.extra)
	b.id = blockID{Wc: wc, Shard: shard, Seqno: seqno, Root: b.root.hash32(), File: rnd32(rng)}
	return b
}

func (b *block) headerKeep() []*node {
	return append([]*node{b.root, b.info, b.su}, b.inf2...)
}

// --------------------------------------------------------------------- the world
func newWorld(seed int64, nshards int, small bool) *world {
	rng := rand.New(rand.NewSource(seed))
	w := &world{seed: seed, nshards: nshards, rng: rng, B: map[uint64]*block{}, B2: map[uint64]*block{}}
	if nshards == 1 {
		w.shardIDs = []uint64{1 << 63}
	} else {
		w.shardIDs = []uint64{1 << 62, 3 << 62}
	}
	mkAccts := func(wc int32, shard uint64, n int) []*account {
		var out []*account
		var prev [32]byte
		for len(out) < n {
			a := rnd32(rng)
			if len(out) > 0 && rng.Intn(3) == 0 { // share a long prefix with the previous address: deeper forks
				k := 1 + rng.Intn(20)
				copy(a[:k], prev[:k])
			}
			if wc == 0 && !shardContains(shard, a) {
				a[0] ^= 0x80
				if !shardContains(shard, a) {
					continue
				}
			}
			dup := false
			for _, o := range out {
				if o.addr == a {
					dup = true
				}
			}
			if dup {
				continue
			}
			prev = a
			out = append(out, makeAccount(rng, wc, a, len(out)))
		}
		return out
	}
	// the later version of an account set: same addresses, some records changed
	evolve := func(as []*account) []*account {
		var out []*account
		for i, a := range as {
			if i%2 == 0 {
				out = append(out, makeAccount(rng, a.wc, a.addr, i+1))
			} else {
				out = append(out, a)
			}
		}
		return out
	}
	sq := uint32(1000 + rng.Intn(1000000))
	tops, tops2 := map[uint64]blockID{}, map[uint64]blockID{}
	for _, s := range w.shardIDs {
		n := 3 + rng.Intn(4)
		if small {
			n = rng.Intn(3) // empty dictionary, a single leaf, one fork
		}
		old := mkAccts(0, s, n)
		bsq := uint32(2000 + rng.Intn(1000000))
		w.B2[s] = makeBlock(rng, 0, s, bsq, makeState(rng, 0, s, bsq, old, nil))
		w.B[s] = makeBlock(rng, 0, s, bsq+1, makeState(rng, 0, s, bsq+1, evolve(old), nil))
		tops[s], tops2[s] = w.B[s].id, w.B2[s].id
	}
	mold := mkAccts(-1, 1<<63, 3+rng.Intn(3))
	w.M2 = makeBlock(rng, -1, 1<<63, sq, makeState(rng, -1, 1<<63, sq, mold, &mcExtra{tops: tops2}))
	w.M = makeBlock(rng, -1, 1<<63, sq+1, makeState(rng, -1, 1<<63, sq+1, evolve(mold), &mcExtra{tops: tops}))
	return w
}

// selfCheck: the harness's hashes and bags agree with the library's reading of them (a harness assertion only)
func (w *world) selfCheck() error {
	for _, b := range []*block{w.M, w.M2, w.B[w.shardIDs[0]]} {
		for _, n := range []*node{b.root, b.st.root, proofOf(b.root, keepSet(b.headerKeep()))} {
			for _, o := range []bocOpt{{}, {crc: true, idx: true}} {
				cs, err := boc.DeserializeBoc(writeBoc([]*node{n}, o))
				if err != nil || len(cs) != 1 {
					return fmt.Errorf("library cannot read the harness's bag: %v", err)
				}
				h, err := cs[0].Hash()
				if err != nil || !bytes.Equal(h, n.hash()) {
					return fmt.Errorf("harness hash %x differs from the library's %x (%v)", n.hash(), h, err)
				}
			}
		}
	}
	return nil
}
