// Package x01 drives the lite-API calls of liteapi.Client that carry proofs (GetAccountState, GetBlock,
// GetBlockHeader, LookupBlock, GetConfigAll) against a scripted lite server and records every concrete answer
// together with the client's verdict.  Nothing here judges: the verdict is derived by TLC from the recorded bytes
// (spec/LiteProof.tla, spec/trace/LiteProof_Trace.tla).
//
// cellx.go: the harness's own cells (a pointer tree with bit strings), level masks, hashes at every level, the
// pruning that makes a Merkle proof, and a multi-root bag writer.  The library's cell code is not used to BUILD
// answers (its public API can neither set a level mask nor write a bag with two roots); it is used once per world
// as a cross-check of the harness (selfCheck), never to decide anything.
package x01

import (
	"crypto/sha256"
	"encoding/binary"
	"encoding/hex"
	"fmt"
	"hash/crc32"
	"math/big"
	"strings"
)

const (
	tOrd    = 0
	tPruned = 1
	tLib    = 2
	tMProof = 3
	tMUpd   = 4
)

type node struct {
	b   string // "0101..."
	x   int
	r   []*node
	inf *cinfo
}

type cinfo struct {
	m int
	h [4][]byte
	d [4]int
}

// ---------------------------------------------------------------- bit writer
type bw struct{ sb strings.Builder }

func (w *bw) u(v uint64, n int) *bw {
	for i := n - 1; i >= 0; i-- {
		if i < 64 && (v>>uint(i))&1 == 1 {
			w.sb.WriteByte('1')
		} else {
			w.sb.WriteByte('0')
		}
	}
	return w
}
func (w *bw) i32(v int32) *bw { return w.u(uint64(uint32(v)), 32) }
func (w *bw) bit(b bool) *bw {
	if b {
		w.sb.WriteByte('1')
	} else {
		w.sb.WriteByte('0')
	}
	return w
}
func (w *bw) bytes(b []byte) *bw {
	for _, x := range b {
		w.u(uint64(x), 8)
	}
	return w
}
func (w *bw) raw(s string) *bw { w.sb.WriteString(s); return w }

// VarUInteger n: len:(#< n) value:(uint (len*8)); lw = width of the length field
func (w *bw) varuint(v uint64, lw int) *bw {
	b := new(big.Int).SetUint64(v).Bytes()
	w.u(uint64(len(b)), lw)
	return w.bytes(b)
}
func (w *bw) String() string { return w.sb.String() }

func bitsToBytes(b string) []byte { // with the completion tag when not aligned
	if len(b)%8 != 0 {
		b = b + "1" + strings.Repeat("0", 7-len(b)%8)
	}
	out := make([]byte, len(b)/8)
	for i := 0; i < len(b); i++ {
		if b[i] == '1' {
			out[i/8] |= 0x80 >> uint(i%8)
		}
	}
	return out
}

func bytesToBits(b []byte) string { return new(bw).bytes(b).String() }

// ---------------------------------------------------------------- masks and hashes
func pop(m int) int { return m&1 + (m>>1)&1 + (m>>2)&1 }

func (n *node) info() *cinfo {
	if n.inf != nil {
		return n.inf
	}
	kids := make([]*cinfo, len(n.r))
	or := 0
	for i, k := range n.r {
		kids[i] = k.info()
		or |= kids[i].m
	}
	data := bitsToBytes(n.b)
	m := 0
	switch n.x {
	case tOrd:
		m = or
	case tPruned:
		if len(data) >= 2 {
			m = int(data[1]) & 7
		}
	case tLib:
		m = 0
	default:
		m = or >> 1
	}
	inf := &cinfo{m: m}
	levels := []int{0}
	for i := 0; i < 3; i++ {
		if m>>uint(i)&1 == 1 {
			levels = append(levels, i+1)
		}
	}
	off := 0
	if n.x == tPruned {
		off = pop(m)
	}
	d2 := byte(len(n.b)/8 + (len(n.b)+7)/8)
	var comp [][]byte
	var compd []int
	for i := off; i <= pop(m); i++ {
		li := levels[i]
		cl := li
		if n.x == tMProof || n.x == tMUpd {
			cl = li + 1
		}
		if cl > 3 {
			cl = 3
		}
		d1 := byte(len(n.r) + 32*(m&((1<<uint(li))-1)))
		if n.x != tOrd {
			d1 += 8
		}
		h := sha256.New()
		h.Write([]byte{d1, d2})
		if i == off {
			h.Write(data)
		} else {
			h.Write(comp[len(comp)-1])
		}
		dep := 0
		for _, k := range kids {
			var db [2]byte
			binary.BigEndian.PutUint16(db[:], uint16(k.d[cl]))
			h.Write(db[:])
			if k.d[cl]+1 > dep {
				dep = k.d[cl] + 1
			}
		}
		for _, k := range kids {
			h.Write(k.h[cl])
		}
		comp = append(comp, h.Sum(nil))
		compd = append(compd, dep)
	}
	for l := 0; l < 4; l++ {
		idx := pop(m & ((1 << uint(l)) - 1))
		if n.x == tPruned && idx != pop(m) {
			if len(data) >= 2+32*pop(m)+2*pop(m) {
				inf.h[l] = data[2+32*idx : 2+32*(idx+1)]
				inf.d[l] = int(data[2+32*pop(m)+2*idx])<<8 | int(data[3+32*pop(m)+2*idx])
			} else {
				inf.h[l] = make([]byte, 32)
			}
		} else {
			inf.h[l] = comp[idx-off]
			inf.d[l] = compd[idx-off]
		}
	}
	n.inf = inf
	return inf
}

func (n *node) hash() []byte  { return n.info().h[3] } // representation hash (what Cell.Hash() reports)
func (n *node) hash0() []byte { return n.info().h[0] }
func (n *node) hash32() (o [32]byte) {
	copy(o[:], n.hash())
	return
}

func ord(bits string, refs ...*node) *node { return &node{b: bits, x: tOrd, r: refs} }

// prunedAt: the pruned-branch cell that replaces n at Merkle depth d (d = number of Merkle cells above it, the
// outermost proof counted as 0): mask = mask(n) | 2^d, data = 01 mask, the hashes and then the depths of n at every
// significant level of the new mask below its highest one.
func prunedAt(n *node, d int) *node {
	i := n.info()
	nm := i.m | 1<<uint(d)
	w := new(bw).u(1, 8).u(uint64(nm), 8)
	var lv []int
	for l := 0; l < 3; l++ {
		if l == 0 || nm>>uint(l-1)&1 == 1 {
			lv = append(lv, l)
		}
	}
	// lv holds the significant levels 0..2 of nm; the highest significant level of nm is the pruned cell's own
	top := 0
	for l := 1; l <= 3; l++ {
		if nm>>uint(l-1)&1 == 1 {
			top = l
		}
	}
	var keep []int
	for _, l := range lv {
		if l < top {
			keep = append(keep, l)
		}
	}
	for _, l := range keep {
		w.bytes(i.h[l])
	}
	for _, l := range keep {
		w.u(uint64(i.d[l]), 16)
	}
	return &node{b: w.String(), x: tPruned}
}

func prunedOf(n *node) *node {
	if n.info().m != 0 {
		panic("x01: prunedOf on a cell of level > 0")
	}
	return prunedAt(n, 0)
}

// merkleProofOf wraps a (pruned) tree into a Merkle-proof cell
func merkleProofOf(child *node) *node {
	i := child.info()
	return &node{b: new(bw).u(3, 8).bytes(i.h[0]).u(uint64(i.d[0]), 16).String(), x: tMProof, r: []*node{child}}
}

// pruneTree copies the tree under n keeping the cells in keep and replacing every other one by a pruned branch of
// the Merkle depth it sits at.  Cells that are pruned branches already, or whose level reaches the depth, stay.
func pruneTree(n *node, keep map[*node]bool, d int) *node {
	if !keep[n] {
		if n.x == tPruned || n.info().m>>uint(d) != 0 {
			return n
		}
		return prunedAt(n, d)
	}
	c := &node{b: n.b, x: n.x}
	kd := d
	if n.x == tMProof || n.x == tMUpd {
		kd = d + 1
	}
	for _, k := range n.r {
		c.r = append(c.r, pruneTree(k, keep, kd))
	}
	return c
}

func proofOf(root *node, keep map[*node]bool) *node { return merkleProofOf(pruneTree(root, keep, 0)) }

func keepSet(lists ...[]*node) map[*node]bool {
	m := map[*node]bool{}
	for _, l := range lists {
		for _, n := range l {
			m[n] = true
		}
	}
	return m
}

func subtree(n *node) []*node {
	out := []*node{n}
	for _, k := range n.r {
		out = append(out, subtree(k)...)
	}
	return out
}

// clone makes a deep copy (fresh pointers) so that a tampered copy never aliases the world
func clone(n *node) *node {
	c := &node{b: n.b, x: n.x}
	for _, k := range n.r {
		c.r = append(c.r, clone(k))
	}
	return c
}

// ---------------------------------------------------------------- bag writer
type bocOpt struct {
	crc, idx bool
}

// writeBoc: serialized_boc#b5ee9c72 with the given roots; cells in a topological order (parents first), equal
// cells stored once.
func writeBoc(roots []*node, o bocOpt) []byte {
	var order []*node
	seen := map[string]int{}
	var post []*node
	var visit func(n *node)
	done := map[string]bool{}
	visit = func(n *node) {
		k := string(n.hash())
		if done[k] {
			return
		}
		done[k] = true
		for _, c := range n.r {
			visit(c)
		}
		post = append(post, n)
	}
	for _, r := range roots {
		visit(r)
	}
	for i := len(post) - 1; i >= 0; i-- {
		seen[string(post[i].hash())] = len(order)
		order = append(order, post[i])
	}
	sz := 1
	if len(order) > 255 {
		sz = 2
	}
	be := func(v, n int) []byte {
		b := make([]byte, n)
		for i := n - 1; i >= 0; i-- {
			b[i] = byte(v)
			v >>= 8
		}
		return b
	}
	var data []byte
	var ends []int
	for _, n := range order {
		d1 := byte(len(n.r) + 32*n.info().m)
		if n.x != tOrd {
			d1 += 8
		}
		data = append(data, d1, byte(len(n.b)/8+(len(n.b)+7)/8))
		data = append(data, bitsToBytes(n.b)...)
		for _, c := range n.r {
			data = append(data, be(seen[string(c.hash())], sz)...)
		}
		ends = append(ends, len(data))
	}
	ob := 2
	if len(data) > 65535 {
		ob = 3
	}
	fl := byte(sz)
	if o.idx {
		fl |= 0x80
	}
	if o.crc {
		fl |= 0x40
	}
	out := []byte{0xb5, 0xee, 0x9c, 0x72, fl, byte(ob)}
	out = append(out, be(len(order), sz)...)
	out = append(out, be(len(roots), sz)...)
	out = append(out, be(0, sz)...)
	out = append(out, be(len(data), ob)...)
	for _, r := range roots {
		out = append(out, be(seen[string(r.hash())], sz)...)
	}
	if o.idx {
		for _, e := range ends {
			out = append(out, be(e, ob)...)
		}
	}
	out = append(out, data...)
	if o.crc {
		c := crc32.Checksum(out, crc32.MakeTable(crc32.Castagnoli))
		out = append(out, byte(c), byte(c>>8), byte(c>>16), byte(c>>24))
	}
	return out
}

func hx(b []byte) string { return hex.EncodeToString(b) }

func mustLen(b string, n int, what string) string {
	if len(b) != n {
		panic(fmt.Sprintf("x01: %s has %d bits, want %d", what, len(b), n))
	}
	return b
}
