package c08

import (
	"bufio"
	"encoding/hex"
	"encoding/json"
	"fmt"
	"hash/fnv"
	"math/rand"
	"os"
	"reflect"
	"sort"
	"strings"

	"github.com/tonkeeper/tongo/boc"
	"github.com/tonkeeper/tongo/tlb"

	"verifharness/internal/c03"
	"verifharness/internal/ev"
	"verifharness/internal/tlbx"
)

// MaxValueTree bounds the input trees that are written out in full for the value judgement.
const MaxValueTree = 300

func typeSeed(seed int64, name string) int64 {
	h := fnv.New64a()
	h.Write([]byte(name))
	return seed*1000003 + int64(h.Sum64()&0x7fffffffffff)
}

// valid returns a valid encoding of a random in-domain value of type t, or nil when the generator or the encoder
// refuses (some types have no encodable zero / random value; they are still fed random and foreign trees).
func valid(rng *rand.Rand, t reflect.Type) (n *node) {
	defer func() {
		if recover() != nil {
			n = nil
		}
	}()
	g := &tlbx.Gen{Rng: rng}
	v := g.New(t)
	c := boc.NewCell()
	if err := tlb.Marshal(c, v.Interface()); err != nil {
		return nil
	}
	return fromCell(c, map[*boc.Cell]*node{})
}

// clean reports whether a value dump can be interpreted by the specification (no nil pointers, no unsupported kinds).
func clean(x any) bool {
	switch v := x.(type) {
	case map[string]any:
		if _, ok := v["nil"]; ok {
			return false
		}
		if _, ok := v["unsupported"]; ok {
			return false
		}
		for _, e := range v {
			if !clean(e) {
				return false
			}
		}
	case []any:
		for _, e := range v {
			if !clean(e) {
				return false
			}
		}
	case string:
		return v != "…"
	}
	return true
}

type tlbDrv struct {
	r     *Rec
	names []string // every TL-B type (for "value of another type")
	asts  map[string]any
	quota map[string]int // value judgements still to be written out per type
}

// decode feeds one cell tree to the decoder of one type.
func (d *tlbDrv) decode(name string, t reflect.Type, class string, root *node, src ev.M, useDecoder bool) {
	if d.r.Skipped() {
		d.r.SkipSlot()
		return
	}
	c, err := build(root, map[*node]*boc.Cell{})
	if err != nil {
		// not a cell tree (a mutation overflowed 1023 bits / 4 refs): nothing to feed; the index stays reserved
		d.r.SkipSlot()
		return
	}
	cells, bits, capped := measure(c)
	in := ev.M{"type": name, "cells": cells, "bits": bits, "capped": capped, "val": false, "seedid": -1, "use": ""}
	if src != nil {
		for k, v := range src {
			in[k] = v
		}
	} else {
		in["tab"] = root.table()
	}
	site := "tlb.Unmarshal"
	if useDecoder {
		site = "Decoder.Unmarshal"
	}
	_, hasast := d.asts[name]
	var p reflect.Value
	d.r.CallPost("Decode", site, class, in, []string{"type", "cells", "bits", "capped", "val", "seedid", "use"}, func(out ev.M) error {
		p = reflect.New(t)
		if useDecoder {
			return tlb.NewDecoder().Unmarshal(c, p.Interface())
		}
		return tlb.Unmarshal(c, p.Interface())
	}, func(out ev.M) {
		// the value is described first: accessors with pointer receivers may change it
		defer func() { out["use"] = useValue(p) }()
		if !hasast || cells > MaxValueTree || d.quota[name] <= 0 {
			return
		}
		v := tlbx.Dump(p.Elem(), "")
		// through JSON so that the cleanliness test sees plain maps and slices
		raw, err := json.Marshal(v)
		if err != nil {
			return
		}
		var plain any
		if json.Unmarshal(raw, &plain) != nil || !clean(plain) {
			return
		}
		d.quota[name]--
		b := MaxValueTree + 1
		out["val"] = true
		out["v"] = json.RawMessage(raw)
		out["tree"] = treeJSON(c, &b)
		if decOracle(d.r.o) {
			// opt-in (thorough tier, or VERIF_C08_DEC=1): the value also in the shape of the specification's total decoder
			// (dictionaries as [key bits, value] in key order), as canonical text: TlbDec!DecLax must return exactly this
			tlbx.DictBits = true
			dv := tlbx.Dump(p.Elem(), "")
			tlbx.DictBits = false
			if ds, err := json.Marshal(dv); err == nil {
				out["ds"] = string(ds)
			}
		}
	})
}

func (d *tlbDrv) skipSlot() { d.r.SkipSlot() }

// decOracle: is the returned value also to be compared with the specification's own decoding of the input?
func decOracle(o Opts) bool { return o.thorough() || os.Getenv("VERIF_C08_DEC") == "1" }

// DriveTLB: every exported TL-B target type x {valid, random trees, one-mutation encodings, values of other types,
// expansion bombs}.
func DriveTLB(w *ev.Writer, o Opts) error {
	r := NewRec(w, o)
	names := c03.Types()
	d := &tlbDrv{r: r, names: names, asts: map[string]any{}, quota: map[string]int{}}
	per := 44
	quota := 1 << 30
	if o.thorough() {
		per = 2000
		quota = 250
	}
	var mine []string
	for i, n := range names {
		if i%o.Shards == o.Shard {
			mine = append(mine, n)
			if a := tlbx.AST(tlbx.Registry[n], ""); !tlbx.HasOpaque(a) {
				d.asts[n] = a
			}
			d.quota[n] = quota
		}
	}
	if o.AstOut != "" {
		b, err := json.Marshal(d.asts)
		if err != nil {
			return err
		}
		if err := os.WriteFile(o.AstOut, b, 0o644); err != nil {
			return err
		}
	}
	for _, name := range mine {
		t := tlbx.Registry[name]
		ts := typeSeed(o.Seed, name)
		for k := 0; k < per && !r.Done(); k++ {
			if r.Skipped() {
				d.skipSlot()
				continue
			}
			rng := rand.New(rand.NewSource(ts*7919 + int64(k)))
			useDec := k%2 == 1
			slot := k % 22
			switch {
			case slot == 0:
				if n := valid(rng, t); n != nil {
					d.decode(name, t, "valid", n, nil, useDec)
				} else {
					d.decode(name, t, "random", randTree(rng, 2, false), nil, useDec)
				}
			case slot <= 2:
				d.decode(name, t, "random", randTree(rng, 1+rng.Intn(3), false), nil, useDec)
			case slot == 3:
				d.decode(name, t, "random_exotic", randTree(rng, 1+rng.Intn(3), true), nil, useDec)
			case slot <= 15:
				n := valid(rng, t)
				if n == nil {
					d.decode(name, t, "random", randTree(rng, 2, true), nil, useDec)
					break
				}
				want := mutClasses[(slot-4)%len(mutClasses)]
				if slot >= 12 { // the remaining slots go to the classes that matter most
					want = []string{"bitflip", "trunc_root", "exotic", "bitflip"}[slot-12]
				}
				m, cls := mutate(rng, n, want)
				d.decode(name, t, "mut:"+cls, m, nil, useDec)
			case slot <= 18:
				other := names[rng.Intn(len(names))]
				n := valid(rng, tlbx.Registry[other])
				if n == nil || other == name {
					d.decode(name, t, "random", randTree(rng, 2, false), nil, useDec)
					break
				}
				d.decode(name, t, "other_type", n, nil, useDec)
			case slot == 19:
				shape := []string{"rand", "hashmap", "zero", "ones"}[(k/22)%4]
				fan, lv := 4, 9
				if shape == "hashmap" {
					fan, lv = 2, 17
				}
				d.decode(name, t, "bomb:"+shape, bomb(rng, fan, lv, shape), nil, useDec)
			case slot == 20:
				n, cls := exoticLeaf(rng, k/22)
				d.decode(name, t, "root:"+cls, n, nil, useDec)
			default:
				n := &node{bits: randBits(rng, []int{0, 1, 3, 8, 1023}[(k/22)%5])}
				d.decode(name, t, "tiny", n, nil, useDec)
			}
		}
	}
	r.End()
	return nil
}

// DriveBags (S->C): bags written by the specification's generator (spec/gen/Decode_Gen.tla) from valid encodings:
// every cell in turn replaced by a pruned branch (with the hash of what it replaces, and with a wrong one), a
// library cell, a cell with an unknown exotic type byte; bags with no or several roots. Parsed by the library's
// BoC reader - the path network data takes - and decoded as the type the encoding came from.
func DriveBags(w *ev.Writer, o Opts) error {
	r := NewRec(w, o)
	d := &tlbDrv{r: r, asts: map[string]any{}, quota: map[string]int{}}
	f, err := os.Open(o.In)
	if err != nil {
		return err
	}
	defer f.Close()
	sc := bufio.NewScanner(f)
	sc.Buffer(make([]byte, 1<<20), 1<<26)
	ln := -1
	for sc.Scan() {
		ln++
		if ln%o.Shards != o.Shard {
			continue
		}
		var v struct {
			Type  string `json:"type"`
			Class string `json:"class"`
			Boc   string `json:"boc"`
			Roots int    `json:"nroots"`
			Seed  int    `json:"seed"`
		}
		if err := json.Unmarshal(sc.Bytes(), &v); err != nil {
			return err
		}
		t, ok := tlbx.Registry[v.Type]
		if !ok {
			t, ok = typeByName(v.Type)
		}
		if !ok {
			return fmt.Errorf("bag for unknown type %q", v.Type)
		}
		if v.Class == "mp_pair" { // two roots: a helper's input, not a decoder's
			r.SkipSlot()
			continue
		}
		if _, seen := d.quota[v.Type]; !seen {
			d.quota[v.Type] = 1 << 30
			if a := tlbx.AST(t, ""); !tlbx.HasOpaque(a) {
				d.asts[v.Type] = a
			}
		}
		if r.Skipped() {
			d.skipSlot()
			continue
		}
		raw, _ := hex.DecodeString(v.Boc)
		roots, perr := boc.DeserializeBoc(raw)
		if perr != nil || len(roots) != 1 {
			// bags that the reader refuses, and the no-root / many-root bags, belong to the helpers' driver
			r.Call("Bag", "boc.DeserializeBoc", "specgen:"+v.Class, ev.M{"boc": v.Boc, "type": v.Type, "size": len(raw)}, []string{"type", "size"}, func(out ev.M) error {
				out["nroots"] = len(roots)
				return perr
			})
			continue
		}
		n := fromCell(roots[0], map[*boc.Cell]*node{})
		d.decode(v.Type, t, "specgen:"+v.Class, n, ev.M{"boc": v.Boc, "seedid": v.Seed}, ln%2 == 1)
		if v.Type == "abi.InMsgBody" || v.Type == "abi.ExtOutMsgBody" {
			// a message body with its op code in front: also through the decoders that dispatch on the op code
			for _, site := range []string{"abi.InternalMessageDecoder", "abi.ExtInMessageDecoder", "abi.ExtOutMessageDecoder"} {
				execAbi(r, site, fmt.Sprintf("specgen:%s@%d", v.Class, v.Seed), n)
			}
		}
	}
	if o.AstOut != "" {
		b, err := json.Marshal(d.asts)
		if err != nil {
			return err
		}
		if err := os.WriteFile(o.AstOut, b, 0o644); err != nil {
			return err
		}
	}
	r.End()
	return sc.Err()
}

// Seeds writes valid encodings (cell tables) of a sample of types for the specification's bag generator.
func Seeds(w *ev.Writer, o Opts) error {
	names := c03.Types()
	want := 160
	if o.thorough() {
		want = 900
	}
	rng := rand.New(rand.NewSource(o.Seed*2654435761 + 17))
	n := 0
	// block headers cut out of the real blocks of the repository's fixtures: the root of the block with its
	// BlockInfo subtree, everything else replaced by pruned branches carrying the hash and depth of what they
	// replace (what a lite server's header proof contains under its Merkle-proof cell)
	for b := 1; b <= 5; b++ {
		if h := realHeader(fmt.Sprintf("%s/tlb/testdata/block-%d/block.bin", repoDir(), b)); h != nil && len(h.all()) <= 14 {
			m := h.table()
			m["type"] = "tlb.BlockHeader"
			m["seed"] = n
			w.Emit(m)
			n++
		}
	}
	for b := 1; b <= 5; b++ {
		sk := realBlockSeeds(fmt.Sprintf("%s/tlb/testdata/block-%d/block.bin", repoDir(), b))
		for _, ty := range []string{"tlb.Block", "tlb.BlockExtra", "tlb.McBlockExtra"} {
			if v := sk[ty]; v != nil && len(v.all()) <= 20 {
				m := v.table()
				m["type"] = ty
				m["seed"] = n
				w.Emit(m)
				n++
			}
		}
	}
	for _, ab := range abiBodiesWithOptionalRefs(rng) {
		m := ab.root.table()
		m["type"] = ab.typ
		m["seed"] = n
		m["optrefs"] = true
		w.Emit(m)
		n++
	}
	want += n
	for _, rc := range smallDecodeOnly(o.Seed) {
		if v, err := rc.build(); err == nil && len(v.all()) <= 16 {
			m := v.table()
			m["type"] = rc.typeName()
			m["seed"] = n
			w.Emit(m)
			n++
		}
	}
	for tries := 0; n < want && tries < 20*want; tries++ {
		name := names[rng.Intn(len(names))]
		if tries < 12 { // the types the helpers decode are always among the seeds
			name = []string{"tlb.VmStack", "tlb.Transaction", "tlb.Account", "tlb.Message", "tlb.McBlockExtra", "tlb.ShardStateUnsplit"}[tries%6]
		}
		v := valid(rng, tlbx.Registry[name])
		if v == nil {
			continue
		}
		all := v.all()
		if len(all) < 2 || len(all) > 9 && !(tries < 12 && len(all) <= 16) {
			continue
		}
		big := false
		for _, c := range all {
			if len(c.bits) > 700 {
				big = true
			}
		}
		if big {
			continue
		}
		m := v.table()
		m["type"] = name
		m["seed"] = n
		w.Emit(m)
		n++
	}
	w.Emit(ev.M{"k": "End", "events": w.N})
	return nil
}

// optRefFields lists the fields of a struct type that are optional references: tlb.EitherRef[..], tlb.Maybe[tlb.Ref[..]]
// and `maybe^` tagged fields.
func optRefFields(t reflect.Type) []int {
	var out []int
	if t.Kind() != reflect.Struct {
		return nil
	}
	for i := 0; i < t.NumField(); i++ {
		f := t.Field(i)
		n := f.Type.Name()
		switch {
		case strings.HasPrefix(f.Tag.Get("tlb"), "maybe^"):
			out = append(out, i)
		case f.Type.PkgPath() == "github.com/tonkeeper/tongo/tlb" && strings.HasPrefix(n, "EitherRef["):
			out = append(out, i)
		case f.Type.PkgPath() == "github.com/tonkeeper/tongo/tlb" && strings.HasPrefix(n, "Maybe["):
			if vf, ok := f.Type.FieldByName("Value"); ok && strings.HasPrefix(vf.Type.Name(), "Ref[") {
				out = append(out, i)
			}
		}
	}
	return out
}

// abiBodiesWithOptionalRefs: a valid encoding of every abi message body that holds optional references, with every one
// of them PRESENT (custom payload there, forward payload by reference, ...), as the bare body and - where the body has
// an op code - with the op code in front, i.e. as the abi.InMsgBody a message carries.
func abiBodiesWithOptionalRefs(rng *rand.Rand) (out []struct {
	typ  string
	root *node
}) {
	var names []string
	for name := range tlbx.Registry {
		if strings.HasPrefix(name, "abi.") && strings.HasSuffix(name, "MsgBody") && len(optRefFields(tlbx.Registry[name])) > 0 {
			names = append(names, name)
		}
	}
	sort.Strings(names)
	for _, name := range names {
		t := tlbx.Registry[name]
		var root *node
		for tries := 0; tries < 8 && root == nil; tries++ {
			func() {
				defer func() { recover() }()
				g := &tlbx.Gen{Rng: rng}
				v := g.New(t)
				for _, i := range optRefFields(t) {
					f := v.Field(i)
					switch {
					case f.Kind() == reflect.Pointer:
						if f.IsNil() {
							p := reflect.New(f.Type().Elem())
							g.Fill(p.Elem(), "", 2)
							f.Set(p)
						}
					case f.FieldByName("IsRight").IsValid():
						f.FieldByName("IsRight").SetBool(true)
					case f.FieldByName("Exists").IsValid() && !f.FieldByName("Exists").Bool():
						f.FieldByName("Exists").SetBool(true)
						g.Fill(f.FieldByName("Value"), "", 2)
					}
				}
				c := boc.NewCell()
				if err := tlb.Marshal(c, v.Interface()); err != nil {
					return
				}
				if n := fromCell(c, map[*boc.Cell]*node{}); len(n.all()) <= 12 && len(n.refs) >= len(optRefFields(t)) {
					root = n
				}
			}()
		}
		if root == nil {
			continue
		}
		out = append(out, struct {
			typ  string
			root *node
		}{name, root})
		op, ok := tlbx.MsgOpCodes[""][strings.TrimSuffix(strings.TrimPrefix(name, "abi."), "MsgBody")]
		if ok && len(root.bits)+32 <= 1023 {
			w, _ := root.clone()
			w.bits = fmt.Sprintf("%032b", op) + w.bits
			out = append(out, struct {
				typ  string
				root *node
			}{"abi.InMsgBody", w})
		}
	}
	return out
}

// skel cuts a skeleton out of a real cell tree: the cells on the paths named by spec are kept, every other subtree is
// replaced by a pruned branch carrying its hash and depth (as a lite server's proof would). spec maps a reference
// index to the spec of that child; -1 stands for "every reference"; a nil spec keeps the cell and prunes all it references.
type skelSpec map[int]skelSpec

func skel(c *boc.Cell, spec skelSpec, depthOf func(*boc.Cell) int) *node {
	bs := c.RawBitString()
	n := &node{bits: bs.BinaryString(), x: int(c.CellType())}
	for i, r := range c.Refs() {
		sub, ok := spec[i]
		if !ok {
			sub, ok = spec[-1]
		}
		if ok {
			n.refs = append(n.refs, skel(r, sub, depthOf))
			continue
		}
		h, err := r.Hash()
		if err != nil {
			h = make([]byte, 32)
		}
		d := depthOf(r)
		n.refs = append(n.refs, &node{bits: byteBits(1, 1) + byteBits(h...) + byteBits(byte(d>>8), byte(d)), x: 1})
	}
	return n
}

// realBlockSeeds: from a real block of the fixtures, the block with its extra and (masterchain) custom part kept, the
// BlockExtra and the McBlockExtra on their own - types whose random values do not fit a cell, so that no encoding of
// them can be recorded from the encoder.
func realBlockSeeds(path string) map[string]*node {
	raw, err := os.ReadFile(path)
	if err != nil {
		return nil
	}
	roots, err := boc.DeserializeBoc(raw)
	if err != nil || len(roots) != 1 || len(roots[0].Refs()) != 4 {
		return nil
	}
	depth := map[*boc.Cell]int{}
	var dep func(c *boc.Cell) int
	dep = func(c *boc.Cell) int {
		if d, ok := depth[c]; ok {
			return d
		}
		d := 0
		for _, r := range c.Refs() {
			if k := dep(r) + 1; k > d {
				d = k
			}
		}
		depth[c] = d
		return d
	}
	out := map[string]*node{}
	root := roots[0]
	extra := root.Refs()[3]
	custom := skelSpec{-1: nil} // McBlockExtra: its own references kept, what they reference pruned
	exSpec := skelSpec{}
	if len(extra.Refs()) == 4 {
		exSpec[3] = custom
		out["tlb.McBlockExtra"] = skel(extra.Refs()[3], custom, dep)
	}
	out["tlb.BlockExtra"] = skel(extra, exSpec, dep)
	out["tlb.Block"] = skel(root, skelSpec{3: exSpec}, dep)
	return out
}

func repoDir() string {
	if d := os.Getenv("VERIF_REPO"); d != "" {
		return d
	}
	return "/repo"
}

func realHeader(path string) *node {
	raw, err := os.ReadFile(path)
	if err != nil {
		return nil
	}
	roots, err := boc.DeserializeBoc(raw)
	if err != nil || len(roots) != 1 || len(roots[0].Refs()) < 2 {
		return nil
	}
	depth := map[*boc.Cell]int{}
	var dep func(c *boc.Cell) int
	dep = func(c *boc.Cell) int {
		if d, ok := depth[c]; ok {
			return d
		}
		d := 0
		for _, r := range c.Refs() {
			if k := dep(r) + 1; k > d {
				d = k
			}
		}
		depth[c] = d
		return d
	}
	bs := roots[0].RawBitString()
	root := &node{bits: bs.BinaryString()}
	for i, r := range roots[0].Refs() {
		if i == 0 {
			root.refs = append(root.refs, fromCell(r, map[*boc.Cell]*node{}))
			continue
		}
		h, err := r.Hash()
		if err != nil {
			return nil
		}
		d := dep(r)
		root.refs = append(root.refs, &node{bits: byteBits(1, 1) + byteBits(h...) + byteBits(byte(d>>8), byte(d)), x: 1})
	}
	return root
}

var _ = strings.Repeat
