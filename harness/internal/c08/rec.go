// Package c08 drives every decoder of the library that sits on untrusted data (TL-B target types, the TL types of
// the lite-server API, the helpers on network data) and records what each call did, for judgement by
// spec/trace/Decode_Trace.tla. The drivers only drive and record: one Begin record (flushed) before every call so that
// a fatal runtime error is attributed to its input, recover() for panics, a watchdog that records a Timeout event
// and ends the process when a call exceeds its wall-clock limit, allocation measured as TotalAlloc delta.
package c08

import (
	"fmt"
	"os"
	"runtime"
	"sync"
	"sync/atomic"
	"syscall"
	"time"

	"verifharness/internal/ev"
)

type Opts struct {
	Tier          string
	Seed          int64
	Shard, Shards int
	Skip          int    // inputs with index < Skip are generated but not executed (restart after a crash)
	Only          int    // >= 0: execute only this index (replay / second run)
	In            string // optional input file (spec-written bags, abi opcodes)
	Schema        string // TL schema AST (tools/tl2json.py)
	AstOut        string // where the TL-B driver writes the reflection ASTs of its types
	AbiOps        string // JSON list of {name, op} of the abi message opcodes
}

func (o Opts) thorough() bool { return o.Tier == "thorough" }

// CallLimit is the per-call wall-clock limit enforced by the watchdog: a call that has not returned by then is
// recorded as a Timeout and the process ends. The specification's time budget (2 s + size/64 ms) is judged from
// "ms", the processor time the calling thread spent in the call (the goroutine is locked to its thread for the
// duration), so that a busy machine cannot produce a breach; the wall-clock duration is recorded as "wall_ms".
const CallLimit = 20 * time.Second

func threadCPU() time.Duration {
	var ru syscall.Rusage
	if err := syscall.Getrusage(1 /* RUSAGE_THREAD */, &ru); err != nil {
		return 0
	}
	return time.Duration(ru.Utime.Nano() + ru.Stime.Nano())
}

type Rec struct {
	W    *ev.Writer
	o    Opts
	mu   sync.Mutex
	next int
	// state of the call in flight, for the watchdog
	deadline atomic.Int64 // unix nanos; 0 = no call in flight
	cur      atomic.Value // ev.M of the Begin record
}

func NewRec(w *ev.Writer, o Opts) *Rec {
	w.Sync = true
	r := &Rec{W: w, o: o}
	go r.watchdog()
	return r
}

func (r *Rec) emit(m ev.M) {
	r.mu.Lock()
	r.W.Emit(m)
	r.mu.Unlock()
}

func (r *Rec) watchdog() {
	for {
		time.Sleep(50 * time.Millisecond)
		d := r.deadline.Load()
		if d != 0 && time.Now().UnixNano() > d {
			b, _ := r.cur.Load().(ev.M)
			m := ev.M{"k": "Timeout", "limit_ms": int(CallLimit / time.Millisecond)}
			for _, f := range []string{"i", "kind", "site", "class", "type", "ty", "op", "guard"} {
				if v, ok := b[f]; ok {
					m[f] = v
				}
			}
			r.emit(m)
			os.Exit(3)
		}
	}
}

// Skipped tells whether the next input would not be executed (lets generators avoid expensive preparation).
func (r *Rec) Skipped() bool {
	i := r.next
	return i < r.o.Skip || (r.o.Only >= 0 && i != r.o.Only)
}

// SkipSlot consumes one input index without executing anything.
func (r *Rec) SkipSlot() { r.next++ }

// Done tells that nothing further can be executed (replay of a single index that has been passed).
func (r *Rec) Done() bool { return r.o.Only >= 0 && r.next > r.o.Only }

// Call executes one call on untrusted input. kind is the event kind recorded on return ("Decode", "TlDecode",
// "Helper"); in holds the description of the input (written into the Begin record; the fields listed in keep are
// copied into the result event as well); f performs the call and may add result fields to out.
func (r *Rec) Call(kind, site, class string, in ev.M, keep []string, f func(out ev.M) error) {
	r.CallPost(kind, site, class, in, keep, f, nil)
}

// CallPost is Call with a second function that runs after the measurement (and outside it) when the call returned
// without error: it may add a description of the returned value to the event.
func (r *Rec) CallPost(kind, site, class string, in ev.M, keep []string, f func(out ev.M) error, post func(out ev.M)) {
	i := r.next
	r.next++
	if i < r.o.Skip || (r.o.Only >= 0 && i != r.o.Only) {
		return
	}
	b := ev.M{"k": "Begin", "i": i, "kind": kind, "site": site, "class": class}
	for k, v := range in {
		b[k] = v
	}
	r.emit(b)
	m := ev.M{"k": kind, "i": i, "site": site, "class": class, "res": "err", "alloc_kb": 0, "ms": 0}
	for _, k := range keep {
		m[k] = in[k]
	}
	out := ev.M{}
	var ms0, ms1 runtime.MemStats
	var err error
	var pan any
	r.cur.Store(b)
	runtime.LockOSThread()
	runtime.ReadMemStats(&ms0)
	t0 := time.Now()
	c0 := threadCPU()
	r.deadline.Store(t0.Add(CallLimit).UnixNano())
	func() {
		defer func() { pan = recover() }()
		err = f(out)
	}()
	r.deadline.Store(0)
	cpu := threadCPU() - c0
	el := time.Since(t0)
	runtime.ReadMemStats(&ms1)
	runtime.UnlockOSThread()
	if pan != nil {
		p := ev.M{"k": "Panic", "i": i, "kind": kind, "site": site, "class": class, "panic": fmt.Sprint(pan)}
		for _, k := range keep {
			p[k] = in[k]
		}
		r.emit(p)
		return
	}
	m["ms"] = int(cpu.Milliseconds())
	m["wall_ms"] = int(el.Milliseconds())
	m["alloc_kb"] = int((ms1.TotalAlloc - ms0.TotalAlloc) / 1024)
	if err == nil {
		m["res"] = "ok"
		if post != nil {
			// the second function may call into the library as well (accessors of the returned value): same watchdog
			r.deadline.Store(time.Now().Add(CallLimit).UnixNano())
			func() {
				defer func() {
					if p := recover(); p != nil {
						out["postpanic"] = fmt.Sprint(p)
					}
				}()
				post(out)
			}()
			r.deadline.Store(0)
		}
	}
	for k, v := range out {
		m[k] = v
	}
	r.emit(m)
}

func (r *Rec) End() {
	r.emit(ev.M{"k": "End", "events": r.W.N})
}
