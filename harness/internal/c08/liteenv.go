package c08

import (
	"context"
	"encoding/hex"
	"fmt"
	"math/rand"
	"reflect"
	"time"

	"github.com/tonkeeper/tongo/liteapi"
	"github.com/tonkeeper/tongo/liteclient"
	"github.com/tonkeeper/tongo/tl"
	"github.com/tonkeeper/tongo/tlb"
	"github.com/tonkeeper/tongo/ton"

	"verifharness/internal/ev"
	"verifharness/internal/tlval"
)

// liteapi.Client methods against the scripted lite server: answers whose parallel parts disagree in count, bags
// with no / several roots, truncated and mistagged answers, error answers, frames the answer processing must survive.

type apiCase struct {
	site, fn, ctor string
	nbags          int
	types          []string
	gos            []reflect.Type
	// answer body (bare fields) for a choice of bags, with the description of its BoC-valued parts
	build func(rng *rand.Rand, bs []bag) (body []byte, bags []ev.M, extra ev.M)
	call  func(ctx context.Context, cl *liteapi.Client, out ev.M) error
	fid   uint32
	cid   uint32
}

type frameCase struct {
	class string
	f     func(id []byte) [][]byte
	then  bool // the well-formed answer follows
}

type liteEnv struct {
	s      *tlval.TvSchema
	srv    *liteSrv
	cl     *liteapi.Client
	cases  []*apiCase
	bySite map[string]*apiCase
	frames []frameCase
	tfid   uint32
	good   []byte
}

var liteKeep = []string{"size", "bags", "wire_ok", "nids", "errans"}

func newLiteEnv(schemaPath string) (*liteEnv, error) {
	s, err := tlval.TvLoadSchema(schemaPath)
	if err != nil {
		return nil, err
	}
	srv, err := newLiteSrv()
	if err != nil {
		return nil, err
	}
	cl, err := srv.client(3 * time.Second)
	if err != nil {
		return nil, fmt.Errorf("liteapi client against the scripted server: %v", err)
	}
	time.Sleep(300 * time.Millisecond) // the pool learns its head
	e := &liteEnv{s: s, srv: srv, cl: cl, bySite: map[string]*apiCase{}}
	acc := ton.AccountID{Workchain: 0}
	one := func(f func(b []byte) any) func(rng *rand.Rand, bs []bag) ([]byte, []ev.M, ev.M) {
		return func(rng *rand.Rand, bs []bag) ([]byte, []ev.M, ev.M) {
			return mustTL(f(bs[0].b)), []ev.M{bagInfo(bs[0].b)}, nil
		}
	}
	tTx, tAcc, tStack := reflect.TypeOf(tlb.Transaction{}), reflect.TypeOf(tlb.Account{}), reflect.TypeOf(tlb.VmStack{})
	tHdr := reflect.TypeOf(struct {
		Proof tlb.MerkleProof[tlb.BlockHeader]
	}{})
	tState := reflect.TypeOf(struct {
		Proof tlb.MerkleProof[tlb.ShardStateUnsplit]
	}{})
	tBlock, tShards := reflect.TypeOf(tlb.Block{}), reflect.TypeOf(tlb.AllShardsInfo{})
	mc := ton.BlockID{Workchain: -1, Shard: 1 << 63, Seqno: 100}
	e.cases = []*apiCase{
		{site: "liteapi.GetTransactions", fn: "liteServer.getTransactions", ctor: "liteServer.transactionList", nbags: 1,
			types: []string{"tlb.Transaction"}, gos: []reflect.Type{tTx},
			// the ids vector and the bag of transactions are parallel lists
			build: func(rng *rand.Rand, bs []bag) ([]byte, []ev.M, ev.M) {
				nr := nroots(bs[0].b)
				choices := []int{0, 1}
				if nr > 0 {
					choices = []int{0, nr - 1, nr, nr + 1}
				}
				nids := choices[rng.Intn(len(choices))]
				ids := make([]liteclient.TonNodeBlockIdExtC, nids)
				for i := range ids {
					ids[i] = blkID(uint32(50 + i))
				}
				return mustTL(liteclient.LiteServerTransactionListC{Ids: ids, Transactions: bs[0].b}), []ev.M{bagInfo(bs[0].b)}, ev.M{"nids": nids}
			},
			call: func(ctx context.Context, cl *liteapi.Client, out ev.M) error {
				txs, err := cl.GetTransactions(ctx, 10, acc, 1, ton.Bits256{})
				out["nres"] = len(txs)
				return err
			}},
		{site: "liteapi.GetAccountState", fn: "liteServer.getAccountState", ctor: "liteServer.accountState", nbags: 2,
			types: []string{"tlb.ShardStateUnsplit", "tlb.Account"}, gos: []reflect.Type{tState, tAcc},
			build: func(rng *rand.Rand, bs []bag) ([]byte, []ev.M, ev.M) {
				return mustTL(liteclient.LiteServerAccountStateC{Id: blkID(100), Shardblk: blkID(100), Proof: bs[0].b, State: bs[1].b}),
					[]ev.M{bagInfo(bs[0].b), bagInfo(bs[1].b)}, nil
			},
			call: func(ctx context.Context, cl *liteapi.Client, out ev.M) error {
				_, err := cl.GetAccountState(ctx, acc)
				return err
			}},
		{site: "liteapi.GetBlockHeader", fn: "liteServer.getBlockHeader", ctor: "liteServer.blockHeader", nbags: 1,
			types: []string{"tlb.BlockHeader"}, gos: []reflect.Type{tHdr},
			build: one(func(b []byte) any { return liteclient.LiteServerBlockHeaderC{Id: blkID(100), HeaderProof: b} }),
			call: func(ctx context.Context, cl *liteapi.Client, out ev.M) error {
				_, err := cl.GetBlockHeader(ctx, ton.BlockIDExt{BlockID: mc}, 0)
				return err
			}},
		{site: "liteapi.LookupBlock", fn: "liteServer.lookupBlock", ctor: "liteServer.blockHeader", nbags: 1,
			types: []string{"tlb.BlockHeader"}, gos: []reflect.Type{tHdr},
			build: one(func(b []byte) any { return liteclient.LiteServerBlockHeaderC{Id: blkID(100), HeaderProof: b} }),
			call: func(ctx context.Context, cl *liteapi.Client, out ev.M) error {
				_, _, err := cl.LookupBlock(ctx, mc, 1, nil, nil)
				return err
			}},
		{site: "liteapi.RunSmcMethod", fn: "liteServer.runSmcMethod", ctor: "liteServer.runMethodResult", nbags: 1,
			types: []string{"tlb.VmStack"}, gos: []reflect.Type{tStack},
			// mode 4: only the result field is present
			build: one(func(b []byte) any {
				return liteclient.LiteServerRunMethodResultC{Mode: 4, Id: blkID(100), Shardblk: blkID(100), Result: b}
			}),
			call: func(ctx context.Context, cl *liteapi.Client, out ev.M) error {
				_, st, err := cl.RunSmcMethod(ctx, acc, "seqno", tlb.VmStack{})
				out["nres"] = len(st)
				return err
			}},
		{site: "liteapi.GetOneTransactionFromBlock", fn: "liteServer.getOneTransaction", ctor: "liteServer.transactionInfo", nbags: 1,
			types: []string{"tlb.Transaction"}, gos: []reflect.Type{tTx},
			build: one(func(b []byte) any { return liteclient.LiteServerTransactionInfoC{Id: blkID(100), Transaction: b} }),
			call: func(ctx context.Context, cl *liteapi.Client, out ev.M) error {
				_, err := cl.GetOneTransactionFromBlock(ctx, acc, ton.BlockIDExt{}, 1)
				return err
			}},
		{site: "liteapi.GetBlock", fn: "liteServer.getBlock", ctor: "liteServer.blockData", nbags: 1,
			types: []string{"tlb.Block"}, gos: []reflect.Type{tBlock},
			build: one(func(b []byte) any { return liteclient.LiteServerBlockDataC{Id: blkID(100), Data: b} }),
			call: func(ctx context.Context, cl *liteapi.Client, out ev.M) error {
				_, err := cl.GetBlock(ctx, ton.BlockIDExt{})
				return err
			}},
		{site: "liteapi.GetAllShardsInfo", fn: "liteServer.getAllShardsInfo", ctor: "liteServer.allShardsInfo", nbags: 1,
			types: []string{"tlb.AllShardsInfo"}, gos: []reflect.Type{tShards},
			build: one(func(b []byte) any { return liteclient.LiteServerAllShardsInfoC{Id: blkID(100), Data: b} }),
			call: func(ctx context.Context, cl *liteapi.Client, out ev.M) error {
				sh, err := cl.GetAllShardsInfo(ctx, ton.BlockIDExt{})
				out["nres"] = len(sh)
				return err
			}},
		{site: "liteapi.GetConfigAll", fn: "liteServer.getConfigAll", ctor: "liteServer.configInfo", nbags: 1,
			types: []string{"tlb.ShardStateUnsplit"}, gos: []reflect.Type{tState},
			build: one(func(b []byte) any { return liteclient.LiteServerConfigInfoC{Id: blkID(100), ConfigProof: b} }),
			call: func(ctx context.Context, cl *liteapi.Client, out ev.M) error {
				_, err := cl.GetConfigAll(ctx, 0)
				return err
			}},
		{site: "liteapi.GetLibraries", fn: "liteServer.getLibraries", ctor: "liteServer.libraryResult", nbags: 2,
			types: []string{"tlb.Account", "tlb.Account"}, gos: []reflect.Type{tAcc, tAcc},
			build: func(rng *rand.Rand, bs []bag) ([]byte, []ev.M, ev.M) {
				return mustTL(liteclient.LiteServerLibraryResultC{Result: []liteclient.LiteServerLibraryEntryC{{Data: bs[0].b}, {Hash: tl.Int256{1}, Data: bs[1].b}}}),
					[]ev.M{bagInfo(bs[0].b), bagInfo(bs[1].b)}, nil
			},
			call: func(ctx context.Context, cl *liteapi.Client, out ev.M) error {
				l, err := cl.GetLibraries(ctx, []ton.Bits256{{}})
				out["nres"] = len(l)
				return err
			}},
	}
	for _, c := range e.cases {
		if c.fid, err = fnID(s, c.fn); err != nil {
			return nil, err
		}
		if c.cid, err = ctorID(s, c.ctor); err != nil {
			return nil, err
		}
		e.bySite[c.site] = c
	}
	if e.tfid, err = fnID(s, "liteServer.getTime"); err != nil {
		return nil, err
	}
	tcid, err := ctorID(s, "liteServer.currentTime")
	if err != nil {
		return nil, err
	}
	good := append(le32(tcid), le32(1700000000)...)
	e.good = good
	ans := func(tail ...byte) func(id []byte) [][]byte {
		return func(id []byte) [][]byte { return [][]byte{append(append(le32(mAnswer), id...), tail...)} }
	}
	e.frames = []frameCase{
		// malformed frames followed by the well-formed answer: the caller must still get its answer
		{"frame:answer_shorter_than_37", func(id []byte) [][]byte { return [][]byte{append(le32(mAnswer), id[:20]...)} }, true},
		{"frame:other_query_id", func(id []byte) [][]byte {
			x := append([]byte{}, id...)
			x[0] ^= 1
			return [][]byte{append(append(le32(mAnswer), x...), tlBytes(good)...)}
		}, true},
		{"frame:empty_payload", func(id []byte) [][]byte { return [][]byte{{}} }, true},
		{"frame:three_bytes", func(id []byte) [][]byte { return [][]byte{{1, 2, 3}} }, true},
		{"frame:unknown_magic", func(id []byte) [][]byte { return [][]byte{append(le32(0x12345678), id...)} }, true},
		// answers to this very query with a bad length prefix: they consume the registration, nothing can follow
		{"frame:answer_36_bytes", ans(), false},
		{"len:ff", ans(0xff, 0, 0, 0), false},
		{"len:fe_short", ans(0xfe), false},
		{"len:fe_2", ans(0xfe, 1, 0), false},
		{"len:fe_huge", ans(0xfe, 0xff, 0xff, 0xff, 1, 2, 3, 4), false},
		{"len:longer_than_data", ans(200, 1, 2, 3), false},
		{"len:zero", ans(0, 0, 0, 0), false},
		{"len:exact_unpadded", ans(append([]byte{8}, good...)...), false},
	}
	return e, nil
}

// execAPI scripts one answer and makes the call. in carries the answer ("hex") and its description.
func (e *liteEnv) execAPI(r *Rec, site, class string, in ev.M) error {
	c := e.bySite[site]
	if c == nil {
		return fmt.Errorf("no such liteapi case %q", site)
	}
	hx, _ := in["hex"].(string)
	boxed, err := hex.DecodeString(hx)
	if err != nil {
		return err
	}
	e.srv.script(c.fid, boxed)
	r.Call("Helper", site, class, in, liteKeep, func(out ev.M) error {
		ctx, cancel := context.WithTimeout(context.Background(), 3*time.Second)
		defer cancel()
		return c.call(ctx, e.cl, out)
	})
	return nil
}

func (e *liteEnv) execFrame(r *Rec, class string) error {
	for _, fr := range e.frames {
		if fr.class != class {
			continue
		}
		var then []byte
		wait := 700 * time.Millisecond
		if fr.then {
			then, wait = e.good, 2*time.Second
		}
		e.srv.scriptRaw(e.tfid, fr.f, then)
		r.Call("Helper", "liteclient.answer", class, ev.M{"size": 64}, []string{"size"}, func(out ev.M) error {
			ctx, cancel := context.WithTimeout(context.Background(), wait)
			defer cancel()
			_, err := e.cl.GetTime(ctx)
			return err
		})
		return nil
	}
	return fmt.Errorf("no such frame case %q", class)
}

func (e *liteEnv) drive(r *Rec, sb *specBags, rng *rand.Rand, rounds int) error {
	for _, cs := range e.cases {
		var pools [][]bag
		for j := 0; j < cs.nbags; j++ {
			pools = append(pools, sb.variants(rng, cs.types[j], cs.gos[j], 10))
		}
		n := len(pools[0]) * rounds
		for k := 0; k < n; k++ {
			bs := make([]bag, cs.nbags)
			class := ""
			for j := range bs {
				if j == 0 {
					bs[j] = pools[j][k%len(pools[j])]
				} else {
					bs[j] = pools[j][rng.Intn(len(pools[j]))]
					class += "|"
				}
				class += bs[j].class
			}
			body, bags, extra := cs.build(rng, bs)
			boxed := append(le32(cs.cid), body...)
			form := k % 7
			wireOK := true
			switch form {
			case 4:
				boxed = boxed[:rng.Intn(len(boxed))]
				class += "+answer_trunc"
				wireOK = false
			case 5:
				boxed = append(le32(cs.cid^0x01000000), body...)
				class += "+answer_mistagged"
				wireOK = false
			case 6:
				e := append(le32(mLsError), le32(uint32(rng.Intn(1000)))...)
				boxed = append(e, tlBytes([]byte("scripted error"))...)
				class += "+error_answer"
				wireOK = false
			}
			in := ev.M{"hex": hex.EncodeToString(boxed), "size": len(boxed), "bags": bags, "wire_ok": wireOK, "nids": -1, "errans": form == 6}
			for k, v := range extra {
				in[k] = v
			}
			if err := e.execAPI(r, cs.site, class, in); err != nil {
				return err
			}
		}
	}
	for k := 0; k < rounds; k++ {
		for _, fr := range e.frames {
			if err := e.execFrame(r, fr.class); err != nil {
				return err
			}
		}
	}
	return nil
}
