package c08

import (
	"bytes"
	"encoding/hex"
	"fmt"
	"math/rand"
	"reflect"

	"github.com/tonkeeper/tongo/liteclient"
	"github.com/tonkeeper/tongo/tl"

	"verifharness/internal/c10"
	"verifharness/internal/ev"
	"verifharness/internal/tlval"
)

// mark: where a length prefix / vector count / constructor id sits in a valid encoding. Found by walking the
// schema with the value and adding up the sizes the TL description gives (no bytes are produced here).
type mark struct {
	off  int
	kind string // byteslen | veccount | ctorid
}

type sizer struct {
	s     *tlval.TvSchema
	off   int
	marks []mark
}

func pad4(n int) int { return (n + 3) &^ 3 }

func (z *sizer) fields(d *tlval.TvDecl, v map[string]any) error {
	for _, f := range d.Fields {
		if f.Ty.Vector == nil && f.Ty.Name == "true" {
			continue
		}
		x, ok := v[f.Name]
		if !ok {
			if f.Flag == nil {
				return fmt.Errorf("missing field %s", f.Name)
			}
			continue
		}
		if err := z.walk(f.Ty, x); err != nil {
			return err
		}
	}
	return nil
}

func (z *sizer) walk(ty tlval.TvType, v any) error {
	if ty.Vector != nil {
		arr, ok := v.([]any)
		if !ok {
			return fmt.Errorf("vector value expected")
		}
		z.marks = append(z.marks, mark{z.off, "veccount"})
		z.off += 4
		for _, x := range arr {
			if err := z.walk(*ty.Vector, x); err != nil {
				return err
			}
		}
		return nil
	}
	switch ty.Name {
	case "int", "#", "Bool":
		if ty.Name == "#" {
			z.marks = append(z.marks, mark{z.off, "flags"})
		}
		z.off += 4
		return nil
	case "long":
		z.off += 8
		return nil
	case "int128":
		z.off += 16
		return nil
	case "int256":
		z.off += 32
		return nil
	case "bytes", "string":
		s, _ := v.(string)
		n := len(s) / 2
		z.marks = append(z.marks, mark{z.off, "byteslen"})
		if n < 254 {
			z.off += pad4(1 + n)
		} else {
			z.off += pad4(4 + n)
		}
		return nil
	}
	m, ok := v.(map[string]any)
	if !ok {
		return fmt.Errorf("record expected for %s", ty.Name)
	}
	if d := z.s.Ctor(ty.Name); d != nil {
		return z.fields(d, m)
	}
	if d := z.s.Fn(ty.Name); d != nil {
		return z.fields(d, m)
	}
	ctor, _ := m["_"].(string)
	for _, d := range z.s.CtorsOf(ty.Name) {
		if d.Ctor == ctor {
			z.marks = append(z.marks, mark{z.off, "ctorid"})
			z.off += 4
			return z.fields(d, m)
		}
	}
	return fmt.Errorf("unknown type %s", ty.Name)
}

func tlUnmarshal(t reflect.Type, data []byte) (v reflect.Value, rest int, err error) {
	p := reflect.New(t)
	if m := p.MethodByName("UnmarshalTL"); m.IsValid() && m.Type().NumIn() == 1 && m.Type().In(0) == reflect.TypeOf([]byte(nil)) {
		out := m.Call([]reflect.Value{reflect.ValueOf(data)})
		if e, _ := out[0].Interface().(error); e != nil {
			err = e
		}
		return p.Elem(), 0, err
	}
	r := bytes.NewReader(data)
	err = tl.Unmarshal(r, p.Interface())
	return p.Elem(), r.Len(), err
}

func takesReader(t reflect.Type) bool {
	m, ok := reflect.PointerTo(t).MethodByName("UnmarshalTL")
	return !ok || m.Type.In(1) != reflect.TypeOf([]byte(nil))
}

type tlDrv struct {
	r *Rec
	s *tlval.TvSchema
}

func (d *tlDrv) feed(tg c10.Target, class string, data []byte) {
	if d.r.Skipped() {
		d.r.SkipSlot()
		return
	}
	in := ev.M{"ty": tg.Ty, "op": tg.Op, "go": tg.T.String(), "hex": hex.EncodeToString(data), "size": len(data), "val": false,
		"guard": guardTL(d.s, tg.Ty, data), "use": ""}
	var v reflect.Value
	var rest int
	d.r.CallPost("TlDecode", "tl.Unmarshal", class, in, []string{"ty", "op", "size", "val", "guard", "use"}, func(out ev.M) error {
		var err error
		v, rest, err = tlUnmarshal(tg.T, data)
		return err
	}, func(out ev.M) {
		// what a caller does next with a decoded value: re-encode it (a proxy forwards requests and answers), read it
		defer func() { out["use"] = useTL(v) }()
		j, err := d.s.TvToJSON(tlval.TvNamed(tg.Ty), v)
		if err != nil {
			out["undumpable"] = err.Error()
			return
		}
		out["val"] = true
		out["v"] = j
		out["rest"] = rest
		if !takesReader(tg.T) {
			out["rest"] = -1 // a decoder that is handed the whole slice does not say how much it read
		}
		out["hex"] = in["hex"]
	})
}

// useTL hands a value a TL decoder returned to tl.Marshal (MarshalTL where the type has one) and to the accessors of
// its library-typed parts; "" or the first panic.
func useTL(v reflect.Value) (res string) {
	if !v.IsValid() {
		return ""
	}
	func() {
		defer func() {
			if p := recover(); p != nil {
				res = fmt.Sprintf("panic: tl.Marshal(%s): %v", v.Type().String(), p)
			}
		}()
		if v.CanAddr() {
			_, _ = tl.Marshal(v.Addr().Interface())
		}
		_, _ = tl.Marshal(v.Interface())
	}()
	if res == "" {
		res = useValue(v)
	}
	return res
}

// feedRequest: a request as it arrives at a proxy - function id, then the arguments - through LiteapiRequestDecoder.
func (d *tlDrv) feedRequest(tg c10.Target, class string, id uint32, args []byte) {
	if d.r.Skipped() {
		d.r.SkipSlot()
		return
	}
	data := append([]byte{byte(id), byte(id >> 8), byte(id >> 16), byte(id >> 24)}, args...)
	in := ev.M{"ty": tg.Ty, "op": "Fn", "go": tg.T.String(), "hex": hex.EncodeToString(data), "size": len(data), "val": false, "guard": class, "use": ""}
	var val any
	d.r.CallPost("TlDecode", "liteclient.LiteapiRequestDecoder", class, in, []string{"ty", "op", "size", "val", "guard", "use"}, func(out ev.M) error {
		var err error
		_, _, val, err = liteclient.LiteapiRequestDecoder(data)
		return err
	}, func(out ev.M) {
		if val != nil {
			out["use"] = useTL(reflect.ValueOf(val))
		}
	})
}

func put(b []byte, off int, repl ...byte) []byte {
	x := append([]byte{}, b...)
	for i, c := range repl {
		if off+i < len(x) {
			x[off+i] = c
		}
	}
	return x
}

// DriveTL: every TL type and function of the lite-server API x {valid encoding, truncated at every offset, every
// length prefix replaced by 0xff / fe ff ff ff / fe 00 00 01, every vector count replaced by ffffffff / 7fffffff /
// 00000100 / count+1, constructor ids changed, bit flips, trailing bytes, random bytes}.
func DriveTL(w *ev.Writer, o Opts) error {
	r := NewRec(w, o)
	s, err := tlval.TvLoadSchema(o.Schema)
	if err != nil {
		return err
	}
	ts, err := c10.Targets(s)
	if err != nil {
		return err
	}
	d := &tlDrv{r: r, s: s}
	per, hugeCap := 50, 6
	if o.thorough() {
		per, hugeCap = 2000, 10
	}
	for ti, tg := range ts {
		if ti%o.Shards != o.Shard {
			continue
		}
		start := r.next
		huge := 0
		left := func() bool { return r.next-start < per && !r.Done() }
		for base := 0; left(); base++ {
			rng := rand.New(rand.NewSource(typeSeed(o.Seed, tg.Ty+"/"+tg.T.String())*31 + int64(base)))
			g := &tlval.TvGen{R: rng, MaxVec: 4, Budget: 600, ModeCounter: base}
			val := g.Value(s, tlval.TvNamed(tg.Ty))
			gv, err := s.TvFromJSON(tlval.TvNamed(tg.Ty), val, tg.T)
			if err != nil {
				return fmt.Errorf("building %s: %v", tg.Ty, err)
			}
			b, merr := tl.Marshal(gv.Interface())
			if merr != nil {
				return fmt.Errorf("marshal of a valid %s failed: %v", tg.Ty, merr)
			}
			z := &sizer{s: s}
			if err := z.walk(tlval.TvNamed(tg.Ty), val); err != nil || z.off != len(b) {
				z.marks = nil // the size walk disagrees with the encoder: no structure-aware mutations for this value
			}
			d.feed(tg, "valid", b)
			// truncation at every offset (sampled when the encoding is long and the budget short)
			step := 1
			if len(b) > 96 && !o.thorough() {
				step = len(b)/48 + 1
			}
			for n := 0; n < len(b) && left(); n += step {
				d.feed(tg, "trunc", b[:n])
			}
			for _, m := range z.marks {
				if !left() {
					break
				}
				switch m.kind {
				case "byteslen":
					d.feed(tg, "byteslen:ff", put(b, m.off, 0xff))
					d.feed(tg, "byteslen:feffffff", put(b, m.off, 0xfe, 0xff, 0xff, 0xff))
					d.feed(tg, "byteslen:fe000001", put(b, m.off, 0xfe, 0x00, 0x00, 0x01))
					d.feed(tg, "byteslen:fd", put(b, m.off, 0xfd))
				case "veccount":
					if huge < hugeCap {
						huge++
						d.feed(tg, "veccount:ffffffff", put(b, m.off, 0xff, 0xff, 0xff, 0xff))
						d.feed(tg, "veccount:7fffffff", put(b, m.off, 0xff, 0xff, 0xff, 0x7f))
						d.feed(tg, "veccount:00000001", put(b, m.off, 0x00, 0x00, 0x00, 0x01))
					}
					d.feed(tg, "veccount:00010000", put(b, m.off, 0x00, 0x00, 0x01, 0x00))
					d.feed(tg, "veccount:+1", put(b, m.off, b[m.off]+1))
				case "ctorid":
					d.feed(tg, "ctorid", put(b, m.off, b[m.off]^0x10))
				}
			}
			for k := 0; k < 4 && left() && len(b) > 0; k++ {
				x := append([]byte{}, b...)
				x[rng.Intn(len(x))] ^= 1 << uint(rng.Intn(8))
				d.feed(tg, "bitflip", x)
			}
			if left() {
				d.feed(tg, "trailing", append(append([]byte{}, b...), 1, 2, 3, 4, 5))
			}
			for k := 0; k < 3 && left(); k++ {
				x := make([]byte, []int{0, 1, 3, 4, 8, 37, 64, 200}[rng.Intn(8)])
				rng.Read(x)
				if k == 1 && len(x) >= 4 {
					copy(x, b[:min(4, len(b))]) // right constructor id / first word, random rest
				}
				d.feed(tg, "random", x)
			}
		}
		if err := d.modeSweep(tg, o.Seed); err != nil {
			return err
		}
	}
	r.End()
	return nil
}

// modeSweep: for a type with conditional fields, every value 0x00..0xff of the low byte of each flags word, over an
// encoding that carries every optional field and over one that carries none.
func (d *tlDrv) modeSweep(tg c10.Target, seed int64) error {
	var fnID uint32
	isFn := false
	if fd := d.s.Fn(tg.Ty); fd != nil && tg.Op == "EncBare" {
		if b, err := hex.DecodeString(fd.ID); err == nil && len(b) == 4 {
			fnID, isFn = uint32(b[0])<<24|uint32(b[1])<<16|uint32(b[2])<<8|uint32(b[3]), true
		}
	}
	for _, mc := range []int{1<<20 - 1, 0} {
		rng := rand.New(rand.NewSource(typeSeed(seed, tg.Ty+"/mode") + int64(mc)))
		g := &tlval.TvGen{R: rng, MaxVec: 2, Budget: 100, ModeCounter: mc}
		val := g.Value(d.s, tlval.TvNamed(tg.Ty))
		gv, err := d.s.TvFromJSON(tlval.TvNamed(tg.Ty), val, tg.T)
		if err != nil {
			return fmt.Errorf("building %s: %v", tg.Ty, err)
		}
		b, merr := tl.Marshal(gv.Interface())
		if merr != nil {
			return fmt.Errorf("marshal of a valid %s failed: %v", tg.Ty, merr)
		}
		z := &sizer{s: d.s}
		if err := z.walk(tlval.TvNamed(tg.Ty), val); err != nil || z.off != len(b) {
			continue
		}
		with := "mode+optional"
		if mc == 0 {
			with = "mode-optional"
		}
		if isFn {
			d.feedRequest(tg, "valid", fnID, b)
		}
		for _, m := range z.marks {
			if m.kind != "flags" {
				continue
			}
			for x := 0; x < 256; x++ {
				mut := put(b, m.off, byte(x))
				d.feed(tg, with, mut)
				if isFn {
					d.feedRequest(tg, with, fnID, mut)
				}
			}
		}
	}
	return nil
}

func min(a, b int) int {
	if a < b {
		return a
	}
	return b
}
