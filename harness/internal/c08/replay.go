package c08

import (
	"bufio"
	"encoding/hex"
	"encoding/json"
	"fmt"
	"os"
	"strings"

	"github.com/tonkeeper/tongo/boc"

	"verifharness/internal/c10"
	"verifharness/internal/ev"
	"verifharness/internal/tlbx"
	"verifharness/internal/tlval"
)

// ReplayBegins re-executes recorded inputs (Begin records: the second run before a budget breach is reported, and
// bin/check --replay) against the current tree, producing the same kinds of events as the drivers.
func ReplayBegins(w *ev.Writer, o Opts) error {
	r := NewRec(w, o)
	f, err := os.Open(o.In)
	if err != nil {
		return err
	}
	defer f.Close()
	sc := bufio.NewScanner(f)
	sc.Buffer(make([]byte, 1<<20), 1<<28)
	d := &tlbDrv{r: r, asts: map[string]any{}, quota: map[string]int{}}
	var s *tlval.TvSchema
	var targets []c10.Target
	var le *liteEnv
	for sc.Scan() {
		var b map[string]any
		if err := json.Unmarshal(sc.Bytes(), &b); err != nil {
			return err
		}
		if b["k"] != "Begin" {
			continue
		}
		str := func(k string) string { v, _ := b[k].(string); return v }
		kind, site, class := str("kind"), str("site"), str("class")
		if r.Skipped() {
			r.SkipSlot()
			continue
		}
		switch kind {
		case "Decode":
			if rcp, ok := b["recipe"]; ok {
				var rc bigRecipe
				raw, _ := json.Marshal(rcp)
				if err := json.Unmarshal(raw, &rc); err != nil {
					return err
				}
				if err := execBig(r, rc, site == "Decoder.Unmarshal"); err != nil {
					return err
				}
				continue
			}
			name := str("type")
			t, ok := tlbx.Registry[name]
			if !ok {
				t, ok = typeByName(name)
			}
			if !ok {
				return fmt.Errorf("unknown type %q", name)
			}
			if _, seen := d.quota[name]; !seen {
				d.quota[name] = 1 << 30
				if a := tlbx.AST(t, ""); !tlbx.HasOpaque(a) {
					d.asts[name] = a
				}
			}
			var root *node
			var src ev.M
			if hx := str("boc"); hx != "" {
				raw, _ := hex.DecodeString(hx)
				roots, err := boc.DeserializeBoc(raw)
				if err != nil || len(roots) != 1 {
					return fmt.Errorf("recorded bag no longer parses to one root")
				}
				root = fromCell(roots[0], map[*boc.Cell]*node{})
				src = ev.M{"boc": hx}
				if sid, ok := b["seedid"]; ok {
					src["seedid"] = sid
				}
			} else {
				tab, _ := b["tab"].(map[string]any)
				if root, err = nodeOfTable(tab); err != nil {
					return err
				}
			}
			d.decode(name, t, class, root, src, site == "Decoder.Unmarshal")
		case "Tuple":
			v := tupleVec{N: int(b["n"].(float64)), Kind: strings.TrimPrefix(class, "tuple:"), Vals: str("vals"), Boc: str("boc"), Stack: str("boc")}
			v.WF, _ = b["wf"].(bool)
			execTuple(r, str("form"), v)
		case "Bag":
			raw, _ := hex.DecodeString(str("boc"))
			r.Call("Bag", site, class, ev.M{"boc": str("boc"), "type": str("type"), "size": len(raw)}, []string{"type", "size"}, func(out ev.M) error {
				roots, err := boc.DeserializeBoc(raw)
				out["nroots"] = len(roots)
				return err
			})
		case "TlDecode":
			if s == nil {
				if s, err = tlval.TvLoadSchema(o.Schema); err != nil {
					return err
				}
				if targets, err = c10.Targets(s); err != nil {
					return err
				}
			}
			if site == "liteclient.LiteapiRequestDecoder" {
				data, _ := hex.DecodeString(str("hex"))
				for i := range targets {
					if targets[i].Ty == str("ty") && targets[i].Op == "EncBare" && len(data) >= 4 {
						id := uint32(data[0]) | uint32(data[1])<<8 | uint32(data[2])<<16 | uint32(data[3])<<24
						(&tlDrv{r: r, s: s}).feedRequest(targets[i], class, id, data[4:])
						break
					}
				}
				continue
			}
			var tg *c10.Target
			for i := range targets {
				if targets[i].Ty == str("ty") && targets[i].Op == str("op") && (str("go") == "" || targets[i].T.String() == str("go")) {
					tg = &targets[i]
					break
				}
			}
			if tg == nil {
				return fmt.Errorf("no TL target %s/%s", str("ty"), str("op"))
			}
			data, _ := hex.DecodeString(str("hex"))
			(&tlDrv{r: r, s: s}).feed(*tg, class, data)
		case "Helper":
			in := ev.M{}
			for _, k := range []string{"hex", "size", "bags", "wire_ok", "nids", "errans"} {
				if v, ok := b[k]; ok {
					in[k] = v
				}
			}
			data, _ := hex.DecodeString(str("hex"))
			switch {
			case site == "VmStack.UnmarshalTL":
				execVmStackTL(r, class, in, data)
			case site == "code.ParseContractMethods":
				execParseMethods(r, class, in, data)
			case len(site) > 4 && site[:4] == "abi.":
				tab, _ := b["tab"].(map[string]any)
				root, err := nodeOfTable(tab)
				if err != nil {
					return err
				}
				execAbi(r, site, class, root)
			case site == "liteclient.answer" || (len(site) > 8 && site[:8] == "liteapi."):
				if le == nil {
					if le, err = newLiteEnv(o.Schema); err != nil {
						return err
					}
				}
				if site == "liteclient.answer" {
					err = le.execFrame(r, class)
				} else {
					err = le.execAPI(r, site, class, in)
				}
				if err != nil {
					return err
				}
			default:
				return fmt.Errorf("helper %q is driven in-package; re-run the check to re-record it", site)
			}
		default:
			return fmt.Errorf("unknown kind %q", kind)
		}
	}
	if o.AstOut != "" {
		raw, err := json.Marshal(d.asts)
		if err != nil {
			return err
		}
		if err := os.WriteFile(o.AstOut, raw, 0o644); err != nil {
			return err
		}
	}
	r.End()
	return sc.Err()
}
