package c08

import (
	"bufio"
	"bytes"
	"encoding/hex"
	"encoding/json"
	"fmt"
	"math/rand"
	"os"
	"reflect"
	"strconv"
	"strings"

	"github.com/tonkeeper/tongo/abi"
	"github.com/tonkeeper/tongo/boc"
	"github.com/tonkeeper/tongo/code"
	"github.com/tonkeeper/tongo/liteclient"
	"github.com/tonkeeper/tongo/tl"
	"github.com/tonkeeper/tongo/tlb"
	"github.com/tonkeeper/tongo/wallet"

	"verifharness/internal/ev"
	"verifharness/internal/tlbx"
)

// a bag of cells handed to a helper: the bytes, where they came from, and how many roots the library's own reader
// finds in them (-1: refused) - the last is measured before the call, outside it, and only described to the judge.
type bag struct {
	b     []byte
	class string
}

func nroots(b []byte) (n int) {
	defer func() {
		if recover() != nil {
			n = -1
		}
	}()
	r, err := boc.DeserializeBoc(b)
	if err != nil {
		return -1
	}
	return len(r)
}

func bagInfo(b []byte) ev.M { return ev.M{"len": len(b), "nroots": nroots(b)} }

type specBags struct {
	byType map[string][]bag
	roots0 []bag
	rootsN []bag
}

func loadBags(path string) (*specBags, error) {
	sb := &specBags{byType: map[string][]bag{}}
	if path == "" {
		return sb, nil
	}
	f, err := os.Open(path)
	if err != nil {
		return nil, err
	}
	defer f.Close()
	sc := bufio.NewScanner(f)
	sc.Buffer(make([]byte, 1<<20), 1<<26)
	for sc.Scan() {
		var v struct {
			Type  string `json:"type"`
			Class string `json:"class"`
			Boc   string `json:"boc"`
			Seed  int    `json:"seed"`
		}
		if err := json.Unmarshal(sc.Bytes(), &v); err != nil {
			return nil, err
		}
		b, _ := hex.DecodeString(v.Boc)
		// the seed number travels in the class ("specgen:pruned@17") so that the runner can tell the mutants of one seed
		g := bag{b, fmt.Sprintf("specgen:%s@%d", v.Class, v.Seed)}
		switch v.Class {
		case "roots0":
			sb.roots0 = append(sb.roots0, g)
		case "roots2", "roots2same", "mp_pair":
			sb.rootsN = append(sb.rootsN, g)
			sb.byType[v.Type] = append(sb.byType[v.Type], g)
		default:
			sb.byType[v.Type] = append(sb.byType[v.Type], g)
		}
	}
	return sb, sc.Err()
}

func bocOf(n *node) []byte {
	if n == nil {
		return nil
	}
	c, err := build(n, map[*node]*boc.Cell{})
	if err != nil {
		return nil
	}
	b, err := c.ToBoc()
	if err != nil {
		return nil
	}
	return b
}

// adversarial variants of one BoC-valued field: spec-written bags of the right type, the driver's own valid
// encoding and mutations of its bytes, and the degenerate ones.
func (sb *specBags) variants(rng *rand.Rand, typ string, t reflect.Type, n int) []bag {
	var out []bag
	for k := 0; k < 3 && len(sb.roots0) > 0; k++ {
		out = append(out, sb.roots0[rng.Intn(len(sb.roots0))])
	}
	out = append(out, bag{nil, "empty"}, bag{[]byte{0xb5, 0xee, 0x9c, 0x72}, "garbage"}, bag{[]byte("not a bag of cells at all"), "garbage"})
	if t != nil {
		for k := 0; k < 3; k++ {
			if b := bocOf(valid(rng, t)); b != nil {
				out = append(out, bag{b, "valid"})
				x := append([]byte{}, b...)
				x[rng.Intn(len(x))] ^= 1 << uint(rng.Intn(8))
				out = append(out, bag{x, "bytes_bitflip"}, bag{b[:rng.Intn(len(b))], "bytes_trunc"})
				if v := valid(rng, t); v != nil {
					m, cls := mutate(rng, v, mutClasses[rng.Intn(len(mutClasses)-1)])
					if mb := bocOf(m); mb != nil {
						out = append(out, bag{mb, "mut:" + cls})
					}
				}
			}
		}
	}
	gs := sb.byType[typ]
	for k := 0; k < n && len(gs) > 0; k++ {
		out = append(out, gs[rng.Intn(len(gs))])
	}
	// the bags in which the specification put the value under a Merkle-proof cell (alone / as second root)
	for _, cls := range []string{"specgen:mp_root", "specgen:mp_root", "specgen:mp_pair", "specgen:mp_pair"} {
		var c []bag
		for _, g := range gs {
			if strings.HasPrefix(g.class, cls+"@") {
				c = append(c, g)
			}
		}
		if len(c) > 0 {
			out = append(out, c[rng.Intn(len(c))])
		}
	}
	for k := 0; k < 2 && len(sb.rootsN) > 0; k++ {
		out = append(out, sb.rootsN[rng.Intn(len(sb.rootsN))])
	}
	b := make([]byte, 40)
	rng.Read(b)
	copy(b, []byte{0xb5, 0xee, 0x9c, 0x72, 1, 1})
	out = append(out, bag{b, "random"})
	return out
}

type abiOp struct {
	Name string `json:"name"`
	Op   string `json:"op"`
}

// DriveHelpers: the helpers that sit directly on network / chain data, called the way an application calls them.
func DriveHelpers(w *ev.Writer, o Opts) error {
	r := NewRec(w, o)
	sb, err := loadBags(o.In)
	if err != nil {
		return err
	}
	rng := rand.New(rand.NewSource(o.Seed*69069 + 5))
	rounds := 1
	if o.thorough() {
		rounds = 8
	}
	if o.Shard == 0 {
		for k := 0; k < rounds; k++ {
			driveVmStackTL(r, sb, rng)
			driveParseMethods(r, sb, rng)
		}
	}
	if o.Shard == 1%o.Shards {
		if err := driveAbi(r, o, rng, rounds); err != nil {
			return err
		}
	}
	if o.Shard == 2%o.Shards {
		le, err := newLiteEnv(o.Schema)
		if err != nil {
			return err
		}
		if err := le.drive(r, sb, rng, rounds); err != nil {
			return err
		}
	}
	r.End()
	return nil
}

// tlb.VmStack.UnmarshalTL: a TL byte string holding a bag whose root is a VmStack.
func driveVmStackTL(r *Rec, sb *specBags, rng *rand.Rand) {
	t := reflect.TypeOf(tlb.VmStack{})
	for _, g := range sb.variants(rng, "tlb.VmStack", t, 12) {
		wire := tlBytes(g.b)
		forms := [][2]any{{"", wire}}
		if len(wire) > 4 {
			forms = append(forms, [2]any{"+tl_trunc", wire[:rng.Intn(len(wire))]})
		}
		for _, f := range forms {
			data := f[1].([]byte)
			in := ev.M{"hex": hex.EncodeToString(data), "size": len(data), "bags": []ev.M{bagInfo(g.b)}, "wire_ok": f[0] == ""}
			execVmStackTL(r, g.class+f[0].(string), in, data)
		}
	}
}

func execVmStackTL(r *Rec, class string, in ev.M, data []byte) {
	r.Call("Helper", "VmStack.UnmarshalTL", class, in, []string{"size", "bags", "wire_ok"}, func(out ev.M) error {
		var s tlb.VmStack
		err := s.UnmarshalTL(bytes.NewReader(data))
		out["nres"] = len(s)
		return err
	})
}

func execParseMethods(r *Rec, class string, in ev.M, data []byte) {
	r.Call("Helper", "code.ParseContractMethods", class, in, []string{"size", "bags"}, func(out ev.M) error {
		ms, err := code.ParseContractMethods(data)
		out["nres"] = len(ms)
		return err
	})
}

// code.ParseContractMethods: a bag with contract code.
func driveParseMethods(r *Rec, sb *specBags, rng *rand.Rand) {
	type getMethods struct {
		Hashmap tlb.Hashmap[tlb.Uint19, boc.Cell]
	}
	var gs []bag
	for _, g := range sb.variants(rng, "", nil, 0) {
		gs = append(gs, g)
	}
	for _, ver := range []wallet.Version{wallet.V3R1, wallet.V3R2, wallet.V4R1, wallet.V4R2, wallet.HighLoadV2R2} {
		if c := wallet.GetCodeByVer(ver); c != nil {
			if b, err := c.ToBoc(); err == nil {
				gs = append(gs, bag{b, "real_code"})
				x := append([]byte{}, b...)
				x[len(x)/2+rng.Intn(len(x)/2)] ^= 1 << uint(rng.Intn(8))
				gs = append(gs, bag{x, "real_code_bitflip"})
			}
		}
	}
	// a dictionary of methods of the driver's own making under the first reference, as FunC lays it out
	for k := 0; k < 4; k++ {
		if m := valid(rng, reflect.TypeOf(getMethods{})); m != nil {
			root := &node{bits: randBits(rng, 24), refs: []*node{m}}
			gs = append(gs, bag{bocOf(root), "valid"})
			mm, cls := mutate(rng, root, mutClasses[rng.Intn(len(mutClasses))])
			if b := bocOf(mm); b != nil {
				gs = append(gs, bag{b, "mut:" + cls})
			}
		}
	}
	gs = append(gs, bag{bocOf(&node{bits: "1010"}), "no_refs"})
	for _, g := range gs {
		data := g.b
		in := ev.M{"hex": hex.EncodeToString(data), "size": len(data), "bags": []ev.M{bagInfo(data)}}
		execParseMethods(r, g.class, in, data)
	}
}

func execAbi(r *Rec, site, class string, root *node) {
	c, err := build(root, map[*node]*boc.Cell{})
	if err != nil {
		r.SkipSlot()
		return
	}
	cells, bits, capped := measure(c)
	in := ev.M{"tab": root.table(), "cells": cells, "bits": bits, "capped": capped}
	r.Call("Helper", site, class, in, []string{"cells", "bits", "capped"}, func(out ev.M) error {
		var tag *uint32
		var name *string
		var err error
		switch site {
		case "abi.InternalMessageDecoder":
			tag, name, _, err = abi.InternalMessageDecoder(c, nil)
		case "abi.ExtInMessageDecoder":
			tag, name, _, err = abi.ExtInMessageDecoder(c, nil)
		default:
			tag, name, _, err = abi.ExtOutMessageDecoder(c, nil, tlb.MsgAddress{SumType: "AddrNone"})
		}
		out["tagged"] = tag != nil
		out["named"] = name != nil
		return err
	})
}

// abi.InternalMessageDecoder / ExtInMessageDecoder / ExtOutMessageDecoder on arbitrary cells: every known opcode
// followed by a valid body, by a mutated body, by random bits; random trees; short cells.
func driveAbi(r *Rec, o Opts, rng *rand.Rand, rounds int) error {
	var ops []abiOp
	// the opcode table is extracted from the generated sources by the runner
	if p := o.AbiOps; p != "" {
		b, err := os.ReadFile(p)
		if err != nil {
			return err
		}
		if err := json.Unmarshal(b, &ops); err != nil {
			return err
		}
	}
	call := func(class string, root *node) {
		for _, site := range []string{"abi.InternalMessageDecoder", "abi.ExtInMessageDecoder", "abi.ExtOutMessageDecoder"} {
			execAbi(r, site, class, root)
		}
	}
	per := 2 * rounds
	for _, op := range ops {
		tag, err := strconv.ParseUint(op.Op, 16, 32)
		if err != nil {
			return err
		}
		t, ok := tlbx.Registry["abi."+op.Name+"MsgBody"]
		for k := 0; k < per; k++ {
			var body *node
			if ok {
				body = valid(rng, t)
			}
			if body == nil {
				body = randTree(rng, 2, false)
			}
			if len(body.bits) > 1023-32 {
				body.bits = body.bits[:1023-32]
			}
			body.bits = fmt.Sprintf("%032b", tag) + body.bits
			switch k % 4 {
			case 0:
				call("op+valid", body)
			case 1:
				m, cls := mutate(rng, body, mutClasses[rng.Intn(len(mutClasses))])
				call("op+mut:"+cls, m)
			case 2:
				call("op+random", &node{bits: fmt.Sprintf("%032b", tag) + randBits(rng, bitLens[rng.Intn(len(bitLens)-2)]), refs: randTree(rng, 2, true).refs})
			default:
				call("op+trunc", &node{bits: body.bits[:32+rng.Intn(len(body.bits)-31)], refs: body.refs})
			}
		}
	}
	for k := 0; k < 60*rounds; k++ {
		call("random", randTree(rng, 1+rng.Intn(3), true))
	}
	for _, n := range []int{0, 1, 31, 32, 33} {
		call("tiny", &node{bits: randBits(rng, n)})
	}
	call("bomb", bomb(rng, 4, 9, "rand"))
	return nil
}

func mustTL(v any) []byte {
	b, err := tl.Marshal(v)
	if err != nil {
		panic(fmt.Sprintf("c08: cannot build a scripted answer: %v", err))
	}
	return b
}

func blkID(seqno uint32) liteclient.TonNodeBlockIdExtC {
	return liteclient.TonNodeBlockIdExtC{Workchain: 0xffffffff, Shard: 0x8000000000000000, Seqno: seqno}
}
