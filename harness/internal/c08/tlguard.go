package c08

import (
	"encoding/binary"
	"strconv"

	"verifharness/internal/tlval"
)

// guardTL names the input class of a byte string with respect to a TL type: it walks the schema over the bytes the
// way the TL description reads them and reports the first thing that is wrong with the input ("" when it is a
// conforming encoding, possibly followed by more bytes). It only labels inputs (finding keys); it judges nothing.
//
//	vector_count  a vector announces more elements than the rest of the input could hold
//	bytes_len     a byte string announces more bytes than the rest of the input holds
//	bytes_prefix  0xff where a length prefix is expected
//	short         the input ends inside a fixed-size field
//	bool / ctor   unknown Bool / constructor id
type tlGuard struct {
	s *tlval.TvSchema
	b []byte
}

func (g *tlGuard) minSize(ty tlval.TvType, fuel int) int {
	if ty.Vector != nil {
		return 4
	}
	switch ty.Name {
	case "int", "#", "Bool", "bytes", "string":
		return 4
	case "long":
		return 8
	case "int128":
		return 16
	case "int256":
		return 32
	case "true":
		return 0
	}
	if fuel == 0 {
		return 0
	}
	if d := g.s.Ctor(ty.Name); d != nil {
		n := 0
		for _, f := range d.Fields {
			if f.Flag == nil {
				n += g.minSize(f.Ty, fuel-1)
			}
		}
		return n
	}
	if len(g.s.CtorsOf(ty.Name)) > 0 {
		return 4
	}
	return 0
}

func (g *tlGuard) fields(d *tlval.TvDecl, p int) (int, string) {
	flags := map[string]uint32{}
	for _, f := range d.Fields {
		if f.Flag != nil && (flags[f.Flag.Field]>>uint(f.Flag.Bit))&1 == 0 {
			continue
		}
		if f.Ty.Vector == nil && f.Ty.Name == "true" {
			continue
		}
		if f.Ty.Vector == nil && f.Ty.Name == "#" && p+4 <= len(g.b) {
			flags[f.Name] = binary.LittleEndian.Uint32(g.b[p:])
		}
		var gd string
		if p, gd = g.walk(f.Ty, p); gd != "" {
			return p, gd
		}
	}
	return p, ""
}

func (g *tlGuard) walk(ty tlval.TvType, p int) (int, string) {
	rem := len(g.b) - p
	fixed := func(n int) (int, string) {
		if rem < n {
			return p, "short"
		}
		return p + n, ""
	}
	if ty.Vector != nil {
		if rem < 4 {
			return p, "short"
		}
		n := binary.LittleEndian.Uint32(g.b[p:])
		p += 4
		if m := g.minSize(*ty.Vector, 6); n >= 1<<31 || (m > 0 && int(n) > (len(g.b)-p)/m) {
			return p, "vector_count"
		}
		for i := 0; i < int(n); i++ {
			var gd string
			if p, gd = g.walk(*ty.Vector, p); gd != "" {
				return p, gd
			}
		}
		return p, ""
	}
	switch ty.Name {
	case "int", "#":
		return fixed(4)
	case "long":
		return fixed(8)
	case "int128":
		return fixed(16)
	case "int256":
		return fixed(32)
	case "true":
		return p, ""
	case "Bool":
		if rem < 4 {
			return p, "short"
		}
		if v := binary.LittleEndian.Uint32(g.b[p:]); v != 0x997275b5 && v != 0xbc799737 {
			return p, "bool"
		}
		return p + 4, ""
	case "bytes", "string":
		if rem < 1 {
			return p, "short"
		}
		n, h := int(g.b[p]), 1
		if g.b[p] == 255 {
			return p, "bytes_prefix"
		}
		if g.b[p] == 254 {
			if rem < 4 {
				return p, "short"
			}
			n, h = int(g.b[p+1])|int(g.b[p+2])<<8|int(g.b[p+3])<<16, 4
		}
		if h+n > rem {
			return p, "bytes_len"
		}
		if tot := (h + n + 3) &^ 3; tot > rem {
			return p, "short"
		} else {
			return p + tot, ""
		}
	}
	if d := g.s.Ctor(ty.Name); d != nil {
		return g.fields(d, p)
	}
	if d := g.s.Fn(ty.Name); d != nil {
		return g.fields(d, p)
	}
	if cs := g.s.CtorsOf(ty.Name); len(cs) > 0 {
		if rem < 4 {
			return p, "short"
		}
		id := strconv.FormatUint(uint64(binary.LittleEndian.Uint32(g.b[p:])), 16)
		for len(id) < 8 {
			id = "0" + id
		}
		for _, d := range cs {
			if d.ID == id {
				return g.fields(d, p+4)
			}
		}
		return p, "ctor"
	}
	return p, "unknown_type"
}

func guardTL(s *tlval.TvSchema, ty string, data []byte) string {
	g := &tlGuard{s: s, b: data}
	_, gd := g.walk(tlval.TvNamed(ty), 0)
	if gd == "" {
		return "conforming"
	}
	return gd
}
