package c08

import (
	"bufio"
	"bytes"
	"encoding/hex"
	"encoding/json"
	"fmt"
	"math/big"
	"os"
	"reflect"
	"strconv"
	"strings"

	"github.com/tonkeeper/tongo/boc"
	"github.com/tonkeeper/tongo/tlb"

	"verifharness/internal/ev"
)

// Spec-built seeds of a decode-only type: spec/gen/VmTuple_Gen.tla writes TVM tuples (well-formed ones with the
// value they denote, and their ill-formed neighbours) as bags; the library has no encoder for them. Each vector is
// decoded as a tlb.VmStackValue, as the only entry of a tlb.VmStack, and through VmStack.UnmarshalTL, and read on into Go
// values by VmStackValue.Unmarshal / VmStkTuple.Unmarshal / RecursiveToSlice (both). The decoded
// value is flattened to the same text the specification uses (nil | nan | int:<n> | tuple(e1,e2,..)), following
// the schema: VmTuple (n+1) = head:(VmTupleRef n) tail; VmTupleRef 1 = entry; VmTupleRef (n+2) = ref:^(VmTuple (n+2)).

type tupleVec struct {
	N     int    `json:"n"`
	Kind  string `json:"kind"`
	WF    bool   `json:"wf"`
	Vals  string `json:"vals"`
	Boc   string `json:"boc"`
	Stack string `json:"stack"`
}

func valueText(v tlb.VmStackValue) string {
	switch v.SumType {
	case "VmStkNull":
		return "nil"
	case "VmStkNan":
		return "nan"
	case "VmStkTinyInt":
		return "int:" + strconv.FormatInt(v.VmStkTinyInt, 10)
	case "VmStkTuple":
		var es []string
		tupleEntries(int(v.VmStkTuple.Len), v.VmStkTuple.Data, &es)
		return "tuple(" + strings.Join(es, ",") + ")"
	}
	return "?" + string(v.SumType)
}

func tupleEntries(n int, t *tlb.VmTuple, out *[]string) {
	if n == 0 {
		return
	}
	if t == nil {
		*out = append(*out, "?nil")
		return
	}
	refEntries(n-1, t.Head, out)
	*out = append(*out, valueText(t.Tail))
}

func refEntries(n int, r tlb.VmTupleRef, out *[]string) {
	switch {
	case n == 0:
	case n == 1:
		if r.Entry == nil {
			*out = append(*out, "?nil")
			return
		}
		*out = append(*out, valueText(*r.Entry))
	default:
		tupleEntries(n, r.Ref, out)
	}
}

// structOfInts is struct{ F0, F1, .. int64 } with n fields: the destination a tuple of n integers is read into.
func structOfInts(n int) reflect.Type {
	fs := make([]reflect.StructField, n)
	for i := range fs {
		fs[i] = reflect.StructField{Name: "F" + strconv.Itoa(i), Type: reflect.TypeOf(int64(0))}
	}
	return reflect.StructOf(fs)
}

// The "read:*" forms: the tuple - whatever the decoder made of the vector, well-formed or not - is read on into Go values by
// the readers of tlb/tuple.go. Nothing is asked of them here but to return within budget (the event says wf = false: the
// clause "a well-formed vector decodes to its entries" is about the three decoding forms; "variant" keeps the vector's class).
var tupleReadSites = map[string]string{"read:struct": "VmStackValue.Unmarshal", "read:slice": "VmStkTuple.Unmarshal",
	"read:list": "VmStkTuple.RecursiveToSlice", "read:body": "VmTuple.RecursiveToSlice"}

func readTuple(form string, root *boc.Cell) error {
	var val tlb.VmStackValue
	if err := tlb.Unmarshal(root, &val); err != nil {
		return err
	}
	if val.SumType != "VmStkTuple" {
		return fmt.Errorf("not a tuple")
	}
	t := val.VmStkTuple
	switch form {
	case "read:struct":
		return val.Unmarshal(reflect.New(structOfInts(int(t.Len))).Interface())
	case "read:slice":
		var d []int64
		return t.Unmarshal(&d)
	case "read:list":
		_, err := t.RecursiveToSlice()
		return err
	default:
		if t.Data == nil {
			return fmt.Errorf("tuple without a body")
		}
		_, err := t.Data.RecursiveToSlice(int(t.Len))
		return err
	}
}

func execTuple(r *Rec, form string, v tupleVec) {
	src := v.Boc
	if form == "stack" || form == "tl" {
		src = v.Stack
	}
	raw, _ := hex.DecodeString(src)
	in := ev.M{"form": form, "boc": src, "n": v.N, "variant": v.Kind, "wf": v.WF, "vals": v.Vals, "type": "tlb.VmStkTuple", "cells": 0, "bits": 0}
	if _, ok := tupleReadSites[form]; ok {
		in["wf"] = false
	}
	keep := []string{"form", "n", "wf", "vals", "type", "cells", "bits"}
	if r.Skipped() {
		r.SkipSlot()
		return
	}
	roots, err := boc.DeserializeBoc(raw)
	if err != nil || len(roots) != 1 {
		// the specification's own bag must be readable: C01 / C07 territory, but nothing can be decoded here
		r.Call("Tuple", "boc.DeserializeBoc", "tuple:"+v.Kind, in, keep, func(out ev.M) error {
			out["got"] = ""
			return fmt.Errorf("spec-written bag refused")
		})
		return
	}
	cells, bits, _ := measure(roots[0])
	in["cells"], in["bits"] = cells, bits
	if site, ok := tupleReadSites[form]; ok {
		r.Call("Tuple", site, "tuple:"+v.Kind, in, keep, func(out ev.M) error {
			out["got"] = ""
			return readTuple(form, roots[0])
		})
		return
	}
	site := map[string]string{"value": "tlb.Unmarshal", "stack": "tlb.Unmarshal", "tl": "VmStack.UnmarshalTL"}[form]
	var got string
	r.CallPost("Tuple", site, "tuple:"+v.Kind, in, keep, func(out ev.M) error {
		out["got"] = ""
		switch form {
		case "value":
			var val tlb.VmStackValue
			if err := tlb.Unmarshal(roots[0], &val); err != nil {
				return err
			}
			got = valueText(val)
		case "stack":
			var st tlb.VmStack
			if err := tlb.Unmarshal(roots[0], &st); err != nil {
				return err
			}
			if len(st) != 1 {
				got = fmt.Sprintf("?stack of %d", len(st))
			} else {
				got = valueText(st[0])
			}
		default:
			var st tlb.VmStack
			if err := st.UnmarshalTL(bytes.NewReader(tlBytes(raw))); err != nil {
				return err
			}
			if len(st) != 1 {
				got = fmt.Sprintf("?stack of %d", len(st))
			} else {
				got = valueText(st[0])
			}
		}
		return nil
	}, func(out ev.M) {
		out["got"] = got
	})
}

// sliceInputs: vm_stk_slice#04 cell:^Cell st_bits:(## 10) end_bits:(## 10) { st_bits <= end_bits } st_ref:(#<= 4)
// end_ref:(#<= 4) { st_ref <= end_ref } with the window at, inside and beyond the bounds of the referenced cell, and
// with the two orderings violated. The class names the first bound the window breaks ("ok" when it breaks none).
func sliceInputs() (out []struct {
	class string
	root  *node
}) {
	for _, cb := range []int{0, 8, 1023} {
		for _, k := range []int{0, 2, 4} {
			cell := &node{bits: strings.Repeat("10", cb/2) + strings.Repeat("1", cb%2)}
			for i := 0; i < k; i++ {
				cell.refs = append(cell.refs, &node{bits: bitsOf(uint64(i), 8)})
			}
			for _, w := range [][2]int{{0, 0}, {0, cb}, {0, cb + 1}, {0, 2 * cb}, {0, cb + 8}, {cb, cb}, {cb + 1, cb + 1}, {5, 3}, {0, 1023}, {cb, 1023}} {
				for _, rw := range [][2]int{{0, 0}, {0, k}, {0, k + 1}, {k, k}, {k + 1, k + 1}, {2, 1}, {0, 4}} {
					if w[0] > 1023 || w[1] > 1023 || rw[0] > 4 || rw[1] > 4 {
						continue
					}
					class := "ok"
					switch {
					case w[0] > w[1]:
						class = "st_bits>end_bits"
					case w[1] > cb && w[0] <= cb:
						class = "end_bits>cell"
					case w[0] > cb:
						class = "st_bits>cell"
					case rw[0] > rw[1]:
						class = "st_ref>end_ref"
					case rw[1] > k && rw[0] <= k:
						class = "end_ref>cell"
					case rw[0] > k:
						class = "st_ref>cell"
					}
					v := &node{bits: byteBits(4) + bitsOf(uint64(w[0]), 10) + bitsOf(uint64(w[1]), 10) + bitsOf(uint64(rw[0]), 3) + bitsOf(uint64(rw[1]), 3), refs: []*node{cell}}
					out = append(out, struct {
						class string
						root  *node
					}{"slice:" + class, v})
				}
			}
		}
	}
	return out
}

// intInputs: vm_stk_int#0201_ value:int257 (15 tag bits, 257 bits two's complement) for -2^256, -2^256+1, 2^256-1,
// +-2^255, +-2^64, +-2^63 and their neighbours, 0, +-1; and vm_stk_tinyint#01 with the int64 extremes.
func intInputs() (out []struct {
	class string
	root  *node
}) {
	one := big.NewInt(1)
	mod := new(big.Int).Lsh(one, 257)
	add := func(class string, v *big.Int) {
		w := new(big.Int).Set(v)
		if w.Sign() < 0 {
			w.Add(w, mod)
		}
		out = append(out, struct {
			class string
			root  *node
		}{class, &node{bits: "000000100000000" + fmt.Sprintf("%0257s", w.Text(2))}})
	}
	for _, e := range []uint{256, 255, 64, 63, 32, 8} {
		p := new(big.Int).Lsh(one, e)
		for _, dlt := range []int64{-1, 0, 1} {
			v := new(big.Int).Add(p, big.NewInt(dlt))
			n := new(big.Int).Neg(v)
			if v.BitLen() <= 256 {
				add(fmt.Sprintf("int:2^%d%+d", e, dlt), v)
			}
			if n.Cmp(new(big.Int).Neg(new(big.Int).Lsh(one, 256))) >= 0 {
				add(fmt.Sprintf("int:-(2^%d%+d)", e, dlt), n)
			}
		}
	}
	add("int:0", big.NewInt(0))
	add("int:1", one)
	add("int:-1", big.NewInt(-1))
	for _, v := range []int64{0, 1, -1, 1<<63 - 1, -1 << 63} {
		out = append(out, struct {
			class string
			root  *node
		}{"tinyint", &node{bits: byteBits(1) + bitsOf(uint64(v), 64)}})
	}
	return out
}

// DriveTuples feeds the vectors of VmTuple_Gen to the three decoders a tuple can arrive at.
func DriveTuples(w *ev.Writer, o Opts) error {
	r := NewRec(w, o)
	f, err := os.Open(o.In)
	if err != nil {
		return err
	}
	defer f.Close()
	sc := bufio.NewScanner(f)
	sc.Buffer(make([]byte, 1<<20), 1<<26)
	for sc.Scan() {
		var v tupleVec
		if err := json.Unmarshal(sc.Bytes(), &v); err != nil {
			return err
		}
		if v.Boc == "" {
			continue
		}
		for _, form := range []string{"value", "stack", "tl", "read:struct", "read:slice", "read:list", "read:body"} {
			execTuple(r, form, v)
		}
	}
	// stack entries that are windows into a cell, as a value and as the only entry of a stack
	d := &tlbDrv{r: r, asts: map[string]any{}, quota: map[string]int{}}
	tv, ts := reflect.TypeOf(tlb.VmStackValue{}), reflect.TypeOf(tlb.VmStack{})
	for i, in := range sliceInputs() {
		d.decode("tlb.VmStackValue", tv, in.class, in.root, nil, i%2 == 1)
		st := &node{bits: bitsOf(1, 24) + in.root.bits, refs: append([]*node{{}}, in.root.refs...)}
		d.decode("tlb.VmStack", ts, in.class, st, nil, i%2 == 0)
	}
	// integer entries at the edges of int257 and of the machine widths: vm_stk_int#0201_ value:int257, decoded from cells
	for i, in := range intInputs() {
		d.decode("tlb.VmStackValue", tv, in.class, in.root, nil, i%2 == 1)
		st := &node{bits: bitsOf(1, 24) + in.root.bits, refs: []*node{{}}}
		d.decode("tlb.VmStack", ts, in.class, st, nil, i%2 == 0)
	}
	r.End()
	return sc.Err()
}
