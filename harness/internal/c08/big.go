package c08

import (
	"fmt"
	"math/rand"
	"reflect"
	"sort"
	"strings"

	"github.com/tonkeeper/tongo/boc"
	"github.com/tonkeeper/tongo/tlb"

	"verifharness/internal/ev"
)

// Large inputs: the small inputs of the per-type driver cannot tell a decoder whose work grows with the square of its
// input from one whose work grows with the input. Here the inputs are valid encodings with tens of thousands of cells -
// dictionaries with 16k..64k leaves, a binary tree of 32k leaves, byte chains and stacks a thousand cells deep -
// whose unfolding is measured in full and judged by the same budget (processor time of the calling thread <=
// 2 s + size/64 ms; allocation <= 64 x size + 2 MiB). The dictionaries are laid out by the driver itself from the
// TL-B definition of Hashmap (labels in the hml_long form, forks with two references, leaves with the value), so that
// building them costs nothing and does not go through the code under test; each Begin record carries the recipe
// (kind, sizes, seed) instead of the cells.

type bigRecipe struct {
	Kind string `json:"kind"` // hashmape | hashmap | hashmapauge | bintree | snake | vmstack
	Key  int    `json:"key"`  // key width in bits (dictionaries)
	Val  int    `json:"val"`  // value width in bits
	N    int    `json:"n"`    // leaves / cells / entries
	Seed int64  `json:"seed"`
	Mut  string `json:"mut"` // "" or a mutation class applied to the valid encoding
}

var bigTypes = map[string]reflect.Type{
	"hashmape/32/32":    reflect.TypeOf(tlb.HashmapE[tlb.Uint32, tlb.Uint32]{}),
	"hashmap/32/32":     reflect.TypeOf(tlb.Hashmap[tlb.Uint32, tlb.Uint32]{}),
	"hashmape/256/64":   reflect.TypeOf(tlb.HashmapE[tlb.Bits256, tlb.Uint64]{}),
	"hashmape/64/256":   reflect.TypeOf(tlb.HashmapE[tlb.Uint64, tlb.Bits256]{}),
	"hashmapauge/32/32": reflect.TypeOf(tlb.HashmapAugE[tlb.Uint32, tlb.Uint32, tlb.Uint32]{}),
	"bintree/0/32":      reflect.TypeOf(tlb.BinTree[tlb.Uint32]{}),
	"snake/0/0":         reflect.TypeOf(tlb.SnakeData{}),
	"chunked/32/0":      reflect.TypeOf(tlb.ChunkedData{}),
	"vmstack/0/0":       reflect.TypeOf(tlb.VmStack{}),
}

// typeByName resolves the printed name of one of the generic instantiations above.
func typeByName(name string) (reflect.Type, bool) {
	for _, t := range bigTypes {
		if strings.ReplaceAll(t.String(), "github.com/tonkeeper/tongo/", "") == name {
			return t, true
		}
	}
	return nil, false
}

// smallDecodeOnly: small valid encodings, laid out by the driver from the TL-B definitions, of the types the library
// can decode but not encode (BinTree, non-empty HashmapAug(E), ChunkedData): seeds for the mutation classes, since
// nothing can be recorded from an encoder that does not exist.
func smallDecodeOnly(seed int64) []bigRecipe {
	var out []bigRecipe
	for i, n := range []int{1, 2, 3, 5} {
		out = append(out,
			bigRecipe{Kind: "bintree", Val: 32, N: n, Seed: seed + int64(i)},
			bigRecipe{Kind: "hashmapauge", Key: 32, Val: 32, N: n, Seed: seed + int64(i)},
			bigRecipe{Kind: "chunked", Key: 32, N: n, Seed: seed + int64(i)})
	}
	return out
}

func (r bigRecipe) typeKey() string { return fmt.Sprintf("%s/%d/%d", r.Kind, r.Key, r.Val) }
func (r bigRecipe) typeName() string {
	t := bigTypes[r.typeKey()]
	return strings.ReplaceAll(t.String(), "github.com/tonkeeper/tongo/", "")
}

func bitsOf(v uint64, w int) string {
	if w == 0 {
		return ""
	}
	return fmt.Sprintf("%0*b", w, v)
}

func bitLen(n int) int {
	l := 0
	for ; n > 0; n >>= 1 {
		l++
	}
	return l
}

// hashmapTree lays out  Hashmap n X  for the sorted, distinct n-bit keys ks[lo:hi] from bit position pos:
//
//	hm_edge#_ label:(HmLabel ~l n) {n = (~m) + l} node:(HashmapNode m X)
//	hml_long$10 {m:#} n:(#<= m) s:(n * Bit)
//	hmn_leaf#_ value:X          hmn_fork#_ left:^(Hashmap n X) right:^(Hashmap n X)
//
// aug != nil adds the extra of HashmapAug (ahmn_leaf extra:Y value:X / ahmn_fork left right extra:Y).
func hashmapTree(ks []string, lo, hi, pos int, val func(i int) string, aug func() string) *node {
	return hashmapTreeR(ks, lo, hi, pos, func(i int) (string, []*node) { return val(i), nil }, aug)
}

func hashmapTreeR(ks []string, lo, hi, pos int, val func(i int) (string, []*node), aug func() string) *node {
	n := len(ks[lo])
	m := n - pos
	l := 0
	for pos+l < n && ks[lo][pos+l] == ks[hi-1][pos+l] { // sorted: first and last share the common prefix of all
		l++
	}
	c := &node{bits: "10" + bitsOf(uint64(l), bitLen(m)) + ks[lo][pos:pos+l]}
	if pos+l == n {
		if aug != nil {
			c.bits += aug()
		}
		vb, vr := val(lo)
		c.bits += vb
		c.refs = vr
		return c
	}
	mid := lo + sort.Search(hi-lo, func(i int) bool { return ks[lo+i][pos+l] == '1' })
	c.refs = []*node{hashmapTreeR(ks, lo, mid, pos+l+1, val, aug), hashmapTreeR(ks, mid, hi, pos+l+1, val, aug)}
	if aug != nil {
		c.bits += aug()
	}
	return c
}

func (r bigRecipe) build() (*node, error) {
	rng := rand.New(rand.NewSource(r.Seed*6364136223846793005 + int64(r.N)))
	var root *node
	switch r.Kind {
	case "hashmape", "hashmap", "hashmapauge":
		seen := map[string]bool{}
		ks := make([]string, 0, r.N)
		for len(ks) < r.N {
			var k string
			if r.Key <= 32 && r.Seed%2 == 0 {
				k = bitsOf(uint64(len(ks))*7+uint64(r.Seed), r.Key) // dense, ascending
			} else {
				k = randBitsUniform(rng, r.Key)
			}
			if !seen[k] {
				seen[k] = true
				ks = append(ks, k)
			}
		}
		sort.Strings(ks)
		val := func(i int) string { return randBitsUniform(rng, r.Val) }
		var aug func() string
		if r.Kind == "hashmapauge" {
			aug = func() string { return bitsOf(uint64(rng.Uint32()), 32) }
		}
		t := hashmapTree(ks, 0, len(ks), 0, val, aug)
		switch r.Kind {
		case "hashmap":
			root = t
		case "hashmape":
			root = &node{bits: "1", refs: []*node{t}}
		default:
			root = &node{bits: "1" + aug(), refs: []*node{t}}
		}
	case "chunked": // chunked_data#_ data:(HashMapE 32 ^(SnakeData ~0)): N chunks of 1..3 cells
		ks := make([]string, r.N)
		for i := range ks {
			ks[i] = bitsOf(uint64(i), 32)
		}
		t := hashmapTreeR(ks, 0, len(ks), 0, func(i int) (string, []*node) {
			var cur *node
			for k := 1 + rng.Intn(3); k > 0; k-- {
				c := &node{bits: randBitsUniform(rng, 8*(1+rng.Intn(100)))}
				if cur != nil {
					c.refs = []*node{cur}
				}
				cur = c
			}
			return "", []*node{cur}
		}, nil)
		root = &node{bits: "1", refs: []*node{t}}
	case "bintree": // bt_leaf$0 leaf:X / bt_fork$1 left:^ right:^ ; N leaves (a power of two)
		var mk func(n int) *node
		mk = func(n int) *node {
			if n <= 1 {
				return &node{bits: "0" + randBitsUniform(rng, r.Val)}
			}
			return &node{bits: "1", refs: []*node{mk(n / 2), mk(n - n/2)}}
		}
		root = mk(r.N)
	case "snake": // N cells of 1016 bits, each referencing the next
		var cur *node
		for i := 0; i < r.N; i++ {
			c := &node{bits: randBitsUniform(rng, 1016)}
			if cur != nil {
				c.refs = []*node{cur}
			}
			cur = c
		}
		root = cur
	case "vmstack": // through the library's encoder, once
		st := make(tlb.VmStack, r.N)
		for i := range st {
			st[i] = tlb.VmStackValue{SumType: "VmStkTinyInt", VmStkTinyInt: int64(rng.Intn(1 << 30))}
		}
		c := boc.NewCell()
		if err := tlb.Marshal(c, st); err != nil {
			return nil, err
		}
		root = fromCell(c, map[*boc.Cell]*node{})
	default:
		return nil, fmt.Errorf("unknown recipe %q", r.Kind)
	}
	switch r.Mut {
	case "":
	case "bitflip_leaf", "trunc_leaf", "ref_removed_deep":
		// one change far from the root: the decoder has done most of its work when it meets it
		all := root.all()
		n := all[len(all)-1-rng.Intn(len(all)/4+1)]
		switch {
		case r.Mut == "bitflip_leaf" && len(n.bits) > 0:
			b := []byte(n.bits)
			b[rng.Intn(len(b))] ^= 1
			n.bits = string(b)
		case r.Mut == "trunc_leaf" && len(n.bits) > 0:
			n.bits = n.bits[:rng.Intn(len(n.bits))]
		default:
			for _, x := range all {
				if len(x.refs) > 0 && rng.Intn(len(all)/8+1) == 0 {
					x.refs = x.refs[:len(x.refs)-1]
					break
				}
			}
		}
	default:
		return nil, fmt.Errorf("unknown mutation %q", r.Mut)
	}
	return root, nil
}

func randBitsUniform(rng *rand.Rand, n int) string {
	b := make([]byte, n)
	for i := range b {
		b[i] = '0' + byte(rng.Intn(2))
	}
	return string(b)
}

// entries counts what the decoder returned (for the vacuity guard of the runner: a valid large input must be decoded
// in full, otherwise its timing says nothing).
func entries(v reflect.Value) int {
	for _, name := range []string{"Keys"} {
		if m := v.Addr().MethodByName(name); m.IsValid() && m.Type().NumIn() == 0 {
			return m.Call(nil)[0].Len()
		}
	}
	switch x := v.Interface().(type) {
	case tlb.VmStack:
		return len(x)
	case tlb.SnakeData:
		bs := boc.BitString(x)
		return bs.BitsAvailableForRead() / 1016
	}
	if f := v.FieldByName("Values"); f.IsValid() && f.Kind() == reflect.Slice {
		return f.Len()
	}
	return -1
}

func execBig(r *Rec, rc bigRecipe, useDecoder bool) error {
	t, ok := bigTypes[rc.typeKey()]
	if !ok {
		return fmt.Errorf("no type for recipe %v", rc)
	}
	if r.Skipped() {
		r.SkipSlot()
		return nil
	}
	root, err := rc.build()
	if err != nil {
		return err
	}
	c, err := build(root, map[*node]*boc.Cell{})
	if err != nil {
		return err
	}
	cells, bits, capped := measure(c)
	class := "big_valid"
	if rc.Mut != "" {
		class = "big_" + rc.Mut
	}
	site := "tlb.Unmarshal"
	if useDecoder {
		site = "Decoder.Unmarshal"
	}
	in := ev.M{"type": rc.typeName(), "recipe": rc, "cells": cells, "bits": bits, "capped": capped, "val": false, "n": rc.N, "use": ""}
	var p reflect.Value
	r.CallPost("Decode", site, class, in, []string{"type", "cells", "bits", "capped", "val", "n", "use"}, func(out ev.M) error {
		p = reflect.New(t)
		if useDecoder {
			return tlb.NewDecoder().Unmarshal(c, p.Interface())
		}
		return tlb.Unmarshal(c, p.Interface())
	}, func(out ev.M) {
		out["nres"] = entries(p.Elem())
	})
	return nil
}

// DriveBig: the large valid encodings (and, in the thorough tier, the same with one change far from the root).
func DriveBig(w *ev.Writer, o Opts) error {
	r := NewRec(w, o)
	var plan []bigRecipe
	s := o.Seed
	if !o.thorough() {
		plan = []bigRecipe{
			{Kind: "hashmape", Key: 32, Val: 32, N: 48000, Seed: s},
			{Kind: "hashmap", Key: 32, Val: 32, N: 32000, Seed: s + 1},
			{Kind: "hashmape", Key: 256, Val: 64, N: 24000, Seed: s},
			{Kind: "hashmapauge", Key: 32, Val: 32, N: 32000, Seed: s},
			{Kind: "bintree", Val: 32, N: 32768, Seed: s},
			{Kind: "snake", N: 1000, Seed: s},
			{Kind: "vmstack", N: 1000, Seed: s},
		}
	} else {
		for _, n := range []int{8000, 16000, 32000, 48000, 64000} {
			plan = append(plan,
				bigRecipe{Kind: "hashmape", Key: 32, Val: 32, N: n, Seed: s},
				bigRecipe{Kind: "hashmape", Key: 32, Val: 32, N: n, Seed: s + 1},
				bigRecipe{Kind: "hashmap", Key: 32, Val: 32, N: n, Seed: s},
				bigRecipe{Kind: "hashmape", Key: 256, Val: 64, N: n, Seed: s},
				bigRecipe{Kind: "hashmape", Key: 64, Val: 256, N: n, Seed: s + 1},
				bigRecipe{Kind: "hashmapauge", Key: 32, Val: 32, N: n, Seed: s})
		}
		for _, mut := range []string{"bitflip_leaf", "trunc_leaf", "ref_removed_deep"} {
			plan = append(plan,
				bigRecipe{Kind: "hashmape", Key: 32, Val: 32, N: 48000, Seed: s, Mut: mut},
				bigRecipe{Kind: "hashmapauge", Key: 32, Val: 32, N: 32000, Seed: s, Mut: mut},
				bigRecipe{Kind: "bintree", Val: 32, N: 32768, Seed: s, Mut: mut},
				bigRecipe{Kind: "snake", N: 1000, Seed: s, Mut: mut})
		}
		plan = append(plan,
			bigRecipe{Kind: "bintree", Val: 32, N: 32768, Seed: s}, bigRecipe{Kind: "bintree", Val: 32, N: 65536, Seed: s + 1},
			bigRecipe{Kind: "snake", N: 1000, Seed: s}, bigRecipe{Kind: "snake", N: 1023, Seed: s + 1},
			bigRecipe{Kind: "vmstack", N: 1000, Seed: s}, bigRecipe{Kind: "vmstack", N: 1020, Seed: s + 1})
	}
	for i, rc := range plan {
		if err := execBig(r, rc, i%2 == 1); err != nil {
			return err
		}
	}
	r.End()
	return nil
}
