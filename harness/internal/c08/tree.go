package c08

import (
	"fmt"
	"math/rand"
	"strings"

	"github.com/tonkeeper/tongo/boc"

	"verifharness/internal/ev"
)

// node is the driver's own mutable picture of a cell DAG (shared *node = shared cell).
type node struct {
	bits string
	x    int // cell type byte as the library reports it: 0 ordinary, 1 pruned branch, 2 library, 3/4 merkle, anything else
	refs []*node
}

func fromCell(c *boc.Cell, memo map[*boc.Cell]*node) *node {
	if n, ok := memo[c]; ok {
		return n
	}
	bs := c.RawBitString()
	n := &node{bits: bs.BinaryString(), x: int(c.CellType())}
	memo[c] = n
	for _, r := range c.Refs() {
		n.refs = append(n.refs, fromCell(r, memo))
	}
	return n
}

// build makes library cells from the picture; shared nodes become shared pointers.
func build(n *node, memo map[*node]*boc.Cell) (*boc.Cell, error) {
	if c, ok := memo[n]; ok {
		return c, nil
	}
	var c *boc.Cell
	if n.x == 0 {
		c = boc.NewCell()
	} else {
		c = boc.NewCellExotic(boc.CellType(n.x))
	}
	for _, ch := range n.bits {
		if err := c.WriteBit(ch == '1'); err != nil {
			return nil, err
		}
	}
	for _, r := range n.refs {
		k, err := build(r, memo)
		if err != nil {
			return nil, err
		}
		if err := c.AddRef(k); err != nil {
			return nil, err
		}
	}
	memo[n] = c
	return c, nil
}

// all nodes of the DAG, each once, parents before children (pre-order of first visits)
func (n *node) all() []*node {
	var out []*node
	seen := map[*node]bool{}
	var walk func(x *node)
	walk = func(x *node) {
		if seen[x] {
			return
		}
		seen[x] = true
		out = append(out, x)
		for _, r := range x.refs {
			walk(r)
		}
	}
	walk(n)
	return out
}

// clone copies the DAG (sharing preserved) and returns the copy of the root together with the copies in all() order.
func (n *node) clone() (*node, []*node) {
	m := map[*node]*node{}
	var cp func(x *node) *node
	cp = func(x *node) *node {
		if y, ok := m[x]; ok {
			return y
		}
		y := &node{bits: x.bits, x: x.x}
		m[x] = y
		for _, r := range x.refs {
			y.refs = append(y.refs, cp(r))
		}
		return y
	}
	root := cp(n)
	return root, root.all()
}

// table is the flat, de-duplicated (by pointer) form of DESIGN.md A.3: parents before children.
func (n *node) table() ev.M {
	// reverse post-order of a depth-first walk: every cell comes before the cells it references
	var post []*node
	seen := map[*node]bool{}
	var walk func(x *node)
	walk = func(x *node) {
		if seen[x] {
			return
		}
		seen[x] = true
		for _, r := range x.refs {
			walk(r)
		}
		post = append(post, x)
	}
	walk(n)
	order := make([]*node, len(post))
	for i, x := range post {
		order[len(post)-1-i] = x
	}
	idx := map[*node]int{}
	for i, x := range order {
		idx[x] = i
	}
	cells := make([]ev.M, len(order))
	for i, x := range order {
		r := make([]int, len(x.refs))
		for j, k := range x.refs {
			r[j] = idx[k]
		}
		cells[i] = ev.M{"b": x.bits, "x": x.x, "r": r}
	}
	return ev.M{"cells": cells, "roots": []int{0}}
}

// nodeOfTable is the inverse of table (used by replays).
func nodeOfTable(t map[string]any) (*node, error) {
	cs, _ := t["cells"].([]any)
	if len(cs) == 0 {
		return nil, fmt.Errorf("empty table")
	}
	ns := make([]*node, len(cs))
	for i := range cs {
		ns[i] = &node{}
	}
	for i, c := range cs {
		m, _ := c.(map[string]any)
		ns[i].bits, _ = m["b"].(string)
		x, _ := m["x"].(float64)
		ns[i].x = int(x)
		rs, _ := m["r"].([]any)
		for _, r := range rs {
			k := int(r.(float64))
			if k <= i || k >= len(ns) {
				return nil, fmt.Errorf("table is not topological")
			}
			ns[i].refs = append(ns[i].refs, ns[k])
		}
	}
	return ns[0], nil
}

// nested JSON tree of a cell (what spec/TlbSem.tla calls a tree), with a node budget.
func treeJSON(c *boc.Cell, budget *int) ev.M {
	*budget--
	bs := c.RawBitString()
	refs := []ev.M{}
	if *budget > 0 {
		for _, r := range c.Refs() {
			refs = append(refs, treeJSON(r, budget))
		}
	}
	return ev.M{"b": bs.BinaryString(), "x": int(c.CellType()), "r": refs}
}

// measure walks the tree the cells unfold to, up to limit cells: number of cells and bits of the unfolding.
const MeasureCap = 1 << 21

func measure(c *boc.Cell) (cells, bits int, capped bool) {
	var walk func(c *boc.Cell)
	walk = func(c *boc.Cell) {
		if cells >= MeasureCap {
			capped = true
			return
		}
		cells++
		bits += c.BitSize()
		for _, r := range c.Refs() {
			walk(r)
		}
	}
	walk(c)
	return
}

var bitLens = []int{0, 1, 2, 7, 8, 9, 31, 32, 33, 64, 100, 256, 267, 280, 512, 1023}

func randBits(rng *rand.Rand, n int) string {
	var sb strings.Builder
	mode := rng.Intn(5)
	for i := 0; i < n; i++ {
		b := false
		switch mode {
		case 0, 1:
			b = rng.Intn(2) == 1
		case 2:
			b = true
		case 3:
			b = false
		case 4:
			b = rng.Intn(8) == 0
		}
		if b {
			sb.WriteByte('1')
		} else {
			sb.WriteByte('0')
		}
	}
	return sb.String()
}

func byteBits(bs ...byte) string {
	var sb strings.Builder
	for _, b := range bs {
		fmt.Fprintf(&sb, "%08b", b)
	}
	return sb.String()
}

// exotic leaf cells an adversary can put anywhere: well-formed and malformed pruned branches, library cells,
// cells flagged exotic with an unknown type byte or with no room for what their type promises.
func exoticLeaf(rng *rand.Rand, which int) (*node, string) {
	switch which % 8 {
	case 0: // pruned branch, level 1: 01 01 hash depth
		return &node{bits: byteBits(1, 1) + randBits(rng, 256) + byteBits(0, byte(rng.Intn(4))), x: 1}, "pruned"
	case 1: // pruned branch with mask 7: three hashes, three depths
		return &node{bits: byteBits(1, 7) + randBits(rng, 3*256+3*16), x: 1}, "pruned"
	case 2: // pruned branch too short for its mask
		return &node{bits: byteBits(1, 3) + randBits(rng, []int{0, 8, 100, 256}[rng.Intn(4)]), x: 1}, "pruned_short"
	case 3: // pruned branch of one byte
		return &node{bits: byteBits(1), x: 1}, "pruned_short"
	case 4: // library cell
		return &node{bits: byteBits(2) + randBits(rng, 256), x: 2}, "library"
	case 5: // library cell without its hash
		return &node{bits: byteBits(2) + randBits(rng, []int{0, 8, 255}[rng.Intn(3)]), x: 2}, "library_short"
	case 6: // merkle proof header without the child it promises
		return &node{bits: byteBits(3) + randBits(rng, 256+16), x: 3}, "exotic_other"
	default: // unknown exotic type
		t := []int{0xff, 5, 0x80, 4}[rng.Intn(4)]
		return &node{bits: byteBits(byte(t)) + randBits(rng, bitLens[rng.Intn(len(bitLens)-1)]), x: t}, "exotic_other"
	}
}

// randTree: a random tree of ordinary cells with the occasional exotic leaf.
func randTree(rng *rand.Rand, depth int, exotic bool) *node {
	if exotic && rng.Intn(6) == 0 {
		n, _ := exoticLeaf(rng, rng.Intn(8))
		return n
	}
	n := &node{bits: randBits(rng, bitLens[rng.Intn(len(bitLens))])}
	if depth > 0 {
		k := []int{0, 1, 1, 2, 3, 4}[rng.Intn(6)]
		for i := 0; i < k; i++ {
			n.refs = append(n.refs, randTree(rng, depth-1, exotic))
		}
	}
	return n
}

// bomb: a DAG of `levels` cells in which every cell references the next one `fan` times; it unfolds to
// (fan^(levels)-1)/(fan-1) cells. shape selects the bits of the inner cells.
func bomb(rng *rand.Rand, fan, levels int, shape string) *node {
	inner := func() string {
		switch shape {
		case "hashmap": // hml_short$0 with an empty label: 0 then unary zero
			return "00"
		case "ones":
			return strings.Repeat("1", 40)
		case "zero":
			return ""
		}
		return randBits(rng, 16)
	}
	cur := &node{bits: randBits(rng, 64)}
	for l := 1; l < levels; l++ {
		p := &node{bits: inner()}
		for i := 0; i < fan; i++ {
			p.refs = append(p.refs, cur)
		}
		cur = p
	}
	return cur
}

// mutations of a valid encoding: exactly one change; the class names the change.
var mutClasses = []string{"bitflip", "trunc_root", "trunc_cell", "ref_removed", "ref_duplicated", "exotic", "extend", "graft_bomb"}

func mutate(rng *rand.Rand, root *node, class string) (*node, string) {
	r, all := root.clone()
	pick := func() *node { return all[rng.Intn(len(all))] }
	switch class {
	case "bitflip":
		var cands []*node
		for _, n := range all {
			if len(n.bits) > 0 {
				cands = append(cands, n)
			}
		}
		if len(cands) == 0 {
			r.bits = "1"
			return r, "bitflip"
		}
		n := cands[rng.Intn(len(cands))]
		// early bits (tags, presence bits, length fields) matter most
		p := rng.Intn(len(n.bits))
		if rng.Intn(2) == 0 && len(n.bits) > 12 {
			p = rng.Intn(12)
		}
		b := []byte(n.bits)
		b[p] ^= 1
		n.bits = string(b)
		return r, "bitflip"
	case "trunc_root":
		if len(r.bits) == 0 {
			return mutate(rng, root, "ref_removed")
		}
		r.bits = r.bits[:rng.Intn(len(r.bits))]
		return r, "trunc_root"
	case "trunc_cell":
		n := pick()
		if len(n.bits) == 0 {
			return mutate(rng, root, "trunc_root")
		}
		n.bits = n.bits[:rng.Intn(len(n.bits))]
		return r, "trunc_cell"
	case "ref_removed":
		var cands []*node
		for _, n := range all {
			if len(n.refs) > 0 {
				cands = append(cands, n)
			}
		}
		if len(cands) == 0 {
			return mutate(rng, root, "bitflip")
		}
		n := cands[rng.Intn(len(cands))]
		j := rng.Intn(len(n.refs))
		n.refs = append(append([]*node{}, n.refs[:j]...), n.refs[j+1:]...)
		return r, "ref_removed"
	case "ref_duplicated":
		var cands []*node
		for _, n := range all {
			if len(n.refs) > 0 && len(n.refs) < 4 {
				cands = append(cands, n)
			}
		}
		if len(cands) == 0 {
			return mutate(rng, root, "bitflip")
		}
		n := cands[rng.Intn(len(cands))]
		n.refs = append(n.refs, n.refs[rng.Intn(len(n.refs))])
		return r, "ref_duplicated"
	case "exotic":
		// one cell (not the root unless it is alone) replaced by an exotic leaf, or flagged exotic in place
		n := r
		if len(all) > 1 {
			n = all[1+rng.Intn(len(all)-1)]
		}
		if rng.Intn(5) == 0 {
			n.x = []int{1, 2, 3, 4, 0xff}[rng.Intn(5)]
			return r, "exotic_flag"
		}
		e, cls := exoticLeaf(rng, rng.Intn(8))
		*n = *e
		return r, cls
	case "extend":
		n := pick()
		if len(n.bits) < 1000 {
			n.bits += randBits(rng, 1+rng.Intn(16))
		}
		if len(n.refs) < 4 && rng.Intn(2) == 0 {
			n.refs = append(n.refs, randTree(rng, 1, false))
		}
		return r, "extend"
	case "graft_bomb":
		n := pick()
		b := bomb(rng, 4, 7, []string{"rand", "hashmap", "zero"}[rng.Intn(3)])
		if len(n.refs) > 0 {
			n.refs[rng.Intn(len(n.refs))] = b
		} else {
			n.refs = append(n.refs, b)
		}
		return r, "graft_bomb"
	}
	return r, "none"
}
