package c08

import (
	"crypto/sha256"
	"encoding/base64"
	"encoding/binary"
	"encoding/hex"
	"fmt"
	"sync"
	"time"

	"github.com/tonkeeper/tongo/config"
	"github.com/tonkeeper/tongo/liteapi"

	"verifharness/internal/adnlsrv"
	"verifharness/internal/tlval"
)

// liteSrv is a scripted lite server on the reference ADNL server: it answers every query whose function id has a
// scripted answer with those bytes (taken as they are: they may be truncated, mistagged, garbage), getMasterchainInfo
// with a fixed head, pings with pongs, and nothing else.
type liteSrv struct {
	srv  *adnlsrv.Server
	mu   sync.Mutex
	ans  map[uint32][]byte                   // function id -> boxed answer
	raw  map[uint32]func(id []byte) [][]byte // function id -> ADNL payloads to send (of the script's own making) before the answer
	head []byte                              // boxed liteServer.masterchainInfo
	seen map[uint32]int
}

const (
	mPing     = 0x4d082b9a
	mPong     = 0xdc69fb03
	mQuery    = 0xb48bf97a
	mAnswer   = 0x0fac8416
	mLsQuery  = 0x798c06df
	mWaitMc   = 0xbaeab892
	mLsError  = 0xbba9e148
	mMcInfo   = 0x85832881
	mBlockExt = 0x6752eb78
)

func le32(v uint32) []byte { b := make([]byte, 4); binary.LittleEndian.PutUint32(b, v); return b }

// tlBytes writes a TL byte string (the harness's own framing of scripted answers; never used to judge anything).
func tlBytes(d []byte) []byte {
	var out []byte
	if len(d) < 254 {
		out = append(out, byte(len(d)))
	} else {
		out = append(out, 254, byte(len(d)), byte(len(d)>>8), byte(len(d)>>16))
	}
	out = append(out, d...)
	for len(out)%4 != 0 {
		out = append(out, 0)
	}
	return out
}

// readTlBytes reads a TL byte string at the start of b.
func readTlBytes(b []byte) (data, rest []byte, ok bool) {
	if len(b) == 0 {
		return nil, nil, false
	}
	n, h := int(b[0]), 1
	if b[0] == 254 {
		if len(b) < 4 {
			return nil, nil, false
		}
		n, h = int(b[1])|int(b[2])<<8|int(b[3])<<16, 4
	} else if b[0] == 255 {
		return nil, nil, false
	}
	tot := (h + n + 3) &^ 3
	if len(b) < tot {
		return nil, nil, false
	}
	return b[h : h+n], b[tot:], true
}

func blockIDExt(seqno uint32) []byte {
	b := le32(0xffffffff)                    // workchain -1
	b = append(b, 0, 0, 0, 0, 0, 0, 0, 0x80) // shard
	b = append(b, le32(seqno)...)            // seqno
	b = append(b, make([]byte, 64)...)       // root hash, file hash
	return b
}

func newLiteSrv() (*liteSrv, error) {
	seed := sha256.Sum256([]byte("c08 scripted lite server"))
	srv, err := adnlsrv.New(seed[:])
	if err != nil {
		return nil, err
	}
	srv.Timeout = time.Hour
	// liteServer.masterchainInfo last:tonNode.blockIdExt state_root_hash:int256 init:tonNode.zeroStateIdExt
	head := append(le32(mMcInfo), blockIDExt(100)...)
	head = append(head, make([]byte, 32)...)
	head = append(head, le32(0xffffffff)...)
	head = append(head, make([]byte, 64)...)
	s := &liteSrv{srv: srv, ans: map[uint32][]byte{}, raw: map[uint32]func(id []byte) [][]byte{}, head: head, seen: map[uint32]int{}}
	go srv.Serve(s.handle)
	return s, nil
}

func (s *liteSrv) handle(c *adnlsrv.Conn) {
	for {
		p, err := c.ReadPacket()
		if err != nil {
			return
		}
		if len(p) < 4 {
			continue
		}
		switch binary.LittleEndian.Uint32(p) {
		case mPing:
			if len(p) == 12 {
				c.SendPacket(append(le32(mPong), p[4:12]...))
			}
		case mQuery:
			if len(p) < 36 {
				continue
			}
			id := p[4:36]
			q, _, ok := readTlBytes(p[36:])
			if !ok || len(q) < 4 || binary.LittleEndian.Uint32(q) != mLsQuery {
				continue
			}
			data, _, ok := readTlBytes(q[4:])
			if !ok || len(data) < 4 {
				continue
			}
			waiting := false
			if binary.LittleEndian.Uint32(data) == mWaitMc && len(data) >= 16 {
				data = data[12:]
				waiting = true
			}
			fid := binary.LittleEndian.Uint32(data)
			s.mu.Lock()
			s.seen[fid]++
			ans, has := s.ans[fid]
			raw, hasRaw := s.raw[fid]
			s.mu.Unlock()
			switch {
			case waiting:
				// the pool's background wait for the next block: never answered (an immediate answer would make the
				// pool ask again at once, in a tight loop)
			case hasRaw:
				// frames of the script's own making, then the well-formed answer so that the caller returns
				for _, f := range raw(id) {
					c.SendPacket(f)
				}
				if has {
					c.SendPacket(append(append(le32(mAnswer), id...), tlBytes(ans)...))
				}
			case has:
				c.SendPacket(append(append(le32(mAnswer), id...), tlBytes(ans)...))
			case fid == 0x89b5e62e: // liteServer.getMasterchainInfo
				c.SendPacket(append(append(le32(mAnswer), id...), tlBytes(s.head)...))
			default:
				e := append(le32(mLsError), le32(404)...)
				e = append(e, tlBytes([]byte("not scripted"))...)
				c.SendPacket(append(append(le32(mAnswer), id...), tlBytes(e)...))
			}
		}
	}
}

func (s *liteSrv) script(fid uint32, boxed []byte) {
	s.mu.Lock()
	s.ans[fid] = boxed
	delete(s.raw, fid)
	s.mu.Unlock()
}

func (s *liteSrv) scriptRaw(fid uint32, frames func(id []byte) [][]byte, then []byte) {
	s.mu.Lock()
	s.raw[fid] = frames
	if then != nil {
		s.ans[fid] = then
	} else {
		delete(s.ans, fid)
	}
	s.mu.Unlock()
}

func (s *liteSrv) client(timeout time.Duration) (*liteapi.Client, error) {
	ls := config.LiteServer{Host: s.srv.Addr(), Key: base64.StdEncoding.EncodeToString(s.srv.PublicKey())}
	cl, err := liteapi.NewClient(liteapi.WithLiteServers([]config.LiteServer{ls}), liteapi.WithTimeout(timeout), liteapi.WithMaxConnectionsNumber(1))
	if err != nil {
		return nil, err
	}
	return cl, nil
}

func fnID(s *tlval.TvSchema, name string) (uint32, error) {
	d := s.Fn(name)
	if d == nil {
		return 0, fmt.Errorf("no function %s in the schema", name)
	}
	b, err := hex.DecodeString(d.ID)
	if err != nil || len(b) != 4 {
		return 0, fmt.Errorf("bad id of %s", name)
	}
	return binary.BigEndian.Uint32(b), nil
}

func ctorID(s *tlval.TvSchema, name string) (uint32, error) {
	d := s.Ctor(name)
	if d == nil {
		return 0, fmt.Errorf("no constructor %s in the schema", name)
	}
	b, err := hex.DecodeString(d.ID)
	if err != nil || len(b) != 4 {
		return 0, fmt.Errorf("bad id of %s", name)
	}
	return binary.BigEndian.Uint32(b), nil
}
