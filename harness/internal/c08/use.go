package c08

import (
	"fmt"
	"math/big"
	"reflect"
	"strings"

	"github.com/tonkeeper/tongo/boc"
	"github.com/tonkeeper/tongo/tlb"
	"github.com/tonkeeper/tongo/ton"
)

// "A value or an error, never a panic" includes the value being usable: what a decoder RETURNS is handed to the
// accessors a caller uses next. useValue walks the returned value (bounded) and, on every part of it that belongs to
// the library, calls every exported method without parameters (Cell(), Keys(), Values(), Items(), IsSuccess(), ...),
// plus the few accessors that take a destination (VmCellSlice.UnmarshalToTlbStruct, VmStackValue.Unmarshal,
// VmStkTuple.Unmarshal / RecursiveToSlice, ton.AccountIDFromTlb for addresses). Errors are fine; the first panic is
// returned as "panic: <type>.<method>: <message>".
type user struct {
	budget int
	seen   map[uintptr]bool
	first  string
}

var (
	tAnyPtr   = reflect.TypeOf((*any)(nil)).Elem()
	libPrefix = "github.com/tonkeeper/tongo/"
)

func isLib(t reflect.Type) bool { return strings.HasPrefix(t.PkgPath(), libPrefix) }

func (u *user) call(name string, f func()) {
	if u.first != "" {
		return
	}
	defer func() {
		if p := recover(); p != nil {
			u.first = fmt.Sprintf("panic: %s: %v", name, p)
		}
	}()
	f()
}

// the deprecated accessors of VmStackValue panic by contract on another variant: a caller tests the variant first
func (u *user) stackValue(x tlb.VmStackValue) {
	switch {
	case x.IsCell():
		u.call("tlb.VmStackValue.Cell", func() { _ = x.Cell() })
	case x.IsCellSlice():
		u.call("tlb.VmStackValue.CellSlice", func() { _ = x.CellSlice() })
	case x.IsInt():
		u.call("tlb.VmStackValue.Int257", func() { _ = x.Int257(); _ = x.Int64(); _ = x.Uint64() })
	}
	_, _ = x.IsNull(), x.IsTuple()
}

// destType: the Go type a caller reads a stack entry of this variant into
func destType(x tlb.VmStackValue) reflect.Type {
	switch x.SumType {
	case "VmStkTinyInt":
		return reflect.TypeOf(int64(0))
	case "VmStkInt":
		return reflect.TypeOf(tlb.Int257{})
	case "VmStkTuple":
		return reflect.TypeOf([]tlb.VmStackValue{})
	case "VmStkNull":
		return reflect.TypeOf((*int64)(nil))
	}
	return reflect.TypeOf(tlb.Any{})
}

func (u *user) methods(v reflect.Value) {
	t := v.Type()
	if t == reflect.TypeOf(tlb.VmStackValue{}) || t == reflect.TypeOf(&tlb.VmStackValue{}) {
		return // see stackValue
	}
	if !isLib(t) && !(t.Kind() == reflect.Pointer && isLib(t.Elem())) {
		return
	}
	for i := 0; i < t.NumMethod() && u.first == ""; i++ {
		m := t.Method(i)
		name := m.Name
		if m.Type.NumIn() != 1 || strings.HasPrefix(name, "Must") || strings.HasPrefix(name, "Marshal") || strings.HasPrefix(name, "Print") || name == "Put" || name == "Reset" || name == "ResetCounters" {
			continue // parameters, or not an accessor (encoders are C03's business)
		}
		mv := v.Method(i)
		u.call(t.String()+"."+name, func() {
			out := mv.Call(nil)
			for _, o := range out { // what an accessor hands out is used as well (one level)
				if o.IsValid() && o.Kind() == reflect.Pointer && !o.IsNil() && o.Type() == reflect.TypeOf(&boc.Cell{}) {
					c := o.Interface().(*boc.Cell)
					_ = c.BitsAvailableForRead()
					_, _ = c.Hash()
				}
			}
		})
	}
}

func (u *user) special(v reflect.Value) {
	switch x := v.Interface().(type) {
	case tlb.VmCellSlice:
		u.call("tlb.VmCellSlice.UnmarshalToTlbStruct", func() { var a tlb.Any; _ = x.UnmarshalToTlbStruct(&a) })
	case tlb.VmStackValue:
		u.stackValue(x)
		u.call("tlb.VmStackValue.Unmarshal", func() { _ = x.Unmarshal(reflect.New(destType(x)).Interface()) })
		if x.SumType == "VmStkInt" || x.SumType == "VmStkTinyInt" {
			// an integer entry into every destination the reader supports
			for _, d := range []any{new(tlb.Bits256), new(tlb.Int257), new(uint64), new(int64), new(uint32), new(int8), new(bool), new(big.Int),
				new(*int64), new(*tlb.Bits256), new(*tlb.Int257), new(*bool), new(tlb.Uint256), new(tlb.Int256)} {
				d := d
				u.call("tlb.VmStackValue.Unmarshal("+reflect.TypeOf(d).Elem().String()+")", func() { _ = x.Unmarshal(d) })
			}
		}
	case tlb.VmStkTuple:
		u.call("tlb.VmStkTuple.Unmarshal", func() { var s []tlb.VmStackValue; _ = x.Unmarshal(&s) })
		u.call("tlb.VmStkTuple.RecursiveToSlice", func() { _, _ = x.RecursiveToSlice() })
	case tlb.VmStack:
		u.call("tlb.VmStack.Unmarshal", func() {
			// a destination struct as a caller writes it for a get-method: one field per entry, typed after the entry
			var fs []reflect.StructField
			for i := 0; i < len(x) && i < 8; i++ {
				fs = append(fs, reflect.StructField{Name: fmt.Sprintf("F%d", i), Type: destType(x[i])})
			}
			_ = x.Unmarshal(reflect.New(reflect.StructOf(fs)).Interface())
		})
	case tlb.MsgAddress:
		u.call("ton.AccountIDFromTlb", func() { _, _ = ton.AccountIDFromTlb(x) })
	}
}

func (u *user) walk(v reflect.Value, depth int) {
	if u.first != "" || depth > 7 || !v.IsValid() {
		return
	}
	u.budget--
	if u.budget < 0 {
		return
	}
	switch v.Kind() {
	case reflect.Pointer, reflect.Interface:
		if v.IsNil() {
			return
		}
		if v.Kind() == reflect.Pointer {
			if u.seen[v.Pointer()] {
				return
			}
			u.seen[v.Pointer()] = true
		}
		u.walk(v.Elem(), depth+1)
		return
	}
	if v.Type() == reflect.TypeOf(boc.Cell{}) || v.Type() == reflect.TypeOf(boc.BitString{}) {
		return // the cell and bit-string primitives are C06's subject; reading from them here would move cursors
	}
	if v.Kind() == reflect.Struct {
		// a sum type without a constructor is the library's "nothing was decoded here" (a pruned branch was in the way):
		// not a value of the type; nothing is asked of it or below it (as in Decode!PrefixOf)
		if f := v.FieldByName("SumType"); f.IsValid() && f.Kind() == reflect.String && f.String() == "" {
			return
		}
	}
	// the parts first, then the whole: the innermost accessor that cannot cope is the one named
	switch v.Kind() {
	case reflect.Struct:
		if f := v.FieldByName("SumType"); f.IsValid() && f.Kind() == reflect.String {
			// a sum type: only the constructor that was decoded carries a value
			if sel := v.FieldByName(f.String()); sel.IsValid() {
				u.walk(sel, depth+1)
			}
		} else {
			for i := 0; i < v.NumField(); i++ {
				if v.Type().Field(i).IsExported() {
					u.walk(v.Field(i), depth+1)
				}
			}
		}
	case reflect.Slice, reflect.Array:
		if v.Type().Elem().Kind() != reflect.Uint8 {
			for i := 0; i < v.Len() && i < 4; i++ {
				u.walk(v.Index(i), depth+1)
			}
		}
	}
	if v.CanInterface() {
		if v.CanAddr() {
			u.methods(v.Addr()) // the pointer's method set includes the value's
		} else {
			u.methods(v)
		}
		u.special(v)
	}
}

// useValue returns "" or the first panic met while using the value p points to.
func useValue(p reflect.Value) string {
	u := &user{budget: 300, seen: map[uintptr]bool{}}
	u.walk(p, 0)
	return u.first
}
