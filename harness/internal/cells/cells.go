// Package cells holds helpers shared by the cell/BoC drivers: projecting a *boc.Cell DAG to the
// flat cell table of DESIGN.md A.3 using the public API only, building random DAGs, and
// building cells from tables.
package cells

import (
	"fmt"
	"math/rand"
	"strings"

	"github.com/tonkeeper/tongo/boc"
)

// C is one row of a cell table. Refs are indices into the table; children come after parents.
type C struct {
	B string `json:"b"`
	X int    `json:"x"`
	R []int  `json:"r"`
	// L is the level the API reports (Cell.Level()); the mask itself is not observable.
	L int `json:"l"`
}

type Table struct {
	Cells  []C   `json:"cells"`
	Roots  []int `json:"roots"`
	Cyclic bool  `json:"cyclic,omitempty"`
	// Ptr[i] is the cell row i was made from (first occurrence).
	Ptr []*boc.Cell `json:"-"`
}

// Project walks the DAG under roots with the harness's own structural key (bits, type, child
// keys) — never Cell.Hash — and returns the de-duplicated table in a topological order
// (parents before children). A cycle (possible only in malformed parses) sets Cyclic and stops.
func Project(roots []*boc.Cell) *Table {
	t := &Table{}
	keyOf := map[*boc.Cell]int{} // pointer -> structural class id
	classes := map[string]int{}  // structural key -> class id
	onStack := map[*boc.Cell]bool{}
	type row struct {
		c    *boc.Cell
		kids []int // class ids
	}
	var rows []row
	var visit func(c *boc.Cell) int
	visit = func(c *boc.Cell) int {
		if id, ok := keyOf[c]; ok {
			return id
		}
		if onStack[c] {
			t.Cyclic = true
			return -1
		}
		onStack[c] = true
		refs := c.Refs()
		kids := make([]int, len(refs))
		var sb strings.Builder
		bs := c.RawBitString()
		fmt.Fprintf(&sb, "%d|%s|", c.CellType(), bs.BinaryString())
		for i, r := range refs {
			kids[i] = visit(r)
			if t.Cyclic {
				return -1
			}
			fmt.Fprintf(&sb, "%d,", kids[i])
		}
		delete(onStack, c)
		k := sb.String()
		id, ok := classes[k]
		if !ok {
			id = len(rows)
			classes[k] = id
			rows = append(rows, row{c, kids})
		}
		keyOf[c] = id
		return id
	}
	rootIDs := make([]int, len(roots))
	for i, r := range roots {
		rootIDs[i] = visit(r)
		if t.Cyclic {
			return t
		}
	}
	// rows are in post-order (children first): reverse so that parents come first
	n := len(rows)
	pos := func(id int) int { return n - 1 - id }
	t.Cells = make([]C, n)
	t.Ptr = make([]*boc.Cell, n)
	for id, rw := range rows {
		bs := rw.c.RawBitString()
		c := C{B: bs.BinaryString(), X: int(rw.c.CellType()), L: rw.c.Level(), R: make([]int, len(rw.kids))}
		for j, k := range rw.kids {
			c.R[j] = pos(k)
		}
		t.Cells[pos(id)] = c
		t.Ptr[pos(id)] = rw.c
	}
	for _, id := range rootIDs {
		t.Roots = append(t.Roots, pos(id))
	}
	return t
}

// Build makes cells in memory from a table (ordinary rows, X = 0, and library cells, X = 2). Shared rows become shared
// pointers when share is true, otherwise every use gets its own copy (a tree).
func Build(t *Table, share bool) ([]*boc.Cell, error) {
	n := len(t.Cells)
	made := make([]*boc.Cell, n)
	var mk func(i int) (*boc.Cell, error)
	mk = func(i int) (*boc.Cell, error) {
		if share && made[i] != nil {
			return made[i], nil
		}
		if t.Cells[i].X != 0 && t.Cells[i].X != 2 {
			return nil, fmt.Errorf("row %d is exotic: cannot be built in memory", i)
		}
		c := boc.NewCell()
		if t.Cells[i].X == 2 { // a library cell (type byte + 32-byte hash, no references): the one exotic cell the public API can build
			c = boc.NewCellExotic(boc.LibraryCell)
		}
		for _, ch := range t.Cells[i].B {
			if err := c.WriteBit(ch == '1'); err != nil {
				return nil, err
			}
		}
		for _, r := range t.Cells[i].R {
			k, err := mk(r)
			if err != nil {
				return nil, err
			}
			if err := c.AddRef(k); err != nil {
				return nil, err
			}
		}
		made[i] = c
		return c, nil
	}
	var roots []*boc.Cell
	for _, r := range t.Roots {
		c, err := mk(r)
		if err != nil {
			return nil, err
		}
		roots = append(roots, c)
	}
	return roots, nil
}

var lens = []int{0, 1, 2, 7, 8, 9, 15, 16, 17, 31, 32, 33, 63, 64, 65, 255, 256, 257, 511, 512, 1016, 1022, 1023}

// RandBits returns a random bit string; lengths are drawn from boundary values and uniformly.
func RandBits(rng *rand.Rand, maxLen int) string {
	var n int
	if rng.Intn(3) == 0 {
		n = rng.Intn(maxLen + 1)
	} else {
		n = lens[rng.Intn(len(lens))]
		if n > maxLen {
			n = maxLen
		}
	}
	var sb strings.Builder
	mode := rng.Intn(4)
	for i := 0; i < n; i++ {
		var b bool
		switch mode {
		case 0:
			b = rng.Intn(2) == 1
		case 1:
			b = true
		case 2:
			b = false
		case 3:
			b = i%2 == 0
		}
		if b {
			sb.WriteByte('1')
		} else {
			sb.WriteByte('0')
		}
	}
	return sb.String()
}

// RandTable makes a random DAG of ordinary cells as a table: n rows, each row references up to 4 later rows
// (sharing arises naturally), plus duplicated rows (structurally equal cells stored twice in the table are
// allowed: Project/Build treat them as the same structure).
func RandTable(rng *rand.Rand, n int, maxBits int) *Table {
	t := &Table{Cells: make([]C, n), Roots: []int{0}}
	for i := n - 1; i >= 0; i-- {
		c := C{B: RandBits(rng, maxBits)}
		if i < n-1 {
			k := rng.Intn(5)
			if i == 0 && k == 0 {
				k = 1
			}
			for j := 0; j < k; j++ {
				// mostly reference the next rows so that the DAG is deep, sometimes far ones, sometimes the same child twice
				var r int
				switch rng.Intn(4) {
				case 0:
					r = i + 1
				case 1:
					r = i + 1 + rng.Intn(n-1-i)
				case 2:
					if len(c.R) > 0 {
						r = c.R[0]
					} else {
						r = i + 1
					}
				default:
					r = i + 1 + rng.Intn(min(4, n-1-i))
				}
				c.R = append(c.R, r)
			}
		}
		if c.R == nil {
			c.R = []int{}
		}
		t.Cells[i] = c
	}
	// make every row reachable: chain unreferenced rows under their predecessor when it has room, else drop by pointing root
	reach := make([]bool, n)
	var mark func(i int)
	mark = func(i int) {
		if reach[i] {
			return
		}
		reach[i] = true
		for _, r := range t.Cells[i].R {
			mark(r)
		}
	}
	mark(0)
	for i := 1; i < n; i++ {
		if !reach[i] {
			// attach to the closest reachable earlier row with a free slot
			for p := i - 1; p >= 0; p-- {
				if reach[p] && len(t.Cells[p].R) < 4 {
					t.Cells[p].R = append(t.Cells[p].R, i)
					mark(i)
					break
				}
			}
		}
	}
	// compact away rows that stayed unreachable
	idx := make([]int, n)
	var out []C
	for i := 0; i < n; i++ {
		if reach[i] {
			idx[i] = len(out)
			out = append(out, t.Cells[i])
		}
	}
	for i := range out {
		for j, r := range out[i].R {
			out[i].R[j] = idx[r]
		}
	}
	t.Cells = out
	return t
}

func min(a, b int) int {
	if a < b {
		return a
	}
	return b
}

// WideTable is a complete 4-ary tree of n distinct cells in heap layout (row i references 4i+1..4i+4): many cells, small depth.
func WideTable(n int) *Table {
	t := &Table{Cells: make([]C, n), Roots: []int{0}}
	for i := 0; i < n; i++ {
		c := C{B: fmt.Sprintf("%024b", i), R: []int{}}
		for j := 1; j <= 4; j++ {
			if k := 4*i + j; k < n {
				c.R = append(c.R, k)
			}
		}
		t.Cells[i] = c
	}
	return t
}

// RandBitsN: exactly n random bits.
func RandBitsN(rng *rand.Rand, n int) string {
	var sb strings.Builder
	for i := 0; i < n; i++ {
		sb.WriteByte("01"[rng.Intn(2)])
	}
	return sb.String()
}
