package c15

import (
	"crypto/ed25519"
	"encoding/hex"
	"fmt"
	"math/rand"
	"strconv"

	"github.com/tonkeeper/tongo/tlb"
	"github.com/tonkeeper/tongo/ton"
	"github.com/tonkeeper/tongo/wallet"

	"verifharness/internal/ev"
)

// Drive records the C->S events of C15.
//
//	part "codes": {"k":"Code","ver":..,"boc":hex,"hash":hex} for every supported version - the code cell the
//	              library attaches (GetCodeByVer), as a bag of cells, and the hash the library reports for it
//	part "addr" : {"k":"Addr",...} one event per (API, version, key, workchain, sub-wallet id, network id);
//	              {"k":"Unsupported",...} for versions without a wallet; {"k":"Seed",...} for mnemonics
func Drive(w *ev.Writer, o Opts) {
	switch o.Part {
	case "codes":
		driveCodes(w)
	default:
		driveAddr(w, o)
	}
	end(w)
}

func driveCodes(w *ev.Writer) {
	for _, v := range Supported {
		v := v
		var bocHex, hashHex, errText string
		if p := guard(func() {
			c := wallet.GetCodeByVer(v.V)
			b, err := c.ToBocCustom(false, false, false, 0)
			if err != nil {
				errText = err.Error()
				return
			}
			bocHex = hex.EncodeToString(b)
			h := wallet.GetCodeHashByVer(v.V)
			hashHex = hex.EncodeToString(h[:])
		}); p != "" {
			w.Emit(ev.M{"k": "Panic", "at": "GetCodeByVer", "ver": v.Name, "panic": p})
			continue
		}
		w.Emit(ev.M{"k": "Code", "ver": v.Name, "boc": bocHex, "hash": hashHex, "err": errText})
	}
}

type combo struct {
	ver   verName
	wcSet bool
	wc    int
	sub   *uint32
	net   *int32
}

func u32(v uint32) *uint32 { return &v }
func i32(v int32) *int32   { return &v }

func family(name string) string {
	switch name {
	case "V1R1", "V1R2", "V1R3", "V2R1", "V2R2":
		return "v1v2"
	case "V3R1", "V3R2":
		return "v3"
	case "V4R1", "V4R2":
		return "v4"
	case "V5Beta":
		return "v5beta"
	case "V5R1":
		return "v5r1"
	}
	return "hl2"
}

func combos(thorough bool) []combo {
	type wcv struct {
		set bool
		wc  int
	}
	wcs := []wcv{{false, 0}, {true, 0}, {true, -1}, {true, 1}, {true, -128}, {true, 127}}
	var out []combo
	for _, v := range Supported {
		f := family(v.Name)
		var subs []*uint32
		var nets []*int32
		switch f {
		case "v1v2":
			subs = []*uint32{nil, u32(1)}
		case "v5r1":
			subs = []*uint32{nil, u32(0), u32(1), u32(32767)}
			if thorough {
				subs = append(subs, u32(2), u32(255), u32(256), u32(16384))
			}
		default:
			subs = []*uint32{nil, u32(0), u32(1), u32(4294967295)}
			if thorough {
				subs = append(subs, u32(698983191), u32(698983190), u32(2147483648), u32(65536))
			}
		}
		if f == "v5beta" || f == "v5r1" {
			// mainnet, testnet, a small id; ids that need more than 16 / more than 24 bits, both signs; ids equal to
			// testnet / mainnet modulo 2^16 (65533, -65775), modulo 2^8 (253) and modulo 2^24 (16777213): the whole
			// 32-bit id goes into the wallet id, so all of them are different wallets
			nets = []*int32{nil, i32(-239), i32(-3), i32(1), i32(65533), i32(-65775), i32(253), i32(16777213),
				i32(2147483647), i32(-2147483647)}
			if thorough {
				nets = append(nets, i32(0), i32(42), i32(-1), i32(17), i32(65297), i32(-16777455), i32(32768), i32(-32769),
					i32(8388608), i32(-8388609))
			}
		} else {
			nets = []*int32{nil, i32(-3)}
		}
		for _, wc := range wcs {
			for _, s := range subs {
				for _, n := range nets {
					out = append(out, combo{v, wc.set, wc.wc, s, n})
				}
			}
		}
	}
	return out
}

func (c combo) opts() []wallet.Option {
	var o []wallet.Option
	if c.wcSet {
		o = append(o, wallet.WithWorkchain(c.wc))
	}
	if c.sub != nil {
		o = append(o, wallet.WithSubWalletID(*c.sub))
	}
	if c.net != nil {
		o = append(o, wallet.WithNetworkGlobalID(*c.net))
	}
	return o
}

func (c combo) base(api string, pub ed25519.PublicKey) ev.M {
	m := ev.M{"k": "Addr", "api": api, "ver": c.ver.Name, "pub": hex.EncodeToString(pub), "wc_set": c.wcSet, "wc": c.wc,
		"sub": "", "has_net": c.net != nil, "net": 0, "err": "", "awc": 0, "addr": "", "cells": []any{}, "roots": []int{}}
	if c.sub != nil {
		m["sub"] = strconv.FormatUint(uint64(*c.sub), 10)
	}
	if c.net != nil {
		m["net"] = int(*c.net)
	}
	return m
}

func putAddr(m ev.M, a ton.AccountID, err error) {
	m["err"] = ev.ErrClass(err)
	if err == nil {
		m["awc"] = int(a.Workchain)
		m["addr"] = hex.EncodeToString(a.Address[:])
	}
}

func putInit(m ev.M, si tlb.StateInit, wc int, err error) {
	m["err"] = ev.ErrClass(err)
	if err != nil {
		return
	}
	t, h, err := stateInitTable(si)
	if err != nil {
		m["err"] = "e"
		return
	}
	m["awc"] = wc
	m["addr"] = h
	m["cells"] = t.Cells
	m["roots"] = t.Roots
}

// emitGuarded runs one API call; a panic becomes a Panic event (no trace spec accepts it).
func emitGuarded(w *ev.Writer, m ev.M, f func()) {
	if p := guard(f); p != "" {
		w.Emit(ev.M{"k": "Panic", "at": m["api"], "ver": m["ver"], "in": m, "panic": p})
		return
	}
	w.Emit(m)
}

// emitAPI calls one address-yielding API for one parameter combination and records what it returned.
func emitAPI(w *ev.Writer, api string, c combo, priv ed25519.PrivateKey) {
	pub := priv.Public().(ed25519.PublicKey)
	wc := 0
	if c.wcSet {
		wc = c.wc
	}
	m := c.base(api, pub)
	m["seed"] = hex.EncodeToString(priv.Seed())
	switch api {
	case "New.GetAddress":
		emitGuarded(w, m, func() {
			wl, err := wallet.New(priv, c.ver.V, nil, c.opts()...)
			if err != nil {
				putAddr(m, ton.AccountID{}, err)
				return
			}
			putAddr(m, wl.GetAddress(), nil)
		})
	case "Wallet.StateInit":
		emitGuarded(w, m, func() {
			wl, err := wallet.New(priv, c.ver.V, nil, c.opts()...)
			if err != nil {
				putInit(m, tlb.StateInit{}, wc, err)
				return
			}
			si, err := wl.StateInit()
			if err != nil || si == nil {
				m["err"] = "e"
				return
			}
			putInit(m, *si, wc, nil)
		})
	case "GenerateWalletAddress":
		emitGuarded(w, m, func() {
			a, err := wallet.GenerateWalletAddress(pub, c.ver.V, c.net, c.wc, c.sub)
			putAddr(m, a, err)
		})
	case "GenerateStateInit":
		emitGuarded(w, m, func() {
			si, err := wallet.GenerateStateInit(pub, c.ver.V, c.net, c.wc, c.sub)
			putInit(m, si, c.wc, err)
		})
	}
}

// emitUnsupported: a version without a wallet implementation - the API has to refuse.
func emitUnsupported(w *ev.Writer, api string, v verName, priv ed25519.PrivateKey) {
	pub := priv.Public().(ed25519.PublicKey)
	m := ev.M{"k": "Unsupported", "api": api, "ver": v.Name, "vernum": int(v.V), "seed": hex.EncodeToString(priv.Seed()), "err": ""}
	emitGuarded(w, m, func() {
		var err error
		switch api {
		case "New":
			_, err = wallet.New(priv, v.V, nil)
		case "GenerateWalletAddress":
			_, err = wallet.GenerateWalletAddress(pub, v.V, nil, 0, nil)
		case "GenerateStateInit":
			_, err = wallet.GenerateStateInit(pub, v.V, nil, 0, nil)
		}
		m["err"] = ev.ErrClass(err)
	})
}

// emitSeed: DefaultWalletFromSeed against the key SeedToPrivateKey derives from the same mnemonic.
func emitSeed(w *ev.Writer, mn string) {
	m := ev.M{"k": "Seed", "api": "DefaultWalletFromSeed", "ver": "V4R2", "mnemonic": mn, "priv": "", "pub": "", "awc": 0, "addr": "", "err": ""}
	emitGuarded(w, m, func() {
		pk, err := wallet.SeedToPrivateKey(mn)
		if err != nil {
			m["err"] = "e"
			return
		}
		m["priv"] = hex.EncodeToString(pk.Seed())
		m["pub"] = hex.EncodeToString(pk.Public().(ed25519.PublicKey))
		wl, err := wallet.DefaultWalletFromSeed(mn, nil)
		if err != nil {
			m["err"] = "e"
			return
		}
		a := wl.GetAddress()
		m["awc"] = int(a.Workchain)
		m["addr"] = hex.EncodeToString(a.Address[:])
	})
}

var addrAPIs = []string{"New.GetAddress", "Wallet.StateInit", "GenerateWalletAddress", "GenerateStateInit"}

func driveAddr(w *ev.Writer, o Opts) {
	thorough := o.Tier == "thorough"
	rng := rand.New(rand.NewSource(o.Seed*7919 + 15))
	nkeys := 2
	if thorough {
		nkeys = 6
	}
	keys := make([]ed25519.PrivateKey, nkeys)
	for i := range keys {
		seed := make([]byte, ed25519.SeedSize)
		rng.Read(seed)
		keys[i] = ed25519.NewKeyFromSeed(seed)
	}
	idx := 0
	mine := func() bool { idx++; return o.Shards <= 1 || idx%o.Shards == o.Shard }
	for _, c := range combos(thorough) {
		for _, priv := range keys {
			if !mine() {
				continue
			}
			for _, api := range addrAPIs {
				// the two package-level functions take the workchain as a mandatory argument
				if !c.wcSet && (api == "GenerateWalletAddress" || api == "GenerateStateInit") {
					continue
				}
				emitAPI(w, api, c, priv)
			}
		}
	}
	for _, v := range Unsupported {
		if !mine() {
			continue
		}
		for _, api := range []string{"New", "GenerateWalletAddress", "GenerateStateInit"} {
			emitUnsupported(w, api, v, keys[0])
		}
	}
	nm := 2
	if thorough {
		nm = len(mnemonics)
	}
	for i := 0; i < nm; i++ {
		if !mine() {
			continue
		}
		emitSeed(w, mnemonics[(i+int(o.Seed))%len(mnemonics)])
	}
}

// ReplayEvent re-executes one recorded Addr / Unsupported / Seed event (from a replay file) against the current tree.
func ReplayEvent(w *ev.Writer, e map[string]any) error {
	str := func(k string) string { s, _ := e[k].(string); return s }
	num := func(k string) int { f, _ := e[k].(float64); return int(f) }
	switch str("k") {
	case "Seed":
		emitSeed(w, str("mnemonic"))
		return nil
	case "Unsupported":
		priv, err := keyFromSeed(str("seed"))
		if err != nil {
			return err
		}
		emitUnsupported(w, str("api"), verName{str("ver"), wallet.Version(num("vernum"))}, priv)
		return nil
	case "Addr":
		priv, err := keyFromSeed(str("seed"))
		if err != nil {
			return err
		}
		v, ok := verByName(str("ver"))
		if !ok {
			return fmt.Errorf("unknown version %q", str("ver"))
		}
		wcSet, _ := e["wc_set"].(bool)
		c := combo{ver: verName{str("ver"), v}, wcSet: wcSet, wc: num("wc")}
		if s := str("sub"); s != "" {
			n, err := strconv.ParseUint(s, 10, 32)
			if err != nil {
				return err
			}
			c.sub = u32(uint32(n))
		}
		if hn, _ := e["has_net"].(bool); hn {
			c.net = i32(int32(num("net")))
		}
		emitAPI(w, str("api"), c, priv)
		return nil
	}
	return fmt.Errorf("cannot replay event kind %q", str("k"))
}

// valid 24-word TON mnemonics (made once with wallet.RandomSeed; fixed so that runs are reproducible)
var mnemonics = []string{
	"guide bamboo poet film toddler mixture slab host device curious fall soldier double pretty deny melody solid syrup deny cable crazy enrich jealous awful",
	"army face mystery emerge salmon rotate swift much love book leisure robot away use chimney emotion sing delay between cereal seed west stomach morning",
	"female mention turn among hungry pill sniff phrase true middle quantum afford account bargain sponsor ladder fabric vendor cloud lecture olive gasp mistake defense",
	"minimum ride horn absurd dawn nephew actress solar hurt library border health palace buyer remain negative great panther ball abstract vanish enroll over chaos",
	"winter link label chat uphold guilt little ask almost market record chalk floor mimic inside divert cruise lunch involve drill marine smile cage busy",
	"sheriff lyrics vital robust school truck vehicle various stable sense message screen harsh come quantum diary jungle renew gain onion crisp horn story fringe",
	"hedgehog mother dish early interest dice stamp mansion bubble funny treat rotate dash brass forget lake spend round lizard sample olympic letter body pen",
	"draw prize holiday normal mansion avocado thrive science brave person cat shoe abstract portion wet swarm sniff physical advance detail diesel curtain major knee",
}
