package c15

import (
	"bufio"
	"context"
	"crypto/ed25519"
	"encoding/hex"
	"encoding/json"
	"errors"
	"fmt"
	"os"
	"strconv"
	"sync"
	"time"

	"github.com/tonkeeper/tongo/boc"
	"github.com/tonkeeper/tongo/tlb"
	"github.com/tonkeeper/tongo/ton"
	"github.com/tonkeeper/tongo/wallet"

	"verifharness/internal/cells"
	"verifharness/internal/ev"
)

// Vector is one TLC-generated history of the send pipeline (spec/gen/WalletSend_Gen.tla): what the
// scripted chain answers, and (exp) what the specification requires of the wallet.
type Vector struct {
	Vec     int    `json:"vec"`
	Ver     string `json:"ver"`
	Entry   string `json:"entry"`
	Confirm bool   `json:"confirm"`
	Wc      int    `json:"wc"`
	Seed    string `json:"seed"`
	RawSeq  string `json:"rawseq"`
	RawInit bool   `json:"rawinit"`
	Acct    struct {
		St    string    `json:"st"`
		N     string    `json:"n"`
		Ext   bool      `json:"ext"`
		Cells []cells.C `json:"cells"`
	} `json:"acct"`
	Send  string `json:"send"`
	Polls []struct {
		R string `json:"r"`
		V string `json:"v"`
	} `json:"polls"`
	Same string         `json:"same"`
	W    int            `json:"W"` // confirmation window in milliseconds (set by the runner)
	// Prior sends made through the SAME wallet value before the recorded one (set by the runner). The statement gives a
	// send no memory: seqno and init follow from the chain state of THIS send, so the recorded run is judged like any other.
	Prior int `json:"prior"`
	Exp  map[string]any `json:"exp"`
}

// chain is the scripted implementation of the wallet package's blockchain interface. It answers from the
// vector and records every call as a step.
type chain struct {
	mu    sync.Mutex
	v     *Vector
	acct  tlb.ShardAccount
	t0    time.Time
	sent  bool
	npoll int
	steps []ev.M
	quiet bool // earlier sends on the same wallet value: answered, not recorded
}

var errScripted = errors.New("scripted chain: error")

func (c *chain) add(m ev.M) {
	if c.quiet {
		return
	}
	c.steps = append(c.steps, m)
}

func (c *chain) GetAccountState(ctx context.Context, id ton.AccountID) (tlb.ShardAccount, error) {
	c.mu.Lock()
	defer c.mu.Unlock()
	c.add(ev.M{"k": "GetState", "st": c.v.Acct.St, "n": c.v.Acct.N, "ext": c.v.Acct.Ext, "awc": int(id.Workchain), "for": hex.EncodeToString(id.Address[:])})
	if c.v.Acct.St == "err" || c.v.Acct.St == "" {
		return tlb.ShardAccount{}, errScripted
	}
	return c.acct, nil
}

func (c *chain) SendMessage(ctx context.Context, payload []byte) (uint32, error) {
	c.mu.Lock()
	defer c.mu.Unlock()
	c.t0 = time.Now()
	c.sent = true
	r := c.v.Send
	if r == "" {
		r = "ok"
	}
	c.add(ev.M{"k": "Send", "boc": hex.EncodeToString(payload), "r": r})
	if r == "err" && !c.quiet {
		return 0, errScripted
	}
	return 0, nil
}

func (c *chain) GetSeqno(ctx context.Context, id ton.AccountID) (uint32, error) {
	c.mu.Lock()
	defer c.mu.Unlock()
	us := int(time.Since(c.t0) / time.Microsecond)
	i := c.npoll
	c.npoll++
	r, v := "val", c.v.Same
	if i < len(c.v.Polls) {
		r, v = c.v.Polls[i].R, c.v.Polls[i].V
	}
	c.add(ev.M{"k": "Poll", "i": i + 1, "r": r, "v": v, "us": us, "scripted": i < len(c.v.Polls), "awc": int(id.Workchain), "for": hex.EncodeToString(id.Address[:])})
	if r == "err" {
		return 0, errScripted
	}
	n, _ := strconv.ParseUint(v, 10, 32)
	return uint32(n), nil
}

// account builds the ShardAccount the chain reports. The data cell of an active account comes from the
// vector (written by the specification from the contract's storage layout); the account passes through
// its TL-B serialisation, as it would when it arrives from a lite server.
func account(v *Vector, ver wallet.Version, addr ton.AccountID) (tlb.ShardAccount, error) {
	var sa tlb.ShardAccount
	switch v.Acct.St {
	case "", "err":
		return sa, nil
	case "none":
		sa.Account.SumType = "AccountNone"
	default:
		sa.Account.SumType = "Account"
		a := &sa.Account.Account
		a.Addr = addr.ToMsgAddress()
		a.StorageStat.StorageExtra.SumType = "StorageExtraNone"
		a.StorageStat.LastPaid = 1700000000
		a.Storage.LastTransLt = 100500
		a.Storage.Balance.Grams = 1000000000
		switch v.Acct.St {
		case "uninit":
			a.Storage.State.SumType = "AccountUninit"
		case "frozen":
			a.Storage.State.SumType = "AccountFrozen"
			for i := range a.Storage.State.AccountFrozen.StateHash {
				a.Storage.State.AccountFrozen.StateHash[i] = byte(i)
			}
		case "active":
			a.Storage.State.SumType = "AccountActive"
			roots, err := cells.Build(&cells.Table{Cells: v.Acct.Cells, Roots: []int{0}}, true)
			if err != nil {
				return sa, err
			}
			si := &a.Storage.State.AccountActive.StateInit
			si.Code.Exists = true
			si.Code.Value.Value = *wallet.GetCodeByVer(ver)
			si.Data.Exists = true
			si.Data.Value.Value = *roots[0]
		default:
			return sa, fmt.Errorf("unknown account state %q", v.Acct.St)
		}
		sa.LastTransLt = 100499
	}
	c := boc.NewCell()
	if err := tlb.Marshal(c, sa); err != nil {
		return sa, fmt.Errorf("marshal account: %v", err)
	}
	c.ResetCounters()
	var back tlb.ShardAccount
	if err := tlb.Unmarshal(c, &back); err != nil {
		return sa, fmt.Errorf("unmarshal account: %v", err)
	}
	return back, nil
}

func runVector(v *Vector) ev.M {
	out := ev.M{"k": "Run", "vec": v.Vec, "ver": v.Ver, "entry": v.Entry, "confirm": v.Confirm, "wc": v.Wc, "seed": v.Seed,
		"rawseq": v.RawSeq, "rawinit": v.RawInit, "st": v.Acct.St, "n": v.Acct.N, "ext": v.Acct.Ext, "W": v.W, "exp": v.Exp,
		"addr": "", "awc": 0, "setup": "", "prior": v.Prior}
	ver, ok := verByName(v.Ver)
	if !ok {
		out["setup"] = "unknown version"
		return out
	}
	priv, err := keyFromSeed(v.Seed)
	if err != nil {
		out["setup"] = err.Error()
		return out
	}
	ch := &chain{v: v}
	var wl wallet.Wallet
	if p := guard(func() { wl, err = wallet.New(priv, ver, ch, wallet.WithWorkchain(v.Wc)) }); p != "" || err != nil {
		out["steps"] = []ev.M{{"k": "Panic", "at": "New", "panic": p + fmt.Sprint(err)}}
		return out
	}
	addr := wl.GetAddress()
	out["addr"] = hex.EncodeToString(addr.Address[:])
	out["awc"] = int(addr.Workchain)
	if ch.acct, err = account(v, ver, addr); err != nil {
		out["setup"] = err.Error()
		return out
	}
	window := time.Duration(0)
	if v.Confirm {
		window = time.Duration(v.W) * time.Millisecond
	}
	dest := ton.AccountID{Workchain: 0}
	for i := range dest.Address {
		dest.Address[i] = byte(0x50 + i)
	}
	transfer := wallet.SimpleTransfer{Amount: 10000, Address: dest, Comment: "c15"}
	if v.Prior > 0 {
		// earlier sends through the same wallet value, accepted by the chain, never confirmed: by the state entry point,
		// and with caller-supplied seqnos that have nothing to do with the account's
		ch.quiet = true
		pan := guard(func() {
			ctx := context.Background()
			for j := 0; j < v.Prior; j++ {
				if j%2 == 0 {
					_ = wl.Send(ctx, transfer)
				} else if im, mode, err := transfer.ToInternal(); err == nil {
					mc := boc.NewCell()
					if tlb.Marshal(mc, im) == nil {
						_ = wl.RawSend(ctx, uint32(1000+j), time.Now().Add(time.Minute), []wallet.RawMessage{{Message: mc, Mode: mode}}, nil)
					}
				}
			}
		})
		ch.mu.Lock()
		ch.quiet, ch.sent, ch.npoll, ch.steps = false, false, 0, nil
		ch.mu.Unlock()
		if pan != "" {
			out["steps"] = []ev.M{{"k": "Panic", "at": "earlier-send", "panic": pan}}
			return out
		}
	}
	type result struct {
		err error
		pan string
	}
	done := make(chan result, 1)
	start := time.Now()
	go func() {
		var r result
		r.pan = guard(func() {
			ctx := context.Background()
			switch v.Entry {
			case "SendV2":
				_, r.err = wl.SendV2(ctx, window, transfer)
			case "Send":
				r.err = wl.Send(ctx, transfer)
			case "RawSendV2", "RawSend":
				im, mode, err := transfer.ToInternal()
				if err != nil {
					panic("harness: " + err.Error())
				}
				mc := boc.NewCell()
				if err := tlb.Marshal(mc, im); err != nil {
					panic("harness: " + err.Error())
				}
				var init *tlb.StateInit
				if v.RawInit {
					if init, err = wl.StateInit(); err != nil {
						panic("harness: " + err.Error())
					}
				}
				n, _ := strconv.ParseUint(v.RawSeq, 10, 32)
				msgs := []wallet.RawMessage{{Message: mc, Mode: mode}}
				if v.Entry == "RawSendV2" {
					_, r.err = wl.RawSendV2(ctx, uint32(n), time.Now().Add(time.Minute), msgs, init, window)
				} else {
					r.err = wl.RawSend(ctx, uint32(n), time.Now().Add(time.Minute), msgs, init)
				}
			default:
				panic("harness: unknown entry " + v.Entry)
			}
		})
		done <- r
	}()
	limit := 20*time.Duration(v.W)*time.Millisecond + 10*time.Second
	var last ev.M
	select {
	case r := <-done:
		ch.mu.Lock()
		from := start
		if ch.sent {
			from = ch.t0
		}
		us := int(time.Since(from) / time.Microsecond)
		if r.pan != "" {
			last = ev.M{"k": "Panic", "at": v.Entry, "panic": r.pan, "us": us}
		} else {
			res := "ok"
			if r.err != nil {
				res = "err"
			}
			last = ev.M{"k": "Return", "res": res, "us": us}
		}
	case <-time.After(limit):
		ch.mu.Lock()
		last = ev.M{"k": "Timeout", "us": int(limit / time.Microsecond)}
	}
	steps := append([]ev.M{}, ch.steps...)
	ch.mu.Unlock()
	out["steps"] = append(steps, last)
	return out
}

// Replay runs every vector of `in` (one JSON object per line) and writes one Run record per vector. The runs
// mostly sleep (the confirmation loop), so many of them run at once.
func Replay(in string, w *ev.Writer, par int) error {
	f, err := os.Open(in)
	if err != nil {
		return err
	}
	defer f.Close()
	sc := bufio.NewScanner(f)
	sc.Buffer(make([]byte, 1<<20), 1<<26)
	var vecs []*Vector
	for sc.Scan() {
		// a recorded address event (from a replay file) is re-executed instead
		var probe map[string]any
		if err := json.Unmarshal(sc.Bytes(), &probe); err != nil {
			return fmt.Errorf("line %d: %v", len(vecs), err)
		}
		if k, _ := probe["k"].(string); k == "Addr" || k == "Unsupported" || k == "Seed" {
			if err := ReplayEvent(w, probe); err != nil {
				return err
			}
			continue
		}
		v := &Vector{}
		if err := json.Unmarshal(sc.Bytes(), v); err != nil {
			return fmt.Errorf("vector %d: %v", len(vecs), err)
		}
		vecs = append(vecs, v)
	}
	if err := sc.Err(); err != nil {
		return err
	}
	if par <= 0 {
		par = 96
	}
	outs := make([]ev.M, len(vecs))
	var wg sync.WaitGroup
	sem := make(chan struct{}, par)
	for i := range vecs {
		wg.Add(1)
		sem <- struct{}{}
		go func(i int) {
			defer wg.Done()
			defer func() { <-sem }()
			outs[i] = runVector(vecs[i])
		}(i)
	}
	wg.Wait()
	for _, o := range outs {
		if _, ok := o["steps"]; !ok {
			o["steps"] = []ev.M{}
		}
		w.Emit(o)
	}
	end(w)
	return nil
}

var _ = ed25519.SeedSize
