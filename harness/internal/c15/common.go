// Package c15 drives the wallet package for property C15: it records every address the public API
// yields (C->S) and replays TLC-generated histories of the send pipeline against a scripted
// implementation of the wallet package's blockchain interface (S->C). It only drives and records:
// every judgement is made by TLC over spec/WalletSend.tla.
package c15

import (
	"crypto/ed25519"
	"encoding/hex"
	"fmt"
	"strings"

	"github.com/tonkeeper/tongo/boc"
	"github.com/tonkeeper/tongo/tlb"
	"github.com/tonkeeper/tongo/wallet"

	"verifharness/internal/cells"
	"verifharness/internal/ev"
)

type Opts struct {
	Tier          string
	Seed          int64
	Shard, Shards int
	Part          string
}

type verName struct {
	Name string
	V    wallet.Version
}

// Supported are the versions wallet.New accepts; the names are the ones spec/WalletSend.tla uses.
var Supported = []verName{
	{"V1R1", wallet.V1R1}, {"V1R2", wallet.V1R2}, {"V1R3", wallet.V1R3}, {"V2R1", wallet.V2R1}, {"V2R2", wallet.V2R2},
	{"V3R1", wallet.V3R1}, {"V3R2", wallet.V3R2}, {"V4R1", wallet.V4R1}, {"V4R2", wallet.V4R2},
	{"V5Beta", wallet.V5Beta}, {"V5R1", wallet.V5R1}, {"HighLoadV2R2", wallet.HighLoadV2R2},
}

// Unsupported versions: named by the package but without a wallet implementation, or not versions at all.
var Unsupported = []verName{
	{"V3R2Lockup", wallet.V3R2Lockup}, {"HighLoadV1R1", wallet.HighLoadV1R1}, {"HighLoadV1R2", wallet.HighLoadV1R2},
	{"HighLoadV2", wallet.HighLoadV2}, {"HighLoadV2R1", wallet.HighLoadV2R1}, {"Version(17)", wallet.Version(17)},
	{"Version(-1)", wallet.Version(-1)},
}

func verByName(n string) (wallet.Version, bool) {
	for _, v := range Supported {
		if v.Name == n {
			return v.V, true
		}
	}
	return 0, false
}

// guard runs f and turns a panic into an error text.
func guard(f func()) (pan string) {
	defer func() {
		if r := recover(); r != nil {
			pan = fmt.Sprint(r)
		}
	}()
	f()
	return ""
}

// stateInitTable marshals a StateInit the way a caller would (tlb.Marshal) and projects the cell DAG.
// It also returns the hash the library computes for that cell (what a caller would use as the address).
func stateInitTable(si tlb.StateInit) (*cells.Table, string, error) {
	c := boc.NewCell()
	if err := tlb.Marshal(c, si); err != nil {
		return nil, "", err
	}
	h, err := c.Hash256()
	if err != nil {
		return nil, "", err
	}
	return cells.Project([]*boc.Cell{c}), hex.EncodeToString(h[:]), nil
}

// keyFromSeed: "seed" (32 bytes hex) or "seed:pub" - a private key value whose public half is the given 32 bytes
// (ed25519.PrivateKey is seed || public key; the wallet takes key.Public() from it).
func keyFromSeed(seedHex string) (ed25519.PrivateKey, error) {
	if i := strings.IndexByte(seedHex, ':'); i >= 0 {
		priv, err := keyFromSeed(seedHex[:i])
		if err != nil {
			return nil, err
		}
		pub, err := hex.DecodeString(seedHex[i+1:])
		if err != nil || len(pub) != ed25519.PublicKeySize {
			return nil, fmt.Errorf("bad public half in %q", seedHex)
		}
		copy(priv[ed25519.SeedSize:], pub)
		return priv, nil
	}
	b, err := hex.DecodeString(seedHex)
	if err != nil || len(b) != ed25519.SeedSize {
		return nil, fmt.Errorf("bad key seed %q", seedHex)
	}
	return ed25519.NewKeyFromSeed(b), nil
}

func end(w *ev.Writer) { w.Emit(ev.M{"k": "End", "events": w.N}) }
