package c03

import (
	"bufio"
	"encoding/json"
	"fmt"
	"os"
	"reflect"
	"sort"

	"verifharness/internal/ev"
	"verifharness/internal/tlbx"
)

// WriteTypes dumps the primitive / combinator Go types with the TL-B AST reflection gives them: [[name, ast], ...].
func WriteTypes(path string) error {
	pt := tlbx.PrimTypes()
	names := make([]string, 0, len(pt))
	for n := range pt {
		names = append(names, n)
	}
	sort.Strings(names)
	out := [][2]any{}
	for _, n := range names {
		a := tlbx.AST(pt[n], "")
		if tlbx.HasOpaque(a) {
			return fmt.Errorf("primitive type %s has no schema", n)
		}
		out = append(out, [2]any{n, a})
	}
	b, err := json.Marshal(out)
	if err != nil {
		return err
	}
	return os.WriteFile(path, b, 0o644)
}

// ReplayPrims: for each vector {type, v, ok, tree, text} build the Go value, encode it (must give exactly `text`),
// and decode the specification's cell (must give exactly v). Emits {"vec","type","match","what",...}.
func ReplayPrims(in string, w *ev.Writer) error {
	f, err := os.Open(in)
	if err != nil {
		return err
	}
	defer f.Close()
	pt := tlbx.PrimTypes()
	sc := bufio.NewScanner(f)
	sc.Buffer(make([]byte, 1<<20), 1<<26)
	n := 0
	for sc.Scan() {
		var v struct {
			Vec  int    `json:"vec"`
			Type string `json:"type"`
			V    any    `json:"v"`
			Ok   bool   `json:"ok"`
			Tree any    `json:"tree"`
			Text string `json:"text"`
		}
		if err := json.Unmarshal(sc.Bytes(), &v); err != nil {
			return err
		}
		n++
		t, ok := pt[v.Type]
		if !ok {
			return fmt.Errorf("unknown type %q", v.Type)
		}
		m := ev.M{"vec": v.Vec, "type": v.Type, "match": true, "what": ""}
		fail := func(what string, got any) {
			m["match"] = false
			m["what"] = what
			m["got"] = got
		}
		val := reflect.New(t).Elem()
		if err := tlbx.Undump(val, "", v.V); err != nil {
			return fmt.Errorf("vector %d (%s): cannot build the value: %v", v.Vec, v.Type, err)
		}
		if canon(tlbx.Dump(val, "")) != canon(v.V) {
			return fmt.Errorf("vector %d (%s): harness self-check failed: Dump(Undump(v)) = %s, v = %s", v.Vec, v.Type, canon(tlbx.Dump(val, "")), canon(v.V))
		}
		c, st, _ := marshal(val.Interface())
		switch {
		case !v.Ok:
			if st == "ok" {
				fail("encoded-out-of-domain", tlbx.TreeText(c))
			}
		case st != "ok":
			fail("encode:"+st, "")
		case tlbx.TreeText(c) != v.Text:
			fail("encode-bits", tlbx.TreeText(c))
		default:
			src, err := tlbx.CellOfTree(v.Tree)
			if err != nil {
				return err
			}
			p := reflect.New(t)
			st, msg := unmarshal(src, p.Interface())
			if st != "ok" {
				fail("decode:"+st, msg)
			} else if canon(tlbx.Dump(p.Elem(), "")) != canon(v.V) {
				fail("decode-value", tlbx.Dump(p.Elem(), ""))
			}
		}
		w.Emit(m)
	}
	w.Emit(ev.M{"k": "End", "events": n})
	return sc.Err()
}
