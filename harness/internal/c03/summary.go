package c03

import (
	"bufio"
	"encoding/json"
	"os"

	"verifharness/internal/ev"
)

// A side file with one short line per event of the C04 trace (same line numbers): what the runner needs for its counters
// (kind, type, constructor seen, ...) without parsing hundreds of megabytes of events a second time.

var sumW *bufio.Writer
var sumF *os.File

func OpenSummary(path string) error {
	f, err := os.Create(path)
	if err != nil {
		return err
	}
	sumF, sumW = f, bufio.NewWriterSize(f, 1<<16)
	return nil
}

func CloseSummary() {
	if sumW != nil {
		sumW.Flush()
		sumF.Close()
		sumW = nil
	}
}

func at(v any, path ...any) any {
	for _, p := range path {
		switch k := p.(type) {
		case int:
			l, ok := v.([]any)
			if !ok || k >= len(l) {
				return nil
			}
			v = l[k]
		case string:
			m, ok := v.(map[string]any)
			if !ok {
				return nil
			}
			v = m[k]
		}
	}
	return v
}

func str(v any) string { s, _ := v.(string); return s }

// ctorSeen names the constructors of the tagged unions a real record exercised.
func ctorSeen(typ string, v any) string {
	has := func(x any) bool { b, _ := at(x, "has").(bool); return b }
	switch typ {
	case "InMsgDescrLeaf":
		return "InMsg." + str(at(v, 1, "c"))
	case "OutMsgDescrLeaf":
		return "OutMsg." + str(at(v, 1, "c"))
	case "ShardAccountsLeaf":
		acc := at(v, 1, 0)
		if str(at(acc, "c")) == "Account" {
			return "Account.Account/" + str(at(acc, "v", 2, 2, "c"))
		}
		return "Account." + str(at(acc, "c"))
	case "ValueFlow":
		return "ValueFlow." + str(at(v, "c"))
	case "BlockInfo":
		s := "BlockInfo.prev_ref=" + str(at(v, 23, "c"))
		if has(at(v, 22)) {
			s += ",master_ref"
		}
		if has(at(v, 21)) {
			s += ",gen_software"
		}
		return s
	}
	return ""
}

// emit writes the event and its summary line.
func emit(w *ev.Writer, m ev.M) {
	w.Emit(m)
	if sumW == nil {
		return
	}
	s := ev.M{"k": m["k"]}
	for _, f := range []string{"type", "dec", "enc", "unique", "exotic"} {
		if x, ok := m[f]; ok {
			s[f] = x
		}
	}
	if t, ok := m["tree"].(string); ok {
		s["tl"] = len(t)
		if len(t) > 200 {
			t = t[:200]
		}
		s["t200"] = t
	}
	if v, ok := m["v"]; ok {
		// through JSON: plain maps and slices
		raw, _ := json.Marshal(v)
		var plain any
		json.Unmarshal(raw, &plain)
		typ, _ := m["type"].(string)
		if m["k"] == "DECSRC" {
			s["ctor"] = ctorSeen(typ, plain)
			if typ == "Transaction" {
				out, _ := at(plain, 9, 1).([]any)
				s["outmsgs"] = len(out)
			}
		}
		s["vl"] = len(raw)
	}
	b, _ := json.Marshal(s)
	sumW.Write(b)
	sumW.WriteByte('\n')
}
