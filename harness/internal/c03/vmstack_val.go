package c03

import (
	"encoding/json"
	"fmt"
	"math/big"
	"reflect"
	"strconv"
	"strings"

	"github.com/tonkeeper/tongo/boc"
	"github.com/tonkeeper/tongo/tlb"

	"verifharness/internal/tlbx"
)

// The VM stack API cases of spec/gen/VmStackApi_Gen.tla: values travel in the JSON shape of spec/VmStackApi.tla
//   {"t":"null"|"nan"|"cont"} {"t":"tinyint"|"int","v":"<decimal>"} {"t":"cell"|"builder","c":tree}
//   {"t":"slice","c":tree,"sb":..,"eb":..,"sr":..,"er":..} {"t":"tuple","es":[values]}
// and the harness only builds them, calls the API and writes down what came back as the canonical texts of that module
// (VmStackApi!Text for stack values, the destination dumps of VmStackApi!MapTo, VmStackApi!StructText).

type vmVal struct {
	T  string          `json:"t"`
	V  string          `json:"v"`
	C  json.RawMessage `json:"c"`
	Sb int             `json:"sb"`
	Eb int             `json:"eb"`
	Sr int             `json:"sr"`
	Er int             `json:"er"`
	Es []vmVal         `json:"es"`
}

func cellOfRaw(raw json.RawMessage) (*boc.Cell, error) {
	var j any
	if err := json.Unmarshal(raw, &j); err != nil {
		return nil, err
	}
	return tlbx.CellOfTree(j)
}

// direct tells whether the value can be constructed through the exported API (tuples have no constructor or encoder; a slice
// with a window smaller than its cell exists only as the result of decoding).
func (v vmVal) direct() bool {
	switch v.T {
	case "tuple":
		return false
	case "slice":
		c, err := cellOfRaw(v.C)
		return err == nil && v.Sb == 0 && v.Sr == 0 && v.Eb == c.BitSize() && v.Er == c.RefsSize()
	}
	return true
}

// build constructs the Go value through the exported API.
func (v vmVal) build() (tlb.VmStackValue, error) {
	switch v.T {
	case "null":
		return tlb.VmStackValue{SumType: "VmStkNull"}, nil
	case "nan":
		return tlb.VmStackValue{SumType: "VmStkNan"}, nil
	case "cont":
		return tlb.VmStackValue{SumType: "VmStkCont"}, nil
	case "tinyint":
		x, err := strconv.ParseInt(v.V, 10, 64)
		return tlb.VmStackValue{SumType: "VmStkTinyInt", VmStkTinyInt: x}, err
	case "int":
		b, ok := new(big.Int).SetString(v.V, 10)
		if !ok {
			return tlb.VmStackValue{}, fmt.Errorf("bad integer %q", v.V)
		}
		return tlb.VmStackValue{SumType: "VmStkInt", VmStkInt: tlb.Int257(*b)}, nil
	case "cell", "builder", "slice":
		c, err := cellOfRaw(v.C)
		if err != nil {
			return tlb.VmStackValue{}, err
		}
		switch v.T {
		case "cell":
			return tlb.VmStackValue{SumType: "VmStkCell", VmStkCell: tlb.Ref[boc.Cell]{Value: *c}}, nil
		case "builder":
			return tlb.VmStackValue{SumType: "VmStkBuilder", VmStkBuilder: tlb.Ref[boc.Cell]{Value: *c}}, nil
		}
		return tlb.CellToVmCellSlice(c)
	}
	return tlb.VmStackValue{}, fmt.Errorf("value of kind %q has no constructor", v.T)
}

// decodeValue reads the specification's cell of one value.
func decodeValue(vc json.RawMessage) (val tlb.VmStackValue, cellText string, st string) {
	c, err := cellOfRaw(vc)
	if err != nil {
		return val, "", "inputerr"
	}
	cellText = tlbx.TreeText(c)
	st, _ = unmarshal(c, &val)
	return val, cellText, st
}

// tupleItems lists the entries of a decoded tuple following the schema: VmTuple (n+1) = head:(VmTupleRef n) tail;
// VmTupleRef 1 = entry; VmTupleRef (n+2) = ref:^(VmTuple (n+2)). A structure that does not follow it yields "?" items.
func tupleItems(n int, t *tlb.VmTuple, out *[]string) {
	if n == 0 {
		return
	}
	if t == nil {
		*out = append(*out, "?nil")
		return
	}
	switch {
	case n-1 == 0:
	case n-1 == 1:
		if t.Head.Entry == nil {
			*out = append(*out, "?nil")
		} else {
			*out = append(*out, vmText(*t.Head.Entry))
		}
	default:
		tupleItems(n-1, t.Head.Ref, out)
	}
	*out = append(*out, vmText(t.Tail))
}

// tupleValues lists the entries of a decoded tuple as values (same walk as tupleItems); ok = the structure follows the schema.
func tupleValues(t tlb.VmStkTuple) (out []tlb.VmStackValue, ok bool) {
	var walk func(n int, b *tlb.VmTuple) bool
	walk = func(n int, b *tlb.VmTuple) bool {
		if n == 0 {
			return true
		}
		if b == nil {
			return false
		}
		switch {
		case n-1 == 0:
		case n-1 == 1:
			if b.Head.Entry == nil {
				return false
			}
			out = append(out, *b.Head.Entry)
		default:
			if !walk(n-1, b.Head.Ref) {
				return false
			}
		}
		out = append(out, b.Tail)
		return true
	}
	out = []tlb.VmStackValue{}
	ok = walk(int(t.Len), t.Data)
	return out, ok
}

// vmText is VmStackApi!Text of a Go stack value.
func vmText(v tlb.VmStackValue) (s string) {
	defer func() {
		if p := recover(); p != nil {
			s = "?panic:" + fmt.Sprint(p)
		}
	}()
	switch v.SumType {
	case "VmStkNull":
		return "nil"
	case "VmStkNan":
		return "nan"
	case "VmStkCont":
		return "cont"
	case "VmStkTinyInt":
		return "tiny:" + strconv.FormatInt(v.VmStkTinyInt, 10)
	case "VmStkInt":
		b := big.Int(v.VmStkInt)
		return "int:" + b.String()
	case "VmStkCell":
		return "cell:" + tlbx.TreeText(&v.VmStkCell.Value)
	case "VmStkBuilder":
		return "builder:" + tlbx.TreeText(&v.VmStkBuilder.Value)
	case "VmStkSlice":
		return "slice:" + tlbx.TreeText(v.VmStkSlice.Cell())
	case "VmStkTuple":
		es := []string{}
		tupleItems(int(v.VmStkTuple.Len), v.VmStkTuple.Data, &es)
		return "tuple(" + strings.Join(es, ",") + ")"
	}
	return "?" + string(v.SumType)
}

func vmTexts(s []tlb.VmStackValue) []string {
	out := make([]string, 0, len(s))
	for _, v := range s {
		out = append(out, vmText(v))
	}
	return out
}

// ------------------------------------------------------------------------------------------- destinations

// The destinations of VmStackApi!Dest, by name.
type (
	dS0 struct{}
	dS1 struct{ A int64 }
	dS2 struct{ A, B int64 }
	dS3 struct{ A, B, C int64 }
	dS4 struct{ A, B, C, D int64 }
	dS5 struct{ A, B, C, D, E int64 }
	dS6 struct{ A, B, C, D, E, F int64 }
	// fields that code outside this package cannot set
	dS2u struct{ a, b int64 }
	dSU2 struct {
		A uint64
		B uint32
	}
	dS3m struct {
		A int64
		B *dS2
		C bool
	}
	dSL struct {
		A int64
		B []int64
	}
)

var vmDests = map[string]func() any{
	"i8": func() any { return new(int8) }, "i16": func() any { return new(int16) }, "i32": func() any { return new(int32) }, "i64": func() any { return new(int64) },
	"u8": func() any { return new(uint8) }, "u16": func() any { return new(uint16) }, "u32": func() any { return new(uint32) }, "u64": func() any { return new(uint64) },
	"bool": func() any { return new(bool) }, "big": func() any { return new(tlb.Int257) }, "b256": func() any { return new(tlb.Bits256) },
	"pi64": func() any { return new(*int64) }, "pbig": func() any { return new(*tlb.Int257) },
	"S0": func() any { return new(dS0) }, "S1": func() any { return new(dS1) }, "S2": func() any { return new(dS2) }, "S3": func() any { return new(dS3) },
	"S4": func() any { return new(dS4) }, "S5": func() any { return new(dS5) }, "S6": func() any { return new(dS6) },
	"S2u": func() any { return new(dS2u) }, "SU2": func() any { return new(dSU2) }, "S3m": func() any { return new(dS3m) }, "PS2": func() any { return new(*dS2) },
	"L64": func() any { return new([]int64) }, "Lbool": func() any { return new([]bool) }, "LS2": func() any { return new([]dS2) }, "SL": func() any { return new(dSL) },
}

var (
	tInt257  = reflect.TypeOf(tlb.Int257{})
	tBits256 = reflect.TypeOf(tlb.Bits256{})
)

// destText is the canonical text of a filled destination (VmStackApi!MapTo's "val").
func destText(v reflect.Value) string {
	switch v.Type() {
	case tInt257:
		b := big.Int(v.Interface().(tlb.Int257))
		return b.String()
	case tBits256:
		var sb strings.Builder
		sb.WriteString("x")
		for i := 0; i < v.Len(); i++ {
			fmt.Fprintf(&sb, "%02x", v.Index(i).Uint())
		}
		return sb.String()
	}
	switch v.Kind() {
	case reflect.Int, reflect.Int8, reflect.Int16, reflect.Int32, reflect.Int64:
		return strconv.FormatInt(v.Int(), 10)
	case reflect.Uint, reflect.Uint8, reflect.Uint16, reflect.Uint32, reflect.Uint64:
		return strconv.FormatUint(v.Uint(), 10)
	case reflect.Bool:
		return strconv.FormatBool(v.Bool())
	case reflect.Pointer:
		if v.IsNil() {
			return "nil"
		}
		return "&" + destText(v.Elem())
	case reflect.Struct:
		fs := make([]string, v.NumField())
		for i := range fs {
			fs[i] = destText(v.Field(i))
		}
		return "{" + strings.Join(fs, ",") + "}"
	case reflect.Slice:
		fs := make([]string, v.Len())
		for i := range fs {
			fs[i] = destText(v.Index(i))
		}
		return "[" + strings.Join(fs, ",") + "]"
	}
	return "?" + v.Kind().String()
}

// ------------------------------------------------------------------------------------------- TL-B structures

type vmStruct struct {
	Ty      string          `json:"ty"`
	Amount  string          `json:"amount"`
	Ctor    string          `json:"ctor"`
	Wc      string          `json:"wc"`
	Addr    string          `json:"addr"`
	HasCode bool            `json:"hascode"`
	Code    json.RawMessage `json:"code"`
	HasData bool            `json:"hasdata"`
	Data    json.RawMessage `json:"data"`
}

// build returns the library's value of the description and a pointer to a fresh value of the same type to read it back into.
func (s vmStruct) build() (val any, fresh func() any, err error) {
	switch s.Ty {
	case "Grams":
		x, err := strconv.ParseUint(s.Amount, 10, 64)
		return tlb.Grams(x), func() any { return new(tlb.Grams) }, err
	case "MsgAddress":
		fresh = func() any { return new(tlb.MsgAddress) }
		if s.Ctor == "none" {
			return tlb.MsgAddress{SumType: "AddrNone"}, fresh, nil
		}
		wc, err := strconv.ParseInt(s.Wc, 10, 8)
		if err != nil {
			return nil, nil, err
		}
		a := tlb.MsgAddress{SumType: "AddrStd"}
		a.AddrStd.WorkchainId = int8(wc)
		if len(s.Addr) != 64 {
			return nil, nil, fmt.Errorf("address of %d hex digits", len(s.Addr))
		}
		for i := 0; i < 32; i++ {
			b, err := strconv.ParseUint(s.Addr[2*i:2*i+2], 16, 8)
			if err != nil {
				return nil, nil, err
			}
			a.AddrStd.Address[i] = byte(b)
		}
		return a, fresh, nil
	case "StateInit":
		var st tlb.StateInit
		if s.HasCode {
			c, err := cellOfRaw(s.Code)
			if err != nil {
				return nil, nil, err
			}
			st.Code.Exists, st.Code.Value.Value = true, *c
		}
		if s.HasData {
			c, err := cellOfRaw(s.Data)
			if err != nil {
				return nil, nil, err
			}
			st.Data.Exists, st.Data.Value.Value = true, *c
		}
		return st, func() any { return new(tlb.StateInit) }, nil
	}
	return nil, nil, fmt.Errorf("unknown structure %q", s.Ty)
}

// structText is VmStackApi!StructText of a value read back (ptr: what fresh() returned).
func structText(ptr any) string {
	switch p := ptr.(type) {
	case *tlb.Grams:
		return "Grams:" + strconv.FormatUint(uint64(*p), 10)
	case *tlb.MsgAddress:
		switch p.SumType {
		case "AddrNone":
			return "MsgAddress:none"
		case "AddrStd":
			if p.AddrStd.Anycast.Exists {
				return "MsgAddress:?anycast"
			}
			return "MsgAddress:std:" + strconv.Itoa(int(p.AddrStd.WorkchainId)) + ":" + p.AddrStd.Address.Hex()
		}
		return "MsgAddress:?" + string(p.SumType)
	case *tlb.StateInit:
		part := func(m tlb.Maybe[tlb.Ref[boc.Cell]]) string {
			if !m.Exists {
				return "-"
			}
			return tlbx.TreeText(&m.Value.Value)
		}
		s := "StateInit:code=" + part(p.Code) + ":data=" + part(p.Data)
		if p.SplitDepth.Exists || p.Special.Exists || len(p.Library.Keys()) != 0 {
			s += "?more"
		}
		return s
	}
	return "?"
}
