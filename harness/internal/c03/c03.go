// Package c03 drives the TL-B codec for C03 (round trips of every type), C04 (bit-exactness) and feeds C08.
package c03

import (
	"encoding/json"
	"fmt"
	"math/rand"
	"reflect"
	"sort"
	"strings"

	"github.com/tonkeeper/tongo/boc"
	"github.com/tonkeeper/tongo/tlb"

	"verifharness/internal/ev"
	"verifharness/internal/tlbx"
)

type Opts struct {
	Tier          string
	Seed          int64
	Shard, Shards int
}

// IsTLB decides whether a registered type is a TL-B type of the library (as opposed to a helper type that merely
// lives in the same package): it has its own codec, or TL-B struct tags, or is one of the generated scalar
// types, or is a plain struct of such things.
func IsTLB(name string, t reflect.Type) bool {
	// VmTuple / VmTupleRef are the bodies of `vm_tuple_ref` / `vm_tuple_tcons`, parametrised by the length stored in the
	// enclosing VmStkTuple: they are not types of their own (no codec without that length).
	deny := map[string]bool{"tlb.Decoder": true, "tlb.Encoder": true, "tlb.Tag": true, "tlb.SumType": true, "tlb.Magic": true,
		"tlb.VmTuple": true, "tlb.VmTupleRef": true}
	if deny[name] {
		return false
	}
	marsh := reflect.TypeOf((*tlb.MarshalerTLB)(nil)).Elem()
	unm := reflect.TypeOf((*tlb.UnmarshalerTLB)(nil)).Elem()
	if t.Implements(marsh) || reflect.PointerTo(t).Implements(marsh) || t.Implements(unm) || reflect.PointerTo(t).Implements(unm) {
		return true
	}
	if strings.HasPrefix(name, "tlb.") {
		switch t.Kind() {
		case reflect.Struct:
			return structLooksTLB(t, 0)
		case reflect.Array, reflect.Uint8, reflect.Uint16, reflect.Uint32, reflect.Uint64, reflect.Int8, reflect.Int16, reflect.Int32, reflect.Int64, reflect.Bool:
			return true
		}
		return false
	}
	if t.Kind() != reflect.Struct {
		return false
	}
	for i := 0; i < t.NumField(); i++ {
		f := t.Field(i)
		if f.Tag.Get("tlb") != "" || f.Tag.Get("tlbSumType") != "" {
			return true
		}
	}
	return strings.HasSuffix(name, "MsgBody") && structLooksTLB(t, 0)
}

func structLooksTLB(t reflect.Type, depth int) bool {
	if depth > 4 {
		return true
	}
	if t.NumField() == 0 {
		return false
	}
	for i := 0; i < t.NumField(); i++ {
		f := t.Field(i)
		if !f.IsExported() {
			continue
		}
		ft := f.Type
		if ft == reflect.TypeOf(tlb.SumType("")) { // the constructor name of a tagged union (a string kind, but TL-B all the same)
			continue
		}
		for ft.Kind() == reflect.Pointer {
			ft = ft.Elem()
		}
		switch ft.Kind() {
		case reflect.Interface, reflect.Func, reflect.Chan, reflect.Map, reflect.String, reflect.Slice, reflect.Float32, reflect.Float64, reflect.Int, reflect.Uint:
			return false
		}
	}
	return true
}

// Types returns the TL-B types of the registry, sorted by name.
func Types() []string {
	var out []string
	for n, t := range tlbx.Registry {
		if IsTLB(n, t) {
			out = append(out, n)
		}
	}
	sort.Strings(out)
	return out
}

func canon(x any) string {
	b, err := json.Marshal(x)
	if err != nil {
		return "!" + err.Error()
	}
	return string(b)
}

func status(err error, p any) string {
	if p != nil {
		return "panic: " + fmt.Sprint(p)
	}
	if err != nil {
		return "err"
	}
	return "ok"
}

func marshal(v any) (c *boc.Cell, st string, msg string) {
	var err error
	var p any
	func() {
		defer func() { p = recover() }()
		c = boc.NewCell()
		err = tlb.Marshal(c, v)
	}()
	if err != nil {
		msg = err.Error()
	}
	return c, status(err, p), msg
}

func unmarshal(c *boc.Cell, ptr any) (st string, msg string) {
	var err error
	var p any
	func() {
		defer func() { p = recover() }()
		c.ResetCounters()
		err = tlb.Unmarshal(c, ptr)
	}()
	if err != nil {
		msg = err.Error()
	}
	return status(err, p), msg
}

func dumpDictBits(v reflect.Value) any {
	tlbx.DictBits = true
	defer func() { tlbx.DictBits = false }()
	return tlbx.Dump(v, "")
}

// PerturbRng, when set, makes RoundTrip move the read cursors of bit strings inside the decoded value before it is
// encoded again.
var PerturbRng *rand.Rand

// RoundTrip performs encode / decode / encode of one value and returns the RT event.
func RoundTrip(name string, t reflect.Type, v reflect.Value) ev.M {
	a := tlbx.AST(t, "")
	m := ev.M{"k": "RT", "type": name, "vs": canon(tlbx.Dump(v, "")), "enc": "", "tree": "", "dec": "", "vs2": "", "enc2": "", "tree2": "", "hasast": false, "rev": false, "msg": ""}
	if !tlbx.HasOpaque(a) {
		m["hasast"] = true
		m["ast"] = a
		// dictionaries as [key bits, value] in ascending key order: the shape the specification's decoder produces
		dv := dumpDictBits(v)
		m["v"] = dv
		m["ds"] = canon(dv)
	}
	c, st, msg := marshal(v.Interface())
	m["enc"] = st
	m["msg"] = msg
	if st != "ok" {
		return m
	}
	m["tree"] = tlbx.TreeText(c)
	if m["hasast"] == true {
		m["tj"] = tlbx.Tree(c) // the same cell as a structure: input of the specification's decoder (TlbDec!Dec)
	}
	p := reflect.New(t)
	st, msg = unmarshal(c, p.Interface())
	m["dec"] = st
	if st != "ok" {
		m["msg"] = msg
		return m
	}
	d2 := tlbx.Dump(p.Elem(), "")
	m["vs2"] = canon(d2)
	if name == "tlb.VmStack" { // documented list convention: a decoded stack lists the values in the opposite order
		if l, ok := d2.([]any); ok {
			r := make([]any, len(l))
			for i := range l {
				r[len(l)-1-i] = l[i]
			}
			if canon(r) == m["vs"] {
				m["rev"] = true
			}
		}
	}
	again := p.Elem()
	if PerturbRng != nil {
		// the decoded value "has been looked at": read cursors of its bit strings moved
		tlbx.Perturb(again, PerturbRng, 0)
	}
	if m["rev"] == true {
		// re-encode in the order the encoder expects (the documented convention: Marshal takes the list top-first,
		// Unmarshal returns it bottom-first)
		r := reflect.MakeSlice(t, again.Len(), again.Len())
		for i := 0; i < again.Len(); i++ {
			r.Index(again.Len() - 1 - i).Set(again.Index(i))
		}
		again = r
	}
	c2, st, msg := marshal(again.Interface())
	m["enc2"] = st
	if st == "ok" {
		m["tree2"] = tlbx.TreeText(c2)
	} else {
		m["msg"] = msg
	}
	return m
}

// Drive: for every TL-B type, random in-domain values through encode / decode / encode.
func Drive(w *ev.Writer, o Opts) {
	rng := rand.New(rand.NewSource(o.Seed*48271 + int64(o.Shard)))
	g := &tlbx.Gen{Rng: rng}
	PerturbRng = rand.New(rand.NewSource(o.Seed + 5))
	per := 12
	if o.Tier == "thorough" {
		per = 1000
	}
	for i, name := range Types() {
		if i%o.Shards != o.Shard {
			continue
		}
		t := tlbx.Registry[name]
		// every constructor of a tagged union at least twice, whatever the random choices
		nc := tlbx.Constructors(t)
		for k := 0; k < per+2*nc; k++ {
			var v reflect.Value
			var gp any
			func() {
				defer func() { gp = recover() }()
				g.Sweep, g.Ctor = 0, 0
				if k >= per {
					g.Ctor = k - per + 1
				}
				if k < 6 { // the first values of every type sweep the boundary patterns deterministically
					g.Sweep = k + 1
				}
				v = g.New(t)
				clampDomain(v, 0) // where the Go field is wider than the schema's (#<= 60, #<= 96, ...): stay inside the type's domain
			}()
			if gp != nil {
				w.Emit(ev.M{"k": "GenFail", "type": name, "panic": fmt.Sprint(gp)})
				break
			}
			w.Emit(RoundTrip(name, t, v))
		}
	}
	w.Emit(ev.M{"k": "End", "events": w.N})
}
