package c03

import (
	"fmt"
	"math/rand"
	"os"
	"path/filepath"
	"reflect"
	"sort"
	"strings"

	"github.com/tonkeeper/tongo/boc"
	"github.com/tonkeeper/tongo/tlb"

	"verifharness/internal/ev"
	"verifharness/internal/tlbx"
)

// coreTypes: Go type -> type name in spec/schemas/block_core.tlb
var coreTypes = map[string]reflect.Type{
	"MsgAddress":         reflect.TypeOf(tlb.MsgAddress{}),
	"Anycast":            reflect.TypeOf(tlb.Anycast{}),
	"Grams":              reflect.TypeOf(tlb.Grams(0)),
	"CurrencyCollection": reflect.TypeOf(tlb.CurrencyCollection{}),
	"CommonMsgInfo":      reflect.TypeOf(tlb.CommonMsgInfo{}),
	"TickTock":           reflect.TypeOf(tlb.TickTock{}),
	"SimpleLib":          reflect.TypeOf(tlb.SimpleLib{}),
	"StateInit":          reflect.TypeOf(tlb.StateInit{}),
	"Message":            reflect.TypeOf(tlb.Message{}),
	"StorageUsed":        reflect.TypeOf(tlb.StorageUsed{}),
	"StorageInfo":        reflect.TypeOf(tlb.StorageInfo{}),
	"HashUpdate":         reflect.TypeOf(tlb.HashUpdate{}),
	// the transaction records of block_core.tlb also as random values (real blocks hold only a few of their constructors)
	"AccountStatus":     reflect.TypeOf(tlb.AccountStatus("")),
	"AccStatusChange":   reflect.TypeOf(tlb.AccStatusChange("")),
	"ComputeSkipReason": reflect.TypeOf(tlb.ComputeSkipReason("")),
	"TrStoragePhase":    reflect.TypeOf(tlb.TrStoragePhase{}),
	"TrCreditPhase":     reflect.TypeOf(tlb.TrCreditPhase{}),
	"TrComputePhase":    reflect.TypeOf(tlb.TrComputePhase{}),
	"TrActionPhase":     reflect.TypeOf(tlb.TrActionPhase{}),
	"TrBouncePhase":     reflect.TypeOf(tlb.TrBouncePhase{}),
	"TransactionDescr":  reflect.TypeOf(tlb.TransactionDescr{}),
	// spec/schemas/block_more.tlb
	"Account":             reflect.TypeOf(tlb.Account{}),
	"AccountStorage":      reflect.TypeOf(tlb.AccountStorage{}),
	"AccountState":        reflect.TypeOf(tlb.AccountState{}),
	"ShardAccount":        reflect.TypeOf(tlb.ShardAccount{}),
	"DepthBalanceInfo":    reflect.TypeOf(tlb.DepthBalanceInfo{}),
	"IntermediateAddress": reflect.TypeOf(tlb.IntermediateAddress{}),
	"MsgMetadata":         reflect.TypeOf(tlb.MsgMetadata{}),
	"MsgEnvelope":         reflect.TypeOf(tlb.MsgEnvelope{}),
	"InMsg":               reflect.TypeOf(tlb.InMsg{}),
	"OutMsg":              reflect.TypeOf(tlb.OutMsg{}),
	"ImportFees":          reflect.TypeOf(tlb.ImportFees{}),
	"ExtBlkRef":           reflect.TypeOf(tlb.ExtBlkRef{}),
	"BlkMasterInfo":       reflect.TypeOf(tlb.BlkMasterInfo{}),
	"ShardIdent":          reflect.TypeOf(tlb.ShardIdent{}),
	"GlobalVersion":       reflect.TypeOf(tlb.GlobalVersion{}),
}

// clampDomain keeps a generated value inside the domain BOTH the Go representation and block.tlb can express, where
// the Go field type is wider than the schema's: shard_pfx_bits:(#<= 60) in a Uint6, use_dest_bits:(#<= 96) in a Uint7,
// split_depth:(#<= 30) in a Uint5, next_workchain:int32 in a uint32 (see the report: values >= 2^31 there are negative
// workchains read as large positive numbers). MsgAddressInt positions get an internal address.
func clampDomain(v reflect.Value, depth int) {
	if depth > 40 || !v.IsValid() {
		return
	}
	switch v.Kind() {
	case reflect.Pointer:
		if !v.IsNil() {
			clampDomain(v.Elem(), depth+1)
		}
		return
	case reflect.Struct:
	default:
		return
	}
	if !v.CanAddr() {
		return
	}
	switch x := v.Addr().Interface().(type) {
	case *tlb.ShardIdent:
		x.ShardPfxBits %= 61
	case *tlb.DepthBalanceInfo:
		x.SplitDepth %= 31
	case *tlb.IntermediateAddress:
		x.IntermediateAddressRegular.UseDestBits %= 97
	case *tlb.OutMsg:
		x.MsgExportDeqShort.NextWorkchain &= 0x7fffffff
	case *tlb.TransactionDescr:
		// the transcription has trans_ord / trans_storage / trans_tick_tock (what the chain produces); the split / merge
		// constructors (the Go struct keeps their prepare_transaction as an untyped cell) are outside it
		switch x.SumType {
		case "TransSplitPrepare", "TransSplitInstall", "TransMergePrepare", "TransMergeInstall":
			*x = tlb.TransactionDescr{SumType: "TransStorage"}
			x.TransStorage.StoragePh.StatusChange = tlb.AccStatusChangeUnchanged
		}
	case *tlb.ExistedAccount:
		intAddr(&x.Addr)
	case *tlb.MsgMetadata:
		intAddr(&x.InitiatorAddr)
	case *boc.Cell, *tlb.Any, *boc.BitString:
		return
	}
	t := v.Type()
	for i := 0; i < v.NumField(); i++ {
		if t.Field(i).IsExported() {
			clampDomain(v.Field(i), depth+1)
		}
	}
}

// intAddr: a MsgAddressInt position (addr_std / addr_var only).
func intAddr(a *tlb.MsgAddress) {
	if a.SumType == "AddrNone" || a.SumType == "AddrExtern" || a.SumType == "" {
		var z tlb.MsgAddress
		z.SumType = "AddrStd"
		z.AddrStd.WorkchainId = -1
		z.AddrStd.Address[0] = 0x5a
		z.AddrStd.Address[31] = 0xc3
		*a = z
	}
}

func repo() string {
	if r := os.Getenv("VERIF_REPO"); r != "" {
		return r
	}
	return "/repo"
}

// hasNonEmptyDict: does the value contain a dictionary with entries (its encoding is then not unique)?
func hasNonEmptyDict(v reflect.Value, depth int) bool {
	if depth > 60 {
		return false
	}
	t := v.Type()
	if n := t.Name(); t.PkgPath() == "github.com/tonkeeper/tongo/tlb" && strings.HasPrefix(n, "Hashmap") {
		if m := v.MethodByName("Keys"); m.IsValid() {
			return m.Call(nil)[0].Len() > 0
		}
		if m := v.MethodByName("Values"); m.IsValid() {
			return m.Call(nil)[0].Len() > 0
		}
		return true
	}
	switch v.Kind() {
	case reflect.Pointer:
		return !v.IsNil() && hasNonEmptyDict(v.Elem(), depth+1)
	case reflect.Struct:
		if t == reflect.TypeOf(boc.Cell{}) || t == reflect.TypeOf(tlb.Any{}) || t == reflect.TypeOf(boc.BitString{}) {
			return false
		}
		for i := 0; i < v.NumField(); i++ {
			if t.Field(i).IsExported() && hasNonEmptyDict(v.Field(i), depth+1) {
				return true
			}
		}
	case reflect.Slice:
		if t.Elem().Kind() == reflect.Uint8 {
			return false
		}
		for i := 0; i < v.Len(); i++ {
			if hasNonEmptyDict(v.Index(i), depth+1) {
				return true
			}
		}
	}
	return false
}

// decSrc: decode a source cell into *ptr (type `name`), dump, re-encode: the DECSRC / REENC event.
func decSrc(w *ev.Writer, kind, name string, src *boc.Cell, ptr any, where string) {
	m := ev.M{"k": kind, "type": name, "where": where, "tree": tlbx.TreeText(src), "dec": "", "enc": "", "tree2": "", "unique": false, "msg": ""}
	st, msg := unmarshal(src, ptr)
	m["dec"] = st
	if st != "ok" {
		m["msg"] = msg
		emit(w, m)
		return
	}
	val := reflect.ValueOf(ptr).Elem()
	m["unique"] = !hasNonEmptyDict(val, 0)
	if kind == "DECSRC" {
		// dictionaries as [key bits, value] in ascending key order (the shape TlbDec!Dec produces); the source cell also as a
		// structure, so that the specification's decoder can read it
		dv := dumpDictBits(val)
		if err := shapeOfDump(name, dv); err != nil {
			emit(w, ev.M{"k": "Shape", "type": name, "where": where, "why": err.Error(), "vs": canon(dv)})
			return
		}
		m["v"] = dv
		m["ds"] = canon(dv)
		m["tj"] = tlbx.Tree(src)
	}
	c2, st, msg := marshal(val.Interface())
	m["enc"] = st
	if st == "ok" {
		m["tree2"] = tlbx.TreeText(c2)
	} else {
		m["msg"] = msg
	}
	emit(w, m)
}

// DriveC04 records (a) random values of the core block.tlb structures with their cells (ENC) and (b) every message
// and transaction of the real blocks decoded from its source cell and encoded again (DECSRC / REENC).
func DriveC04(w *ev.Writer, o Opts) {
	rng := rand.New(rand.NewSource(o.Seed*69621 + int64(o.Shard)))
	g := &tlbx.Gen{Rng: rng}
	tlbx.SchemaShape = true
	per := 25
	if o.Tier == "thorough" {
		per = 700
	}
	names := make([]string, 0, len(coreTypes))
	for n := range coreTypes {
		names = append(names, n)
	}
	sort.Strings(names)
	for _, name := range names {
		t := coreTypes[name]
		nc := tlbx.Constructors(t) // every constructor of a tagged union at least twice, whatever the random choices
		for k := 0; k < per+2*nc; k++ {
			if (k+len(name))%o.Shards != o.Shard {
				continue
			}
			g.Ctor = 0
			if k >= per {
				g.Ctor = k - per + 1
			}
			v := g.New(t)
			clampDomain(v, 0)
			c, st, msg := marshal(v.Interface())
			dv := dumpDictBits(v)
			if cs := canon(dv); strings.Contains(cs, `"nil":true`) || strings.Contains(cs, `"c":""`) {
				continue // the generator stopped at its depth limit and left a constructor / enumeration empty: not a value of the type
			}
			if err := shapeOfDump(name, dv); err != nil {
				emit(w, ev.M{"k": "Shape", "type": name, "where": "random value", "why": err.Error(), "vs": canon(dv)})
				continue
			}
			m := ev.M{"k": "ENC", "type": name, "v": dv, "enc": st, "tree": "", "msg": msg}
			if st == "ok" {
				m["tree"] = tlbx.TreeText(c)
				m["tj"] = tlbx.Tree(c)
				m["ds"] = canon(dv)
			}
			emit(w, m)
		}
	}
	// real blocks
	blocks, _ := filepath.Glob(filepath.Join(repo(), "tlb/testdata/block-*/block.bin"))
	sort.Strings(blocks)
	for bi, bp := range blocks {
		data, err := os.ReadFile(bp)
		if err != nil {
			continue
		}
		if o.Tier != "thorough" && len(data) > 400000 {
			continue // quick: the smaller blocks
		}
		roots, err := boc.DeserializeBoc(data)
		if err != nil || len(roots) != 1 {
			emit(w, ev.M{"k": "Panic", "where": bp, "panic": fmt.Sprint("block does not parse: ", err)})
			continue
		}
		var blk tlb.Block
		if st, msg := unmarshal(roots[0], &blk); st != "ok" {
			emit(w, ev.M{"k": "Panic", "where": bp, "panic": "block does not decode: " + st + " " + msg})
			continue
		}
		txs := blk.AllTransactions()
		for ti, tx := range txs {
			if (ti+bi)%o.Shards != o.Shard {
				continue
			}
			where := fmt.Sprintf("%s tx %d", filepath.Base(filepath.Dir(bp)), ti)
			sb, err := tx.SourceBoc()
			if err != nil {
				emit(w, ev.M{"k": "Panic", "where": where, "panic": "no source boc: " + err.Error()})
				continue
			}
			tc, err := boc.DeserializeSingleRootBoc(sb)
			if err != nil {
				emit(w, ev.M{"k": "Panic", "where": where, "panic": "source boc: " + err.Error()})
				continue
			}
			var tx2 tlb.Transaction
			decSrc(w, "DECSRC", "Transaction", tc, &tx2, where)
			// the raw message cells: ^[ in_msg:(Maybe ^(Message Any)) out_msgs:(HashmapE 15 ^(Message Any)) ] is the first reference
			refs := tc.Refs()
			if len(refs) == 0 {
				continue
			}
			var raw struct {
				InMsg   tlb.Maybe[tlb.Ref[boc.Cell]]
				OutMsgs tlb.HashmapE[tlb.Uint15, tlb.Ref[boc.Cell]]
			}
			mc := refs[0]
			mc.ResetCounters()
			if st, msg := unmarshal(mc, &raw); st != "ok" {
				emit(w, ev.M{"k": "Panic", "where": where, "panic": "message cells: " + st + " " + msg})
				continue
			}
			var cellsM []*boc.Cell
			if raw.InMsg.Exists {
				c := raw.InMsg.Value.Value
				cellsM = append(cellsM, &c)
			}
			for _, it := range raw.OutMsgs.Items() {
				c := it.Value.Value
				cellsM = append(cellsM, &c)
			}
			for mi, c := range cellsM {
				var msg tlb.Message
				decSrc(w, "DECSRC", "Message", c, &msg, fmt.Sprintf("%s msg %d", where, mi))
			}
		}
	}
	DriveMore(w, o)
	w.Emit(ev.M{"k": "End", "events": w.N})
}
