package c03

import (
	"fmt"
	"os"
	"path/filepath"
	"reflect"
	"sort"
	"strings"

	"github.com/tonkeeper/tongo/boc"
	"github.com/tonkeeper/tongo/tlb"

	"verifharness/internal/ev"
	"verifharness/internal/tlbx"
)

// More records of the real blocks (spec/schemas/block_more.tlb): the BlockInfo and ValueFlow of every block, every entry
// of its InMsgDescr and OutMsgDescr, and every account record reachable in the old and the new shard state of its Merkle
// update. Each record is a DECSRC event: the source cell (for dictionary entries: what is left of the leaf cell after its
// label, i.e. `extra value` of ahmn_leaf), the value the library decoded from it (in the field shape of block.tlb), and
// the library's re-encoding where it has an encoder.

// ---------------------------------------------------------------- a walker over augmented dictionaries (raw cells)

func bitLen(n int) int {
	k := 0
	for n > 0 {
		k++
		n >>= 1
	}
	return k
}

// hmLabel parses HmLabel ~n m at the start of bits.
func hmLabel(bits string, m int) (s string, used int, err error) {
	bad := fmt.Errorf("malformed label")
	if len(bits) < 1 {
		return "", 0, bad
	}
	if bits[0] == '0' { // hml_short$0 len:(Unary ~n) s:(n * Bit)
		n := 0
		for 1+n < len(bits) && bits[1+n] == '1' {
			n++
		}
		if 2+n > len(bits) || n > m || 2+2*n > len(bits) {
			return "", 0, bad
		}
		return bits[2+n : 2+2*n], 2 + 2*n, nil
	}
	if len(bits) < 2 {
		return "", 0, bad
	}
	w := bitLen(m)
	num := func(x string) int {
		v := 0
		for _, c := range x {
			v = 2*v + int(c-'0')
		}
		return v
	}
	if bits[1] == '0' { // hml_long$10 n:(#<= m) s:(n * Bit)
		if 2+w > len(bits) {
			return "", 0, bad
		}
		n := num(bits[2 : 2+w])
		if n > m || 2+w+n > len(bits) {
			return "", 0, bad
		}
		return bits[2+w : 2+w+n], 2 + w + n, nil
	}
	// hml_same$11 v:Bit n:(#<= m)
	if 3+w > len(bits) {
		return "", 0, bad
	}
	n := num(bits[3 : 3+w])
	if n > m {
		return "", 0, bad
	}
	return strings.Repeat(bits[2:3], n), 3 + w, nil
}

type augLeaf struct {
	Key   string
	Slice *boc.Cell // extra:Y value:X
}

// walkAug lists the leaves below the edge stored in cell c (n key bits remain). Pruned branches are skipped and counted.
func walkAug(c *boc.Cell, n int, prefix string, out *[]augLeaf, pruned *int) error {
	if c.CellType() != boc.OrdinaryCell {
		*pruned++
		return nil
	}
	rb := c.RawBitString()
	bits := rb.BinaryString()
	s, used, err := hmLabel(bits, n)
	if err != nil {
		return err
	}
	key := prefix + s
	m := n - len(s)
	refs := c.Refs()
	if m == 0 {
		sl := boc.NewCell()
		for _, ch := range bits[used:] {
			if err := sl.WriteBit(ch == '1'); err != nil {
				return err
			}
		}
		for _, r := range refs {
			if err := sl.AddRef(r); err != nil {
				return err
			}
		}
		*out = append(*out, augLeaf{key, sl})
		return nil
	}
	// ahmn_fork#_ left:^(HashmapAug n X Y) right:^(HashmapAug n X Y) extra:Y: the extra may hold references of its own after the two
	if len(refs) < 2 {
		return fmt.Errorf("fork with %d references", len(refs))
	}
	if err := walkAug(refs[0], m-1, key+"0", out, pruned); err != nil {
		return err
	}
	return walkAug(refs[1], m-1, key+"1", out, pruned)
}

// augELeaves: HashmapAugE n X Y stored at the beginning of cell c.
func augELeaves(c *boc.Cell, n int) (leaves []augLeaf, pruned int, err error) {
	rb := c.RawBitString()
	bits := rb.BinaryString()
	if len(bits) < 1 {
		return nil, 0, fmt.Errorf("empty dictionary cell")
	}
	if bits[0] == '0' {
		return nil, 0, nil
	}
	refs := c.Refs()
	if len(refs) < 1 {
		return nil, 0, fmt.Errorf("hme_root without a reference")
	}
	err = walkAug(refs[0], n, "", &leaves, &pruned)
	return
}

func hasExotic(c *boc.Cell, budget *int) bool {
	*budget--
	if *budget < 0 {
		return true
	}
	if c.CellType() != boc.OrdinaryCell {
		return true
	}
	for _, r := range c.Refs() {
		if hasExotic(r, budget) {
			return true
		}
	}
	return false
}

// ---------------------------------------------------------------- records

type inMsgLeaf struct {
	Extra tlb.ImportFees
	Value tlb.InMsg
}
type outMsgLeaf struct {
	Extra tlb.CurrencyCollection
	Value tlb.OutMsg
}
type accountLeaf struct {
	Extra tlb.DepthBalanceInfo
	Value tlb.ShardAccount
}

// decSrcMore: like decSrc, for record types of block_more.tlb. noenc: the library has no encoder for the type (its
// decoder is hand-written): only the reading is judged.
// MaxTree bounds the unfolded size of a source tree that is written out, in units of 64 bits per cell plus its data
// bits: an OutMsg entry repeats its whole transaction (and, through reimport, the InMsg with the transaction again), so
// entries of transactions with hundreds of messages or with large bodies unfold to megabytes each (an event carries the
// tree three times and the value twice). Larger records are counted (k = "TooBig") and not judged.
var MaxTree = 40000

func treeSize(c *boc.Cell, budget *int) {
	*budget -= 64 + c.BitSize()
	if *budget < 0 {
		return
	}
	for _, r := range c.Refs() {
		treeSize(r, budget)
	}
}

func tooBig(src *boc.Cell) bool {
	tb := MaxTree
	treeSize(src, &tb)
	return tb < 0
}

// spreadOrder lists 0..total-1 so that every prefix is spread evenly over the range (stride total/quota, then the
// same with offsets 1, 2, ...): the quick tier walks it until it has judged `quota` records.
func spreadOrder(total, quota int) []int {
	stride := total / quota
	if stride < 1 {
		stride = 1
	}
	out := make([]int, 0, total)
	for off := 0; off < stride; off++ {
		for i := off; i < total; i += stride {
			out = append(out, i)
		}
	}
	return out
}

func decSrcMore(w *ev.Writer, name string, src *boc.Cell, ptr any, where string, noenc bool) {
	if tooBig(src) {
		emit(w, ev.M{"k": "TooBig", "type": name, "where": where})
		return
	}
	b := 400000
	m := ev.M{"k": "DECSRC", "type": name, "where": where, "tree": tlbx.TreeText(src), "dec": "", "enc": "", "tree2": "", "unique": false, "msg": "",
		"noenc": noenc, "exotic": hasExotic(src, &b), "more": true}
	st, msg := unmarshal(src, ptr)
	m["dec"] = st
	if st != "ok" {
		m["msg"] = msg
		emit(w, m)
		return
	}
	val := reflect.ValueOf(ptr).Elem()
	m["unique"] = !hasNonEmptyDict(val, 0)
	dv := dumpDictBits(val)
	if err := shapeOfDump(name, dv); err != nil && !m["exotic"].(bool) {
		emit(w, ev.M{"k": "Shape", "type": name, "where": where, "why": err.Error(), "vs": canon(dv)})
		return
	}
	m["v"] = dv
	m["ds"] = canon(dv)
	m["tj"] = tlbx.Tree(src)
	if noenc {
		m["enc"] = "n/a"
	} else {
		c2, st, msg := marshal(val.Interface())
		m["enc"] = st
		if st == "ok" {
			m["tree2"] = tlbx.TreeText(c2)
		} else {
			m["msg"] = msg
		}
	}
	emit(w, m)
}

// MoreBlocks: the real blocks of the repository's test data.
func MoreBlocks() []string {
	blocks, _ := filepath.Glob(filepath.Join(repo(), "tlb/testdata/block-*/block.bin"))
	sort.Strings(blocks)
	extra, _ := filepath.Glob(filepath.Join(repo(), "ton/testdata/raw-*.bin"))
	sort.Strings(extra)
	return append(blocks, extra...)
}

// accountsCell finds the ShardAccounts dictionary cell of a shard state cell (shard_state#9023afe2: the second reference).
func accountsCells(state *boc.Cell) []*boc.Cell {
	if state.CellType() != boc.OrdinaryCell {
		return nil
	}
	rb := state.RawBitString()
	bits := rb.BinaryString()
	if len(bits) < 32 {
		return nil
	}
	switch bits[:32] {
	case "10010000001000111010111111100010": // 9023afe2
		refs := state.Refs()
		if len(refs) >= 2 && refs[1].CellType() == boc.OrdinaryCell {
			return []*boc.Cell{refs[1]}
		}
	case "01011111001100100111110110100101": // split_state#5f327da5 left right
		var out []*boc.Cell
		for _, r := range state.Refs() {
			out = append(out, accountsCells(r)...)
		}
		return out
	}
	return nil
}

// DriveMore records the additional real-data events. In the quick tier entries of the big dictionaries are sampled.
func DriveMore(w *ev.Writer, o Opts) {
	quick := o.Tier != "thorough"
	MaxTree = 40000
	if !quick {
		MaxTree = 50000
	}
	n := 0 // running index over all records: sharding
	// quick: at most `quota` JUDGED entries of one dictionary, spread evenly over its keys (entries too big to be written
	// out do not count); thorough: every entry
	const quota = 24
	mine := func() bool {
		n++
		return n%o.Shards == o.Shard
	}
	take := func(i, total int) bool { return mine() }
	// each walks the entries of one dictionary in the tier's order; f decodes and emits entry i
	each := func(total int, slice func(i int) *boc.Cell, name string, where func(i int) string, f func(i int)) {
		judged := 0
		for _, i := range spreadOrder(total, quota) {
			if quick && judged >= quota {
				break
			}
			m := mine()
			if tooBig(slice(i)) {
				if m {
					emit(w, ev.M{"k": "TooBig", "type": name, "where": where(i)})
				}
				continue
			}
			judged++
			if m {
				f(i)
			}
		}
	}
	for bi, bp := range MoreBlocks() {
		data, err := os.ReadFile(bp)
		if err != nil {
			continue
		}
		bname := filepath.Base(filepath.Dir(bp))
		if strings.HasPrefix(filepath.Base(bp), "raw-") {
			bname = strings.TrimSuffix(filepath.Base(bp), ".bin")
		}
		roots, err := boc.DeserializeBoc(data)
		if err != nil || len(roots) != 1 {
			emit(w, ev.M{"k": "Panic", "where": bp, "panic": fmt.Sprint("block does not parse: ", err)})
			continue
		}
		root := roots[0]
		refs := root.Refs()
		if len(refs) != 4 {
			emit(w, ev.M{"k": "Panic", "where": bp, "panic": fmt.Sprintf("block root has %d references", len(refs))})
			continue
		}
		if take(0, 1) {
			var bi tlb.BlockInfo
			decSrcMore(w, "BlockInfo", refs[0], &bi, bname+" info", true)
		}
		if take(0, 1) {
			var vf tlb.ValueFlow
			decSrcMore(w, "ValueFlow", refs[1], &vf, bname+" value_flow", true)
		}
		// block_extra#4a33f6fd in_msg_descr:^InMsgDescr out_msg_descr:^OutMsgDescr account_blocks:^ShardAccountBlocks ...
		xrefs := refs[3].Refs()
		if len(xrefs) < 3 {
			emit(w, ev.M{"k": "Panic", "where": bp, "panic": fmt.Sprintf("block extra has %d references", len(xrefs))})
			continue
		}
		// one shard per block asks the library for its listing of the two dictionaries (the walker and the library must see
		// the same entries); every shard walks the raw dictionaries and decodes only its own share of the entries
		owner := bi%o.Shards == o.Shard
		var blk tlb.Block
		if owner {
			if st, msg := unmarshal(root, &blk); st != "ok" {
				emit(w, ev.M{"k": "Panic", "where": bp, "panic": "block does not decode: " + st + " " + msg})
				continue
			}
		}
		// ---- InMsgDescr / OutMsgDescr
		for _, d := range []struct {
			name string
			cell boc.Cell
		}{{"InMsgDescrLeaf", *xrefs[0]}, {"OutMsgDescrLeaf", *xrefs[1]}} {
			c := d.cell
			c.ResetCounters()
			leaves, pruned, err := augELeaves(&c, 256)
			if err != nil || pruned != 0 {
				emit(w, ev.M{"k": "Panic", "where": bname + " " + d.name, "panic": fmt.Sprintf("dictionary walk failed: %v (pruned %d)", err, pruned)})
				continue
			}
			// the walker and the library must see the same entries
			var libKeys []string
			if !owner {
				for _, l := range leaves {
					libKeys = append(libKeys, l.Key)
				}
			} else if d.name == "InMsgDescrLeaf" {
				hm, err := blk.Extra.InMsgDescr()
				if err != nil {
					emit(w, ev.M{"k": "DECSRC", "type": "InMsgDescr", "where": bname, "tree": "", "dec": "err", "enc": "", "tree2": "", "unique": false, "msg": err.Error()})
					continue
				}
				for _, k := range hm.Keys() {
					kb, _ := tlbx.KeyBits(reflect.ValueOf(k))
					libKeys = append(libKeys, kb)
				}
			} else {
				hm, err := blk.Extra.OutMsgDescr()
				if err != nil {
					emit(w, ev.M{"k": "DECSRC", "type": "OutMsgDescr", "where": bname, "tree": "", "dec": "err", "enc": "", "tree2": "", "unique": false, "msg": err.Error()})
					continue
				}
				for _, k := range hm.Keys() {
					kb, _ := tlbx.KeyBits(reflect.ValueOf(k))
					libKeys = append(libKeys, kb)
				}
			}
			sort.Strings(libKeys)
			var myKeys []string
			for _, l := range leaves {
				myKeys = append(myKeys, l.Key)
			}
			if strings.Join(myKeys, ",") != strings.Join(libKeys, ",") {
				emit(w, ev.M{"k": "Panic", "where": bname + " " + d.name, "panic": fmt.Sprintf("the library lists %d keys, the dictionary holds %d", len(libKeys), len(myKeys))})
				continue
			}
			where := func(i int) string { return fmt.Sprintf("%s %s %d key %s..", bname, d.name, i, leaves[i].Key[:16]) }
			each(len(leaves), func(i int) *boc.Cell { return leaves[i].Slice }, d.name, where, func(i int) {
				if d.name == "InMsgDescrLeaf" {
					var x inMsgLeaf
					decSrcMore(w, d.name, leaves[i].Slice, &x, where(i), false)
				} else {
					var x outMsgLeaf
					decSrcMore(w, d.name, leaves[i].Slice, &x, where(i), false)
				}
			})
		}
		// ---- account records in the old and the new shard state of the Merkle update
		mu := refs[2]
		for si, st := range mu.Refs() {
			for _, ac := range accountsCells(st) {
				leaves, _, err := augELeaves(ac, 256)
				if err != nil {
					emit(w, ev.M{"k": "Panic", "where": bname + " accounts", "panic": "dictionary walk failed: " + err.Error()})
					continue
				}
				where := func(i int) string { return fmt.Sprintf("%s state %d account %d key %s..", bname, si, i, leaves[i].Key[:16]) }
				each(len(leaves), func(i int) *boc.Cell { return leaves[i].Slice }, "ShardAccountsLeaf", where, func(i int) {
					var x accountLeaf
					decSrcMore(w, "ShardAccountsLeaf", leaves[i].Slice, &x, where(i), false)
				})
			}
		}
	}
}
