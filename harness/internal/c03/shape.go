package c03

import (
	"encoding/json"
	"fmt"
	"os"
	"regexp"
)

// Shape check of a dumped value against the block.tlb transcription (schema.json of tools/tlb2json.py): the Go structs
// are supposed to mirror the field lists of block.tlb. A value whose dump does not even have the form of a value of the
// schema type (a field missing or of another kind, an unknown constructor) is recorded as a "Shape" event - which the
// trace specification has no action for - instead of being handed to the TLA+ operators, which are only defined on
// values of the right form.

var schemaAST map[string]any

// LoadSchema reads schema.json (type name -> AST); without it no shape check is made.
func LoadSchema(path string) error {
	b, err := os.ReadFile(path)
	if err != nil {
		return err
	}
	return json.Unmarshal(b, &schemaAST)
}

var (
	reDec  = regexp.MustCompile(`^-?[0-9]+$`)
	reBits = regexp.MustCompile(`^[01]*$`)
)

func shapeErr(path, what string) error { return fmt.Errorf("%s: %s", path, what) }

func treeShape(v any, path string, depth int) error {
	m, ok := v.(map[string]any)
	if !ok || depth > 2000 {
		return shapeErr(path, "not a cell")
	}
	b, ok1 := m["b"].(string)
	_, ok2 := m["x"].(float64)
	r, ok3 := m["r"].([]any)
	if !ok1 || !ok2 || !ok3 || !reBits.MatchString(b) || len(m) != 3 {
		return shapeErr(path, "not a cell")
	}
	for _, k := range r {
		if err := treeShape(k, path, depth+1); err != nil {
			return err
		}
	}
	return nil
}

// ShapeOK: does v (decoded JSON of a dump) have the form of a value of type ty?
func ShapeOK(ty map[string]any, v any, path string) error {
	t, _ := ty["t"].(string)
	sub := func(k string) map[string]any { m, _ := ty[k].(map[string]any); return m }
	switch t {
	case "uint", "int", "natle", "natlt", "unary", "varuint":
		if s, ok := v.(string); !ok || !reDec.MatchString(s) {
			return shapeErr(path, "number expected")
		}
	case "bits", "bitsdep", "bitstring":
		if s, ok := v.(string); !ok || !reBits.MatchString(s) {
			return shapeErr(path, "bits expected")
		}
	case "magic":
		if s, ok := v.(string); !ok || s != "" {
			return shapeErr(path, "constant tag expected")
		}
	case "bool":
		if _, ok := v.(bool); !ok {
			return shapeErr(path, "Bool expected")
		}
	case "maybe", "cond":
		m, ok := v.(map[string]any)
		has, ok2 := m["has"].(bool)
		if !ok || !ok2 {
			return shapeErr(path, "optional expected")
		}
		if !has {
			if len(m) != 1 {
				return shapeErr(path, "absent optional with a value")
			}
			return nil
		}
		if len(m) != 2 {
			return shapeErr(path, "optional expected")
		}
		return ShapeOK(sub("of"), m["v"], path+"?")
	case "either":
		m, ok := v.(map[string]any)
		right, ok2 := m["right"].(bool)
		if !ok || !ok2 || len(m) != 2 {
			return shapeErr(path, "Either expected")
		}
		if right {
			return ShapeOK(sub("r"), m["v"], path+"|r")
		}
		return ShapeOK(sub("l"), m["v"], path+"|l")
	case "ref":
		return ShapeOK(sub("of"), v, path+"^")
	case "cell", "any":
		return treeShape(v, path, 0)
	case "seq":
		l, ok := v.([]any)
		fs, _ := ty["fields"].([]any)
		if !ok || len(l) != len(fs) {
			return shapeErr(path, fmt.Sprintf("record of %d fields expected", len(fs)))
		}
		for i, f := range fs {
			fm, _ := f.(map[string]any)
			name, _ := fm["name"].(string)
			fty, _ := fm["ty"].(map[string]any)
			if err := ShapeOK(fty, l[i], path+"."+name); err != nil {
				return err
			}
		}
	case "sum", "pnamed":
		m, ok := v.(map[string]any)
		c, ok2 := m["c"].(string)
		if !ok || !ok2 || len(m) != 2 {
			return shapeErr(path, "constructor expected")
		}
		def := ty
		if t == "pnamed" {
			name, _ := ty["name"].(string)
			def, _ = schemaAST[name].(map[string]any)
		}
		cs, _ := def["ctors"].([]any)
		for _, k := range cs {
			km, _ := k.(map[string]any)
			if km["name"] == c {
				body, _ := km["body"].(map[string]any)
				return ShapeOK(body, m["v"], path+":"+c)
			}
		}
		return shapeErr(path, "unknown constructor "+c)
	case "dict":
		l, ok := v.([]any)
		if !ok {
			return shapeErr(path, "dictionary expected")
		}
		val := sub("val")
		n, _ := ty["n"].(float64)
		for _, it := range l {
			p, ok := it.([]any)
			if !ok || len(p) != 2 {
				return shapeErr(path, "dictionary entry expected")
			}
			k, ok := p[0].(string)
			if !ok || !reBits.MatchString(k) || (val != nil && len(k) != int(n)) {
				return shapeErr(path, "dictionary key of the declared width expected")
			}
			if val != nil {
				if err := ShapeOK(val, p[1], path+"[]"); err != nil {
					return err
				}
			}
		}
	case "named":
		name, _ := ty["name"].(string)
		def, ok := schemaAST[name].(map[string]any)
		if !ok {
			return shapeErr(path, "unknown type "+name)
		}
		return ShapeOK(def, v, path)
	default:
		return shapeErr(path, "unsupported schema node "+t)
	}
	return nil
}

// shapeOfDump checks a dump (as produced by tlbx.Dump) against schema type `name`; nil when no schema is loaded.
func shapeOfDump(name string, dv any) error {
	if schemaAST == nil {
		return nil
	}
	def, ok := schemaAST[name].(map[string]any)
	if !ok {
		return fmt.Errorf("no schema type %s", name)
	}
	raw, err := json.Marshal(dv)
	if err != nil {
		return err
	}
	var plain any
	if err := json.Unmarshal(raw, &plain); err != nil {
		return err
	}
	return ShapeOK(def, plain, name)
}
