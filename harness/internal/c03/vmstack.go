package c03

import (
	"bufio"
	"bytes"
	"encoding/hex"
	"encoding/json"
	"fmt"
	"math/big"
	"os"
	"reflect"
	"strconv"

	"github.com/tonkeeper/tongo/boc"
	"github.com/tonkeeper/tongo/tlb"

	"verifharness/internal/ev"
	"verifharness/internal/tlbx"
)

// ReplayVmStack runs the cases of spec/gen/VmStackApi_Gen.tla against the VM stack API of package tlb and records one
// event per case for spec/trace/VmStackApi_Trace.tla. Every API call runs under recover: an outcome is
// {"res": "ok" | "err" | "panic" | "na", ...}; nothing is judged here.

type vmVec struct {
	API  string `json:"api"`
	Cls  string `json:"cls"`
	Puts []struct {
		V  json.RawMessage `json:"v"`
		VC json.RawMessage `json:"vc"`
	} `json:"puts"`
	Tree json.RawMessage `json:"tree"`
	Boc  string          `json:"boc"`
	TL   string          `json:"tl"`
	V    json.RawMessage `json:"v"`
	VC   json.RawMessage `json:"vc"`
	Dest string          `json:"dest"`
	Stk  bool            `json:"stack"`
	S    json.RawMessage `json:"s"`
}

// outcome runs f under recover.
func outcome(f func(out ev.M) error) ev.M {
	out := ev.M{"res": "ok"}
	var err error
	var p any
	func() {
		defer func() { p = recover() }()
		err = f(out)
	}()
	if p != nil {
		return ev.M{"res": "panic", "panic": fmt.Sprint(p)}
	}
	if err != nil {
		return ev.M{"res": "err", "msg": err.Error()}
	}
	return out
}

func na() ev.M { return ev.M{"res": "na"} }

func stackList(read func(s *tlb.VmStack) error) ev.M {
	return outcome(func(out ev.M) error {
		var s tlb.VmStack
		if err := read(&s); err != nil {
			return err
		}
		out["list"] = vmTexts(s)
		return nil
	})
}

func vmStackCase(v vmVec) ev.M {
	m := ev.M{"k": "VmStack", "cls": v.Cls, "list": []string{}, "enc": "", "tree": "", "stree": "", "stl": v.TL}
	puts := make([]json.RawMessage, 0, len(v.Puts))
	vals := make([]tlb.VmStackValue, 0, len(v.Puts))
	for _, p := range v.Puts {
		puts = append(puts, p.V)
		var d vmVal
		if err := json.Unmarshal(p.V, &d); err != nil {
			return ev.M{"k": "VmBadVector", "msg": err.Error()}
		}
		var val tlb.VmStackValue
		if d.direct() {
			x, err := d.build()
			if err != nil {
				return ev.M{"k": "VmBadVector", "msg": err.Error()}
			}
			val = x
		} else {
			x, _, st := decodeValue(p.VC)
			if st != "ok" {
				// a value that only decoding can make, and decoding failed: the case cannot be run; the "value" cases show why
				return ev.M{"k": "VmBadVector", "msg": "value cell not decoded: " + st}
			}
			val = x
		}
		vals = append(vals, val)
	}
	m["puts"] = puts
	// Put
	s := tlb.VmStack{}
	po := outcome(func(out ev.M) error {
		for _, x := range vals {
			s.Put(x)
		}
		out["list"] = vmTexts(s)
		return nil
	})
	if po["res"] == "ok" {
		m["list"] = po["list"]
	} else {
		m["list"] = []string{"?" + fmt.Sprint(po["res"])}
	}
	// MarshalTLB, and UnmarshalTLB of that cell
	c, st, msg := marshal(s)
	m["enc"] = st
	m["rt"] = na()
	if st == "ok" {
		m["tree"] = tlbx.TreeText(c)
		m["rt"] = stackList(func(d *tlb.VmStack) error { c.ResetCounters(); return tlb.Unmarshal(c, d) })
	} else {
		m["msg"] = msg
	}
	// MarshalTL, and UnmarshalTL of those bytes
	var own []byte
	m["mtl"] = outcome(func(out ev.M) error {
		b, err := s.MarshalTL()
		if err != nil {
			return err
		}
		own = b
		out["hex"] = hex.EncodeToString(b)
		return nil
	})
	m["rttl"] = na()
	if own != nil {
		m["rttl"] = stackList(func(d *tlb.VmStack) error { return d.UnmarshalTL(bytes.NewReader(own)) })
	}
	// the specification's cell and the specification's TL bytes
	m["sdec"], m["sdectl"] = na(), na()
	if sc, err := cellOfRaw(v.Tree); err == nil {
		m["stree"] = tlbx.TreeText(sc)
		m["sdec"] = stackList(func(d *tlb.VmStack) error { return tlb.Unmarshal(sc, d) })
	}
	if raw, err := hex.DecodeString(v.TL); err == nil {
		m["sdectl"] = stackList(func(d *tlb.VmStack) error { return d.UnmarshalTL(bytes.NewReader(raw)) })
	}
	// empty TL bytes stand for the empty stack
	m["emptytl"] = stackList(func(d *tlb.VmStack) error { return d.UnmarshalTL(bytes.NewReader([]byte{0, 0, 0, 0})) })
	return m
}

func accessors(m ev.M, val tlb.VmStackValue) {
	flag := func(f func() bool) (b bool) {
		defer func() {
			if recover() != nil {
				b = false
				m["ispanic"] = true
			}
		}()
		return f()
	}
	m["is"] = ev.M{"nul": flag(val.IsNull), "int": flag(val.IsInt), "cell": flag(val.IsCell), "slice": flag(val.IsCellSlice), "tuple": flag(val.IsTuple)}
	str := func(f func() string) ev.M {
		return outcome(func(out ev.M) error { out["v"] = f(); return nil })
	}
	m["i64"] = str(func() string { return strconv.FormatInt(val.Int64(), 10) })
	m["u64"] = str(func() string { return strconv.FormatUint(val.Uint64(), 10) })
	m["i257"] = str(func() string { b := big.Int(val.Int257()); return b.String() })
	m["cell"] = str(func() string { return tlbx.TreeText(val.Cell()) })
	m["cslice"] = str(func() string { return tlbx.TreeText(val.CellSlice()) })
}

func toSlices(m ev.M, val tlb.VmStackValue) {
	m["rts"], m["trs"] = na(), na()
	if val.SumType != "VmStkTuple" {
		return
	}
	t := val.VmStkTuple
	m["rts"] = outcome(func(out ev.M) error {
		l, err := t.RecursiveToSlice()
		if err != nil {
			return err
		}
		out["list"] = vmTexts(l)
		return nil
	})
	if t.Data != nil {
		m["trs"] = outcome(func(out ev.M) error {
			l, err := t.Data.RecursiveToSlice(int(t.Len))
			if err != nil {
				return err
			}
			out["list"] = vmTexts(l)
			return nil
		})
	}
}

func vmValueCase(v vmVec, mode string) ev.M {
	m := ev.M{"k": "VmValue", "cls": v.Cls, "mode": mode, "v": v.V, "vctext": "", "dec": "", "text": ""}
	var val tlb.VmStackValue
	if c, err := cellOfRaw(v.VC); err == nil {
		m["vctext"] = tlbx.TreeText(c)
	}
	if mode == "direct" {
		var d vmVal
		if err := json.Unmarshal(v.V, &d); err != nil {
			return ev.M{"k": "VmBadVector", "msg": err.Error()}
		}
		x, err := d.build()
		if err != nil {
			return ev.M{"k": "VmBadVector", "msg": err.Error()}
		}
		val = x
		m["dec"] = "ok"
	} else {
		x, _, st := decodeValue(v.VC)
		val = x
		m["dec"] = st
	}
	if m["dec"] != "ok" {
		return m
	}
	m["text"] = vmText(val)
	accessors(m, val)
	toSlices(m, val)
	m["bodydec"] = na()
	if c, err := cellOfRaw(v.VC); err == nil && val.SumType == "VmStkTuple" {
		m["bodydec"] = outcome(func(out ev.M) error { var b tlb.VmTuple; return tlb.Unmarshal(c, &b) })
	}
	return m
}

func readInto(dest string, call func(ptr any) error) ev.M {
	mk, ok := vmDests[dest]
	if !ok {
		return ev.M{"res": "nodest"}
	}
	return outcome(func(out ev.M) error {
		ptr := mk()
		if err := call(ptr); err != nil {
			return err
		}
		out["val"] = destText(reflect.ValueOf(ptr).Elem())
		return nil
	})
}

func vmUnmarshalCase(v vmVec) ev.M {
	m := ev.M{"k": "VmUnmarshal", "cls": v.Cls, "v": v.V, "dest": v.Dest, "stack": v.Stk, "vctext": "", "text": "", "um": na(), "tum": na(), "rts": na(), "trs": na(), "sum": na()}
	val, ct, st := decodeValue(v.VC)
	m["vctext"], m["dec"] = ct, st
	if st != "ok" {
		return m
	}
	m["text"] = vmText(val)
	m["um"] = readInto(v.Dest, func(ptr any) error { return val.Unmarshal(ptr) })
	if val.SumType == "VmStkTuple" {
		t := val.VmStkTuple
		m["tum"] = readInto(v.Dest, func(ptr any) error { return t.Unmarshal(ptr) })
		toSlices(m, val)
		if v.Stk {
			// the entries as a result stack (bottom first), read by VmStack.Unmarshal
			if es, ok := tupleValues(t); ok {
				m["sum"] = readInto(v.Dest, func(ptr any) error { return tlb.VmStack(es).Unmarshal(ptr) })
			}
		}
	}
	return m
}

func vmStructCase(v vmVec) ev.M {
	m := ev.M{"k": "VmStruct", "cls": v.Cls, "s": v.S}
	var d vmStruct
	if err := json.Unmarshal(v.S, &d); err != nil {
		return ev.M{"k": "VmBadVector", "msg": err.Error()}
	}
	x, fresh, err := d.build()
	if err != nil {
		return ev.M{"k": "VmBadVector", "msg": err.Error()}
	}
	var vc, vs tlb.VmStackValue
	m["tocell"] = outcome(func(out ev.M) error {
		r, err := tlb.TlbStructToVmCell(x)
		vc = r
		out["text"] = vmText(r)
		return err
	})
	m["toslice"] = outcome(func(out ev.M) error {
		r, err := tlb.TlbStructToVmCellSlice(x)
		vs = r
		out["text"] = vmText(r)
		return err
	})
	back := func(call func(ptr any) error) ev.M {
		return outcome(func(out ev.M) error {
			ptr := fresh()
			if err := call(ptr); err != nil {
				return err
			}
			out["text"] = structText(ptr)
			return nil
		})
	}
	m["backcell"] = back(func(ptr any) error { return vc.Unmarshal(ptr) })
	m["backslice"] = back(func(ptr any) error { return vs.Unmarshal(ptr) })
	m["backslice2"] = back(func(ptr any) error { return vs.VmStkSlice.UnmarshalToTlbStruct(ptr) })
	// both on a stack, through the cell form of the stack and back
	m["viastack"] = outcome(func(out ev.M) error {
		out["tree"], out["list"], out["back"] = "", []string{}, []string{}
		var s tlb.VmStack
		s.Put(vc)
		s.Put(vs)
		c := boc.NewCell()
		if err := tlb.Marshal(c, s); err != nil {
			return err
		}
		out["tree"] = tlbx.TreeText(c)
		var r tlb.VmStack
		if err := tlb.Unmarshal(c, &r); err != nil {
			return err
		}
		out["list"] = vmTexts(r)
		bk := []string{}
		for _, e := range r {
			ptr := fresh()
			if err := e.Unmarshal(ptr); err != nil {
				bk = append(bk, "?err")
			} else {
				bk = append(bk, structText(ptr))
			}
		}
		out["back"] = bk
		return nil
	})
	return m
}

// ReplayVmStack: one vector per line of `in`, one event per vector (two for "value" cases the API can also construct).
func ReplayVmStack(in string, w *ev.Writer) error {
	f, err := os.Open(in)
	if err != nil {
		return err
	}
	defer f.Close()
	sc := bufio.NewScanner(f)
	sc.Buffer(make([]byte, 1<<20), 1<<26)
	for sc.Scan() {
		var v vmVec
		if err := json.Unmarshal(sc.Bytes(), &v); err != nil {
			return err
		}
		switch v.API {
		case "stack":
			w.Emit(vmStackCase(v))
		case "value":
			w.Emit(vmValueCase(v, "decode"))
			var d vmVal
			if json.Unmarshal(v.V, &d) == nil && d.direct() {
				w.Emit(vmValueCase(v, "direct"))
			}
		case "unmarshal":
			w.Emit(vmUnmarshalCase(v))
		case "struct":
			w.Emit(vmStructCase(v))
		default:
			return fmt.Errorf("unknown api %q", v.API)
		}
	}
	w.Emit(ev.M{"k": "End", "events": w.N})
	return sc.Err()
}
