// Package c11 binds spec/Adnl.tla to tongo's ADNL-over-TCP client.
//
// Replay (S->C) executes TLC-generated connection scripts step by step: the real client
// (liteclient.NewConnection / Send / Responses) talks over loopback TCP to the scripted reference
// server (internal/adnlsrv), which performs the segmentation, the faults and the closes the script
// asks for; after every step the observation the specification requires is compared. The same
// script's server->client byte stream as produced by the specification is fed to
// liteclient.ParsePacket directly ("pp"). Every executed connection is also recorded (C->S) as
// an NDJSON segment that spec/trace/Adnl_Trace.tla decrypts and verifies.
//
// Drive (C->S) records free-running echo sessions with payloads of arbitrary sizes 0..64 KiB.
package c11

import (
	"bufio"
	"bytes"
	"context"
	"crypto/aes"
	"crypto/cipher"
	"crypto/sha256"
	"encoding/hex"
	"encoding/json"
	"errors"
	"fmt"
	"io"
	"math/rand"
	"os"
	"runtime"
	"sync"
	"time"

	"github.com/tonkeeper/tongo/liteclient"

	"verifharness/internal/adnlsrv"
	"verifharness/internal/ev"
)

// every listener stays open (and referenced) until the process exits: tongo's Connection has no Close, its
// ping/reconnect goroutines live on, and must never reach a port that a later scripted server re-uses.
var (
	keepMu sync.Mutex
	keep   []*adnlsrv.Server
)

func newServer(seedText string) (*adnlsrv.Server, error) {
	s := sha256.Sum256([]byte(seedText))
	srv, err := adnlsrv.New(s[:])
	if err != nil {
		return nil, err
	}
	keepMu.Lock()
	keep = append(keep, srv)
	keepMu.Unlock()
	return srv, nil
}

const (
	stepTimeout = 10 * time.Second
	pingBudget  = 2500 * time.Millisecond // tongo pings after 3 s; a slower connection is re-run
)

// Pattern is payload k of direction d with n bytes; the same formula is Payload(d,k,n) in Adnl_Gen.tla
// (each Send step carries its sha256, which is checked before use).
func Pattern(d string, k, n int) []byte {
	c := 59
	if d == "c2s" {
		c = 101
	}
	b := make([]byte, n)
	for i := range b {
		b[i] = byte((7*i + 13*k + c + n) % 256)
	}
	return b
}

type ppkt struct {
	N   int    `json:"n"`
	Sha string `json:"sha"`
}

// Vec is one generated connection script.
type Vec struct {
	ID    int              `json:"id"`
	Cls   string           `json:"cls"`
	J     int              `json:"j"`
	Steps []map[string]any `json:"steps"`
	Hit   []int            `json:"hit"`
	PP    struct {
		Key    string `json:"key"`
		Iv     string `json:"iv"`
		Stream string `json:"stream"`
		Chunks []int  `json:"chunks"`
		Pkts   []ppkt `json:"pkts"`
		Wants  []int  `json:"wants"`
		End    string `json:"end"`
		Agrees bool   `json:"agrees"`
	} `json:"pp"`
}

func num(x any) int {
	if f, ok := x.(float64); ok {
		return int(f)
	}
	return 0
}
func str(x any) string { s, _ := x.(string); return s }
func nd(st map[string]any) (int, int) {
	a, _ := st["nd"].([]any)
	if len(a) != 2 {
		return -1, -1
	}
	return num(a[0]), num(a[1])
}
func flag2(st map[string]any, f string) (bool, bool) {
	a, _ := st[f].([]any)
	if len(a) != 2 {
		return false, false
	}
	x, _ := a[0].(bool)
	y, _ := a[1].(bool)
	return x, y
}

// outcome of one execution
type outcome struct {
	match     bool
	step      int
	got       ev.M
	what      string // short class of the divergence, part of the key
	retry     bool   // timing artefact (a tcp.ping appeared): run again
	infra     error  // the script itself could not be executed as written
	trace     []ev.M
	info      ev.M   // observations that are recorded but not judged
	swallowed string // content class of a packet that never reached the user
}

func (o *outcome) fail(i int, what string, got ev.M) *outcome {
	o.match, o.step, o.what, o.got = false, i, what, got
	return o
}

// contentClass names a payload by the constructor id it starts with and its length relative to a tcp.pong.
func contentClass(p []byte) string {
	name := "other"
	ids := []struct {
		n  string
		id [4]byte
	}{{"tcp.pong-id", [4]byte{0x03, 0xfb, 0x69, 0xdc}}, {"tcp.ping-id", [4]byte{0x9a, 0x2b, 0x08, 0x4d}},
		{"tcp.authentificationNonce-id", [4]byte{0xb6, 0x4a, 0x5d, 0xe3}}, {"tcp.authentificationComplete-id", [4]byte{0xa6, 0x9e, 0xad, 0xf7}},
		{"adnl.message.query-id", [4]byte{0x7a, 0xf9, 0x8b, 0xb4}}, {"adnl.message.answer-id", [4]byte{0x16, 0x84, 0xac, 0x0f}}}
	for _, x := range ids {
		if len(p) >= 4 && bytes.Equal(p[:4], x.id[:]) {
			name = x.n
		}
	}
	switch {
	case len(p) < 12:
		return name + ":len<12"
	case len(p) == 12:
		return name + ":len=12"
	}
	return name + ":len>12"
}

func head(b []byte, n int) []byte {
	if len(b) > n {
		return b[:n]
	}
	return b
}

func isPing(p []byte) bool {
	return len(p) == 12 && p[0] == 0x9a && p[1] == 0x2b && p[2] == 0x08 && p[3] == 0x4d
}

func le32(n int) []byte {
	return []byte{byte(n), byte(n >> 8), byte(n >> 16), byte(n >> 24)}
}

// runConn executes one script against the real client.
func runConn(v *Vec, seed int64, attempt int) *outcome {
	o := &outcome{match: true, step: -1}
	srv, err := newServer(fmt.Sprintf("C11/%d/%d/%d", seed, v.ID, attempt))
	if err != nil {
		o.infra = err
		return o
	}
	tr := func(m ev.M) { o.trace = append(o.trace, m) }
	handshakes := 0 // verified handshakes with this script's server identity
	var aux []ev.M  // trace segments of auxiliary connections; appended after the main segment
	defer func() { o.trace = append(o.trace, aux...); aux = nil }()
	tr(ev.M{"k": "Reset", "seed": hex.EncodeToString(srv.Seed()), "id": v.ID, "cls": v.Cls, "src": "script"})

	type dialRes struct {
		c   *liteclient.Connection
		err error
	}
	dialCh := make(chan dialRes, 1)
	var conn *liteclient.Connection
	var sc *adnlsrv.Conn
	dialDone := false
	var established, dialStart time.Time
	// the Packet values handed to Connection.Send, kept: the same value may be sent again, and sending must not alter it
	txPkt := map[int]liteclient.Packet{}
	sentPl := map[string][][]byte{"c2s": nil, "s2c": nil}
	gotC2S, gotS2C := 0, 0 // delivered counts (s2c includes the ack = NewConnection returned nil)
	// the very Packet values handed out by Responses() (never copies): "received with exactly the payload that
	// was sent" must still be true of them after later packets have been read
	type heldPkt struct {
		p   liteclient.Packet
		idx int // its index in the server->client sequence (1 = the ack)
	}
	var held []heldPkt
	changedAt, changedInfo := -1, ev.M(nil)
	recheck := func(step int) {
		for _, hp := range held {
			h := sha256.Sum256(hp.p.Payload)
			tr(ev.M{"k": "Recheck", "d": "s2c", "idx": hp.idx, "sha": hex.EncodeToString(h[:])})
			if changedAt < 0 && !bytes.Equal(hp.p.Payload, sentPl["s2c"][hp.idx-1]) {
				changedAt, changedInfo = step, ev.M{"packet": hp.idx, "len": len(hp.p.Payload), "after_packets": len(held) + 1}
			}
		}
	}
	// server->client packets the specification lets the connection keep or hand on ("free"): resolved when the
	// next packet that must be handed on arrives, or at the end
	var pendingFree []int
	takeFree := func(p liteclient.Packet) bool { // p is the oldest undecided one: it was handed on
		if len(pendingFree) == 0 || !bytes.Equal(p.Payload, sentPl["s2c"][pendingFree[0]-1]) {
			return false
		}
		tr(ev.M{"k": "Dlv", "d": "s2c", "hex": hex.EncodeToString(p.Payload)})
		held = append(held, heldPkt{p, pendingFree[0]})
		pendingFree = pendingFree[1:]
		return true
	}
	keptFree := func() { // the undecided ones were kept by the connection
		for range pendingFree {
			tr(ev.M{"k": "Absorb", "d": "s2c"})
		}
		pendingFree = nil
	}
	closedWrite := false
	closeWrite := func() {
		if sc != nil && !closedWrite {
			sc.CloseWrite()
			closedWrite = true
		}
	}
	defer func() {
		if sc != nil {
			sc.Close()
		}
	}()
	sawPing := false

	for i, st := range v.Steps {
		k := str(st["k"])
		d := str(st["d"])
		switch k {
		case "Hs":
			// several connections of this process to ONE server identity: complete earlier connections first
			for n := 1; n <= num(st["prior"]); n++ {
				ptr, psc, _, what, got := sessionOn(srv, "again", nil, n)
				aux = append(aux, ptr...)
				if psc != nil {
					defer psc.Close()
				}
				if what == "retry" {
					o.retry = true
					return o
				}
				if what != "" {
					got["connection_to_this_server"] = n
					return o.fail(i, what, got)
				}
				handshakes++
			}
			dialTimeout := 2 * stepTimeout
			if ms := num(st["dial"]); ms > 0 {
				// the connection is dialled under a context with a short deadline, as a pool with a dial timeout does
				dialTimeout = time.Duration(ms) * time.Millisecond
			}
			dialStart = time.Now()
			go func() {
				ctx, cancel := context.WithTimeout(context.Background(), dialTimeout)
				defer cancel()
				c, err := liteclient.NewConnection(ctx, srv.PublicKey(), srv.Addr())
				dialCh <- dialRes{c, err}
			}()
			sc, err = srv.Accept(stepTimeout)
			if err != nil {
				return o.fail(i, "no-tcp-connection", ev.M{"err": err.Error()})
			}
			sc.Manual = true
			tr(ev.M{"k": "Hs", "dial_ms": num(st["dial"])})
		case "Wait":
			if rest := time.Until(dialStart.Add(time.Duration(num(st["until"])) * time.Millisecond)); rest > 0 {
				time.Sleep(rest)
			}
			tr(ev.M{"k": "Wait", "ms_since_dial": int(time.Since(dialStart) / time.Millisecond)})
		case "Seg":
			n := num(st["n"])
			if d == "c2s" {
				b, err := sc.ReadRaw(n)
				if err != nil {
					return o.fail(i, "client-bytes-missing", ev.M{"read": len(b), "want": n, "err": err.Error()})
				}
				tr(ev.M{"k": "Seg", "d": d, "hex": hex.EncodeToString(b)})
			} else {
				b, err := sc.Flush(n)
				if len(b) != n {
					o.infra = fmt.Errorf("vec %d step %d: flush %d of %d (%v)", v.ID, i, len(b), n, err)
					return o
				}
				tr(ev.M{"k": "Seg", "d": d, "hex": hex.EncodeToString(b)})
			}
		case "HsDlv":
			err := sc.Handshake()
			ok := err == nil
			tr(ev.M{"k": "HsDlv", "ok": ok})
			if want, _ := st["ok"].(bool); ok != want {
				return o.fail(i, "handshake-verdict", ev.M{"ok": ok, "err": fmt.Sprint(err)})
			}
		case "Ack":
			if _, err := sc.Queue(nil); err != nil {
				o.infra = err
				return o
			}
			sentPl["s2c"] = append(sentPl["s2c"], []byte{})
			tr(ev.M{"k": "Send", "d": "s2c", "hex": ""})
		case "Send":
			again := num(st["again"])
			pl := Pattern(d, num(st["idx"]), num(st["size"]))
			if pre, _ := hex.DecodeString(str(st["pre"])); len(pre) > 0 {
				copy(pl, pre) // content classes: the payload starts with a constructor id
			}
			if again > 0 {
				if again > len(sentPl[d]) || d != "c2s" {
					o.infra = fmt.Errorf("vec %d step %d: bad resend", v.ID, i)
					return o
				}
				pl = sentPl[d][again-1]
			}
			if h := sha256.Sum256(pl); hex.EncodeToString(h[:]) != str(st["sha"]) {
				o.infra = fmt.Errorf("vec %d step %d: payload pattern differs from the generator's", v.ID, i)
				return o
			}
			if d == "s2c" {
				if _, err := sc.Queue(pl); err != nil {
					o.infra = err
					return o
				}
			} else {
				var p liteclient.Packet
				var err error
				if again > 0 {
					p = txPkt[again] // the very value that was sent before
				} else if p, err = liteclient.NewPacket(append([]byte{}, pl...)); err != nil {
					o.infra = err
					return o
				}
				idx := num(st["idx"])
				txPkt[idx] = p
				if e, _ := st["elsewhere"].(bool); e {
					// the same packet value is first offered to another connection (its own server, its own trace segment)
					etr, what, got := sendElsewhere(p, pl, fmt.Sprintf("C11/else/%d/%d/%d", seed, v.ID, attempt))
					aux = append(aux, etr...)
					if what != "" {
						return o.fail(i, what, got)
					}
				}
				if err = conn.Send(p); err != nil {
					return o.fail(i, "Send-error", ev.M{"err": err.Error(), "again": again})
				}
			}
			sentPl[d] = append(sentPl[d], pl)
			tr(ev.M{"k": "Send", "d": d, "hex": hex.EncodeToString(pl), "again": again})
			if d == "c2s" {
				// every packet value handed to Send so far must still be what it was
				for k := 1; k <= len(sentPl[d]); k++ {
					if q, ok := txPkt[k]; ok {
						h := sha256.Sum256(q.Payload)
						tr(ev.M{"k": "Recheck", "side": "tx", "d": d, "idx": k, "sha": hex.EncodeToString(h[:])})
						if !bytes.Equal(q.Payload, sentPl[d][k-1]) {
							return o.fail(i, "packet-altered-by-Send", ev.M{"packet": k})
						}
					}
				}
			}
		case "Hdr":
			if err := sc.QueueRaw(le32(num(st["n"]))); err != nil {
				o.infra = err
				return o
			}
			tr(ev.M{"k": "Hdr", "d": d, "n": num(st["n"])})
		case "Corrupt":
			if d == "s2c" {
				sc.CorruptOut(num(st["pos"]), byte(num(st["mask"])))
			} else {
				sc.CorruptIn(num(st["pos"]), byte(num(st["mask"])))
			}
			tr(ev.M{"k": "Corrupt", "d": d, "pos": num(st["pos"]), "mask": num(st["mask"])})
		case "Trunc":
			if d == "s2c" {
				sc.DropPending()
				closeWrite()
				tr(ev.M{"k": "Trunc", "d": d, "at": len(sc.RawOut())})
			} else {
				sc.SetInputEOF()
				tr(ev.M{"k": "Trunc", "d": d, "at": len(sc.SeenIn())})
			}
		case "Dlv":
			res := str(st["res"])
			idx := num(st["idx"])
			if d == "c2s" {
				var pl []byte
				var err error
				for {
					pl, err = sc.Next()
					if err == nil && isPing(pl) {
						sawPing = true
						continue
					}
					break
				}
				got := "pkt"
				switch {
				case err == nil:
				case errors.Is(err, adnlsrv.ErrBadLength), errors.Is(err, adnlsrv.ErrChecksum):
					got = "bad"
				case errors.Is(err, io.EOF), errors.Is(err, io.ErrUnexpectedEOF):
					got = "eof"
				default:
					got = "none"
				}
				if sawPing {
					o.retry = true
					return o
				}
				if got == "pkt" {
					gotC2S++
					tr(ev.M{"k": "Dlv", "d": d, "hex": hex.EncodeToString(pl)})
				} else if got != "none" {
					tr(ev.M{"k": "Dead", "d": d, "why": got})
				}
				if got != res {
					return o.fail(i, "server-receive", ev.M{"res": got, "err": fmt.Sprint(err)})
				}
				if got == "pkt" && (idx > len(sentPl[d]) || !bytes.Equal(pl, sentPl[d][idx-1])) {
					return o.fail(i, "server-received-other-payload", ev.M{"len": len(pl)})
				}
			} else if idx == 1 && !dialDone {
				// the acknowledgement: NewConnection returns
				select {
				case r := <-dialCh:
					dialDone = true
					conn = r.c
					if r.err == nil {
						gotS2C++
						established = time.Now()
						tr(ev.M{"k": "Dlv", "d": d, "hex": ""})
					} else {
						tr(ev.M{"k": "Dead", "d": d, "why": "NewConnection"})
					}
					if (r.err == nil) != (res == "pkt") {
						return o.fail(i, "NewConnection-result", ev.M{"err": fmt.Sprint(r.err)})
					}
				case <-time.After(stepTimeout):
					return o.fail(i, "NewConnection-hangs", ev.M{"timeout": true})
				}
			} else if res == "pkt" && str(st["user"]) == "yes" {
				// a packet the connection consumes itself (a real tcp.pong): its user sees nothing
				gotS2C++
				keptFree()
				tr(ev.M{"k": "Absorb", "d": d})
			} else if res == "pkt" && str(st["user"]) == "free" {
				gotS2C++
				pendingFree = append(pendingFree, idx)
			} else if res == "pkt" {
			wait:
				select {
				case p := <-conn.Responses():
					if takeFree(p) {
						goto wait
					}
					keptFree()
					gotS2C++
					tr(ev.M{"k": "Dlv", "d": d, "hex": hex.EncodeToString(p.Payload)})
					if idx > len(sentPl[d]) || !bytes.Equal(p.Payload, sentPl[d][idx-1]) {
						for later := idx; later < len(sentPl[d]); later++ {
							if bytes.Equal(p.Payload, sentPl[d][later]) {
								// a packet sent after this one arrived in its place: this one never reached the user
								o.swallowed = contentClass(sentPl[d][idx-1])
								return o.fail(i, "packet-swallowed", ev.M{"missing": hex.EncodeToString(head(sentPl[d][idx-1], 24)),
									"missing_len": len(sentPl[d][idx-1]), "arrived_instead_packet": later + 1})
							}
						}
						return o.fail(i, "client-delivered-other-payload", ev.M{"len": len(p.Payload)})
					}
					recheck(i) // the earlier packets, now that a later one has been read
					held = append(held, heldPkt{p, idx})
				case <-time.After(stepTimeout):
					// the recording ends here with the totals as they are: Adnl_Trace will find a deliverable packet left over
					tr(ev.M{"k": "Quiesce", "nd": []int{gotC2S, gotS2C}, "gave_up": true})
					return o.fail(i, "packet-not-delivered", ev.M{"timeout": true})
				}
			}
			// res bad/eof on a later server->client frame: the client's reader stops silently; nothing to observe
		case "End":
			closeWrite()
			if !dialDone {
				// the script ended with the client still inside NewConnection (nothing more will arrive)
				select {
				case r := <-dialCh:
					dialDone = true
					conn = r.c
					if r.err == nil {
						return o.fail(i, "NewConnection-ok-without-ack", ev.M{})
					}
				case <-time.After(stepTimeout):
					return o.fail(i, "NewConnection-hangs", ev.M{"timeout": true})
				}
			}
			if conn != nil {
			grace:
				select {
				case p := <-conn.Responses():
					if takeFree(p) {
						goto grace
					}
					tr(ev.M{"k": "Dlv", "d": "s2c", "hex": hex.EncodeToString(p.Payload)})
					return o.fail(i, "extra-packet-delivered", ev.M{"len": len(p.Payload)})
				case <-time.After(60 * time.Millisecond):
				}
			}
			keptFree()
			if _, cdead := flag2(st, "dd"); cdead && conn != nil {
				// the specification's client-side receiver has stopped; what does the Connection say about itself?
				o.info = ev.M{"receiver_stopped": true, "status_connected": conn.Status() == liteclient.Connected}
			}
			recheck(i)
			tr(ev.M{"k": "Quiesce", "nd": []int{gotC2S, gotS2C}})
			if changedAt >= 0 {
				return o.fail(changedAt, "payload-changed-after-delivery", changedInfo)
			}
			if rc, _ := st["reconnect"].(bool); rc && conn != nil {
				// the server drops the connection; the client notices on a failing write and reconnects by itself to the
				// same server identity: that handshake is verified like every other and the new connection must work
				sc.Close()
				failed := false
				for t0 := time.Now(); time.Since(t0) < 3*time.Second && !failed; time.Sleep(3 * time.Millisecond) {
					q, _ := liteclient.NewPacket([]byte{1, 2, 3})
					failed = conn.Send(q) != nil
				}
				if !failed {
					o.infra = fmt.Errorf("vec %d: writes to a closed connection keep succeeding", v.ID)
					return o
				}
				rtr, rsc, _, what, got := sessionOn(srv, "reconnect", conn, 9)
				aux = append(aux, rtr...)
				if rsc != nil {
					defer rsc.Close()
				}
				if what == "retry" {
					o.retry = true
					return o
				}
				if what != "" {
					return o.fail(i, what, got)
				}
				handshakes++
				if o.info == nil {
					o.info = ev.M{}
				}
				o.info["handshakes_same_server"] = handshakes + 1 // + the scripted connection itself
			}
		default:
			o.infra = fmt.Errorf("vec %d step %d: unknown step %q", v.ID, i, k)
			return o
		}
		// observation after the step
		wc, ws := nd(st)
		if wc != gotC2S || ws != gotS2C {
			if !(k == "Dlv" && d == "s2c" && str(st["res"]) != "pkt") { // unobservable receiver stop
				return o.fail(i, "delivered-count", ev.M{"nd": []int{gotC2S, gotS2C}})
			}
		}
		if _, es := flag2(st, "ee"); es && sc != nil && sc.Pending() == 0 {
			closeWrite()
		}
		if !established.IsZero() && time.Since(established) > pingBudget {
			o.retry = true
			return o
		}
	}
	return o
}

// sessionOn runs one small complete exchange over a NEW connection to the server identity srv and records it as a trace
// segment of its own: the server verifies the handshake, acknowledges, one packet travels in each direction.
// conn == nil: the connection is made with liteclient.NewConnection; otherwise the handshake is expected from conn's
// own reconnect. The server side stays open (the caller closes it) so that no stray reconnect reaches srv meanwhile.
func sessionOn(srv *adnlsrv.Server, cls string, conn *liteclient.Connection, tag int) (tr []ev.M, sc *adnlsrv.Conn, c *liteclient.Connection, what string, got ev.M) {
	add := func(m ev.M) { tr = append(tr, m) }
	add(ev.M{"k": "Reset", "seed": hex.EncodeToString(srv.Seed()), "id": tag, "cls": cls, "src": "aux"})
	type dialRes struct {
		c   *liteclient.Connection
		err error
	}
	dialCh := make(chan dialRes, 1)
	if conn == nil {
		go func() {
			c, err := liteclient.NewConnection(context.Background(), srv.PublicKey(), srv.Addr())
			dialCh <- dialRes{c, err}
		}()
	}
	sc, err := srv.Accept(stepTimeout)
	if err != nil {
		return tr, nil, conn, "no-tcp-connection", ev.M{"err": err.Error(), "where": cls}
	}
	add(ev.M{"k": "Hs", "dial_ms": 0})
	herr := sc.Handshake()
	add(ev.M{"k": "Seg", "d": "c2s", "hex": hex.EncodeToString(sc.SeenIn())})
	add(ev.M{"k": "HsDlv", "ok": herr == nil})
	if herr != nil {
		sc.CloseWrite()
		return tr, sc, conn, "handshake-verdict", ev.M{"ok": false, "err": herr.Error(), "where": cls}
	}
	add(ev.M{"k": "Send", "d": "s2c", "hex": ""})
	if err := sc.SendPacket(nil); err != nil {
		return tr, sc, conn, "aux-server", ev.M{"err": err.Error()}
	}
	outAt := len(sc.RawOut())
	add(ev.M{"k": "Seg", "d": "s2c", "hex": hex.EncodeToString(sc.RawOut())})
	if conn == nil {
		select {
		case r := <-dialCh:
			if r.err != nil {
				add(ev.M{"k": "Dead", "d": "s2c", "why": "NewConnection"})
				return tr, sc, conn, "NewConnection-result", ev.M{"err": r.err.Error(), "where": cls}
			}
			conn = r.c
		case <-time.After(stepTimeout):
			return tr, sc, conn, "NewConnection-hangs", ev.M{"timeout": true, "where": cls}
		}
	} else {
		for t0 := time.Now(); conn.Status() != liteclient.Connected; time.Sleep(2 * time.Millisecond) {
			if time.Since(t0) > stepTimeout {
				return tr, sc, conn, "reconnect-not-completed", ev.M{"timeout": true}
			}
		}
	}
	add(ev.M{"k": "Dlv", "d": "s2c", "hex": ""})
	up, down := Pattern("c2s", 40+tag, 33+tag), Pattern("s2c", 50+tag, 21+tag)
	p, err := liteclient.NewPacket(append([]byte{}, up...))
	if err != nil {
		return tr, sc, conn, "aux-server", ev.M{"err": err.Error()}
	}
	add(ev.M{"k": "Send", "d": "c2s", "hex": hex.EncodeToString(up), "again": 0})
	if err := conn.Send(p); err != nil {
		return tr, sc, conn, "Send-error", ev.M{"err": err.Error(), "where": cls}
	}
	at := len(sc.SeenIn())
	rcv, rerr := sc.ReadPacket()
	for rerr == nil && isPing(rcv) {
		rcv, rerr = sc.ReadPacket() // (pings of a connection that has lived for a while; the segment will not balance and is re-run)
		what = "retry"
	}
	if n := len(sc.SeenIn()); n > at {
		add(ev.M{"k": "Seg", "d": "c2s", "hex": hex.EncodeToString(sc.SeenIn()[at:n])})
	}
	if what == "retry" {
		return tr, sc, conn, what, nil
	}
	if rerr != nil {
		add(ev.M{"k": "Dead", "d": "c2s", "why": rerr.Error()})
		return tr, sc, conn, "server-receive", ev.M{"err": rerr.Error(), "where": cls}
	}
	add(ev.M{"k": "Dlv", "d": "c2s", "hex": hex.EncodeToString(rcv)})
	if !bytes.Equal(rcv, up) {
		return tr, sc, conn, "server-received-other-payload", ev.M{"len": len(rcv), "where": cls}
	}
	add(ev.M{"k": "Send", "d": "s2c", "hex": hex.EncodeToString(down)})
	if err := sc.SendPacket(down); err != nil {
		return tr, sc, conn, "aux-server", ev.M{"err": err.Error()}
	}
	add(ev.M{"k": "Seg", "d": "s2c", "hex": hex.EncodeToString(sc.RawOut()[outAt:])})
	select {
	case q := <-conn.Responses():
		add(ev.M{"k": "Dlv", "d": "s2c", "hex": hex.EncodeToString(q.Payload)})
		if !bytes.Equal(q.Payload, down) {
			return tr, sc, conn, "client-delivered-other-payload", ev.M{"len": len(q.Payload), "where": cls}
		}
	case <-time.After(stepTimeout):
		add(ev.M{"k": "Quiesce", "nd": []int{1, 1}, "gave_up": true})
		return tr, sc, conn, "packet-not-delivered", ev.M{"timeout": true, "where": cls}
	}
	add(ev.M{"k": "Quiesce", "nd": []int{1, 2}})
	return tr, sc, conn, "", nil
}

// sendElsewhere sends the packet value p (payload pl) on a connection of its own to a reference server of its own
// and records that connection as a trace segment. what != "" names a divergence.
func sendElsewhere(p liteclient.Packet, pl []byte, seedText string) (tr []ev.M, what string, got ev.M) {
	srv, err := newServer(seedText)
	if err != nil {
		return nil, "aux-server", ev.M{"err": err.Error()}
	}
	add := func(m ev.M) { tr = append(tr, m) }
	add(ev.M{"k": "Reset", "seed": hex.EncodeToString(srv.Seed()), "id": 0, "cls": "elsewhere", "src": "aux"})
	type dialRes struct {
		c   *liteclient.Connection
		err error
	}
	dialCh := make(chan dialRes, 1)
	go func() {
		c, err := liteclient.NewConnection(context.Background(), srv.PublicKey(), srv.Addr())
		dialCh <- dialRes{c, err}
	}()
	sc, err := srv.Accept(stepTimeout)
	if err != nil {
		return tr, "no-tcp-connection", ev.M{"err": err.Error()}
	}
	defer sc.Close()
	add(ev.M{"k": "Hs", "dial_ms": 0})
	herr := sc.Handshake()
	add(ev.M{"k": "Seg", "d": "c2s", "hex": hex.EncodeToString(sc.SeenIn())})
	add(ev.M{"k": "HsDlv", "ok": herr == nil})
	if herr != nil {
		return tr, "handshake-verdict", ev.M{"err": herr.Error()}
	}
	add(ev.M{"k": "Send", "d": "s2c", "hex": ""})
	if err := sc.SendPacket(nil); err != nil {
		return tr, "aux-server", ev.M{"err": err.Error()}
	}
	add(ev.M{"k": "Seg", "d": "s2c", "hex": hex.EncodeToString(sc.RawOut())})
	var r dialRes
	select {
	case r = <-dialCh:
	case <-time.After(stepTimeout):
		return tr, "NewConnection-hangs", ev.M{"timeout": true}
	}
	if r.err != nil {
		add(ev.M{"k": "Dead", "d": "s2c", "why": "NewConnection"})
		return tr, "NewConnection-result", ev.M{"err": r.err.Error()}
	}
	add(ev.M{"k": "Dlv", "d": "s2c", "hex": ""})
	add(ev.M{"k": "Send", "d": "c2s", "hex": hex.EncodeToString(pl), "again": 0})
	if err := r.c.Send(p); err != nil {
		return tr, "Send-error", ev.M{"err": err.Error(), "where": "elsewhere"}
	}
	at := len(sc.SeenIn())
	rcv, rerr := sc.ReadPacket()
	if n := len(sc.SeenIn()); n > at {
		add(ev.M{"k": "Seg", "d": "c2s", "hex": hex.EncodeToString(sc.SeenIn()[at:n])})
	}
	if rerr != nil {
		add(ev.M{"k": "Dead", "d": "c2s", "why": rerr.Error()})
		return tr, "server-receive", ev.M{"err": rerr.Error(), "where": "elsewhere"}
	}
	add(ev.M{"k": "Dlv", "d": "c2s", "hex": hex.EncodeToString(rcv)})
	h := sha256.Sum256(p.Payload)
	add(ev.M{"k": "Recheck", "side": "tx", "d": "c2s", "idx": 1, "sha": hex.EncodeToString(h[:])})
	add(ev.M{"k": "Quiesce", "nd": []int{1, 1}})
	if !bytes.Equal(rcv, pl) {
		return tr, "server-received-other-payload", ev.M{"len": len(rcv), "where": "elsewhere"}
	}
	return tr, "", nil
}

// chunkReader hands out the stream in the script's segments and records the size of every read request.
type chunkReader struct {
	data   []byte
	chunks []int
	ci     int
	left   int // bytes left in the current chunk
	remain int // bytes left of the current request
	wants  []int
}

func (r *chunkReader) Read(p []byte) (int, error) {
	if len(p) == 0 {
		return 0, nil
	}
	if r.remain == 0 {
		r.remain = len(p)
		r.wants = append(r.wants, len(p))
	}
	for r.left == 0 {
		if r.ci >= len(r.chunks) {
			if len(r.data) == 0 {
				return 0, io.EOF
			}
			r.left = len(r.data)
			break
		}
		r.left = r.chunks[r.ci]
		r.ci++
	}
	n := len(p)
	if n > r.left {
		n = r.left
	}
	if n > len(r.data) {
		n = len(r.data)
	}
	copy(p, r.data[:n])
	r.data = r.data[n:]
	r.left -= n
	r.remain -= n
	return n, nil
}

// runPP feeds the specification's server->client stream to liteclient.ParsePacket.
func runPP(v *Vec) (o *outcome) {
	o = &outcome{match: true, step: -1}
	key, e1 := hex.DecodeString(v.PP.Key)
	iv, e2 := hex.DecodeString(v.PP.Iv)
	stream, e3 := hex.DecodeString(v.PP.Stream)
	if e1 != nil || e2 != nil || e3 != nil || !v.PP.Agrees {
		o.infra = fmt.Errorf("vec %d: bad pp block", v.ID)
		return o
	}
	var dec cipher.Stream
	if len(key) == 32 {
		blk, _ := aes.NewCipher(key)
		dec = cipher.NewCTR(blk, iv)
	} else if len(stream) > 0 {
		o.infra = fmt.Errorf("vec %d: stream without key", v.ID)
		return o
	} else {
		blk, _ := aes.NewCipher(make([]byte, 32))
		dec = cipher.NewCTR(blk, make([]byte, 16))
	}
	r := &chunkReader{data: stream, chunks: v.PP.Chunks}
	var got [][]byte        // the very slices ParsePacket handed out (never copies)
	var atDelivery []string // their sha256 at the moment they were handed out
	var lastErr error
	defer func() {
		if p := recover(); p != nil {
			o.fail(len(got), "ParsePacket-panic", ev.M{"panic": fmt.Sprint(p)})
		}
	}()
	sha := func(b []byte) string { h := sha256.Sum256(b); return hex.EncodeToString(h[:]) }
	changed := ev.M(nil)
	recheck := func() { // after every later call: do the packets handed out earlier still hold their payload?
		for j, g := range got {
			if changed == nil && sha(g) != atDelivery[j] {
				changed = ev.M{"packet": j + 1, "len": len(g), "after_calls": len(got) + 1}
			}
		}
	}
	for len(got) <= len(v.PP.Pkts)+2 {
		p, err := liteclient.ParsePacket(r, dec)
		recheck()
		if err != nil {
			lastErr = err
			break
		}
		got = append(got, p.Payload)
		atDelivery = append(atDelivery, sha(p.Payload))
	}
	sizes := make([]int, len(got))
	for i, g := range got {
		sizes[i] = len(g)
	}
	obs := ev.M{"delivered": sizes, "wants": r.wants, "err": ev.ErrClass(lastErr)}
	if len(got) != len(v.PP.Pkts) {
		return o.fail(len(got), "delivered-count", obs)
	}
	for i, g := range got {
		if len(g) != v.PP.Pkts[i].N || atDelivery[i] != v.PP.Pkts[i].Sha {
			return o.fail(i, "payload", obs)
		}
	}
	if changed != nil {
		obs["changed"] = changed
		return o.fail(changed["packet"].(int)-1, "payload-changed-after-delivery", obs)
	}
	if lastErr == nil {
		return o.fail(len(got), "no-error-at-end", obs)
	}
	if fmt.Sprint(r.wants) != fmt.Sprint(v.PP.Wants) {
		return o.fail(len(got), "read-sizes", obs)
	}
	return o
}

type Opts struct {
	Seed    int64
	Workers int
	Trace   string // where the recorded connections go ("" = nowhere)
}

// Replay runs every vector of `in` in both modes and writes one result line per vector and mode.
func Replay(in string, w *ev.Writer, op Opts) error {
	f, err := os.Open(in)
	if err != nil {
		return err
	}
	defer f.Close()
	sc := bufio.NewScanner(f)
	sc.Buffer(make([]byte, 1<<20), 1<<28)
	var vecs []*Vec
	for sc.Scan() {
		if len(bytes.TrimSpace(sc.Bytes())) == 0 {
			continue
		}
		v := &Vec{}
		if err := json.Unmarshal(sc.Bytes(), v); err != nil {
			return fmt.Errorf("vector %d: %v", len(vecs), err)
		}
		vecs = append(vecs, v)
	}
	if err := sc.Err(); err != nil {
		return err
	}
	var tw *ev.Writer
	if op.Trace != "" {
		if tw, err = ev.Create(op.Trace); err != nil {
			return err
		}
	}
	if op.Workers <= 0 {
		op.Workers = 6
	}
	var mu sync.Mutex
	var firstInfra error
	emit := func(v *Vec, mode string, o *outcome) {
		mu.Lock()
		defer mu.Unlock()
		if o.infra != nil {
			if firstInfra == nil {
				firstInfra = o.infra
			}
			return
		}
		m := ev.M{"vec": v.ID, "cls": v.Cls, "mode": mode, "match": o.match, "steps": len(v.Steps)}
		if o.info != nil {
			m["info"] = o.info
		}
		if !o.match {
			m["i"] = o.step
			m["what"] = o.what
			m["got"] = o.got
			if mode == "conn" && o.step >= 0 && o.step < len(v.Steps) {
				m["exp"] = v.Steps[o.step]
			}
			if mode == "pp" {
				sz := make([]int, len(v.PP.Pkts))
				for i, p := range v.PP.Pkts {
					sz[i] = p.N
				}
				m["exp"] = ev.M{"delivered": sz, "wants": v.PP.Wants, "end": v.PP.End}
			}
			m["key"] = "C11:" + mode + ":" + v.Cls + ":" + o.what
			if o.what == "payload-changed-after-delivery" {
				m["key"] = "C11:payload-changed-after-delivery" // one defect class whatever the script
			}
			if o.what == "packet-swallowed" {
				m["key"] = "C11:packet-swallowed:" + o.swallowed // the payload's content class, not the script
			}
			if o.what == "client-delivered-other-payload" {
				m["key"] = "C11:conn:client-delivered-other-payload" // likewise independent of the script's fault class
			}
		}
		w.Emit(m)
		if tw != nil && mode == "conn" && len(o.trace) > 0 {
			for _, e := range o.trace {
				tw.Emit(e)
			}
		}
	}
	// ParsePacket directly: one goroutine on one P and nothing else running, so that whatever the code keeps
	// between calls (pools, caches) behaves the same way in every run
	prev := runtime.GOMAXPROCS(1)
	for _, v := range vecs {
		emit(v, "pp", runPP(v))
	}
	runtime.GOMAXPROCS(prev)
	jobs := make(chan *Vec)
	var wg sync.WaitGroup
	for i := 0; i < op.Workers; i++ {
		wg.Add(1)
		go func() {
			defer wg.Done()
			for v := range jobs {
				var o *outcome
				for attempt := 0; attempt < 4; attempt++ {
					o = runConn(v, op.Seed, attempt)
					if !o.retry {
						break
					}
				}
				if o.retry {
					o.infra = fmt.Errorf("vec %d: connection kept exceeding the ping budget", v.ID)
				}
				emit(v, "conn", o)
			}
		}()
	}
	for _, v := range vecs {
		jobs <- v
	}
	close(jobs)
	wg.Wait()
	if tw != nil {
		tw.Emit(ev.M{"k": "End", "events": tw.N})
		if err := tw.Close(); err != nil {
			return err
		}
	}
	if firstInfra != nil {
		return firstInfra
	}
	w.Emit(ev.M{"k": "End", "events": len(vecs)})
	return nil
}

// Drive records free-running echo sessions: the client sends payloads of arbitrary sizes, the
// reference server (automatic mode) echoes each one back, both APIs' views and the raw bytes are logged.
func Drive(w *ev.Writer, tier string, seed int64, shard, shards int) error {
	sessions := 8
	if tier == "thorough" {
		sessions = 96
	}
	rng := rand.New(rand.NewSource(seed*1000003 + int64(shard)))
	special := []int{0, 1, 3, 4, 15, 16, 17, 60, 255, 256, 1000, 4095, 4096, 16383, 65535, 65536}
	for s := shard; s < sessions; s += shards {
		var tr []ev.M
		var err error
		for attempt := 0; attempt < 4; attempt++ {
			tr, err = echoSession(rng, seed, s, attempt, special)
			if err != errRetry {
				break
			}
		}
		if err != nil {
			return fmt.Errorf("echo session %d: %v", s, err)
		}
		for _, e := range tr {
			w.Emit(e)
		}
	}
	w.Emit(ev.M{"k": "End", "events": w.N})
	return nil
}

var errRetry = errors.New("retry")

func echoSession(rng *rand.Rand, seed int64, s, attempt int, special []int) ([]ev.M, error) {
	srv, err := newServer(fmt.Sprintf("C11/echo/%d/%d/%d", seed, s, attempt))
	if err != nil {
		return nil, err
	}
	var tr []ev.M
	add := func(m ev.M) { tr = append(tr, m) }
	add(ev.M{"k": "Reset", "seed": hex.EncodeToString(srv.Seed()), "id": s, "cls": "echo", "src": "echo"})
	type dialRes struct {
		c   *liteclient.Connection
		err error
	}
	dialCh := make(chan dialRes, 1)
	go func() {
		ctx, cancel := context.WithTimeout(context.Background(), stepTimeout)
		defer cancel()
		c, err := liteclient.NewConnection(ctx, srv.PublicKey(), srv.Addr())
		dialCh <- dialRes{c, err}
	}()
	sc, err := srv.Accept(stepTimeout)
	if err != nil {
		return nil, err
	}
	defer sc.Close()
	add(ev.M{"k": "Hs"})
	// automatic mode: the server reads what it needs
	herr := sc.Handshake()
	add(ev.M{"k": "Seg", "d": "c2s", "hex": hex.EncodeToString(sc.SeenIn())})
	add(ev.M{"k": "HsDlv", "ok": herr == nil})
	if herr != nil {
		// the specification judges whether rejecting these bytes was right; nothing more can happen
		sc.CloseWrite()
		<-dialCh
		add(ev.M{"k": "Quiesce", "nd": []int{0, 0}})
		return tr, nil
	}
	inAt, outAt := len(sc.SeenIn()), 0
	flushLog := func() {
		if n := len(sc.RawOut()); n > outAt {
			add(ev.M{"k": "Seg", "d": "s2c", "hex": hex.EncodeToString(sc.RawOut()[outAt:n])})
			outAt = n
		}
	}
	add(ev.M{"k": "Send", "d": "s2c", "hex": ""})
	if err := sc.SendPacket(nil); err != nil {
		return nil, err
	}
	flushLog()
	r := <-dialCh
	if r.err != nil {
		add(ev.M{"k": "Dead", "d": "s2c", "why": "NewConnection"})
		add(ev.M{"k": "Quiesce", "nd": []int{0, 0}})
		return tr, nil
	}
	start := time.Now()
	add(ev.M{"k": "Dlv", "d": "s2c", "hex": ""})
	conn := r.c
	nc, ns := 0, 1
	var held []liteclient.Packet // the Packet values handed out by Responses(), kept and re-read (never copied)
	recheck := func() {
		for j, hp := range held {
			h := sha256.Sum256(hp.Payload)
			add(ev.M{"k": "Recheck", "d": "s2c", "idx": j + 2, "sha": hex.EncodeToString(h[:])})
		}
	}
	packets := 1 + rng.Intn(6)
	for k := 0; k < packets; k++ {
		var n int
		switch rng.Intn(4) {
		case 0:
			n = special[rng.Intn(len(special))]
		case 1:
			n = rng.Intn(200)
		default:
			n = rng.Intn(65537)
		}
		if n == 12 {
			n = 13 // 12-byte payloads are reserved for telling tcp.ping apart
		}
		pl := make([]byte, n)
		rng.Read(pl)
		if n >= 4 && (pl[0] == 0x03 && pl[1] == 0xfb || pl[0] == 0xb6 && pl[1] == 0x4a) {
			pl[0] ^= 0x55 // tcp.pong / authentification nonce are consumed by the Connection itself
		}
		p, err := liteclient.NewPacket(append([]byte{}, pl...))
		if err != nil {
			return nil, err
		}
		add(ev.M{"k": "Send", "d": "c2s", "hex": hex.EncodeToString(pl)})
		if err := conn.Send(p); err != nil {
			// a failed Send on a healthy connection: the trace ends here and Quiesce will not balance
			add(ev.M{"k": "Quiesce", "nd": []int{nc, ns}, "send_err": err.Error()})
			return tr, nil
		}
		got, rerr := sc.ReadPacket()
		if n := len(sc.SeenIn()); n > inAt {
			add(ev.M{"k": "Seg", "d": "c2s", "hex": hex.EncodeToString(sc.SeenIn()[inAt:n])})
			inAt = n
		}
		if rerr == nil && isPing(got) {
			return nil, errRetry
		}
		if rerr != nil {
			add(ev.M{"k": "Dead", "d": "c2s", "why": rerr.Error()})
			add(ev.M{"k": "Quiesce", "nd": []int{nc, ns}})
			return tr, nil
		}
		nc++
		add(ev.M{"k": "Dlv", "d": "c2s", "hex": hex.EncodeToString(got)})
		// echo what was received
		add(ev.M{"k": "Send", "d": "s2c", "hex": hex.EncodeToString(got)})
		if err := sc.SendPacket(got); err != nil {
			return nil, err
		}
		flushLog()
		select {
		case p := <-conn.Responses():
			ns++
			add(ev.M{"k": "Dlv", "d": "s2c", "hex": hex.EncodeToString(p.Payload)})
			recheck()
			held = append(held, p)
		case <-time.After(stepTimeout):
			add(ev.M{"k": "Quiesce", "nd": []int{nc, ns}, "timeout": true})
			return tr, nil
		}
		if time.Since(start) > pingBudget {
			return nil, errRetry
		}
	}
	sc.CloseWrite()
	add(ev.M{"k": "Trunc", "d": "s2c", "at": len(sc.RawOut())})
	select {
	case p := <-conn.Responses():
		add(ev.M{"k": "Dlv", "d": "s2c", "hex": hex.EncodeToString(p.Payload)})
	case <-time.After(40 * time.Millisecond):
	}
	recheck()
	add(ev.M{"k": "Quiesce", "nd": []int{nc, ns}})
	return tr, nil
}
