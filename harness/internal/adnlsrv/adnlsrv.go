// Package adnlsrv is a scripted reference ADNL-over-TCP server (lite-server transport), written from
// the ADNL-TCP description and independent of tongo's liteclient package: standard library only
// (crypto/ecdh for X25519, math/big for the Ed25519 -> curve25519 conversion).
//
// Protocol (see /verif/spec/Adnl.tla, which is the normative text here):
//
//	handshake (client -> server, 256 bytes): sha256(c6b41348 || server pub) || client ephemeral ed25519 pub
//	    || sha256(params) || AES-256-CTR(params), key = shared[0:16]||hash[16:32], iv = hash[0:4]||shared[20:32]
//	params (160 bytes): [0:32] key and [64:80] iv of the server->client stream,
//	    [32:64] key and [80:96] iv of the client->server stream
//	frame: len32le || nonce(32) || payload || sha256(nonce||payload), len = 64+|payload|, 64 <= len <= 8 MiB,
//	    encrypted with the direction's continuing AES-CTR stream; the server acknowledges the handshake with
//	    an empty packet.
//
// Two ways to use it:
//
//   - convenience: srv.Serve(func(c *Conn){ for { p, err := c.ReadPacket(); ...; c.SendPacket(answer) } })
//     (the handshake and the empty acknowledgement are done before the handler runs);
//   - scripted, step by step (Conn.Manual = true): ReadRaw / TryHandshake / Next / Queue / Flush /
//     CorruptOut / CorruptIn / DropPending / CloseWrite, which never touch the socket unless told to.
//
// Both raw byte streams are recorded (RawIn, RawOut) together with the session parameters.
package adnlsrv

import (
	"bytes"
	"crypto/aes"
	"crypto/cipher"
	"crypto/ecdh"
	"crypto/ed25519"
	"crypto/rand"
	"crypto/sha256"
	"crypto/sha512"
	"encoding/binary"
	"errors"
	"fmt"
	"io"
	"math/big"
	"net"
	"sync"
	"time"
)

const (
	HandshakeLen = 256
	MinLen       = 64
	MaxLen       = 8 << 20
)

var (
	ErrNeedMore  = errors.New("adnlsrv: not enough bytes buffered (manual mode)")
	ErrKeyID     = errors.New("adnlsrv: handshake is for another key")
	ErrParamHash = errors.New("adnlsrv: handshake parameters do not match their hash")
	ErrBadLength = errors.New("adnlsrv: frame length out of bounds")
	ErrChecksum  = errors.New("adnlsrv: frame checksum mismatch")
)

// Server is a listener on 127.0.0.1 bound to one Ed25519 key.
type Server struct {
	seed []byte
	pub  ed25519.PublicKey
	ln   net.Listener
	// Timeout bounds every blocking socket operation of the connections (default 10 s).
	Timeout time.Duration
}

// New listens on 127.0.0.1:0 with the key derived from the 32-byte seed.
func New(seed []byte) (*Server, error) {
	if len(seed) != ed25519.SeedSize {
		return nil, fmt.Errorf("adnlsrv: seed must be %d bytes", ed25519.SeedSize)
	}
	ln, err := net.Listen("tcp", "127.0.0.1:0")
	if err != nil {
		return nil, err
	}
	priv := ed25519.NewKeyFromSeed(seed)
	return &Server{seed: append([]byte{}, seed...), pub: priv.Public().(ed25519.PublicKey), ln: ln, Timeout: 10 * time.Second}, nil
}

func (s *Server) Addr() string           { return s.ln.Addr().String() }
func (s *Server) PublicKey() []byte      { return append([]byte{}, s.pub...) }
func (s *Server) Seed() []byte           { return append([]byte{}, s.seed...) }
func (s *Server) KeyID() []byte          { return KeyID(s.pub) }
func (s *Server) Close() error           { return s.ln.Close() }
func (s *Server) Listener() net.Listener { return s.ln }

// KeyID is sha256 of the TL-boxed key: pub.ed25519#4813b4c6 key:int256.
func KeyID(pub []byte) []byte {
	h := sha256.New()
	h.Write([]byte{0xc6, 0xb4, 0x13, 0x48})
	h.Write(pub)
	return h.Sum(nil)
}

// Accept waits for the next TCP connection. Nothing is read yet.
func (s *Server) Accept(timeout time.Duration) (*Conn, error) {
	if tl, ok := s.ln.(*net.TCPListener); ok && timeout > 0 {
		tl.SetDeadline(time.Now().Add(timeout))
	}
	nc, err := s.ln.Accept()
	if err != nil {
		return nil, err
	}
	if tc, ok := nc.(*net.TCPConn); ok {
		tc.SetNoDelay(true)
	}
	return &Conn{srv: s, nc: nc, inFault: map[int]byte{}, outFault: map[int]byte{}, Rand: rand.Reader}, nil
}

// Serve accepts connections until the listener is closed; each one gets the handshake and the
// empty acknowledgement, then the handler runs in its own goroutine. A connection whose
// handshake fails is closed silently.
func (s *Server) Serve(h func(c *Conn)) {
	for {
		c, err := s.Accept(0)
		if err != nil {
			return
		}
		go func() {
			defer c.Close()
			if err := c.Handshake(); err != nil {
				return
			}
			if err := c.SendPacket(nil); err != nil {
				return
			}
			h(c)
		}()
	}
}

// Conn is the server side of one connection.
type Conn struct {
	srv *Server
	nc  net.Conn
	mu  sync.Mutex // guards the write side (Queue/Flush from several goroutines)

	// Manual: parsing functions use only what ReadRaw has buffered and report ErrNeedMore otherwise.
	Manual bool
	// Rand supplies frame nonces (crypto/rand by default).
	Rand io.Reader

	rawIn, seenIn, rawOut []byte // as read from the socket / after input faults / as written (after output faults)
	inbuf                 []byte // arrived, not yet consumed by the parser
	inEOF                 bool   // no more input will be read
	pending               []byte // encrypted, not yet written
	inFault, outFault     map[int]byte

	params    []byte // 160 bytes recovered from the handshake
	clientPub []byte
	rx, tx    cipher.Stream
	rxOff     int
	txOff     int
	hdrLen    int // length announced by a header that has been decrypted already, 0 = none
	dead      error
}

func (c *Conn) deadline() {
	t := c.srv.Timeout
	if t <= 0 {
		t = 10 * time.Second
	}
	c.nc.SetDeadline(time.Now().Add(t))
}

// ---------------------------------------------------------------- input side

// CorruptIn xors mask into the byte at absolute position pos (0-based, the handshake occupies
// 0..255) of the client->server stream when it is read. Must be set before that byte is read.
func (c *Conn) CorruptIn(pos int, mask byte) { c.inFault[pos] ^= mask }

// SetInputEOF makes the parser see end-of-stream after what is buffered (the rest is never read).
func (c *Conn) SetInputEOF() { c.inEOF = true }

// ReadRaw reads exactly n more bytes from the socket into the parse buffer and returns them as the
// parser will see them (input faults applied).
func (c *Conn) ReadRaw(n int) ([]byte, error) {
	b := make([]byte, n)
	c.deadline()
	m, err := io.ReadFull(c.nc, b)
	c.absorb(b[:m])
	if err != nil {
		return c.seenIn[len(c.seenIn)-m:], err
	}
	return c.seenIn[len(c.seenIn)-n:], nil
}

func (c *Conn) absorb(b []byte) {
	base := len(c.rawIn)
	c.rawIn = append(c.rawIn, b...)
	f := append([]byte{}, b...)
	for i := range f {
		if m, ok := c.inFault[base+i]; ok {
			f[i] ^= m
		}
	}
	c.seenIn = append(c.seenIn, f...)
	c.inbuf = append(c.inbuf, f...)
}

// need makes sure n bytes are buffered; in automatic mode it reads from the socket.
func (c *Conn) need(n int) error {
	for len(c.inbuf) < n {
		if c.inEOF {
			if len(c.inbuf) == 0 {
				return io.EOF
			}
			return io.ErrUnexpectedEOF
		}
		if c.Manual {
			return ErrNeedMore
		}
		b := make([]byte, 64<<10)
		c.deadline()
		m, err := c.nc.Read(b)
		c.absorb(b[:m])
		if err != nil && len(c.inbuf) < n {
			c.inEOF = true
			if m == 0 && !errors.Is(err, io.EOF) {
				return err
			}
		}
	}
	return nil
}

// Handshake consumes the 256 handshake bytes, checks key id and parameter hash, and sets up the two
// streams. In manual mode it is TryHandshake: ErrNeedMore if fewer than 256 bytes are buffered.
func (c *Conn) Handshake() error {
	if c.dead != nil {
		return c.dead
	}
	if c.params != nil {
		return errors.New("adnlsrv: handshake already done")
	}
	if err := c.need(HandshakeLen); err != nil {
		if err != ErrNeedMore {
			c.dead = err
		}
		return err
	}
	hsk := c.inbuf[:HandshakeLen]
	p, cpub, err := ParseHandshake(hsk, c.srv.seed)
	if err != nil {
		c.dead = err
		return err
	}
	c.inbuf = c.inbuf[HandshakeLen:]
	c.params, c.clientPub = p, cpub
	// stream A (server -> client): key p[0:32], iv p[64:80]; stream B (client -> server): key p[32:64], iv p[80:96]
	a, _ := aes.NewCipher(p[0:32])
	b, _ := aes.NewCipher(p[32:64])
	c.tx = cipher.NewCTR(a, p[64:80])
	c.rx = cipher.NewCTR(b, p[80:96])
	return nil
}

// ParseHandshake is the server's view of 256 handshake bytes: the 160 session parameters and the
// client's ephemeral public key.
func ParseHandshake(h []byte, serverSeed []byte) (params, clientPub []byte, err error) {
	if len(h) != HandshakeLen {
		return nil, nil, io.ErrUnexpectedEOF
	}
	pub := ed25519.NewKeyFromSeed(serverSeed).Public().(ed25519.PublicKey)
	if !bytes.Equal(h[0:32], KeyID(pub)) {
		return nil, nil, ErrKeyID
	}
	clientPub = append([]byte{}, h[32:64]...)
	hash := h[64:96]
	shared, err := SharedSecret(serverSeed, clientPub)
	if err != nil {
		return nil, nil, err
	}
	key := append(append([]byte{}, shared[0:16]...), hash[16:32]...)
	iv := append(append([]byte{}, hash[0:4]...), shared[20:32]...)
	blk, _ := aes.NewCipher(key)
	params = make([]byte, 160)
	cipher.NewCTR(blk, iv).XORKeyStream(params, h[96:256])
	sum := sha256.Sum256(params)
	if !bytes.Equal(sum[:], hash) {
		return nil, nil, ErrParamHash
	}
	return params, clientPub, nil
}

var p25519 = new(big.Int).Sub(new(big.Int).Lsh(big.NewInt(1), 255), big.NewInt(19))

// SharedSecret is X25519 between our Ed25519 key (given by its seed) and the peer's Ed25519 public key,
// both converted to curve25519: scalar = clamp(sha512(seed)[0:32]), u = (1+y)/(1-y) mod 2^255-19.
func SharedSecret(seed, peerEdPub []byte) ([]byte, error) {
	if len(peerEdPub) != 32 {
		return nil, errors.New("adnlsrv: bad public key length")
	}
	h := sha512.Sum512(seed)
	priv, err := ecdh.X25519().NewPrivateKey(h[:32]) // the X25519 function clamps the scalar itself
	if err != nil {
		return nil, err
	}
	le := append([]byte{}, peerEdPub...)
	le[31] &= 0x7f // drop the sign bit of x
	for i, j := 0, 31; i < j; i, j = i+1, j-1 {
		le[i], le[j] = le[j], le[i]
	}
	y := new(big.Int).SetBytes(le)
	one := big.NewInt(1)
	num := new(big.Int).Add(one, y)
	den := new(big.Int).Sub(one, y)
	den.Mod(den, p25519)
	if den.Sign() == 0 {
		return nil, errors.New("adnlsrv: public key has no curve25519 image")
	}
	den.ModInverse(den, p25519)
	u := num.Mul(num, den)
	u.Mod(u, p25519)
	ub := u.FillBytes(make([]byte, 32))
	for i, j := 0, 31; i < j; i, j = i+1, j-1 {
		ub[i], ub[j] = ub[j], ub[i]
	}
	pk, err := ecdh.X25519().NewPublicKey(ub)
	if err != nil {
		return nil, err
	}
	return priv.ECDH(pk)
}

// Next parses the next frame of the client->server stream and returns its payload.
// Errors: ErrNeedMore (manual mode only; call again after ReadRaw), io.EOF (stream ended between
// frames), io.ErrUnexpectedEOF (inside a frame), ErrBadLength, ErrChecksum. After any error other than
// ErrNeedMore the connection's input side is dead and the same error is returned again.
func (c *Conn) Next() ([]byte, error) {
	if c.dead != nil {
		return nil, c.dead
	}
	if c.rx == nil {
		return nil, errors.New("adnlsrv: handshake not done")
	}
	fail := func(err error) ([]byte, error) {
		if err != ErrNeedMore {
			c.dead = err
		}
		return nil, err
	}
	if c.hdrLen == 0 {
		if err := c.need(4); err != nil {
			return fail(err)
		}
		var hdr [4]byte
		c.rx.XORKeyStream(hdr[:], c.inbuf[:4])
		c.inbuf = c.inbuf[4:]
		c.rxOff += 4
		n := binary.LittleEndian.Uint32(hdr[:])
		if n < MinLen || n > MaxLen {
			return fail(ErrBadLength)
		}
		c.hdrLen = int(n)
	}
	if err := c.need(c.hdrLen); err != nil {
		if err == io.EOF {
			err = io.ErrUnexpectedEOF
		}
		return fail(err)
	}
	n := c.hdrLen
	body := make([]byte, n)
	c.rx.XORKeyStream(body, c.inbuf[:n])
	c.inbuf = c.inbuf[n:]
	c.rxOff += n
	c.hdrLen = 0
	sum := sha256.Sum256(body[:n-32])
	if !bytes.Equal(sum[:], body[n-32:]) {
		return fail(ErrChecksum)
	}
	return body[32 : n-32], nil
}

// ReadPacket is Next under its usual name for handler-style servers.
func (c *Conn) ReadPacket() ([]byte, error) { return c.Next() }

// --------------------------------------------------------------- output side

// Queue frames the payload (fresh nonce), encrypts it with the continuing server->client stream and
// appends it to the pending output. Nothing is written yet. It returns the frame's size on the wire.
func (c *Conn) Queue(payload []byte) (int, error) {
	var nonce [32]byte
	if _, err := io.ReadFull(c.Rand, nonce[:]); err != nil {
		return 0, err
	}
	f := make([]byte, 0, 4+64+len(payload))
	f = binary.LittleEndian.AppendUint32(f, uint32(64+len(payload)))
	f = append(f, nonce[:]...)
	f = append(f, payload...)
	sum := sha256.Sum256(f[4:])
	f = append(f, sum[:]...)
	return len(f), c.QueueRaw(f)
}

// QueueRaw encrypts arbitrary plaintext bytes with the server->client stream and queues them (for
// non-conforming output such as a bare length header).
func (c *Conn) QueueRaw(plain []byte) error {
	c.mu.Lock()
	defer c.mu.Unlock()
	if c.tx == nil {
		return errors.New("adnlsrv: handshake not done")
	}
	ct := make([]byte, len(plain))
	c.tx.XORKeyStream(ct, plain)
	c.txOff += len(plain)
	c.pending = append(c.pending, ct...)
	return nil
}

// Pending is the number of queued bytes not yet written.
func (c *Conn) Pending() int { c.mu.Lock(); defer c.mu.Unlock(); return len(c.pending) }

// CorruptOut xors mask into the byte at absolute position pos (0-based) of the server->client stream
// when it is written. Must be set before that byte is flushed.
func (c *Conn) CorruptOut(pos int, mask byte) { c.mu.Lock(); c.outFault[pos] ^= mask; c.mu.Unlock() }

// Flush writes the next n pending bytes as one TCP write (n < 0: all of them) and returns them as written.
func (c *Conn) Flush(n int) ([]byte, error) {
	c.mu.Lock()
	defer c.mu.Unlock()
	if n < 0 || n > len(c.pending) {
		n = len(c.pending)
	}
	if n == 0 {
		return nil, nil
	}
	b := append([]byte{}, c.pending[:n]...)
	base := len(c.rawOut)
	for i := range b {
		if m, ok := c.outFault[base+i]; ok {
			b[i] ^= m
		}
	}
	c.pending = c.pending[n:]
	c.deadline()
	m, err := c.nc.Write(b)
	c.rawOut = append(c.rawOut, b[:m]...)
	return b[:m], err
}

// SendPacket = Queue + Flush(all).
func (c *Conn) SendPacket(payload []byte) error {
	if _, err := c.Queue(payload); err != nil {
		return err
	}
	_, err := c.Flush(-1)
	return err
}

// DropPending forgets the queued bytes (they are lost in transit); it returns how many.
func (c *Conn) DropPending() int {
	c.mu.Lock()
	defer c.mu.Unlock()
	n := len(c.pending)
	c.pending = nil
	return n
}

// CloseWrite shuts down the server->client direction only (the client sees end-of-stream, can still write).
func (c *Conn) CloseWrite() error {
	if tc, ok := c.nc.(*net.TCPConn); ok {
		return tc.CloseWrite()
	}
	return c.nc.Close()
}

func (c *Conn) Close() error { return c.nc.Close() }

// ------------------------------------------------------------------ records
func (c *Conn) RawIn() []byte     { return c.rawIn }  // client->server bytes as read from the socket
func (c *Conn) SeenIn() []byte    { return c.seenIn } // the same after input faults
func (c *Conn) RawOut() []byte    { return c.rawOut } // server->client bytes as written (after output faults)
func (c *Conn) Params() []byte    { return c.params } // 160 session bytes (nil before the handshake)
func (c *Conn) ClientPub() []byte { return c.clientPub }
func (c *Conn) Buffered() int     { return len(c.inbuf) }
func (c *Conn) InputDead() error  { return c.dead }
func (c *Conn) Established() bool { return c.params != nil }
func (c *Conn) NetConn() net.Conn { return c.nc }
func (c *Conn) RxOffset() int     { return c.rxOff }
func (c *Conn) TxOffset() int     { return c.txOff }
