package cboc

import (
	"bufio"
	"encoding/base64"
	"encoding/hex"
	"encoding/json"
	"fmt"
	"math/rand"
	"os"
	"runtime"
	"time"

	"github.com/tonkeeper/tongo/boc"

	"verifharness/internal/cells"
	"verifharness/internal/ev"
)

// parseEvent feeds one untrusted byte string to the parser and records what came back. A Begin record is
// flushed first so that a fatal runtime error (stack overflow, out of memory) is attributed to its input.
func parseEvent(w *ev.Writer, idx int, class string, b []byte) {
	hx := hex.EncodeToString(b)
	w.Emit(ev.M{"k": "Begin", "i": idx, "class": class, "boc": hx})
	m := ev.M{"k": "Parse", "i": idx, "class": class, "boc": hx, "ok": false, "panic": "", "cyclic": false,
		"cells": []cells.C{}, "roots": []int{}, "post": "", "roothashes": []string{}, "alloc_kb": 0, "ms": 0}
	var ms0, ms1 runtime.MemStats
	runtime.ReadMemStats(&ms0)
	t0 := time.Now()
	var roots []*boc.Cell
	var err error
	func() {
		defer func() {
			if r := recover(); r != nil {
				m["panic"] = "parse: " + fmt.Sprint(r)
			}
		}()
		roots, err = boc.DeserializeBoc(b)
	}()
	runtime.ReadMemStats(&ms1)
	m["ms"] = int(time.Since(t0).Milliseconds())
	m["alloc_kb"] = int((ms1.TotalAlloc - ms0.TotalAlloc) / 1024)
	m["nroots"] = -1
	if m["panic"] == "" && err == nil {
		m["nroots"] = len(roots)
	}
	// the convenience entry points over the same parser (hex / base64 text, exactly-one-root variants)
	m["helpers"], m["hpanic"] = helperCalls(b, hx)
	if m["panic"] == "" && err == nil {
		m["ok"] = true
		t := cells.Project(roots)
		if t.Cyclic {
			m["cyclic"] = true
		} else {
			if len(t.Roots) > 0 { // (a bag that declares no root returns an empty list)
				m["cells"] = t.Cells
				m["roots"] = t.Roots
			}
			// hashing, printing and re-serialising must terminate without a crash, in time proportional to the input
			post := "ok"
			hs := []string{}
			done := make(chan struct{})
			go func() {
				defer close(done)
				defer func() {
					if r := recover(); r != nil {
						post = "panic: " + fmt.Sprint(r)
					}
				}()
				// one caching hasher for the whole bag, asked twice per root (a request after a FAILED one must fail again, not
				// crash on what the failed one left in the cache), then used by the serialiser
				hasher := boc.NewHasher()
				for _, r := range roots {
					h, e := r.HashString()
					if e != nil {
						post = "err"
					}
					hs = append(hs, h)
					h1, e1 := hasher.HashString(r)
					h2, e2 := hasher.HashString(r)
					if (e1 == nil) != (e == nil) || (e2 == nil) != (e == nil) || (e == nil && (h1 != h || h2 != h)) {
						post = "panic: the caching hasher disagrees with Hash(): " + fmt.Sprint(h, e, h1, e1, h2, e2)
					}
					_ = r.ToString()
					if _, e := r.ToBoc(); e != nil {
						post = "err"
					}
					if _, e3 := r.ToBocCustomWithHasher(hasher, false, false, false, 0); (e3 == nil) != (e == nil) && post == "ok" {
						post = "err"
					}
				}
			}()
			select {
			case <-done:
			case <-time.After(postLimit(len(b))):
				// the call does not return: record it and give up this process (the runner restarts after this input)
				m["post"] = "timeout"
				w.Emit(m)
				w.Emit(ev.M{"k": "Abort", "i": idx})
				w.Close()
				os.Exit(3)
			}
			m["post"] = post
			if post == "ok" {
				m["roothashes"] = hs
			}
		}
	}
	w.Emit(m)
}

// helperCalls: number of roots returned by DeserializeBocHex / DeserializeBocBase64 and by the three single-root
// variants (-1 = error), and the first panic among them.
func helperCalls(b []byte, hx string) ([]int, string) {
	b64 := base64.StdEncoding.EncodeToString(b)
	pan := ""
	many := func(name string, f func() ([]*boc.Cell, error)) int {
		n := -1
		func() {
			defer func() {
				if r := recover(); r != nil && pan == "" {
					pan = name + ": " + fmt.Sprint(r)
				}
			}()
			if cs, err := f(); err == nil {
				n = len(cs)
			}
		}()
		return n
	}
	one := func(name string, f func() (*boc.Cell, error)) int {
		return many(name, func() ([]*boc.Cell, error) {
			c, err := f()
			if err != nil {
				return nil, err
			}
			if c == nil {
				return nil, nil // "ok" with no cell: counted as 0 roots, which no input explains
			}
			return []*boc.Cell{c}, nil
		})
	}
	return []int{
		many("DeserializeBocHex", func() ([]*boc.Cell, error) { return boc.DeserializeBocHex(hx) }),
		many("DeserializeBocBase64", func() ([]*boc.Cell, error) { return boc.DeserializeBocBase64(b64) }),
		one("DeserializeSingleRootBoc", func() (*boc.Cell, error) { return boc.DeserializeSingleRootBoc(b) }),
		one("DeserializeSinglRootHex", func() (*boc.Cell, error) { return boc.DeserializeSinglRootHex(hx) }),
		one("DeserializeSinglRootBase64", func() (*boc.Cell, error) { return boc.DeserializeSinglRootBase64(b64) }),
	}, pan
}

// postLimit: wall-clock allowance for Hash + ToString + ToBoc on the roots of an accepted input.
func postLimit(n int) time.Duration {
	return 20*time.Second + time.Duration(n/32)*time.Millisecond
}

// forkBomb: n cells, each with two references to the next one: 4 bytes per cell, 2^n paths from the root.
func forkBomb(n int) []byte {
	// written by hand (n < 256), not by the library's serialiser: what the library does with such a DAG - parse, hash, print,
	// serialise again - is what parseEvent observes under its watchdog
	if n < 1 || n > 255 {
		panic("forkBomb: 1..255 cells")
	}
	tot := 5*(n-1) + 3
	b := []byte{0xb5, 0xee, 0x9c, 0x72, 0x01, 0x02, byte(n), 0x01, 0x00, byte(tot >> 8), byte(tot), 0x00}
	for k := 0; k < n; k++ {
		if k < n-1 {
			b = append(b, 0x02, 0x02, byte(n-1-k), byte(k+1), byte(k+1))
		} else {
			b = append(b, 0x00, 0x02, byte(n-1-k))
		}
	}
	return b
}

// mutations of one valid bag.
func mutate(w *ev.Writer, next *int, skip int, b []byte, rng *rand.Rand, o Opts, small bool) {
	emit := func(class string, x []byte) {
		i := *next
		*next++
		if i < skip {
			return
		}
		parseEvent(w, i, class, x)
	}
	emit("valid", b)
	if small {
		for n := 0; n < len(b); n++ {
			emit("trunc", b[:n])
		}
		vals := []byte{0x00, 0x01, 0xff, 0x80}
		for p := 0; p < len(b); p++ {
			if o.thorough() {
				for v := 0; v < 256; v++ {
					if byte(v) != b[p] && (p < 40 || v%16 == int(b[p])%16) {
						x := append([]byte{}, b...)
						x[p] = byte(v)
						emit("subst", x)
					}
				}
				continue
			}
			for _, v := range vals {
				if v != b[p] {
					x := append([]byte{}, b...)
					x[p] = v
					emit("subst", x)
				}
			}
			x := append([]byte{}, b...)
			x[p] ^= 1 << uint(rng.Intn(8))
			emit("flip", x)
		}
		emit("trailing", append(append([]byte{}, b...), 0))
	} else {
		for k := 0; k < 40; k++ {
			emit("trunc", b[:rng.Intn(len(b))])
			x := append([]byte{}, b...)
			for j := 1 + rng.Intn(3); j > 0; j-- {
				x[rng.Intn(len(x))] = byte(rng.Intn(256))
			}
			emit("multi", x)
			y := append([]byte{}, b...)
			y[rng.Intn(min(len(y), 64))] = byte(rng.Intn(256))
			emit("hdr", y)
		}
	}
}

func min(a, b int) int {
	if a < b {
		return a
	}
	return b
}

// adversarial headers written by hand: huge counts and widths, indices out of range, self references, ...
func adversarial() [][]byte {
	h := func(s string) []byte { b, _ := hex.DecodeString(s); return b }
	out := [][]byte{
		h("b5ee9c72"), h("b5ee9c7200"), h("b5ee9c720005"), h("b5ee9c7201"), h("b5ee9c720101"),
		h("b5ee9c7201010101000300010000"),     // one cell referencing itself
		h("b5ee9c72010102010005000101010000"), // backward/forward mix
		h("b5ee9c7201010105000200010000"),     // root index 5 of 1 cell
		h("b5ee9c720101010100020000ff"),       // ref width vs data
		h("b5ee9c7204ffffffff00000001000000000100000000"),
		h("b5ee9c7208ffffffffffffffff"), // size 0 with bit 3 set
		h("b5ee9c7207ffffffffffffff0000000000000100000000000000000000000000"),
		h("b5ee9c720108ffffffffffffffffffffffffffff01000000"),
		h("b5ee9c720101ffff00"),           // 255 cells, 255 roots
		h("b5ee9c72010101010002000800"),   // exotic cell without data
		h("b5ee9c7201010101000400090101"), // pruned branch too short for its mask
		h("b5ee9c72010101010004002901e1"), // pruned, mask 1, 1 byte
		h("b5ee9c7201010101000300100000"), // with-hashes flag, no room for hashes
		h("b5ee9c7201010101000300070000"), // 7 references
		// a non-zero "absent" counter: references into [cells, cells+absent), just beyond it, and a valid bag that merely announces one
		h("b5ee9c72010102010107000102aa020002bb"), h("b5ee9c72010102010107000102aa030002bb"), h("b5ee9c72010102010107000102aa010002bb"),
		h("b5ee9c7201010201ff07000102aa800002bb"), h("b5ee9c720101010101030001020000"[:28] + "aa00"),
		h("68ff65f3010101000003000000"), h("acc3a72801010100000300000000000000"),
		h("b5ee9c72c1010101000200000000000000"), // crc flag, wrong crc
		h("b5ee9c7241010100020000004cacb9cd"),
		h("b5ee9c72010100000000"),          // no cells, no roots, no data: nothing to return
		h("b5ee9c72010101000002" + "0000"), // one cell, no root
		h("b5ee9c7201010101000201"),        // d2 odd, no data
		h("b5ee9c72010101010003000100"),    // odd d2 with zero byte: no completion tag
	}
	return out
}

// DriveC07 feeds mutated and adversarial byte strings to the parser. skip = number of inputs already done by a
// previous (crashed) run of the same shard.
func DriveC07(w *ev.Writer, o Opts, skip int, extra string) {
	w.Sync = true
	rng := rand.New(rand.NewSource(o.Seed*15485863 + int64(o.Shard)))
	next := 0
	if extra != "" { // mutants generated by the specification (Boc_Fuzz), labelled with the guard they fail
		f, err := os.Open(extra)
		if err != nil {
			panic(err)
		}
		sc := bufio.NewScanner(f)
		sc.Buffer(make([]byte, 1<<20), 1<<26)
		ln := 0
		for sc.Scan() {
			ln++
			if ln%o.Shards != o.Shard {
				continue
			}
			var v struct {
				Boc   string `json:"boc"`
				Guard string `json:"guard"`
			}
			if err := json.Unmarshal(sc.Bytes(), &v); err != nil {
				panic(err)
			}
			b, _ := hex.DecodeString(v.Boc)
			i := next
			next++
			if i >= skip {
				parseEvent(w, i, "specgen:"+v.Guard, b)
			}
		}
		f.Close()
	}
	if o.Shard == 0 {
		bombs := [][]byte{forkBomb(18), forkBomb(24), forkBomb(60), forkBomb(200)}
		for _, b := range append(adversarial(), bombs...) {
			i := next
			next++
			if i >= skip {
				parseEvent(w, i, "adversarial", b)
			}
		}
	}
	// own output of small random DAGs, all option combinations
	nown := 3
	if o.thorough() {
		nown = 12
	}
	// cells that are (nearly) full: 1015..1023 data bits, every one of them in one small tree (printing and the text form pad
	// the bits to a nibble boundary inside the cell's capacity)
	if o.Shard == 1%o.Shards {
		full := &cells.Table{Roots: []int{0}}
		full.Cells = append(full.Cells, cells.C{B: "1", R: []int{1, 2, 3}})
		for i, n := range []int{1015, 1016, 1017, 1018, 1019, 1020, 1021, 1022, 1023} {
			c := cells.C{B: cells.RandBitsN(rng, n), R: []int{}}
			if i+1 <= 3 {
				c.R = []int{4 + 2*i, 5 + 2*i}
			}
			full.Cells = append(full.Cells, c)
		}
		if roots, err := cells.Build(full, true); err == nil {
			if b, err := roots[0].ToBoc(); err == nil {
				i := next
				next++
				if i >= skip {
					parseEvent(w, i, "valid", b)
				}
			}
		}
	}
	for k := 0; k < nown; k++ {
		t := cells.RandTable(rng, 1+rng.Intn(4), 40)
		roots, err := cells.Build(t, true)
		if err != nil {
			continue
		}
		combo := rng.Intn(8)
		b, err := boc.SerializeBoc(roots[0], combo&1 != 0, combo&2 != 0, combo&4 != 0, 0)
		if err != nil {
			continue
		}
		mutate(w, &next, skip, b, rng, o, true)
	}
	corpus := Corpus(400 << 10)
	per := 2
	if o.thorough() {
		per = 12
	}
	picked := 0
	for tries := 0; picked < per && tries < 1000; tries++ {
		b := corpus[rng.Intn(len(corpus))]
		small := len(b) <= 300
		if o.thorough() && len(b) <= 2048 && picked%3 == 0 {
			small = true
		}
		if !small && picked%2 == 0 && len(b) > 2048 && !o.thorough() {
			continue
		}
		picked++
		mutate(w, &next, skip, b, rng, o, small)
	}
	nr := 200
	if o.thorough() {
		nr = 5000
	}
	for k := 0; k < nr; k++ {
		b := make([]byte, rng.Intn(80))
		rng.Read(b)
		if k%2 == 0 && len(b) >= 4 {
			copy(b, []byte{0xb5, 0xee, 0x9c, 0x72})
		}
		i := next
		next++
		if i >= skip {
			parseEvent(w, i, "random", b)
		}
	}
	w.Emit(ev.M{"k": "End", "events": w.N})
}
