package cboc

import (
	"encoding/hex"
	"fmt"
	"math/rand"

	"github.com/tonkeeper/tongo/boc"

	"verifharness/internal/cells"
	"verifharness/internal/ev"
)

type Opts struct {
	Tier          string
	Seed          int64
	Shard, Shards int
}

func (o Opts) thorough() bool { return o.Tier == "thorough" }

// tableEvent records one DAG with, per cell, the hash reported (a) by a fresh Hash(), (b) by one caching
// Hasher warmed over the whole DAG, (c) by Hash() after arbitrary reads on the cell.
func tableEvent(w *ev.Writer, src string, roots []*boc.Cell, rng *rand.Rand) {
	t := cells.Project(roots)
	if t.Cyclic {
		w.Emit(ev.M{"k": "Panic", "src": src, "panic": "cyclic DAG from a conforming source"})
		return
	}
	n := len(t.Cells)
	h, hc, hr, hc2 := make([]string, n), make([]string, n), make([]string, n), make([]string, n)
	hasher := boc.NewHasher()
	perr := ""
	func() {
		defer func() {
			if r := recover(); r != nil {
				perr = fmt.Sprint(r)
			}
		}()
		for i := n - 1; i >= 0; i-- {
			c := t.Ptr[i]
			x, err := c.Hash()
			if err != nil {
				h[i] = "err"
			} else {
				h[i] = hex.EncodeToString(x)
			}
			s, err := hasher.HashString(c)
			if err != nil {
				hc[i] = "err"
			} else {
				hc[i] = s
			}
		}
		// the same hasher asked again, now that every cell (and every ancestor) is in its cache
		for i := 0; i < n; i++ {
			x, err := hasher.Hash(t.Ptr[i])
			if err != nil {
				hc2[i] = "err"
			} else {
				hc2[i] = hex.EncodeToString(x)
			}
		}
		for i := 0; i < n; i++ {
			c := t.Ptr[i]
			// arbitrary reads: move both cursors, then hash again
			for k := rng.Intn(4); k > 0; k-- {
				switch rng.Intn(4) {
				case 0:
					c.ReadUint(rng.Intn(33))
				case 1:
					c.ReadBits(rng.Intn(20))
				case 2:
					c.NextRef()
				case 3:
					c.ReadBit()
				}
			}
			x, err := c.Hash256()
			if err != nil {
				hr[i] = "err"
			} else {
				hr[i] = hex.EncodeToString(x[:])
			}
			c.ResetCounters()
		}
	}()
	if perr != "" {
		w.Emit(ev.M{"k": "Panic", "src": src, "panic": perr, "cells": t.Cells, "roots": t.Roots})
		return
	}
	w.Emit(ev.M{"k": "Table", "src": src, "cells": t.Cells, "roots": t.Roots, "h": h, "hc": hc, "hc2": hc2, "hr": hr})
}

// viaReadBits rebuilds every ordinary cell of the DAG through NewCellWithBits(ReadBits(n)) taken from a source
// cell in which the bits are followed by other data (both aligned and unaligned start) — "however obtained".
func viaReadBits(root *boc.Cell, rng *rand.Rand, aligned bool) (*boc.Cell, error) {
	memo := map[*boc.Cell]*boc.Cell{}
	var rec func(c *boc.Cell) (*boc.Cell, error)
	rec = func(c *boc.Cell) (*boc.Cell, error) {
		if m, ok := memo[c]; ok {
			return m, nil
		}
		if c.IsExotic() {
			return nil, fmt.Errorf("exotic")
		}
		bs := c.RawBitString()
		n := bs.BitsAvailableForRead() + 0
		n = c.BitSize()
		// source: [prefix] bits [ones]
		pre := 0
		if !aligned {
			pre = 1 + rng.Intn(7)
		}
		if pre+n+9 > 1023 {
			pre = 0
			if n+9 > 1023 { // does not fit: keep the cell as it is
				nc := boc.NewCell()
				if err := nc.WriteBitString(bs); err != nil {
					return nil, err
				}
				for _, r := range c.Refs() {
					k, err := rec(r)
					if err != nil {
						return nil, err
					}
					nc.AddRef(k)
				}
				memo[c] = nc
				return nc, nil
			}
		}
		src := boc.NewCell()
		for i := 0; i < pre; i++ {
			src.WriteBit(i%2 == 0)
		}
		if err := src.WriteBitString(bs); err != nil {
			return nil, err
		}
		for i := 0; i < 9 && src.BitsAvailableForWrite() > 0; i++ {
			src.WriteBit(true)
		}
		if err := src.Skip(pre); err != nil {
			return nil, err
		}
		got, err := src.ReadBits(n)
		if err != nil {
			return nil, err
		}
		nc := boc.NewCellWithBits(got)
		for _, r := range c.Refs() {
			k, err := rec(r)
			if err != nil {
				return nil, err
			}
			if err := nc.AddRef(k); err != nil {
				return nil, err
			}
		}
		memo[c] = nc
		return nc, nil
	}
	return rec(root)
}

// randomProof prunes random subtrees of an ordinary DAG through the cursor API and returns the proof BoC.
func randomProof(root *boc.Cell, rng *rand.Rand) ([]byte, error) {
	p, err := boc.NewMerkleProver(root)
	if err != nil {
		return nil, err
	}
	cur := p.Cursor()
	var walk func(c *boc.Cell, cu *boc.Cursor, depth int)
	walk = func(c *boc.Cell, cu *boc.Cursor, depth int) {
		for i, r := range c.Refs() {
			sub := cu.Ref(i)
			if rng.Intn(3) == 0 {
				sub.Prune()
			} else if depth < 6 {
				walk(r, sub, depth+1)
			}
		}
	}
	walk(root, cur, 0)
	return p.CreateProof(cur)
}

// DriveC02 records cell tables from every way of obtaining cells.
func DriveC02(w *ev.Writer, o Opts) {
	rng := rand.New(rand.NewSource(o.Seed*7919 + int64(o.Shard)))
	maxB := 40 << 10
	if o.thorough() {
		maxB = 1 << 20
	}
	corpus := Corpus(maxB)
	for i, b := range corpus {
		if i%o.Shards != o.Shard {
			continue
		}
		roots, err := boc.DeserializeBoc(b)
		if err != nil {
			continue
		}
		tableEvent(w, fmt.Sprintf("corpus:%d:%dB", i, len(b)), roots, rng)
	}
	if o.Shard == 0 {
		// the depth bound: 1025 cells in a chain (depth 1024) exist, 1026 do not
		for _, n := range []int{1025, 1026} {
			tableEvent(w, fmt.Sprintf("mem-chain:%d", n), []*boc.Cell{chain(n)}, rng)
		}
	}
	nmem := 12
	if o.thorough() {
		nmem = 150
	}
	for i := 0; i < nmem; i++ {
		n := 1 + rng.Intn(30)
		if i%10 == 9 {
			n = 200 + rng.Intn(200)
		}
		t := cells.RandTable(rng, n, 1023)
		roots, err := cells.Build(t, true)
		if err != nil {
			w.Emit(ev.M{"k": "Panic", "src": "mem", "panic": err.Error()})
			continue
		}
		tableEvent(w, "mem", roots, rng)
		for _, al := range []bool{true, false} {
			c, err := viaReadBits(roots[0], rng, al)
			if err != nil {
				w.Emit(ev.M{"k": "Panic", "src": "readbits", "panic": err.Error()})
				continue
			}
			src := "readbits-unaligned"
			if al {
				src = "readbits-aligned"
			}
			tableEvent(w, src, []*boc.Cell{c}, rng)
		}
		// a proof over a tree that holds exotic cells itself (library cells among the leaves): what is kept must keep its type
		if i%2 == 1 {
			tl := cells.RandTable(rng, 2+rng.Intn(20), 600)
			nlib := 0
			for k := 1; k < len(tl.Cells); k++ {
				if len(tl.Cells[k].R) == 0 && (nlib == 0 || rng.Intn(2) == 0) {
					tl.Cells[k].X = 2
					tl.Cells[k].B = "00000010" + cells.RandBitsN(rng, 256)
					nlib++
				}
			}
			if lr, err := cells.Build(tl, true); err == nil && nlib > 0 {
				tableEvent(w, "mem-lib", lr, rng)
				for rep := 0; rep < 3; rep++ {
					if pb, err := randomProof(lr[0], rng); err == nil {
						if pr, err := boc.DeserializeBoc(pb); err != nil {
							w.Emit(ev.M{"k": "Panic", "src": "proof-lib", "panic": "proof does not parse: " + err.Error()})
						} else {
							tableEvent(w, "proof-lib", pr, rng)
						}
					} else {
						w.Emit(ev.M{"k": "Panic", "src": "proof-lib", "panic": err.Error()})
					}
				}
			}
		}
		if pb, err := randomProof(roots[0], rng); err == nil {
			pr, err := boc.DeserializeBoc(pb)
			if err != nil {
				w.Emit(ev.M{"k": "Panic", "src": "proof", "panic": "proof does not parse: " + err.Error()})
			} else {
				tableEvent(w, "proof", pr, rng)
			}
		} else {
			w.Emit(ev.M{"k": "Panic", "src": "proof", "panic": err.Error()})
		}
	}
	w.Emit(ev.M{"k": "End", "events": w.N})
}
