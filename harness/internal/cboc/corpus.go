// Package cboc drives the cell / bag-of-cells code for C01, C02 and C07.
package cboc

import (
	"encoding/base64"
	"encoding/hex"
	"os"
	"path/filepath"
	"regexp"
	"sort"
	"strings"
)

var reHex = regexp.MustCompile(`(?i)b5ee9c72[0-9a-f]{8,}`)
var reB64 = regexp.MustCompile(`te6cc[A-Za-z0-9+/]{8,}={0,2}`)

// Repo is where the code under test and its fixtures live.
var Repo = func() string {
	if r := os.Getenv("VERIF_REPO"); r != "" {
		return r
	}
	return "/repo"
}()

// Corpus harvests every BoC literal (hex or base64) from the repository's sources and fixtures, plus the
// real blocks under tlb/testdata. Sorted by size so that tiers can take a prefix.
func Corpus(maxBytes int) [][]byte {
	seen := map[string]bool{}
	var out [][]byte
	add := func(b []byte) {
		if len(b) < 10 || len(b) > maxBytes || seen[string(b)] {
			return
		}
		seen[string(b)] = true
		out = append(out, b)
	}
	filepath.Walk(Repo, func(p string, info os.FileInfo, err error) error {
		if err != nil {
			return nil
		}
		if info.IsDir() {
			if info.Name() == ".git" || info.Name() == "lib" {
				return filepath.SkipDir
			}
			return nil
		}
		ext := filepath.Ext(p)
		if info.Name() == "block.bin" {
			if b, err := os.ReadFile(p); err == nil {
				add(b)
			}
			return nil
		}
		if ext != ".go" && ext != ".json" && ext != ".hex" && ext != ".tlb" && ext != ".md" {
			return nil
		}
		if info.Size() > 8<<20 || strings.HasSuffix(p, ".output.json") {
			return nil
		}
		data, err := os.ReadFile(p)
		if err != nil {
			return nil
		}
		for _, m := range reHex.FindAll(data, -1) {
			s := string(m)
			if len(s)%2 == 1 {
				s = s[:len(s)-1]
			}
			if b, err := hex.DecodeString(s); err == nil {
				add(b)
			}
		}
		for _, m := range reB64.FindAll(data, -1) {
			s := string(m)
			for len(s)%4 != 0 {
				s = s[:len(s)-1]
			}
			if b, err := base64.StdEncoding.DecodeString(s); err == nil {
				add(b)
			}
		}
		return nil
	})
	sort.Slice(out, func(i, j int) bool {
		if len(out[i]) != len(out[j]) {
			return len(out[i]) < len(out[j])
		}
		return string(out[i]) < string(out[j])
	})
	return out
}
