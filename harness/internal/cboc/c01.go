package cboc

import (
	"bufio"
	"bytes"
	"encoding/hex"
	"encoding/json"
	"fmt"
	"math/rand"
	"os"
	"strings"

	"github.com/tonkeeper/tongo/boc"

	"verifharness/internal/cells"
	"verifharness/internal/ev"
)

// TreeStr is the canonical text of the tree a cell unfolds to (same format as Boc!TreeStr).
func TreeStr(c *boc.Cell, budget *int) string {
	var sb strings.Builder
	var rec func(c *boc.Cell)
	rec = func(c *boc.Cell) {
		*budget--
		if *budget < 0 {
			return
		}
		bs := c.RawBitString()
		fmt.Fprintf(&sb, "%d{%s[", c.CellType(), bs.BinaryString())
		for _, r := range c.Refs() {
			rec(r)
			sb.WriteByte(',')
		}
		sb.WriteString("]}")
	}
	rec(c)
	return sb.String()
}

// ReplayGen parses the bags written by the specification's reference writer (Cells_Gen) and reports what the
// library makes of them: {"vec":i,"ok":bool,"hash":hex,"level":n,"tree":str,"panic":""}.
func ReplayGen(in string, w *ev.Writer) error {
	f, err := os.Open(in)
	if err != nil {
		return err
	}
	defer f.Close()
	sc := bufio.NewScanner(f)
	sc.Buffer(make([]byte, 1<<20), 1<<28)
	n := 0
	for sc.Scan() {
		var v struct {
			Vec int    `json:"vec"`
			Boc string `json:"boc"`
		}
		if err := json.Unmarshal(sc.Bytes(), &v); err != nil {
			return err
		}
		n++
		m := ev.M{"vec": v.Vec, "ok": false, "hash": "", "hash2": "", "level": -1, "tree": "", "panic": "", "rt": []string{}}
		func() {
			defer func() {
				if r := recover(); r != nil {
					m["panic"] = fmt.Sprint(r)
				}
			}()
			b, _ := hex.DecodeString(v.Boc)
			roots, err := boc.DeserializeBoc(b)
			if err != nil || len(roots) != 1 {
				return
			}
			t := cells.Project(roots)
			if t.Cyclic {
				m["panic"] = "cyclic"
				return
			}
			m["ok"] = true
			if h, err := roots[0].HashString(); err == nil {
				m["hash"] = h
			}
			// asked a second way: a caching hasher, twice
			hs := boc.NewHasher()
			m["hash2"] = ""
			if h1, err := hs.Hash(roots[0]); err == nil {
				if h2, err := hs.HashString(roots[0]); err == nil && h2 == hex.EncodeToString(h1) {
					m["hash2"] = h2
				} else {
					m["hash2"] = "unstable"
				}
			}
			m["level"] = roots[0].Level()
			budget := 10000
			tree := TreeStr(roots[0], &budget)
			m["tree"] = tree
			// round trip of the parsed DAG (exotic cells of every mask cannot be built in memory: this is where they are
			// serialised): every option combination must parse back to the same tree
			rt := []string{}
			if m["hash"] != "" {
				for combo := 0; combo < 8; combo++ {
					b2, err := roots[0].ToBocCustom(combo&1 != 0, combo&2 != 0, combo&4 != 0, 0)
					if err != nil {
						rt = append(rt, fmt.Sprintf("%d:serialise: %v", combo, err))
						continue
					}
					back, err := boc.DeserializeBoc(b2)
					if err != nil || len(back) != 1 {
						rt = append(rt, fmt.Sprintf("%d:own output does not parse: %v", combo, err))
						continue
					}
					budget = 10000
					if t2 := TreeStr(back[0], &budget); t2 != tree {
						rt = append(rt, fmt.Sprintf("%d:tree %s", combo, t2))
					} else if h, _ := back[0].HashString(); h != m["hash"] {
						rt = append(rt, fmt.Sprintf("%d:hash %s", combo, h))
					}
				}
			}
			m["rt"] = rt
		}()
		w.Emit(m)
	}
	w.Emit(ev.M{"k": "End", "events": n})
	return sc.Err()
}

func hashOf(c *boc.Cell) string {
	h, err := c.HashString()
	if err != nil {
		return "err:" + err.Error()
	}
	return h
}

// serEvents serialises root with all 8 option combinations through every entry point and records, per
// combination, the bytes, the bytes obtained from an independently built equal DAG, and the parse-back.
func serEvents(w *ev.Writer, src string, root, twin *boc.Cell, rng *rand.Rand, allAPIs bool) {
	serEventsOpt(w, src, root, twin, rng, allAPIs, []int{0, 1, 2, 3, 4, 5, 6, 7})
}

func serEventsOpt(w *ev.Writer, src string, root, twin *boc.Cell, rng *rand.Rand, allAPIs bool, combos []int) {
	t := cells.Project([]*boc.Cell{root})
	if t.Cyclic {
		return
	}
	for _, combo := range combos {
		idx, crc, cache := combo&1 != 0, combo&2 != 0, combo&4 != 0
		var b, b2 []byte
		var err, err2 error
		perr := ""
		func() {
			defer func() {
				if r := recover(); r != nil {
					perr = fmt.Sprint(r)
				}
			}()
			switch api := rng.Intn(3); {
			case !allAPIs || api == 0:
				b, err = boc.SerializeBoc(root, idx, crc, cache, 0)
			case api == 1:
				b, err = root.ToBocCustom(idx, crc, cache, 0)
			default:
				b, err = root.ToBocCustomWithHasher(boc.NewHasher(), idx, crc, cache, 0)
			}
			b2, err2 = twin.ToBocCustom(idx, crc, cache, 0)
			if combo == 0 && err == nil {
				// the convenience forms must agree with the explicit one
				if p, e := root.ToBoc(); e != nil || !bytes.Equal(p, b) {
					perr = "ToBoc differs from SerializeBoc(false,false,false)"
				}
				if s, e := root.ToBocString(); e != nil || s != hex.EncodeToString(b) {
					perr = "ToBocString differs"
				}
			}
		}()
		if perr != "" {
			w.Emit(ev.M{"k": "Panic", "src": src, "panic": perr, "cells": t.Cells, "roots": t.Roots})
			return
		}
		if err != nil || err2 != nil {
			w.Emit(ev.M{"k": "SerErr", "src": src, "cells": t.Cells, "roots": t.Roots, "err": fmt.Sprint(err, err2)})
			return
		}
		back, err := boc.DeserializeBoc(b)
		if err != nil {
			w.Emit(ev.M{"k": "Panic", "src": src, "panic": "own output does not parse: " + err.Error(), "boc": hex.EncodeToString(b)})
			return
		}
		bt := cells.Project(back)
		if bt.Cyclic || len(back) != 1 {
			w.Emit(ev.M{"k": "Panic", "src": src, "panic": "own output parses to a cyclic / multi-root result", "boc": hex.EncodeToString(b)})
			return
		}
		// a third, differently obtained equal input: the parse-back itself, serialised again
		b3, err3 := back[0].ToBocCustom(idx, crc, cache, 0)
		if err3 != nil {
			b3 = nil
		}
		w.Emit(ev.M{"k": "Ser", "src": src, "cells": t.Cells, "roots": t.Roots, "idx": idx, "crc": crc, "cache": cache,
			"boc": hex.EncodeToString(b), "boc2": hex.EncodeToString(b2), "boc3": hex.EncodeToString(b3),
			"back": ev.M{"cells": bt.Cells, "roots": bt.Roots}, "hash": hashOf(root), "backhash": hashOf(back[0])})
	}
}

// chain builds a chain of n cells (depth n-1), each carrying its index.
func chain(n int) *boc.Cell {
	var c *boc.Cell
	for i := 0; i < n; i++ {
		p := boc.NewCell()
		p.WriteUint(uint64(i), 16)
		if c != nil {
			p.AddRef(c)
		}
		c = p
	}
	return c
}

// DriveC01 records serialisations of random DAGs (own output, all options, equal-input pairs), of every cell
// of the corpus (exotic cells included) and of the extreme shapes (depth limit, >255 cells).
func DriveC01(w *ev.Writer, o Opts) {
	rng := rand.New(rand.NewSource(o.Seed*104729 + int64(o.Shard)))
	ndag := 10
	if o.thorough() {
		ndag = 120
	}
	for i := 0; i < ndag; i++ {
		n := 1 + rng.Intn(12)
		switch {
		case i%10 == 7:
			n = 250 + rng.Intn(60) // crosses the 1-byte reference width
		case i%10 == 3:
			n = 30 + rng.Intn(60)
		}
		t := cells.RandTable(rng, n, 1023)
		a, err1 := cells.Build(t, true)
		// the twin is built separately; without pointer sharing when the unfolded tree stays small
		share := len(t.Cells) > 14
		b, err2 := cells.Build(t, share)
		if err1 != nil || err2 != nil {
			w.Emit(ev.M{"k": "Panic", "src": "build", "panic": fmt.Sprint(err1, err2)})
			continue
		}
		serEvents(w, fmt.Sprintf("rand:%d", len(t.Cells)), a[0], b[0], rng, true)
	}
	// cell counts exactly at the reference-width boundaries (the header's counters and every reference change width there)
	for bi, n := range []int{255, 256, 257} {
		if (bi+1)%o.Shards == o.Shard {
			t := cells.WideTable(n)
			a, err1 := cells.Build(t, true)
			b, err2 := cells.Build(t, true)
			if err1 == nil && err2 == nil {
				serEvents(w, fmt.Sprintf("boundary:%d", n), a[0], b[0], rng, false)
			}
		}
	}
	if o.thorough() {
		for bi, n := range []int{65535, 65536, 65537} {
			if (bi+4)%o.Shards == o.Shard {
				t := cells.WideTable(n)
				a, err1 := cells.Build(t, true)
				b, err2 := cells.Build(t, true)
				if err1 == nil && err2 == nil {
					serEventsOpt(w, fmt.Sprintf("boundary:%d", n), a[0], b[0], rng, false, []int{0, 7})
				}
			}
		}
	}
	if o.Shard == 0 {
		for _, n := range []int{1, 2, 1024, 1025, 1026} {
			serEvents(w, fmt.Sprintf("chain:%d", n), chain(n), chain(n), rng, false)
		}
	}
	maxB := 6 << 10
	if o.thorough() {
		maxB = 400 << 10
	}
	for i, bb := range Corpus(maxB) {
		if i%o.Shards != o.Shard {
			continue
		}
		orig := append([]byte{}, bb...)
		r1, err := boc.DeserializeBoc(bb)
		r2, err2 := boc.DeserializeBoc(bb)
		if err != nil {
			continue
		}
		// parsing is an observation of the bytes: they are the caller's, and a second parse sees the same bag
		if !bytes.Equal(orig, bb) || err2 != nil || len(r2) != len(r1) {
			w.Emit(ev.M{"k": "Panic", "where": "reparse", "src": "reparse", "boc": hex.EncodeToString(orig),
				"panic": fmt.Sprintf("DeserializeBoc changed its input or a second parse of the same bytes differs (input modified: %v, second error: %v, roots %d / %d)", !bytes.Equal(orig, bb), err2, len(r1), len(r2))})
			continue
		}
		for k := range r1 {
			serEvents(w, fmt.Sprintf("corpus:%d", i), r1[k], r2[k], rng, true)
		}
		// and the real bag itself is "a bag produced by another implementation"
		foreignEvent(w, bb)
	}
	w.Emit(ev.M{"k": "End", "events": w.N})
}

// foreignEvent: what the library makes of a bag it did not write.
func foreignEvent(w *ev.Writer, b []byte) {
	m := ev.M{"k": "Foreign", "boc": hex.EncodeToString(b), "ok": false, "roothashes": []string{}}
	func() {
		defer func() {
			if r := recover(); r != nil {
				m["k"] = "Panic"
				m["panic"] = fmt.Sprint(r)
			}
		}()
		roots, err := boc.DeserializeBoc(b)
		if err != nil {
			return
		}
		if cells.Project(roots).Cyclic {
			m["k"] = "Panic"
			m["panic"] = "cyclic"
			return
		}
		hs := []string{}
		for _, r := range roots {
			hs = append(hs, hashOf(r))
		}
		m["ok"] = true
		m["roothashes"] = hs
	}()
	w.Emit(m)
}
