// Package tlval converts between Go values of TL binding types and the JSON value shape of
// spec/TlSem.tla, guided by the schema AST (DESIGN.md A.5), and generates random values of a
// schema type. It performs no TL serialisation: bytes are produced only by the code under test
// and by the specification.
//
// The file is deliberately self-contained (stdlib only, every top-level identifier starts with
// Tv/tv): checks copy it verbatim, with the package clause rewritten, into /repo/liteclient (as an
// overlay _test file) and into the scratch module of C09.
//
// Value shape: int/long signed decimal strings, # unsigned decimal string, int128/int256/bytes/
// string lower-case hex, Bool JSON bool, vector array, constructor {"_":ctor, field:value...}
// without fields whose flag bit is clear and without fields of type `true`.
package tlval

import (
	"encoding/hex"
	"encoding/json"
	"fmt"
	"math/rand"
	"os"
	"reflect"
	"strconv"
)

type TvType struct {
	Name   string  // "" for vectors
	Vector *TvType // element type
}

func (t *TvType) UnmarshalJSON(b []byte) error {
	if len(b) > 0 && b[0] == '"' {
		return json.Unmarshal(b, &t.Name)
	}
	var m map[string]*TvType
	if err := json.Unmarshal(b, &m); err != nil {
		return err
	}
	if v, ok := m["vector"]; ok && len(m) == 1 {
		t.Vector = v
		return nil
	}
	return fmt.Errorf("tlval: unsupported type expression %s", b)
}

func (t TvType) MarshalJSON() ([]byte, error) {
	if t.Vector != nil {
		return json.Marshal(map[string]*TvType{"vector": t.Vector})
	}
	return json.Marshal(t.Name)
}

type TvFlag struct {
	Field string `json:"field"`
	Bit   int    `json:"bit"`
}

type TvField struct {
	Name string  `json:"name"`
	Ty   TvType  `json:"ty"`
	Flag *TvFlag `json:"flag,omitempty"`
}

type TvDecl struct {
	Ctor   string    `json:"ctor"`
	ID     string    `json:"id"`
	Result string    `json:"result"`
	Fields []TvField `json:"fields"`
}

type TvSchema struct {
	Types     []TvDecl `json:"types"`
	Functions []TvDecl `json:"functions"`
}

func TvLoadSchema(path string) (*TvSchema, error) {
	b, err := os.ReadFile(path)
	if err != nil {
		return nil, err
	}
	var s TvSchema
	if err := json.Unmarshal(b, &s); err != nil {
		return nil, err
	}
	return &s, nil
}

func (s *TvSchema) Ctor(name string) *TvDecl {
	for i := range s.Types {
		if s.Types[i].Ctor == name {
			return &s.Types[i]
		}
	}
	return nil
}

func (s *TvSchema) Fn(name string) *TvDecl {
	for i := range s.Functions {
		if s.Functions[i].Ctor == name {
			return &s.Functions[i]
		}
	}
	return nil
}

// CtorsOf lists the constructors of a result type in declaration order.
func (s *TvSchema) CtorsOf(result string) []*TvDecl {
	var r []*TvDecl
	for i := range s.Types {
		if s.Types[i].Result == result {
			r = append(r, &s.Types[i])
		}
	}
	return r
}

func tvIsTrue(f TvField) bool { return f.Ty.Vector == nil && f.Ty.Name == "true" }

func TvNamed(n string) TvType { return TvType{Name: n} }

// TvCamel is this harness's own reading of the naming convention (dots, underscores and digits
// start a new word); it is used only to *find* generated methods, never to judge anything.
func TvCamel(s string) string {
	out := make([]byte, 0, len(s))
	up := true
	for i := 0; i < len(s); i++ {
		c := s[i]
		switch {
		case c >= 'a' && c <= 'z':
			if up {
				c -= 32
			}
			out = append(out, c)
			up = false
		case c >= 'A' && c <= 'Z':
			out = append(out, c)
			up = false
		case c >= '0' && c <= '9':
			out = append(out, c)
			up = true
		default:
			up = true
		}
	}
	return string(out)
}

// ---------------------------------------------------------------- Go value -> JSON value

// tvFlat lists the fields of a struct, flattening embedded structs (ton.BlockIDExt embeds BlockID).
func tvFlat(v reflect.Value) []reflect.Value {
	var r []reflect.Value
	for i := 0; i < v.NumField(); i++ {
		sf := v.Type().Field(i)
		if sf.Anonymous && sf.Type.Kind() == reflect.Struct && sf.Type.Name() != "SumType" {
			r = append(r, tvFlat(v.Field(i))...)
		} else {
			r = append(r, v.Field(i))
		}
	}
	return r
}

func tvBit(dec any, bit int) bool {
	u, _ := strconv.ParseUint(fmt.Sprint(dec), 10, 64)
	return (u>>uint(bit))&1 == 1
}

func tvIsZero(v reflect.Value) bool {
	switch v.Kind() {
	case reflect.Pointer, reflect.Interface:
		return v.IsNil()
	case reflect.Slice, reflect.String:
		return v.Len() == 0
	}
	return v.IsZero()
}

// TvToJSON renders Go value v, which the bindings use for TL type ty, in the value shape.
func (s *TvSchema) TvToJSON(ty TvType, v reflect.Value) (any, error) {
	for v.Kind() == reflect.Pointer {
		if v.IsNil() {
			return nil, fmt.Errorf("nil pointer for %v", ty)
		}
		v = v.Elem()
	}
	if ty.Vector != nil {
		if v.Kind() != reflect.Slice {
			return nil, fmt.Errorf("vector needs a slice, have %v", v.Type())
		}
		out := make([]any, v.Len())
		for i := range out {
			x, err := s.TvToJSON(*ty.Vector, v.Index(i))
			if err != nil {
				return nil, err
			}
			out[i] = x
		}
		return out, nil
	}
	switch ty.Name {
	case "int":
		switch v.Kind() {
		case reflect.Uint32:
			return strconv.FormatInt(int64(int32(uint32(v.Uint()))), 10), nil
		case reflect.Int32:
			return strconv.FormatInt(v.Int(), 10), nil
		}
	case "long":
		switch v.Kind() {
		case reflect.Uint64:
			return strconv.FormatInt(int64(v.Uint()), 10), nil
		case reflect.Int64:
			return strconv.FormatInt(v.Int(), 10), nil
		}
	case "#":
		if v.Kind() == reflect.Uint32 {
			return strconv.FormatUint(v.Uint(), 10), nil
		}
	case "int128", "int256":
		if v.Kind() == reflect.Array && v.Type().Elem().Kind() == reflect.Uint8 {
			b := make([]byte, v.Len())
			for i := range b {
				b[i] = byte(v.Index(i).Uint())
			}
			return hex.EncodeToString(b), nil
		}
	case "bytes", "string":
		if v.Kind() == reflect.String {
			return hex.EncodeToString([]byte(v.String())), nil
		}
		if v.Kind() == reflect.Slice && v.Type().Elem().Kind() == reflect.Uint8 {
			return hex.EncodeToString(v.Bytes()), nil
		}
	case "Bool":
		if v.Kind() == reflect.Bool {
			return v.Bool(), nil
		}
	case "true":
		return nil, fmt.Errorf("`true` has no value")
	default:
		if d := s.Ctor(ty.Name); d != nil {
			return s.tvRecToJSON(d, v)
		}
		if d := s.Fn(ty.Name); d != nil {
			return s.tvRecToJSON(d, v)
		}
		if cs := s.CtorsOf(ty.Name); len(cs) > 0 {
			if v.Kind() != reflect.Struct {
				break
			}
			if _, isSum := v.Type().FieldByName("SumType"); !isSum {
				if len(cs) == 1 { // boxed single-constructor type with a plain struct (LiteServerSignatureSet)
					return s.tvRecToJSON(cs[0], v)
				}
				break
			}
			tag := v.FieldByName("SumType").String()
			k := 0
			for i := 0; i < v.NumField(); i++ {
				if v.Type().Field(i).Name == "SumType" {
					continue
				}
				if v.Type().Field(i).Name == tag {
					if k >= len(cs) {
						return nil, fmt.Errorf("%v: more Go variants than constructors of %s", v.Type(), ty.Name)
					}
					return s.tvRecToJSON(cs[k], v.Field(i))
				}
				k++
			}
			return nil, fmt.Errorf("%v: SumType %q names no field", v.Type(), tag)
		}
		return nil, fmt.Errorf("unknown TL type %q", ty.Name)
	}
	return nil, fmt.Errorf("TL type %q cannot be read from Go type %v", ty.Name, v.Type())
}

func (s *TvSchema) tvRecToJSON(d *TvDecl, v reflect.Value) (any, error) {
	if v.Kind() != reflect.Struct {
		return nil, fmt.Errorf("%s needs a struct, have %v", d.Ctor, v.Type())
	}
	gf := tvFlat(v)
	out := map[string]any{"_": d.Ctor}
	k := 0
	for _, f := range d.Fields {
		if tvIsTrue(f) {
			continue
		}
		if k >= len(gf) {
			return nil, fmt.Errorf("%v has fewer fields than %s", v.Type(), d.Ctor)
		}
		g := gf[k]
		k++
		if f.Flag != nil {
			set := tvBit(out[f.Flag.Field], f.Flag.Bit)
			if !set && tvIsZero(g) {
				continue
			}
			// bit clear but a value is there: shown, so that the specification sees it.
			// bit set but the code left a nil pointer: the field is simply not there — shown as absent, so that
			// the specification (which requires it) rejects the value instead of the harness giving up
			if g.Kind() == reflect.Pointer && g.IsNil() {
				continue
			}
		}
		x, err := s.TvToJSON(f.Ty, g)
		if err != nil {
			return nil, fmt.Errorf("%s.%s: %v", d.Ctor, f.Name, err)
		}
		out[f.Name] = x
	}
	if k != len(gf) {
		return nil, fmt.Errorf("%v has %d fields, %s carries %d", v.Type(), len(gf), d.Ctor, k)
	}
	return out, nil
}

// ---------------------------------------------------------------- JSON value -> Go value

// TvFromJSON builds a Go value of type t from JSON value j of TL type ty.
func (s *TvSchema) TvFromJSON(ty TvType, j any, t reflect.Type) (reflect.Value, error) {
	if t.Kind() == reflect.Pointer {
		e, err := s.TvFromJSON(ty, j, t.Elem())
		if err != nil {
			return e, err
		}
		p := reflect.New(t.Elem())
		p.Elem().Set(e)
		return p, nil
	}
	out := reflect.New(t).Elem()
	bad := func() (reflect.Value, error) {
		return out, fmt.Errorf("TL type %v with value %v cannot be stored in Go type %v", ty, j, t)
	}
	if ty.Vector != nil {
		arr, ok := j.([]any)
		if !ok || t.Kind() != reflect.Slice {
			return bad()
		}
		sl := reflect.MakeSlice(t, len(arr), len(arr))
		for i, x := range arr {
			e, err := s.TvFromJSON(*ty.Vector, x, t.Elem())
			if err != nil {
				return out, err
			}
			sl.Index(i).Set(e)
		}
		return sl, nil
	}
	str, _ := j.(string)
	switch ty.Name {
	case "int", "long":
		n, err := strconv.ParseInt(str, 10, 64)
		if err != nil {
			return bad()
		}
		switch t.Kind() {
		case reflect.Uint32:
			out.SetUint(uint64(uint32(int32(n))))
		case reflect.Uint64:
			out.SetUint(uint64(n))
		case reflect.Int32, reflect.Int64:
			out.SetInt(n)
		default:
			return bad()
		}
		return out, nil
	case "#":
		n, err := strconv.ParseUint(str, 10, 32)
		if err != nil || t.Kind() != reflect.Uint32 {
			return bad()
		}
		out.SetUint(n)
		return out, nil
	case "int128", "int256", "bytes", "string":
		b, err := hex.DecodeString(str)
		if err != nil {
			return bad()
		}
		switch {
		case t.Kind() == reflect.Array && t.Len() == len(b):
			reflect.Copy(out, reflect.ValueOf(b))
		case t.Kind() == reflect.String:
			out.SetString(string(b))
		case t.Kind() == reflect.Slice && t.Elem().Kind() == reflect.Uint8:
			out.SetBytes(b)
		default:
			return bad()
		}
		return out, nil
	case "Bool":
		bv, ok := j.(bool)
		if !ok || t.Kind() != reflect.Bool {
			return bad()
		}
		out.SetBool(bv)
		return out, nil
	}
	m, ok := j.(map[string]any)
	if !ok || t.Kind() != reflect.Struct {
		return bad()
	}
	ctor, _ := m["_"].(string)
	if d := s.Ctor(ty.Name); d != nil {
		return out, s.tvRecFromJSON(d, m, out)
	}
	if d := s.Fn(ty.Name); d != nil {
		return out, s.tvRecFromJSON(d, m, out)
	}
	cs := s.CtorsOf(ty.Name)
	if _, isSum := t.FieldByName("SumType"); !isSum {
		if len(cs) == 1 {
			return out, s.tvRecFromJSON(cs[0], m, out)
		}
		return bad()
	}
	k := 0
	for i := 0; i < t.NumField(); i++ {
		if t.Field(i).Name == "SumType" {
			continue
		}
		if k < len(cs) && cs[k].Ctor == ctor {
			out.FieldByName("SumType").SetString(t.Field(i).Name)
			return out, s.tvRecFromJSON(cs[k], m, out.Field(i))
		}
		k++
	}
	return bad()
}

func (s *TvSchema) tvRecFromJSON(d *TvDecl, m map[string]any, out reflect.Value) error {
	gf := tvFlat(out)
	k := 0
	for _, f := range d.Fields {
		if tvIsTrue(f) {
			continue
		}
		if k >= len(gf) {
			return fmt.Errorf("%v has fewer fields than %s", out.Type(), d.Ctor)
		}
		g := gf[k]
		k++
		x, ok := m[f.Name]
		if !ok {
			if f.Flag == nil {
				return fmt.Errorf("%s: value lacks field %s", d.Ctor, f.Name)
			}
			continue
		}
		e, err := s.TvFromJSON(f.Ty, x, g.Type())
		if err != nil {
			return fmt.Errorf("%s.%s: %v", d.Ctor, f.Name, err)
		}
		g.Set(e)
	}
	if k != len(gf) {
		return fmt.Errorf("%v has %d fields, %s carries %d", out.Type(), len(gf), d.Ctor, k)
	}
	return nil
}

// ---------------------------------------------------------------- random values of a schema type

type TvGen struct {
	R       *rand.Rand
	MaxVec  int // vector lengths 0..MaxVec at the top, shrinking with depth
	Budget  int // bytes of string content still to hand out; small strings only once it is used up
	BigLens []int
	// ModeCounter makes the flag field of the *root* constructor walk through all combinations of
	// its used bits: combination number = ModeCounter.
	ModeCounter int
	// VecLen forces the length of the vector in field "ctor.field" (long-vector classes); its elements are
	// generated two levels deeper, i.e. with short strings and at most one nested element
	VecLen map[string]int
	depth  int
}

var tvEdgeInt = []string{"0", "1", "-1", "2147483647", "-2147483648", "255", "256", "-256", "16777216"}
var tvEdgeLong = []string{"0", "1", "-1", "9223372036854775807", "-9223372036854775808", "4294967296", "-4294967296", "-9223372036854775807"}
var tvEdgeLen = []int{0, 1, 2, 3, 4, 5, 7, 8, 252, 253, 254, 255, 256, 257, 258, 259, 260, 1020, 1099, 1100}

func (g *TvGen) bytes(n int) string {
	b := make([]byte, n)
	switch g.R.Intn(4) {
	case 0: // recognisable ramp
		s := g.R.Intn(256)
		for i := range b {
			b[i] = byte(s + i)
		}
	case 1:
		for i := range b {
			b[i] = 0xff
		}
	default:
		g.R.Read(b)
	}
	return hex.EncodeToString(b)
}

func (g *TvGen) strLen() int {
	if g.Budget <= 0 {
		return g.R.Intn(6)
	}
	var n int
	switch x := g.R.Intn(100); {
	case x < 45:
		n = g.R.Intn(40)
	case x < 70:
		n = g.R.Intn(1101)
	case x < 92 || len(g.BigLens) == 0 || g.depth > 1:
		n = tvEdgeLen[g.R.Intn(len(tvEdgeLen))]
	default:
		n = g.BigLens[g.R.Intn(len(g.BigLens))]
	}
	g.Budget -= n
	return n
}

// usedBits of flag field name in declaration d, ascending.
func tvUsedBits(d *TvDecl, name string) []int {
	seen := map[int]bool{}
	var r []int
	for _, f := range d.Fields {
		if f.Flag != nil && f.Flag.Field == name && !seen[f.Flag.Bit] {
			seen[f.Flag.Bit] = true
			r = append(r, f.Flag.Bit)
		}
	}
	for i := 1; i < len(r); i++ {
		for j := i; j > 0 && r[j] < r[j-1]; j-- {
			r[j], r[j-1] = r[j-1], r[j]
		}
	}
	return r
}

func (g *TvGen) Value(s *TvSchema, ty TvType) any {
	if ty.Vector != nil {
		max := g.MaxVec >> uint(g.depth)
		n := 0
		if max > 0 {
			n = g.R.Intn(max + 1)
		}
		if g.Budget <= 0 && n > 2 {
			n = 2
		}
		g.depth++
		out := make([]any, n)
		for i := range out {
			out[i] = g.Value(s, *ty.Vector)
		}
		g.depth--
		return out
	}
	switch ty.Name {
	case "int":
		if g.R.Intn(3) == 0 {
			return tvEdgeInt[g.R.Intn(len(tvEdgeInt))]
		}
		return strconv.FormatInt(int64(int32(g.R.Uint32())), 10)
	case "long":
		if g.R.Intn(3) == 0 {
			return tvEdgeLong[g.R.Intn(len(tvEdgeLong))]
		}
		return strconv.FormatInt(int64(g.R.Uint64()), 10)
	case "#":
		return strconv.FormatUint(uint64(g.R.Uint32()), 10)
	case "int128":
		return g.bytes(16)
	case "int256":
		return g.bytes(32)
	case "bytes", "string":
		return g.bytes(g.strLen())
	case "Bool":
		return g.R.Intn(2) == 1
	}
	if d := s.Ctor(ty.Name); d != nil {
		return g.record(s, d)
	}
	if d := s.Fn(ty.Name); d != nil {
		return g.record(s, d)
	}
	cs := s.CtorsOf(ty.Name)
	if len(cs) == 0 {
		panic("tlval: unknown type " + ty.Name)
	}
	return g.record(s, cs[g.R.Intn(len(cs))])
}

func (g *TvGen) record(s *TvSchema, d *TvDecl) any {
	root := g.depth == 0
	g.depth++
	defer func() { g.depth-- }()
	out := map[string]any{"_": d.Ctor}
	for _, f := range d.Fields {
		if tvIsTrue(f) {
			continue
		}
		if f.Flag != nil && !tvBit(out[f.Flag.Field], f.Flag.Bit) {
			continue
		}
		if f.Ty.Vector == nil && f.Ty.Name == "#" && f.Flag == nil {
			if used := tvUsedBits(d, f.Name); len(used) > 0 {
				m := g.R.Uint32()
				switch g.R.Intn(4) { // unused bits: random, all clear, all set
				case 0:
					m = 0
				case 1:
					m = 0xffffffff
				}
				comb := g.R.Intn(1 << uint(len(used)))
				if root {
					comb = g.ModeCounter % (1 << uint(len(used)))
				}
				for i, b := range used {
					m &^= 1 << uint(b)
					if (comb>>uint(i))&1 == 1 {
						m |= 1 << uint(b)
					}
				}
				out[f.Name] = strconv.FormatUint(uint64(m), 10)
				continue
			}
		}
		if n, ok := g.VecLen[d.Ctor+"."+f.Name]; ok && f.Ty.Vector != nil {
			g.depth += 2
			items := make([]any, n)
			for i := range items {
				items[i] = g.Value(s, *f.Ty.Vector)
			}
			g.depth -= 2
			out[f.Name] = items
			continue
		}
		out[f.Name] = g.Value(s, f.Ty)
	}
	return out
}

// TvCanon re-encodes a JSON value with sorted keys, for comparing two values for equality.
func TvCanon(v any) string {
	b, err := json.Marshal(v)
	if err != nil {
		return "!" + err.Error()
	}
	var x any
	if json.Unmarshal(b, &x) != nil {
		return "!"
	}
	b, _ = json.Marshal(x)
	return string(b)
}
