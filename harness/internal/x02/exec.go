// Package x02 drives and records package tep64 (TEP-64 token data) for the X02 check. The harness only builds
// inputs, calls the real code and writes down what came back; every judgement is made by TLC (spec/Tep64.tla).
package x02

import (
	"encoding/base64"
	"encoding/hex"
	"encoding/json"
	"fmt"

	"github.com/tonkeeper/tongo/boc"
	"github.com/tonkeeper/tongo/tep64"
	"github.com/tonkeeper/tongo/tlb"

	"verifharness/internal/ev"
)

// Attrs are the attribute names of the Metadata fields (their json names, which are the TEP-64 names).
var Attrs = []string{"uri", "name", "description", "image", "image_data", "symbol", "decimals", "amount_style", "render_type", "custom_payload_api_uri"}

func layoutName(l tep64.ContentLayout) string {
	switch l {
	case tep64.OffChain:
		return "offchain"
	case tep64.OnChain:
		return "onchain"
	case tep64.SemiChain:
		return "semichain"
	case tep64.Undefined:
		return "undefined"
	}
	return fmt.Sprintf("layout%d", int(l))
}

func metaFields(m *tep64.Metadata) (map[string]string, bool) {
	f := map[string]string{}
	for _, a := range Attrs {
		f[a] = ""
	}
	if m == nil {
		return f, true
	}
	h := func(s string) string { return hex.EncodeToString([]byte(s)) }
	f["uri"], f["name"], f["description"], f["image"] = h(m.Uri), h(m.Name), h(m.Description), h(m.Image)
	f["image_data"] = hex.EncodeToString(m.ImageData)
	f["symbol"], f["decimals"], f["amount_style"], f["render_type"] = h(m.Symbol), h(m.Decimals), h(m.AmountStyle), h(m.RenderType)
	f["custom_payload_api_uri"] = h(m.CustomPayloadAPIURL)
	return f, m.ImageData == nil
}

// jsonFields reads FullContent.Data of an on-chain content back as a JSON object: attribute -> hex of the string's
// bytes (image_data: of the base64-decoded bytes), "-" when absent. ok is false when Data is not such an object.
func jsonFields(data []byte) (map[string]string, bool) {
	out := map[string]string{}
	for _, a := range Attrs {
		out[a] = "-"
	}
	var obj map[string]any
	if err := json.Unmarshal(data, &obj); err != nil || obj == nil {
		return out, false
	}
	ok := true
	for k, v := range obj {
		s, isStr := v.(string)
		if _, known := out[k]; !known || !isStr {
			ok = false
			continue
		}
		if k == "image_data" {
			raw, err := base64.StdEncoding.DecodeString(s)
			if err != nil {
				ok = false
				continue
			}
			out[k] = hex.EncodeToString(raw)
		} else {
			out[k] = hex.EncodeToString([]byte(s))
		}
	}
	return out, ok
}

func blank() ev.M {
	f, _ := metaFields(nil)
	j, _ := jsonFields(nil)
	return ev.M{"ran": true, "ok": false, "err": "", "msg": "", "panic": "", "layout": "none", "url": "", "has_meta": false, "fields": f,
		"img_nil": true, "data": "", "json_ok": false, "json": j}
}

func project(fc tep64.FullContent, err error) ev.M {
	m := blank()
	if err != nil {
		m["err"], m["msg"] = "e", err.Error()
		return m
	}
	m["ok"] = true
	m["layout"] = layoutName(fc.Layout)
	m["url"] = hex.EncodeToString([]byte(fc.OffchainURL))
	m["has_meta"] = fc.OnchainMetadata != nil
	m["fields"], m["img_nil"] = metaFields(fc.OnchainMetadata)
	m["data"] = hex.EncodeToString(fc.Data)
	m["json"], m["json_ok"] = jsonFields(fc.Data)
	return m
}

func guard(m *ev.M, f func() ev.M) {
	defer func() {
		if r := recover(); r != nil {
			b := blank()
			b["panic"] = fmt.Sprint(r)
			*m = b
		}
	}()
	*m = f()
}

func parseRoot(bag []byte) (*boc.Cell, error) {
	cells, err := boc.DeserializeBoc(bag)
	if err != nil {
		return nil, err
	}
	if len(cells) != 1 {
		return nil, fmt.Errorf("%d roots", len(cells))
	}
	return cells[0], nil
}

// Decode runs the three public entry points on the content stored in the bag (a fresh parse for each, cells carry
// read cursors): DecodeFullContentFromCell; tlb.Unmarshal into tlb.FullContent + DecodeFullContent; ConvertOnchainData;
// DecodeFullContent called a second time on the same tlb.FullContent value.
func Decode(bagHex string) (ev.M, error) {
	bag, err := hex.DecodeString(bagHex)
	if err != nil {
		return nil, err
	}
	if _, err := parseRoot(bag); err != nil {
		return nil, fmt.Errorf("the bag does not parse: %w", err)
	}
	var g1, g2, g3, g4 ev.M
	guard(&g1, func() ev.M {
		root, _ := parseRoot(bag)
		return project(tep64.DecodeFullContentFromCell(root))
	})
	guard(&g2, func() ev.M {
		root, _ := parseRoot(bag)
		var c tlb.FullContent
		if err := tlb.Unmarshal(root, &c); err != nil {
			return project(tep64.FullContent{}, err)
		}
		return project(tep64.DecodeFullContent(c))
	})
	guard(&g3, func() ev.M {
		root, _ := parseRoot(bag)
		var c tlb.FullContent
		if err := tlb.Unmarshal(root, &c); err != nil || c.SumType != "Onchain" {
			b := blank()
			b["ran"] = false
			return b
		}
		meta, err := tep64.ConvertOnchainData(c)
		b := blank()
		if err != nil {
			b["err"], b["msg"] = "e", err.Error()
			return b
		}
		b["ok"] = true
		b["fields"], b["img_nil"] = metaFields(&meta)
		return b
	})
	// a tlb.FullContent is a value: decoding it a second time must give the same answer
	guard(&g4, func() ev.M {
		root, _ := parseRoot(bag)
		var c tlb.FullContent
		if err := tlb.Unmarshal(root, &c); err != nil {
			b := blank()
			b["ran"] = false
			return b
		}
		_, _ = tep64.DecodeFullContent(c)
		return project(tep64.DecodeFullContent(c))
	})
	return ev.M{"go": g1, "go2": g2, "conv": g3, "go3": g4}, nil
}

// DecodeText runs tlb.Unmarshal into tlb.Text on the root of the bag.
func DecodeText(bagHex string) (ev.M, error) {
	bag, err := hex.DecodeString(bagHex)
	if err != nil {
		return nil, err
	}
	root, err := parseRoot(bag)
	if err != nil {
		return nil, fmt.Errorf("the bag does not parse: %w", err)
	}
	g := ev.M{"ok": false, "err": "", "msg": "", "panic": "", "val": ""}
	func() {
		defer func() {
			if r := recover(); r != nil {
				g = ev.M{"ok": false, "err": "", "msg": "", "panic": fmt.Sprint(r), "val": ""}
			}
		}()
		var t tlb.Text
		if err := tlb.Unmarshal(root, &t); err != nil {
			g["err"], g["msg"] = "e", err.Error()
			return
		}
		g["ok"], g["val"] = true, hex.EncodeToString([]byte(t))
	}()
	return ev.M{"go": g}, nil
}

// Meta is an abstract Metadata value as exchanged with the specification.
type Meta struct {
	F      map[string]string `json:"f"`
	ImgNil bool              `json:"img_nil"`
}

func (m Meta) build() (*tep64.Metadata, error) {
	get := func(a string) (string, error) {
		b, err := hex.DecodeString(m.F[a])
		return string(b), err
	}
	var r tep64.Metadata
	var err error
	for _, p := range []struct {
		a string
		f *string
	}{{"uri", &r.Uri}, {"name", &r.Name}, {"description", &r.Description}, {"image", &r.Image}, {"symbol", &r.Symbol}, {"decimals", &r.Decimals},
		{"amount_style", &r.AmountStyle}, {"render_type", &r.RenderType}, {"custom_payload_api_uri", &r.CustomPayloadAPIURL}} {
		if *p.f, err = get(p.a); err != nil {
			return nil, err
		}
	}
	img, err := hex.DecodeString(m.F["image_data"])
	if err != nil {
		return nil, err
	}
	if m.ImgNil {
		if len(img) != 0 {
			return nil, fmt.Errorf("nil image_data with content")
		}
	} else {
		r.ImageData = append([]byte{}, img...)
	}
	return &r, nil
}

func metaOf(m *tep64.Metadata) Meta {
	f, n := metaFields(m)
	return Meta{F: f, ImgNil: n}
}

// Merge runs a.Merge(b) (b nil when bNil) and records receiver and argument afterwards.
func Merge(a Meta, bNil bool, b Meta) (ev.M, error) {
	ma, err := a.build()
	if err != nil {
		return nil, err
	}
	var mb *tep64.Metadata
	if !bNil {
		if mb, err = b.build(); err != nil {
			return nil, err
		}
	}
	res := ev.M{"a": a, "b_nil": bNil, "b": b, "panic": ""}
	func() {
		defer func() {
			if r := recover(); r != nil {
				res["panic"] = fmt.Sprint(r)
			}
		}()
		ma.Merge(mb)
	}()
	res["r"] = metaOf(ma)
	if bNil {
		res["b_after"] = b
	} else {
		res["b_after"] = metaOf(mb)
	}
	return res, nil
}
