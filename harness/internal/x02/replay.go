package x02

import (
	"bufio"
	"encoding/json"
	"fmt"
	"os"

	"verifharness/internal/ev"
)

type vector struct {
	T       string          `json:"t"`
	Vec     int             `json:"vec"`
	Cls     json.RawMessage `json:"cls"`
	Boc     string          `json:"boc"`
	Want    json.RawMessage `json:"want"`
	A       Meta            `json:"a"`
	BNil    bool            `json:"b_nil"`
	B       Meta            `json:"b"`
	ImgFree bool            `json:"img_free"`
	In      string          `json:"in"`
}

// Replay (S->C) feeds every generated bag to the real decoders and every generated Metadata pair to Merge and records
// what came back beside the vector's expectation (compared by the runner and, from the bytes, by Tep64_Trace).
func Replay(in string, w *ev.Writer) error {
	w.Sync = true
	f, err := os.Open(in)
	if err != nil {
		return err
	}
	defer f.Close()
	sc := bufio.NewScanner(f)
	sc.Buffer(make([]byte, 1<<20), 1<<28)
	n := 0
	for sc.Scan() {
		if len(sc.Bytes()) == 0 {
			continue
		}
		var v vector
		if err := json.Unmarshal(sc.Bytes(), &v); err != nil {
			return fmt.Errorf("bad vector: %w", err)
		}
		w.Emit(ev.M{"k": "Begin", "vec": v.Vec})
		switch v.T {
		case "dec":
			r, err := Decode(v.Boc)
			if err != nil {
				return fmt.Errorf("vector %d: %w", v.Vec, err)
			}
			r["k"], r["src"], r["vec"], r["boc"] = "Dec", "gen", v.Vec, v.Boc
			if len(v.Cls) > 0 {
				r["cls"] = v.Cls
			}
			if len(v.Want) > 0 {
				r["want"] = v.Want
			}
			w.Emit(r)
		case "text":
			r, err := DecodeText(v.Boc)
			if err != nil {
				return fmt.Errorf("vector %d: %w", v.Vec, err)
			}
			if v.In == "" {
				v.In = "-"
			}
			r["k"], r["src"], r["vec"], r["boc"], r["in"] = "Text", "gen", v.Vec, v.Boc, v.In
			w.Emit(r)
		case "merge":
			r, err := Merge(v.A, v.BNil, v.B)
			if err != nil {
				return fmt.Errorf("vector %d: %w", v.Vec, err)
			}
			r["k"], r["src"], r["vec"], r["img_free"] = "Merge", "gen", v.Vec, v.ImgFree
			if len(v.Want) > 0 {
				r["want"] = v.Want
			}
			w.Emit(r)
		default:
			return fmt.Errorf("vector %d: unknown kind %q", v.Vec, v.T)
		}
		n++
	}
	if err := sc.Err(); err != nil {
		return err
	}
	w.Emit(ev.M{"k": "End", "events": n})
	return nil
}
