package x02

import (
	"crypto/sha256"
	"math/rand"
	"sort"
	"strings"

	"github.com/tonkeeper/tongo/boc"
)

// node is a cell under construction: bits as a "0101" string, references in order.
type node struct {
	bits string
	refs []*node
}

func bitsOf(b []byte) string {
	var sb strings.Builder
	for _, x := range b {
		for i := 7; i >= 0; i-- {
			if x>>uint(i)&1 == 1 {
				sb.WriteByte('1')
			} else {
				sb.WriteByte('0')
			}
		}
	}
	return sb.String()
}

func uintBits(v uint64, w int) string {
	var sb strings.Builder
	for i := w - 1; i >= 0; i-- {
		if v>>uint(i)&1 == 1 {
			sb.WriteByte('1')
		} else {
			sb.WriteByte('0')
		}
	}
	return sb.String()
}

func (n *node) cell() (*boc.Cell, error) {
	c := boc.NewCell()
	for _, ch := range n.bits {
		if err := c.WriteBit(ch == '1'); err != nil {
			return nil, err
		}
	}
	for _, r := range n.refs {
		k, err := r.cell()
		if err != nil {
			return nil, err
		}
		if err := c.AddRef(k); err != nil {
			return nil, err
		}
	}
	return c, nil
}

// all nodes of the tree, parents first
func (n *node) all() []*node {
	out := []*node{n}
	for _, r := range n.refs {
		out = append(out, r.all()...)
	}
	return out
}

func (n *node) clone() *node {
	c := &node{bits: n.bits}
	for _, r := range n.refs {
		c.refs = append(c.refs, r.clone())
	}
	return c
}

// randCuts splits nbits into cell payloads: the first cell has room for `first` bits, the others for 1023. Styles:
// 0 fill with whole bytes, 1 fill to the last bit, 2 random cuts at any bit, 3 random cuts at byte boundaries (with empty cells).
func randCuts(rng *rand.Rand, nbits, first, style int) []int {
	var cuts []int
	room := first
	for {
		var take int
		switch style {
		case 0:
			take = room / 8 * 8
		case 1:
			take = room
		case 2:
			take = rng.Intn(room + 1)
			if rng.Intn(4) == 0 {
				take = rng.Intn(17)
			}
		default:
			take = rng.Intn(room/8+1) * 8
			if rng.Intn(4) == 0 {
				take = rng.Intn(3) * 8
			}
		}
		if take > room {
			take = room
		}
		if take >= nbits {
			cuts = append(cuts, nbits)
			if style >= 2 && rng.Intn(6) == 0 {
				cuts = append(cuts, 0) // an empty tail cell
			}
			return cuts
		}
		if len(cuts) > 40 && take < 64 { // keep chains short
			take = room
			if take > nbits {
				take = nbits
			}
		}
		cuts = append(cuts, take)
		nbits -= take
		room = 1023
	}
}

// snake builds the chain prefix||bits cut as given.
func snake(prefix, bits string, cuts []int) *node {
	var cells []*node
	at := 0
	for i, c := range cuts {
		n := &node{bits: bits[at : at+c]}
		if i == 0 {
			n.bits = prefix + n.bits
		}
		at += c
		cells = append(cells, n)
	}
	for i := 0; i+1 < len(cells); i++ {
		cells[i].refs = []*node{cells[i+1]}
	}
	return cells[0]
}

type entry struct {
	key string // key bits
	val *node  // referenced value (nil: the leaf gets no reference)
}

func bitLen(m int) int {
	n := 0
	for m > 0 {
		n++
		m >>= 1
	}
	return n
}

// label writes s (the edge's key bits) when m key bits remain, in the form f: 0 short, 1 long, 2 same (falls back to long), 3 shortest.
func label(s string, m, f int) string {
	n := len(s)
	same := strings.Count(s, "1") == n || strings.Count(s, "0") == n
	short := "0" + strings.Repeat("1", n) + "0" + s
	long := "10" + uintBits(uint64(n), bitLen(m)) + s
	sm := ""
	if same {
		v := "0"
		if n > 0 {
			v = s[:1]
		}
		sm = "11" + v + uintBits(uint64(n), bitLen(m))
	}
	switch f {
	case 0:
		if len(short) <= 1023 {
			return short
		}
		return long
	case 1:
		return long
	case 2:
		if same {
			return sm
		}
		return long
	}
	best := long
	if len(short) < len(best) {
		best = short
	}
	if same && len(sm) < len(best) {
		best = sm
	}
	return best
}

// edge builds the Patricia tree of the (sorted, distinct, equally long) keys es[*].key from bit `at`; n = key width.
func edge(rng *rand.Rand, es []entry, at, n int, forms []int) *node {
	lcp := 0
	for at+lcp < n {
		b := es[0].key[at+lcp]
		same := true
		for _, e := range es {
			if e.key[at+lcp] != b {
				same = false
				break
			}
		}
		if !same {
			break
		}
		lcp++
	}
	f := forms[rng.Intn(len(forms))]
	c := &node{bits: label(es[0].key[at:at+lcp], n-at, f)}
	at += lcp
	if at == n {
		if es[0].val != nil {
			c.refs = []*node{es[0].val}
		}
		return c
	}
	i := sort.Search(len(es), func(i int) bool { return es[i].key[at] == '1' })
	c.refs = []*node{edge(rng, es[:i], at+1, n, forms), edge(rng, es[i:], at+1, n, forms)}
	return c
}

// dictE writes prefix || HashmapE n of references into a cell.
func dictE(rng *rand.Rand, prefix string, es []entry, n int, forms []int) *node {
	if len(es) == 0 {
		return &node{bits: prefix + "0"}
	}
	sort.Slice(es, func(i, j int) bool { return es[i].key < es[j].key })
	return &node{bits: prefix + "1", refs: []*node{edge(rng, es, 0, n, forms)}}
}

func attrKey(name string) string {
	h := sha256.Sum256([]byte(name))
	return bitsOf(h[:])
}
