package x02

import (
	"encoding/hex"
	"fmt"
	"math/rand"
	"sort"

	"github.com/tonkeeper/tongo/boc"
	"github.com/tonkeeper/tongo/tlb"

	"verifharness/internal/ev"
)

type Opts struct {
	Tier          string
	Seed          int64
	Shard, Shards int
}

type gen struct {
	rng *rand.Rand
	w   *ev.Writer
	n   int
}

func (g *gen) bytes(n int, ascii bool) []byte {
	b := make([]byte, n)
	for i := range b {
		if ascii {
			b[i] = byte(32 + g.rng.Intn(95))
		} else {
			b[i] = byte(g.rng.Intn(256))
		}
	}
	return b
}

func (g *gen) payloadLen(big bool) int {
	switch g.rng.Intn(10) {
	case 0:
		return 0
	case 1, 2, 3, 4:
		return 1 + g.rng.Intn(24)
	case 5, 6:
		return 100 + g.rng.Intn(60) // around the capacity of one cell (126 / 127 bytes)
	case 7, 8:
		return 120 + g.rng.Intn(300)
	}
	if big {
		return 600 + g.rng.Intn(2500)
	}
	return 30 + g.rng.Intn(60)
}

// bagOf serialises with one of the library's header variants.
func (g *gen) bagOf(c *boc.Cell) ([]byte, error) {
	switch g.rng.Intn(4) {
	case 0:
		return c.ToBocCustom(true, true, false, 0)
	case 1:
		return c.ToBocCustom(false, true, false, 0)
	}
	return c.ToBoc()
}

func (g *gen) record(src, cls string, c *boc.Cell, in ev.M) error {
	bag, err := g.bagOf(c)
	if err != nil {
		return fmt.Errorf("%s: cannot serialise: %w", src, err)
	}
	bagHex := hex.EncodeToString(bag)
	g.w.Emit(ev.M{"k": "Begin", "i": g.n, "src": src, "boc": bagHex})
	r, err := Decode(bagHex)
	if err != nil {
		return fmt.Errorf("%s: %w", src, err)
	}
	r["k"], r["src"], r["cls"], r["boc"] = "Dec", src, cls, bagHex
	if in != nil {
		r["in"] = in // what was handed to the library's encoder
	}
	g.w.Emit(r)
	g.n++
	return nil
}

func (g *gen) recordText(src string, c *boc.Cell, in string) error {
	bag, err := g.bagOf(c)
	if err != nil {
		return fmt.Errorf("%s: cannot serialise: %w", src, err)
	}
	bagHex := hex.EncodeToString(bag)
	g.w.Emit(ev.M{"k": "Begin", "i": g.n, "src": src, "boc": bagHex})
	r, err := DecodeText(bagHex)
	if err != nil {
		return fmt.Errorf("%s: %w", src, err)
	}
	r["k"], r["src"], r["boc"], r["in"] = "Text", src, bagHex, in
	g.w.Emit(r)
	g.n++
	return nil
}

// text records tlb.Text: strings through the library's encoder (the specification must read the input back from
// the cells) and hand-built chains through its decoder.
func (g *gen) text() error {
	if g.rng.Intn(2) == 0 {
		var p []byte
		switch g.rng.Intn(4) {
		case 0:
			p = g.bytes(g.payloadLen(true), false) // mostly not UTF-8
		case 1:
			for n := g.payloadLen(false); len(p) < n; {
				p = append(p, []byte(string(rune(0x80+g.rng.Intn(0x2000))))...)
			}
		default:
			p = g.bytes(g.payloadLen(true), true)
		}
		c := boc.NewCell()
		if err := tlb.Marshal(c, tlb.Text(p)); err != nil {
			return fmt.Errorf("tlb.Marshal(Text): %w", err)
		}
		return g.recordText("lib", c, hex.EncodeToString(p))
	}
	bits := bitsOf(g.bytes(g.payloadLen(false), g.rng.Intn(3) != 0))
	if g.rng.Intn(6) == 0 {
		bits += "0110"[:1+g.rng.Intn(4)]
	}
	n := snake("", bits, randCuts(g.rng, len(bits), 1023, g.rng.Intn(4)))
	if g.rng.Intn(8) == 0 {
		for _, c := range n.all() {
			if len(c.refs) == 1 {
				c.refs = append(c.refs, &node{bits: "0101"})
				break
			}
		}
	}
	c, err := n.cell()
	if err != nil {
		return err
	}
	return g.recordText("hand", c, "-")
}

// ---------------------------------------------------------------- library encoders

func snakeData(b []byte) tlb.SnakeData {
	bs := boc.NewBitString(len(b) * 8)
	_ = bs.WriteBytes(b)
	return tlb.SnakeData(bs)
}

func (g *gen) lib() error {
	var fc tlb.FullContent
	cls := "lib:off"
	inF := map[string]string{}
	for _, a := range Attrs {
		inF[a] = ""
	}
	in := ev.M{"layout": "offchain", "url": "", "fields": inF}
	if g.rng.Intn(3) == 0 {
		fc.SumType = "Offchain"
		u := g.bytes(g.payloadLen(false), g.rng.Intn(4) != 0)
		fc.Offchain.Uri = snakeData(u)
		in["url"] = hex.EncodeToString(u)
	} else {
		in["layout"] = "onchain"
		fc.SumType = "Onchain"
		cls = "lib:on"
		var keys []tlb.Bits256
		var vals []tlb.Ref[tlb.ContentData]
		names := append([]string{}, Attrs...)
		g.rng.Shuffle(len(names), func(i, j int) { names[i], names[j] = names[j], names[i] })
		names = names[:g.rng.Intn(len(names)+1)]
		for i := g.rng.Intn(3); i > 0; i-- {
			names = append(names, fmt.Sprintf("unknown_%d", g.rng.Intn(1000)))
		}
		seen := map[string]bool{}
		for _, a := range names {
			if seen[a] {
				continue
			}
			seen[a] = true
			var k tlb.Bits256
			kb := attrKey(a)
			for i := 0; i < 256; i++ {
				if kb[i] == '1' {
					k[i/8] |= 1 << uint(7-i%8)
				}
			}
			var cd tlb.ContentData
			cd.SumType = "Snake"
			p := g.bytes(g.payloadLen(a == "image_data"), a != "image_data" && g.rng.Intn(5) != 0)
			cd.Snake.Data = snakeData(p)
			if _, known := inF[a]; known {
				inF[a] = hex.EncodeToString(p)
			}
			keys = append(keys, k)
			vals = append(vals, tlb.Ref[tlb.ContentData]{Value: cd})
			if a == "uri" {
				cls = "lib:semi"
				in["layout"] = "semichain"
			}
		}
		fc.Onchain.Data = tlb.NewHashmapE(keys, vals)
	}
	c := boc.NewCell()
	if err := tlb.Marshal(c, fc); err != nil {
		return fmt.Errorf("tlb.Marshal(FullContent): %w", err)
	}
	return g.record("lib", cls, c, in)
}

// ---------------------------------------------------------------- foreign encodings

// value builds a ContentData cell for payload p. lenient: may add surplus; returns the node.
func (g *gen) value(p []byte, surplus bool) (*node, string) {
	bits := bitsOf(p)
	if g.rng.Intn(5) < 3 {
		n := snake("00000000", bits, randCuts(g.rng, len(bits), 1015, g.rng.Intn(4)))
		if surplus {
			// a second reference on a cell that already continues
			for _, c := range n.all() {
				if len(c.refs) == 1 {
					c.refs = append(c.refs, &node{bits: "0101"})
					return n, "snake+ref"
				}
			}
		}
		return n, "snake"
	}
	// chunked: cut the bits into chunks of at most 1023 bits, give them ascending distinct indices
	var parts []string
	rest := bits
	byteCuts := g.rng.Intn(3) != 0
	if len(rest) > 0 || g.rng.Intn(2) == 0 {
		for {
			take := g.rng.Intn(1024)
			if g.rng.Intn(3) == 0 {
				take = g.rng.Intn(40)
			}
			if byteCuts {
				take = take / 8 * 8
			}
			if take >= len(rest) {
				parts = append(parts, rest)
				break
			}
			if len(parts) > 30 {
				take = 1016
				if take > len(rest) {
					take = len(rest)
				}
			}
			parts = append(parts, rest[:take])
			rest = rest[take:]
		}
	}
	idx := map[uint32]bool{}
	for len(idx) < len(parts) {
		switch g.rng.Intn(4) {
		case 0:
			idx[uint32(len(idx))] = true
		case 1:
			idx[uint32(g.rng.Intn(64))] = true
		case 2:
			idx[g.rng.Uint32()] = true
		default:
			idx[0x80000000|uint32(g.rng.Intn(8))] = true
		}
	}
	var order []uint32
	for k := range idx {
		order = append(order, k)
	}
	sort.Slice(order, func(i, j int) bool { return order[i] < order[j] })
	var es []entry
	shape := "chunks"
	for i, p := range parts {
		v := &node{bits: p}
		if surplus && len(p) > 16 && g.rng.Intn(2) == 0 {
			v = snake("", p, []int{8, len(p) - 8}) // a chunk that is itself a chain
			shape = "chunks+chain"
		}
		es = append(es, entry{key: uintBits(uint64(order[i]), 32), val: v})
	}
	return dictE(g.rng, "00000001", es, 32, g.forms()), shape
}

func (g *gen) forms() []int {
	switch g.rng.Intn(5) {
	case 0:
		return []int{0}
	case 1:
		return []int{1}
	case 2:
		return []int{2}
	case 3:
		return []int{3}
	}
	return []int{0, 1, 2, 3}
}

type built struct {
	root *node
	cls  string
	vals []*node // the ContentData roots, for mutations
}

func (g *gen) offchain() built {
	p := g.bytes(g.payloadLen(false), g.rng.Intn(4) != 0)
	bits := bitsOf(p)
	return built{root: snake("00000001", bits, randCuts(g.rng, len(bits), 1015, g.rng.Intn(4))), cls: "hand:off"}
}

func (g *gen) onchain(surplus bool) built {
	names := append([]string{}, Attrs[1:]...)
	g.rng.Shuffle(len(names), func(i, j int) { names[i], names[j] = names[j], names[i] })
	names = names[:g.rng.Intn(len(names)+1)]
	cls := "hand:on"
	if g.rng.Intn(2) == 0 {
		names = append(names, "uri")
		cls = "hand:semi"
	}
	for i := g.rng.Intn(4); i > 0 && g.rng.Intn(2) == 0; i-- {
		names = append(names, fmt.Sprintf("unknown_%d", g.rng.Intn(1000)))
	}
	var es []entry
	var vals []*node
	seen := map[string]bool{}
	for _, a := range names {
		k := attrKey(a)
		if seen[k] {
			continue
		}
		seen[k] = true
		ascii := a != "image_data" && g.rng.Intn(6) != 0
		v, _ := g.value(g.bytes(g.payloadLen(a == "image_data"), ascii), surplus && g.rng.Intn(3) == 0)
		es = append(es, entry{key: k, val: v})
		vals = append(vals, v)
	}
	return built{root: dictE(g.rng, "00000000", es, 256, g.forms()), cls: cls, vals: vals}
}

func (g *gen) hand() error {
	var b built
	switch r := g.rng.Intn(10); {
	case r < 2:
		b = g.offchain()
	case r < 8:
		b = g.onchain(false)
	default:
		b = g.onchain(true)
		b.cls += ":surplus"
	}
	c, err := b.root.cell()
	if err != nil {
		return err
	}
	return g.record("hand", b.cls, c, nil)
}

// ---------------------------------------------------------------- mutations

func flip(s string, i int) string {
	b := []byte(s)
	b[i] ^= 1
	return string(b)
}

// mutate applies one structural change to a copy of the tree; returns nil when the change is not applicable.
func (g *gen) mutate(root *node) (*node, string) {
	t := root.clone()
	cells := t.all()
	c := cells[g.rng.Intn(len(cells))]
	if g.rng.Intn(3) == 0 {
		c = cells[0]
	}
	switch g.rng.Intn(12) {
	case 0:
		if len(c.bits) == 0 {
			return nil, ""
		}
		c.bits = flip(c.bits, g.rng.Intn(len(c.bits)))
		return t, "flip"
	case 1:
		if len(c.bits) < 16 {
			return nil, ""
		}
		c.bits = flip(c.bits, g.rng.Intn(16)) // tags and label heads live here
		return t, "flip-head"
	case 2:
		if len(c.bits) == 0 {
			return nil, ""
		}
		c.bits = c.bits[:len(c.bits)-1-g.rng.Intn(minInt(len(c.bits), 9))]
		return t, "cut-bits"
	case 3:
		if len(c.bits) > 1000 {
			return nil, ""
		}
		c.bits += []string{"0", "1", "0101", "00000000", "111"}[g.rng.Intn(5)]
		return t, "add-bits"
	case 4:
		if len(c.refs) == 0 {
			return nil, ""
		}
		c.refs = c.refs[:len(c.refs)-1]
		return t, "drop-ref"
	case 5:
		if len(c.refs) == 0 {
			return nil, ""
		}
		c.refs = c.refs[1:]
		return t, "drop-first-ref"
	case 6:
		if len(c.refs) >= 4 {
			return nil, ""
		}
		c.refs = append(c.refs, &node{bits: "01011010"})
		return t, "add-ref"
	case 7:
		if len(c.refs) >= 4 {
			return nil, ""
		}
		c.refs = append([]*node{{bits: "01011010"}}, c.refs...)
		return t, "add-first-ref"
	case 8:
		if len(c.refs) < 2 {
			return nil, ""
		}
		c.refs[0], c.refs[1] = c.refs[1], c.refs[0]
		return t, "swap-refs"
	case 9:
		c.bits = ""
		return t, "empty-cell"
	case 10:
		cells[0].bits = uintBits(uint64(g.rng.Intn(256)), 8) + cells[0].bits[minInt(8, len(cells[0].bits)):]
		return t, "root-tag"
	default:
		if len(c.bits) < 8 {
			return nil, ""
		}
		c.bits = c.bits[:g.rng.Intn(8)]
		return t, "short-head"
	}
}

func minInt(a, b int) int {
	if a < b {
		return a
	}
	return b
}

func (g *gen) mut() error {
	var b built
	if g.rng.Intn(4) == 0 {
		b = g.offchain()
	} else {
		b = g.onchain(g.rng.Intn(4) == 0)
	}
	for tries := 0; tries < 20; tries++ {
		t, what := g.mutate(b.root)
		if t == nil {
			continue
		}
		c, err := t.cell()
		if err != nil {
			continue
		}
		return g.record("mut", "mut:"+what, c, nil)
	}
	c, err := b.root.cell()
	if err != nil {
		return err
	}
	return g.record("mut", "mut:none", c, nil)
}

// ---------------------------------------------------------------- Merge

func (g *gen) meta() Meta {
	m := Meta{F: map[string]string{}}
	for _, a := range Attrs {
		m.F[a] = ""
		if a != "image_data" && g.rng.Intn(5) < 3 {
			m.F[a] = hex.EncodeToString(g.bytes(1+g.rng.Intn(12), g.rng.Intn(3) != 0))
		}
	}
	switch g.rng.Intn(3) {
	case 0:
		m.ImgNil = true
	case 1:
		m.F["image_data"] = hex.EncodeToString(g.bytes(1+g.rng.Intn(40), false))
	}
	return m
}

func (g *gen) merge() error {
	a, b := g.meta(), g.meta()
	bNil := g.rng.Intn(8) == 0
	if bNil {
		b = Meta{F: map[string]string{}, ImgNil: true}
		for _, x := range Attrs {
			b.F[x] = ""
		}
	}
	g.w.Emit(ev.M{"k": "Begin", "i": g.n, "src": "merge"})
	r, err := Merge(a, bNil, b)
	if err != nil {
		return err
	}
	r["k"], r["src"] = "Merge", "rand"
	g.w.Emit(r)
	g.n++
	return nil
}

// Drive (C->S) records decodings of contents built with the library's own encoders, of foreign encodings built cell by
// cell, of single structural mutations of both, and Metadata.Merge calls.
func Drive(w *ev.Writer, o Opts) error {
	w.Sync = true
	g := &gen{rng: rand.New(rand.NewSource(o.Seed*1000003 + int64(o.Shard)*7919 + 17)), w: w}
	nLib, nHand, nMut, nMerge, nText := 40, 130, 90, 60, 40
	if o.Tier == "thorough" {
		nLib, nHand, nMut, nMerge, nText = 800, 3500, 2500, 600, 800
	}
	for _, job := range []struct {
		n int
		f func() error
	}{{nLib, g.lib}, {nHand, g.hand}, {nMut, g.mut}, {nMerge, g.merge}, {nText, g.text}} {
		for i := 0; i < job.n; i++ {
			if err := job.f(); err != nil {
				return err
			}
		}
	}
	w.Emit(ev.M{"k": "End", "events": g.n})
	return nil
}
