// Package x07 drives the token transfer builders (contract/jetton TransferMessage.ToInternal, contract/nft
// ItemTransferMessage.ToInternal) for X07.  It only calls the real code and records the arguments and the message that came
// back (body as a cell table, a few envelope fields); every judgement is made by TLC (spec/TokenTransfer.tla).
package x07

import (
	"bufio"
	"bytes"
	"context"
	"encoding/json"
	"fmt"
	"io"
	"math/big"
	mrand "math/rand"
	"os"
	"strconv"

	"github.com/tonkeeper/tongo/boc"
	"github.com/tonkeeper/tongo/contract/jetton"
	"github.com/tonkeeper/tongo/contract/nft"
	"github.com/tonkeeper/tongo/tep64"
	"github.com/tonkeeper/tongo/tlb"
	"github.com/tonkeeper/tongo/ton"

	"verifharness/internal/cells"
	"verifharness/internal/ev"
)

type Opts struct {
	Tier          string
	Seed          int64
	Shard, Shards int
}

// Xfer is one abstract transfer (see spec/TokenTransfer.tla).
type Xfer struct {
	Vec      int       `json:"vec"`
	Kind     string    `json:"kind"`
	Amount   string    `json:"amount"`
	Dest     string    `json:"dest"`
	Resp     string    `json:"resp"`
	Custom   []cells.C `json:"custom"`
	Fwd      []cells.C `json:"fwd"`
	FwdTon   string    `json:"fwdTon"`
	To       string    `json:"to"`
	Attached string    `json:"attached"`
}

// chain stands for the blockchain interface of contract/jetton: it only knows the sender's jetton wallet.
type chain struct{ wallet ton.AccountID }

func (c chain) GetJettonWallet(ctx context.Context, master, owner ton.AccountID) (ton.AccountID, error) {
	return c.wallet, nil
}
func (c chain) GetJettonData(ctx context.Context, master ton.AccountID) (tep64.Metadata, error) {
	return tep64.Metadata{}, nil
}
func (c chain) GetJettonBalance(ctx context.Context, jettonWallet ton.AccountID) (*big.Int, error) {
	return big.NewInt(0), nil
}

func addr(s string) ton.AccountID {
	a, err := ton.ParseAccountID(s)
	if err != nil {
		panic(fmt.Sprintf("bad address %q: %v", s, err))
	}
	return a
}

func build(rows []cells.C) *boc.Cell {
	if len(rows) == 0 {
		return nil
	}
	cs, err := cells.Build(&cells.Table{Cells: rows, Roots: []int{0}}, false)
	if err != nil {
		panic(err)
	}
	return cs[0]
}

func rowsOf(c *boc.Cell) []cells.C {
	if c == nil {
		return []cells.C{}
	}
	return cells.Project([]*boc.Cell{c}).Cells
}

func addrText(a tlb.MsgAddress) string {
	id, err := ton.AccountIDFromTlb(a)
	if err != nil || id == nil {
		return "none"
	}
	return id.ToRaw()
}

// Run builds the message with the real code and records it.
func Run(w *ev.Writer, x Xfer, extra ev.M) {
	w.Emit(ev.M{"k": "Begin", "kind": x.Kind})
	custom, fwd := build(x.Custom), build(x.Fwd)
	e := ev.M{"k": "Xfer", "kind": x.Kind, "amount": x.Amount, "dest": x.Dest, "resp": x.Resp, "custom": rowsOf(custom), "fwd": rowsOf(fwd),
		"fwdTon": x.FwdTon, "to": x.To, "attached": x.Attached, "err": "", "panic": "", "mode": -1,
		"msg": ev.M{"dest": "", "value": "", "bounce": false, "init": false}, "body": []cells.C{}}
	func() {
		defer func() {
			if r := recover(); r != nil {
				e["panic"] = fmt.Sprint(r)
				e["err"] = "p"
			}
		}()
		att, _ := strconv.ParseUint(x.Attached, 10, 64)
		fwdTon, _ := strconv.ParseUint(x.FwdTon, 10, 64)
		var msg tlb.Message
		var mode uint8
		var err error
		switch x.Kind {
		case "jetton":
			amount, ok := new(big.Int).SetString(x.Amount, 10)
			if !ok {
				panic("bad amount")
			}
			j := jetton.New(addr("0:"+"ab"+x.To[len(x.To)-62:]), chain{addr(x.To)})
			tm := jetton.TransferMessage{Jetton: j, Sender: addr(x.Dest), JettonAmount: amount, Destination: addr(x.Dest), AttachedTon: tlb.Grams(att),
				ForwardTonAmount: tlb.Grams(fwdTon), ForwardPayload: fwd, CustomPayload: custom}
			if x.Resp != "none" {
				r := addr(x.Resp)
				tm.ResponseDestination = &r
			}
			msg, mode, err = tm.ToInternal()
		case "nft":
			if x.Resp == "none" {
				panic("the NFT builder takes a response address by value")
			}
			itm := nft.ItemTransferMessage{ItemAddress: addr(x.To), Destination: addr(x.Dest), ResponseDestination: addr(x.Resp), AttachedTon: tlb.Grams(att),
				ForwardTon: tlb.Grams(fwdTon), ForwardPayload: fwd, CustomPayload: custom}
			msg, mode, err = itm.ToInternal()
		default:
			panic("unknown kind " + x.Kind)
		}
		e["err"] = ev.ErrClass(err)
		if err != nil {
			return
		}
		e["mode"] = int(mode)
		m := ev.M{"dest": "", "value": "", "bounce": false, "init": msg.Init.Exists}
		if msg.Info.SumType == "IntMsgInfo" && msg.Info.IntMsgInfo != nil {
			m["dest"] = addrText(msg.Info.IntMsgInfo.Dest)
			m["value"] = strconv.FormatUint(uint64(msg.Info.IntMsgInfo.Value.Grams), 10)
			m["bounce"] = msg.Info.IntMsgInfo.Bounce
		}
		e["msg"] = m
		body := boc.Cell(msg.Body.Value)
		e["body"] = rowsOf(&body)
	}()
	for k, v := range extra {
		e[k] = v
	}
	w.Emit(e)
}

// Replay (S->C): every generated transfer through the real builder.
func Replay(in string, w *ev.Writer) error {
	w.Sync = true
	f, err := os.Open(in)
	if err != nil {
		return err
	}
	defer f.Close()
	rd := bufio.NewReaderSize(f, 1<<20)
	for {
		line, err := rd.ReadBytes('\n')
		if len(bytes.TrimSpace(line)) > 0 {
			var x Xfer
			if e := json.Unmarshal(line, &x); e != nil {
				return fmt.Errorf("bad vector: %w", e)
			}
			Run(w, x, ev.M{"vec": x.Vec})
		}
		if err == io.EOF {
			break
		}
		if err != nil {
			return err
		}
	}
	w.Emit(ev.M{"k": "End", "events": w.N})
	return nil
}

func randAddr(r *mrand.Rand) string {
	b := make([]byte, 32)
	r.Read(b)
	wc := []int{-1, 0, 0, 0, 1, -128, 127}[r.Intn(7)]
	return fmt.Sprintf("%d:%x", wc, b)
}

func randPayload(r *mrand.Rand) []cells.C {
	if r.Intn(3) == 0 {
		return nil
	}
	t := cells.RandTable(r, 1+r.Intn(4), 300)
	for i := range t.Cells { // ordinary cells only
		t.Cells[i].X = 0
	}
	// one tree under row 0
	cs, err := cells.Build(&cells.Table{Cells: t.Cells, Roots: []int{0}}, false)
	if err != nil {
		return nil
	}
	return cells.Project(cs[:1]).Cells
}

func randAmount(r *mrand.Rand) string {
	switch r.Intn(8) {
	case 0:
		return "0"
	case 1: // around a byte boundary
		k := uint(8 * (1 + r.Intn(15)))
		v := new(big.Int).Lsh(big.NewInt(1), k)
		return v.Add(v, big.NewInt(int64(r.Intn(3)-1))).String()
	case 2: // too big for VarUInteger 16
		v := new(big.Int).Lsh(big.NewInt(1), uint(120+r.Intn(10)))
		return v.String()
	default:
		v := new(big.Int).Rand(r, new(big.Int).Lsh(big.NewInt(1), uint(1+r.Intn(120))))
		return v.String()
	}
}

// Drive (C->S): random transfers.
func Drive(w *ev.Writer, o Opts) {
	w.Sync = true
	r := mrand.New(mrand.NewSource(o.Seed*1000003 + int64(o.Shard)*7919 + 59))
	n := 200
	if o.Tier == "thorough" {
		n = 3000
	}
	for i := 0; i < n; i++ {
		x := Xfer{Kind: "jetton", Amount: randAmount(r), Dest: randAddr(r), Resp: randAddr(r), Custom: randPayload(r), Fwd: randPayload(r),
			To: randAddr(r), Attached: strconv.FormatUint(uint64(r.Int63n(1e11)), 10)}
		switch r.Intn(4) {
		case 0:
			x.FwdTon = "0"
		case 1:
			x.FwdTon = strconv.FormatUint(1<<uint(r.Intn(64)), 10) // up to 2^63: tlb.Grams is a uint64
		default:
			x.FwdTon = strconv.FormatUint(uint64(r.Int63n(1e10)), 10)
		}
		if i%40 == 7 {
			x.FwdTon = strconv.FormatUint(1<<63+uint64(r.Int63n(1e12)), 10)
		}
		if i%3 == 0 {
			x.Kind, x.Amount = "nft", "0"
		} else if r.Intn(3) == 0 {
			x.Resp = "none"
		}
		Run(w, x, nil)
	}
	w.Emit(ev.M{"k": "End", "events": w.N})
}
