// Package c16 drives tlb.Message / tlb.Transaction for property C16 (identity hashes): it builds messages with the
// library, encodes them to cells, decodes them back without and with a caching hasher and records what Hash(false) /
// Hash(true) report together with the source cells; it walks the real blocks of tlb/testdata and records every
// transaction and message with the cell found at its position.  All judging is done by spec/trace/MsgHash_Trace.tla.
package c16

import (
	"encoding/hex"
	"fmt"
	"math/big"
	"math/rand"
	"reflect"

	"github.com/tonkeeper/tongo/boc"
	"github.com/tonkeeper/tongo/tlb"

	"verifharness/internal/cells"
	"verifharness/internal/ev"
)

// Case is one row of the message-shape case analysis (spec/gen/MsgHash_Gen.tla).
type Case struct {
	Kind  string `json:"kind"` // int | ext_in | ext_out
	Init  string `json:"init"` // none | inline | ref
	Body  string `json:"body"` // inline | ref
	Src   string `json:"src"`  // none | extern | std | var
	Dest  string `json:"dest"`
	Any   bool   `json:"any"` // anycast on the internal address (dest of int / ext_in, src of ext_out)
	Fee   string `json:"fee"` // zero | nonzero   (import_fee of ext_in, fwd_fee of int)
	DestV int    `json:"destv"`
	BodyV int    `json:"bodyv"`
}

func (c Case) shape() ev.M {
	return ev.M{"kind": c.Kind, "init": c.Init, "body": c.Body, "src": c.Src, "dest": c.Dest, "any": c.Any, "fee": c.Fee}
}

// Seeds fix the concrete values: the destination is a function of (Dest kind, Dest seed), its anycast prefix too (Any only
// says whether it is attached); the body of the Body seed; everything else (source, fees, state-init, flags) of Other.
type Seeds struct{ Dest, Body, Other int64 }

type builder struct {
	wide    bool // wider value ranges (random C->S recording)
	bodyMax int  // largest inline body in bits (0: default)
	// uniform: the body is a function of (variant, seed) alone — sized so that it fits inline whatever its placement (pairs)
	uniform bool
}

func randBits(r *rand.Rand, n int) boc.BitString {
	bs := boc.NewBitString(n)
	for i := 0; i < n; i++ {
		_ = bs.WriteBit(r.Intn(2) == 1)
	}
	return bs
}

func randCell(r *rand.Rand, maxBits, maxRefs, depth int) *boc.Cell {
	c := boc.NewCell()
	n := 0
	if maxBits > 0 {
		n = r.Intn(maxBits + 1)
	}
	_ = c.WriteBitString(randBits(r, n))
	if depth > 0 && maxRefs > 0 {
		for k := r.Intn(maxRefs + 1); k > 0; k-- {
			_ = c.AddRef(randCell(r, 1023, 4, depth-1))
		}
	}
	return c
}

func (b builder) anycast(r *rand.Rand) tlb.Maybe[tlb.Anycast] {
	d := 1 + r.Intn(30)
	switch r.Intn(6) {
	case 0:
		d = 1
	case 1:
		d = 30
	}
	return tlb.Maybe[tlb.Anycast]{Exists: true, Value: tlb.Anycast{Depth: uint32(d), RewritePfx: uint32(r.Int63n(1 << uint(d)))}}
}

// intAddr: addr_std / addr_var from seed; the anycast prefix is always drawn (so that it is the same with and without), attached iff any.
func (b builder) intAddr(kind string, seed int64, any bool, maxVar int) tlb.MsgAddress {
	r := rand.New(rand.NewSource(seed))
	var a tlb.MsgAddress
	ac := b.anycast(r)
	if kind == "std" {
		a.SumType = "AddrStd"
		a.AddrStd.WorkchainId = int8(r.Intn(256) - 128)
		if r.Intn(3) == 0 {
			a.AddrStd.WorkchainId = []int8{0, -1, 127, -128}[r.Intn(4)]
		}
		r.Read(a.AddrStd.Address[:])
		if any {
			a.AddrStd.Anycast = ac
		}
		return a
	}
	n := 1 + r.Intn(maxVar)
	if r.Intn(8) == 0 {
		n = []int{0, 1, 8, 256, maxVar}[r.Intn(5)]
		if n > maxVar {
			n = maxVar
		}
	}
	v := &struct {
		Anycast     tlb.Maybe[tlb.Anycast]
		AddrLen     tlb.Uint9
		WorkchainId int32
		Address     boc.BitString
	}{AddrLen: tlb.Uint9(n), WorkchainId: int32(r.Uint32()), Address: randBits(r, n)}
	if any {
		v.Anycast = ac
	}
	a.SumType = "AddrVar"
	a.AddrVar = v
	return a
}

func (b builder) extAddr(kind string, r *rand.Rand, maxLen int) tlb.MsgAddress {
	if kind == "none" {
		return tlb.MsgAddress{SumType: "AddrNone"}
	}
	bs := randBits(r, r.Intn(maxLen+1))
	return tlb.MsgAddress{SumType: "AddrExtern", AddrExtern: &bs}
}

// body cells by variant: 0 empty, 1 bits only, 2 / 3 multi-cell
func (b builder) body(v int, seed int64, inline bool, refsLeft int) *boc.Cell {
	r := rand.New(rand.NewSource(seed))
	maxBits, maxRefs := 1023, 4
	if !b.wide {
		maxBits, maxRefs = 160, 2 // one body must fit inline in every shape of the case analysis
	} else if b.uniform {
		maxBits, maxRefs = b.bodyMax, 2
	} else if inline {
		maxBits = b.bodyMax
		if refsLeft < maxRefs {
			maxRefs = refsLeft
		}
	}
	switch v % 4 {
	case 0:
		return boc.NewCell()
	case 1:
		c := boc.NewCell()
		_ = c.WriteBitString(randBits(r, 1+r.Intn(maxBits)))
		return c
	default:
		c := boc.NewCell()
		_ = c.WriteBitString(randBits(r, r.Intn(maxBits+1)))
		k := 0
		if maxRefs > 0 {
			k = 1 + r.Intn(maxRefs)
		}
		for i := 0; i < k; i++ {
			_ = c.AddRef(randCell(r, 1023, 3, 2))
		}
		return c
	}
}

func (b builder) stateInit(r *rand.Rand, inline bool) tlb.StateInit {
	var s tlb.StateInit
	if r.Intn(2) == 0 {
		// (set through reflection: the harness must keep compiling when the field's integer type changes)
		s.SplitDepth.Exists = true
		reflect.ValueOf(&s.SplitDepth.Value).Elem().SetUint(uint64(r.Intn(32)))
	}
	if r.Intn(2) == 0 {
		s.Special = tlb.Maybe[tlb.TickTock]{Exists: true, Value: tlb.TickTock{Tick: r.Intn(2) == 0, Tock: r.Intn(2) == 0}}
	}
	if r.Intn(4) != 0 {
		s.Code = tlb.Maybe[tlb.Ref[boc.Cell]]{Exists: true, Value: tlb.Ref[boc.Cell]{Value: *randCell(r, 300, 2, 1)}}
	}
	if r.Intn(3) != 0 {
		s.Data = tlb.Maybe[tlb.Ref[boc.Cell]]{Exists: true, Value: tlb.Ref[boc.Cell]{Value: *randCell(r, 300, 2, 1)}}
	}
	return s
}

func bigRand(r *rand.Rand, maxBytes int) *big.Int {
	n := 1 + r.Intn(maxBytes)
	bs := make([]byte, n)
	r.Read(bs)
	if bs[0] == 0 {
		bs[0] = 1
	}
	return new(big.Int).SetBytes(bs)
}

// Build makes the message of a case with the library's own types.
func (b builder) Build(cs Case, sd Seeds) (*tlb.Message, error) {
	r := rand.New(rand.NewSource(sd.Other))
	maxVar, maxExt := 96, 96
	if b.wide {
		maxVar, maxExt = 200, 200
	}
	var m tlb.Message
	switch cs.Kind {
	case "ext_in":
		fee := new(big.Int)
		if cs.Fee == "nonzero" {
			fee = bigRand(r, 15)
		}
		m.Info.SumType = "ExtInMsgInfo"
		m.Info.ExtInMsgInfo = &struct {
			Src       tlb.MsgAddress
			Dest      tlb.MsgAddress
			ImportFee tlb.VarUInteger16
		}{Src: b.extAddr(cs.Src, r, maxExt), Dest: b.intAddr(cs.Dest, sd.Dest, cs.Any, maxVar), ImportFee: tlb.VarUInteger16(*fee)}
	case "ext_out":
		m.Info.SumType = "ExtOutMsgInfo"
		m.Info.ExtOutMsgInfo = &struct {
			Src       tlb.MsgAddress
			Dest      tlb.MsgAddress
			CreatedLt uint64
			CreatedAt uint32
		}{Src: b.intAddr(cs.Src, r.Int63(), cs.Any, maxVar), Dest: b.extAddr(cs.Dest, r, maxExt), CreatedLt: r.Uint64(), CreatedAt: r.Uint32()}
	case "int":
		var fwd tlb.Grams
		if cs.Fee == "nonzero" {
			fwd = tlb.Grams(1 + r.Int63n(1<<uint(1+r.Intn(61))))
		}
		m.Info.SumType = "IntMsgInfo"
		m.Info.IntMsgInfo = &struct {
			IhrDisabled bool
			Bounce      bool
			Bounced     bool
			Src         tlb.MsgAddress
			Dest        tlb.MsgAddress
			Value       tlb.CurrencyCollection
			IhrFee      tlb.Grams
			FwdFee      tlb.Grams
			CreatedLt   uint64
			CreatedAt   uint32
		}{IhrDisabled: r.Intn(2) == 0, Bounce: r.Intn(2) == 0, Bounced: r.Intn(2) == 0,
			Src: b.intAddr(cs.Src, r.Int63(), false, maxVar), Dest: b.intAddr(cs.Dest, sd.Dest, cs.Any, maxVar),
			Value:  tlb.CurrencyCollection{Grams: tlb.Grams(r.Int63n(1 << 62))},
			IhrFee: tlb.Grams(r.Int63n(1 << uint(1+r.Intn(40)))), FwdFee: fwd, CreatedLt: r.Uint64(), CreatedAt: r.Uint32()}
	default:
		return nil, fmt.Errorf("unknown kind %q", cs.Kind)
	}
	refsLeft := 4
	switch cs.Init {
	case "inline":
		si := b.stateInit(r, true)
		m.Init = tlb.Maybe[tlb.EitherRef[tlb.StateInit]]{Exists: true, Value: tlb.EitherRef[tlb.StateInit]{IsRight: false, Value: si}}
		if si.Code.Exists {
			refsLeft--
		}
		if si.Data.Exists {
			refsLeft--
		}
	case "ref":
		m.Init = tlb.Maybe[tlb.EitherRef[tlb.StateInit]]{Exists: true, Value: tlb.EitherRef[tlb.StateInit]{IsRight: true, Value: b.stateInit(r, false)}}
		refsLeft--
	}
	body := b.body(cs.BodyV, sd.Body, cs.Body == "inline", refsLeft)
	m.Body = tlb.EitherRef[tlb.Any]{IsRight: cs.Body == "ref", Value: tlb.Any(*body)}
	return &m, nil
}

// decoded: what the library reports for the message carried by a cell
type decoded struct {
	cells          []cells.C
	h, hc, hn, hnc string
	boc            string // the bag the message cell was parsed from (replay input)
	m              *tlb.Message
	hr, hnr        string // the same through a decoder with a library resolver (messages that hold a library cell)
	reused         bool   // decoded into variables that held another message before
	prev           string // ... namely the one in this bag
}

// slots are two Message variables that live across decodes (one for the decoder without, one for the decoder with a
// caching hasher): a program that loops over messages with one variable.  Hash(false)/Hash(true) are asked of the variables
// themselves, so whatever a Message value keeps from the message it held before shows in the report.
type slots struct {
	plain, cached tlb.Message
	used          int
	last          string // the bag decoded into them last
}

// oneCell is ONE boc.Cell variable whose content changes from decode to decode (cell = *root; tlb.Unmarshal(&cell, &x)):
// messages decoded into the long-lived variables and the transactions of records.go all pass through it, so consecutive
// package-level tlb.Unmarshal calls see different records at the same cell address.
var oneCell boc.Cell

// libContent: what the library resolver of the harness answers for any library hash (an ordinary cell)
func libContent() *boc.Cell {
	c := boc.NewCell()
	_ = c.WriteUint(0xC16C16C16, 36)
	_ = c.AddRef(boc.NewCell())
	return c
}

func hasLibraryCell(t []cells.C) bool {
	for _, c := range t {
		if c.X == int(boc.LibraryCell) {
			return true
		}
	}
	return false
}

// cloneMsg: a copy that shares no info record with m (Hash(true) writes into the destination address)
func cloneMsg(m *tlb.Message) *tlb.Message {
	cp := *m
	if m.Info.ExtInMsgInfo != nil {
		x := *m.Info.ExtInMsgInfo
		cp.Info.ExtInMsgInfo = &x
	}
	if m.Info.IntMsgInfo != nil {
		x := *m.Info.IntMsgInfo
		cp.Info.IntMsgInfo = &x
	}
	if m.Info.ExtOutMsgInfo != nil {
		x := *m.Info.ExtOutMsgInfo
		cp.Info.ExtOutMsgInfo = &x
	}
	return &cp
}

// report: Hash(false) / Hash(true) of the variable itself when it is a slot, of a copy otherwise
func report(m *tlb.Message, slot bool) (string, string) {
	if !slot {
		return msgReport(m)
	}
	return hx(m.Hash(false)), hx(m.Hash(true))
}

// libraryCell: library cell (exotic type 2): 8-bit type tag + 256-bit hash
func libraryCell(r *rand.Rand) *boc.Cell {
	c := boc.NewCellExotic(boc.LibraryCell)
	_ = c.WriteUint(2, 8)
	h := make([]byte, 32)
	r.Read(h)
	_ = c.WriteBytes(h)
	return c
}

// roundTrip lays the message out (encodeSpec) and decodes the cell twice: without a hasher (tlb.Unmarshal) on the cell as
// built in memory or as parsed from its bag, and with a caching hasher (dec, shared with earlier messages) on a fresh parse.
// exoticBody, if set, is referenced as the body.
func roundTrip(m *tlb.Message, dec *tlb.Decoder, viaBoc bool, exoticBody *boc.Cell, sl *slots) (*decoded, error) {
	c, err := encodeSpec(m, exoticBody)
	if err != nil {
		return nil, fmt.Errorf("layout: %w", err)
	}
	return decodeCell(c, dec, viaBoc, sl)
}

func decodeCell(c *boc.Cell, dec *tlb.Decoder, viaBoc bool, sl *slots) (*decoded, error) {
	bag, err := c.ToBoc()
	if err != nil {
		return nil, fmt.Errorf("toboc: %w", err)
	}
	return decodeBag(bag, c, dec, viaBoc, sl)
}

// decodeErr: the library refused (or panicked on) a message cell the specification can read: recorded, never fatal
type decodeErr struct {
	stage string
	cells []cells.C
	boc   string
	err   error
}

func (e *decodeErr) Error() string { return e.stage + ": " + e.err.Error() }

// decodeBag decodes the message in `bag` (c: the same cell in memory, or nil) without and with a caching hasher —
// into fresh Message variables, or (sl != nil) into the two long-lived ones.
func decodeBag(bag []byte, c *boc.Cell, dec *tlb.Decoder, viaBoc bool, sl *slots) (*decoded, error) {
	d := &decoded{boc: hex.EncodeToString(bag)}
	m1, m2 := &tlb.Message{}, &tlb.Message{}
	if sl != nil {
		m1, m2 = &sl.plain, &sl.cached
		d.reused, d.prev = sl.used > 0, sl.last
		sl.used++
		sl.last = d.boc
	}
	var err error
	parse := func() (*boc.Cell, error) {
		rs, err := boc.DeserializeBoc(bag)
		if err != nil {
			return nil, fmt.Errorf("parse: %w", err)
		}
		return rs[0], nil
	}
	c1 := c
	if viaBoc || c == nil {
		if c1, err = parse(); err != nil {
			return nil, err
		}
	}
	d.cells = table(c1) // the cell the message is about to be decoded from
	src := c1
	if sl != nil {
		oneCell = *c1
		src = &oneCell
	}
	if err := safely(func() error { return tlb.Unmarshal(src, m1) }); err != nil {
		return nil, &decodeErr{"unmarshal", d.cells, d.boc, err}
	}
	d.m = cloneMsg(m1)
	d.h, d.hn = report(m1, sl != nil)
	c2, err := parse()
	if err != nil {
		return nil, err
	}
	if !reflect.DeepEqual(d.cells, table(c2)) {
		return nil, fmt.Errorf("the bag round trip changed the cells (C01 territory)")
	}
	if err := safely(func() error { return dec.Unmarshal(c2, m2) }); err != nil {
		return nil, &decodeErr{"unmarshal-with-hasher", d.cells, d.boc, err}
	}
	d.hc, d.hnc = report(m2, sl != nil)
	if hasLibraryCell(d.cells) {
		// a decoder that can resolve libraries must still report the message that stands in the cell
		c3, err := parse()
		if err != nil {
			return nil, err
		}
		rdec := tlb.NewDecoder().WithLibraryResolver(func(tlb.Bits256) (*boc.Cell, error) { return libContent(), nil })
		var m3 tlb.Message
		if err := safely(func() error { return rdec.Unmarshal(c3, &m3) }); err != nil {
			return nil, &decodeErr{"unmarshal-with-library-resolver", d.cells, d.boc, err}
		}
		d.hr, d.hnr = msgReport(&m3)
	}
	return d, nil
}

// buildEvent exercises the library's own encoder on the decoded message: Marshal, then decode what it wrote.
//
//	enc / dec: "" or "e";  libcells: the cell the library's encoder produced
func buildEvent(class string, d *decoded) ev.M {
	e := ev.M{"k": "Build", "class": class, "cells": d.cells, "boc": d.boc, "enc": "", "dec": "", "libcells": []cells.C{}}
	c := boc.NewCell()
	if err := safely(func() error { return tlb.Marshal(c, *d.m) }); err != nil {
		e["enc"], e["err"] = "e", err.Error()
		return e
	}
	e["libcells"] = table(c)
	var back tlb.Message
	if err := safely(func() error { return tlb.Unmarshal(c, &back) }); err != nil {
		e["dec"], e["err"] = "e", err.Error()
	}
	return e
}

func safely(f func() error) (err error) {
	defer func() {
		if r := recover(); r != nil {
			err = fmt.Errorf("panic: %v", r)
		}
	}()
	return f()
}
