package c16

import (
	"encoding/hex"
	"fmt"
	"math/rand"
	"strconv"

	"github.com/tonkeeper/tongo/boc"
	"github.com/tonkeeper/tongo/tlb"

	"verifharness/internal/cells"
	"verifharness/internal/ev"
)

// Sessions: sequences of operations on ONE set of source cells and ONE set of destination values (spec/MsgHashSeq.tla).
// The harness never rewinds a cell and never clears a value between the steps: what is recorded is what a program sees that
// decodes a cell again, or decodes into a variable declared outside its loop.  After every Decode every value that holds a
// record is observed (Hash, normalised hash / SourceBoc, a few fields).

type step struct {
	C   string `json:"c"`
	D   int    `json:"d"`
	Dec string `json:"dec"`
}

type session struct {
	kind  string // msg | tx
	cells map[string]*boc.Cell
	nd    int
	steps []step
}

func (s *session) run(w *ev.Writer, extra ev.M) {
	tables := ev.M{}
	for n, c := range s.cells {
		tables[n] = table(c)
	}
	reset := ev.M{"k": "Reset", "p": "C16", "kind": s.kind, "cells": tables, "nd": s.nd}
	for k, v := range extra {
		reset[k] = v
	}
	w.Emit(reset)
	msgs := make([]tlb.Message, s.nd+1)
	txs := make([]tlb.Transaction, s.nd+1)
	held := make([]bool, s.nd+1)
	dec := tlb.NewDecoder()
	for _, st := range s.steps {
		c := s.cells[st.C]
		var dest any = &msgs[st.D]
		if s.kind == "tx" {
			dest = &txs[st.D]
		}
		err := safely(func() error {
			if st.Dec == "cached" {
				return dec.Unmarshal(c, dest)
			}
			return tlb.Unmarshal(c, dest)
		})
		e := ev.M{"k": "Decode", "c": st.C, "d": st.D, "dec": st.Dec, "err": ev.ErrClass(err)}
		if err != nil {
			e["msg"] = err.Error()
		}
		w.Emit(e)
		if err != nil {
			return // what the values hold after a refused decode is nobody's business
		}
		held[st.D] = true
		for d := 1; d <= s.nd; d++ {
			if !held[d] {
				continue
			}
			o := ev.M{"k": "Obs", "d": d}
			perr := safely(func() error {
				if s.kind == "msg" {
					m := &msgs[d]
					o["h"], o["hn"] = hx(m.Hash(false)), hx(m.Hash(true))
					o["sum"] = map[tlb.SumType]string{"IntMsgInfo": "int", "ExtInMsgInfo": "ext_in", "ExtOutMsgInfo": "ext_out"}[m.Info.SumType]
					o["right"] = m.Body.IsRight
					return nil
				}
				t := &txs[d]
				src, serr := t.SourceBoc()
				o["h"], o["src"], o["srcerr"] = hx(t.Hash()), hex.EncodeToString(src), ev.ErrClass(serr)
				o["acc"], o["lt"], o["inp"], o["inh"] = hx(t.AccountAddr), strconv.FormatUint(t.Lt, 10), t.Msgs.InMsg.Exists, ""
				if t.Msgs.InMsg.Exists {
					o["inh"] = hx(t.Msgs.InMsg.Value.Value.Hash(false))
				}
				return nil
			})
			if perr != nil {
				w.Emit(ev.M{"k": "Panic", "panic": perr.Error(), "d": d})
				return
			}
			w.Emit(o)
		}
	}
}

// sessionCells: n distinct source cells of the kind.  Messages are laid out by the harness (encodeSpec), transactions are
// cells of the real block (raw decode of a fresh parse).
func sessionCells(kind string, n int, r *rand.Rand, txPool func() ([]*boc.Cell, error)) (map[string]*boc.Cell, error) {
	out := map[string]*boc.Cell{}
	seen := map[string]bool{}
	names := []string{"A", "B", "C", "D"}[:n]
	var pool []*boc.Cell
	if kind == "tx" {
		var err error
		if pool, err = txPool(); err != nil {
			return nil, err
		}
		if len(pool) < n {
			return nil, fmt.Errorf("only %d transactions to choose from", len(pool))
		}
	}
	bl := builder{wide: true, bodyMax: 100}
	for _, name := range names {
		for try := 0; ; try++ {
			if try > 50 {
				return nil, fmt.Errorf("could not draw %d distinct %s cells", n, kind)
			}
			var c *boc.Cell
			if kind == "tx" {
				c = pool[r.Intn(len(pool))]
			} else {
				cs := randCase(r, pick(r, "int", "ext_in", "ext_in", "ext_out"))
				m, err := bl.Build(cs, Seeds{Dest: r.Int63(), Body: r.Int63(), Other: r.Int63()})
				if err != nil {
					continue
				}
				if c, err = encodeSpec(m, nil); err != nil {
					continue
				}
			}
			key := fmt.Sprint(cells.Project([]*boc.Cell{c}).Cells)
			if seen[key] {
				continue
			}
			seen[key] = true
			out[name] = c
			break
		}
	}
	return out, nil
}

// blockTxPool: the transaction cells of a block, from one fresh parse per call (so that every session starts on cells
// nobody has read yet, while inside a session nothing is ever rewound)
func blockTxPool(data []byte) func() ([]*boc.Cell, error) {
	return func() ([]*boc.Cell, error) {
		raw, err := decodeRaw(data)
		if err != nil {
			return nil, err
		}
		var out []*boc.Cell
		for _, ab := range raw.acc.Values() {
			for _, t := range ab.Transactions.Values() {
				out = append(out, t.C)
			}
		}
		return out, nil
	}
}

// randomSession: a longer walk than the generated behaviours: 3 cells, 3 values, 6..10 steps
func randomSession(kind string, r *rand.Rand, txPool func() ([]*boc.Cell, error)) (*session, error) {
	cs, err := sessionCells(kind, 3, r, txPool)
	if err != nil {
		return nil, err
	}
	s := &session{kind: kind, cells: cs, nd: 3}
	for i := 6 + r.Intn(5); i > 0; i-- {
		s.steps = append(s.steps, step{C: pick(r, "A", "B", "C"), D: 1 + r.Intn(3), Dec: pick(r, "plain", "cached")})
	}
	return s, nil
}
