package c16

import (
	"encoding/hex"
	"fmt"
	"os"
	"path/filepath"
	"sort"
	"strconv"

	"github.com/tonkeeper/tongo/boc"
	"github.com/tonkeeper/tongo/tlb"

	"verifharness/internal/cells"
	"verifharness/internal/ev"
)

// ---------------------------------------------------------------------------------------------
// Raw mirrors of the containers of block.tlb.  They are decoded with the library's generic
// reflection decoder from a *separate parse* of the same bag, but every ^Transaction, ^(Message Any)
// and ^MsgEnvelope is captured as the cell standing at that position instead of being decoded.
// This gives, position by position, the cell each typed record was decoded from without ever asking
// the library for a hash.  (block.tlb: block_extra, acc_trans#5, InMsg, OutMsg, msg_envelope.)

// capHere: a field tagged `tlb:"^"` — the decoder has already stepped into the reference.
type capHere struct{ C *boc.Cell }

func (r *capHere) UnmarshalTLB(c *boc.Cell, _ *tlb.Decoder) error { r.C = c; return nil }

// capRef: a dictionary value of type ^X — takes the next reference of the leaf.
type capRef struct{ C *boc.Cell }

func (r *capRef) UnmarshalTLB(c *boc.Cell, _ *tlb.Decoder) error {
	x, err := c.NextRef()
	r.C = x
	return err
}

type rawAccountBlock struct {
	Magic        tlb.Magic `tlb:"acc_trans#5"`
	AccountAddr  tlb.Bits256
	Transactions tlb.HashmapAug[tlb.Uint64, capRef, tlb.CurrencyCollection]
	StateUpdate  capHere `tlb:"^"`
}

type rawInMsg struct {
	tlb.SumType
	MsgImportExt *struct {
		Msg         capHere `tlb:"^"`
		Transaction capHere `tlb:"^"`
	} `tlbSumType:"msg_import_ext$000"`
	MsgImportIhr *struct {
		Msg          capHere `tlb:"^"`
		Transaction  capHere `tlb:"^"`
		IhrFee       tlb.Grams
		ProofCreated capHere `tlb:"^"`
	} `tlbSumType:"msg_import_ihr$010"`
	MsgImportImm *struct {
		InMsg       capHere `tlb:"^"`
		Transaction capHere `tlb:"^"`
		FwdFee      tlb.Grams
	} `tlbSumType:"msg_import_imm$011"`
	MsgImportFin *struct {
		InMsg       capHere `tlb:"^"`
		Transaction capHere `tlb:"^"`
		FwdFee      tlb.Grams
	} `tlbSumType:"msg_import_fin$100"`
	MsgImportTr *struct {
		InMsg      capHere `tlb:"^"`
		OutMsg     capHere `tlb:"^"`
		TransitFee tlb.Grams
	} `tlbSumType:"msg_import_tr$101"`
	MsgDiscardFin *struct {
		InMsg         capHere `tlb:"^"`
		TransactionId uint64
		FwdFee        tlb.Grams
	} `tlbSumType:"msg_discard_fin$110"`
	MsgDiscardTr *struct {
		InMsg          capHere `tlb:"^"`
		TransactionId  uint64
		FwdFee         tlb.Grams
		ProofDelivered capHere `tlb:"^"`
	} `tlbSumType:"msg_discard_tr$111"`
	MsgImportDeferredFin *struct {
		InMsg       capHere `tlb:"^"`
		Transaction capHere `tlb:"^"`
		FwdFee      tlb.Grams
	} `tlbSumType:"msg_import_deferred_fin$00100"`
	MsgImportDeferredTr *struct {
		InMsg  capHere `tlb:"^"`
		OutMsg capHere `tlb:"^"`
	} `tlbSumType:"msg_import_deferred_tr$00101"`
}

type rawOutMsg struct {
	tlb.SumType
	MsgExportExt *struct {
		Msg         capHere `tlb:"^"`
		Transaction capHere `tlb:"^"`
	} `tlbSumType:"msg_export_ext$000"`
	MsgExportImm *struct {
		OutMsg      capHere  `tlb:"^"`
		Transaction capHere  `tlb:"^"`
		Reimport    rawInMsg `tlb:"^"`
	} `tlbSumType:"msg_export_imm$010"`
	MsgExportNew *struct {
		OutMsg      capHere `tlb:"^"`
		Transaction capHere `tlb:"^"`
	} `tlbSumType:"msg_export_new$001"`
	MsgExportTr *struct {
		OutMsg   capHere  `tlb:"^"`
		Imported rawInMsg `tlb:"^"`
	} `tlbSumType:"msg_export_tr$011"`
	MsgExportDeq *struct {
		OutMsg      capHere `tlb:"^"`
		ImportBlock tlb.Uint63
	} `tlbSumType:"msg_export_deq$1100"`
	MsgExportDeqShort *struct {
		MsgEnvHash     tlb.Bits256
		NextWorkchain  uint32
		NextAddrPrefix uint64
		ImportBlockLt  uint64
	} `tlbSumType:"msg_export_deq_short$1101"`
	MsgExportTrReq *struct {
		OutMsg   capHere  `tlb:"^"`
		Imported rawInMsg `tlb:"^"`
	} `tlbSumType:"msg_export_tr_req$111"`
	MsgExportDeqImm *struct {
		OutMsg   capHere  `tlb:"^"`
		Reimport rawInMsg `tlb:"^"`
	} `tlbSumType:"msg_export_deq_imm$100"`
	MsgExportNewDefer *struct {
		OutMsg      capHere `tlb:"^"`
		Transaction capHere `tlb:"^"`
	} `tlbSumType:"msg_export_new_defer$10100"`
	MsgExportDeferredTr *struct {
		OutMsg   capHere  `tlb:"^"`
		Imported rawInMsg `tlb:"^"`
	} `tlbSumType:"msg_export_deferred_tr$10101"`
}

// one record found at a position of a descriptor entry, typed and raw side
type posMsg struct {
	role string
	m    *tlb.Message
}
type posTx struct {
	role string
	t    *tlb.Transaction
}
type posCell struct {
	role string
	c    *boc.Cell
}

func envMsg(e *tlb.MsgEnvelope) *tlb.Message {
	if e.SumType == "V2" {
		return &e.V2.Msg
	}
	return &e.V1.Msg
}

// msg_envelope#4 / msg_envelope_v2#5 ... msg:^(Message Any): the only reference of the envelope cell
func envCell(c *boc.Cell) *boc.Cell {
	if c == nil || len(c.Refs()) < 1 {
		return nil
	}
	return c.Refs()[0]
}

func typedIn(pfx string, x *tlb.InMsg, ms *[]posMsg, ts *[]posTx) {
	p := pfx + string(x.SumType) + "/"
	switch x.SumType {
	case "MsgImportExt":
		*ms = append(*ms, posMsg{p + "msg", &x.MsgImportExt.Msg})
		*ts = append(*ts, posTx{p + "transaction", &x.MsgImportExt.Transaction})
	case "MsgImportIhr":
		*ms = append(*ms, posMsg{p + "msg", &x.MsgImportIhr.Msg})
		*ts = append(*ts, posTx{p + "transaction", &x.MsgImportIhr.Transaction})
	case "MsgImportImm":
		*ms = append(*ms, posMsg{p + "in_msg", envMsg(&x.MsgImportImm.InMsg)})
		*ts = append(*ts, posTx{p + "transaction", &x.MsgImportImm.Transaction})
	case "MsgImportFin":
		*ms = append(*ms, posMsg{p + "in_msg", envMsg(&x.MsgImportFin.InMsg)})
		*ts = append(*ts, posTx{p + "transaction", &x.MsgImportFin.Transaction})
	case "MsgImportTr":
		*ms = append(*ms, posMsg{p + "in_msg", envMsg(&x.MsgImportTr.InMsg)}, posMsg{p + "out_msg", envMsg(&x.MsgImportTr.OutMsg)})
	case "MsgDiscardFin":
		*ms = append(*ms, posMsg{p + "in_msg", envMsg(&x.MsgDiscardFin.InMsg)})
	case "MsgDiscardTr":
		*ms = append(*ms, posMsg{p + "in_msg", envMsg(&x.MsgDiscardTr.InMsg)})
	case "MsgImportDeferredFin":
		*ms = append(*ms, posMsg{p + "in_msg", envMsg(&x.MsgImportDeferredFin.InMsg)})
		*ts = append(*ts, posTx{p + "transaction", &x.MsgImportDeferredFin.TransactionId})
	case "MsgImportDeferredTr":
		*ms = append(*ms, posMsg{p + "in_msg", envMsg(&x.MsgImportDeferredTr.InMsg)}, posMsg{p + "out_msg", envMsg(&x.MsgImportDeferredTr.OutMsg)})
	}
}

func rawIn(pfx string, x *rawInMsg, ms *[]posCell, ts *[]posCell) {
	p := pfx + string(x.SumType) + "/"
	switch x.SumType {
	case "MsgImportExt":
		*ms = append(*ms, posCell{p + "msg", x.MsgImportExt.Msg.C})
		*ts = append(*ts, posCell{p + "transaction", x.MsgImportExt.Transaction.C})
	case "MsgImportIhr":
		*ms = append(*ms, posCell{p + "msg", x.MsgImportIhr.Msg.C})
		*ts = append(*ts, posCell{p + "transaction", x.MsgImportIhr.Transaction.C})
	case "MsgImportImm":
		*ms = append(*ms, posCell{p + "in_msg", envCell(x.MsgImportImm.InMsg.C)})
		*ts = append(*ts, posCell{p + "transaction", x.MsgImportImm.Transaction.C})
	case "MsgImportFin":
		*ms = append(*ms, posCell{p + "in_msg", envCell(x.MsgImportFin.InMsg.C)})
		*ts = append(*ts, posCell{p + "transaction", x.MsgImportFin.Transaction.C})
	case "MsgImportTr":
		*ms = append(*ms, posCell{p + "in_msg", envCell(x.MsgImportTr.InMsg.C)}, posCell{p + "out_msg", envCell(x.MsgImportTr.OutMsg.C)})
	case "MsgDiscardFin":
		*ms = append(*ms, posCell{p + "in_msg", envCell(x.MsgDiscardFin.InMsg.C)})
	case "MsgDiscardTr":
		*ms = append(*ms, posCell{p + "in_msg", envCell(x.MsgDiscardTr.InMsg.C)})
	case "MsgImportDeferredFin":
		*ms = append(*ms, posCell{p + "in_msg", envCell(x.MsgImportDeferredFin.InMsg.C)})
		*ts = append(*ts, posCell{p + "transaction", x.MsgImportDeferredFin.Transaction.C})
	case "MsgImportDeferredTr":
		*ms = append(*ms, posCell{p + "in_msg", envCell(x.MsgImportDeferredTr.InMsg.C)}, posCell{p + "out_msg", envCell(x.MsgImportDeferredTr.OutMsg.C)})
	}
}

func typedOut(x *tlb.OutMsg, ms *[]posMsg, ts *[]posTx) {
	p := "out_msg_descr:" + string(x.SumType) + "/"
	switch x.SumType {
	case "MsgExportExt":
		*ms = append(*ms, posMsg{p + "msg", &x.MsgExportExt.Msg})
		*ts = append(*ts, posTx{p + "transaction", &x.MsgExportExt.Transaction})
	case "MsgExportImm":
		*ms = append(*ms, posMsg{p + "out_msg", envMsg(&x.MsgExportImm.OutMsg)})
		*ts = append(*ts, posTx{p + "transaction", &x.MsgExportImm.Transaction})
		typedIn(p+"reimport:", &x.MsgExportImm.Reimport, ms, ts)
	case "MsgExportNew":
		*ms = append(*ms, posMsg{p + "out_msg", envMsg(&x.MsgExportNew.OutMsg)})
		*ts = append(*ts, posTx{p + "transaction", &x.MsgExportNew.Transaction})
	case "MsgExportTr":
		*ms = append(*ms, posMsg{p + "out_msg", envMsg(&x.MsgExportTr.OutMsg)})
		typedIn(p+"imported:", &x.MsgExportTr.Imported, ms, ts)
	case "MsgExportDeq":
		*ms = append(*ms, posMsg{p + "out_msg", envMsg(&x.MsgExportDeq.OutMsg)})
	case "MsgExportTrReq":
		*ms = append(*ms, posMsg{p + "out_msg", envMsg(&x.MsgExportTrReq.OutMsg)})
		typedIn(p+"imported:", &x.MsgExportTrReq.Imported, ms, ts)
	case "MsgExportDeqImm":
		*ms = append(*ms, posMsg{p + "out_msg", envMsg(&x.MsgExportDeqImm.OutMsg)})
		typedIn(p+"reimport:", &x.MsgExportDeqImm.Reimport, ms, ts)
	case "MsgExportNewDefer":
		*ms = append(*ms, posMsg{p + "out_msg", envMsg(&x.MsgExportNewDefer.OutMsg)})
		*ts = append(*ts, posTx{p + "transaction", &x.MsgExportNewDefer.Transaction})
	case "MsgExportDeferredTr":
		*ms = append(*ms, posMsg{p + "out_msg", envMsg(&x.MsgExportDeferredTr.OutMsg)})
		typedIn(p+"imported:", &x.MsgExportDeferredTr.Imported, ms, ts)
	}
}

func rawOut(x *rawOutMsg, ms *[]posCell, ts *[]posCell) {
	p := "out_msg_descr:" + string(x.SumType) + "/"
	switch x.SumType {
	case "MsgExportExt":
		*ms = append(*ms, posCell{p + "msg", x.MsgExportExt.Msg.C})
		*ts = append(*ts, posCell{p + "transaction", x.MsgExportExt.Transaction.C})
	case "MsgExportImm":
		*ms = append(*ms, posCell{p + "out_msg", envCell(x.MsgExportImm.OutMsg.C)})
		*ts = append(*ts, posCell{p + "transaction", x.MsgExportImm.Transaction.C})
		rawIn(p+"reimport:", &x.MsgExportImm.Reimport, ms, ts)
	case "MsgExportNew":
		*ms = append(*ms, posCell{p + "out_msg", envCell(x.MsgExportNew.OutMsg.C)})
		*ts = append(*ts, posCell{p + "transaction", x.MsgExportNew.Transaction.C})
	case "MsgExportTr":
		*ms = append(*ms, posCell{p + "out_msg", envCell(x.MsgExportTr.OutMsg.C)})
		rawIn(p+"imported:", &x.MsgExportTr.Imported, ms, ts)
	case "MsgExportDeq":
		*ms = append(*ms, posCell{p + "out_msg", envCell(x.MsgExportDeq.OutMsg.C)})
	case "MsgExportTrReq":
		*ms = append(*ms, posCell{p + "out_msg", envCell(x.MsgExportTrReq.OutMsg.C)})
		rawIn(p+"imported:", &x.MsgExportTrReq.Imported, ms, ts)
	case "MsgExportDeqImm":
		*ms = append(*ms, posCell{p + "out_msg", envCell(x.MsgExportDeqImm.OutMsg.C)})
		rawIn(p+"reimport:", &x.MsgExportDeqImm.Reimport, ms, ts)
	case "MsgExportNewDefer":
		*ms = append(*ms, posCell{p + "out_msg", envCell(x.MsgExportNewDefer.OutMsg.C)})
		*ts = append(*ts, posCell{p + "transaction", x.MsgExportNewDefer.Transaction.C})
	case "MsgExportDeferredTr":
		*ms = append(*ms, posCell{p + "out_msg", envCell(x.MsgExportDeferredTr.OutMsg.C)})
		rawIn(p+"imported:", &x.MsgExportDeferredTr.Imported, ms, ts)
	}
}

// ---------------------------------------------------------------------------------------------

func hx(b tlb.Bits256) string { return hex.EncodeToString(b[:]) }

// msgReport is what the library says about one decoded message: Hash(false) and Hash(true).
// Hash(true) is taken from a copy because it clears the anycast flag of the destination in place.
func msgReport(m *tlb.Message) (h, hn string) {
	h = hx(m.Hash(false))
	cp := *m
	if m.Info.ExtInMsgInfo != nil {
		info := *m.Info.ExtInMsgInfo
		cp.Info.ExtInMsgInfo = &info
	}
	hn = hx(cp.Hash(true))
	return
}

type blockView struct {
	typed *tlb.Block
	in    tlb.HashmapAugE[tlb.Bits256, tlb.InMsg, tlb.ImportFees]
	out   tlb.HashmapAugE[tlb.Bits256, tlb.OutMsg, tlb.CurrencyCollection]
}

// decodeTyped parses the bag afresh and decodes it with the library, with (cached=true: one tlb.NewDecoder for
// the block and both descriptors, so the second and third positions of a record meet a warm cache) or without
// a caching hasher.
func decodeTyped(data []byte, cached bool) (*blockView, error) {
	roots, err := boc.DeserializeBoc(data)
	if err != nil {
		return nil, err
	}
	v := &blockView{typed: &tlb.Block{}}
	if cached {
		dec := tlb.NewDecoder()
		if err := dec.Unmarshal(roots[0], v.typed); err != nil {
			return nil, err
		}
		if err := dec.Unmarshal(&v.typed.Extra.InMsgDescrCell, &v.in); err != nil {
			return nil, err
		}
		if err := dec.Unmarshal(&v.typed.Extra.OutMsgDescrCell, &v.out); err != nil {
			return nil, err
		}
		return v, nil
	}
	if err := tlb.Unmarshal(roots[0], v.typed); err != nil {
		return nil, err
	}
	if v.in, err = v.typed.Extra.InMsgDescr(); err != nil {
		return nil, err
	}
	if v.out, err = v.typed.Extra.OutMsgDescr(); err != nil {
		return nil, err
	}
	return v, nil
}

type rawView struct {
	acc tlb.HashmapAugE[tlb.Bits256, rawAccountBlock, tlb.CurrencyCollection]
	in  tlb.HashmapAugE[tlb.Bits256, rawInMsg, tlb.ImportFees]
	out tlb.HashmapAugE[tlb.Bits256, rawOutMsg, tlb.CurrencyCollection]
}

// decodeRaw: block#11ef55aa global_id info:^ value_flow:^ state_update:^ extra:^BlockExtra; block_extra
// in_msg_descr:^InMsgDescr out_msg_descr:^OutMsgDescr account_blocks:^ShardAccountBlocks ...
func decodeRaw(data []byte) (*rawView, error) {
	roots, err := boc.DeserializeBoc(data)
	if err != nil {
		return nil, err
	}
	if len(roots[0].Refs()) < 4 {
		return nil, fmt.Errorf("block root has %d references", len(roots[0].Refs()))
	}
	extra := roots[0].Refs()[3]
	if len(extra.Refs()) < 3 {
		return nil, fmt.Errorf("block_extra has %d references", len(extra.Refs()))
	}
	v := &rawView{}
	// equal cells of one bag are one *boc.Cell with one read cursor (an empty out_msg_descr and an empty
	// account_blocks are the same 6 bits): rewind before every use
	for _, r := range extra.Refs() {
		r.ResetCounters()
	}
	if err := tlb.Unmarshal(extra.Refs()[0], &v.in); err != nil {
		return nil, fmt.Errorf("raw in_msg_descr: %w", err)
	}
	extra.Refs()[1].ResetCounters()
	if err := tlb.Unmarshal(extra.Refs()[1], &v.out); err != nil {
		return nil, fmt.Errorf("raw out_msg_descr: %w", err)
	}
	extra.Refs()[2].ResetCounters()
	if err := tlb.Unmarshal(extra.Refs()[2], &v.acc); err != nil {
		return nil, fmt.Errorf("raw account_blocks: %w", err)
	}
	return v, nil
}

func table(c *boc.Cell) []cells.C { return cells.Project([]*boc.Cell{c}).Cells }

// txEvent: one transaction at one position, as reported by an uncached and a cached decode, with the cell standing there.
func txEvent(src, pos string, cell *boc.Cell, a, b *tlb.Transaction, full bool) ev.M {
	e := ev.M{"k": "Tx", "src": src, "pos": pos, "cells": table(cell), "acc": hx(a.AccountAddr), "lt": strconv.FormatUint(a.Lt, 10),
		"h": hx(a.Hash()), "hc": hx(b.Hash()), "full": full}
	if !full {
		return e
	}
	ba, erra := a.SourceBoc()
	bb, errb := b.SourceBoc()
	e["boc"], e["bocc"] = hex.EncodeToString(ba), hex.EncodeToString(bb)
	// a caller owns the bytes it was given: wipe them and ask again — every answer must be the transaction's bag
	for i := range ba {
		ba[i] = 0
	}
	for i := range bb {
		bb[i] = 0xff
	}
	ba2, erra2 := a.SourceBoc()
	bb2, errb2 := b.SourceBoc()
	e["boc2"], e["bocc2"] = hex.EncodeToString(ba2), hex.EncodeToString(bb2)
	e["bocerr"] = ev.ErrClass(erra) + ev.ErrClass(errb) + ev.ErrClass(erra2) + ev.ErrClass(errb2)
	im := ev.M{"p": a.Msgs.InMsg.Exists, "pc": b.Msgs.InMsg.Exists}
	if a.Msgs.InMsg.Exists && b.Msgs.InMsg.Exists {
		im["h"], im["hn"] = msgReport(&a.Msgs.InMsg.Value.Value)
		im["hc"], im["hnc"] = msgReport(&b.Msgs.InMsg.Value.Value)
	}
	e["im"] = im
	om := []ev.M{}
	ia, ib := a.Msgs.OutMsgs.Items(), b.Msgs.OutMsgs.Items()
	e["nout"], e["noutc"] = len(ia), len(ib)
	for i := range ia {
		o := ev.M{"key": int(ia[i].Key)}
		o["h"], o["hn"] = msgReport(&ia[i].Value.Value)
		if i < len(ib) && ib[i].Key == ia[i].Key {
			o["hc"], o["hnc"] = msgReport(&ib[i].Value.Value)
		} else {
			o["hc"], o["hnc"] = "", ""
		}
		om = append(om, o)
	}
	e["om"] = om
	return e
}

func msgAtEvent(src, pos, key string, cell *boc.Cell, a, b *tlb.Message) ev.M {
	e := ev.M{"k": "MsgAt", "src": src, "pos": pos, "key": key, "cells": table(cell)}
	e["h"], e["hn"] = msgReport(a)
	e["hc"], e["hnc"] = msgReport(b)
	return e
}

// Blocks records every transaction and message of the selected real blocks.  stride > 1 keeps every
// stride-th account block / descriptor entry (offset by the seed) — the quick-tier sample of the big blocks.
// keep (optional) selects the records to build at all (replay of one recorded position).
func driveBlock(w *ev.Writer, name string, data []byte, stride, offset int, sh, shards int, n, occ *int, keep func(pos, id string) bool) error {
	a, err := decodeTyped(data, false)
	if err != nil {
		return fmt.Errorf("%s uncached: %w", name, err)
	}
	b, err := decodeTyped(data, true)
	if err != nil {
		return fmt.Errorf("%s cached: %w", name, err)
	}
	r, err := decodeRaw(data)
	if err != nil {
		return fmt.Errorf("%s: %w", name, err)
	}
	// id: account+lt of a transaction, dictionary key of a descriptor message; the event is only built for the shard that records it
	emit := func(pos, id string, mk func() ev.M) {
		if *n%shards == sh && (keep == nil || keep(pos, id)) {
			w.Emit(mk())
		}
		*n++
	}
	pick := func(i int) bool { return stride <= 1 || (i+2*offset)%stride == 0 }
	seen := map[string]bool{}
	ntx := 0
	// ---- account_blocks: (account, lt) -> ^Transaction
	abA, abB, abR := a.typed.Extra.AccountBlocks.Values(), b.typed.Extra.AccountBlocks.Values(), r.acc.Values()
	if len(abA) != len(abB) || len(abA) != len(abR) {
		return fmt.Errorf("%s: account blocks %d/%d/%d", name, len(abA), len(abB), len(abR))
	}
	for i := range abA {
		ta, tb, tr := abA[i].Transactions.Values(), abB[i].Transactions.Values(), abR[i].Transactions.Values()
		if len(ta) != len(tb) || len(ta) != len(tr) || abA[i].AccountAddr != abR[i].AccountAddr {
			return fmt.Errorf("%s: account block %d does not line up", name, i)
		}
		for j := range ta {
			j := j
			ntx++
			if !pick(ntx * 2) { // the sample is taken over transactions (twice as dense as over descriptor entries)
				continue
			}
			emit("account_blocks", hx(ta[j].Value.AccountAddr)+":"+strconv.FormatUint(ta[j].Value.Lt, 10), func() ev.M {
				return txEvent(name, "account_blocks", tr[j].C, &ta[j].Value, &tb[j].Value, true)
			})
		}
	}
	// ---- the public accessor: Block.AllTransactions() hands out one pointer per transaction of the block (sorted by lt).
	// Its entries are set against the transaction cells of the block's tree, one to one: both lists ordered by (lt, account).
	{
		type rawTx struct {
			acc string
			lt  uint64
			c   *boc.Cell
		}
		var rs []rawTx
		for i := range abR {
			for _, t := range abR[i].Transactions.Values() {
				// transaction$0111 account_addr:bits256 lt:uint64 ...: read from the cell itself
				t.C.ResetCounters()
				_ = t.C.Skip(4)
				ab, err1 := t.C.ReadBytes(32)
				lt, err2 := t.C.ReadUint(64)
				t.C.ResetCounters()
				if err1 != nil || err2 != nil {
					return fmt.Errorf("%s: transaction cell too short", name)
				}
				rs = append(rs, rawTx{hex.EncodeToString(ab), lt, t.C})
			}
		}
		sort.SliceStable(rs, func(i, j int) bool { return rs[i].lt < rs[j].lt || (rs[i].lt == rs[j].lt && rs[i].acc < rs[j].acc) })
		ord := func(ts []*tlb.Transaction) []*tlb.Transaction {
			out := append([]*tlb.Transaction(nil), ts...)
			sort.SliceStable(out, func(i, j int) bool {
				return out[i].Lt < out[j].Lt || (out[i].Lt == out[j].Lt && hx(out[i].AccountAddr) < hx(out[j].AccountAddr))
			})
			return out
		}
		la, lb := ord(a.typed.AllTransactions()), ord(b.typed.AllTransactions())
		if len(la) != len(rs) || len(lb) != len(rs) {
			// the accessor lost or invented entries: one event no specification action accepts
			emit("Block.AllTransactions", "count", func() ev.M {
				return ev.M{"k": "Count", "src": name, "pos": "Block.AllTransactions", "cells_in_tree": len(rs), "entries": len(la), "entries_cached": len(lb)}
			})
		} else {
			for i := range rs {
				i := i
				if !pick(2 * (i + 1)) {
					continue
				}
				emit("Block.AllTransactions", rs[i].acc+":"+strconv.FormatUint(rs[i].lt, 10), func() ev.M {
					return txEvent(name, "Block.AllTransactions", rs[i].c, la[i], lb[i], true)
				})
			}
		}
	}
	// ---- in_msg_descr / out_msg_descr: the same records decoded again at other positions
	ka, va, vb, vr := a.in.Keys(), a.in.Values(), b.in.Values(), r.in.Values()
	if len(va) != len(vb) || len(va) != len(vr) {
		return fmt.Errorf("%s: in_msg_descr %d/%d/%d", name, len(va), len(vb), len(vr))
	}
	descr := func(key string, ma, mb []posMsg, ta, tb []posTx, mr, tr []posCell) error {
		if len(ma) != len(mr) || len(ma) != len(mb) || len(ta) != len(tr) || len(ta) != len(tb) {
			return fmt.Errorf("%s: descriptor entry %s does not line up", name, key)
		}
		for k := range ma {
			if ma[k].role != mr[k].role || mr[k].c == nil {
				return fmt.Errorf("%s: descriptor entry %s: %s vs %s", name, key, ma[k].role, mr[k].role)
			}
			k := k
			emit(ma[k].role, key, func() ev.M { return msgAtEvent(name, ma[k].role, key, mr[k].c, ma[k].m, mb[k].m) })
		}
		for k := range ta {
			if ta[k].role != tr[k].role || tr[k].c == nil {
				return fmt.Errorf("%s: descriptor entry %s: %s vs %s", name, key, ta[k].role, tr[k].role)
			}
			// one transaction is referenced from every descriptor entry of its messages: record each distinct
			// (transaction, position kind, reported hashes) once — a report that differs is always recorded
			id := hx(ta[k].t.AccountAddr) + strconv.FormatUint(ta[k].t.Lt, 10) + ta[k].role + hx(ta[k].t.Hash()) + hx(tb[k].t.Hash())
			*occ++
			if seen[id] {
				continue
			}
			seen[id] = true
			k := k
			emit(ta[k].role, hx(ta[k].t.AccountAddr)+":"+strconv.FormatUint(ta[k].t.Lt, 10), func() ev.M {
				return txEvent(name, ta[k].role, tr[k].c, ta[k].t, tb[k].t, false)
			})
		}
		return nil
	}
	for i := range va {
		if !pick(i) {
			continue
		}
		var ma, mb []posMsg
		var ta, tb []posTx
		var mr, tr []posCell
		typedIn("in_msg_descr:", &va[i], &ma, &ta)
		typedIn("in_msg_descr:", &vb[i], &mb, &tb)
		rawIn("in_msg_descr:", &vr[i], &mr, &tr)
		if err := descr(hx(ka[i]), ma, mb, ta, tb, mr, tr); err != nil {
			return err
		}
	}
	ko, oa, ob, or := a.out.Keys(), a.out.Values(), b.out.Values(), r.out.Values()
	if len(oa) != len(ob) || len(oa) != len(or) {
		return fmt.Errorf("%s: out_msg_descr %d/%d/%d", name, len(oa), len(ob), len(or))
	}
	for i := range oa {
		if !pick(i) {
			continue
		}
		var ma, mb []posMsg
		var ta, tb []posTx
		var mr, tr []posCell
		typedOut(&oa[i], &ma, &ta)
		typedOut(&ob[i], &mb, &tb)
		rawOut(&or[i], &mr, &tr)
		if err := descr(hx(ko[i]), ma, mb, ta, tb, mr, tr); err != nil {
			return err
		}
	}
	return nil
}

// blockFiles: tlb/testdata/block-*/block.bin
func blockFiles(repo string) ([]string, error) {
	fs, err := filepath.Glob(filepath.Join(repo, "tlb", "testdata", "block-*", "block.bin"))
	if err != nil || len(fs) == 0 {
		return nil, fmt.Errorf("no real blocks under %s/tlb/testdata", repo)
	}
	return fs, nil
}

func readBlock(p string) (string, []byte, error) {
	b, err := os.ReadFile(p)
	return filepath.Base(filepath.Dir(p)), b, err
}
