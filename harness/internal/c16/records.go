package c16

import (
	"fmt"

	"github.com/tonkeeper/tongo/boc"
	"github.com/tonkeeper/tongo/tlb"

	"verifharness/internal/ev"
)

// Records derived from the real transactions: (1) the transaction inside a Merkle proof in which bodies of its messages are
// pruned — its cell and the cells of those messages then have a non-zero level, and their identity is still the representation
// hash; (2) the transaction rebuilt around an incoming message whose body is a tree of N cells, so that the whole transaction
// has a chosen number of distinct cells (SourceBoc must parse back for every size).

func resetAll(c *boc.Cell, seen map[*boc.Cell]bool) {
	if seen[c] {
		return
	}
	seen[c] = true
	c.ResetCounters()
	for _, r := range c.Refs() {
		resetAll(r, seen)
	}
}

func digit(i int) string { return string(rune('0' + i)) }

// prunable: paths (reference indices from the transaction cell) to cells the decoder keeps as opaque cells — the referenced
// body of in_msg / of each out message, or the last reference of an inline body.
func prunable(tx *boc.Cell, t *tlb.Transaction) []string {
	var out []string
	bodyPath := func(pfx string, cell *boc.Cell, m *tlb.Message) {
		b := boc.Cell(m.Body.Value)
		if n := cell.RefsSize(); n > 0 && (m.Body.IsRight || b.RefsSize() > 0) {
			out = append(out, pfx+digit(n-1))
		}
	}
	if tx.RefsSize() < 1 {
		return nil
	}
	msgs := tx.Refs()[0]
	next := 0
	if t.Msgs.InMsg.Exists {
		if msgs.RefsSize() < 1 {
			return nil
		}
		bodyPath("00", msgs.Refs()[0], &t.Msgs.InMsg.Value.Value)
		next = 1
	}
	items := t.Msgs.OutMsgs.Items()
	if len(items) > 0 && msgs.RefsSize() > next {
		// HashmapE 15 ^(Message Any): a fork has two references, a leaf one (the message); leaves left to right = keys ascending
		i := 0
		var walk func(c *boc.Cell, path string)
		walk = func(c *boc.Cell, path string) {
			switch c.RefsSize() {
			case 2:
				walk(c.Refs()[0], path+"0")
				walk(c.Refs()[1], path+"1")
			case 1:
				if i < len(items) {
					bodyPath(path+"0", c.Refs()[0], &items[i].Value.Value)
				}
				i++
			}
		}
		walk(msgs.Refs()[next], "0"+digit(next))
		if i != len(items) {
			return nil
		}
	}
	return out
}

// proofEvent: nil when nothing of the transaction can be pruned
func proofEvent(src string, tx *boc.Cell, typed *tlb.Transaction) (ev.M, error) {
	paths := prunable(tx, typed)
	if len(paths) == 0 {
		return nil, nil
	}
	resetAll(tx, map[*boc.Cell]bool{})
	prover, err := boc.NewMerkleProver(tx)
	if err != nil {
		return nil, err
	}
	cur := prover.Cursor()
	for _, p := range paths {
		c := cur
		for _, ch := range p {
			c = c.Ref(int(ch - '0'))
		}
		c.Prune()
	}
	bag, err := prover.CreateProof(cur)
	if err != nil {
		return nil, err
	}
	parse := func() (*boc.Cell, error) {
		rs, err := boc.DeserializeBoc(bag)
		if err != nil {
			return nil, err
		}
		if len(rs) != 1 || rs[0].RefsSize() != 1 {
			return nil, fmt.Errorf("proof bag has an unexpected shape")
		}
		return rs[0].Refs()[0], nil
	}
	c1, err := parse()
	if err != nil {
		return nil, err
	}
	if c1.Level() == 0 {
		return nil, fmt.Errorf("the proved transaction has level 0")
	}
	c2, err := parse()
	if err != nil {
		return nil, err
	}
	var a, b, b2 tlb.Transaction
	oneCell = *c1 // the package-level Unmarshal meets record after record at one cell address
	if err := tlb.Unmarshal(&oneCell, &a); err != nil {
		return nil, fmt.Errorf("proved transaction: %w", err)
	}
	dec := tlb.NewDecoder()
	if err := dec.Unmarshal(c2, &b); err != nil {
		return nil, fmt.Errorf("proved transaction, caching decoder: %w", err)
	}
	e := txEvent(src, "proof:account_blocks", c1, &a, &b, true)
	// the same cells met a second time by the same decoder
	resetAll(c2, map[*boc.Cell]bool{})
	if err := dec.Unmarshal(c2, &b2); err != nil {
		return nil, fmt.Errorf("proved transaction, caching decoder, second time: %w", err)
	}
	e["proof"], e["pruned"], e["hc2"] = true, len(paths), hx(b2.Hash())
	return e, nil
}

// bodyTree: n distinct cells as a 4-ary tree (depth ~ log4 n)
func bodyTree(n int) *boc.Cell {
	cs := make([]*boc.Cell, n)
	for i := n - 1; i >= 0; i-- {
		c := boc.NewCell()
		_ = c.WriteUint(0xC16, 12)
		_ = c.WriteUint(uint64(i), 36)
		for k := 4*i + 1; k <= 4*i+4 && k < n; k++ {
			_ = c.AddRef(cs[k])
		}
		cs[i] = c
	}
	return cs[0]
}

func withRef(c *boc.Cell, i int, ref *boc.Cell) (*boc.Cell, error) {
	n := boc.NewCell()
	if err := n.WriteBitString(c.RawBitString()); err != nil {
		return nil, err
	}
	for j, r := range c.Refs() {
		if j == i {
			r = ref
		}
		if err := n.AddRef(r); err != nil {
			return nil, err
		}
	}
	return n, nil
}

// rebuiltEvent: the transaction with the referenced body of its in_msg replaced so that it has `total` distinct cells
func rebuiltEvent(src string, tx *boc.Cell, typed *tlb.Transaction, total int) (ev.M, error) {
	if !typed.Msgs.InMsg.Exists || !typed.Msgs.InMsg.Value.Value.Body.IsRight {
		return nil, nil
	}
	build := func(n int) (*boc.Cell, error) {
		msgs := tx.Refs()[0]
		in := msgs.Refs()[0]
		in2, err := withRef(in, in.RefsSize()-1, bodyTree(n))
		if err != nil {
			return nil, err
		}
		msgs2, err := withRef(msgs, 0, in2)
		if err != nil {
			return nil, err
		}
		return withRef(tx, 0, msgs2)
	}
	probe, err := build(1)
	if err != nil {
		return nil, err
	}
	n := total - (len(table(probe)) - 1)
	if n < 1 {
		return nil, nil
	}
	c1, err := build(n)
	if err != nil {
		return nil, err
	}
	if got := len(table(c1)); got != total {
		return nil, fmt.Errorf("rebuilt transaction has %d cells, wanted %d", got, total)
	}
	c2, _ := build(n)
	var a, b tlb.Transaction
	oneCell = *c1
	if err := tlb.Unmarshal(&oneCell, &a); err != nil {
		return nil, fmt.Errorf("rebuilt transaction: %w", err)
	}
	if err := tlb.NewDecoder().Unmarshal(c2, &b); err != nil {
		return nil, fmt.Errorf("rebuilt transaction, caching decoder: %w", err)
	}
	return txEvent(src, fmt.Sprintf("rebuilt:%d-cells", total), c1, &a, &b, true), nil
}

// driveRecords: proofs for every stride-th transaction of the block, rebuilt transactions of the given sizes from its first
// suitable transaction.  Events are dealt to the shards by the shared counter n.
func driveRecords(w *ev.Writer, name string, data []byte, stride, offset int, sizes []int, sh, shards int, n *int) error {
	typed, err := decodeTyped(data, false)
	if err != nil {
		return err
	}
	raw, err := decodeRaw(data)
	if err != nil {
		return err
	}
	emit := func(mk func() (ev.M, error)) error {
		mine := *n%shards == sh
		*n++
		if !mine {
			return nil
		}
		e, err := mk()
		if err != nil {
			return err
		}
		if e != nil {
			w.Emit(e)
		}
		return nil
	}
	abT, abR := typed.typed.Extra.AccountBlocks.Values(), raw.acc.Values()
	k := 0
	rebuilt := len(sizes) == 0
	for i := range abT {
		tt, tr := abT[i].Transactions.Values(), abR[i].Transactions.Values()
		for j := range tt {
			j := j
			k++
			if stride > 0 && (k+offset)%stride == 0 {
				if err := emit(func() (ev.M, error) { return proofEvent(name, tr[j].C, &tt[j].Value) }); err != nil {
					return err
				}
			}
			if !rebuilt && tt[j].Value.Msgs.InMsg.Exists && tt[j].Value.Msgs.InMsg.Value.Value.Body.IsRight {
				rebuilt = true
				for _, total := range sizes {
					total := total
					if err := emit(func() (ev.M, error) { return rebuiltEvent(name, tr[j].C, &tt[j].Value, total) }); err != nil {
						return err
					}
				}
			}
		}
	}
	if !rebuilt {
		return fmt.Errorf("%s: no transaction with an incoming message whose body is in a reference", name)
	}
	return nil
}
